(** The C11 model over the EXTENDED universe (Options/YValue.v), round 3.
    The dispatcher, key cleaning, set hashing etc. are those of OptModel.v
    (same names, shadowing) and of the previous extended model; what is new:

      ignore_nan_inequality  at the head of _diff, after the type check: t1 is a float whose str is
                             'nan' and str(t2) == 'nan' (a nan object, or - reachable only through
                             use_enum_value - the string 'nan'); the identity shortcut `t1 is t2`
                             in front of it is modelled for nan objects and Enum members
      use_enum_value         at the head of _diff when the two TYPES differ: each Enum side is
                             replaced by its value and the type check is SKIPPED, so the comparer
                             chosen by the type of t1 meets an operand of any type (finding
                             C11-ENUM-TYPE: the leaf function returns Err where the code raises); None on BOTH sides after
                             the substitution is not reported (C11-ENUM-NONE, fixed in /repo by c9e614d);
                             two members of one class are compared by _diff_enum (children
                             .name / .value); as dict keys only under key cleaning, and then the
                             value is taken as it is (C11-ENUM-KEY); in DeepHash before hashing
      number_format_notation 'e' (o_note): round(x, d) first, then '{:.de}' (for floats: of the
                             double nearest to the rounded decimal), one leading 0 of the exponent
                             removed
      Decimal                exact decimal arithmetic (quantize, ROUND_HALF_EVEN); math.isclose sees
                             float(Decimal) = the nearest double; == across number types is exact
      date / time / timedelta  _diff_time: compared with != ; under truncate_datetime
                             datetime_normalize is applied: a time becomes its seconds (int or
                             float), a date / timedelta is left alone (C11-TRUNC-DATE, fixed in /repo by 1c8f0f8)
      the numeric type group contains datetime / date / time / timedelta as in helper.numbers: under
                             ignore_numeric_type_changes a number and a datetime pass the type check
                             (C11-NUMGROUP-DATETIME)

    Results are Ok (entries, recorded opcode paths) | Err (exception class).
    Definitions only. *)
From Coq Require Import List ZArith NArith Bool Arith String.
Import ListNotations.
From DD Require Import Base.PyStr Options.OptModel Options.OptDtModel Options.YValue.

(* ---------------------------------------------------------------------- *)
(* results                                                                  *)
(* ---------------------------------------------------------------------- *)
Inductive errk := EType (* TypeError *) | EValue (* ValueError *) | EAttr (* AttributeError *).
Inductive res (A : Type) := Ok (x : A) | Err (e : errk).
Arguments Ok {A} x.
Arguments Err {A} e.
Definition bind {A B} (r : res A) (f : A -> res B) : res B :=
  match r with Ok x => f x | Err e => Err e end.
Definition err_of {A} (r : res A) : option errk := match r with Ok _ => None | Err e => Some e end.
Definition first_err (a b : option errk) : option errk := match a with Some e => Some e | None => b end.

(* ---------------------------------------------------------------------- *)
(* options                                                                  *)
(* ---------------------------------------------------------------------- *)
Definition dy := (Z * N)%type.          (* the number  fst / 2^snd *)

Record opts := mkOpts {
  o_case : bool;              (* ignore_string_case *)
  o_strty : bool;             (* ignore_string_type_changes *)
  o_numty : bool;             (* ignore_numeric_type_changes *)
  o_sig : option N;           (* significant_digits *)
  o_eps : option dy;          (* math_epsilon: the exact value of the double *)
  o_excl : list ty;           (* exclude_types *)
  o_trunc : option tunit;     (* truncate_datetime *)
  o_tz : Z;                   (* default_timezone: UTC offset in minutes (default 0) *)
  o_nan : bool;               (* ignore_nan_inequality *)
  o_enum : bool;              (* use_enum_value *)
  o_note : bool               (* number_format_notation = 'e' (false: 'f') *)
}.
Definition no_opts : opts := mkOpts false false false None None [] None 0%Z false false false.

(* Base.get_significant_digits *)
Definition eff_sig (F : opts) : option N :=
  match o_sig F with
  | Some d => Some d
  | None => if o_numty F then Some 12%N else None
  end.

(* isinstance(x, tuple(exclude_types)) by the type of x; bool is a subclass of int, datetime of date *)
Definition excluded (F : opts) (t : ty) : bool :=
  existsb (fun e => ty_eqb e t || (ty_eqb e TInt && ty_eqb t TBool) || (ty_eqb e TDate && ty_eqb t TDatetime)) (o_excl F).
Definition excl_opt (F : opts) (o : option value) : bool :=
  match o with Some v => excluded F (type_of v) | None => false end.

(* ---------------------------------------------------------------------- *)
(* numbers: dy, rhe, num_str, is_close ... of OptModel.v, plus rationals    *)
(* ---------------------------------------------------------------------- *)
Definition dy_of_atom (a : atom) : option dy := num_of a.

Local Open Scope Z_scope.
(* round-half-even of p / q  (q > 0) *)
Definition rhe_q (p q : Z) : Z :=
  let k := p / q in
  let r := p mod q in
  if 2 * r <? q then k else if q <? 2 * r then k + 1 else if Z.even k then k else k + 1.
(* m / 2^e in lowest terms *)
Fixpoint dy_canon_aux (fuel : nat) (m : Z) (e : N) : dy :=
  match fuel with
  | O => (m, e)
  | S f => if (N.eqb e 0 || Z.odd m)%bool then (m, e) else dy_canon_aux f (m / 2) (N.pred e)
  end.
Definition dy_canon (x : dy) : dy := if fst x =? 0 then (0, 0%N) else dy_canon_aux (N.to_nat (snd x)) (fst x) (snd x).
(* the double nearest to p / q (q > 0; round-half-even on 53 bits; subnormals and overflow are outside the model) *)
Definition dy_of_q (p q : Z) : dy :=
  if p =? 0 then (0, 0%N) else
  let a := Z.abs p in
  let s0 := 52 - (Z.log2 a - Z.log2 q) in
  let fl s := if 0 <=? s then (a * 2 ^ s) / q else a / (q * 2 ^ (- s)) in
  let s := if fl s0 <? 2 ^ 52 then s0 + 1 else s0 in
  let n := if 0 <=? s then rhe_q (a * 2 ^ s) q else rhe_q a (q * 2 ^ (- s)) in
  let n := if p <? 0 then - n else n in
  if 0 <=? s then dy_canon (n, Z.to_N s) else (n * 2 ^ (- s), 0%N).
(* float(x) for a number x *)
Definition dy_of_dec (m e : Z) : dy := if 0 <=? e then dy_of_q (m * 10 ^ e) 1 else dy_of_q m (10 ^ (- e)).
(* Decimal.quantize(10^-d, ROUND_HALF_EVEN) as an integer multiple of 10^-d *)
Definition dec_rhe (m e : Z) (d : N) : Z :=
  let s := e + Z.of_N d in
  if 0 <=? s then m * 10 ^ s else rhe_q m (10 ^ (- s)).

(* floor(log10(p / q)) for p, q > 0 *)
Fixpoint ilog10_neg (fuel : nat) (p q : Z) (k : Z) : Z :=
  match fuel with
  | O => - k
  | S f => if q <=? p * 10 ^ k then - k else ilog10_neg f p q (k + 1)
  end.
Definition ilog10 (p q : Z) : Z :=
  if q <=? p then Z.of_nat (List.length (p_of_Z (p / q))) - 1
  else ilog10_neg (S (Z.to_nat (Z.log2 q))) p q 1.
(* '{:.de}'.format(y) for y = (-1)^neg * p / q, followed by the removal of one leading zero of the exponent *)
Definition sci_str (d : N) (neg : bool) (p q : Z) : pystr :=
  if p =? 0 then (dec_str 0 d ++ s2p "e+0")%list else
  let X := ilog10 p q in
  let sh := Z.of_N d - X in
  let M0 := if 0 <=? sh then rhe_q (p * 10 ^ sh) q else rhe_q p (q * 10 ^ (- sh)) in
  let M := if 10 ^ (Z.of_N d + 1) <=? M0 then M0 / 10 else M0 in
  let X' := if 10 ^ (Z.of_N d + 1) <=? M0 then X + 1 else X in
  ((if neg then [45%N] else []) ++ dec_str M d ++ [101%N] ++ (if X' <? 0 then [45%N] else [43%N]) ++ p_of_Z (Z.abs X'))%list.
Local Close Scope Z_scope.

(* helper.number_to_string of the number k / 10^d that round() / quantize produced *)
Definition fmt_num (F : opts) (d : N) (k : Z) (is_float : bool) : pystr :=
  if o_note F then
    if is_float && negb (N.eqb d 0)
    then let x := dy_of_q k (pow10 d) in sci_str d (fst x <? 0)%Z (Z.abs (fst x)) (two_p (snd x))
    else sci_str d (k <? 0)%Z (Z.abs k) (pow10 d)
  else dec_str k d.

Local Open Scope string_scope.
(* number_to_string(a, significant_digits=d) for an atom that is an instance of helper.numbers
   (which contains the datetime types: round(datetime) raises TypeError); None: a is returned as it is *)
Definition nstr (F : opts) (d : N) (a : atom) : option (res pystr) :=
  match a with
  | ABool _ | AInt _ => match num_of a with Some x => Some (Ok (fmt_num F d (rhe x d) false)) | None => None end
  | AFloat m e => Some (Ok (fmt_num F d (rhe (m, e) d) true))
  | ADec m e => Some (Ok (fmt_num F d (dec_rhe m e d) false))
  | ANan _ => Some (if N.eqb d 0 then Err EValue else Ok (s2p "nan"))      (* int(round(nan, 0)) *)
  | ADt _ _ | ADate _ _ _ | ATime _ | ATd _ => Some (Err EType)
  | _ => None
  end.

(* float(x) inside math.isclose: None = TypeError (not a real number); Some None = nan *)
Definition fl_of (a : atom) : option (option dy) :=
  match a with
  | ABool _ | AInt _ | AFloat _ _ => Some (num_of a)
  | ADec m e => Some (Some (dy_of_dec m e))
  | ANan _ => Some None
  | _ => None
  end.

(* time_to_seconds(t): an int, or seconds + microsecond / 1000000 in double arithmetic *)
Definition time_secs (us : Z) : atom :=
  let s := (us / 1000000)%Z in
  let f := (us mod 1000000)%Z in
  if (f =? 0)%Z then AInt s
  else let x := dy_of_q f 1000000 in
       let y := dy_of_q (s * two_p (snd x) + fst x) (two_p (snd x)) in
       AFloat (fst y) (snd y).

(* datetime_normalize: the aware datetime in default_timezone with the instant dt_instant *)
Definition dt_norm (F : opts) (us : Z) (off : option Z) : atom :=
  ADt (dt_instant (o_trunc F) (o_tz F) (mkDt us off) + 60000000 * o_tz F)%Z (Some (o_tz F)).

(* ---------------------------------------------------------------------- *)
(* strings                                                                  *)
(* ---------------------------------------------------------------------- *)
Definition lowif (F : opts) (s : pystr) : pystr := if o_case F then lower s else s.
Definition colon : pystr := [58%N].
Definition ty_name (a : atom) : pystr :=
  match a with
  | ANone => s2p "NoneType" | ABool _ => s2p "bool" | AInt _ => s2p "int" | AFloat _ _ | ANan _ => s2p "float"
  | AStr _ => s2p "str" | ABytes _ => s2p "bytes" | ADt _ _ => s2p "datetime"
  | ADec _ _ => s2p "Decimal" | ADate _ _ _ => s2p "date" | ATime _ => s2p "time" | ATd _ => s2p "timedelta"
  | AEnum c _ _ _ => c
  end.
Definition num_tag (F : opts) (a : atom) : pystr := if o_numty F then s2p "number" else ty_name a.

Definition str_like (t : ty) : bool := match t with TStr | TBytes => true | _ => false end.
(* isinstance(x, helper.numbers): only_numbers + the datetime types *)
Definition num_like (t : ty) : bool :=
  match t with TBool | TInt | TFloat | TDecimal | TDatetime | TDate | TTime | TTimedelta => true | _ => false end.
(* the ignore_type_in_groups test of _diff for two objects of different type *)
Definition same_group (F : opts) (ta tb : ty) : bool :=
  (o_strty F && str_like ta && str_like tb) || (o_numty F && num_like ta && num_like tb).

(* repr of a float: the exact decimal expansion, at least one fractional digit, trailing zeros dropped
   (what repr gives when the expansion has <= 15 significant digits and 1e-4 <= |x| < 1e16) *)
Fixpoint strip0 (rev_digits : pystr) : pystr :=
  match rev_digits with
  | d :: r => if N.eqb d 48 then strip0 r else rev_digits
  | [] => []
  end.
Definition float_repr (m : Z) (e : N) : pystr :=
  let a := Z.abs m in
  let ip := (a / two_p e)%Z in
  let fr := ((a mod two_p e) * Z.pow 5 (Z.of_N e))%Z in            (* fractional part * 10^e *)
  let fd := rev (strip0 (rev (pad0 (N.to_nat e) (p_of_Z fr)))) in
  ((if (m <? 0)%Z then [45%N] else []) ++ p_of_Z ip ++ [46%N] ++ match fd with [] => [48%N] | _ => fd end)%list.

(* stand-ins for the str() of objects whose text only ever meets texts of the same kind: instant and zone
   determine str(datetime normalised with default_timezone); (m, e) determine str(Decimal); ... *)
Definition dt_text (F : opts) (us : Z) (off : option Z) : pystr :=
  (s2p "datetime:" ++ p_of_Z (dt_instant None (o_tz F) (mkDt us off)) ++ [64%N] ++ p_of_Z (o_tz F))%list.
Definition dec_text (m e : Z) : pystr := (p_of_Z m ++ [69%N] ++ p_of_Z e)%list.
Definition date_text (y mo d : Z) : pystr := (p_of_Z y ++ [45%N] ++ p_of_Z mo ++ [45%N] ++ p_of_Z d)%list.

(* the text DeepHash feeds to the hasher for a set member; only equality of
   hashes is ever used, so (sha256 being injective on these texts - a trusted
   assumption) the text stands for the hash *)
Definition prep_string (F : opts) (tyn : pystr) (s : pystr) : pystr :=
  lowif F ((if o_strty F then [] else tyn ++ colon) ++ s)%list.
(* _prep_number *)
Definition num_text (F : opts) (a : atom) (plain : pystr) : pystr :=
  (num_tag F a ++ colon ++ match eff_sig F with
                           | Some d => match nstr F d a with Some (Ok s) => s | _ => plain end
                           | None => plain
                           end)%list.
Definition hatom0 (F : opts) (a : atom) : pystr :=
  match a with
  | AStr s => prep_string F (s2p "str") s
  | ABytes s => prep_string F (s2p "bytes") s
  | ANone => prep_string F (s2p "str") (s2p "NONE")
  | ABool b => prep_string F (s2p "str") (s2p (if b then "bool:true" else "bool:false"))
  | AInt z => prep_string F (s2p "str") (num_text F a (p_of_Z z))
  | AFloat m e => prep_string F (s2p "str") (num_text F a (float_repr m e))
  | ANan _ => prep_string F (s2p "str") (num_text F a (s2p "nan"))
  | ADec m e => prep_string F (s2p "str") (num_text F a (dec_text m e))
  | ADt us off => prep_string F (s2p "str") (dt_text F us off)
  | ADate y mo d => prep_string F (s2p "str") (s2p "datetime:" ++ date_text y mo d)%list        (* _prep_date *)
  | ATime us => prep_string F (s2p "str") (s2p "datetime:secs:" ++ p_of_Z us)%list               (* _prep_datetime of the seconds *)
  | ATd us => prep_string F (s2p "str") (s2p "timedelta:" ++ p_of_Z us)%list                     (* _prep_number, no precision *)
  | AEnum _ _ _ _ => []
  end.
Definition hatomF (F : opts) (a : atom) : pystr :=
  match a with
  | AEnum c n o v =>
      if o_enum F then hatom0 F (atom_of_e v)                      (* obj = obj.value *)
      else prep_string F (s2p "str")                               (* _prep_obj over _name_, _sort_order_, _value_ *)
             (s2p "obj" ++ c ++ s2p ":{" ++ hatom0 F (AStr n) ++ s2p ";" ++ hatom0 F (AInt (Z.of_nat o)) ++ s2p ";"
              ++ hatom0 F (atom_of_e v) ++ s2p "}")%list
  | _ => hatom0 F a
  end.
(* the exception hashing a set member raises, if any: number_to_string on nan (0 digits) / timedelta *)
Definition hatom_err (F : opts) (a : atom) : option errk :=
  match eff_sig F with
  | None => None
  | Some d =>
      match a with
      | ANan _ | ATd _ => match nstr F d a with Some (Err e) => Some e | _ => None end
      | _ => None
      end
  end.
(* DeepHash._skip_this sees BoolObj for a bool: never an instance of an excluded type; an Enum member is
   replaced by its value first under use_enum_value *)
Definition excl_hash (F : opts) (a : atom) : bool :=
  match a with
  | ABool _ => false
  | AEnum _ _ _ v => if o_enum F then excluded F (atom_ty (atom_of_e v)) else excluded F (atom_ty a)
  | _ => excluded F (atom_ty a)
  end.

(* ---------------------------------------------------------------------- *)
(* key cleaning                                                             *)
(* ---------------------------------------------------------------------- *)
Definition cleaning (F : opts) : bool := o_strty F || o_numty F || o_case F.

(* _get_clean_to_keys_mapping, one key: bytes (decoded under ignore_string_type_changes) elif Enum member
   (its value under use_enum_value, NOT cleaned further) elif number (rendered when a precision is in force)
   else the key; then lower-cased if it is a str *)
Definition low_atom (F : opts) (k : atom) : atom := match k with AStr s => AStr (lowif F s) | _ => k end.
Definition clean_key (F : opts) (k : atom) : res atom :=
  match k with
  | ABytes s => if o_strty F then Ok (AStr (lowif F s)) else Ok k   (* a bytes clean key is not lower-cased *)
  | AEnum _ _ _ v => if o_enum F then Ok (low_atom F (atom_of_e v)) else Ok k
  | AStr s => Ok (AStr (lowif F s))
  | ANone => Ok ANone
  | _ =>
      match eff_sig F with
      | Some d =>
          match nstr F d k with
          | Some (Ok s) => Ok (AStr (lowif F (num_tag F k ++ colon ++ s)%list))
          | Some (Err e) => Err e          (* round(datetime): C11-DATETIME-KEY; int(round(nan, 0)): C11-SIG0-NAN *)
          | None => Ok k
          end
      | None => Ok k                (* no precision in force: the key stays itself (d664dbb; before: ValueError, K8) *)
      end
  end.
(* the mapping clean -> original; the first key of a clean class wins *)
Fixpoint clean_map (F : opts) (ks : list atom) (acc : list (atom * atom)) : res (list (atom * atom)) :=
  match ks with
  | [] => Ok (rev acc)
  | k :: r =>
      bind (clean_key F k) (fun ck =>
        if mem_atom ck (map fst acc) then clean_map F r acc
        else clean_map F r ((ck, k) :: acc))
  end.

Section Opt.
Variable udiff : pystr -> pystr -> pystr.
Variable ops : path -> list value -> list value -> list opcode.
Variable c : cfg.
Variable F : opts.

(* _report_result: _skip_this by exclude_types on either side *)
Definition reportF (k : rkind) (p1 p2 : path) (a b : option value) (d : option pystr) : list entry :=
  if excl_opt F a || excl_opt F b then [] else [mkEntry k p1 p2 a b d].
Definition rep_atoms (k : rkind) (p1 p2 : path) (a b : atom) : list entry :=
  reportF k p1 p2 (Some (VAtom a)) (Some (VAtom b)) None.

Definition str_content (a : atom) : pystr :=
  match a with AStr s | ABytes s => s | _ => [] end.
Definition with_content (a : atom) (s : pystr) : atom :=
  match a with AStr _ => AStr s | ABytes _ => ABytes s | _ => a end.
Definition is_bytes (a : atom) : bool := match a with ABytes _ => true | _ => false end.

(* _diff_str; both atoms are str or bytes *)
Definition diff_strF (a b : atom) (p1 p2 : path) : list entry :=
  let s := lowif F (str_content a) in
  let t := lowif F (str_content b) in
  let a' := with_content a s in
  let b' := with_content b t in
  let same_ty := ty_eqb (atom_ty a) (atom_ty b) in
  let asc := (if is_bytes a then is_ascii s else true) && (if is_bytes b then is_ascii t else true) in
  if pystr_eqb s t && (same_ty || asc) then []
  else
    let d := if asc && (has_nl s || has_nl t)
             then match udiff s t with [] => None | x => Some x end else None in
    reportF KValue p1 p2 (Some (VAtom a')) (Some (VAtom b')) d.
(* _diff_str when t2 is not a string (reachable only after use_enum_value skipped the type check):
   t2.lower() / t2_str.splitlines() raise AttributeError, otherwise the pair is reported *)
Definition strD (a b : atom) (p1 p2 : path) : res (list entry) :=
  if str_like (atom_ty b) then Ok (diff_strF a b p1 p2)
  else if o_case F then Err EAttr
  else if (if is_bytes a then is_ascii (str_content a) else true) && has_nl (str_content a) then Err EAttr
  else Ok (rep_atoms KValue p1 p2 a b).

(* _diff_numbers; rtc = report_type_change (the two types are equal); t1 is a number, t2 anything *)
Definition py_ne (a b : atom) : bool := is_nan a || is_nan b || negb (py_eq a b).
(* "{}:{}".format(type, number_to_string(x)): None = a text no number rendering equals *)
Definition ntxt (d : N) (a : atom) : res (option pystr) :=
  match nstr F d a with
  | Some (Ok s) => Ok (Some s)
  | Some (Err e) => Err e
  | None => match a with AStr s => Ok (Some s) | _ => Ok None end
  end.
Definition numD (rtc : bool) (a b : atom) (p1 p2 : path) : res (list entry) :=
  let rep := rep_atoms KValue p1 p2 a b in
  match o_eps F with
  | Some e =>
      match fl_of a, fl_of b with
      | Some (Some x), Some (Some y) => Ok (if is_close x y e then [] else rep)
      | Some _, Some _ => Ok rep                       (* math.isclose with a nan: False *)
      | _, _ => Err EType                              (* must be real number, not ... *)
      end
  | None =>
      match eff_sig F with
      | None => Ok (if py_ne a b then rep else [])
      | Some d =>
          bind (ntxt d a) (fun ta => bind (ntxt d b) (fun tb =>
            match ta, tb with
            | Some x, Some y =>
                let s1 := ((if rtc then num_tag F a else []) ++ colon ++ x)%list in
                let s2 := ((if rtc then num_tag F b else []) ++ colon ++ y)%list in
                Ok (if pystr_eqb s1 s2 then [] else rep)
            | _, _ => Ok rep
            end))
      end
  end.

(* datetime_normalize(truncate_datetime, obj) for an arbitrary atom: only datetimes and times are truncated / converted
   (1c8f0f8; before, obj.replace(microsecond=...) was called on everything: TypeError on a date, AttributeError on a
   timedelta - finding C11-TRUNC-DATE); the result type is kept, the function never errs *)
Definition norm_any (a : atom) : res atom :=
  match a with
  | ADt u o => Ok (dt_norm F u o)
  | ATime us => Ok (time_secs (dt_trunc (o_trunc F) us))
  | _ => Ok a
  end.
(* _diff_datetime: t1 is a datetime *)
Definition dtD (a b : atom) (p1 p2 : path) : res (list entry) :=
  match a, b with
  | ADt u1 o1, ADt u2 o2 =>
      Ok (if dt_changed (o_trunc F) (o_tz F) (mkDt u1 o1) (mkDt u2 o2)
          then rep_atoms KValue p1 p2 (dt_norm F u1 o1) (dt_norm F u2 o2) else [])
  | _, _ => bind (norm_any a) (fun a' => bind (norm_any b) (fun b' => Ok (rep_atoms KValue p1 p2 a' b')))
  end.
(* _diff_time: t1 is a date, time or timedelta; normalised only under truncate_datetime *)
Definition timeD (a b : atom) (p1 p2 : path) : res (list entry) :=
  match o_trunc F with
  | Some _ => bind (norm_any a) (fun a' => bind (norm_any b) (fun b' =>
                Ok (if py_ne a' b' then rep_atoms KValue p1 p2 a' b' else [])))
  | None => Ok (if py_ne a b then rep_atoms KValue p1 p2 a b else [])
  end.

(* the comparer _diff picks by the type of t1 (bool, str, datetime, date/time/timedelta, number) *)
Definition dispatch (rtc : bool) (a b : atom) (p1 p2 : path) : res (list entry) :=
  match a with
  | ABool _ => Ok (if py_ne a b then rep_atoms KValue p1 p2 a b else [])
  | AStr _ | ABytes _ => strD a b p1 p2
  | ADt _ _ => dtD a b p1 p2
  | ADate _ _ _ | ATime _ | ATd _ => timeD a b p1 p2
  | AInt _ | AFloat _ _ | ADec _ _ | ANan _ => numD rtc a b p1 p2
  | ANone | AEnum _ _ _ _ => Ok []
  end.

Definition is_none (a : atom) : bool := match a with ANone => true | _ => false end.
Definition unwrap (a : atom) : atom :=
  match a with AEnum _ _ _ v => if o_enum F then atom_of_e v else a | _ => a end.
(* str(t) == 'nan' *)
Definition str_is_nan (a : atom) : bool :=
  match a with ANan _ => true | AStr s => pystr_eqb s (s2p "nan") | _ => false end.

(* _diff on two atoms neither of which is compared as an Enum member *)
Definition leaf_core (a b : atom) (p1 p2 : path) : res (list entry) :=
  if same_obj a b then Ok [] else
  if excluded F (atom_ty a) || excluded F (atom_ty b) then Ok [] else
  if ty_eqb (atom_ty a) (atom_ty b) then
    if o_nan F && is_nan a && str_is_nan b then Ok [] else dispatch true a b p1 p2
  else
    let unw := o_enum F && (is_enum a || is_enum b) in
    if negb (same_group F (atom_ty a) (atom_ty b)) && negb unw then Ok (rep_atoms KType p1 p2 a b)
    else
      let a' := unwrap a in
      let b' := unwrap b in
      if is_none a' || is_none b' then Ok (if is_none a' && is_none b' then [] else rep_atoms KValue p1 p2 a' b')   (* c9e614d: only when t1 is not t2 *)
      else if o_nan F && is_nan a' && str_is_nan b' then Ok []
      else dispatch false a' b' p1 p2.

(* _diff on two atoms; two different members of one Enum class go through _diff_enum: the children
   .name and .value (and __objclass__, the same object on both sides) *)
Definition attr_name : pystr := s2p "name".
Definition attr_value : pystr := s2p "value".
Definition leafR (a b : atom) (p1 p2 : path) : res (list entry) :=
  match a, b with
  | AEnum c n _ v, AEnum c' n' _ v' =>
      if pystr_eqb c c' then
        if pystr_eqb n n' then Ok []                     (* the same member: `t1 is t2` *)
        else if excluded F (atom_ty a) then Ok []
        else
          bind (leaf_core (AStr n) (AStr n') (snoc p1 (PAttr attr_name)) (snoc p2 (PAttr attr_name))) (fun r1 =>
          bind (leaf_core (atom_of_e v) (atom_of_e v') (snoc p1 (PAttr attr_value)) (snoc p2 (PAttr attr_value))) (fun r2 =>
            Ok (r1 ++ r2)%list))
      else leaf_core a b p1 p2
  | _, _ => leaf_core a b p1 p2
  end.
(* what is reported, and what is raised *)
Definition diff_atomF (a b : atom) (p1 p2 : path) : list entry :=
  match leafR a b p1 p2 with Ok es => es | Err _ => [] end.
Definition atom_err (a b : atom) : option errk := err_of (leafR a b [] []).

Definition diff_leafF (x y : value) (p1 p2 : path) : list entry :=
  match x, y with
  | VAtom a, VAtom b => diff_atomF a b p1 p2
  | _, _ => []
  end.
Definition leaf_err (x y : value) : option errk :=
  match x, y with
  | VAtom a, VAtom b => atom_err a b
  | _, _ => None
  end.

Fixpoint removed_fromF (xs : list value) (i : nat) (p1 p2 : path) : list entry :=
  match xs with
  | [] => []
  | x :: r => reportF KIterRem (snoc p1 (PIdx i)) (snoc p2 (PIdx i)) (Some x) None None
              ++ removed_fromF r (S i) p1 p2
  end.
Fixpoint added_fromF (ys : list value) (j : nat) (p1 p2 : path) : list entry :=
  match ys with
  | [] => []
  | y :: r => reportF KIterAdd (snoc p1 (PIdx j)) (snoc p2 (PIdx j)) None (Some y) None
              ++ added_fromF r (S j) p1 p2
  end.

Fixpoint pairs_leafF (xs ys : list value) (i j : nat) (p1 p2 : path) {struct xs} : list entry :=
  match xs, ys with
  | [], _ => added_fromF ys j p1 p2
  | _ :: _, [] => removed_fromF xs i p1 p2
  | x :: xs', y :: ys' =>
      (if negb (Nat.eqb i j) && py_eq_leaf x y
       then reportF KIterMoved (snoc p1 (PIdx i)) (snoc p2 (PIdx j)) (Some x) (Some y) None
       else diff_leafF x y (snoc p1 (PIdx i)) (snoc p2 (PIdx j)))
      ++ pairs_leafF xs' ys' (S i) (S j) p1 p2
  end.
(* the first exception of the pairwise pass *)
Fixpoint pairs_err (xs ys : list value) (i j : nat) {struct xs} : option errk :=
  match xs, ys with
  | x :: xs', y :: ys' =>
      first_err (if negb (Nat.eqb i j) && py_eq_leaf x y then None else leaf_err x y)
                (pairs_err xs' ys' (S i) (S j))
  | _, _ => None
  end.

Definition by_opcodesF (os : list opcode) (xs ys : list value) (p1 p2 : path) : list entry :=
  flat_map (fun o =>
    match otag o with
    | OEqual => []
    | OReplace => pairs_leafF (slice xs (oi1 o) (oi2 o)) (slice ys (oj1 o) (oj2 o)) (oi1 o) (oj1 o) p1 p2
    | ODelete => removed_fromF (slice xs (oi1 o) (oi2 o)) (oi1 o) p1 p2
    | OInsert => added_fromF (slice ys (oj1 o) (oj2 o)) (oj1 o) p1 p2
    end) os.
Definition by_opcodes_err (os : list opcode) (xs ys : list value) : option errk :=
  fold_right (fun o acc =>
    first_err (match otag o with
               | OReplace => pairs_err (slice xs (oi1 o) (oi2 o)) (slice ys (oj1 o) (oj2 o)) (oi1 o) (oj1 o)
               | _ => None
               end) acc) None os.

Definition default_leaf_listF (xs ys : list value) (p1 p2 : path) : list entry * bool :=
  let pass1 := by_opcodesF (ops p1 xs ys) xs ys p1 p2 in
  if Nat.ltb 1 (List.length pass1) then
    let pass2 := pairs_leafF xs ys 0 0 p1 p2 in
    if Nat.leb (List.length pass2) (List.length pass1) then (pass2, false) else (pass1, true)
  else (pass1, false).
(* the difflib pass raises first; the pairwise pass is only run after more than one report *)
Definition default_leaf_err (xs ys : list value) (p1 p2 : path) : option errk :=
  first_err (by_opcodes_err (ops p1 xs ys) xs ys)
            (if Nat.ltb 1 (List.length (by_opcodesF (ops p1 xs ys) xs ys p1 p2)) then pairs_err xs ys 0 0 else None).

(* _diff_set: members of an excluded type are not hashed (bools are: BoolObj),
   and a reported member of an excluded type is skipped *)
Definition report_setF (k : rkind) (a : atom) (p1 p2 : path) : list entry :=
  if excluded F (atom_ty a) then [] else
  [mkEntry k p1 p2 (match k with KSetAdd => None | _ => Some (VAtom a) end)
                   (match k with KSetAdd => Some (VAtom a) | _ => None end) None].
Definition diff_setF (xs0 ys0 : list atom) (p1 p2 : path) : list entry :=
  let xs := filter (fun a => negb (excl_hash F a)) xs0 in
  let ys := filter (fun a => negb (excl_hash F a)) ys0 in
  let hx := map (hatomF F) xs in
  let hy := map (hatomF F) ys in
  (flat_map (fun y => if existsb (pystr_eqb (hatomF F y)) hx then []
                      else report_setF KSetAdd y p1 p2) (first_per_hash (hatomF F) ys [])
   ++ flat_map (fun x => if existsb (pystr_eqb (hatomF F x)) hy then []
                         else report_setF KSetRem x p1 p2) (first_per_hash (hatomF F) xs []))%list.
Definition set_err (xs0 ys0 : list atom) : option errk :=
  fold_right (fun a acc => first_err (if excl_hash F a then None else hatom_err F (unwrap a)) acc) None (xs0 ++ ys0)%list.

(* ---- dictionaries ---- *)
(* t_clean_to_keys (None when no cleaning option is set) and the key sets *)
Definition kmap (ks : list atom) : res (list (atom * atom)) :=
  if cleaning F then clean_map F ks [] else Ok [].
Definition ckeys (ks : list atom) (km : list (atom * atom)) : list atom :=
  if cleaning F then map fst km else ks.
(* t_clean_to_keys[key] if t_clean_to_keys else key *)
Definition orig_key (km : list (atom * atom)) (ck : atom) : atom :=
  if cleaning F then match assoc ck km with Some k => k | None => ck end else ck.
(* the clean key of k, when k is the key that represents its clean class *)
Definition repr_ckey (km : list (atom * atom)) (k : atom) : option atom :=
  if cleaning F then
    match clean_key F k with
    | Ok ck => if atom_eqb (orig_key km ck) k then Some ck else None
    | Err _ => None
    end
  else Some k.

(* threshold_to_diff_deeper (no exclude_paths) *)
Definition shortcutF (k1 k2 : list atom) : bool :=
  if Nat.eqb (thr_num c) 0 then false else
  let inter := filter (fun k => mem_atom k k1) k2 in
  let union := (k2 ++ filter (fun k => negb (mem_atom k k2)) k1)%list in
  let ulen := List.length union in
  Nat.ltb 1 ulen && Nat.ltb (List.length inter * thr_den c) (thr_num c * ulen).

(* reports of added / removed keys, in order *)
Fixpoint key_reports (kind : rkind) (cks other : list atom) (km : list (atom * atom))
         (kvs : list (atom * value)) (p1 p2 : path) : list entry :=
  match cks with
  | [] => []
  | ck :: r =>
      if mem_atom ck other then key_reports kind r other km kvs p1 p2
      else
        let k := orig_key km ck in
        let v := assoc k kvs in
        (match kind with
         | KDictAdd => reportF kind (snoc p1 (PKey k)) (snoc p2 (PKey k)) None v None
         | _ => reportF kind (snoc p1 (PKey k)) (snoc p2 (PKey k)) v None None
         end ++ key_reports kind r other km kvs p1 p2)%list
  end.

(* a container on one side, an Enum member on the other, under use_enum_value (the type check is skipped).
   t1 the container: iterating / indexing the member's value raises TypeError, except that None is caught by
   the None test (a str / bytes value would be iterated as a sequence of characters: NOT modelled, the model
   answers Err EType there too and the correspondence does not generate that combination).
   t1 the member: the comparer of its value's type meets the container. *)
Definition mixedF (t1 t2 : value) (p1 p2 : path) : res (list entry * list path) :=
  match t1, t2 with
  | VAtom a, VAtom b => Ok ([], [])
  | _, VAtom b =>
      if is_none (unwrap b) then Ok (reportF KValue p1 p2 (Some t1) (Some (VAtom ANone)) None, [])
      else Err EType
  | VAtom a, _ =>
      let a' := unwrap a in
      let rep := reportF KValue p1 p2 (Some (VAtom a')) (Some t2) None in
      match a' with
      | ANone => Ok (rep, [])
      | AStr s | ABytes s =>
          if o_case F then Err EAttr
          else if (if is_bytes a' then is_ascii s else true) && has_nl s then Err EAttr
          else Ok (rep, [])
      | AInt _ | AFloat _ _ => match o_eps F with Some _ => Err EType | None => Ok (rep, []) end
      | _ => Ok (rep, [])
      end
  | _, _ => Ok ([], [])
  end.

(* ---- _diff ---- *)
Definition is_enum_v (v : value) : bool := match v with VAtom a => is_enum a | _ => false end.
Fixpoint diffF (t1 t2 : value) (p1 p2 : path) {struct t1} : res (list entry * list path) :=
  match t1, t2 with
  | VAtom a, VAtom b => bind (leafR a b p1 p2) (fun es => Ok (es, []))
  | _, _ =>
  if excluded F (type_of t1) || excluded F (type_of t2) then Ok ([], []) else
  if negb (ty_eqb (type_of t1) (type_of t2)) && negb (o_enum F && (is_enum_v t1 || is_enum_v t2))
  then Ok (reportF KType p1 p2 (Some t1) (Some t2) None, [])
  else
  match t1, t2 with
  | VDict kvs1, VDict kvs2 =>
      let r1 := keys_of c kvs1 in
      let r2 := keys_of c kvs2 in
      bind (kmap r1) (fun km1 =>
      bind (kmap r2) (fun km2 =>
        let k1 := ckeys r1 km1 in
        let k2 := ckeys r2 km2 in
        if shortcutF k1 k2 then Ok (reportF KValue p1 p2 (Some t1) (Some t2) None, [])
        else
          let added := key_reports KDictAdd k2 k1 km2 kvs2 p1 p2 in
          let removed := key_reports KDictRem k1 k2 km1 kvs1 p1 p2 in
          bind ((fix go (l : list (atom * value)) : res (list entry * list path) :=
                   match l with
                   | [] => Ok ([], [])
                   | (k, v1) :: r =>
                       let here :=
                         if keep_key c k then
                           match repr_ckey km1 k with
                           | Some ck =>
                               match find (py_eq ck) k2 with      (* the key object of t2 is the child parameter *)
                               | Some ck' =>
                                   match assoc (orig_key km2 ck') kvs2 with
                                   | Some v2 => diffF v1 v2 (snoc p1 (PKey ck')) (snoc p2 (PKey ck'))
                                   | None => Ok ([], [])
                                   end
                               | None => Ok ([], [])
                               end
                           | None => Ok ([], [])
                           end
                         else Ok ([], []) in
                       bind here (fun x => bind (go r) (fun rest => Ok (app2 x rest)))
                   end) kvs1) (fun common =>
          Ok ((added ++ removed ++ fst common)%list, snd common))))
  | VList xs, VList ys | VTuple xs, VTuple ys =>
      if negb (zip c) && forallb is_basic xs && forallb is_basic ys
      then match default_leaf_err xs ys p1 p2 with
           | Some e => Err e
           | None => let '(es, rec) := default_leaf_listF xs ys p1 p2 in Ok (es, if rec then [p1] else [])
           end
      else
        (fix go (xs ys : list value) (i : nat) {struct xs} : res (list entry * list path) :=
           match xs, ys with
           | [], _ => Ok (added_fromF ys i p1 p2, [])
           | _ :: _, [] => Ok (removed_fromF xs i p1 p2, [])
           | x :: xs', y :: ys' =>
               bind (diffF x y (snoc p1 (PIdx i)) (snoc p2 (PIdx i))) (fun r1 =>
               bind (go xs' ys' (S i)) (fun r2 => Ok (app2 r1 r2)))
           end) xs ys 0
  | VSet xs, VSet ys | VFrozen xs, VFrozen ys =>
      match set_err xs ys with Some e => Err e | None => Ok (diff_setF xs ys p1 p2, []) end
  | _, _ => mixedF t1 t2 p1 p2
  end
  end.

(* DeepDiff(t1, t2, view='tree', **options) *)
Definition run_optF (t1 t2 : value) : res (list entry * list path) :=
  bind (diffF t1 t2 [] []) (fun r => Ok (mutual (fst r), snd r)).

End Opt.

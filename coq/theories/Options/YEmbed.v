(** The old C11 model (OptModel.v, over Base/Value.v) and the round-3 extended one
    (YModel.v, over YValue.v) agree: [emb] maps the shared universe into the
    extended one (half-integer floats to dyadic rationals in lowest terms, all
    other atoms identical; no nan, Decimal, date / time / timedelta, Enum member in the image),
    [embF] the option records (truncate_datetime off, default_timezone UTC, ignore_nan_inequality /
    use_enum_value off, number_format_notation 'f'), and the extended model on embedded inputs computes
    the embedding of what the old model computes - in particular it never returns Err there
    (every embedded atom is [quiet], YProofsSafe). *)
From Coq Require Import List ZArith NArith Bool Arith Lia.
Import ListNotations.
From DD Require Import Base.PyStr Base.Value Diff.Tree Diff.DiffModel Options.OptModel Options.OptProofsBase Options.OptEmbedNum.
From DD Require Options.OptDtModel Options.YValue Options.YModel Options.YProofsBase Options.YProofsSafe.

Module X := YValue.
Module M := YModel.
Module S := YProofsSafe.

(* ---- the embedding ---- *)
Definition embA (a : atom) : X.atom :=
  match a with
  | ANone => X.ANone
  | ABool b => X.ABool b
  | AInt z => X.AInt z
  | AHalf t => if Z.even t then X.AFloat (t / 2) 0 else X.AFloat t 1
  | AStr s => X.AStr s
  | ABytes s => X.ABytes s
  end.
Fixpoint emb (v : value) : X.value :=
  match v with
  | VAtom a => X.VAtom (embA a)
  | VList xs => X.VList (map emb xs)
  | VTuple xs => X.VTuple (map emb xs)
  | VDict kvs => X.VDict (map (fun kv => (embA (fst kv), emb (snd kv))) kvs)
  | VSet xs => X.VSet (map embA xs)
  | VFrozen xs => X.VFrozen (map embA xs)
  end.
Definition embT (t : ty) : X.ty :=
  match t with
  | TNone => X.TNone | TBool => X.TBool | TInt => X.TInt | TFloat => X.TFloat | TStr => X.TStr | TBytes => X.TBytes
  | TList => X.TList | TTuple => X.TTuple | TDict => X.TDict | TSet => X.TSet | TFrozen => X.TFrozen
  end.
Definition embK (k : pkey) : X.pkey := match k with PKey a => X.PKey (embA a) | PIdx i => X.PIdx i end.
Definition embP (p : path) : X.path := map embK p.
Definition embR (k : rkind) : X.rkind :=
  match k with
  | KType => X.KType | KValue => X.KValue | KDictAdd => X.KDictAdd | KDictRem => X.KDictRem
  | KIterAdd => X.KIterAdd | KIterRem => X.KIterRem | KIterMoved => X.KIterMoved
  | KSetAdd => X.KSetAdd | KSetRem => X.KSetRem | KRepetition => X.KRepetition
  end.
Definition embE (e : entry) : X.entry :=
  X.mkEntry (embR (Tree.ekind e)) (embP (ep1 e)) (embP (ep2 e)) (option_map emb (et1 e)) (option_map emb (et2 e)) (ediff e).
Definition embO (o : opcode) : X.opcode :=
  X.mkOp (match otag o with OEqual => X.OEqual | OReplace => X.OReplace | ODelete => X.ODelete | OInsert => X.OInsert end)
         (oi1 o) (oi2 o) (oj1 o) (oj2 o).
Definition embC (c : cfg) : X.cfg := X.mkCfg (zip c) (thr_num c) (thr_den c) (ignore_private c).
Definition embF (F : opts) : M.opts :=
  M.mkOpts (o_case F) (o_strty F) (o_numty F) (o_sig F) (o_eps F) (map embT (o_excl F)) None 0%Z false false false.
Definition embRes (r : res (list entry * list path)) : M.res (list X.entry * list X.path) :=
  match r with
  | Ok x => M.Ok (map embE (fst x), map embP (snd x))
  | Err _ => M.Err M.EType
  end.

(* ---- types and equalities ---- *)
Lemma embT_eqb : forall a b, X.ty_eqb (embT a) (embT b) = ty_eqb a b.
Proof. intros a b. destruct a, b; reflexivity. Qed.
Lemma embA_ty : forall a, X.atom_ty (embA a) = embT (atom_ty a).
Proof. intros [| | |t| |]; cbn; try reflexivity. destruct (Z.even t); reflexivity. Qed.
Lemma emb_type_of : forall v, X.type_of (emb v) = embT (type_of v).
Proof. intros [a| | | | |]; cbn; try reflexivity. apply embA_ty. Qed.

Lemma half_even : forall t, Z.even t = true -> (2 * (t / 2) = t)%Z.
Proof. intros t H. apply Zeven_bool_iff in H. destruct (Zeven_ex t H) as [k Hk]. subst. rewrite (Z.mul_comm 2 k), Z.div_mul by lia. lia. Qed.

(* the number of a numeric atom: the old model keeps twice the value, the extended one the lowest terms of it *)
Definition canon2 (v : Z) : Z * N := if Z.even v then ((v / 2)%Z, 0%N) else (v, 1%N).

Lemma canon2_same : forall v w, X.dy_same (canon2 v) (canon2 w) = Z.eqb v w.
Proof.
  intros v w. unfold canon2, X.dy_same.
  destruct (Z.even v) eqn:Ev, (Z.even w) eqn:Ew; cbn [fst snd N.eqb andb]; rewrite ?andb_true_r, ?andb_false_r.
  - pose proof (half_even v Ev). pose proof (half_even w Ew).
    destruct (Z.eqb_spec (v / 2) (w / 2)), (Z.eqb_spec v w); try reflexivity; try lia; try (subst; contradiction).
  - destruct (Z.eqb_spec v w); [subst; congruence|reflexivity].
  - destruct (Z.eqb_spec v w); [subst; congruence|reflexivity].
  - reflexivity.
Qed.

Lemma embA_num : forall a, X.num_of (embA a) = option_map canon2 (num2 a).
Proof.
  intros [|b|z|t|s|s]; cbn [embA X.num_of num2 option_map]; try reflexivity.
  - destruct b; reflexivity.
  - unfold canon2. rewrite Z.even_mul. cbn [Z.even orb]. rewrite (Z.mul_comm 2 z), Z.div_mul by lia. reflexivity.
  - unfold canon2. destruct (Z.even t); reflexivity.
Qed.

(* the exact value (numerator, denominator) of an embedded number; == is cross-multiplication in the extended universe *)
Definition qv2 (x : Z * N) : Z * Z := (fst x, (2 ^ Z.of_N (snd x))%Z).
Lemma canon2_qeq : forall v w, X.q_eqb (qv2 (canon2 v)) (qv2 (canon2 w)) = Z.eqb v w.
Proof.
  intros v w. unfold canon2, qv2, X.q_eqb.
  destruct (Z.even v) eqn:Ev, (Z.even w) eqn:Ew; cbn [fst snd];
    change (2 ^ Z.of_N 0)%Z with 1%Z; change (2 ^ Z.of_N 1)%Z with 2%Z.
  - pose proof (half_even v Ev). pose proof (half_even w Ew).
    destruct (Z.eqb_spec (v / 2 * 1) (w / 2 * 1)), (Z.eqb_spec v w); try reflexivity; lia.
  - pose proof (half_even v Ev).
    destruct (Z.eqb_spec (v / 2 * 2) (w * 1)), (Z.eqb_spec v w); try reflexivity; lia.
  - pose proof (half_even w Ew).
    destruct (Z.eqb_spec (v * 1) (w / 2 * 2)), (Z.eqb_spec v w); try reflexivity; lia.
  - destruct (Z.eqb_spec (v * 2) (w * 2)), (Z.eqb_spec v w); try reflexivity; lia.
Qed.
Lemma embA_qv : forall a, X.qv (embA a) = option_map qv2 (option_map canon2 (num2 a)).
Proof.
  intros a. rewrite <- embA_num. destruct a as [| | |t| |]; cbn [embA]; try reflexivity. destruct (Z.even t); reflexivity.
Qed.

(* Python equality is preserved (the embedding of floats is in lowest terms; == on numbers is by exact value) *)
Lemma embA_py_eq : forall a b, X.py_eq (embA a) (embA b) = py_eq a b.
Proof.
  intros a b. unfold X.py_eq, py_eq. rewrite !embA_qv.
  destruct (num2 a) as [v|] eqn:Ea, (num2 b) as [w|] eqn:Eb; cbn [option_map]; try reflexivity.
  - apply canon2_qeq.
  - destruct a as [| | | |s|s], b as [| | | |t|t]; cbn in Ea, Eb; try discriminate; reflexivity.
Qed.

(* no nan, no Enum member, no date / time / timedelta in the image *)
Lemma emb_is_nan : forall a, X.is_nan (embA a) = false.
Proof. intros [| | |t| |]; cbn; try reflexivity. destruct (Z.even t); reflexivity. Qed.
Lemma emb_is_enum : forall a, X.is_enum (embA a) = false.
Proof. intros [| | |t| |]; cbn; try reflexivity. destruct (Z.even t); reflexivity. Qed.
Lemma emb_same_obj : forall a b, X.same_obj (embA a) (embA b) = false.
Proof. intros [| | |t| |] b0; cbn; try reflexivity. destruct (Z.even t); reflexivity. Qed.
Lemma emb_quiet : forall F a, S.quiet F (embA a) = true.
Proof. intros F [| | |t| |]; cbn; try reflexivity. destruct (Z.even t); reflexivity. Qed.

Lemma embA_atom_eqb : forall a b, X.atom_eqb (embA a) (embA b) = atom_eqb a b.
Proof.
  intros a b. destruct a as [|x|x|x|x|x], b as [|y|y|y|y|y]; cbn [embA]; try reflexivity;
    try (destruct (Z.even x); reflexivity); try (destruct (Z.even y); reflexivity).
  pose proof (canon2_same x y) as K. unfold canon2, X.dy_same in K. cbn [atom_eqb].
  destruct (Z.even x), (Z.even y); cbn [X.atom_eqb fst snd] in *; exact K.
Qed.

(* ---- options ---- *)
Lemma embF_eff_sig : forall F, M.eff_sig (embF F) = eff_sig F.
Proof. reflexivity. Qed.
Lemma embF_cleaning : forall F, M.cleaning (embF F) = cleaning F.
Proof. reflexivity. Qed.
Lemma embF_lowif : forall F s, M.lowif (embF F) s = lowif F s.
Proof. reflexivity. Qed.
Lemma embF_o_nan : forall F, M.o_nan (embF F) = false.
Proof. reflexivity. Qed.
Lemma embF_o_enum : forall F, M.o_enum (embF F) = false.
Proof. reflexivity. Qed.
Lemma embF_o_note : forall F, M.o_note (embF F) = false.
Proof. reflexivity. Qed.
Lemma embF_fmt_num : forall F d k f, M.fmt_num (embF F) d k f = dec_str k d.
Proof. reflexivity. Qed.

Lemma embF_excluded : forall F t, M.excluded (embF F) (embT t) = excluded F t.
Proof.
  intros F t. unfold M.excluded, excluded. cbn [M.o_excl embF].
  assert (X.ty_eqb (embT t) X.TDatetime = false) as Hd by (destruct t; reflexivity).
  induction (o_excl F) as [|e r IH]; [reflexivity|]. cbn [map existsb]. rewrite IH, !embT_eqb.
  change X.TInt with (embT TInt). change X.TBool with (embT TBool). rewrite !embT_eqb.
  rewrite Hd, andb_false_r, orb_false_r. reflexivity.
Qed.
Lemma embF_excl_opt : forall F o, M.excl_opt (embF F) (option_map emb o) = excl_opt F o.
Proof. intros F [v|]; [|reflexivity]. cbn. rewrite emb_type_of. apply embF_excluded. Qed.

Lemma embF_same_group : forall F a b, M.same_group (embF F) (embT a) (embT b) = same_group F a b.
Proof. intros F a b. unfold M.same_group, same_group. cbn [M.o_strty M.o_numty embF]. destruct a, b; reflexivity. Qed.
Lemma embT_str_like : forall t, M.str_like (embT t) = str_like t.
Proof. intros []; reflexivity. Qed.
(* an ignore-type group covers both types or neither *)
Lemma same_group_str : forall F ta tb, same_group F ta tb = true -> str_like ta = true -> str_like tb = true.
Proof. intros F ta tb. unfold same_group. destruct ta, tb; cbn; rewrite ?andb_false_r; intros; try discriminate; reflexivity. Qed.
Lemma same_group_num : forall F ta tb, same_group F ta tb = true -> num_like ta = true -> num_like tb = true.
Proof. intros F ta tb. unfold same_group. destruct ta, tb; cbn; rewrite ?andb_false_r; intros; try discriminate; reflexivity. Qed.
Lemma same_group_grouped : forall F ta tb, same_group F ta tb = true ->
  str_like ta || num_like ta = true /\ str_like tb || num_like tb = true.
Proof. intros F ta tb. unfold same_group. destruct ta, tb; cbn; rewrite ?andb_false_r; intros; try discriminate; split; reflexivity. Qed.
Lemma same_group_atoms : forall F t1 t2, is_atom t1 && is_atom t2 = false -> same_group F (type_of t1) (type_of t2) = false.
Proof.
  intros F t1 t2 H. unfold same_group.
  destruct t1 as [a| | | | |], t2 as [b| | | | |]; try discriminate; cbn [type_of str_like num_like]; rewrite ?andb_false_r; try reflexivity;
    destruct a; reflexivity.
Qed.

(* ---- reports ---- *)
Lemma embP_snoc : forall p k, X.snoc (embP p) (embK k) = embP (snoc p k).
Proof. intros. unfold X.snoc, snoc, embP. rewrite map_app. reflexivity. Qed.

Lemma emb_reportF : forall F k p1 p2 a b d,
  M.reportF (embF F) (embR k) (embP p1) (embP p2) (option_map emb a) (option_map emb b) d = map embE (reportF F k p1 p2 a b d).
Proof.
  intros. unfold M.reportF, reportF. rewrite !embF_excl_opt.
  destruct (excl_opt F a || excl_opt F b); reflexivity.
Qed.

(* ---- numbers ---- *)
Lemma emb_dy : forall a,
  match dy_of_atom a, M.dy_of_atom (embA a) with
  | Some x, Some x' => x = x' \/ x = dbl x'
  | None, None => True
  | _, _ => False
  end.
Proof.
  intros [|b|z|t|s|s]; cbn [dy_of_atom embA M.dy_of_atom X.num_of]; auto.
  destruct (Z.even t) eqn:E; cbn [M.dy_of_atom X.num_of]; [right|left; reflexivity].
  unfold dbl. cbn [fst snd]. rewrite (half_even t E). reflexivity.
Qed.

Lemma emb_num_tag : forall F a, M.num_tag (embF F) (embA a) = num_tag F a.
Proof.
  intros F a. unfold M.num_tag, num_tag. cbn [M.o_numty embF]. destruct (o_numty F); [reflexivity|].
  destruct a as [| | |t| |]; cbn [embA]; try reflexivity. destruct (Z.even t); reflexivity.
Qed.

Lemma emb_fl_of : forall a x, dy_of_atom a = Some x -> M.fl_of (embA a) = Some (M.dy_of_atom (embA a)).
Proof.
  intros [| | |t| |] x H; cbn in H; try discriminate; cbn [embA]; try reflexivity. destruct (Z.even t); reflexivity.
Qed.
(* number_to_string in 'f' notation *)
Lemma emb_ntxt : forall F d a x', M.dy_of_atom (embA a) = Some x' -> M.ntxt (embF F) d (embA a) = M.Ok (Some (num_str d x')).
Proof.
  intros F d a x' H. unfold M.ntxt. unfold M.dy_of_atom in H.
  destruct a as [|b| |t| |]; cbn [embA] in *; try discriminate.
  - cbn [M.nstr]. rewrite H. rewrite embF_fmt_num. reflexivity.
  - cbn [M.nstr]. rewrite H. rewrite embF_fmt_num. reflexivity.
  - destruct (Z.even t); cbn [M.nstr]; cbn [X.num_of] in H; injection H as H; subst x'; rewrite embF_fmt_num; reflexivity.
Qed.
Lemma emb_py_ne : forall a b, M.py_ne (embA a) (embA b) = negb (py_eq a b).
Proof. intros a b. unfold M.py_ne. rewrite !emb_is_nan, embA_py_eq. reflexivity. Qed.
Lemma emb_rep_atoms : forall F k p1 p2 a b,
  M.rep_atoms (embF F) (embR k) (embP p1) (embP p2) (embA a) (embA b) = map embE (reportF F k p1 p2 (Some (VAtom a)) (Some (VAtom b)) None).
Proof.
  intros. unfold M.rep_atoms.
  change (Some (X.VAtom (embA a))) with (option_map emb (Some (VAtom a))).
  change (Some (X.VAtom (embA b))) with (option_map emb (Some (VAtom b))). apply emb_reportF.
Qed.

(* _diff_numbers on two numbers *)
Lemma emb_numD : forall F rtc a b p1 p2 x y, dy_of_atom a = Some x -> dy_of_atom b = Some y ->
  M.numD (embF F) rtc (embA a) (embA b) (embP p1) (embP p2) = M.Ok (map embE (diff_numF F rtc a b p1 p2)).
Proof.
  intros F rtc a b p1 p2 x y Ea Eb. unfold M.numD, diff_numF.
  pose proof (emb_dy a) as Ha. pose proof (emb_dy b) as Hb.
  rewrite (emb_fl_of a x Ea), (emb_fl_of b y Eb). rewrite Ea in *. rewrite Eb in *.
  destruct (M.dy_of_atom (embA a)) as [x'|] eqn:Ea'; [|contradiction].
  destruct (M.dy_of_atom (embA b)) as [y'|] eqn:Eb'; [|contradiction].
  assert (forall e, is_close x' y' e = is_close x y e) as Hic.
  { intros e. destruct Ha as [Ha|Ha], Hb as [Hb|Hb]; subst; rewrite ?is_close_dbl_l, ?is_close_dbl_r; reflexivity. }
  assert (forall d, num_str d x' = num_str d x) as Hx by (intros d; unfold num_str; destruct Ha as [Ha|Ha]; subst; rewrite ?rhe_dbl; reflexivity).
  assert (forall d, num_str d y' = num_str d y) as Hy by (intros d; unfold num_str; destruct Hb as [Hb|Hb]; subst; rewrite ?rhe_dbl; reflexivity).
  cbn [M.o_eps embF]. rewrite embF_eff_sig.
  pose proof (emb_rep_atoms F KValue p1 p2 a b) as Hrep. cbn [embR] in Hrep.
  destruct (o_eps F) as [e|].
  - rewrite Hic. f_equal. destruct (is_close x y e); cbn [negb]; [reflexivity|exact Hrep].
  - destruct (eff_sig F) as [d|].
    + rewrite (emb_ntxt F d a x' Ea'), (emb_ntxt F d b y' Eb'). cbn [M.bind].
      rewrite !emb_num_tag, Hx, Hy. change M.colon with colon. f_equal.
      match goal with |- (if ?c then _ else _) = _ => destruct c end; cbn [negb]; [reflexivity|exact Hrep].
    + rewrite emb_py_ne. f_equal. destruct (py_eq a b); cbn [negb]; [reflexivity|exact Hrep].
Qed.

(* ---- strings, atoms, leaves ---- *)
Lemma emb_str_content : forall a, M.str_content (embA a) = str_content a.
Proof. intros [| | |t| |]; cbn; try reflexivity. destruct (Z.even t); reflexivity. Qed.
Lemma emb_is_bytes : forall a, M.is_bytes (embA a) = is_bytes a.
Proof. intros [| | |t| |]; cbn; try reflexivity. destruct (Z.even t); reflexivity. Qed.
Lemma emb_with_content : forall a s, M.with_content (embA a) s = embA (with_content a s).
Proof. intros a s0; destruct a as [| | |t| |]; cbn; try reflexivity. destruct (Z.even t); reflexivity. Qed.

Section Commute.
Variable udiff : pystr -> pystr -> pystr.
Variable F : opts.

Lemma emb_diff_strF : forall a b p1 p2,
  M.diff_strF udiff (embF F) (embA a) (embA b) (embP p1) (embP p2) = map embE (diff_strF udiff F a b p1 p2).
Proof.
  intros a b p1 p2. unfold M.diff_strF, diff_strF.
  rewrite !emb_str_content, !emb_is_bytes, !embF_lowif, !embA_ty, embT_eqb, !emb_with_content.
  change X.is_ascii with is_ascii. change X.has_nl with has_nl.
  match goal with |- (if ?c then _ else _) = map embE (if ?c then _ else _) => destruct c end; [reflexivity|].
  change X.KValue with (embR KValue).
  match goal with |- M.reportF _ _ _ _ (Some (X.VAtom (embA ?x))) (Some (X.VAtom (embA ?y))) ?d = _ =>
    change (Some (X.VAtom (embA x))) with (option_map emb (Some (VAtom x)));
    change (Some (X.VAtom (embA y))) with (option_map emb (Some (VAtom y))) end.
  apply emb_reportF.
Qed.

Lemma emb_is_none : forall a, M.is_none (embA a) = negb (str_like (atom_ty a) || num_like (atom_ty a)).
Proof. intros [| | |t| |]; cbn; try reflexivity. destruct (Z.even t); reflexivity. Qed.
Lemma emb_unwrap : forall a, M.unwrap (embF F) (embA a) = embA a.
Proof. intros [| | |t| |]; cbn; try reflexivity. destruct (Z.even t); reflexivity. Qed.

(* the comparer picked for two atoms that passed the type test of _diff *)
Lemma emb_dispatch : forall rtc a b p1 p2,
  (ty_eqb (atom_ty a) (atom_ty b) = true \/ same_group F (atom_ty a) (atom_ty b) = true) ->
  M.dispatch udiff (embF F) rtc (embA a) (embA b) (embP p1) (embP p2) =
  M.Ok (map embE (match a with
                  | ABool _ => if py_eq a b then [] else reportF F KValue p1 p2 (Some (VAtom a)) (Some (VAtom b)) None
                  | AStr _ | ABytes _ => diff_strF udiff F a b p1 p2
                  | AInt _ | AHalf _ => diff_numF F rtc a b p1 p2
                  | ANone => []
                  end)).
Proof.
  intros rtc a b p1 p2 Hty.
  assert (str_like (atom_ty a) = true -> str_like (atom_ty b) = true) as Hs.
  { intros H. destruct Hty as [Ht|Hg]; [|eapply same_group_str; eassumption].
    destruct (atom_ty a), (atom_ty b); cbn in Ht; try discriminate; exact H. }
  assert (num_like (atom_ty a) = true -> exists y, dy_of_atom b = Some y) as Hn.
  { intros H. assert (num_like (atom_ty b) = true) as K.
    { destruct Hty as [Ht|Hg]; [|eapply same_group_num; eassumption].
      destruct (atom_ty a), (atom_ty b); cbn in Ht; try discriminate; exact H. }
    destruct b; cbn in K; try discriminate; eexists; reflexivity. }
  pose proof (emb_diff_strF a b p1 p2) as Ks.
  destruct a as [|x|z|t|s|s]; cbn [embA] in *.
  - reflexivity.
  - cbn [M.dispatch]. change (X.ABool x) with (embA (ABool x)). rewrite emb_py_ne. f_equal.
    destruct (py_eq (ABool x) b); cbn [negb]; [reflexivity|]. apply (emb_rep_atoms F KValue).
  - destruct (Hn eq_refl) as [y Ey]. cbn [M.dispatch]. exact (emb_numD F rtc (AInt z) b p1 p2 _ y eq_refl Ey).
  - destruct (Hn eq_refl) as [y Ey]. pose proof (emb_numD F rtc (AHalf t) b p1 p2 _ y eq_refl Ey) as K.
    cbn [embA] in K. destruct (Z.even t); cbn [M.dispatch]; exact K.
  - cbn [M.dispatch]. unfold M.strD. rewrite embA_ty, embT_str_like, (Hs eq_refl), Ks. reflexivity.
  - cbn [M.dispatch]. unfold M.strD. rewrite embA_ty, embT_str_like, (Hs eq_refl), Ks. reflexivity.
Qed.

(* the monadic leaf function on embedded atoms: never Err, and Ok of the image of the old leaf function *)
Lemma emb_leafR : forall a b p1 p2,
  M.leafR udiff (embF F) (embA a) (embA b) (embP p1) (embP p2) = M.Ok (map embE (diff_atomF udiff F a b p1 p2)).
Proof.
  intros a b p1 p2.
  assert (M.leafR udiff (embF F) (embA a) (embA b) (embP p1) (embP p2)
          = M.leaf_core udiff (embF F) (embA a) (embA b) (embP p1) (embP p2)) as E.
  { destruct a as [| | |t| |]; cbn [embA]; try reflexivity. destruct (Z.even t); reflexivity. }
  rewrite E. unfold M.leaf_core, diff_atomF.
  rewrite emb_same_obj, !embA_ty, !embF_excluded, embT_eqb, embF_same_group, embF_o_nan, embF_o_enum, !emb_unwrap.
  destruct (excluded F (atom_ty a) || excluded F (atom_ty b)); [reflexivity|].
  cbn [andb negb]. rewrite andb_true_r.
  destruct (ty_eqb (atom_ty a) (atom_ty b)) eqn:Et; cbn [negb andb].
  - apply emb_dispatch. left. exact Et.
  - destruct (same_group F (atom_ty a) (atom_ty b)) eqn:Eg; cbn [negb].
    + destruct (same_group_grouped F _ _ Eg) as [Ga Gb].
      rewrite !emb_is_none, Ga, Gb. cbn [negb orb]. apply emb_dispatch. right. exact Eg.
    + f_equal. apply (emb_rep_atoms F KType).
Qed.

(* the projection [diff_atomF] (what is reported) *)
Lemma emb_diff_atomF : forall a b p1 p2,
  M.diff_atomF udiff (embF F) (embA a) (embA b) (embP p1) (embP p2) = map embE (diff_atomF udiff F a b p1 p2).
Proof. intros. unfold M.diff_atomF. rewrite emb_leafR. reflexivity. Qed.
Lemma emb_atom_err : forall a b, M.atom_err udiff (embF F) (embA a) (embA b) = None.
Proof. intros. unfold M.atom_err. change (@nil X.pkey) with (embP []). rewrite emb_leafR. reflexivity. Qed.

Lemma emb_diff_leafF : forall x y p1 p2,
  M.diff_leafF udiff (embF F) (emb x) (emb y) (embP p1) (embP p2) = map embE (diff_leafF udiff F x y p1 p2).
Proof.
  intros x y p1 p2. destruct x as [a| | | | |], y as [b| | | | |]; cbn [emb M.diff_leafF diff_leafF map]; try reflexivity.
  apply emb_diff_atomF.
Qed.

End Commute.

(* ---- sequences ---- *)
Lemma map_flat_map : forall {A B C} (g : B -> C) (f : A -> list B) l, map g (flat_map f l) = flat_map (fun x => map g (f x)) l.
Proof. induction l as [|a l IH]; cbn; [reflexivity|]. rewrite map_app, IH. reflexivity. Qed.
Lemma flat_map_map : forall {A B C} (f : B -> list C) (g : A -> B) l, flat_map f (map g l) = flat_map (fun x => f (g x)) l.
Proof. induction l as [|a l IH]; cbn; [reflexivity|]. rewrite IH. reflexivity. Qed.
Lemma slice_map : forall {A B} (f : A -> B) l a b, X.slice (map f l) a b = map f (slice l a b).
Proof. intros. unfold X.slice, slice. rewrite skipn_map, firstn_map. reflexivity. Qed.
Lemma emb_is_atom : forall v, X.is_atom (emb v) = is_atom v.
Proof. intros []; reflexivity. Qed.
Lemma emb_forallb_is_atom : forall xs, forallb X.is_atom (map emb xs) = forallb is_atom xs.
Proof. induction xs as [|x xs IH]; cbn; [reflexivity|]. rewrite emb_is_atom, IH. reflexivity. Qed.
(* only sequences of basic items are aligned with difflib: every embedded atom is basic (no Enum member) *)
Lemma emb_is_basic : forall v, X.is_basic (emb v) = is_atom v.
Proof. intros [a| | | | |]; try reflexivity. destruct a as [| | |t| |]; cbn; try reflexivity. destruct (Z.even t); reflexivity. Qed.
Lemma emb_forallb_is_basic : forall xs, forallb X.is_basic (map emb xs) = forallb is_atom xs.
Proof. induction xs as [|x xs IH]; cbn; [reflexivity|]. rewrite emb_is_basic, IH. reflexivity. Qed.
Lemma emb_py_eq_leaf : forall x y, X.py_eq_leaf (emb x) (emb y) = py_eq_leaf x y.
Proof.
  intros [a| | | | |] [b| | | | |]; cbn; try reflexivity.
  unfold X.py_eq_strict. rewrite embA_py_eq, emb_is_nan, andb_true_r. reflexivity.
Qed.

Section Seq.
Variable udiff : pystr -> pystr -> pystr.
Variable F : opts.

Lemma emb_removed_fromF : forall xs i p1 p2,
  M.removed_fromF (embF F) (map emb xs) i (embP p1) (embP p2) = map embE (removed_fromF F xs i p1 p2).
Proof.
  induction xs as [|x xs IH]; intros; cbn [map M.removed_fromF removed_fromF]; [reflexivity|].
  rewrite map_app, <- IH. f_equal.
  change (X.PIdx i) with (embK (PIdx i)). rewrite !embP_snoc.
  change X.KIterRem with (embR KIterRem). change (Some (emb x)) with (option_map emb (Some x)).
  change (@None X.value) with (option_map emb None). apply emb_reportF.
Qed.
Lemma emb_added_fromF : forall ys j p1 p2,
  M.added_fromF (embF F) (map emb ys) j (embP p1) (embP p2) = map embE (added_fromF F ys j p1 p2).
Proof.
  induction ys as [|y ys IH]; intros; cbn [map M.added_fromF added_fromF]; [reflexivity|].
  rewrite map_app, <- IH. f_equal.
  change (X.PIdx j) with (embK (PIdx j)). rewrite !embP_snoc.
  change X.KIterAdd with (embR KIterAdd). change (Some (emb y)) with (option_map emb (Some y)).
  change (@None X.value) with (option_map emb None). apply emb_reportF.
Qed.

Lemma emb_pairs_leafF : forall xs ys i j p1 p2,
  M.pairs_leafF udiff (embF F) (map emb xs) (map emb ys) i j (embP p1) (embP p2) = map embE (pairs_leafF udiff F xs ys i j p1 p2).
Proof.
  induction xs as [|x xs IH]; intros ys i j p1 p2; cbn [map M.pairs_leafF pairs_leafF].
  - apply emb_added_fromF.
  - destruct ys as [|y ys]; cbn [map].
    + apply (emb_removed_fromF (x :: xs)).
    + rewrite map_app, <- IH. f_equal. rewrite emb_py_eq_leaf.
      change (X.PIdx i) with (embK (PIdx i)). change (X.PIdx j) with (embK (PIdx j)). rewrite !embP_snoc.
      destruct (negb (Nat.eqb i j) && py_eq_leaf x y).
      * change X.KIterMoved with (embR KIterMoved). change (Some (emb x)) with (option_map emb (Some x)).
        change (Some (emb y)) with (option_map emb (Some y)). apply emb_reportF.
      * apply emb_diff_leafF.
Qed.

Lemma emb_by_opcodesF : forall os xs ys p1 p2,
  M.by_opcodesF udiff (embF F) (map embO os) (map emb xs) (map emb ys) (embP p1) (embP p2) = map embE (by_opcodesF udiff F os xs ys p1 p2).
Proof.
  intros. unfold M.by_opcodesF, by_opcodesF. rewrite map_flat_map, flat_map_map. apply flat_map_ext. intros o.
  unfold embO. cbn [X.otag X.oi1 X.oi2 X.oj1 X.oj2]. rewrite !slice_map.
  destruct (otag o); [reflexivity|apply emb_pairs_leafF|apply emb_removed_fromF|apply emb_added_fromF].
Qed.

Variable ops : path -> list value -> list value -> list opcode.
Variable opsX : X.path -> list X.value -> list X.value -> list X.opcode.
Hypothesis ops_agree : forall p xs ys, opsX (embP p) (map emb xs) (map emb ys) = map embO (ops p xs ys).

Lemma emb_default_leaf_listF : forall xs ys p1 p2,
  M.default_leaf_listF udiff opsX (embF F) (map emb xs) (map emb ys) (embP p1) (embP p2) =
  (map embE (fst (default_leaf_listF udiff ops F xs ys p1 p2)), snd (default_leaf_listF udiff ops F xs ys p1 p2)).
Proof.
  intros. unfold M.default_leaf_listF, default_leaf_listF. rewrite ops_agree, emb_by_opcodesF, emb_pairs_leafF, !map_length.
  destruct (Nat.ltb 1 _); [|reflexivity]. destruct (Nat.leb _ _); reflexivity.
Qed.

(* neither pass of the default mode raises on embedded items (they are all quiet) *)
Lemma emb_quiet_v : forall xs, forallb (S.quiet_v (embF F)) (map emb xs) = true.
Proof.
  induction xs as [|x xs IH]; [reflexivity|]. cbn [map forallb]. rewrite IH, andb_true_r.
  destruct x; try reflexivity. cbn [emb S.quiet_v]. apply emb_quiet.
Qed.
Lemma emb_default_leaf_err : forall xs ys q1 q2,
  M.default_leaf_err udiff opsX (embF F) (map emb xs) (map emb ys) q1 q2 = None.
Proof. intros. apply S.default_leaf_err_quiet; apply emb_quiet_v. Qed.
End Seq.

(* ---- sets: the hash texts are the same ---- *)
Lemma float_repr_even : forall k, M.float_repr k 0 = half_repr (2 * k).
Proof.
  intros k. unfold M.float_repr, half_repr. change (two_p 0) with 1%Z. change (Z.pow 5 (Z.of_N 0)) with 1%Z.
  rewrite Z.div_1_r, Z.mod_1_r.
  change (rev (M.strip0 (rev (pad0 (N.to_nat 0) (p_of_Z (0 * 1)))))) with (@nil N).
  assert (Z.abs (2 * k) / 2 = Z.abs k)%Z as E1.
  { rewrite Z.abs_mul. change (Z.abs 2) with 2%Z. rewrite (Z.mul_comm 2), Z.div_mul by lia. reflexivity. }
  assert (Z.even (2 * k) = true) as E2 by (rewrite Z.even_mul; reflexivity).
  assert ((2 * k <? 0)%Z = (k <? 0)%Z) as E3 by (destruct (Z.ltb_spec k 0), (Z.ltb_spec (2 * k) 0); try reflexivity; lia).
  rewrite E1, E2, E3. reflexivity.
Qed.
Lemma float_repr_odd : forall t, Z.even t = false -> M.float_repr t 1 = half_repr t.
Proof.
  intros t H. unfold M.float_repr, half_repr. change (two_p 1) with 2%Z. change (Z.pow 5 (Z.of_N 1)) with 5%Z. rewrite H.
  assert (Z.abs t mod 2 = 1)%Z as E.
  { assert (Z.even (Z.abs t) = false) as Ha by (destruct (Z.abs_eq_or_opp t) as [A|A]; rewrite A; rewrite ?Z.even_opp; exact H).
    rewrite Zmod_even, Ha. reflexivity. }
  rewrite E. reflexivity.
Qed.

Lemma emb_hatomF : forall F a, M.hatomF (embF F) (embA a) = hatomF F a.
Proof.
  intros F a. destruct a as [|b|z|t|s|s]; cbn [embA]; try reflexivity.
  pose proof (emb_num_tag F (AHalf t)) as Ht. cbn [embA] in Ht.
  destruct (Z.even t) eqn:E; cbn [M.hatomF M.hatom0 hatomF]; unfold M.num_text; rewrite embF_eff_sig, Ht; unfold M.prep_string, prep_string;
      cbn [M.o_strty embF]; rewrite embF_lowif; change M.colon with colon.
  - destruct (eff_sig F) as [d|].
      * cbn [M.nstr]. rewrite embF_fmt_num.
        pose proof (rhe_dbl ((t / 2)%Z, 0%N) d) as R. unfold dbl in R. cbn [fst snd] in R. rewrite (half_even t E) in R.
        unfold num_str. change (0 + 1)%N with 1%N in R. rewrite R. reflexivity.
      * rewrite float_repr_even, (half_even t E). reflexivity.
  - destruct (eff_sig F) as [d|]; [cbn [M.nstr]; rewrite embF_fmt_num; reflexivity|]. rewrite (float_repr_odd t E). reflexivity.
Qed.

Lemma emb_excl_hash : forall F a, M.excl_hash (embF F) (embA a) = excl_hash F a.
Proof.
  intros F a. pose proof (embA_ty a) as T. destruct a as [| | |t| |]; cbn [embA M.excl_hash excl_hash] in *; try reflexivity;
    try (rewrite T; apply embF_excluded).
  destruct (Z.even t); cbn [M.excl_hash X.atom_ty atom_ty]; change X.TFloat with (embT TFloat); apply embF_excluded.
Qed.

Lemma emb_first_per_hash : forall F l seen,
  X.first_per_hash (M.hatomF (embF F)) (map embA l) seen = map embA (first_per_hash (hatomF F) l seen).
Proof.
  induction l as [|a l IH]; intros seen; cbn [map X.first_per_hash first_per_hash]; [reflexivity|].
  rewrite emb_hatomF. destruct (existsb _ seen); [apply IH|]. cbn [map]. rewrite IH. reflexivity.
Qed.

Lemma filter_map_comm : forall {A B} (f : A -> B) (p : B -> bool) (q : A -> bool) l,
  (forall x, p (f x) = q x) -> filter p (map f l) = map f (filter q l).
Proof.
  induction l as [|a l IH]; intros H; cbn; [reflexivity|]. rewrite H. destruct (q a); cbn; rewrite IH by exact H; reflexivity.
Qed.

Lemma emb_report_setF : forall F k a p1 p2,
  M.report_setF (embF F) (embR k) (embA a) (embP p1) (embP p2) = map embE (report_setF F k a p1 p2).
Proof.
  intros. unfold M.report_setF, report_setF. rewrite embA_ty, embF_excluded.
  destruct (excluded F (atom_ty a)); [reflexivity|]. destruct k; reflexivity.
Qed.

Lemma emb_diff_setF : forall F xs ys p1 p2,
  M.diff_setF (embF F) (map embA xs) (map embA ys) (embP p1) (embP p2) = map embE (diff_setF F xs ys p1 p2).
Proof.
  intros. unfold M.diff_setF, diff_setF.
  rewrite !(filter_map_comm embA (fun a => negb (M.excl_hash (embF F) a)) (fun a => negb (excl_hash F a)))
    by (intros x; rewrite emb_excl_hash; reflexivity).
  rewrite !emb_first_per_hash, !map_map, map_app, !map_flat_map, !flat_map_map.
  f_equal; apply flat_map_ext; intros a; rewrite emb_hatomF;
    rewrite (map_ext (fun x => M.hatomF (embF F) (embA x)) (hatomF F)) by (intros; apply emb_hatomF);
    destruct (existsb _ _); try reflexivity.
  - change X.KSetAdd with (embR KSetAdd). apply emb_report_setF.
  - change X.KSetRem with (embR KSetRem). apply emb_report_setF.
Qed.

(* hashing an embedded set member never raises (no nan, no timedelta) *)
Lemma emb_member_quiet : forall F xs, forallb (S.member_quiet (embF F)) (map embA xs) = true.
Proof.
  intros F. induction xs as [|a xs IH]; [reflexivity|]. cbn [map forallb]. rewrite IH, andb_true_r.
  unfold S.member_quiet. rewrite emb_quiet.
  destruct a as [| | |t| |]; cbn [embA]; try (destruct (Z.even t)); rewrite andb_false_r; reflexivity.
Qed.
Lemma emb_set_err : forall F xs ys, M.set_err (embF F) (map embA xs) (map embA ys) = None.
Proof. intros. apply S.set_err_quiet; apply emb_member_quiet. Qed.

(* ---- dictionaries ---- *)
Definition embKV (kv : atom * value) : X.atom * X.value := (embA (fst kv), emb (snd kv)).
Definition embAA (p : atom * atom) : X.atom * X.atom := (embA (fst p), embA (snd p)).
Definition embResA (r : res atom) : M.res X.atom := match r with Ok a => M.Ok (embA a) | Err _ => M.Err M.EType end.
Definition embResM (r : res (list (atom * atom))) : M.res (list (X.atom * X.atom)) :=
  match r with Ok l => M.Ok (map embAA l) | Err _ => M.Err M.EType end.

Lemma emb_private_key : forall k, X.private_key (embA k) = private_key k.
Proof. intros [| | |t| |]; cbn; try reflexivity. destruct (Z.even t); reflexivity. Qed.
Lemma emb_keep_key : forall c k, X.keep_key (embC c) (embA k) = keep_key c k.
Proof. intros. unfold X.keep_key, keep_key. rewrite emb_private_key. reflexivity. Qed.
Lemma emb_keys_of : forall c kvs, X.keys_of (embC c) (map embKV kvs) = map embA (keys_of c kvs).
Proof.
  intros. unfold X.keys_of, keys_of. rewrite map_map. cbn [embKV fst].
  rewrite <- (map_map fst embA). apply filter_map_comm. intros x. apply emb_keep_key.
Qed.
Lemma emb_mem_atom : forall a l, X.mem_atom (embA a) (map embA l) = mem_atom a l.
Proof.
  intros a l. unfold X.mem_atom, mem_atom. induction l as [|b l IH]; cbn; [reflexivity|]. rewrite embA_py_eq, IH. reflexivity.
Qed.
Lemma emb_assoc : forall {B C} (g : B -> C) k (l : list (atom * B)),
  X.assoc (embA k) (map (fun kv => (embA (fst kv), g (snd kv))) l) = option_map g (assoc k l).
Proof.
  intros B C g k l. induction l as [|[k' v] l IH]; cbn; [reflexivity|]. rewrite embA_py_eq. destruct (py_eq k' k); [reflexivity|exact IH].
Qed.
Lemma emb_find_py_eq : forall k l, find (X.py_eq (embA k)) (map embA l) = option_map embA (find (py_eq k) l).
Proof.
  intros k l. induction l as [|b l IH]; cbn; [reflexivity|]. rewrite embA_py_eq. destruct (py_eq k b); [reflexivity|exact IH].
Qed.

Lemma emb_clean_key : forall F k, M.clean_key (embF F) (embA k) = embResA (clean_key F k).
Proof.
  intros F k. pose proof (emb_num_tag F k) as Ht.
  destruct k as [|b|z|t|s|s]; cbn [embA] in *.
  - reflexivity.
  - cbn [M.clean_key clean_key]. rewrite embF_eff_sig. destruct (eff_sig F); reflexivity.
  - cbn [M.clean_key clean_key]. rewrite embF_eff_sig. destruct (eff_sig F); reflexivity.
  - destruct (Z.even t) eqn:E; cbn [M.clean_key clean_key]; rewrite embF_eff_sig;
      (destruct (eff_sig F) as [d|]; [|cbn [embResA embA dy_of_atom]; rewrite E; reflexivity]);
      cbn [M.nstr dy_of_atom]; rewrite embF_fmt_num, Ht.
    + pose proof (rhe_dbl ((t / 2)%Z, 0%N) d) as R. unfold dbl in R. cbn [fst snd] in R. rewrite (half_even t E) in R.
      change (0 + 1)%N with 1%N in R. unfold num_str. rewrite R. reflexivity.
    + reflexivity.
  - reflexivity.
  - cbn [M.clean_key clean_key M.o_strty embF]. destruct (o_strty F); reflexivity.
Qed.

Lemma emb_clean_map : forall F ks acc,
  M.clean_map (embF F) (map embA ks) (map embAA acc) = embResM (clean_map F ks acc).
Proof.
  induction ks as [|k r IH]; intros acc; cbn [map M.clean_map clean_map].
  - cbn [embResM]. rewrite map_rev. reflexivity.
  - rewrite emb_clean_key. destruct (clean_key F k) as [ck|e]; cbn [embResA M.bind bind]; [|reflexivity].
    replace (map fst (map embAA acc)) with (map embA (map fst acc)) by (rewrite !map_map; reflexivity).
    rewrite emb_mem_atom. destruct (mem_atom ck (map fst acc)); [apply IH|].
    change ((embA ck, embA k) :: map embAA acc) with (map embAA ((ck, k) :: acc)). apply IH.
Qed.

Lemma emb_kmap : forall F ks, M.kmap (embF F) (map embA ks) = embResM (kmap F ks).
Proof.
  intros. unfold M.kmap, kmap. rewrite embF_cleaning. destruct (cleaning F); [|reflexivity].
  exact (emb_clean_map F ks []).
Qed.
Lemma emb_ckeys : forall F ks km, M.ckeys (embF F) (map embA ks) (map embAA km) = map embA (ckeys F ks km).
Proof. intros. unfold M.ckeys, ckeys. rewrite embF_cleaning. destruct (cleaning F); [|reflexivity]. rewrite !map_map. reflexivity. Qed.
Lemma emb_orig_key : forall F km ck, M.orig_key (embF F) (map embAA km) (embA ck) = embA (orig_key F km ck).
Proof.
  intros. unfold M.orig_key, orig_key. rewrite embF_cleaning. destruct (cleaning F); [|reflexivity].
  change (map embAA km) with (map (fun kv : atom * atom => (embA (fst kv), embA (snd kv))) km).
  rewrite (emb_assoc embA). destruct (assoc ck km); reflexivity.
Qed.
Lemma emb_repr_ckey : forall F km k, M.repr_ckey (embF F) (map embAA km) (embA k) = option_map embA (repr_ckey F km k).
Proof.
  intros. unfold M.repr_ckey, repr_ckey. rewrite embF_cleaning. destruct (cleaning F); [|reflexivity].
  rewrite emb_clean_key. destruct (clean_key F k) as [ck|]; cbn [embResA]; [|reflexivity].
  rewrite emb_orig_key, embA_atom_eqb. destruct (atom_eqb _ k); reflexivity.
Qed.
Lemma emb_shortcutF : forall c k1 k2, M.shortcutF (embC c) (map embA k1) (map embA k2) = shortcutF c k1 k2.
Proof.
  intros. unfold M.shortcutF, shortcutF. cbn [X.thr_num X.thr_den embC].
  destruct (Nat.eqb (thr_num c) 0); [reflexivity|].
  rewrite (filter_map_comm embA (fun k => X.mem_atom k (map embA k1)) (fun k => mem_atom k k1)) by (intros; apply emb_mem_atom).
  rewrite (filter_map_comm embA (fun k => negb (X.mem_atom k (map embA k2))) (fun k => negb (mem_atom k k2)))
    by (intros; rewrite emb_mem_atom; reflexivity).
  rewrite <- map_app, !map_length. reflexivity.
Qed.

Lemma emb_key_reports : forall F kind cks other km kvs p1 p2,
  (kind = KDictAdd \/ kind = KDictRem) ->
  M.key_reports (embF F) (embR kind) (map embA cks) (map embA other) (map embAA km) (map embKV kvs) (embP p1) (embP p2) =
  map embE (key_reports F kind cks other km kvs p1 p2).
Proof.
  intros F kind cks other km kvs p1 p2 Hk. induction cks as [|ck r IH]; cbn [map M.key_reports key_reports]; [reflexivity|].
  rewrite emb_mem_atom. destruct (mem_atom ck other); [exact IH|].
  rewrite map_app, <- IH. f_equal. rewrite emb_orig_key.
  change (map embKV kvs) with (map (fun kv : atom * value => (embA (fst kv), emb (snd kv))) kvs). rewrite (emb_assoc emb).
  change (X.PKey (embA (orig_key F km ck))) with (embK (PKey (orig_key F km ck))). rewrite !embP_snoc.
  change (@None X.value) with (option_map emb None).
  destruct Hk as [Hk|Hk]; subst kind; cbn [embR]; [change X.KDictAdd with (embR KDictAdd)|change X.KDictRem with (embR KDictRem)]; apply emb_reportF.
Qed.

(* ---- the dispatcher ---- *)
Lemma embRes_bind2 : forall (h r : res (list entry * list path)),
  embRes (bind h (fun x => bind r (fun rest => Ok (app2 x rest)))) =
  M.bind (embRes h) (fun x => M.bind (embRes r) (fun rest => M.Ok (X.app2 x rest))).
Proof.
  intros [[e1 q1]|e] [[e2 q2]|e']; cbn; try reflexivity. unfold X.app2, app2. cbn. rewrite !map_app. reflexivity.
Qed.

Section Main.
Variable udiff : pystr -> pystr -> pystr.
Variable ops : path -> list value -> list value -> list opcode.
Variable opsX : X.path -> list X.value -> list X.value -> list X.opcode.
Hypothesis ops_agree : forall p xs ys, opsX (embP p) (map emb xs) (map emb ys) = map embO (ops p xs ys).
Variable c : cfg.
Variable F : opts.

Notation dX := (M.diffF udiff opsX (embC c) (embF F)).
Notation dO := (diffF udiff ops c F).

Lemma emb_go_list : forall xs p1 p2,
  Forall (fun x => forall t2 q1 q2, dX (emb x) (emb t2) (embP q1) (embP q2) = embRes (dO x t2 q1 q2)) xs ->
  forall ys i,
  (fix go (xs ys : list X.value) (i : nat) {struct xs} : M.res (list X.entry * list X.path) :=
     match xs, ys with
     | [], _ => M.Ok (M.added_fromF (embF F) ys i (embP p1) (embP p2), [])
     | _ :: _, [] => M.Ok (M.removed_fromF (embF F) xs i (embP p1) (embP p2), [])
     | x :: xs', y :: ys' =>
         M.bind (dX x y (X.snoc (embP p1) (X.PIdx i)) (X.snoc (embP p2) (X.PIdx i))) (fun r1 =>
         M.bind (go xs' ys' (S i)) (fun r2 => M.Ok (X.app2 r1 r2)))
     end) (map emb xs) (map emb ys) i =
  embRes ((fix go (xs ys : list value) (i : nat) {struct xs} : res (list entry * list path) :=
     match xs, ys with
     | [], _ => Ok (added_fromF F ys i p1 p2, [])
     | _ :: _, [] => Ok (removed_fromF F xs i p1 p2, [])
     | x :: xs', y :: ys' =>
         bind (dO x y (snoc p1 (PIdx i)) (snoc p2 (PIdx i))) (fun r1 =>
         bind (go xs' ys' (S i)) (fun r2 => Ok (app2 r1 r2)))
     end) xs ys i).
Proof.
  induction xs as [|x xs IHxs]; intros p1 p2 IH ys i; cbn [map].
  - cbn [embRes fst snd map]. rewrite emb_added_fromF. reflexivity.
  - destruct ys as [|y ys]; cbn [map].
    + cbn [embRes fst snd map]. rewrite (emb_removed_fromF F (x :: xs)). reflexivity.
    + inversion IH as [|? ? Hx Hxs]; subst.
      rewrite embRes_bind2. change (X.PIdx i) with (embK (PIdx i)). rewrite !embP_snoc, Hx.
      rewrite (IHxs p1 p2 Hxs ys (S i)). reflexivity.
Qed.

(* the head of _diff for two values that are not both atoms: exclude_types, then the type test (use_enum_value is off;
   no ignore-type group contains a container type); the rest only matters when the two types are equal *)
Lemma emb_head : forall t1 t2 p1 p2 BX BO, is_atom t1 && is_atom t2 = false ->
  (ty_eqb (type_of t1) (type_of t2) = true -> BX = embRes BO) ->
  (if M.excluded (embF F) (X.type_of (emb t1)) || M.excluded (embF F) (X.type_of (emb t2)) then M.Ok ([], [])
   else if negb (X.ty_eqb (X.type_of (emb t1)) (X.type_of (emb t2)))
           && negb (M.o_enum (embF F) && (M.is_enum_v (emb t1) || M.is_enum_v (emb t2)))
        then M.Ok (M.reportF (embF F) X.KType (embP p1) (embP p2) (Some (emb t1)) (Some (emb t2)) None, [])
        else BX) =
  embRes (if excluded F (type_of t1) || excluded F (type_of t2) then Ok ([], [])
          else if negb (ty_eqb (type_of t1) (type_of t2)) && negb (same_group F (type_of t1) (type_of t2))
               then Ok (reportF F KType p1 p2 (Some t1) (Some t2) None, [])
               else BO).
Proof.
  intros t1 t2 p1 p2 BX BO Hna H. rewrite !emb_type_of, !embF_excluded, embT_eqb, embF_o_enum, (same_group_atoms F t1 t2 Hna).
  destruct (excluded F (type_of t1) || excluded F (type_of t2)); [reflexivity|].
  cbn [andb negb]. destruct (ty_eqb (type_of t1) (type_of t2)); cbn [negb andb]; [exact (H eq_refl)|].
  cbn [embRes fst snd map]. change X.KType with (embR KType).
  change (Some (emb t1)) with (option_map emb (Some t1)). change (Some (emb t2)) with (option_map emb (Some t2)).
  rewrite emb_reportF. reflexivity.
Qed.

(* the old dispatcher on two atoms is the old leaf function (which repeats the two tests of the head) *)
Lemma diffF_atoms : forall a b p1 p2, dO (VAtom a) (VAtom b) p1 p2 = Ok (diff_atomF udiff F a b p1 p2, []).
Proof.
  intros a b p1 p2. cbn [diffF type_of]. unfold diff_atomF.
  destruct (excluded F (atom_ty a) || excluded F (atom_ty b)); [reflexivity|].
  destruct (negb (ty_eqb (atom_ty a) (atom_ty b)) && negb (same_group F (atom_ty a) (atom_ty b))); reflexivity.
Qed.

Lemma atom_ty_not_container : forall a t, match t with TList | TTuple | TDict | TSet | TFrozen => True | _ => False end ->
  ty_eqb (atom_ty a) t = false /\ ty_eqb t (atom_ty a) = false.
Proof. intros a t H. destruct t; try contradiction; destruct a; split; reflexivity. Qed.

Theorem emb_diffF : forall t1 t2 p1 p2,
  dX (emb t1) (emb t2) (embP p1) (embP p2) = embRes (dO t1 t2 p1 p2).
Proof.
  induction t1 as [a|xs IH|xs IH|kvs IH|xs|xs] using value_ind'; intros t2 p1 p2.
  - (* atom *)
    destruct t2 as [b|ys|ys|kvs2|ys|ys].
    + rewrite diffF_atoms. cbn [M.diffF emb]. rewrite emb_leafR. reflexivity.
    + cbn [M.diffF diffF emb]; fold emb. change (X.VAtom (embA a)) with (emb (VAtom a)). change (X.VList (map emb ys)) with (emb (VList ys)).
      apply emb_head; [reflexivity|]. intros H. cbn [type_of] in H. rewrite (proj1 (atom_ty_not_container a TList I)) in H. discriminate.
    + cbn [M.diffF diffF emb]; fold emb. change (X.VAtom (embA a)) with (emb (VAtom a)). change (X.VTuple (map emb ys)) with (emb (VTuple ys)).
      apply emb_head; [reflexivity|]. intros H. cbn [type_of] in H. rewrite (proj1 (atom_ty_not_container a TTuple I)) in H. discriminate.
    + cbn [M.diffF diffF emb]; fold emb. change (X.VAtom (embA a)) with (emb (VAtom a)).
      change (X.VDict (map (fun kv : atom * value => (embA (fst kv), emb (snd kv))) kvs2)) with (emb (VDict kvs2)).
      apply emb_head; [reflexivity|]. intros H. cbn [type_of] in H. rewrite (proj1 (atom_ty_not_container a TDict I)) in H. discriminate.
    + cbn [M.diffF diffF emb]. change (X.VAtom (embA a)) with (emb (VAtom a)). change (X.VSet (map embA ys)) with (emb (VSet ys)).
      apply emb_head; [reflexivity|]. intros H. cbn [type_of] in H. rewrite (proj1 (atom_ty_not_container a TSet I)) in H. discriminate.
    + cbn [M.diffF diffF emb]. change (X.VAtom (embA a)) with (emb (VAtom a)). change (X.VFrozen (map embA ys)) with (emb (VFrozen ys)).
      apply emb_head; [reflexivity|]. intros H. cbn [type_of] in H. rewrite (proj1 (atom_ty_not_container a TFrozen I)) in H. discriminate.
  - (* list *)
    cbn [M.diffF diffF emb]; fold emb. change (X.VList (map emb xs)) with (emb (VList xs)). apply emb_head; [reflexivity|]. intros Hty.
    destruct t2 as [b|ys|ys|kvs2|ys|ys]; cbn [emb]; fold emb; try discriminate Hty;
      try (exfalso; cbn [type_of] in Hty; rewrite (proj2 (atom_ty_not_container b TList I)) in Hty; discriminate).
    cbn [X.zip embC]. rewrite !emb_forallb_is_basic.
    destruct (negb (zip c) && forallb is_atom xs && forallb is_atom ys).
    + rewrite (emb_default_leaf_err udiff F opsX).
      rewrite (emb_default_leaf_listF udiff F ops opsX ops_agree).
      destruct (default_leaf_listF udiff ops F xs ys p1 p2) as [es rec]. cbn [fst snd embRes map]. destruct rec; reflexivity.
    + apply emb_go_list. exact IH.
  - (* tuple *)
    cbn [M.diffF diffF emb]; fold emb. change (X.VTuple (map emb xs)) with (emb (VTuple xs)). apply emb_head; [reflexivity|]. intros Hty.
    destruct t2 as [b|ys|ys|kvs2|ys|ys]; cbn [emb]; fold emb; try discriminate Hty;
      try (exfalso; cbn [type_of] in Hty; rewrite (proj2 (atom_ty_not_container b TTuple I)) in Hty; discriminate).
    cbn [X.zip embC]. rewrite !emb_forallb_is_basic.
    destruct (negb (zip c) && forallb is_atom xs && forallb is_atom ys).
    + rewrite (emb_default_leaf_err udiff F opsX).
      rewrite (emb_default_leaf_listF udiff F ops opsX ops_agree).
      destruct (default_leaf_listF udiff ops F xs ys p1 p2) as [es rec]. cbn [fst snd embRes map]. destruct rec; reflexivity.
    + apply emb_go_list. exact IH.
  - (* dict *)
    cbn [M.diffF diffF emb]; fold emb.
    change (map (fun kv : atom * value => (embA (fst kv), emb (snd kv))) kvs) with (map embKV kvs).
    change (X.VDict (map embKV kvs)) with (emb (VDict kvs)). apply emb_head; [reflexivity|]. intros Hty.
    destruct t2 as [b|ys|ys|kvs2|ys|ys]; cbn [emb]; fold emb; try discriminate Hty;
      try (exfalso; cbn [type_of] in Hty; rewrite (proj2 (atom_ty_not_container b TDict I)) in Hty; discriminate).
    change (map (fun kv : atom * value => (embA (fst kv), emb (snd kv))) kvs2) with (map embKV kvs2).
    rewrite !emb_keys_of, !emb_kmap.
    destruct (kmap F (keys_of c kvs)) as [km1|e1]; cbn [embResM M.bind bind]; [|reflexivity].
    destruct (kmap F (keys_of c kvs2)) as [km2|e2]; cbn [embResM M.bind bind]; [|reflexivity].
    rewrite !emb_ckeys, emb_shortcutF.
    destruct (shortcutF c (ckeys F (keys_of c kvs) km1) (ckeys F (keys_of c kvs2) km2)).
    { cbn [embRes fst snd map]. change X.KValue with (embR KValue).
      change (X.VDict (map embKV kvs)) with (emb (VDict kvs)). change (X.VDict (map embKV kvs2)) with (emb (VDict kvs2)).
      try change (Some (X.VDict (map (fun kv : atom * value => (embA (fst kv), emb (snd kv))) kvs))) with (option_map emb (Some (VDict kvs))).
      try change (Some (emb (VDict kvs))) with (option_map emb (Some (VDict kvs))).
      change (Some (emb (VDict kvs2))) with (option_map emb (Some (VDict kvs2))).
      rewrite emb_reportF. reflexivity. }
    change X.KDictAdd with (embR KDictAdd). change X.KDictRem with (embR KDictRem).
    rewrite !emb_key_reports by auto.
    match goal with |- M.bind ?G _ = embRes (bind ?H _) => assert (G = embRes H) as Hgo end.
    { clear - IH. induction kvs as [|[k v1] r IHr]; [reflexivity|].
      inversion IH as [|? ? Hx Hxs]; subst. cbn [snd] in Hx.
      cbn [map embKV fst snd]. rewrite embRes_bind2, (IHr Hxs). f_equal.
      rewrite emb_keep_key. destruct (keep_key c k); [|reflexivity].
      rewrite emb_repr_ckey. destruct (repr_ckey F km1 k) as [ck|]; cbn [option_map]; [|reflexivity].
      rewrite emb_find_py_eq. destruct (find (py_eq ck) (ckeys F (keys_of c kvs2) km2)) as [ck'|]; cbn [option_map]; [|reflexivity].
      rewrite emb_orig_key.
      change (map embKV kvs2) with (map (fun kv : atom * value => (embA (fst kv), emb (snd kv))) kvs2). rewrite (emb_assoc emb).
      destruct (assoc (orig_key F km2 ck') kvs2) as [v2|]; cbn [option_map]; [|reflexivity].
      change (X.PKey (embA ck')) with (embK (PKey ck')). rewrite !embP_snoc. apply Hx. }
    rewrite Hgo.
    match goal with |- M.bind (embRes ?H) _ = _ => destruct H as [[ce cr]|e0] end; cbn [embRes M.bind bind fst snd]; [|reflexivity].
    rewrite !map_app. reflexivity.
  - (* set *)
    cbn [M.diffF diffF emb]. change (X.VSet (map embA xs)) with (emb (VSet xs)). apply emb_head; [reflexivity|]. intros Hty.
    destruct t2 as [b|ys|ys|kvs2|ys|ys]; cbn [emb]; try discriminate Hty;
      try (exfalso; cbn [type_of] in Hty; rewrite (proj2 (atom_ty_not_container b TSet I)) in Hty; discriminate).
    rewrite emb_set_err. cbn [embRes fst snd map]. rewrite emb_diff_setF. reflexivity.
  - (* frozenset *)
    cbn [M.diffF diffF emb]. change (X.VFrozen (map embA xs)) with (emb (VFrozen xs)). apply emb_head; [reflexivity|]. intros Hty.
    destruct t2 as [b|ys|ys|kvs2|ys|ys]; cbn [emb]; try discriminate Hty;
      try (exfalso; cbn [type_of] in Hty; rewrite (proj2 (atom_ty_not_container b TFrozen I)) in Hty; discriminate).
    rewrite emb_set_err. cbn [embRes fst snd map]. rewrite emb_diff_setF. reflexivity.
Qed.
End Main.

(* ---- mutual_add_removes and the whole run ---- *)
Lemma embR_eqb : forall a b, X.rkind_eqb (embR a) (embR b) = rkind_eqb a b.
Proof. intros a b. destruct a, b; reflexivity. Qed.
Lemma embK_eqb : forall a b, X.pkey_eqb (embK a) (embK b) = pkey_eqb a b.
Proof. intros [a|i] [b|j]; cbn; try reflexivity. apply embA_atom_eqb. Qed.
Lemma embP_eqb : forall p q, X.path_eqb (embP p) (embP q) = path_eqb p q.
Proof. induction p as [|a p IH]; intros [|b q]; cbn; try reflexivity. rewrite embK_eqb, IH. reflexivity. Qed.

Lemma emb_last_with_path : forall p l, X.last_with_path (embP p) (map embE l) = option_map embE (last_with_path p l).
Proof.
  intros p l. unfold X.last_with_path, last_with_path.
  change (@None X.entry) with (option_map embE None). generalize (@None entry) as acc.
  induction l as [|e l IH]; intros acc; cbn [map fold_left]; [reflexivity|].
  rewrite <- IH. f_equal. cbn [X.ep1 embE]. rewrite embP_eqb. destruct (path_eqb (ep1 e) p); reflexivity.
Qed.

Lemma emb_mutual : forall es, X.mutual (map embE es) = map embE (mutual es).
Proof.
  intros es. unfold X.mutual, mutual.
  rewrite (filter_map_comm embE (X.is_kind X.KIterAdd) (is_kind KIterAdd))
    by (intros x; unfold X.is_kind, is_kind; cbn [X.ekind embE]; change X.KIterAdd with (embR KIterAdd); apply embR_eqb).
  rewrite (filter_map_comm embE (X.is_kind X.KIterRem) (is_kind KIterRem))
    by (intros x; unfold X.is_kind, is_kind; cbn [X.ekind embE]; change X.KIterRem with (embR KIterRem); apply embR_eqb).
  rewrite map_flat_map, flat_map_map. apply flat_map_ext. intros e.
  cbn [X.ekind X.ep1 X.ep2 X.et1 X.et2 X.ediff embE].
  destruct (Tree.ekind e) eqn:Ek; cbn [embR]; try reflexivity.
  - (* added *)
    rewrite emb_last_with_path.
    destruct (last_with_path (ep1 e) (filter (is_kind KIterRem) es)) as [r|]; cbn [option_map]; [reflexivity|].
    reflexivity.
  - (* removed *)
    rewrite !emb_last_with_path.
    destruct (last_with_path (ep1 e) (filter (is_kind KIterAdd) es)) as [a|]; cbn [option_map]; [|reflexivity].
    destruct (last_with_path (ep1 e) (filter (is_kind KIterRem) es)) as [r|]; cbn [option_map]; [|reflexivity].
    reflexivity.
Qed.

Theorem models_agree :
  forall udiff ops opsX,
  (forall p xs ys, opsX (embP p) (map emb xs) (map emb ys) = map embO (ops p xs ys)) ->
  forall c F t1 t2,
  M.run_optF udiff opsX (embC c) (embF F) (emb t1) (emb t2) = embRes (run_optF udiff ops c F t1 t2).
Proof.
  intros udiff ops opsX Hops c F t1 t2. unfold M.run_optF, run_optF.
  pose proof (emb_diffF udiff ops opsX Hops c F t1 t2 [] []) as H. cbn [embP map] in H. rewrite H.
  destruct (diffF udiff ops c F t1 t2 [] []) as [[es ps]|e]; cbn [embRes M.bind bind fst snd]; [|reflexivity].
  rewrite emb_mutual. reflexivity.
Qed.

(* the embedding is injective on results: an empty / non-empty / failing old run is an empty / non-empty / failing extended run *)
Corollary models_agree_empty : forall udiff ops opsX,
  (forall p xs ys, opsX (embP p) (map emb xs) (map emb ys) = map embO (ops p xs ys)) ->
  forall c F t1 t2,
  run_optF udiff ops c F t1 t2 = Ok ([], []) <-> M.run_optF udiff opsX (embC c) (embF F) (emb t1) (emb t2) = M.Ok ([], []).
Proof.
  intros udiff ops opsX Hops c F t1 t2. rewrite (models_agree udiff ops opsX Hops). split.
  - intros H. rewrite H. reflexivity.
  - destruct (run_optF udiff ops c F t1 t2) as [[es ps]|e]; cbn [embRes fst snd]; intros H; [|discriminate].
    injection H as H1 H2. apply map_eq_nil in H1. apply map_eq_nil in H2. subst. reflexivity.
Qed.

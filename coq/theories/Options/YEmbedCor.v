(** (round-3 extended universe) Using the agreement of the two models: an oracle for the extended model that
    agrees with a given one always exists (the embedding has a left inverse), and
    a theorem of the extended model gives the corresponding theorem of the old
    one - shown for clause 3 (no exception). *)
From Coq Require Import List ZArith NArith Bool Arith Lia.
Import ListNotations.
From DD Require Import Base.PyStr Base.Value Diff.Tree Diff.DiffModel Options.OptModel Options.OptProofsBase
  Options.OptEmbedNum Options.YEmbed.
From DD Require Options.YValue Options.YModel Options.YProofsBase Options.YProofsSafe.

(* a left inverse of the embedding *)
Definition unembA (a : X.atom) : atom :=
  match a with
  | X.ANone => ANone | X.ABool b => ABool b | X.AInt z => AInt z
  | X.AFloat m e => if N.eqb e 0 then AHalf (2 * m) else AHalf m
  | X.AStr s => AStr s | X.ABytes s => ABytes s
  | X.ADt _ _ | X.ANan _ | X.ADec _ _ | X.ADate _ _ _ | X.ATime _ | X.ATd _ | X.AEnum _ _ _ _ => ANone   (* not in the image *)
  end.
Fixpoint unemb (v : X.value) : value :=
  match v with
  | X.VAtom a => VAtom (unembA a)
  | X.VList xs => VList (map unemb xs)
  | X.VTuple xs => VTuple (map unemb xs)
  | X.VDict kvs => VDict (map (fun kv => (unembA (fst kv), unemb (snd kv))) kvs)
  | X.VSet xs => VSet (map unembA xs)
  | X.VFrozen xs => VFrozen (map unembA xs)
  end.
Definition unembK (k : X.pkey) : pkey :=
  match k with X.PKey a => PKey (unembA a) | X.PIdx i => PIdx i | X.PAttr _ => PIdx 0 (* not in the image *) end.

Lemma unembA_embA : forall a, unembA (embA a) = a.
Proof.
  intros [| | |t| |]; try reflexivity. cbn [embA]. destruct (Z.even t) eqn:E; cbn [unembA N.eqb]; [|reflexivity]. rewrite (half_even t E). reflexivity.
Qed.
Lemma unemb_emb : forall v, unemb (emb v) = v.
Proof.
  induction v as [a|xs IH|xs IH|kvs IH|xs|xs] using value_ind'; cbn [emb unemb].
  - rewrite unembA_embA. reflexivity.
  - f_equal. rewrite map_map. induction IH as [|x xs Hx _ IHx]; cbn; [reflexivity|]. rewrite Hx, IHx. reflexivity.
  - f_equal. rewrite map_map. induction IH as [|x xs Hx _ IHx]; cbn; [reflexivity|]. rewrite Hx, IHx. reflexivity.
  - f_equal. induction IH as [|[k v] r Hx _ IHx]; cbn [map fst snd]; [reflexivity|].
    cbn [snd] in Hx. rewrite unembA_embA, Hx. f_equal. exact IHx.
  - f_equal. rewrite map_map. induction xs as [|x xs IHx]; cbn; [reflexivity|]. rewrite unembA_embA, IHx. reflexivity.
  - f_equal. rewrite map_map. induction xs as [|x xs IHx]; cbn; [reflexivity|]. rewrite unembA_embA, IHx. reflexivity.
Qed.
Lemma unembK_embK : forall k, unembK (embK k) = k.
Proof. intros [a|i]; cbn; [rewrite unembA_embA|]; reflexivity. Qed.

(* the oracle of the old model, transported *)
Definition opsX_of (ops : path -> list value -> list value -> list opcode)
           (p : X.path) (xs ys : list X.value) : list X.opcode :=
  map embO (ops (map unembK p) (map unemb xs) (map unemb ys)).

Lemma opsX_of_agree : forall ops p xs ys, opsX_of ops (embP p) (map emb xs) (map emb ys) = map embO (ops p xs ys).
Proof.
  intros. unfold opsX_of, embP. rewrite !map_map.
  rewrite (map_ext (fun x => unembK (embK x)) (fun x => x)) by apply unembK_embK.
  rewrite !(map_ext (fun x => unemb (emb x)) (fun x => x)) by apply unemb_emb.
  rewrite !map_id. reflexivity.
Qed.

(* embedded values avoid every raising corner: the guard of the extended clause 3 holds *)
Lemma emb_safe : forall F v, YProofsSafe.safe (embF F) (emb v) = true.
Proof.
  intros F. induction v as [a|xs IH|xs IH|kvs IH|xs|xs] using value_ind'; cbn [emb YProofsSafe.safe].
  - apply emb_quiet.
  - rewrite forallb_forall. intros x Hx. apply in_map_iff in Hx. destruct Hx as [v [E Hv]]. subst.
    rewrite Forall_forall in IH. apply IH. exact Hv.
  - rewrite forallb_forall. intros x Hx. apply in_map_iff in Hx. destruct Hx as [v [E Hv]]. subst.
    rewrite Forall_forall in IH. apply IH. exact Hv.
  - rewrite forallb_forall. intros x Hx. apply in_map_iff in Hx. destruct Hx as [[k v] [E Hv]]. subst. cbn [fst snd].
    rewrite Forall_forall in IH. pose proof (IH (k, v) Hv) as Hkv. cbn [snd] in Hkv. rewrite Hkv, andb_true_r.
    unfold YProofsSafe.key_quiet. rewrite emb_quiet.
    destruct k as [| | |t| |]; cbn [embA]; try (destruct (Z.even t)); cbn [YProofsSafe.dt_like]; rewrite andb_false_r; reflexivity.
  - apply emb_member_quiet.
  - apply emb_member_quiet.
Qed.

(* clause 3 of the old model as a corollary of the extended model's *)
Corollary never_raises_via_extended : forall udiff ops c F t1 t2, exists r, run_optF udiff ops c F t1 t2 = Ok r.
Proof.
  intros udiff ops c F t1 t2.
  pose proof (models_agree udiff ops (opsX_of ops) (opsX_of_agree ops) c F t1 t2) as H.
  destruct (YProofsSafe.never_raises_run (embF F) (embC c) udiff (opsX_of ops) (emb t1) (emb t2) (emb_safe F t1) (emb_safe F t2)) as [r' Hr].
  rewrite Hr in H. destruct (run_optF udiff ops c F t1 t2) as [r|e]; [exists r; reflexivity|discriminate].
Qed.

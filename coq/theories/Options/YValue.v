(** The extended universe of the C11 block (round 3): the shared universe of
    Base/Value.v with
      (a) floats as arbitrary dyadic rationals m / 2^e, and float('nan') OBJECTS
          (ANan id: two nan atoms with the same id are the same Python object;
          nan == nan is False but `is`, dict lookups, set membership and
          list.__eq__ go by identity first),
      (b) Decimal (m * 10^e, finite), datetime (naive or fixed UTC offset),
          date, naive time, timedelta,
      (c) members of plain Enum classes (class name, member name, definition
          order, value - the value is None / int / float / str / bytes),
    as atoms (leaves, dict keys, set members), together with the result-tree
    types and helper definitions of Diff/Tree.v and Diff/DiffModel.v re-stated
    over it.  Definitions only.

    Representation invariants (always true of what the harness emits): floats
    are in lowest terms (m odd or e = 0; float.as_integer_ratio); dict keys /
    set members are pairwise different for Python's lookup relation py_eq. *)
From Coq Require Import List ZArith NArith Bool String.
Import ListNotations.
From DD Require Import Base.Sx Base.PyStr Options.OptDtModel.

(* the value of an Enum member *)
Inductive eatom :=
| ENone
| EInt (z : Z)
| EFloat (m : Z) (e : N)
| EStr (s : pystr)
| EBytes (s : pystr).

Inductive atom :=
| ANone
| ABool (b : bool)
| AInt (z : Z)
| AFloat (m : Z) (e : N)               (* the float m / 2^e *)
| AStr (s : pystr)
| ABytes (s : pystr)
| ADt (us : Z) (off : option Z)        (* wall clock in microseconds since 1970-01-01T00:00 of its zone; UTC offset in minutes *)
| ANan (id : nat)                      (* a float nan object; id = object identity *)
| ADec (m : Z) (e : Z)                 (* Decimal: m * 10^e *)
| ADate (y mo d : Z)                   (* datetime.date *)
| ATime (us : Z)                       (* naive datetime.time: microseconds since midnight *)
| ATd (us : Z)                         (* datetime.timedelta in microseconds *)
| AEnum (cls name : pystr) (ord : nat) (v : eatom).   (* member `name` (the ord-th) of the Enum class `cls` *)

Inductive value :=
| VAtom (a : atom)
| VList (xs : list value)
| VTuple (xs : list value)
| VDict (kvs : list (atom * value))
| VSet (xs : list atom)
| VFrozen (xs : list atom).

Definition atom_of_e (v : eatom) : atom :=
  match v with
  | ENone => ANone | EInt z => AInt z | EFloat m e => AFloat m e | EStr s => AStr s | EBytes s => ABytes s
  end.

(* the number an atom is, for int / bool / finite float (bool is a number in Python) *)
Definition num_of (a : atom) : option (Z * N) :=
  match a with
  | ABool b => Some ((if b then 1 else 0)%Z, 0%N)
  | AInt z => Some (z, 0%N)
  | AFloat m e => Some (m, e)
  | _ => None
  end.
(* the exact value num / den (den > 0) of every finite number, Decimal included *)
Definition qv (a : atom) : option (Z * Z) :=
  match a with
  | ADec m e => Some (if (0 <=? e)%Z then ((m * Z.pow 10 e)%Z, 1%Z) else (m, Z.pow 10 (- e)))
  | _ => match num_of a with Some (m, e) => Some (m, Z.pow 2 (Z.of_N e)) | None => None end
  end.
Definition q_eqb (x y : Z * Z) : bool := Z.eqb (fst x * snd y) (fst y * snd x).
Definition dy_same (x y : Z * N) : bool := Z.eqb (fst x) (fst y) && N.eqb (snd x) (snd y).

(* Python == on datetimes: both naive (wall clocks), both aware (instants); a naive one never equals an aware one *)
Definition dt_py_eq (us1 : Z) (o1 : option Z) (us2 : Z) (o2 : option Z) : bool :=
  match o1, o2 with
  | None, None => Z.eqb us1 us2
  | Some a, Some b => Z.eqb (us1 - 60000000 * a) (us2 - 60000000 * b)
  | _, _ => false
  end.

(* The relation Python uses to look an object up (dict keys, set members, `in`, list ==): identity or ==.
   Numbers compare by exact value across int / bool / float / Decimal; a nan equals only itself (identity);
   Enum members are singletons. *)
Definition py_eq (a b : atom) : bool :=
  match qv a, qv b with
  | Some x, Some y => q_eqb x y
  | None, None =>
      match a, b with
      | ANone, ANone => true
      | AStr s, AStr t => pystr_eqb s t
      | ABytes s, ABytes t => pystr_eqb s t
      | ADt u1 o1, ADt u2 o2 => dt_py_eq u1 o1 u2 o2
      | ANan i, ANan j => Nat.eqb i j
      | ADate y m d, ADate y' m' d' => Z.eqb y y' && Z.eqb m m' && Z.eqb d d'
      | ATime u, ATime u' => Z.eqb u u'
      | ATd u, ATd u' => Z.eqb u u'
      | AEnum c n _ _, AEnum c' n' _ _ => pystr_eqb c c' && pystr_eqb n n'
      | _, _ => false
      end
  | _, _ => false
  end.
Definition is_nan (a : atom) : bool := match a with ANan _ => true | _ => false end.
Definition is_enum (a : atom) : bool := match a with AEnum _ _ _ _ => true | _ => false end.
(* Python == proper (x == y in the moved-item test of the pairwise list comparison): nan == nan is False *)
Definition py_eq_strict (a b : atom) : bool := py_eq a b && negb (is_nan a).
(* `t1 is t2` where it can be observed: nan objects and Enum members (for every other atom identical objects
   are equal objects of one representation, for which every comparer reports nothing) *)
Definition same_obj (a b : atom) : bool :=
  match a, b with
  | ANan i, ANan j => Nat.eqb i j
  | AEnum c n _ _, AEnum c' n' _ _ => pystr_eqb c c' && pystr_eqb n n'
  | _, _ => false
  end.

Definition opt_Z_eqb (a b : option Z) : bool :=
  match a, b with Some x, Some y => Z.eqb x y | None, None => true | _, _ => false end.

Definition eatom_eqb (a b : eatom) : bool :=
  match a, b with
  | ENone, ENone => true
  | EInt x, EInt y => Z.eqb x y
  | EFloat m e, EFloat m' e' => Z.eqb m m' && N.eqb e e'
  | EStr s, EStr t => pystr_eqb s t
  | EBytes s, EBytes t => pystr_eqb s t
  | _, _ => false
  end.
(* same type and same representation *)
Definition atom_eqb (a b : atom) : bool :=
  match a, b with
  | ANone, ANone => true
  | ABool x, ABool y => Bool.eqb x y
  | AInt x, AInt y => Z.eqb x y
  | AFloat m e, AFloat m' e' => Z.eqb m m' && N.eqb e e'
  | AStr s, AStr t => pystr_eqb s t
  | ABytes s, ABytes t => pystr_eqb s t
  | ADt u o, ADt u' o' => Z.eqb u u' && opt_Z_eqb o o'
  | ANan i, ANan j => Nat.eqb i j
  | ADec m e, ADec m' e' => Z.eqb m m' && Z.eqb e e'
  | ADate y m d, ADate y' m' d' => Z.eqb y y' && Z.eqb m m' && Z.eqb d d'
  | ATime u, ATime u' => Z.eqb u u'
  | ATd u, ATd u' => Z.eqb u u'
  | AEnum c n o v, AEnum c' n' o' v' => pystr_eqb c c' && pystr_eqb n n' && Nat.eqb o o' && eatom_eqb v v'
  | _, _ => false
  end.

Inductive ty := TNone | TBool | TInt | TFloat | TStr | TBytes | TDatetime
              | TList | TTuple | TDict | TSet | TFrozen
              | TDecimal | TDate | TTime | TTimedelta | TEnum (cls : pystr).
Definition ty_eqb (a b : ty) : bool :=
  match a, b with
  | TNone, TNone | TBool, TBool | TInt, TInt | TFloat, TFloat | TStr, TStr
  | TBytes, TBytes | TDatetime, TDatetime | TList, TList | TTuple, TTuple | TDict, TDict | TSet, TSet
  | TFrozen, TFrozen | TDecimal, TDecimal | TDate, TDate | TTime, TTime | TTimedelta, TTimedelta => true
  | TEnum c, TEnum c' => pystr_eqb c c'
  | _, _ => false
  end.
Definition atom_ty (a : atom) : ty :=
  match a with
  | ANone => TNone | ABool _ => TBool | AInt _ => TInt | AFloat _ _ => TFloat
  | AStr _ => TStr | ABytes _ => TBytes | ADt _ _ => TDatetime
  | ANan _ => TFloat | ADec _ _ => TDecimal | ADate _ _ _ => TDate | ATime _ => TTime | ATd _ => TTimedelta
  | AEnum c _ _ _ => TEnum c
  end.
Definition type_of (v : value) : ty :=
  match v with
  | VAtom a => atom_ty a
  | VList _ => TList | VTuple _ => TTuple | VDict _ => TDict
  | VSet _ => TSet | VFrozen _ => TFrozen
  end.

Fixpoint assoc {B} (k : atom) (l : list (atom * B)) : option B :=
  match l with
  | [] => None
  | (k', v) :: r => if py_eq k' k then Some v else assoc k r
  end.
Definition mem_atom (a : atom) (l : list atom) : bool := existsb (py_eq a) l.
Fixpoint nodup_atoms (l : list atom) : bool :=
  match l with
  | [] => true
  | a :: r => negb (mem_atom a r) && nodup_atoms r
  end.

(* floats in lowest terms *)
Definition canon_atom (a : atom) : bool :=
  match a with
  | AFloat m e => N.eqb e 0 || Z.odd m
  | AEnum _ _ _ (EFloat m e) => N.eqb e 0 || Z.odd m
  | _ => true
  end.

(* representation invariant of real inputs *)
Fixpoint wf (v : value) : bool :=
  match v with
  | VAtom a => canon_atom a
  | VList xs | VTuple xs => forallb wf xs
  | VDict kvs => nodup_atoms (map fst kvs) && forallb (fun kv => canon_atom (fst kv) && wf (snd kv)) kvs
  | VSet xs | VFrozen xs => nodup_atoms xs && forallb canon_atom xs
  end.

(* path elements: dict key, sequence index, attribute (the children `name` / `value` of an Enum member) *)
Inductive pkey := PKey (a : atom) | PIdx (i : nat) | PAttr (s : pystr).
Definition pkey_eqb (a b : pkey) : bool :=
  match a, b with
  | PKey x, PKey y => atom_eqb x y
  | PIdx i, PIdx j => Nat.eqb i j
  | PAttr s, PAttr t => pystr_eqb s t
  | _, _ => false
  end.
Definition path := list pkey.
Fixpoint path_eqb (p q : path) : bool :=
  match p, q with
  | [], [] => true
  | a :: p', b :: q' => pkey_eqb a b && path_eqb p' q'
  | _, _ => false
  end.

(* ---- result trees (Diff/Tree.v) ---- *)
Inductive rkind :=
| KType | KValue | KDictAdd | KDictRem | KIterAdd | KIterRem | KIterMoved
| KSetAdd | KSetRem | KRepetition.
Definition rkind_eqb (a b : rkind) : bool :=
  match a, b with
  | KType, KType | KValue, KValue | KDictAdd, KDictAdd | KDictRem, KDictRem
  | KIterAdd, KIterAdd | KIterRem, KIterRem | KIterMoved, KIterMoved
  | KSetAdd, KSetAdd | KSetRem, KSetRem | KRepetition, KRepetition => true
  | _, _ => false
  end.
Record entry := mkEntry {
  ekind : rkind;
  ep1 : path;
  ep2 : path;
  et1 : option value;
  et2 : option value;
  ediff : option pystr
}.
Inductive optag := OEqual | OReplace | ODelete | OInsert.
Record opcode := mkOp { otag : optag; oi1 : nat; oi2 : nat; oj1 : nat; oj2 : nat }.
Definition slice {A} (l : list A) (a b : nat) : list A := firstn (b - a) (skipn a l).

(* ---- configuration and helpers (Diff/DiffModel.v) ---- *)
Record cfg := mkCfg {
  zip : bool;
  thr_num : nat; thr_den : nat;
  ignore_private : bool
}.
Definition is_ascii (s : pystr) : bool := forallb (fun ch => N.ltb ch 128) s.
Definition has_nl (s : pystr) : bool := has_char 10%N s.
Definition is_atom (v : value) : bool := match v with VAtom _ => true | _ => false end.
(* isinstance(item, helper.basic_types): strings, numbers (Decimal and the datetime types included), booleans, None -
   not Enum members; only sequences of such items are aligned with difflib *)
Definition is_basic (v : value) : bool := match v with VAtom (AEnum _ _ _ _) => false | VAtom _ => true | _ => false end.
Definition py_eq_leaf (x y : value) : bool :=
  match x, y with VAtom a, VAtom b => py_eq_strict a b | _, _ => false end.
Definition snoc (p : path) (k : pkey) : path := (p ++ [k])%list.
Definition app2 {A B} (a b : list A * list B) : list A * list B :=
  ((fst a ++ fst b)%list, (snd a ++ snd b)%list).
Definition private_key (k : atom) : bool :=
  match k with AStr s => is_prefix [95%N; 95%N] s | _ => false end.
Definition keep_key (c : cfg) (k : atom) : bool := negb (ignore_private c && private_key k).
Definition keys_of (c : cfg) (kvs : list (atom * value)) : list atom := filter (keep_key c) (map fst kvs).
Fixpoint first_per_hash (h : atom -> pystr) (l : list atom) (seen : list pystr) : list atom :=
  match l with
  | [] => []
  | a :: r => if existsb (pystr_eqb (h a)) seen then first_per_hash h r seen
              else a :: first_per_hash h r (h a :: seen)
  end.

(* TreeResult.mutual_add_removes_to_become_value_changes *)
Definition is_kind (k : rkind) (e : entry) : bool := rkind_eqb (ekind e) k.
Definition last_with_path (p : path) (l : list entry) : option entry :=
  fold_left (fun acc e => if path_eqb (ep1 e) p then Some e else acc) l None.
Definition mutual (es : list entry) : list entry :=
  let added := filter (is_kind KIterAdd) es in
  let removed := filter (is_kind KIterRem) es in
  flat_map (fun e =>
    match ekind e with
    | KIterRem =>
        match last_with_path (ep1 e) added with
        | Some a =>
            match last_with_path (ep1 e) removed with
            | Some r => [mkEntry KValue (ep1 e) (ep2 e) (et1 e) (et2 a) (ediff e)]
            | None => [e]
            end
        | None => [e]
        end
    | KIterAdd =>
        match last_with_path (ep1 e) removed with
        | Some _ => []
        | None => [e]
        end
    | _ => [e]
    end) es.

(* ---- correspondence rendering (mirrors harness/props/c11.py xcanon) ---- *)
Local Open Scope string_scope.
Definition sx_eatom (a : eatom) : sx :=
  match a with
  | ENone => SA "None"
  | EInt z => SL [SA "i"; SZ z]
  | EFloat m e => SL [SA "f"; SZ m; SZ (Z.of_N e)]
  | EStr s => SL [SA "s"; sx_str s]
  | EBytes s => SL [SA "y"; sx_str s]
  end.
Definition sx_atom (a : atom) : sx :=
  match a with
  | ANone => SA "None"
  | ABool b => SL [SA "b"; sx_bool b]
  | AInt z => SL [SA "i"; SZ z]
  | AFloat m e => SL [SA "f"; SZ m; SZ (Z.of_N e)]
  | AStr s => SL [SA "s"; sx_str s]
  | ABytes s => SL [SA "y"; sx_str s]
  | ADt us off => SL [SA "d"; SZ us; sx_opt SZ off]
  | ANan _ => SA "nan"                     (* identity is not observable in a result *)
  | ADec m e => SL [SA "D"; SZ m; SZ e]
  | ADate y m d => SL [SA "date"; SZ y; SZ m; SZ d]
  | ATime us => SL [SA "time"; SZ us]
  | ATd us => SL [SA "td"; SZ us]
  | AEnum c n _ v => SL [SA "E"; sx_str c; sx_str n; sx_eatom v]
  end.
Fixpoint sx_value (v : value) : sx :=
  match v with
  | VAtom a => sx_atom a
  | VList xs => SL [SA "L"; SL (map sx_value xs)]
  | VTuple xs => SL [SA "T"; SL (map sx_value xs)]
  | VDict kvs => SL [SA "D"; SL (map (fun kv => SL [sx_atom (fst kv); sx_value (snd kv)]) kvs)]
  | VSet xs => SL [SA "S"; SL (sx_sort (map sx_atom xs))]
  | VFrozen xs => SL [SA "F"; SL (sx_sort (map sx_atom xs))]
  end.
Definition sx_pkey (k : pkey) : sx :=
  match k with
  | PKey a => SL [SA "k"; sx_atom a]
  | PIdx i => SL [SA "x"; sx_nat i]
  | PAttr s => SL [SA "a"; sx_str s]
  end.
Definition sx_path (p : path) : sx := SL (map sx_pkey p).

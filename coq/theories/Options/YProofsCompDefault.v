(** (round-3 extended universe) Option composition in the DEFAULT list mode (all-basic sequences aligned with
    difflib): the entry-wise embedding of YProofsCompStruct.v FAILS there, for valid (tiling) opcodes - the code
    prefers the pairwise pass over the difflib pass when it does not report MORE, and an option that removes one
    report of the pairwise pass flips that choice; the two passes report at different positions.  What survives in
    the default mode is the weaker "empty stays empty" (clauses 1 and 2: YProofsAlt / YProofsMono). *)
From Coq Require Import List ZArith NArith Bool Arith Lia.
Import ListNotations.
From DD Require Import Base.PyStr Options.OptModel Options.OptDtModel Options.YValue Options.YModel
  Options.YProofsBase Options.YProofsLists Options.YProofsSafe Options.YProofsCompNum Options.YProofsComp.
Local Open Scope Z_scope.

Definition dud0 (_ _ : pystr) : pystr := [].
Definition dcdef : cfg := mkCfg false 33 100 true.
Definition dczip : cfg := mkCfg true 33 100 true.
(* difflib.SequenceMatcher(None, [1, 1.5], [1.75, 1.75, 1.5]).get_opcodes() *)
Definition dops (_ : path) (_ _ : list value) : list opcode := [mkOp OReplace 0 1 0 2; mkOp OEqual 1 2 2 3].
(* case strty numty sig eps excl trunc tz nan enum note *)
Definition DFeps : opts := mkOpts false false false None (Some (1, 1%N)) [] None 0 false false false.   (* math_epsilon = 0.5 *)
Definition dt1 : value := VList [VAtom (AInt 1); VAtom (AFloat 3 1)].
Definition dt2 : value := VList [VAtom (AFloat 7 2); VAtom (AFloat 7 2); VAtom (AFloat 3 1)].

(* DeepDiff([1, 1.5], [1.75, 1.75, 1.5]) reports at root[0] and root[1] (difflib pass: 2 reports, pairwise pass: 3);
   with math_epsilon=0.5 the pairwise pass loses the report 1.5 -> 1.75, is preferred, and reports at root[0] and root[2] *)
Theorem comp_default_mode_refuted :
  exists rF rG,
    ole no_opts DFeps /\
    (pair_ok no_opts DFeps (AFloat 3 1) (AFloat 7 2) /\ pair_ok no_opts DFeps (AInt 1) (AFloat 7 2)) /\
    tiles (dops [] [] []) 0 0 2 3 = true /\
    run_optF dud0 dops dcdef no_opts dt1 dt2 = Ok rF /\ run_optF dud0 dops dcdef DFeps dt1 dt2 = Ok rG /\
    ~ covers (fst rF) (fst rG).
Proof.
  eexists. eexists.
  split; [constructor; cbn; auto; discriminate|].
  split; [split; (split; [right; split; reflexivity|left; reflexivity])|].
  split; [reflexivity|].
  split; [vm_compute; reflexivity|]. split; [vm_compute; reflexivity|].
  intros H. cbn [fst] in H.
  specialize (H (mkEntry KIterAdd [PIdx 2] [PIdx 2] None (Some (VAtom (AFloat 3 1))) None)).
  destruct H as [e' [Hin Hp]]; [right; left; reflexivity|].
  cbn in Hin. destruct Hin as [E|[E|[]]]; subst e'; cbn in Hp; discriminate.
Qed.

(* the same pair in the positional mode: the embedding holds (as YProofsCompStruct.comp_run says) *)
Example comp_positional_same_pair :
  exists rF rG,
    run_optF dud0 dops dczip no_opts dt1 dt2 = Ok rF /\ run_optF dud0 dops dczip DFeps dt1 dt2 = Ok rG /\ covers (fst rF) (fst rG).
Proof.
  eexists. eexists. split; [vm_compute; reflexivity|]. split; [vm_compute; reflexivity|].
  intros e He. cbn in He. destruct He as [E|[E|[]]]; subst e.
  - eexists. split; [left; reflexivity|reflexivity].
  - eexists. split; [right; right; left; reflexivity|reflexivity].
Qed.

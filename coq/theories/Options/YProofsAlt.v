(** (round-3 extended universe: nan objects, Decimal, date / time / timedelta, Enum members, ignore_nan_inequality,
    use_enum_value, number_format_notation) C11, first clause: a value compared with a copy altered only in aspects
    the options ignore yields the empty diff.

    [alt F c a b]  "b is a altered only in what the code ignores": congruence
    closure of the three atom-level relations (leaf / key / set member), of
    "either side has an excluded type" and of the private entries of dicts.
    Dict entries and set members are matched up to order.

    New in this universe: the run can raise.  The guard [guard] therefore also keeps the inputs out of the raising
    corners, each as narrowly as the place where the atom stands requires:
      a leaf                      nothing (since 1c8f0f8, C11-TRUNC-DATE fixed: related leaves never raise, [leafR_altL])
      items of an all-basic list  [quiet] (YProofsSafe) unless the comparison is positional (zip): difflib may pair
      in the default mode         ANY two items of the two lists, related or not
      set members                 no nan with 0 digits, no timedelta when a precision is in force ([member_ok])
      dict keys                   [key_cleanable] (inside [keys_good])
    An Enum member under use_enum_value is allowed as a leaf (dict value, positional list item): [altL] relates it to
    its value ([enum_rel]) and the theorem covers it. *)
From Coq Require Import List ZArith NArith Bool Arith Lia.
Import ListNotations.
From DD Require Import Base.PyStr Options.OptModel Options.OptDtModel Options.YValue Options.YModel
  Options.YProofsBase Options.YProofsAtoms Options.YProofsKeys Options.YProofsLists Options.YProofsSafe.

Section Alt.
Variable F : opts.
Variable c : cfg.

(* set members: every member that is hashed (DeepHash does not skip it) and that exclude_types does not hide from the
   report has a hashed partner.  (For every atom but an Enum member under use_enum_value "hashed" follows from "not
   hidden", and bools are always hashed.) *)
Definition scover (xs ys : list atom) : Prop :=
  forall x, In x xs -> excl_hash F x = false -> excluded F (atom_ty x) = false ->
  exists y, In y ys /\ excl_hash F y = false /\ (altS F x y = true \/ altS F y x = true).

Inductive alt : value -> value -> Prop :=
| alt_atom : forall a b, altL F a b = true -> alt (VAtom a) (VAtom b)
| alt_excl : forall v w, excluded F (type_of v) || excluded F (type_of w) = true -> alt v w
| alt_list : forall xs ys, Forall2 alt xs ys -> alt (VList xs) (VList ys)
| alt_tuple : forall xs ys, Forall2 alt xs ys -> alt (VTuple xs) (VTuple ys)
| alt_dict : forall kvs1 kvs2,
    (forall k v, In (k, v) (kept c kvs1) ->
       exists k' v', In (k', v') (kept c kvs2) /\ altK F k k' = true /\ alt v v') ->
    (forall k', In k' (keys_of c kvs2) -> exists k, In k (keys_of c kvs1) /\ altK F k k' = true) ->
    alt (VDict kvs1) (VDict kvs2)
| alt_set : forall xs ys, scover xs ys -> scover ys xs -> alt (VSet xs) (VSet ys)
| alt_frozen : forall xs ys, scover xs ys -> scover ys xs -> alt (VFrozen xs) (VFrozen ys).

(* hashing the set member does not raise: number_to_string on a nan with 0 digits (C11-SIG0-NAN) / on a timedelta
   (C11-SIG-TIMEDELTA-SET) *)
Definition member_ok (a : atom) : bool :=
  match a with
  | ANan _ => negb (sig0 F)
  | ATd _ => negb (has_sig F)
  | _ => true
  end.
(* the items of a sequence that the default mode hands to difflib (all items basic) are quiet *)
Definition items_ok (xs : list value) : bool :=
  zip c || negb (forallb is_basic xs) || forallb (quiet_v F) xs.

(* the guard: every dict that is compared has good kept keys (pairwise different
   for Python and after cleaning, cleanable), and no comparison raises *)
Fixpoint guard (v : value) : bool :=
  match v with
  | VAtom _ => true
  | VSet xs | VFrozen xs => forallb member_ok xs
  | VList xs | VTuple xs => forallb guard xs && items_ok xs
  | VDict kvs =>
      keys_good F (keys_of c kvs)
      && forallb (fun kv => negb (keep_key c (fst kv)) || guard (snd kv)) kvs
  end.

Lemma guard_dict_val : forall kvs k v, guard (VDict kvs) = true -> In (k, v) (kept c kvs) -> guard v = true.
Proof.
  intros kvs k v H Hin. cbn [guard] in H. apply andb_true_iff in H. destruct H as [_ H].
  rewrite forallb_forall in H. apply kept_In in Hin. destruct Hin as [Hin Hk].
  specialize (H _ Hin). cbn [fst snd] in H. rewrite Hk in H. exact H.
Qed.

Lemma keys_good_parts : forall ks, keys_good F ks = true ->
  nodup_atoms ks = true /\ (forall k, In k ks -> key_ok F k = true) /\ nodup_atoms (map (ckey F) ks) = true.
Proof.
  intros ks H. unfold keys_good in H. apply andb_true_iff in H. destruct H as [H H3].
  apply andb_true_iff in H. destruct H as [H1 H2]. rewrite forallb_forall in H2. auto.
Qed.

(* a set member that is safe in the sense of YProofsSafe satisfies the member guard: the guard is weaker than [safe]
   wherever no dict key set is involved *)
Lemma member_quiet_ok : forall a, member_quiet F a = true -> member_ok a = true.
Proof.
  intros a H. unfold member_quiet in H. apply andb_true_iff in H. destruct H as [H1 H2].
  destruct a; try reflexivity; cbn [member_ok quiet] in *; [exact H1|].
  rewrite andb_true_r in H2. exact H2.
Qed.

Lemma hatom_err_ok : forall a, member_ok a = true -> hatom_err F (unwrap F a) = None.
Proof.
  intros a H. unfold hatom_err. destruct (eff_sig F) as [d|] eqn:Es; [|reflexivity].
  destruct a; cbn [unwrap]; try reflexivity.
  - cbn [nstr]. cbn [member_ok] in H. unfold sig0 in H. rewrite Es in H. destruct (N.eqb d 0); [discriminate|reflexivity].
  - cbn [member_ok] in H. unfold has_sig in H. rewrite Es in H. discriminate.
  - destruct (o_enum F); [destruct v|]; reflexivity.
Qed.

Lemma set_err_ok : forall xs ys, forallb member_ok xs = true -> forallb member_ok ys = true -> set_err F xs ys = None.
Proof.
  intros xs ys Hx Hy. unfold set_err.
  assert (forallb member_ok (xs ++ ys) = true) as H by (rewrite forallb_app, Hx, Hy; reflexivity).
  clear Hx Hy. induction (xs ++ ys)%list as [|a l IH]; [reflexivity|].
  cbn [fold_right forallb] in *. apply andb_true_iff in H. destruct H as [H1 H2]. rewrite (IH H2).
  destruct (excl_hash F a); [reflexivity|]. rewrite (hatom_err_ok a H1). reflexivity.
Qed.

Section Main.
Variable udiff : pystr -> pystr -> pystr.
Variable ops : path -> list value -> list value -> list opcode.

(* threshold_to_diff_deeper <= 1 *)
Hypothesis thr_ok : thr_num c <= thr_den c.
(* all-basic sequences: positional mode, or (default mode) valid difflib opcodes and no exclude_types *)
Hypothesis list_mode : zip c = true \/ (o_excl F = [] /\ forall p xs ys, tiles (ops p xs ys) 0 0 (length xs) (length ys) = true).

Lemma alt_leaf_eq : forall x y, is_basic x = true -> is_basic y = true -> alt x y -> leaf_eq udiff F x y.
Proof.
  intros x y Hx Hy H p1 p2. destruct x as [a| | | | |], y as [b| | | | |]; cbn in Hx, Hy; try discriminate.
  cbn [diff_leafF]. inversion H; subst.
  - apply diff_atomF_altL. assumption.
  - unfold diff_atomF. cbn [type_of] in *. rewrite leafR_excl by assumption. reflexivity.
Qed.

Lemma Forall2_leaf_eq : forall xs ys, forallb is_basic xs = true -> forallb is_basic ys = true ->
  Forall2 alt xs ys -> Forall2 (leaf_eq udiff F) xs ys.
Proof.
  induction xs as [|x xs IH]; intros ys Hx Hy H; inversion H; subst; constructor.
  - cbn [forallb] in Hx, Hy. apply andb_true_iff in Hx. apply andb_true_iff in Hy.
    apply alt_leaf_eq; tauto.
  - cbn [forallb] in Hx, Hy. apply andb_true_iff in Hx. apply andb_true_iff in Hy. apply IH; tauto.
Qed.

(* sets *)
Lemma first_per_hash_In : forall (h : atom -> pystr) l seen x, In x (first_per_hash h l seen) -> In x l.
Proof.
  induction l as [|a l IH]; intros seen x H; cbn [first_per_hash] in H; [destruct H|].
  destruct (existsb (pystr_eqb (h a)) seen).
  - right. eapply IH; eassumption.
  - destruct H as [H|H]; [left; exact H|right; eapply IH; eassumption].
Qed.

(* except for an Enum member under use_enum_value, a member that exclude_types does not hide is hashed *)
Lemma excl_hash_excluded : forall a, o_enum F && is_enum a = false -> excluded F (atom_ty a) = false -> excl_hash F a = false.
Proof.
  intros a He H. destruct a; cbn [excl_hash]; try reflexivity; try exact H.
  cbn [is_enum] in He. rewrite andb_true_r in He. rewrite He. exact H.
Qed.

Lemma set_side_nil : forall (k : rkind) xs ys p1 p2, scover ys xs ->
  flat_map (fun y => if existsb (pystr_eqb (hatomF F y)) (map (hatomF F) (filter (fun a => negb (excl_hash F a)) xs)) then []
                     else report_setF F k y p1 p2)
           (first_per_hash (hatomF F) (filter (fun a => negb (excl_hash F a)) ys) []) = [].
Proof.
  intros k xs ys p1 p2 Hc. apply flat_map_nil. intros y Hy.
  apply first_per_hash_In in Hy. apply filter_In in Hy. destruct Hy as [Hy Hyh]. apply negb_true_iff in Hyh.
  destruct (existsb _ _) eqn:E; [reflexivity|].
  unfold report_setF. destruct (excluded F (atom_ty y)) eqn:Ex; [reflexivity|].
  exfalso. destruct (Hc y Hy Hyh Ex) as [x [Hx [Hxe Hh]]].
  assert (hatomF F y = hatomF F x) as Hh' by (destruct Hh as [Hh|Hh]; [|symmetry]; apply hatomF_altS; exact Hh).
  assert (existsb (pystr_eqb (hatomF F y)) (map (hatomF F) (filter (fun a => negb (excl_hash F a)) xs)) = true) as K.
  { apply existsb_exists. exists (hatomF F x). split.
    - apply in_map. apply filter_In. split; [exact Hx|]. rewrite Hxe. reflexivity.
    - rewrite Hh'. apply pystr_eqb_refl. }
  congruence.
Qed.

Lemma diff_setF_cover : forall xs ys p1 p2, scover xs ys -> scover ys xs -> diff_setF F xs ys p1 p2 = [].
Proof.
  intros xs ys p1 p2 H1 H2. unfold diff_setF.
  rewrite (set_side_nil KSetAdd xs ys p1 p2 H2). rewrite (set_side_nil KSetRem ys xs p1 p2 H1). reflexivity.
Qed.

(* dicts: reports of added / removed keys *)
Lemma key_reports_all_mem : forall kind cks other km kvs p1 p2,
  (forall k, In k cks -> mem_atom k other = true) -> key_reports F kind cks other km kvs p1 p2 = [].
Proof.
  induction cks as [|k r IH]; intros other km kvs p1 p2 H; cbn [key_reports]; [reflexivity|].
  rewrite (H k (or_introl eq_refl)). apply IH. intros x Hx. apply H. right. exact Hx.
Qed.

(* sequences: the two branches of _diff_iterable *)
Lemma items_ok_quiet : forall xs, items_ok xs = true -> zip c = false -> forallb is_basic xs = true ->
  forallb (quiet_v F) xs = true.
Proof. intros xs H Hz Hb. unfold items_ok in H. rewrite Hz, Hb in H. exact H. Qed.

Theorem alt_empty_diff : forall t1 t2 p1 p2,
  alt t1 t2 -> guard t1 = true -> guard t2 = true ->
  diffF udiff ops c F t1 t2 p1 p2 = Ok ([], []).
Proof.
  induction t1 as [a|xs IH|xs IH|kvs IH|xs|xs] using value_ind'; intros t2 p1 p2 Halt Hg1 Hg2.
  - (* atom *)
    inversion Halt as [a' b Hl|v w Hex| | | | |]; subst.
    + cbn [diffF]. rewrite (leafR_altL udiff F a b p1 p2 Hl). reflexivity.
    + destruct t2 as [b| | | | |]; cbn [diffF]; try (rewrite Hex; reflexivity).
      cbn [type_of] in Hex. rewrite (leafR_excl udiff F a b p1 p2 Hex). reflexivity.
  - (* list *)
    cbn [diffF].
    destruct (excluded F (type_of (VList xs)) || excluded F (type_of t2)) eqn:Ex; [reflexivity|].
    inversion Halt as [| |xs' ys HF| | | |]; subst; [congruence|].
    cbn [type_of ty_eqb negb andb].
    cbn [guard] in Hg1, Hg2. apply andb_true_iff in Hg1. destruct Hg1 as [Hg1 Hi1].
    apply andb_true_iff in Hg2. destruct Hg2 as [Hg2 Hi2].
    destruct (negb (zip c) && forallb is_basic xs && forallb is_basic ys) eqn:Ed.
    + apply andb_true_iff in Ed. destruct Ed as [Ed Hy]. apply andb_true_iff in Ed. destruct Ed as [Hz Hx].
      destruct list_mode as [Hzip|[Hne Htile]]; [rewrite Hzip in Hz; discriminate|].
      apply negb_true_iff in Hz.
      rewrite (default_leaf_err_quiet F udiff ops xs ys p1 p2 (items_ok_quiet xs Hi1 Hz Hx) (items_ok_quiet ys Hi2 Hz Hy)).
      rewrite (default_leaf_listF_nil udiff ops F Hne Htile xs ys p1 p2 (Forall2_leaf_eq xs ys Hx Hy HF)). reflexivity.
    + clear Ed Halt Ex Hi1 Hi2. generalize 0 as i.
      revert ys HF Hg2. induction xs as [|x xs IHxs]; intros ys HF Hg2 i; inversion HF; subst; [reflexivity|].
      inversion IH as [|? ? Hx Hxs]; subst.
      cbn [forallb] in Hg1, Hg2. apply andb_true_iff in Hg1. destruct Hg1 as [Hg1a Hg1b].
      apply andb_true_iff in Hg2. destruct Hg2 as [Hg2a Hg2b].
      rewrite (Hx _ _ _ H1 Hg1a Hg2a). cbn [bind].
      rewrite (IHxs Hxs Hg1b _ H3 Hg2b (S i)). reflexivity.
  - (* tuple *)
    cbn [diffF].
    destruct (excluded F (type_of (VTuple xs)) || excluded F (type_of t2)) eqn:Ex; [reflexivity|].
    inversion Halt as [| | |xs' ys HF| | |]; subst; [congruence|].
    cbn [type_of ty_eqb negb andb].
    cbn [guard] in Hg1, Hg2. apply andb_true_iff in Hg1. destruct Hg1 as [Hg1 Hi1].
    apply andb_true_iff in Hg2. destruct Hg2 as [Hg2 Hi2].
    destruct (negb (zip c) && forallb is_basic xs && forallb is_basic ys) eqn:Ed.
    + apply andb_true_iff in Ed. destruct Ed as [Ed Hy]. apply andb_true_iff in Ed. destruct Ed as [Hz Hx].
      destruct list_mode as [Hzip|[Hne Htile]]; [rewrite Hzip in Hz; discriminate|].
      apply negb_true_iff in Hz.
      rewrite (default_leaf_err_quiet F udiff ops xs ys p1 p2 (items_ok_quiet xs Hi1 Hz Hx) (items_ok_quiet ys Hi2 Hz Hy)).
      rewrite (default_leaf_listF_nil udiff ops F Hne Htile xs ys p1 p2 (Forall2_leaf_eq xs ys Hx Hy HF)). reflexivity.
    + clear Ed Halt Ex Hi1 Hi2. generalize 0 as i.
      revert ys HF Hg2. induction xs as [|x xs IHxs]; intros ys HF Hg2 i; inversion HF; subst; [reflexivity|].
      inversion IH as [|? ? Hx Hxs]; subst.
      cbn [forallb] in Hg1, Hg2. apply andb_true_iff in Hg1. destruct Hg1 as [Hg1a Hg1b].
      apply andb_true_iff in Hg2. destruct Hg2 as [Hg2a Hg2b].
      rewrite (Hx _ _ _ H1 Hg1a Hg2a). cbn [bind].
      rewrite (IHxs Hxs Hg1b _ H3 Hg2b (S i)). reflexivity.
  - (* dict *)
    cbn [diffF].
    destruct (excluded F (type_of (VDict kvs)) || excluded F (type_of t2)) eqn:Ex; [reflexivity|].
    inversion Halt as [| | | |kvs1 kvs2 C1 C2| |]; subst; [congruence|].
    cbn [type_of ty_eqb negb andb].
    pose proof Hg1 as Hg1'. pose proof Hg2 as Hg2'.
    cbn [guard] in Hg1', Hg2'. apply andb_true_iff in Hg1'. destruct Hg1' as [Hk1 _].
    apply andb_true_iff in Hg2'. destruct Hg2' as [Hk2 _].
    destruct (kmap_spec F _ Hk1) as [km1 [E1 [Ec1 [Eo1 Er1]]]].
    destruct (kmap_spec F _ Hk2) as [km2 [E2 [Ec2 [Eo2 Er2]]]].
    destruct (keys_good_parts _ Hk1) as [Hn1 [Hok1 Hnc1]].
    destruct (keys_good_parts _ Hk2) as [Hn2 [Hok2 Hnc2]].
    rewrite E1, E2. cbn [bind]. rewrite Ec1, Ec2.
    set (ks1 := keys_of c kvs) in *. set (ks2 := keys_of c kvs2) in *.
    (* the clean key sets cover each other *)
    assert (forall ck, In ck (map (ckey F) ks2) -> mem_atom ck (map (ckey F) ks1) = true) as M2.
    { intros ck Hck. apply in_map_iff in Hck. destruct Hck as [k' [E Hk']]. subst ck.
      destruct (C2 k' Hk') as [k [Hk Hr]].
      apply mem_atom_In. exists (ckey F k). split; [apply in_map; exact Hk|].
      rewrite py_eq_sym. apply ckey_altK; auto. }
    assert (forall ck, In ck (map (ckey F) ks1) -> mem_atom ck (map (ckey F) ks2) = true) as M1.
    { intros ck Hck. apply in_map_iff in Hck. destruct Hck as [k [E Hk]]. subst ck.
      destruct (keys_of_kept_ex c kvs k Hk) as [v Hkv].
      destruct (C1 k v Hkv) as [k' [v' [Hin' [Hr _]]]].
      pose proof (kept_key_In c kvs2 k' v' Hin') as Hk'.
      apply mem_atom_In. exists (ckey F k'). split; [apply in_map; exact Hk'|].
      apply ckey_altK; auto. }
    rewrite (shortcutF_cover c _ _ thr_ok M2 M1).
    rewrite (key_reports_all_mem KDictAdd _ _ km2 kvs2 p1 p2 M2).
    rewrite (key_reports_all_mem KDictRem _ _ km1 kvs p1 p2 M1).
    (* the common keys *)
    match goal with |- bind ?G _ = _ => assert (G = Ok ([], [])) as Hgo end.
    { assert (forall k v, In (k, v) kvs -> keep_key c k = true -> In (k, v) (kept c kvs)) as Hsub
        by (intros k v H1 H2; apply kept_In; split; assumption).
      clear E1 Hk1 Halt Ex. revert Hsub IH. generalize kvs at 1 3 4 as l.
      induction l as [|[k v1] r IHr]; intros Hsub IH; [reflexivity|].
      inversion IH as [|? ? Hx Hxs]; subst. cbn [snd] in Hx.
      rewrite (IHr (fun k' v' H => Hsub k' v' (or_intror H)) Hxs).
      destruct (keep_key c k) eqn:Hkeep; [|reflexivity].
      pose proof (Hsub k v1 (or_introl eq_refl) Hkeep) as Hkv.
      pose proof (kept_key_In c kvs k v1 Hkv) as Hk.
      rewrite (Er1 k Hk).
      destruct (C1 k v1 Hkv) as [k' [v' [Hin' [Hr Hav]]]].
      pose proof (kept_key_In c kvs2 k' v' Hin') as Hk'.
      assert (py_eq (ckey F k) (ckey F k') = true) as Hpe by (apply ckey_altK; auto).
      destruct (find (py_eq (ckey F k)) (map (ckey F) ks2)) as [ck'|] eqn:Ef.
      2:{ exfalso. eapply find_none in Ef; [|apply in_map; exact Hk']. congruence. }
      apply find_some in Ef. destruct Ef as [Hin Hpe2].
      assert (ck' = ckey F k') as Eck.
      { apply (nodup_atoms_uniq _ _ _ Hnc2 Hin (in_map _ _ _ Hk')).
        rewrite py_eq_sym in Hpe2. eapply py_eq_trans; eassumption. }
      subst ck'.
      rewrite (Eo2 k' Hk').
      rewrite (assoc_kept c kvs2 k' v' Hn2 Hin').
      rewrite (Hx v' _ _ Hav (guard_dict_val _ _ _ Hg1 Hkv) (guard_dict_val _ _ _ Hg2 Hin')).
      reflexivity. }
    rewrite Hgo. reflexivity.
  - (* set *)
    cbn [diffF].
    destruct (excluded F (type_of (VSet xs)) || excluded F (type_of t2)) eqn:Ex; [reflexivity|].
    inversion Halt; subst; [congruence|].
    cbn [type_of ty_eqb negb andb]. cbn [guard] in Hg1, Hg2.
    rewrite (set_err_ok xs ys Hg1 Hg2). rewrite diff_setF_cover by assumption. reflexivity.
  - (* frozenset *)
    cbn [diffF].
    destruct (excluded F (type_of (VFrozen xs)) || excluded F (type_of t2)) eqn:Ex; [reflexivity|].
    inversion Halt; subst; [congruence|].
    cbn [type_of ty_eqb negb andb]. cbn [guard] in Hg1, Hg2.
    rewrite (set_err_ok xs ys Hg1 Hg2). rewrite diff_setF_cover by assumption. reflexivity.
Qed.

(* the whole run *)
Theorem alt_empty_run : forall t1 t2,
  alt t1 t2 -> guard t1 = true -> guard t2 = true -> run_optF udiff ops c F t1 t2 = Ok ([], []).
Proof.
  intros t1 t2 H G1 G2. unfold run_optF. rewrite (alt_empty_diff t1 t2 [] [] H G1 G2). reflexivity.
Qed.

End Main.
End Alt.

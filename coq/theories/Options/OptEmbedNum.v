(** Numbers: the old model keeps the float t/2 as the dyadic (t, 1), the extended
    one in lowest terms ((t/2, 0) when t is even).  rhe, is_close do not see
    the difference. *)
From Coq Require Import List ZArith NArith Bool Arith Lia.
From DD Require Import Base.PyStr Options.OptModel.
Local Open Scope Z_scope.

Definition dbl (x : dy) : dy := (2 * fst x, (snd x + 1)%N).

Lemma two_p_pos : forall e, 0 < two_p e.
Proof. intros e. unfold two_p. apply Z.pow_pos_nonneg; [reflexivity|apply N2Z.is_nonneg]. Qed.
Lemma two_p_add : forall a b, two_p (a + b) = two_p a * two_p b.
Proof. intros a b. unfold two_p. rewrite N2Z.inj_add. apply Z.pow_add_r; apply N2Z.is_nonneg. Qed.
Lemma two_p_succ : forall e, two_p (e + 1) = 2 * two_p e.
Proof. intros e. rewrite two_p_add. change (two_p 1) with 2. lia. Qed.
Lemma two_p_sub : forall e a, (a <= e)%N -> two_p (e - a) * two_p a = two_p e.
Proof. intros e a H. rewrite <- two_p_add. f_equal. lia. Qed.

Lemma rhe_dbl : forall x d, rhe (dbl x) d = rhe x d.
Proof.
  intros [m e] d. unfold rhe, dbl. cbn [fst snd].
  rewrite two_p_succ. pose proof (two_p_pos e) as Hp.
  replace (2 * m * pow10 d) with (2 * (m * pow10 d)) by ring.
  set (n := m * pow10 d). set (D := two_p e) in *.
  rewrite Z.div_mul_cancel_l by lia. rewrite Z.mul_mod_distr_l by lia.
  set (r := n mod D).
  assert ((2 * (2 * r) <? 2 * D) = (2 * r <? D)) as E1 by (destruct (Z.ltb_spec (2 * (2 * r)) (2 * D)), (Z.ltb_spec (2 * r) D); try reflexivity; lia).
  assert ((2 * D <? 2 * (2 * r)) = (D <? 2 * r)) as E2 by (destruct (Z.ltb_spec (2 * D) (2 * (2 * r))), (Z.ltb_spec D (2 * r)); try reflexivity; lia).
  rewrite E1, E2. reflexivity.
Qed.

(* comparisons by cross-multiplication *)
Lemma align_facts : forall x y, let '(a, b, e) := dy_align x y in
  a * two_p (snd x) = fst x * two_p e /\ b * two_p (snd y) = fst y * two_p e.
Proof.
  intros [mx ex] [my ey]. unfold dy_align. cbn [fst snd].
  split; rewrite <- Z.mul_assoc; f_equal; apply two_p_sub; lia.
Qed.

Lemma dy_leb_char : forall x y, dy_leb x y = Z.leb (fst x * two_p (snd y)) (fst y * two_p (snd x)).
Proof.
  intros x y. unfold dy_leb. pose proof (align_facts x y) as H.
  destruct (dy_align x y) as [[a b] e]. destruct H as [Ha Hb].
  pose proof (two_p_pos (snd x)) as Px. pose proof (two_p_pos (snd y)) as Py. pose proof (two_p_pos e) as Pe.
  set (A := two_p (snd x)) in *. set (B := two_p (snd y)) in *. set (P := two_p e) in *.
  destruct (Z.leb_spec a b) as [L|L], (Z.leb_spec (fst x * B) (fst y * A)) as [R|R]; try reflexivity; exfalso.
  - assert (a * A * B <= b * B * A) as H1.
    { replace (b * B * A) with (b * A * B) by ring. apply Z.mul_le_mono_nonneg_r; [lia|]. apply Z.mul_le_mono_nonneg_r; lia. }
    rewrite Ha, Hb in H1. assert (P * (fst x * B) <= P * (fst y * A)) as H2 by lia.
    apply Z.mul_le_mono_pos_l in H2; lia.
  - assert (b * B * A < a * A * B) as H1.
    { replace (b * B * A) with (b * A * B) by ring. apply Z.mul_lt_mono_pos_r; [lia|]. apply Z.mul_lt_mono_pos_r; lia. }
    rewrite Ha, Hb in H1. assert (P * (fst y * A) < P * (fst x * B)) as H2 by lia.
    apply Z.mul_lt_mono_pos_l in H2; lia.
Qed.

Lemma dy_eqb_char : forall x y, dy_eqb x y = Z.eqb (fst x * two_p (snd y)) (fst y * two_p (snd x)).
Proof.
  intros x y. unfold dy_eqb. pose proof (align_facts x y) as H.
  destruct (dy_align x y) as [[a b] e]. destruct H as [Ha Hb].
  pose proof (two_p_pos (snd x)) as Px. pose proof (two_p_pos (snd y)) as Py. pose proof (two_p_pos e) as Pe.
  set (A := two_p (snd x)) in *. set (B := two_p (snd y)) in *. set (P := two_p e) in *.
  destruct (Z.eqb_spec a b) as [L|L], (Z.eqb_spec (fst x * B) (fst y * A)) as [R|R]; try reflexivity; exfalso.
  - subst a. assert (P * (fst x * B) = P * (fst y * A)) as H1.
    { replace (P * (fst x * B)) with (fst x * P * B) by ring. replace (P * (fst y * A)) with (fst y * P * A) by ring.
      rewrite <- Ha, <- Hb. ring. }
    apply Z.mul_reg_l in H1; lia.
  - apply L. assert (a * A * B = b * B * A) as H1.
    { rewrite Ha, Hb. replace (fst x * P * B) with (P * (fst x * B)) by ring. rewrite R. ring. }
    assert ((A * B) * a = (A * B) * b) as H2 by lia.
    apply Z.mul_reg_l in H2; [exact H2|]. assert (0 < A * B) by (apply Z.mul_pos_pos; lia). lia.
Qed.

Lemma dy_leb_dbl_l : forall x y, dy_leb (dbl x) y = dy_leb x y.
Proof.
  intros x y. rewrite !dy_leb_char. unfold dbl. cbn [fst snd]. rewrite two_p_succ.
  destruct (Z.leb_spec (2 * fst x * two_p (snd y)) (fst y * (2 * two_p (snd x)))), (Z.leb_spec (fst x * two_p (snd y)) (fst y * two_p (snd x))); try reflexivity; lia.
Qed.
Lemma dy_leb_dbl_r : forall x y, dy_leb x (dbl y) = dy_leb x y.
Proof.
  intros x y. rewrite !dy_leb_char. unfold dbl. cbn [fst snd]. rewrite two_p_succ.
  destruct (Z.leb_spec (fst x * (2 * two_p (snd y))) (2 * fst y * two_p (snd x))), (Z.leb_spec (fst x * two_p (snd y)) (fst y * two_p (snd x))); try reflexivity; lia.
Qed.
Lemma dy_eqb_dbl_l : forall x y, dy_eqb (dbl x) y = dy_eqb x y.
Proof.
  intros x y. rewrite !dy_eqb_char. unfold dbl. cbn [fst snd]. rewrite two_p_succ.
  destruct (Z.eqb_spec (2 * fst x * two_p (snd y)) (fst y * (2 * two_p (snd x)))), (Z.eqb_spec (fst x * two_p (snd y)) (fst y * two_p (snd x))); try reflexivity; lia.
Qed.
Lemma dy_eqb_dbl_r : forall x y, dy_eqb x (dbl y) = dy_eqb x y.
Proof.
  intros x y. rewrite !dy_eqb_char. unfold dbl. cbn [fst snd]. rewrite two_p_succ.
  destruct (Z.eqb_spec (fst x * (2 * two_p (snd y))) (2 * fst y * two_p (snd x))), (Z.eqb_spec (fst x * two_p (snd y)) (fst y * two_p (snd x))); try reflexivity; lia.
Qed.

Lemma dy_mul_dbl_r : forall r y, dy_mul r (dbl y) = dbl (dy_mul r y).
Proof. intros [mr er] [my ey]. unfold dy_mul, dbl. cbn [fst snd]. f_equal; [ring|lia]. Qed.
Lemma dy_abs_dbl : forall z, dy_abs (dbl z) = dbl (dy_abs z).
Proof. intros [m e]. unfold dy_abs, dbl. cbn [fst snd]. f_equal. rewrite Z.abs_mul. reflexivity. Qed.

(* |x - y| on a doubled representation is the same, or the doubled, representation *)
Lemma dy_absdiff_dbl_l : forall x y, dy_absdiff (dbl x) y = dy_absdiff x y \/ dy_absdiff (dbl x) y = dbl (dy_absdiff x y).
Proof.
  intros [mx ex] [my ey]. unfold dy_absdiff, dy_align, dbl. cbn [fst snd].
  destruct (N.leb_spec (ex + 1) ey) as [L|L].
  - left. rewrite (N.max_r (ex + 1) ey), (N.max_r ex ey) by lia.
    replace (ey - ex)%N with ((ey - (ex + 1)) + 1)%N by lia. rewrite two_p_succ. f_equal. f_equal. ring.
  - right. rewrite (N.max_l (ex + 1) ey), (N.max_l ex ey) by lia.
    replace (ex + 1 - (ex + 1))%N with 0%N by lia. replace (ex - ex)%N with 0%N by lia.
    replace (ex + 1 - ey)%N with ((ex - ey) + 1)%N by lia. rewrite two_p_succ.
    unfold two_p at 1 3. cbn [Z.of_N Z.pow]. f_equal.
    replace (2 * mx * 1 - my * (2 * two_p (ex - ey))) with (2 * (mx * 1 - my * two_p (ex - ey))) by ring.
    rewrite Z.abs_mul. reflexivity.
Qed.
Lemma dy_absdiff_sym : forall x y, dy_absdiff x y = dy_absdiff y x.
Proof.
  intros [mx ex] [my ey]. unfold dy_absdiff, dy_align. cbn [fst snd]. rewrite (N.max_comm ey ex). f_equal.
  rewrite <- Z.abs_opp. f_equal. ring.
Qed.
Lemma dy_absdiff_dbl_r : forall x y, dy_absdiff x (dbl y) = dy_absdiff x y \/ dy_absdiff x (dbl y) = dbl (dy_absdiff x y).
Proof. intros x y. rewrite (dy_absdiff_sym x (dbl y)), (dy_absdiff_sym x y). apply dy_absdiff_dbl_l. Qed.

Lemma is_close_dbl_l : forall x y eps, is_close (dbl x) y eps = is_close x y eps.
Proof.
  intros x y eps. unfold is_close. rewrite dy_eqb_dbl_l, dy_mul_dbl_r, dy_abs_dbl.
  destruct (dy_absdiff_dbl_l x y) as [E|E]; rewrite E; rewrite ?dy_leb_dbl_l, ?dy_leb_dbl_r; reflexivity.
Qed.
Lemma is_close_dbl_r : forall x y eps, is_close x (dbl y) eps = is_close x y eps.
Proof.
  intros x y eps. unfold is_close. rewrite dy_eqb_dbl_r, dy_mul_dbl_r, dy_abs_dbl.
  destruct (dy_absdiff_dbl_r x y) as [E|E]; rewrite E; rewrite ?dy_leb_dbl_l, ?dy_leb_dbl_r; reflexivity.
Qed.

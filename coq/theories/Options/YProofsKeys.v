(** (round-3 extended universe) Dictionaries: what key cleaning computes on a well-formed key set, and the
    guards under which a dict is compared entry by entry. *)
From Coq Require Import List ZArith NArith Bool Arith Lia.
Import ListNotations.
From DD Require Import Base.PyStr Options.OptModel Options.OptDtModel Options.YValue Options.YModel
  Options.YProofsBase Options.YProofsAtoms.

Section Keys.
Variable c : cfg.
Variable F : opts.

(* the clean key of k (k itself when no cleaning option is set or cleaning raises) *)
Definition ckey (k : atom) : atom :=
  if cleaning F then match clean_key F k with Ok ck => ck | Err _ => k end else k.

(* a key the dict comparison can handle: cleanable (no datetime / date / time / timedelta key, no nan key with 0 digits,
   when key cleaning meets a precision: C11-DATETIME-KEY, C11-SIG0-NAN) *)
Definition key_ok (k : atom) : bool := negb (cleaning F) || key_cleanable F k.

(* the kept keys of a dict: pairwise different for Python, all ok, pairwise different after cleaning *)
Definition keys_good (ks : list atom) : bool :=
  nodup_atoms ks && forallb key_ok ks && nodup_atoms (map ckey ks).

Definition kept (kvs : list (atom * value)) : list (atom * value) :=
  filter (fun kv => keep_key c (fst kv)) kvs.

Lemma keys_of_kept : forall kvs, keys_of c kvs = map fst (kept kvs).
Proof.
  induction kvs as [|[k v] r IH]; [reflexivity|].
  unfold keys_of, kept in *. cbn [map filter fst]. destruct (keep_key c k); cbn [map fst]; rewrite IH; reflexivity.
Qed.

Lemma kept_In : forall kvs k v, In (k, v) (kept kvs) <-> In (k, v) kvs /\ keep_key c k = true.
Proof. intros. unfold kept. rewrite filter_In. reflexivity. Qed.

Lemma kept_key_In : forall kvs k v, In (k, v) (kept kvs) -> In k (keys_of c kvs).
Proof. intros kvs k v H. rewrite keys_of_kept. change k with (fst (k, v)). apply in_map. exact H. Qed.

Lemma keys_of_kept_ex : forall kvs k, In k (keys_of c kvs) -> exists v, In (k, v) (kept kvs).
Proof.
  intros kvs k H. rewrite keys_of_kept in H. apply in_map_iff in H. destruct H as [[k' v] [E H]].
  cbn in E. subst. exists v. exact H.
Qed.

(* ignore_private_variables cannot tell Python-equal keys apart *)
Lemma keep_key_eqv : forall k k', py_eq k k' = true -> keep_key c k = keep_key c k'.
Proof.
  intros k k' H. unfold keep_key, private_key.
  destruct k, k'; try reflexivity; unfold py_eq in H; cbn [qv num_of] in H; try discriminate;
    try (destruct (0 <=? e)%Z; discriminate).
  apply pystr_eqb_eq in H. subst. reflexivity.
Qed.

(* t[key] for a kept key of a dict whose kept keys are pairwise different *)
Lemma assoc_kept : forall kvs k v,
  nodup_atoms (keys_of c kvs) = true -> In (k, v) (kept kvs) -> assoc k kvs = Some v.
Proof.
  induction kvs as [|[k0 v0] r IH]; intros k v Hn Hin; [destruct Hin|].
  apply kept_In in Hin. destruct Hin as [Hin Hk].
  cbn [assoc]. destruct (py_eq k0 k) eqn:E.
  - destruct Hin as [Hin|Hin]; [inversion Hin; reflexivity|].
    exfalso.
    assert (keep_key c k0 = true) as Hk0 by (rewrite (keep_key_eqv k0 k E); exact Hk).
    unfold keys_of in Hn. cbn [map filter fst] in Hn. rewrite Hk0 in Hn. cbn [nodup_atoms] in Hn.
    apply andb_true_iff in Hn. destruct Hn as [Hn _]. apply negb_true_iff in Hn.
    assert (mem_atom k0 (filter (keep_key c) (map fst r)) = true) as K.
    { apply mem_atom_In. exists k. split; [|exact E].
      apply filter_In. split; [|exact Hk]. change k with (fst (k, v)). apply in_map. exact Hin. }
    congruence.
  - destruct Hin as [Hin|Hin]; [inversion Hin; subst; rewrite py_eq_refl in E; discriminate|].
    apply IH.
    + unfold keys_of in *. cbn [map filter fst] in Hn. destruct (keep_key c k0); [|exact Hn].
      cbn [nodup_atoms] in Hn. apply andb_true_iff in Hn. destruct Hn as [_ Hn]. exact Hn.
    + apply kept_In. split; assumption.
Qed.

(* ---- clean_map on a key list whose clean keys are pairwise different ---- *)
Lemma ckey_clean : forall k, cleaning F = true -> key_ok k = true -> clean_key F k = Ok (ckey k).
Proof.
  intros k Hc H. unfold key_ok in H. rewrite Hc in H. cbn [negb orb] in H.
  apply clean_key_ok in H. destruct H as [ck H]. unfold ckey. rewrite Hc, H. reflexivity.
Qed.

Lemma clean_map_spec : forall ks acc,
  cleaning F = true ->
  forallb key_ok ks = true -> nodup_atoms (map ckey ks) = true ->
  (forall k, In k ks -> mem_atom (ckey k) (map fst acc) = false) ->
  clean_map F ks acc = Ok (rev acc ++ map (fun k => (ckey k, k)) ks)%list.
Proof.
  induction ks as [|k r IH]; intros acc Hc Hok Hn Hacc; cbn [clean_map map].
  - rewrite app_nil_r. reflexivity.
  - cbn [forallb] in Hok. apply andb_true_iff in Hok. destruct Hok as [Hk Hok].
    cbn [map nodup_atoms] in Hn. apply andb_true_iff in Hn. destruct Hn as [Hnk Hn]. apply negb_true_iff in Hnk.
    rewrite (ckey_clean k Hc Hk). cbn [bind].
    rewrite (Hacc k (or_introl eq_refl)).
    rewrite IH; try assumption.
    + cbn [rev]. rewrite <- app_assoc. reflexivity.
    + intros k' Hk'. cbn [map fst mem_atom existsb]. unfold mem_atom in *. cbn [existsb].
      rewrite (Hacc k' (or_intror Hk')). rewrite orb_false_r.
      destruct (py_eq (ckey k') (ckey k)) eqn:E; [|reflexivity].
      exfalso. assert (mem_atom (ckey k) (map ckey r) = true) as K.
      { apply mem_atom_In. exists (ckey k'). split; [apply in_map; exact Hk'|]. rewrite py_eq_sym. exact E. }
      unfold mem_atom in K. congruence.
Qed.

Lemma ckey_noclean : forall k, cleaning F = false -> ckey k = k.
Proof. intros k H. unfold ckey. rewrite H. reflexivity. Qed.

(* the specification of the three accessors on a good key list *)
Lemma kmap_spec : forall ks, keys_good ks = true ->
  exists km, kmap F ks = Ok km /\ ckeys F ks km = map ckey ks /\
             (forall k, In k ks -> orig_key F km (ckey k) = k) /\
             (forall k, In k ks -> repr_ckey F km k = Some (ckey k)).
Proof.
  intros ks H. unfold keys_good in H.
  apply andb_true_iff in H. destruct H as [H Hnc]. apply andb_true_iff in H. destruct H as [Hn Hok].
  destruct (cleaning F) eqn:Hc.
  - exists (map (fun k => (ckey k, k)) ks).
    assert (clean_map F ks [] = Ok (map (fun k => (ckey k, k)) ks)) as Hm.
    { rewrite (clean_map_spec ks [] Hc Hok Hnc); [reflexivity|]. intros; reflexivity. }
    assert (forall k, In k ks -> assoc (ckey k) (map (fun k => (ckey k, k)) ks) = Some k) as Ha.
    { intros k Hk. apply assoc_nodup.
      - rewrite map_map. cbn [fst]. exact Hnc.
      - apply in_map_iff. exists k. split; [reflexivity|exact Hk]. }
    unfold kmap, ckeys, orig_key, repr_ckey. rewrite Hc.
    split; [exact Hm|]. split.
    + rewrite map_map. cbn [fst]. reflexivity.
    + split.
      * intros k Hk. rewrite (Ha k Hk). reflexivity.
      * intros k Hk. rewrite forallb_forall in Hok.
        rewrite (ckey_clean k Hc (Hok k Hk)). unfold orig_key. rewrite Hc, (Ha k Hk), atom_eqb_refl. reflexivity.
  - exists []. unfold kmap, ckeys, orig_key, repr_ckey. rewrite Hc.
    split; [reflexivity|]. split.
    + rewrite (map_ext ckey (fun k => k)); [symmetry; apply map_id|]. intros k. apply ckey_noclean. exact Hc.
    + split; intros k _; rewrite (ckey_noclean k Hc); reflexivity.
Qed.

(* related keys have Python-equal clean keys *)
Lemma ckey_altK : forall a b, altK F a b = true -> key_ok a = true -> key_ok b = true -> py_eq (ckey a) (ckey b) = true.
Proof.
  intros a b H Ha Hb. unfold ckey. destruct (cleaning F) eqn:Hc.
  - pose proof (ckey_clean a Hc Ha) as Ea. pose proof (ckey_clean b Hc Hb) as Eb.
    rewrite Ea, Eb. eapply clean_key_altK; eassumption.
  - unfold altK in H. rewrite Hc in H. exact H.
Qed.

(* ---- threshold_to_diff_deeper does not fire on two key sets that cover each other ---- *)
Lemma shortcutF_cover : forall k1 k2,
  thr_num c <= thr_den c ->
  (forall k, In k k2 -> mem_atom k k1 = true) -> (forall k, In k k1 -> mem_atom k k2 = true) ->
  shortcutF c k1 k2 = false.
Proof.
  intros k1 k2 Ht H2 H1. unfold shortcutF.
  destruct (Nat.eqb (thr_num c) 0); [reflexivity|].
  rewrite (filter_all (fun k => mem_atom k k1) k2 H2).
  assert (filter (fun k => negb (mem_atom k k2)) k1 = []) as E.
  { clear H2. induction k1 as [|k r IH]; [reflexivity|]. cbn [filter].
    rewrite (H1 k (or_introl eq_refl)). cbn [negb]. apply IH.
    intros x Hx. apply H1. right. exact Hx. }
  rewrite E, app_nil_r.
  apply andb_false_iff. right. apply Nat.ltb_ge. apply Nat.mul_le_mono_r with (p := List.length k2) in Ht.
  rewrite (Nat.mul_comm (List.length k2) (thr_den c)). exact Ht.
Qed.

End Keys.

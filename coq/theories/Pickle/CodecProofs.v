(** Pickle/CodecProofs.v - C14: the canonical pickle encoding of every well-formed
    payload is decoded by the restricted unpickler model to that payload. *)
From Coq Require Import List ZArith NArith Bool Arith Lia.
Import ListNotations.
From DD Require Import Base.Sx Base.PyStr Base.Value Pickle.Vm Pickle.Codec Pickle.PickleProofs.

(** * identities *)

Fixpoint ids_below (n : nat) (o : obj) {struct o} : bool :=
  match o with
  | OTuple xs | OFrozen xs => forallb (ids_below n) xs
  | OList i xs | OSet i xs => Nat.ltb i n && forallb (ids_below n) xs
  | ODict i kvs => Nat.ltb i n && forallb (fun kv => ids_below n (fst kv) && ids_below n (snd kv)) kvs
  | OInst i _ f a sts => Nat.ltb i n && ids_below n f && ids_below n a && forallb (ids_below n) sts
  | _ => true
  end.

Lemma map_id_forall : forall (A : Type) (f : A -> bool) (g : A -> A) xs,
  Forall (fun x => f x = true -> g x = x) xs -> forallb f xs = true -> map g xs = xs.
Proof.
  intros A f g xs H. induction H as [|x r Hx Hr IH]; cbn; [reflexivity|].
  intro E. apply andb_true_iff in E. destruct E as [E1 E2]. rewrite (Hx E1), (IH E2). reflexivity.
Qed.

Lemma ltb_neq : forall i j, Nat.ltb j i = true -> Nat.eqb i j = false.
Proof. intros i j H. apply Nat.ltb_lt in H. apply Nat.eqb_neq. lia. Qed.

Lemma subst_fresh : forall i c o, ids_below i o = true -> subst i c o = o.
Proof.
  intros i c. induction o using obj_ind'; cbn [ids_below subst]; intro Hb; try reflexivity.
  - f_equal. apply (map_id_forall _ (ids_below i)); assumption.
  - f_equal. apply (map_id_forall _ (ids_below i)); assumption.
  - apply andb_true_iff in Hb. destruct Hb as [Hl Hx]. rewrite (ltb_neq _ _ Hl).
    f_equal. apply (map_id_forall _ (ids_below i)); assumption.
  - apply andb_true_iff in Hb. destruct Hb as [Hl Hx]. rewrite (ltb_neq _ _ Hl). f_equal.
    revert Hx. induction H as [|kv r [Hk Hv] Hr IH]; cbn; [reflexivity|].
    intro E. apply andb_true_iff in E. destruct E as [E1 E2]. apply andb_true_iff in E1. destruct E1 as [Ek Ev].
    rewrite (Hk Ek), (Hv Ev), (IH E2). destruct kv; reflexivity.
  - apply andb_true_iff in Hb. destruct Hb as [Hl Hx]. rewrite (ltb_neq _ _ Hl).
    f_equal. apply (map_id_forall _ (ids_below i)); assumption.
  - apply andb_true_iff in Hb. destruct Hb as [Hb Hs]. apply andb_true_iff in Hb. destruct Hb as [Hb Ha].
    apply andb_true_iff in Hb. destruct Hb as [Hl Hf]. rewrite (ltb_neq _ _ Hl).
    rewrite (IHo1 Hf), (IHo2 Ha). f_equal. apply (map_id_forall _ (ids_below i)); assumption.
Qed.

Lemma forallb_imp : forall (A : Type) (f g : A -> bool) xs,
  Forall (fun x => f x = true -> g x = true) xs -> forallb f xs = true -> forallb g xs = true.
Proof.
  intros A f g xs H. induction H as [|x r Hx Hr IH]; cbn; [auto|].
  intro E. apply andb_true_iff in E. destruct E as [E1 E2]. rewrite (Hx E1), (IH E2). reflexivity.
Qed.

Lemma ltb_mono : forall i n m, n <= m -> Nat.ltb i n = true -> Nat.ltb i m = true.
Proof. intros i n m H E. apply Nat.ltb_lt in E. apply Nat.ltb_lt. lia. Qed.

Lemma ids_below_mono : forall n m, n <= m -> forall o, ids_below n o = true -> ids_below m o = true.
Proof.
  intros n m Hnm. induction o using obj_ind'; cbn [ids_below]; intro Hb; try reflexivity.
  - apply (forallb_imp _ (ids_below n)); assumption.
  - apply (forallb_imp _ (ids_below n)); assumption.
  - apply andb_true_iff in Hb. destruct Hb as [Hl Hx]. rewrite (ltb_mono _ _ _ Hnm Hl). cbn.
    apply (forallb_imp _ (ids_below n)); assumption.
  - apply andb_true_iff in Hb. destruct Hb as [Hl Hx]. rewrite (ltb_mono _ _ _ Hnm Hl). cbn.
    revert Hx. induction H as [|kv r [Hk Hv] Hr IH]; cbn; [auto|].
    intro E. apply andb_true_iff in E. destruct E as [E1 E2]. apply andb_true_iff in E1. destruct E1 as [Ek Ev].
    rewrite (Hk Ek), (Hv Ev), (IH E2). reflexivity.
  - apply andb_true_iff in Hb. destruct Hb as [Hl Hx]. rewrite (ltb_mono _ _ _ Hnm Hl). cbn.
    apply (forallb_imp _ (ids_below n)); assumption.
  - apply andb_true_iff in Hb. destruct Hb as [Hb Hs]. apply andb_true_iff in Hb. destruct Hb as [Hb Ha].
    apply andb_true_iff in Hb. destruct Hb as [Hl Hf].
    rewrite (ltb_mono _ _ _ Hnm Hl), (IHo1 Hf), (IHo2 Ha). cbn.
    apply (forallb_imp _ (ids_below n)); assumption.
Qed.

Lemma ids_below_all_mono : forall n m xs, n <= m ->
  forallb (ids_below n) xs = true -> forallb (ids_below m) xs = true.
Proof.
  intros n m xs H. apply forallb_imp. apply Forall_forall. intros x _. apply ids_below_mono. exact H.
Qed.

(** * decode on containers, in terms of list functions *)

Lemma decode_list_eq : forall i os, decode (OList i os) = option_map PList (all_some (map decode os)).
Proof.
  intros i os. cbn [decode]. f_equal. induction os as [|o r IH]; cbn; [reflexivity|].
  rewrite IH. destruct (decode o); [|reflexivity]. destruct (all_some (map decode r)); reflexivity.
Qed.
Lemma decode_tuple_eq : forall os, decode (OTuple os) = option_map PTuple (all_some (map decode os)).
Proof.
  intros os. cbn [decode]. f_equal. induction os as [|o r IH]; cbn; [reflexivity|].
  rewrite IH. destruct (decode o); [|reflexivity]. destruct (all_some (map decode r)); reflexivity.
Qed.
Definition dec_kv (kv : obj * obj) : option (atom * pv) :=
  match atom_of_obj (fst kv), decode (snd kv) with Some a, Some y => Some (a, y) | _, _ => None end.
Lemma decode_dict_eq : forall i kvs, decode (ODict i kvs) = option_map PDict (all_some (map dec_kv kvs)).
Proof.
  intros i kvs. cbn [decode]. f_equal. induction kvs as [|[k x] r IH]; cbn; [reflexivity|].
  rewrite IH. unfold dec_kv. cbn. destruct (atom_of_obj k); [|reflexivity].
  destruct (decode x); [|reflexivity]. destruct (all_some (map dec_kv r)); reflexivity.
Qed.

Lemma all_some_map_decode : forall os vs,
  Forall2 (fun o v => decode o = Some v) os vs -> all_some (map decode os) = Some vs.
Proof.
  intros os vs H. induction H as [|o v os vs Ho Hr IH]; cbn; [reflexivity|]. rewrite Ho, IH. reflexivity.
Qed.

Lemma atom_of_obj_of_atom : forall a, atom_of_obj (obj_of_atom a) = Some a.
Proof. destruct a; reflexivity. Qed.
Lemma decode_obj_of_atom : forall a, decode (obj_of_atom a) = Some (PAtom a).
Proof. destruct a; reflexivity. Qed.
Lemma all_some_atoms : forall xs, all_some (map atom_of_obj (map obj_of_atom xs)) = Some xs.
Proof. induction xs as [|a r IH]; cbn; [reflexivity|]. rewrite atom_of_obj_of_atom, IH. reflexivity. Qed.
Lemma hashable_atom : forall a, hashable (obj_of_atom a) = true.
Proof. destruct a; reflexivity. Qed.
Lemma is_mark_atom : forall a, is_mark (obj_of_atom a) = false.
Proof. destruct a; reflexivity. Qed.
Lemma ids_below_atom : forall n a, ids_below n (obj_of_atom a) = true.
Proof. destruct a; reflexivity. Qed.

Lemma obj_pyeq_atoms : forall a b, obj_pyeq (obj_of_atom a) (obj_of_atom b) = py_eq a b.
Proof. destruct a, b; try reflexivity; cbn; try (destruct b; reflexivity); try (destruct b0; reflexivity). Qed.

(** * keys and members: Python equality on atoms *)

Lemma pystr_eqb_sym : forall a b, pystr_eqb a b = pystr_eqb b a.
Proof.
  intros a b. destruct (pystr_eqb a b) eqn:E1, (pystr_eqb b a) eqn:E2; try reflexivity.
  - apply pystr_eqb_eq in E1. subst. rewrite pystr_eqb_refl in E2. discriminate.
  - apply pystr_eqb_eq in E2. subst. rewrite pystr_eqb_refl in E1. discriminate.
Qed.

Lemma py_eq_sym : forall a b, py_eq a b = py_eq b a.
Proof.
  intros a b. unfold py_eq. destruct (num2 a) as [x|] eqn:Ea, (num2 b) as [y|] eqn:Eb; try reflexivity.
  - apply Z.eqb_sym.
  - destruct a, b; try reflexivity; try discriminate; apply pystr_eqb_sym.
Qed.

Fixpoint nodup_keys (ks : list obj) : bool :=
  match ks with
  | [] => true
  | k :: r => negb (existsb (obj_pyeq k) r) && nodup_keys r
  end.

Lemma existsb_map : forall (A B : Type) (f : B -> bool) (g : A -> B) l,
  existsb f (map g l) = existsb (fun x => f (g x)) l.
Proof. intros. induction l as [|x r IH]; cbn; [reflexivity|]. rewrite IH. reflexivity. Qed.

Lemma existsb_ext_in : forall (A : Type) (f g : A -> bool) l, (forall x, f x = g x) -> existsb f l = existsb g l.
Proof. intros A f g l H. induction l as [|x r IH]; cbn; [reflexivity|]. rewrite H, IH. reflexivity. Qed.

Lemma nodup_keys_atoms : forall xs, nodup_keys (map obj_of_atom xs) = nodup_atoms xs.
Proof.
  induction xs as [|a r IH]; cbn; [reflexivity|]. rewrite IH. f_equal. f_equal.
  unfold mem_atom. rewrite existsb_map. apply existsb_ext_in. intro x. apply obj_pyeq_atoms.
Qed.

Lemma nodup_keys_app_mid : forall l1 k l2, nodup_keys (l1 ++ k :: l2) = true ->
  existsb (fun e => obj_pyeq e k) l1 = false /\ nodup_keys ((l1 ++ [k]) ++ l2) = true.
Proof.
  intros l1 k l2 H. split.
  - induction l1 as [|e r IH]; cbn in *; [reflexivity|].
    apply andb_true_iff in H. destruct H as [H1 H2]. rewrite (IH H2), orb_false_r.
    apply negb_true_iff in H1. rewrite existsb_app in H1. apply orb_false_iff in H1. destruct H1 as [_ H1].
    cbn in H1. apply orb_false_iff in H1. apply H1.
  - rewrite <- app_assoc. exact H.
Qed.

Lemma dict_set_fresh : forall k v acc,
  existsb (fun e => obj_pyeq e k) (map fst acc) = false -> dict_set k v acc = (acc ++ [(k, v)])%list.
Proof.
  intros k v. induction acc as [|[k' v'] r IH]; cbn; [reflexivity|].
  intro H. apply orb_false_iff in H. destruct H as [H1 H2]. rewrite H1, (IH H2). reflexivity.
Qed.

Lemma dict_set_all_fresh : forall ps acc,
  forallb hashable (map fst ps) = true ->
  nodup_keys (map fst acc ++ map fst ps) = true ->
  dict_set_all ps acc = Some (acc ++ ps)%list.
Proof.
  induction ps as [|[k v] r IH]; intros acc Hh Hn; cbn.
  - rewrite app_nil_r. reflexivity.
  - cbn in Hh. apply andb_true_iff in Hh. destruct Hh as [Hk Hr]. rewrite Hk.
    cbn [map fst] in Hn. destruct (nodup_keys_app_mid _ _ _ Hn) as [He Hn'].
    rewrite (dict_set_fresh k v acc He). rewrite IH.
    + rewrite <- app_assoc. reflexivity.
    + exact Hr.
    + rewrite map_app. cbn. exact Hn'.
Qed.

Lemma nodup_atoms_app_mid : forall l1 a l2, nodup_atoms (l1 ++ a :: l2) = true ->
  existsb (py_eq a) l1 = false /\ nodup_atoms ((l1 ++ [a]) ++ l2) = true.
Proof.
  intros l1 a l2 H. split.
  - induction l1 as [|e r IH]; cbn in *; [reflexivity|].
    apply andb_true_iff in H. destruct H as [H1 H2]. rewrite (IH H2), orb_false_r.
    apply negb_true_iff in H1. unfold mem_atom in H1. rewrite existsb_app in H1.
    apply orb_false_iff in H1. destruct H1 as [_ H1]. cbn in H1. apply orb_false_iff in H1.
    rewrite py_eq_sym. apply H1.
  - rewrite <- app_assoc. exact H.
Qed.

Lemma set_add_all_atoms : forall xs acc, nodup_atoms (acc ++ xs) = true ->
  set_add_all (map obj_of_atom xs) (map obj_of_atom acc) = Some (map obj_of_atom (acc ++ xs)).
Proof.
  induction xs as [|a r IH]; intros acc H; cbn.
  - rewrite app_nil_r. reflexivity.
  - rewrite hashable_atom. destruct (nodup_atoms_app_mid _ _ _ H) as [He Hn].
    unfold set_add. rewrite existsb_map.
    rewrite (existsb_ext_in _ _ (py_eq a)) by (intro x; apply obj_pyeq_atoms). rewrite He.
    replace (map obj_of_atom acc ++ [obj_of_atom a])%list with (map obj_of_atom (acc ++ [a])) by (rewrite map_app; reflexivity).
    rewrite (IH _ Hn). rewrite <- app_assoc. reflexivity.
Qed.

(** * marks *)

Lemma to_mark_rev_gen : forall os tail acc, existsb is_mark os = false ->
  to_mark (rev os ++ tail) acc = to_mark tail (os ++ acc).
Proof.
  induction os as [|x r IH]; intros tail acc H; cbn; [reflexivity|].
  cbn in H. apply orb_false_iff in H. destruct H as [Hx Hr].
  rewrite <- app_assoc. rewrite (IH _ _ Hr). cbn. rewrite Hx. reflexivity.
Qed.

Lemma to_mark_rev : forall os below, existsb is_mark os = false ->
  to_mark (rev os ++ OMark :: below) [] = Some (os, below).
Proof. intros os below H. rewrite (to_mark_rev_gen os _ [] H). cbn. rewrite app_nil_r. reflexivity. Qed.

(** * fresh states *)

Definition fresh_state (st : state) : Prop :=
  forallb (ids_below (next st)) (stack st) = true /\
  forallb (fun p => ids_below (next st) (snd p)) (memo st) = true.

Lemma memo_subst_fresh : forall i c (m : list (Z * obj)),
  forallb (fun p => ids_below i (snd p)) m = true ->
  map (fun p => (fst p, subst i c (snd p))) m = m.
Proof.
  intros i c. induction m as [|[j x] r IH]; cbn; [reflexivity|].
  intro E. apply andb_true_iff in E. destruct E as [E1 E2]. rewrite (subst_fresh i c x E1), (IH E2). reflexivity.
Qed.

Lemma stack_subst_fresh : forall i c s, forallb (ids_below i) s = true -> map (subst i c) s = s.
Proof.
  intros i c s. apply (map_id_forall _ (ids_below i)). apply Forall_forall. intros x _. apply subst_fresh.
Qed.

Lemma memo_mono : forall n m (mm : list (Z * obj)), n <= m ->
  forallb (fun p => ids_below n (snd p)) mm = true -> forallb (fun p => ids_below m (snd p)) mm = true.
Proof.
  intros n m mm H. apply forallb_imp. apply Forall_forall. intros x _. apply ids_below_mono. exact H.
Qed.

(** * induction principle for payloads *)
Section PvInd.
  Variable P : pv -> Prop.
  Hypothesis HAtom : forall a, P (PAtom a).
  Hypothesis HFloatBits : forall b, P (PFloatBits b).
  Hypothesis HList : forall xs, Forall P xs -> P (PList xs).
  Hypothesis HTuple : forall xs, Forall P xs -> P (PTuple xs).
  Hypothesis HDict : forall kvs, Forall (fun kv => P (snd kv)) kvs -> P (PDict kvs).
  Hypothesis HSet : forall xs, P (PSet xs).
  Hypothesis HFrozen : forall xs, P (PFrozen xs).
  Hypothesis HType : forall m n, P (PType m n).
  Hypothesis HNoneType : P PNoneType.
  Hypothesis HOpcode : forall tag i1 i2 j1 j2 old new, P old -> P new -> P (POpcode tag i1 i2 j1 j2 old new).
  Hypothesis HSetOrdered : forall xs, Forall P xs -> P (PSetOrdered xs).

  Fixpoint pv_ind' (v : pv) : P v :=
    let fix all (xs : list pv) : Forall P xs :=
      match xs with
      | [] => Forall_nil P
      | x :: r => Forall_cons x (pv_ind' x) (all r)
      end in
    match v with
    | PAtom a => HAtom a
    | PFloatBits b => HFloatBits b
    | PList xs => HList xs (all xs)
    | PTuple xs => HTuple xs (all xs)
    | PDict kvs =>
        HDict kvs ((fix allp (kvs : list (atom * pv)) : Forall (fun kv => P (snd kv)) kvs :=
                      match kvs with
                      | [] => Forall_nil _
                      | kv :: r => Forall_cons kv (pv_ind' (snd kv)) (allp r)
                      end) kvs)
    | PSet xs => HSet xs
    | PFrozen xs => HFrozen xs
    | PType m n => HType m n
    | PNoneType => HNoneType
    | POpcode tag i1 i2 j1 j2 old new => HOpcode tag i1 i2 j1 j2 old new (pv_ind' old) (pv_ind' new)
    | PSetOrdered xs => HSetOrdered xs (all xs)
    end.
End PvInd.

(** * running encodings *)

Definition st_push (st : state) (os : list obj) (n : nat) (tr : list event) : state :=
  mkState (os ++ stack st) (memo st) n (ecache st) tr.

(* running [prog] pushes one object that reads back as [v] *)
Definition pushes (w : world) (prog : list op) (v : pv) : Prop :=
  forall st rest, fresh_state st ->
  exists o n' tr',
    run w st (prog ++ rest) = run w (st_push st [o] n' tr') rest /\
    decode o = Some v /\ next st <= n' /\ ids_below n' o = true /\ is_mark o = false.

(* running [prog] pushes objects that read back as [vs], first pushed deepest *)
Definition pushes_all (w : world) (prog : list op) (vs : list pv) : Prop :=
  forall st rest, fresh_state st ->
  exists os n' tr',
    run w st (prog ++ rest) = run w (st_push st (rev os) n' tr') rest /\
    Forall2 (fun o v => decode o = Some v) os vs /\ next st <= n' /\
    forallb (ids_below n') os = true /\ existsb is_mark os = false.

Lemma fresh_after_push : forall st os n tr, fresh_state st -> next st <= n ->
  forallb (ids_below n) os = true -> fresh_state (st_push st os n tr).
Proof.
  intros st os n tr [Hs Hm] Hle Ho. split; cbn.
  - rewrite forallb_app. rewrite Ho. cbn. apply (ids_below_all_mono _ _ _ Hle Hs).
  - apply (memo_mono _ _ _ Hle Hm).
Qed.

Lemma st_push_push : forall st os n tr os2 n2 tr2,
  st_push (st_push st os n tr) os2 n2 tr2 = st_push st (os2 ++ os) n2 tr2.
Proof. intros. unfold st_push. cbn. rewrite app_assoc. reflexivity. Qed.

Lemma forallb_rev' : forall (A : Type) (f : A -> bool) l, forallb f (rev l) = forallb f l.
Proof. exact forallb_rev. Qed.

Lemma pushes_all_nil : forall w, pushes_all w [] [].
Proof.
  intros w st rest Hf. exists [], (next st), (trace st). cbn. split; [|repeat split; auto].
  unfold st_push. cbn. destruct st; reflexivity.
Qed.

Lemma pushes_all_cons : forall w p ps v vs,
  pushes w p v -> pushes_all w ps vs -> pushes_all w (p ++ ps) (v :: vs).
Proof.
  intros w p ps v vs Hp Hps st rest Hf.
  destruct (Hp st (ps ++ rest) Hf) as [o [n1 [tr1 [Hr1 [Hd [Hle1 [Hb1 Hm1]]]]]]].
  assert (Hf1 : fresh_state (st_push st [o] n1 tr1)).
  { apply fresh_after_push; [exact Hf | exact Hle1|]. cbn. rewrite Hb1. reflexivity. }
  destruct (Hps _ rest Hf1) as [os [n2 [tr2 [Hr2 [Hds [Hle2 [Hb2 Hm2]]]]]]].
  exists (o :: os), n2, tr2. rewrite <- app_assoc, Hr1, Hr2. cbn [next st_push] in Hle2.
  split; [|split; [|split; [|split]]].
  - rewrite st_push_push. cbn [rev]. reflexivity.
  - constructor; assumption.
  - lia.
  - cbn. rewrite Hb2, (ids_below_mono _ _ Hle2 _ Hb1). reflexivity.
  - cbn. rewrite Hm1, Hm2. reflexivity.
Qed.

Lemma pushes_all_single : forall w p v, pushes w p v -> pushes_all w p [v].
Proof.
  intros w p v H. rewrite <- (app_nil_r p). apply pushes_all_cons; [exact H | apply pushes_all_nil].
Qed.

Lemma run_step_next : forall w st o st' r, step w st o = SNext st' -> run w st (o :: r) = run w st' r.
Proof. intros w st o st' r H. cbn [run]. rewrite H. reflexivity. Qed.

(* one opcode that pushes a constant *)
Lemma pushes_const : forall w o obj_ v,
  (forall st, step w st o = SNext (push obj_ st)) ->
  decode obj_ = Some v -> (forall n, ids_below n obj_ = true) -> is_mark obj_ = false ->
  pushes w [o] v.
Proof.
  intros w o obj_ v Hs Hd Hb Hm st rest Hf. exists obj_, (next st), (trace st).
  cbn [app]. rewrite (run_step_next _ _ _ _ _ (Hs st)).
  split; [reflexivity|]. repeat split; auto.
Qed.

Lemma step_enc_int : forall w st z, step w st (enc_int z) = SNext (push (OInt z) st).
Proof.
  intros. unfold enc_int.
  destruct (_ && _)%bool; [reflexivity|]. destruct (_ && _)%bool; [reflexivity|].
  destruct (_ && _)%bool; reflexivity.
Qed.
Lemma step_enc_str : forall w st s, step w st (enc_str s) = SNext (push (OStr s) st).
Proof. intros. unfold enc_str. destruct (Nat.ltb _ _); reflexivity. Qed.
Lemma step_enc_bytes : forall w st s, step w st (enc_bytes s) = SNext (push (OBytes s) st).
Proof. intros. unfold enc_bytes. destruct (Nat.ltb _ _); reflexivity. Qed.
Lemma step_enc_atom : forall w st a, step w st (enc_atom a) = SNext (push (obj_of_atom a) st).
Proof.
  intros w st a. destruct a; cbn [enc_atom obj_of_atom]; try reflexivity.
  - destruct b; reflexivity.
  - apply step_enc_int.
  - apply step_enc_str.
  - apply step_enc_bytes.
Qed.

Lemma pushes_atom : forall w a, pushes w [enc_atom a] (PAtom a).
Proof.
  intros w a. apply (pushes_const w _ (obj_of_atom a)).
  - intro st. apply step_enc_atom.
  - apply decode_obj_of_atom.
  - intro n. apply ids_below_atom.
  - apply is_mark_atom.
Qed.

Lemma pushes_atoms : forall w xs, pushes_all w (map enc_atom xs) (map PAtom xs).
Proof.
  intros w. induction xs as [|a r IH]; cbn [map]; [apply pushes_all_nil|].
  change (enc_atom a :: map enc_atom r) with ([enc_atom a] ++ map enc_atom r)%list.
  apply pushes_all_cons; [apply pushes_atom | exact IH].
Qed.

(** * closing opcodes *)

Lemma appends_closes : forall w below mm n ec tr i os rest,
  os <> [] -> existsb is_mark os = false ->
  forallb (ids_below i) below = true -> forallb (fun p => ids_below i (snd p)) mm = true ->
  run w (mkState (rev os ++ OMark :: OList i [] :: below) mm n ec tr) (APPENDS :: rest)
  = run w (mkState (OList i os :: below) mm n ec tr) rest.
Proof.
  intros w below mm n ec tr i os rest Hne Hm Hb Hmm.
  apply run_step_next. cbn [step]. unfold with_mark. cbn [stack]. rewrite (to_mark_rev os _ Hm).
  unfold do_extend. cbn [pop1 is_mark]. destruct os as [|x r]; [contradiction|].
  unfold mutate, set_stack. cbn [stack memo next ecache trace map subst app].
  rewrite Nat.eqb_refl, (stack_subst_fresh _ _ _ Hb), (memo_subst_fresh _ _ _ Hmm). reflexivity.
Qed.

Lemma tuple_closes : forall w below mm n ec tr os rest,
  existsb is_mark os = false ->
  run w (mkState (rev os ++ OMark :: below) mm n ec tr) (TUPLE :: rest)
  = run w (mkState (OTuple os :: below) mm n ec tr) rest.
Proof.
  intros. apply run_step_next. cbn [step]. unfold with_mark. cbn [stack]. rewrite (to_mark_rev os _ H). reflexivity.
Qed.

Lemma frozenset_closes : forall w below mm n ec tr xs rest,
  nodup_atoms xs = true ->
  run w (mkState (rev (map obj_of_atom xs) ++ OMark :: below) mm n ec tr) (FROZENSET :: rest)
  = run w (mkState (OFrozen (map obj_of_atom xs) :: below) mm n ec tr) rest.
Proof.
  intros w below mm n ec tr xs rest Hn. apply run_step_next. cbn [step]. unfold with_mark. cbn [stack].
  rewrite to_mark_rev.
  - pose proof (set_add_all_atoms xs [] Hn) as E. cbn [map app] in E. rewrite E. reflexivity.
  - rewrite existsb_map. induction xs as [|a r IH]; cbn; [reflexivity|]. rewrite is_mark_atom. cbn.
    apply IH. cbn in Hn. apply andb_true_iff in Hn. apply Hn.
Qed.

Lemma no_mark_atoms : forall xs, existsb is_mark (map obj_of_atom xs) = false.
Proof. induction xs as [|a r IH]; cbn; [reflexivity|]. rewrite is_mark_atom. exact IH. Qed.

Lemma additems_closes : forall w below mm n ec tr i xs rest,
  xs <> [] -> nodup_atoms xs = true ->
  forallb (ids_below i) below = true -> forallb (fun p => ids_below i (snd p)) mm = true ->
  run w (mkState (rev (map obj_of_atom xs) ++ OMark :: OSet i [] :: below) mm n ec tr) (ADDITEMS :: rest)
  = run w (mkState (OSet i (map obj_of_atom xs) :: below) mm n ec tr) rest.
Proof.
  intros w below mm n ec tr i xs rest Hne Hn Hb Hmm.
  apply run_step_next. cbn [step]. unfold with_mark. cbn [stack]. rewrite (to_mark_rev _ _ (no_mark_atoms xs)).
  unfold do_additems. cbn [pop1 is_mark].
  destruct (map obj_of_atom xs) as [|x r] eqn:E; [destruct xs; [contradiction | discriminate]|].
  rewrite <- E. pose proof (set_add_all_atoms xs [] Hn) as Es. cbn [map app] in Es. rewrite Es.
  unfold mutate, set_stack. cbn [stack memo next ecache trace map subst].
  rewrite Nat.eqb_refl, (stack_subst_fresh _ _ _ Hb), (memo_subst_fresh _ _ _ Hmm). reflexivity.
Qed.

Definition flatten (ps : list (obj * obj)) : list obj := flat_map (fun p => [fst p; snd p]) ps.

Lemma pairs_of_flatten : forall ps, pairs_of (flatten ps) = Some ps.
Proof. induction ps as [|[k v] r IH]; cbn; [reflexivity|]. unfold flatten in IH. rewrite IH. reflexivity. Qed.

Lemma setitems_closes : forall w below mm n ec tr i ps rest,
  ps <> [] -> existsb is_mark (flatten ps) = false ->
  forallb hashable (map fst ps) = true -> nodup_keys (map fst ps) = true ->
  forallb (ids_below i) below = true -> forallb (fun p => ids_below i (snd p)) mm = true ->
  run w (mkState (rev (flatten ps) ++ OMark :: ODict i [] :: below) mm n ec tr) (SETITEMS :: rest)
  = run w (mkState (ODict i ps :: below) mm n ec tr) rest.
Proof.
  intros w below mm n ec tr i ps rest Hne Hm Hh Hn Hb Hmm.
  apply run_step_next. cbn [step]. unfold with_mark. cbn [stack]. rewrite (to_mark_rev _ _ Hm).
  unfold do_setitems. cbn [pop1 is_mark].
  destruct (flatten ps) as [|x r] eqn:E; [destruct ps as [|[k v] ps']; [contradiction | discriminate]|].
  rewrite <- E, pairs_of_flatten. rewrite (dict_set_all_fresh ps [] Hh Hn). cbn [app].
  unfold mutate, set_stack. cbn [stack memo next ecache trace map subst].
  rewrite Nat.eqb_refl, (stack_subst_fresh _ _ _ Hb), (memo_subst_fresh _ _ _ Hmm). reflexivity.
Qed.

(** * composite encodings *)

Lemma fresh_state_parts : forall st, fresh_state st ->
  forallb (ids_below (next st)) (stack st) = true /\ forallb (fun p => ids_below (next st) (snd p)) (memo st) = true.
Proof. intros st H. exact H. Qed.

Lemma Forall2_length_ne : forall (A B : Type) (R : A -> B -> Prop) l1 l2, Forall2 R l1 l2 -> l2 <> [] -> l1 <> [].
Proof. intros A B R l1 l2 H Hne. destruct H; [contradiction | discriminate]. Qed.

Lemma pushes_list : forall w ps xs, xs <> [] -> pushes_all w ps xs ->
  pushes w (EMPTY_LIST :: MARK :: ps ++ [APPENDS]) (PList xs).
Proof.
  intros w ps xs Hne Hps st rest Hf. destruct Hf as [Hs Hm].
  set (i := next st) in *.
  assert (Hf2 : fresh_state (st_push st [OMark; OList i []] (S i) (trace st))).
  { apply fresh_after_push; [split; assumption | unfold i; lia|]. cbn [forallb ids_below].
    rewrite !andb_true_r. apply Nat.ltb_lt. lia. }
  destruct (Hps _ (APPENDS :: rest) Hf2) as [os [n' [tr' [Hr [Hd [Hle [Hb Hmk]]]]]]].
  exists (OList i os), n', tr'. cbn [next st_push] in Hle.
  split; [|split; [|split; [|split]]].
  - cbn [app]. rewrite (run_step_next w st EMPTY_LIST (fresh (push (OList i []) st))) by reflexivity.
    rewrite (run_step_next w _ MARK (push OMark (fresh (push (OList i []) st)))) by reflexivity.
    rewrite <- app_assoc. cbn [app].
    change (push OMark (fresh (push (OList i []) st))) with (st_push st [OMark; OList i []] (S i) (trace st)).
    rewrite Hr. unfold st_push. cbn [stack memo ecache app].
    apply appends_closes; try assumption. apply (Forall2_length_ne _ _ _ _ _ Hd Hne).
  - rewrite decode_list_eq, (all_some_map_decode _ _ Hd). reflexivity.
  - lia.
  - cbn [ids_below]. rewrite Hb, andb_true_r. apply Nat.ltb_lt. unfold i. lia.
  - reflexivity.
Qed.

Lemma pushes_tuple : forall w ps xs, xs <> [] -> pushes_all w ps xs ->
  pushes w (MARK :: ps ++ [TUPLE]) (PTuple xs).
Proof.
  intros w ps xs Hne Hps st rest Hf.
  assert (Hf2 : fresh_state (st_push st [OMark] (next st) (trace st))).
  { apply fresh_after_push; [exact Hf | lia | reflexivity]. }
  destruct (Hps _ (TUPLE :: rest) Hf2) as [os [n' [tr' [Hr [Hd [Hle [Hb Hmk]]]]]]].
  exists (OTuple os), n', tr'. cbn [next st_push] in Hle.
  split; [|split; [|split; [|split]]].
  - cbn [app]. rewrite (run_step_next w st MARK (push OMark st)) by reflexivity.
    rewrite <- app_assoc. cbn [app].
    change (push OMark st) with (st_push st [OMark] (next st) (trace st)).
    rewrite Hr. unfold st_push. cbn [stack memo ecache app]. apply tuple_closes. exact Hmk.
  - rewrite decode_tuple_eq, (all_some_map_decode _ _ Hd). reflexivity.
  - exact Hle.
  - cbn [ids_below]. exact Hb.
  - reflexivity.
Qed.

(* key / value pairs *)
Definition pushes_kvs (w : world) (prog : list op) (kvs : list (atom * pv)) : Prop :=
  forall st rest, fresh_state st ->
  exists ps n' tr',
    run w st (prog ++ rest) = run w (st_push st (rev (flatten ps)) n' tr') rest /\
    Forall2 (fun p kv => fst p = obj_of_atom (fst kv) /\ decode (snd p) = Some (snd kv)) ps kvs /\
    next st <= n' /\ forallb (ids_below n') (flatten ps) = true /\ existsb is_mark (flatten ps) = false.

Lemma pushes_kvs_nil : forall w, pushes_kvs w [] [].
Proof.
  intros w st rest Hf. exists [], (next st), (trace st). cbn. split; [|repeat split; auto].
  unfold st_push. cbn. destruct st; reflexivity.
Qed.

Lemma pushes_kvs_cons : forall w k p ps v kvs,
  pushes w p v -> pushes_kvs w ps kvs -> pushes_kvs w (enc_atom k :: p ++ ps) ((k, v) :: kvs).
Proof.
  intros w k p ps v kvs Hp Hps st rest Hf.
  assert (Hf0 : fresh_state (st_push st [obj_of_atom k] (next st) (trace st))).
  { apply fresh_after_push; [exact Hf | lia|]. cbn. rewrite ids_below_atom. reflexivity. }
  destruct (Hp _ (ps ++ rest) Hf0) as [o [n1 [tr1 [Hr1 [Hd [Hle1 [Hb1 Hm1]]]]]]].
  cbn [next st_push] in Hle1.
  assert (Hf1 : fresh_state (st_push st [o; obj_of_atom k] n1 tr1)).
  { apply fresh_after_push; [exact Hf | exact Hle1|]. cbn. rewrite Hb1, ids_below_atom. reflexivity. }
  destruct (Hps _ rest Hf1) as [qs [n2 [tr2 [Hr2 [Hds [Hle2 [Hb2 Hm2]]]]]]].
  cbn [next st_push] in Hle2.
  exists ((obj_of_atom k, o) :: qs), n2, tr2.
  split; [|split; [|split; [|split]]].
  - cbn [app]. rewrite (run_step_next w st _ _ _ (step_enc_atom w st k)).
    change (push (obj_of_atom k) st) with (st_push st [obj_of_atom k] (next st) (trace st)).
    rewrite <- app_assoc, Hr1. rewrite st_push_push. cbn [app]. rewrite Hr2. rewrite st_push_push.
    cbn [flatten flat_map fst snd app rev]. unfold flatten. rewrite <- !app_assoc. reflexivity.
  - constructor; [split; [reflexivity | exact Hd] | exact Hds].
  - lia.
  - cbn. rewrite ids_below_atom, (ids_below_mono _ _ Hle2 _ Hb1). exact Hb2.
  - cbn. rewrite is_mark_atom, Hm1. exact Hm2.
Qed.

Lemma kvs_keys : forall ps (kvs : list (atom * pv)),
  Forall2 (fun p kv => fst p = obj_of_atom (fst kv) /\ decode (snd p) = Some (snd kv)) ps kvs ->
  map fst ps = map obj_of_atom (map fst kvs) /\ all_some (map dec_kv ps) = Some kvs.
Proof.
  intros ps kvs H. induction H as [|[k o] [a v] ps kvs [Hk Hv] Hr [IH1 IH2]]; cbn; [auto|].
  cbn in Hk, Hv. subst k. split; [rewrite IH1; reflexivity|].
  unfold dec_kv at 1. cbn. rewrite atom_of_obj_of_atom, Hv, IH2. reflexivity.
Qed.

Lemma pushes_dict : forall w ps kvs, kvs <> [] -> nodup_atoms (map fst kvs) = true -> pushes_kvs w ps kvs ->
  pushes w (EMPTY_DICT :: MARK :: ps ++ [SETITEMS]) (PDict kvs).
Proof.
  intros w ps kvs Hne Hnd Hps st rest Hf. destruct Hf as [Hs Hm].
  set (i := next st) in *.
  assert (Hf2 : fresh_state (st_push st [OMark; ODict i []] (S i) (trace st))).
  { apply fresh_after_push; [split; assumption | unfold i; lia|]. cbn [forallb ids_below].
    rewrite !andb_true_r. apply Nat.ltb_lt. lia. }
  destruct (Hps _ (SETITEMS :: rest) Hf2) as [qs [n' [tr' [Hr [Hd [Hle [Hb Hmk]]]]]]].
  exists (ODict i qs), n', tr'. cbn [next st_push] in Hle.
  destruct (kvs_keys _ _ Hd) as [Hkeys Hdec].
  split; [|split; [|split; [|split]]].
  - cbn [app]. rewrite (run_step_next w st EMPTY_DICT (fresh (push (ODict i []) st))) by reflexivity.
    rewrite (run_step_next w _ MARK (push OMark (fresh (push (ODict i []) st)))) by reflexivity.
    rewrite <- app_assoc. cbn [app].
    change (push OMark (fresh (push (ODict i []) st))) with (st_push st [OMark; ODict i []] (S i) (trace st)).
    rewrite Hr. unfold st_push. cbn [stack memo ecache app].
    apply setitems_closes; try assumption.
    + apply (Forall2_length_ne _ _ _ _ _ Hd Hne).
    + rewrite Hkeys. clear. induction (map fst kvs) as [|a r IH]; cbn; [reflexivity|]. rewrite hashable_atom. exact IH.
    + rewrite Hkeys, nodup_keys_atoms. exact Hnd.
  - rewrite decode_dict_eq, Hdec. reflexivity.
  - lia.
  - cbn [ids_below]. apply andb_true_iff. split; [apply Nat.ltb_lt; unfold i; lia|].
    clear - Hb. induction qs as [|[k v] r IH]; cbn in *; [reflexivity|].
    apply andb_true_iff in Hb. destruct Hb as [Hk Hb]. apply andb_true_iff in Hb. destruct Hb as [Hv Hb].
    rewrite Hk, Hv, (IH Hb). reflexivity.
  - reflexivity.
Qed.

Lemma ids_below_atoms : forall n xs, forallb (ids_below n) (map obj_of_atom xs) = true.
Proof. intros n. induction xs as [|a r IH]; cbn; [reflexivity|]. rewrite ids_below_atom. exact IH. Qed.

Lemma decode_set_atoms : forall i xs, decode (OSet i (map obj_of_atom xs)) = Some (PSet xs).
Proof. intros. cbn [decode]. rewrite all_some_atoms. reflexivity. Qed.
Lemma decode_frozen_atoms : forall xs, decode (OFrozen (map obj_of_atom xs)) = Some (PFrozen xs).
Proof. intros. cbn [decode]. rewrite all_some_atoms. reflexivity. Qed.

(* running the encodings of atoms pushes exactly their objects *)
Lemma run_atoms : forall w xs st rest,
  run w st (map enc_atom xs ++ rest) = run w (st_push st (rev (map obj_of_atom xs)) (next st) (trace st)) rest.
Proof.
  intros w. induction xs as [|a r IH]; intros st rest; cbn [map app rev].
  - unfold st_push. cbn. destruct st; reflexivity.
  - rewrite (run_step_next w st _ _ _ (step_enc_atom w st a)). rewrite IH.
    unfold st_push, push, set_stack. cbn [stack memo next ecache trace]. rewrite <- app_assoc. reflexivity.
Qed.

Lemma pushes_set : forall w xs, xs <> [] -> nodup_atoms xs = true ->
  pushes w (EMPTY_SET :: MARK :: map enc_atom xs ++ [ADDITEMS]) (PSet xs).
Proof.
  intros w xs Hne Hnd st rest Hf. destruct Hf as [Hs Hm]. set (i := next st) in *.
  exists (OSet i (map obj_of_atom xs)), (S i), (trace st).
  split; [|split; [|split; [|split]]].
  - cbn [app]. rewrite (run_step_next w st EMPTY_SET (fresh (push (OSet i []) st))) by reflexivity.
    rewrite (run_step_next w _ MARK (push OMark (fresh (push (OSet i []) st)))) by reflexivity.
    rewrite <- app_assoc. cbn [app]. rewrite run_atoms.
    unfold st_push, push, fresh, set_stack. cbn [stack memo next ecache trace app].
    apply additems_closes; assumption.
  - apply decode_set_atoms.
  - unfold i. lia.
  - cbn [ids_below]. rewrite ids_below_atoms, andb_true_r. apply Nat.ltb_lt. lia.
  - reflexivity.
Qed.

Lemma pushes_frozen : forall w xs, nodup_atoms xs = true ->
  pushes w (MARK :: map enc_atom xs ++ [FROZENSET]) (PFrozen xs).
Proof.
  intros w xs Hnd st rest Hf.
  exists (OFrozen (map obj_of_atom xs)), (next st), (trace st).
  split; [|split; [|split; [|split]]].
  - cbn [app]. rewrite (run_step_next w st MARK (push OMark st)) by reflexivity.
    rewrite <- app_assoc. cbn [app]. rewrite run_atoms.
    unfold st_push, push, set_stack. cbn [stack memo next ecache trace app].
    apply frozenset_closes. exact Hnd.
  - apply decode_frozen_atoms.
  - lia.
  - cbn [ids_below]. apply ids_below_atoms.
  - reflexivity.
Qed.

(** * globals, persistent id, constructor calls *)

Lemma pushes_type : forall w m n, find_class w m n = FCResolved GType ->
  pushes w [enc_str m; enc_str n; STACK_GLOBAL] (PType m n).
Proof.
  intros w m n Hfc st rest Hf. exists (OGlobal m n GType), (next st), (EResolve m n :: trace st).
  split; [|repeat split; auto].
  cbn [app]. rewrite (run_step_next w st _ _ _ (step_enc_str w st m)).
  rewrite (run_step_next w _ _ _ _ (step_enc_str w _ n)).
  apply run_step_next. cbn [step push set_stack stack pop1 is_mark]. unfold do_global. rewrite Hfc. reflexivity.
Qed.

Lemma pushes_nonetype : forall w, pushes w [enc_str NONE_TYPE_PID; BINPERSID] PNoneType.
Proof.
  intros w st rest Hf. exists ONoneType, (next st), (EPersist (OStr NONE_TYPE_PID) :: trace st).
  split; [|repeat split; auto].
  cbn [app]. rewrite (run_step_next w st _ _ _ (step_enc_str w st NONE_TYPE_PID)).
  apply run_step_next. cbn [step push set_stack stack pop1 is_mark]. unfold persistent_load.
  rewrite pystr_eqb_refl. reflexivity.
Qed.

(* what the payload needs from the process besides resolvable class objects *)
Record calls_ok (w : world) : Prop := mkCallsOk {
  co_opcode : forall args, call_ok w KNewobj (OGlobal HELPER OPCODE GType) args = true;
  co_setordered : call_ok w KNewobj (OGlobal HELPER SETORDERED GType) (OTuple []) = true;
  co_build : forall i s, build_ok w (OInst i KNewobj (OGlobal HELPER SETORDERED GType) (OTuple []) []) s = true
}.

Definition types_ok (w : world) (v : pv) : Prop :=
  forall m n, In (m, n) (types_of v) -> find_class w m n = FCResolved GType.

Lemma pushes_opcode : forall w tag i1 i2 j1 j2 pold pnew old new,
  calls_ok w -> find_class w HELPER OPCODE = FCResolved GType ->
  pushes w pold old -> pushes w pnew new ->
  pushes w ([enc_str HELPER; enc_str OPCODE; STACK_GLOBAL; MARK;
             enc_str tag; enc_int i1; enc_int i2; enc_int j1; enc_int j2]
            ++ pold ++ pnew ++ [TUPLE; NEWOBJ]) (POpcode tag i1 i2 j1 j2 old new).
Proof.
  intros w tag i1 i2 j1 j2 pold pnew old new Hco Hfc Hold Hnew st rest Hf.
  set (cls := OGlobal HELPER OPCODE GType).
  set (pre := [OInt j2; OInt j1; OInt i2; OInt i1; OStr tag; OMark; cls]).
  set (tr0 := EResolve HELPER OPCODE :: trace st).
  assert (Hf1 : fresh_state (st_push st pre (next st) tr0)).
  { apply fresh_after_push; [exact Hf | lia | reflexivity]. }
  destruct (Hold _ (pnew ++ [TUPLE; NEWOBJ] ++ rest) Hf1) as [o1 [n1 [tr1 [Hr1 [Hd1 [Hle1 [Hb1 Hm1]]]]]]].
  cbn [next st_push] in Hle1.
  assert (Hf2 : fresh_state (st_push st (o1 :: pre) n1 tr1)).
  { apply fresh_after_push; [exact Hf | exact Hle1|]. cbn [forallb]. rewrite Hb1. reflexivity. }
  destruct (Hnew _ ([TUPLE; NEWOBJ] ++ rest) Hf2) as [o2 [n2 [tr2 [Hr2 [Hd2 [Hle2 [Hb2 Hm2]]]]]]].
  cbn [next st_push] in Hle2.
  set (args := OTuple [OStr tag; OInt i1; OInt i2; OInt j1; OInt j2; o1; o2]).
  exists (OInst n2 KNewobj cls args []), (S n2), (ECall KNewobj cls args :: tr2).
  split; [|split; [|split; [|split]]].
  - cbn [app]. rewrite (run_step_next w st _ _ _ (step_enc_str w st HELPER)).
    rewrite (run_step_next w _ _ _ _ (step_enc_str w _ OPCODE)).
    rewrite (run_step_next w _ STACK_GLOBAL (push cls (emit (EResolve HELPER OPCODE) st))).
    2:{ cbn [step push set_stack stack pop1 is_mark]. unfold do_global. rewrite Hfc. destruct st; reflexivity. }
    rewrite (run_step_next w _ MARK _ _ eq_refl).
    rewrite (run_step_next w _ _ _ _ (step_enc_str w _ tag)).
    rewrite (run_step_next w _ _ _ _ (step_enc_int w _ i1)).
    rewrite (run_step_next w _ _ _ _ (step_enc_int w _ i2)).
    rewrite (run_step_next w _ _ _ _ (step_enc_int w _ j1)).
    rewrite (run_step_next w _ _ _ _ (step_enc_int w _ j2)).
    match goal with |- run w ?s _ = _ => change s with (st_push st pre (next st) tr0) end.
    rewrite <- !app_assoc. rewrite Hr1, st_push_push. cbn [app]. cbn [app] in Hr2. rewrite Hr2, st_push_push. cbn [app].
    unfold st_push. cbn [stack memo ecache app].
    change (o2 :: o1 :: pre ++ stack st)
      with (rev [OStr tag; OInt i1; OInt i2; OInt j1; OInt j2; o1; o2] ++ OMark :: cls :: stack st).
    rewrite tuple_closes.
    2:{ cbn. rewrite Hm1, Hm2. reflexivity. }
    apply run_step_next. subst args cls. cbn [step stack pop1 is_mark is_type].
    unfold do_call. rewrite (co_opcode w Hco). reflexivity.
  - cbn [decode cls args]. rewrite !pystr_eqb_refl. cbn [andb]. rewrite Hd1, Hd2. reflexivity.
  - lia.
  - assert (E1 : ids_below (S n2) o1 = true) by (apply (ids_below_mono n1); [lia | exact Hb1]).
    assert (E2 : ids_below (S n2) o2 = true) by (apply (ids_below_mono n2); [lia | exact Hb2]).
    subst args cls. cbn [ids_below forallb]. rewrite E1, E2. rewrite !andb_true_r. apply Nat.ltb_lt. lia.
  - reflexivity.
Qed.

(* the list part with its object explicit (needed under BUILD) *)
Definition list_prog (ps : list op) (xs : list pv) : list op :=
  match xs with [] => [EMPTY_LIST] | _ => (EMPTY_LIST :: MARK :: ps ++ [APPENDS])%list end.

Lemma list_explicit : forall w ps xs, pushes_all w ps xs ->
  forall st rest, fresh_state st ->
  exists os n' tr',
    run w st (list_prog ps xs ++ rest) = run w (st_push st [OList (next st) os] n' tr') rest /\
    Forall2 (fun o v => decode o = Some v) os xs /\ next st < n' /\ forallb (ids_below n') os = true.
Proof.
  intros w ps xs Hps st rest Hf. destruct xs as [|x xs'].
  - exists [], (S (next st)), (trace st). cbn [list_prog app]. split; [|split; [constructor | split; [lia | reflexivity]]].
    apply run_step_next. reflexivity.
  - destruct Hf as [Hs Hm]. set (i := next st) in *.
    assert (Hf2 : fresh_state (st_push st [OMark; OList i []] (S i) (trace st))).
    { apply fresh_after_push; [split; assumption | unfold i; lia|]. cbn [forallb ids_below].
      rewrite !andb_true_r. apply Nat.ltb_lt. lia. }
    destruct (Hps _ (APPENDS :: rest) Hf2) as [os [n' [tr' [Hr [Hd [Hle [Hb Hmk]]]]]]].
    exists os, n', tr'. cbn [next st_push] in Hle.
    split; [|split; [exact Hd | split; [unfold i in *; lia | exact Hb]]].
    cbn [list_prog app]. rewrite (run_step_next w st EMPTY_LIST (fresh (push (OList i []) st))) by reflexivity.
    rewrite (run_step_next w _ MARK (push OMark (fresh (push (OList i []) st)))) by reflexivity.
    rewrite <- app_assoc. cbn [app].
    change (push OMark (fresh (push (OList i []) st))) with (st_push st [OMark; OList i []] (S i) (trace st)).
    rewrite Hr. unfold st_push. cbn [stack memo ecache app].
    apply appends_closes; try assumption. apply (Forall2_length_ne _ _ _ _ _ Hd). discriminate.
Qed.

Lemma decode_setordered_eq : forall j i os,
  decode (OInst j KNewobj (OGlobal HELPER SETORDERED GType) (OTuple []) [OList i os])
  = option_map PSetOrdered (all_some (map decode os)).
Proof.
  intros j i os. cbn [decode].
  change (pystr_eqb HELPER HELPER) with true. change (pystr_eqb SETORDERED OPCODE) with false.
  change (pystr_eqb SETORDERED SETORDERED) with true. cbn [andb]. f_equal.
  induction os as [|o r IH]; cbn; [reflexivity|].
  rewrite IH. destruct (decode o); [|reflexivity]. destruct (all_some (map decode r)); reflexivity.
Qed.

Lemma pushes_setordered : forall w ps xs,
  calls_ok w -> find_class w HELPER SETORDERED = FCResolved GType -> pushes_all w ps xs ->
  pushes w ([enc_str HELPER; enc_str SETORDERED; STACK_GLOBAL; EMPTY_TUPLE; NEWOBJ] ++ list_prog ps xs ++ [BUILD])
           (PSetOrdered xs).
Proof.
  intros w ps xs Hco Hfc Hps st rest Hf.
  set (j := next st).
  set (tr0 := ECall KNewobj (OGlobal HELPER SETORDERED GType) (OTuple []) :: EResolve HELPER SETORDERED :: trace st).
  set (inst0 := OInst j KNewobj (OGlobal HELPER SETORDERED GType) (OTuple []) []).
  assert (Hf1 : fresh_state (st_push st [inst0] (S j) tr0)).
  { apply fresh_after_push; [exact Hf | unfold j; lia|]. subst inst0. cbn [forallb ids_below].
    rewrite !andb_true_r. apply Nat.ltb_lt. lia. }
  destruct (list_explicit w ps xs Hps _ (BUILD :: rest) Hf1) as [os [n' [tr' [Hr [Hd [Hlt Hb]]]]]].
  cbn [next st_push] in Hlt, Hr.
  set (lst := OList (S j) os) in *.
  exists (OInst j KNewobj (OGlobal HELPER SETORDERED GType) (OTuple []) [lst]), n', (EBuild inst0 lst :: tr').
  destruct Hf as [Hs Hm].
  split; [|split; [|split; [|split]]].
  - cbn [app]. rewrite (run_step_next w st _ _ _ (step_enc_str w st HELPER)).
    rewrite (run_step_next w _ _ _ _ (step_enc_str w _ SETORDERED)).
    rewrite (run_step_next w _ STACK_GLOBAL (push (OGlobal HELPER SETORDERED GType) (emit (EResolve HELPER SETORDERED) st))).
    2:{ cbn [step push set_stack stack pop1 is_mark]. unfold do_global. rewrite Hfc. destruct st; reflexivity. }
    rewrite (run_step_next w _ EMPTY_TUPLE _ _ eq_refl).
    rewrite (run_step_next w _ NEWOBJ (st_push st [inst0] (S j) tr0)).
    2:{ cbn [step push set_stack emit stack pop1 is_mark is_type]. unfold do_call. rewrite (co_setordered w Hco). reflexivity. }
    rewrite <- app_assoc. cbn [app] in Hr. cbn [app]. rewrite Hr.
    apply run_step_next. unfold st_push. cbn [step stack app pop1 is_mark]. subst lst inst0.
    cbn [pop1 is_mark]. rewrite (co_build w Hco).
    unfold mutate, emit, set_stack. cbn [stack memo next ecache trace map subst app].
    rewrite Nat.eqb_refl, (stack_subst_fresh _ _ _ Hs), (memo_subst_fresh _ _ _ Hm). reflexivity.
  - subst lst. rewrite decode_setordered_eq, (all_some_map_decode _ _ Hd). reflexivity.
  - unfold j in *. lia.
  - subst lst. cbn [ids_below forallb]. rewrite Hb. rewrite !andb_true_r.
    apply andb_true_iff. split; apply Nat.ltb_lt; unfold j in *; lia.
  - reflexivity.
Qed.

(** * the encoder's local fixpoints as list functions *)

Definition enc_kv (kv : atom * pv) : list op := enc_atom (fst kv) :: enc (snd kv).

Lemma encs_flat : forall r,
  (fix encs (xs : list pv) : list op :=
     match xs with [] => [] | x0 :: r0 => (enc x0 ++ encs r0)%list end) r = flat_map enc r.
Proof. induction r as [|y r IH]; [reflexivity|]. cbn [flat_map]. rewrite <- IH. reflexivity. Qed.
Lemma enckv_flat : forall r,
  (fix enckv (kvs : list (atom * pv)) : list op :=
     match kvs with [] => [] | (k, x) :: r0 => (enc_atom k :: enc x ++ enckv r0)%list end) r = flat_map enc_kv r.
Proof. induction r as [|[k y] r IH]; [reflexivity|]. cbn [flat_map]. rewrite <- IH. reflexivity. Qed.

Lemma enc_list_eq : forall xs, enc (PList xs) =
  match xs with [] => [EMPTY_LIST] | _ => (EMPTY_LIST :: MARK :: flat_map enc xs ++ [APPENDS])%list end.
Proof. intros [|x r]; [reflexivity|]. cbn [enc]. rewrite encs_flat. reflexivity. Qed.
Lemma enc_tuple_eq : forall xs, enc (PTuple xs) =
  match xs with [] => [EMPTY_TUPLE] | _ => (MARK :: flat_map enc xs ++ [TUPLE])%list end.
Proof. intros [|x r]; [reflexivity|]. cbn [enc]. rewrite encs_flat. reflexivity. Qed.
Lemma enc_dict_eq : forall kvs, enc (PDict kvs) =
  match kvs with [] => [EMPTY_DICT] | _ => (EMPTY_DICT :: MARK :: flat_map enc_kv kvs ++ [SETITEMS])%list end.
Proof. intros [|[k x] r]; [reflexivity|]. cbn [enc]. rewrite enckv_flat. reflexivity. Qed.
Lemma enc_setordered_eq : forall xs, enc (PSetOrdered xs) =
  ([enc_str HELPER; enc_str SETORDERED; STACK_GLOBAL; EMPTY_TUPLE; NEWOBJ]
   ++ list_prog (flat_map enc xs) xs ++ [BUILD])%list.
Proof. intros [|x r]; [reflexivity|]. cbn [enc list_prog]. rewrite encs_flat. reflexivity. Qed.

(** * the round trip *)

Lemma pushes_all_flat : forall w xs,
  Forall (fun x => pushes w (enc x) x) xs -> pushes_all w (flat_map enc xs) xs.
Proof.
  intros w xs H. induction H as [|x r Hx Hr IH]; cbn [flat_map]; [apply pushes_all_nil|].
  apply pushes_all_cons; assumption.
Qed.

Lemma pushes_kvs_flat : forall w (kvs : list (atom * pv)),
  Forall (fun kv => pushes w (enc (snd kv)) (snd kv)) kvs -> pushes_kvs w (flat_map enc_kv kvs) kvs.
Proof.
  intros w kvs H. induction H as [|[k x] r Hx Hr IH]; cbn [flat_map]; [apply pushes_kvs_nil|].
  unfold enc_kv at 1. cbn [fst snd]. cbn [app]. apply pushes_kvs_cons; assumption.
Qed.

Lemma Forall_wfp_types : forall w (P : pv -> Prop) xs,
  Forall (fun x => wfp x = true -> types_ok w x -> P x) xs ->
  forallb wfp xs = true -> (forall m n, In (m, n) (flat_map types_of xs) -> find_class w m n = FCResolved GType) ->
  Forall P xs.
Proof.
  intros w P xs H. induction H as [|x r Hx Hr IH]; intros Hw Ht; constructor.
  - cbn in Hw. apply andb_true_iff in Hw. apply Hx; [apply Hw|]. intros m n Hin. apply Ht. cbn. apply in_or_app. left. exact Hin.
  - cbn in Hw. apply andb_true_iff in Hw. apply IH; [apply Hw|]. intros m n Hin. apply Ht. cbn. apply in_or_app. right. exact Hin.
Qed.

Lemma Forall_wfp_types_kv : forall w (P : pv -> Prop) (kvs : list (atom * pv)),
  Forall (fun kv => wfp (snd kv) = true -> types_ok w (snd kv) -> P (snd kv)) kvs ->
  forallb (fun kv => wfp (snd kv)) kvs = true ->
  (forall m n, In (m, n) (flat_map (fun kv => types_of (snd kv)) kvs) -> find_class w m n = FCResolved GType) ->
  Forall (fun kv => P (snd kv)) kvs.
Proof.
  intros w P kvs H. induction H as [|x r Hx Hr IH]; intros Hw Ht; constructor.
  - cbn in Hw. apply andb_true_iff in Hw. apply Hx; [apply Hw|]. intros m n Hin. apply Ht. cbn. apply in_or_app. left. exact Hin.
  - cbn in Hw. apply andb_true_iff in Hw. apply IH; [apply Hw|]. intros m n Hin. apply Ht. cbn. apply in_or_app. right. exact Hin.
Qed.

Theorem enc_pushes : forall w, calls_ok w -> forall v, wfp v = true -> types_ok w v -> pushes w (enc v) v.
Proof.
  intros w Hco. induction v using pv_ind'; intros Hw Ht.
  - apply pushes_atom.
  - apply (pushes_const w _ (OFloat (FBits b))); auto.
  - (* list *) rewrite enc_list_eq. destruct xs as [|x r].
    + intros st rest Hf. exists (OList (next st) []), (S (next st)), (trace st).
      split; [apply run_step_next; reflexivity|].
      split; [reflexivity | split; [lia | split; [|reflexivity]]].
      cbn [ids_below forallb]. rewrite andb_true_r. apply Nat.ltb_lt. lia.
    + apply pushes_list; [discriminate|]. apply pushes_all_flat.
      apply (Forall_wfp_types w _ _ H); [exact Hw | exact Ht].
  - (* tuple *) rewrite enc_tuple_eq. destruct xs as [|x r].
    + apply (pushes_const w _ (OTuple [])); auto.
    + apply pushes_tuple; [discriminate|]. apply pushes_all_flat.
      apply (Forall_wfp_types w _ _ H); [exact Hw | exact Ht].
  - (* dict *) rewrite enc_dict_eq. cbn [wfp] in Hw. apply andb_true_iff in Hw. destruct Hw as [Hnd Hw].
    destruct kvs as [|kv r].
    + intros st rest Hf. exists (ODict (next st) []), (S (next st)), (trace st).
      split; [apply run_step_next; reflexivity|].
      split; [reflexivity | split; [lia | split; [|reflexivity]]].
      cbn [ids_below forallb]. rewrite andb_true_r. apply Nat.ltb_lt. lia.
    + apply pushes_dict; [discriminate | exact Hnd|]. apply pushes_kvs_flat.
      apply (Forall_wfp_types_kv w (fun v => pushes w (enc v) v) _ H); [exact Hw | exact Ht].
  - (* set *) destruct xs as [|a r].
    + intros st rest Hf. exists (OSet (next st) []), (S (next st)), (trace st).
      split; [apply run_step_next; reflexivity|].
      split; [reflexivity | split; [lia | split; [|reflexivity]]].
      cbn [ids_below forallb]. rewrite andb_true_r. apply Nat.ltb_lt. lia.
    + apply pushes_set; [discriminate | exact Hw].
  - (* frozenset *) apply pushes_frozen. exact Hw.
  - (* type *) apply pushes_type. apply Ht. left. reflexivity.
  - apply pushes_nonetype.
  - (* opcode *) cbn [wfp] in Hw. apply andb_true_iff in Hw. destruct Hw as [Hw1 Hw2].
    cbn [enc]. apply pushes_opcode.
    + exact Hco.
    + apply Ht. left. reflexivity.
    + apply IHv1; [exact Hw1|]. intros m n Hin. apply Ht. cbn. right. apply in_or_app. left. exact Hin.
    + apply IHv2; [exact Hw2|]. intros m n Hin. apply Ht. cbn. right. apply in_or_app. right. exact Hin.
  - (* SetOrdered *) rewrite enc_setordered_eq. apply pushes_setordered.
    + exact Hco.
    + apply Ht. left. reflexivity.
    + apply pushes_all_flat. apply (Forall_wfp_types w _ _ H); [exact Hw|].
      intros m n Hin. apply Ht. cbn. right. exact Hin.
Qed.

Lemma init_fresh : forall w, fresh_state (init w).
Proof. intro w. split; reflexivity. Qed.

(* pickle_load (canonical dump of d) = d, for every well-formed payload *)
Theorem pickle_roundtrip : forall w d,
  calls_ok w -> types_ok w d -> wfp d = true -> load w (enc_prog d) = Some d.
Proof.
  intros w d Hco Ht Hw. unfold load, enc_prog, vm_run.
  rewrite (run_step_next w (init w) (PROTO 4) (init w)) by reflexivity.
  rewrite (run_step_next w (init w) (FRAME 0) (init w)) by reflexivity.
  destruct (enc_pushes w Hco d Hw Ht (init w) [STOP] (init_fresh w)) as [o [n' [tr' [Hr [Hd [_ [_ Hm]]]]]]].
  rewrite Hr. cbn [run step st_push stack app pop1]. rewrite Hm. cbn. exact Hd.
Qed.

(** * consequences *)

(* the default process supports every payload whose class objects are on the
   built-in allow-list and loaded *)
Lemma default_calls_ok : calls_ok default_world.
Proof. constructor; intros; reflexivity. Qed.

Definition types_default_b (d : pv) : bool :=
  forallb (fun mn => match find_class default_world (fst mn) (snd mn) with FCResolved GType => true | _ => false end)
          (types_of d).
Lemma types_default_ok : forall d, types_default_b d = true -> types_ok default_world d.
Proof.
  intros d H m n Hin. unfold types_default_b in H. rewrite forallb_forall in H. specialize (H (m, n) Hin). cbn in H.
  destruct (find_class default_world m n) as [[| | |]| | |]; try discriminate. reflexivity.
Qed.

(* every canonical dump loads under the default allow-list: no ForbiddenModule, no other error *)
Theorem own_dumps_load : forall d, wfp d = true -> types_default_b d = true ->
  exists o tr, vm_run default_world (enc_prog d) = (Done o, tr) /\ decode o = Some d.
Proof.
  intros d Hw Ht.
  pose proof (pickle_roundtrip default_world d default_calls_ok (types_default_ok d Ht) Hw) as H.
  unfold load in H. destruct (vm_run default_world (enc_prog d)) as [out tr]. cbn in H.
  destruct out as [o|e]; [|discriminate]. exists o, tr. auto.
Qed.

(* passing safe_to_import (in any of its shapes) never stops Delta's own dumps from loading *)
Definition with_allow (al : list pystr) (w : world) : world :=
  mkWorld al (lookup w) (call_ok w) (build_ok w) (ext_cache0 w) (ext_registry w).

Theorem own_dumps_load_any_safe : forall (a : safe_arg) d, wfp d = true -> types_default_b d = true ->
  load (with_allow (effective_allow a) default_world) (enc_prog d) = Some d.
Proof.
  intros a d Hw Ht. apply pickle_roundtrip; [constructor; intros; reflexivity | | exact Hw].
  intros m n Hin. pose proof (types_default_ok d Ht m n Hin) as H.
  apply find_class_resolved in H. destruct H as [Ha Hl].
  apply (proj2 (find_class_exact (with_allow (effective_allow a) default_world) m n) GType).
  split; [|exact Hl]. cbn [allow with_allow]. apply effective_allow_spec. left. exact Ha.
Qed.

(* whatever a Delta does is a function of its payload (and constructor flags):
   the reloaded delta does the same on every base *)
Theorem same_behaviour : forall (B : Type) (behaviour : pv -> B) w d,
  calls_ok w -> types_ok w d -> wfp d = true ->
  option_map behaviour (load w (enc_prog d)) = Some (behaviour d).
Proof. intros B behaviour w d Hc Ht Hw. rewrite (pickle_roundtrip w d Hc Ht Hw). reflexivity. Qed.

(* dumping the reloaded delta again gives the same dump *)
Theorem redump_same : forall w d d', calls_ok w -> types_ok w d -> wfp d = true ->
  load w (enc_prog d) = Some d' -> enc_prog d' = enc_prog d /\ load w (enc_prog d') = Some d.
Proof.
  intros w d d' Hc Ht Hw H. rewrite (pickle_roundtrip w d Hc Ht Hw) in H. inversion H; subst.
  split; [reflexivity | apply pickle_roundtrip; assumption].
Qed.

(* non-vacuity: a payload with every kind of content meets the hypotheses *)
From Coq Require Import String.
Local Open Scope string_scope.
Definition sample_payload : pv :=
  PDict [(AStr (s2p "type_changes"),
          PDict [(AStr (s2p "root['a']"),
                  PDict [(AStr (s2p "old_type"), PNoneType); (AStr (s2p "new_type"), PType (s2p "builtins") (s2p "int"));
                         (AStr (s2p "old_value"), PAtom ANone); (AStr (s2p "new_value"), PAtom (AInt 1%Z))])]);
         (AStr (s2p "set_item_added"), PDict [(AStr (s2p "root['b']"), PSet [AInt 3%Z; AStr (s2p "x")])]);
         (AStr (s2p "iterable_items_added_at_indexes"),
          PDict [(AStr (s2p "root"), PDict [(AInt 0%Z, PTuple [PAtom (AHalf 3%Z); PAtom (ABytes (s2p "ab"))]);
                                            (AInt 2%Z, PFrozen [ABool true])])]);
         (AStr (s2p "_iterable_opcodes"),
          PDict [(AStr (s2p "root['c']"),
                  PList [POpcode (s2p "insert") 0 0 0 2 (PAtom ANone) (PList [PAtom (AInt 9%Z); PAtom (AInt 8%Z)]);
                         POpcode (s2p "equal") 0 4 2 6 (PAtom ANone) (PAtom ANone)])]);
         (AStr (s2p "x"), PSetOrdered [PAtom (AInt 1%Z)])].
Example sample_payload_ok : wfp sample_payload = true /\ types_default_b sample_payload = true.
Proof. vm_compute. split; reflexivity. Qed.
Example sample_payload_roundtrip : load default_world (enc_prog sample_payload) = Some sample_payload.
Proof. vm_compute. reflexivity. Qed.
Local Close Scope string_scope.

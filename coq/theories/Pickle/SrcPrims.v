(** Pickle/SrcPrims.v - statement-level primitives for the SOURCE TIE of C15 (harness/translate/unpickler.py).

    The translator turns the Python text of deepdiff/serialization.py
      SAFE_TO_IMPORT, _RestrictedUnpickler.__init__ / find_class / persistent_load, pickle_load
    into Gallina, one statement per line.  This file is the vocabulary those lines are written in: a small
    universe of Python values ([pyv]: what [safe_to_import], [content], [file_obj] can be), exceptions as a
    result type, and one primitive per Python expression form the translator accepts (str.format, `in`, truth
    value, isinstance, set(), `|`, sys.modules[...], getattr, kwargs.pop, str.encode, io.BytesIO, Unpickler.load).
    None of the functions the translator re-derives is used here ([find_class], [effective_allow],
    [persistent_load], [load_content] of Vm.v / Bytes.v are NOT mentioned, except that [unpickler_load], the
    model of the inherited C method pickle.Unpickler.load, is the hand-written machine [bytes_run]).

    Definitions only (facts: Pickle/SrcPrimsFacts.v). *)
From Coq Require Import List ZArith NArith Bool.
Import ListNotations.
From DD Require Import Base.PyStr Pickle.Vm Pickle.Bytes.

(** * Values *)
Inductive pyv :=
| VNone
| VStr (s : pystr)
| VBytes (b : list N)
| VList (l : list pyv)
| VTuple (l : list pyv)
| VSet (l : list pyv)                    (* members in some order; duplicates harmless *)
| VFrozenset (l : list pyv)
| VFile (b : list N).                    (* a binary file object positioned before the bytes [b] (io.BytesIO) *)

Inductive pycls := CStr | CBytes | CList | CTuple | CSet | CFrozenset.

(** * Exceptions *)
Inductive exc :=
| EKeyError
| EAttributeError
| ETypeError
| EValueError (msg : pystr)
| EModuleNotFound (msg : pystr)          (* deepdiff.serialization.ModuleNotFoundError *)
| EForbiddenModule (msg : pystr).        (* deepdiff.serialization.ForbiddenModule *)

Inductive res (A : Type) := Ret (a : A) | Raise (e : exc).
Arguments Ret {A} a.
Arguments Raise {A} e.

(** * Strings *)
(* template.format(a1, ..., ak) for a template whose only replacement fields are auto-numbered "{}" (the
   translator rejects any other brace); surplus fields format nothing *)
Fixpoint py_format (tpl : pystr) (args : list pystr) {struct tpl} : pystr :=
  match tpl with
  | [] => []
  | c :: r =>
      match r with
      | c2 :: r2 =>
          if (N.eqb c 123 && N.eqb c2 125)%bool then
            match args with
            | a :: args' => (a ++ py_format r2 args')%list
            | [] => py_format r2 []
            end
          else c :: py_format r args
      | [] => [c]
      end
  end.

(** * Truth value, isinstance, containers *)
Definition py_truth (v : pyv) : bool :=
  match v with
  | VNone => false
  | VStr [] => false | VStr _ => true
  | VBytes [] => false | VBytes _ => true
  | VList [] | VTuple [] | VSet [] | VFrozenset [] => false
  | VList _ | VTuple _ | VSet _ | VFrozenset _ => true
  | VFile _ => true
  end.

Definition cls_eqb (a b : pycls) : bool :=
  match a, b with
  | CStr, CStr | CBytes, CBytes | CList, CList | CTuple, CTuple | CSet, CSet | CFrozenset, CFrozenset => true
  | _, _ => false
  end.
Definition py_isinstance (v : pyv) (cs : list pycls) : bool :=
  match v with
  | VStr _ => existsb (cls_eqb CStr) cs
  | VBytes _ => existsb (cls_eqb CBytes) cs
  | VList _ => existsb (cls_eqb CList) cs
  | VTuple _ => existsb (cls_eqb CTuple) cs
  | VSet _ => existsb (cls_eqb CSet) cs
  | VFrozenset _ => existsb (cls_eqb CFrozenset) cs
  | VNone | VFile _ => false
  end.

(* what iterating over the value yields *)
Definition elems (v : pyv) : list pyv :=
  match v with
  | VList l | VTuple l | VSet l | VFrozenset l => l
  | VStr s => map (fun c => VStr [c]) s
  | _ => []                                (* bytes yield ints, which never equal a str; None / files: outside the domain *)
  end.
(* set(x) *)
Definition py_set (v : pyv) : pyv := VSet (elems v).
(* a | b : the type is that of the left operand *)
Definition py_or (a b : pyv) : pyv :=
  match a with
  | VFrozenset l => VFrozenset (l ++ elems b)
  | _ => VSet (elems a ++ elems b)
  end.

(* str == member: only a str equals a str *)
Definition str_eq_v (s : pystr) (v : pyv) : bool :=
  match v with VStr t => pystr_eqb s t | _ => false end.
(* key in container, for a str key *)
Definition py_in (key : pystr) (container : pyv) : bool :=
  match container with
  | VStr t => contains_sub key t
  | _ => existsb (str_eq_v key) (elems container)
  end.
(* the str members of a container: all a str key can ever be compared equal to *)
Definition strs_of (v : pyv) : list pystr :=
  flat_map (fun e => match e with VStr s => [s] | _ => [] end) (elems v).

(* kwargs.pop(key, default), [o] = the value passed under that key, if any *)
Definition py_kwargs_pop (o : option pyv) (default : pyv) : pyv :=
  match o with Some v => v | None => default end.

(** * The process: sys.modules and getattr *)
(* a module object, as getattr sees it *)
Definition modobj := pystr -> option gkind.
Definition process := pystr -> option modobj.

Definition sys_modules_getitem (p : process) (m : pystr) : res modobj :=
  match p m with Some mo => Ret mo | None => Raise EKeyError end.
Definition py_getattr (mo : modobj) (n : pystr) : res gkind :=
  match mo n with Some k => Ret k | None => Raise EAttributeError end.

(* the oracle [lookup] of a Vm.world that a process induces *)
Definition lookup_of (p : process) (m n : pystr) : lookup_res :=
  match p m with
  | None => NoModule
  | Some mo => match mo n with Some k => Found k | None => NoAttr end
  end.

(** * persistent_load works on the machine's objects *)
Definition obj_eq_str (o : obj) (s : pystr) : bool :=
  match o with OStr t => pystr_eqb t s | _ => false end.

(* `o is NONE_TYPE` / `o is type(None)`: in the machine's universe the class NoneType is the one term ONoneType;
   `o is None` *)
Definition obj_is_nonetype (o : obj) : bool := match o with ONoneType => true | _ => false end.
Definition obj_is_none (o : obj) : bool := match o with ONone => true | _ => false end.

(** * pickle_load *)
Definition py_encode_utf8 (v : pyv) : pyv :=
  match v with VStr s => VBytes (utf8_enc s) | _ => VNone end.
Definition py_BytesIO (v : pyv) : pyv :=
  match v with VBytes b => VFile b | _ => VNone end.

(* everything else the load depends on *)
Record env := mkEnv {
  e_proc : process;
  e_call_ok : ckind -> obj -> obj -> bool;
  e_build_ok : obj -> obj -> bool;
  e_ext_cache0 : list (Z * obj);
  e_ext_registry : Z -> option (pystr * pystr);
  e_dialect : dialect
}.
(* the Vm.world of an unpickler whose self.safe_to_import is [allow_v] *)
Definition world_of (e : env) (allow_v : pyv) : world :=
  mkWorld (strs_of allow_v) (lookup_of (e_proc e)) (e_call_ok e) (e_build_ok e) (e_ext_cache0 e) (e_ext_registry e).
(* pickle.Unpickler.load (inherited, C): the hand-written machine of Vm.v / Bytes.v *)
Definition unpickler_load (e : env) (allow_v : pyv) (file : pyv) : res result :=
  match file with
  | VFile b => Ret (bytes_run (world_of e allow_v) (e_dialect e) b)
  | _ => Raise ETypeError
  end.

(** * Reading generated results back into the hand model's result types *)
Definition fc_of (r : res gkind) : option fc_res :=
  match r with
  | Ret k => Some (FCResolved k)
  | Raise (EForbiddenModule _) => Some FCForbidden
  | Raise (EModuleNotFound _) => Some FCNoModule
  | Raise EAttributeError => Some FCNoAttr
  | Raise _ => None
  end.
Definition result_of (r : res result) : option result :=
  match r with
  | Ret x => Some x
  | Raise (EValueError _) => Some (Err BadArg, [])
  | Raise _ => None
  end.

(* the shapes of safe_to_import the hand model distinguishes, as Python values; [c] = the iterable's class *)
Definition mk_iter (c : pycls) (l : list pyv) : pyv :=
  match c with
  | CList => VList l | CTuple => VTuple l | CSet => VSet l | CFrozenset => VFrozenset l
  | CStr | CBytes => VList l
  end.
Definition arg_of (c : pycls) (a : safe_arg) : pyv :=
  match a with
  | SafeNone => VNone
  | SafeStr s => VStr s
  | SafeIter l => mk_iter c (map VStr l)
  end.

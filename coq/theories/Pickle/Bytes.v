(** Pickle/Bytes.v - the byte layer under the opcode machine of Pickle/Vm.v.

    What  pickle_load(content)  =  _RestrictedUnpickler(io.BytesIO(content)).load()
    does with the BYTES before an opcode reaches the machine (Modules/_pickle.c,
    CPython 3.12; all 68 opcodes of protocols 0-5):

      [rd]          the unpickler's input: the current frame buffer and the file
                    behind it.  _Unpickler_Read(n): from the buffer when it holds n
                    bytes, otherwise WHAT IS LEFT OF THE BUFFER IS DROPPED and n fresh
                    bytes are read from the file; _Unpickler_Readline likewise;
                    _Unpickler_ReadInto (bytes / bytearray payloads) continues from
                    the buffer into the file; FRAME n makes the next n bytes the
                    buffer (a no-op when they are inside the current buffer).
      [spec_of]     opcode byte -> shape of its argument (nothing, k raw bytes, one
                    or two newline-terminated lines, a little-endian count followed
                    by that many bytes, a frame header)
      [build_op]    opcode byte + raw argument -> [Vm.op] (little-endian / two's
                    complement numbers, IEEE doubles, UTF-8 with surrogatepass,
                    raw-unicode-escape, ASCII, canonical decimal text)
      [bdecode]     bytes -> the opcodes up to and including the first STOP, or up to
                    the first opcode that cannot be decoded, with the reason
      [bytes_run]   the machine of Vm.v on the decoded opcodes; when it runs off the
                    decoded prefix the load ends with the decoding error.

    A [dialect] collects what differs between readers of the format: CPython's C
    unpickler ([c_dialect]) and pickletools.genops (built from tables by
    PickleShow).  Number TEXT outside the canonical decimal syntax (strtol /
    PyLong_FromString / PyOS_string_to_double details) and STRING escapes are
    oracles ([textw]); every theorem quantifies over them.

    [enc_op] / [enc_ops] is the assembler (one encoding per opcode);
    [dump_bytes] the canonical protocol-4 dump of a payload as bytes.

    Definitions only. *)
From Coq Require Import List ZArith NArith Bool Arith.
Import ListNotations.
From DD Require Import Base.PyStr Path.PathModel Path.PathLex Pickle.Vm Pickle.Codec.
Local Open Scope N_scope.

(** * Numbers *)

(* little-endian unsigned *)
Fixpoint le_N (l : list N) : N :=
  match l with [] => 0 | b :: r => b + 256 * le_N r end.
(* two's complement reading of a [bits]-bit unsigned number *)
Definition signed (bits : N) (v : N) : Z :=
  if v <? 2 ^ (bits - 1) then Z.of_N v else (Z.of_N v - Z.of_N (2 ^ bits))%Z.
(* big-endian unsigned (BINFLOAT) *)
Fixpoint be_N (acc : N) (l : list N) : N :=
  match l with [] => acc | b :: r => be_N (acc * 256 + b) r end.

(* _PyLong_FromByteArray(little_endian, signed), any length; the empty string is 0 *)
Fixpoint long_of_bytes (l : list N) : Z :=
  match l with
  | [] => 0%Z
  | b :: r =>
      match r with
      | [] => if b <? 128 then Z.of_N b else (Z.of_N b - 256)%Z
      | _ => (Z.of_N b + 256 * long_of_bytes r)%Z
      end
  end.

(* an IEEE-754 double given by its 64 bits, in the model's float vocabulary:
   [FHalf t] for t/2 with |t| < 2^53 (not -0.0), [FBits] otherwise *)
Definition fl_of_bits (b : N) : fl :=
  let sgn := b / 2 ^ 63 in
  let e := (b / 2 ^ 52) mod 2048 in
  let m := b mod 2 ^ 52 in
  if b =? 0 then FHalf 0
  else if (e =? 0) || (e =? 2047) || (1074 <? e) then FBits (Z.of_N b)
  else
    let sig := 2 ^ 52 + m in
    let sh := 2 ^ (1074 - e) in
    if sig mod sh =? 0
    then FHalf (if sgn =? 0 then Z.of_N (sig / sh) else (- Z.of_N (sig / sh))%Z)
    else FBits (Z.of_N b).

(** * Text *)

Definition all_ascii (l : list N) : bool := forallb (fun c => c <? 128) l.
Definition nonempty (l : list N) : bool := match l with [] => false | _ => true end.

(* UTF-8; [sp] = the surrogatepass error handler (BINUNICODE family), strict otherwise (GLOBAL; the INST lines are ASCII-strict: [c_iname]) *)
Definition cont (b : N) : bool := (128 <=? b) && (b <? 192).
Fixpoint utf8_dec (sp : bool) (l : list N) {struct l} : option (list N) :=
  match l with
  | [] => Some []
  | b0 :: t =>
      if b0 <? 128 then option_map (cons b0) (utf8_dec sp t)
      else if b0 <? 194 then None
      else if b0 <? 224 then
        match t with
        | b1 :: t1 =>
            if cont b1 then option_map (cons ((b0 - 192) * 64 + (b1 - 128))) (utf8_dec sp t1) else None
        | _ => None
        end
      else if b0 <? 240 then
        match t with
        | b1 :: b2 :: t2 =>
            let c := (b0 - 224) * 4096 + (b1 - 128) * 64 + (b2 - 128) in
            if cont b1 && cont b2 && (2048 <=? c) && (sp || negb ((55296 <=? c) && (c <? 57344)))
            then option_map (cons c) (utf8_dec sp t2) else None
        | _ => None
        end
      else if b0 <? 245 then
        match t with
        | b1 :: b2 :: b3 :: t3 =>
            let c := (b0 - 240) * 262144 + (b1 - 128) * 4096 + (b2 - 128) * 64 + (b3 - 128) in
            if cont b1 && cont b2 && cont b3 && (65536 <=? c) && (c <? 1114112)
            then option_map (cons c) (utf8_dec sp t3) else None
        | _ => None
        end
      else None
  end.

(* the raw-unicode-escape codec (UNICODE): latin-1 except \uXXXX and \UXXXXXXXX *)
Definition hexv (c : N) : option N :=
  if (48 <=? c) && (c <=? 57) then Some (c - 48)
  else if (97 <=? c) && (c <=? 102) then Some (c - 87)
  else if (65 <=? c) && (c <=? 70) then Some (c - 55)
  else None.
Fixpoint hexs (acc : N) (l : list N) : option N :=
  match l with
  | [] => Some acc
  | c :: r => match hexv c with Some v => hexs (acc * 16 + v) r | None => None end
  end.
Fixpoint rue_dec (l : list N) {struct l} : option (list N) :=
  match l with
  | [] => Some []
  | c :: t =>
      if negb (c =? 92) then option_map (cons c) (rue_dec t)
      else
        match t with
        | [] => Some [92]                               (* a trailing backslash is literal *)
        | e :: t' =>
            if e =? 117 then                            (* \uXXXX *)
              match t' with
              | h1 :: h2 :: h3 :: h4 :: r =>
                  match hexs 0 [h1; h2; h3; h4] with
                  | Some ch => option_map (cons ch) (rue_dec r)
                  | None => None
                  end
              | _ => None
              end
            else if e =? 85 then                        (* \UXXXXXXXX *)
              match t' with
              | h1 :: h2 :: h3 :: h4 :: h5 :: h6 :: h7 :: h8 :: r =>
                  match hexs 0 [h1; h2; h3; h4; h5; h6; h7; h8] with
                  | Some ch => if ch <? 1114112 then option_map (cons ch) (rue_dec r) else None
                  | None => None
                  end
              | _ => None
              end
            else option_map (fun x => 92 :: e :: x) (rue_dec t')
        end
  end.

(* canonical decimal text: 0 | -?[1-9][0-9]* *)
Definition canon_digits (l : list N) : bool :=
  match l with
  | [] => false
  | c :: r => match r with
              | [] => is_digit c
              | _ => negb (c =? 48) && forallb is_digit l
              end
  end.
Definition canon_dec (l : list N) : option Z :=
  match l with
  | c :: r =>
      if c =? 45 then
        match r with
        | d :: _ => if negb (d =? 48) && canon_digits r then Some (- Z.of_N (dval 0 r))%Z else None
        | [] => None
        end
      else if canon_digits l then Some (Z.of_N (dval 0 l)) else None
  | [] => None
  end.

(** * Oracles and dialects *)

Inductive intres := IRInt (z : Z) | IRBool (b : bool).

(* what the C library functions make of text outside the canonical forms;
   None = the opcode raises *)
Record textw := mkTextw {
  tx_int : list N -> option intres;        (* load_int: strtol(base 0), then PyLong_FromString(base 0) *)
  tx_long : list N -> option Z;            (* load_long: trailing L removed, PyLong_FromString(base 0) *)
  tx_idx : list N -> option Z;             (* load_get / load_put: PyLong_FromString(base 10) *)
  tx_float : list N -> option fl;          (* load_float: PyOS_string_to_double *)
  tx_string : list N -> option pystr       (* load_string with escapes: PyBytes_DecodeEscape, then ASCII *)
}.
Definition no_text : textw :=
  mkTextw (fun _ => None) (fun _ => None) (fun _ => None) (fun _ => None) (fun _ => None).

Record dialect := mkDialect {
  dl_framed : bool;                        (* FRAME buffers its bytes (C unpickler) / is skipped (pickletools) *)
  dl_ne : bool;                            (* an empty line is "pickle data was truncated" (C: len < 2) *)
  dl_int : list N -> option intres;        (* INT line, newline removed *)
  dl_long : list N -> option Z;            (* LONG *)
  dl_idx : list N -> option Z;             (* GET / PUT *)
  dl_float : list N -> option fl;          (* FLOAT *)
  dl_name : list N -> option pystr;        (* each of the two lines of GLOBAL *)
  dl_iname : list N -> option pystr;       (* each of the two lines of INST *)
  dl_pid : list N -> option pystr;         (* PERSID *)
  dl_utext : list N -> option pystr;       (* UNICODE *)
  dl_string : list N -> option pystr;      (* STRING, quotes included *)
  dl_binstr : list N -> option pystr       (* BINSTRING / SHORT_BINSTRING payload *)
}.

Definition strip_L (l : list N) : list N :=
  match rev l with
  | c :: r => if c =? 76 then rev r else l
  | [] => l
  end.

Definition c_int (t : textw) (l : list N) : option intres :=
  match l with
  | [a; b] =>
      if (a =? 48) && (b =? 48) then Some (IRBool false)          (* I00 *)
      else if (a =? 48) && (b =? 49) then Some (IRBool true)      (* I01 *)
      else match canon_dec l with Some z => Some (IRInt z) | None => tx_int t l end
  | _ => match canon_dec l with Some z => Some (IRInt z) | None => tx_int t l end
  end.
Definition c_long (t : textw) (l : list N) : option Z :=
  match canon_dec (strip_L l) with Some z => Some z | None => tx_long t l end.
Definition c_idx (t : textw) (l : list N) : option Z :=
  if nonempty l && forallb is_digit l then Some (Z.of_N (dval 0 l)) else tx_idx t l.
Definition c_name (l : list N) : option pystr := utf8_dec false l.
(* load_inst: PyUnicode_DecodeASCII(.., "strict") on both lines ("the INST opcode is only supported by older
   protocols on Python 2.x"), unlike load_global's PyUnicode_DecodeUTF8: a byte >= 128 in the module or the
   class line is UnicodeDecodeError BEFORE find_class is called (pickle.py: .decode("ascii") likewise) *)
Definition c_iname (l : list N) : option pystr := if all_ascii l then Some l else None.
Definition c_pid (l : list N) : option pystr := if all_ascii l then Some l else None.
Definition plain_ascii (l : list N) : bool := forallb (fun c => (c <? 128) && negb (c =? 92)) l.
Definition c_string (t : textw) (l : list N) : option pystr :=
  match l with
  | q :: r =>
      match rev r with
      | q' :: body_rev =>
          if (q =? q') && ((q =? 39) || (q =? 34)) then
            let body := rev body_rev in
            if plain_ascii body then Some body else tx_string t l
          else None                          (* the STRING opcode argument must be quoted *)
      | [] => None
      end
  | [] => None
  end.
Definition c_binstr (l : list N) : option pystr := if all_ascii l then Some l else None.

(* Modules/_pickle.c *)
Definition c_dialect (t : textw) : dialect :=
  mkDialect true true (c_int t) (c_long t) (c_idx t) (tx_float t) c_name c_iname c_pid rue_dec (c_string t) c_binstr.

(** * The reader *)

Fixpoint take (n : N) (l : list N) {struct l} : option (list N * list N) :=
  match l with
  | [] => if n =? 0 then Some ([], []) else None
  | x :: r =>
      if n =? 0 then Some ([], l)
      else match take (N.pred n) r with
           | Some (a, b) => Some (x :: a, b)
           | None => None
           end
  end.
(* up to the first newline (removed) and the rest *)
Fixpoint split_nl (l : list N) : option (list N * list N) :=
  match l with
  | [] => None
  | x :: r =>
      if x =? 10 then Some ([], r)
      else match split_nl r with
           | Some (a, b) => Some (x :: a, b)
           | None => None
           end
  end.

(* [rskip]: some bytes of a frame were dropped (the reader left the sequential order) *)
Record rd := mkRd { rbuf : list N; rfile : list N; rskip : bool }.

Inductive dend :=
| DStop                  (* STOP was decoded *)
| DEof                   (* no byte where an opcode is expected: EOFError "Ran out of input" *)
| DTrunc                 (* an argument runs past the end, or a line has no newline / is empty:
                            UnpicklingError "pickle data was truncated" *)
| DBadOpcode (b : N)     (* UnpicklingError "invalid load key" *)
| DBadArg                (* the argument cannot be decoded (negative count, number text, UTF-8, quotes ...) *)
| DTooBig                (* a length above sys.maxsize: OverflowError *)
| DFuel.                 (* never (BytesProofs.bdecode_no_fuel) *)

Inductive rres (A : Type) := ROk (a : A) (r : rd) | RErr (e : dend) (skip : bool).
Arguments ROk {A} a r.
Arguments RErr {A} e skip.
Definition M (A : Type) := rd -> rres A.
Definition ret {A : Type} (a : A) : M A := fun r => ROk a r.
Definition fail {A : Type} (e : dend) : M A := fun r => RErr e (rskip r).
Definition bind {A B : Type} (m : M A) (k : A -> M B) : M B :=
  fun r => match m r with ROk a r' => k a r' | RErr e s => RErr e s end.

(* _Unpickler_Read(n) *)
Definition rd_read (n : N) : M (list N) := fun r =>
  match take n (rbuf r) with
  | Some (a, b) => ROk a (mkRd b (rfile r) (rskip r))
  | None =>
      let s := rskip r || nonempty (rbuf r) in
      match take n (rfile r) with
      | Some (a, f) => ROk a (mkRd [] f s)
      | None => RErr DTrunc s
      end
  end.
(* _Unpickler_Readline, newline removed *)
Definition rd_line : M (list N) := fun r =>
  match split_nl (rbuf r) with
  | Some (a, b) => ROk a (mkRd b (rfile r) (rskip r))
  | None =>
      let s := rskip r || nonempty (rbuf r) in
      match split_nl (rfile r) with
      | Some (a, f) => ROk a (mkRd [] f s)
      | None => RErr DTrunc s
      end
  end.
(* _Unpickler_ReadInto(n): the buffer first, the rest from the file *)
Definition rd_into (n : N) : M (list N) := fun r =>
  match take n (rbuf r) with
  | Some (a, b) => ROk a (mkRd b (rfile r) (rskip r))
  | None =>
      match take (n - N.of_nat (List.length (rbuf r))) (rfile r) with
      | Some (a, f) => ROk (rbuf r ++ a)%list (mkRd [] f (rskip r))
      | None => RErr DTrunc (rskip r)
      end
  end.
(* load_frame: read n bytes and rewind *)
Definition rd_frame (framed : bool) (n : N) : M unit := fun r =>
  if framed then
    match take n (rbuf r) with
    | Some _ => ROk tt r
    | None =>
        let s := rskip r || nonempty (rbuf r) in
        match take n (rfile r) with
        | Some (a, f) => ROk tt (mkRd a f s)
        | None => RErr DTrunc s
        end
    end
  else ROk tt r.
(* the opcode byte *)
Definition fetch : M N := fun r =>
  match rbuf r with
  | b :: t => ROk b (mkRd t (rfile r) (rskip r))
  | [] => match rfile r with
          | b :: f => ROk b (mkRd [] f (rskip r))
          | [] => RErr DEof (rskip r)
          end
  end.

(** * Opcode table *)

Inductive aspec :=
| SNo                                   (* no argument *)
| SRaw (k : N)                          (* k bytes *)
| SLine (ne : bool)                     (* one line; ne: must not be empty *)
| SLine2 (ne : bool)                    (* two lines *)
| SCounted (k : N) (sgn into : bool)    (* k-byte little-endian count (sgn: signed, negative rejected), then that
                                           many bytes (into: through _Unpickler_ReadInto) *)
| SFrame.                               (* 8-byte length; the frame is buffered *)

Inductive raw := RNo | RData (l : list N) | RLine (l : list N) | RLine2 (l1 l2 : list N) | RNum (n : N).

Definition MAXSIZE : N := 2 ^ 63 - 1.   (* PY_SSIZE_T_MAX *)

Definition spec_of (d : dialect) (b : N) : option aspec :=
  match b with
  | 40 | 46 | 48 | 49 | 50 | 78 | 81 | 82 | 97 | 98 | 100 | 125 | 101 | 108 | 93 | 111 | 115 | 116 | 41 | 117
  | 129 | 133 | 134 | 135 | 136 | 137 | 143 | 144 | 145 | 146 | 147 | 148 | 151 | 152 => Some SNo
  | 75 | 104 | 113 | 128 | 130 => Some (SRaw 1)
  | 77 | 131 => Some (SRaw 2)
  | 74 | 106 | 114 | 132 => Some (SRaw 4)
  | 71 => Some (SRaw 8)
  | 70 | 73 | 76 | 103 | 112 => Some (SLine (dl_ne d))
  | 80 | 83 | 86 => Some (SLine false)          (* PERSID, STRING, UNICODE: load_persid checks len < 1 only *)
  | 99 | 105 => Some (SLine2 (dl_ne d))
  | 84 => Some (SCounted 4 true false)
  | 85 | 140 | 138 => Some (SCounted 1 false false)
  | 88 => Some (SCounted 4 false false)
  | 139 => Some (SCounted 4 true false)
  | 141 => Some (SCounted 8 false false)
  | 66 => Some (SCounted 4 false true)
  | 67 => Some (SCounted 1 false true)
  | 142 | 150 => Some (SCounted 8 false true)
  | 149 => Some SFrame
  | _ => None
  end.

Definition line_ne (ne : bool) : M (list N) :=
  bind rd_line (fun l => if ne && negb (nonempty l) then fail DTrunc else ret l).

Definition read_arg (framed : bool) (sp : aspec) : M raw :=
  match sp with
  | SNo => ret RNo
  | SRaw k => bind (rd_read k) (fun l => ret (RData l))
  | SLine ne => bind (line_ne ne) (fun l => ret (RLine l))
  | SLine2 ne => bind (line_ne ne) (fun l1 => bind (line_ne ne) (fun l2 => ret (RLine2 l1 l2)))
  | SCounted k sgn into =>
      bind (rd_read k) (fun c =>
        let n := le_N c in
        if sgn && (2 ^ (8 * k - 1) <=? n) then fail DBadArg
        else if MAXSIZE <? n then fail DTooBig
        else bind (if into then rd_into n else rd_read n) (fun l => ret (RData l)))
  | SFrame =>
      bind (rd_read 8) (fun c =>
        let n := le_N c in
        if framed && (MAXSIZE <? n) then fail DTooBig          (* pickletools has no such limit *)
        else bind (rd_frame framed n) (fun _ => ret (RNum n)))
  end.

Definition zle (l : list N) : Z := Z.of_N (le_N l).

Definition build_op (d : dialect) (b : N) (a : raw) : option op :=
  match a with
  | RNo =>
      match b with
      | 40 => Some MARK | 46 => Some STOP | 48 => Some POP | 49 => Some POP_MARK | 50 => Some DUP
      | 78 => Some NONE | 81 => Some BINPERSID | 82 => Some REDUCE | 97 => Some APPEND | 98 => Some BUILD
      | 100 => Some DICT | 125 => Some EMPTY_DICT | 101 => Some APPENDS | 108 => Some LIST | 93 => Some EMPTY_LIST
      | 111 => Some OBJ | 115 => Some SETITEM | 116 => Some TUPLE | 41 => Some EMPTY_TUPLE | 117 => Some SETITEMS
      | 129 => Some NEWOBJ | 133 => Some TUPLE1 | 134 => Some TUPLE2 | 135 => Some TUPLE3
      | 136 => Some NEWTRUE | 137 => Some NEWFALSE | 143 => Some EMPTY_SET | 144 => Some ADDITEMS
      | 145 => Some FROZENSET | 146 => Some NEWOBJ_EX | 147 => Some STACK_GLOBAL | 148 => Some MEMOIZE
      | 151 => Some NEXT_BUFFER | 152 => Some READONLY_BUFFER
      | _ => None
      end
  | RData l =>
      match b with
      | 74 => Some (BININT (signed 32 (le_N l)))
      | 75 => Some (BININT1 (zle l))
      | 77 => Some (BININT2 (zle l))
      | 104 => Some (BINGET (zle l))
      | 106 => Some (LONG_BINGET (zle l))
      | 113 => Some (BINPUT (zle l))
      | 114 => Some (LONG_BINPUT (zle l))
      | 128 => Some (PROTO (zle l))
      | 130 => Some (EXT1 (zle l))
      | 131 => Some (EXT2 (zle l))
      | 132 => Some (EXT4 (signed 32 (le_N l)))
      | 71 => Some (BINFLOAT (fl_of_bits (be_N 0 l)))
      | 84 => option_map BINSTRING (dl_binstr d l)
      | 85 => option_map SHORT_BINSTRING (dl_binstr d l)
      | 88 => option_map BINUNICODE (utf8_dec true l)
      | 140 => option_map SHORT_BINUNICODE (utf8_dec true l)
      | 141 => option_map BINUNICODE8 (utf8_dec true l)
      | 66 => Some (BINBYTES l)
      | 67 => Some (SHORT_BINBYTES l)
      | 142 => Some (BINBYTES8 l)
      | 150 => Some (BYTEARRAY8 l)
      | 138 => Some (LONG1 (long_of_bytes l))
      | 139 => Some (LONG4 (long_of_bytes l))
      | _ => None
      end
  | RLine l =>
      match b with
      | 70 => option_map FLOAT (dl_float d l)
      | 73 => match dl_int d l with
              | Some (IRInt z) => Some (INT z)
              | Some (IRBool v) => Some (INTB v)
              | None => None
              end
      | 76 => option_map LONG (dl_long d l)
      | 80 => option_map PERSID (dl_pid d l)
      | 83 => option_map STRING (dl_string d l)
      | 86 => option_map UNICODE (dl_utext d l)
      | 103 => option_map GET (dl_idx d l)
      | 112 => option_map PUT (dl_idx d l)
      | _ => None
      end
  | RLine2 l1 l2 =>
      match b with
      | 99 => match dl_name d l1, dl_name d l2 with
              | Some m, Some n => Some (GLOBAL m n)
              | _, _ => None
              end
      | 105 => match dl_iname d l1, dl_iname d l2 with
               | Some m, Some n => Some (INST m n)
               | _, _ => None
               end
      | _ => None
      end
  | RNum n =>
      match b with
      | 149 => Some (FRAME (Z.of_N n))
      | _ => None
      end
  end.

(* one opcode *)
Definition decode_op (d : dialect) : M op :=
  bind fetch (fun b =>
    match spec_of d b with
    | None => fail (DBadOpcode b)
    | Some sp =>
        bind (read_arg (dl_framed d) sp) (fun a =>
          match build_op d b a with
          | Some o => ret o
          | None => fail DBadArg
          end)
    end).

Definition is_stop (o : op) : bool := match o with STOP => true | _ => false end.

(* the opcodes up to the first STOP (included) or the first undecodable one
   (excluded); why decoding ended; whether bytes were skipped *)
Fixpoint decode_loop (d : dialect) (fuel : nat) (r : rd) : list op * dend * bool :=
  match fuel with
  | O => ([], DFuel, rskip r)
  | S f =>
      match decode_op d r with
      | ROk o r' =>
          if is_stop o then ([o], DStop, rskip r')
          else let '(ops, e, s) := decode_loop d f r' in (o :: ops, e, s)
      | RErr e s => ([], e, s)
      end
  end.

Definition start (bs : list N) : rd := mkRd [] bs false.
Definition bdecode (d : dialect) (bs : list N) : list op * dend * bool :=
  decode_loop d (S (List.length bs)) (start bs).
Definition bdecode_ops (d : dialect) (bs : list N) : list op := fst (fst (bdecode d bs)).
Definition bdecode_end (d : dialect) (bs : list N) : dend := snd (fst (bdecode d bs)).
(* pickletools.genops view: the whole opcode list, if the stream is well-formed up to a STOP *)
Definition bdecode_opt (d : dialect) (bs : list N) : option (list op) :=
  match bdecode d bs with
  | (ops, DStop, _) => Some ops
  | _ => None
  end.

(** * The machine on bytes *)

Definition end_err (e : dend) : err :=
  match e with
  | DEof => Truncated
  | DTrunc => Malformed 1
  | DBadOpcode _ => Malformed 2
  | DBadArg => Malformed 3
  | DTooBig => Malformed 4
  | DStop | DFuel => Truncated
  end.
(* running off the decoded prefix = reaching the undecodable opcode *)
Definition finish (e : dend) (r : result) : result :=
  match r with
  | (Err Truncated, tr) => (Err (end_err e), tr)
  | _ => r
  end.
Definition bytes_run (w : world) (d : dialect) (bs : list N) : result :=
  finish (bdecode_end d bs) (vm_run w (bdecode_ops d bs)).
(* pickle_load(content): empty content is refused before any unpickler exists
   ("Please either pass the content or the file_obj to pickle_load": ValueError) *)
Definition load_content (w : world) (d : dialect) (bs : list N) : result :=
  match bs with
  | [] => (Err BadArg, [])
  | _ => bytes_run w d bs
  end.
(* ... as a payload *)
Definition load_bytes (w : world) (d : dialect) (bs : list N) : option pv :=
  match load_content w d bs with
  | (Done o, _) => decode o
  | _ => None
  end.

(** * The assembler *)

Fixpoint le_bytes (k : nat) (n : N) : list N :=
  match k with O => [] | S k' => (n mod 256) :: le_bytes k' (n / 256) end.
Definition le_Z (k : nat) (z : Z) : list N := le_bytes k (Z.to_N (z mod Z.of_N (2 ^ (8 * N.of_nat k)))).

Definition utf8_enc_cp (c : N) : list N :=
  if c <? 128 then [c]
  else if c <? 2048 then [192 + c / 64; 128 + c mod 64]
  else if c <? 65536 then [224 + c / 4096; 128 + (c / 64) mod 64; 128 + c mod 64]
  else [240 + c / 262144; 128 + (c / 4096) mod 64; 128 + (c / 64) mod 64; 128 + c mod 64].
Definition utf8_enc (s : pystr) : list N := flat_map utf8_enc_cp s.

(* shortest two's complement, little-endian (pickle.encode_long up to its trimming of one case) *)
Fixpoint long_bytes (fuel : nat) (z : Z) : list N :=
  match fuel with
  | O => []
  | S f =>
      if ((-128 <=? z) && (z <? 128))%Z then [Z.to_N (z mod 256)]
      else Z.to_N (z mod 256) :: long_bytes f (z / 256)
  end.
Definition enc_long (z : Z) : list N :=
  if (z =? 0)%Z then [] else long_bytes (S (Z.to_nat (Z.log2 (Z.abs z)))) z.

(* the 64 bits of t/2 *)
Definition bits_of_half (t : Z) : N :=
  if (t =? 0)%Z then 0
  else
    let a := Z.to_N (Z.abs t) in
    let p := N.log2 a in
    (if (t <? 0)%Z then 2 ^ 63 else 0) + (p + 1022) * 2 ^ 52 + (a * 2 ^ (52 - p) - 2 ^ 52).
Definition be_bytes8 (n : N) : list N := rev (le_bytes 8 n).
Definition enc_fl (f : fl) : list N :=
  be_bytes8 (match f with FHalf t => bits_of_half t | FBits b => Z.to_N b end).

Definition len (l : list N) : N := N.of_nat (List.length l).
Definition counted (k : nat) (l : list N) : list N := (le_bytes k (len l) ++ l)%list.
Definition line (l : list N) : list N := (l ++ [10])%list.

Definition enc_op (o : op) : list N :=
  match o with
  | PROTO n => 128 :: le_Z 1 n
  | FRAME n => 149 :: le_Z 8 n
  | STOP => [46] | POP => [48] | POP_MARK => [49] | DUP => [50] | MARK => [40]
  | MEMOIZE => [148]
  | PUT i => 112 :: line (p_of_Z i)
  | BINPUT i => 113 :: le_Z 1 i
  | LONG_BINPUT i => 114 :: le_Z 4 i
  | GET i => 103 :: line (p_of_Z i)
  | BINGET i => 104 :: le_Z 1 i
  | LONG_BINGET i => 106 :: le_Z 4 i
  | NONE => [78] | NEWTRUE => [136] | NEWFALSE => [137]
  | INT z => 73 :: line (p_of_Z z)
  | INTB b => 73 :: line [48; if b then 49 else 48]
  | BININT z => 74 :: le_Z 4 z
  | BININT1 z => 75 :: le_Z 1 z
  | BININT2 z => 77 :: le_Z 2 z
  | LONG z => 76 :: line (p_of_Z z ++ [76])
  | LONG1 z => 138 :: counted 1 (enc_long z)
  | LONG4 z => 139 :: counted 4 (enc_long z)
  | FLOAT f => 70 :: line []                       (* text floats have no assembler here (enc_ok = false) *)
  | BINFLOAT f => 71 :: enc_fl f
  | UNICODE s => 86 :: line s                      (* only for text that needs no escape (enc_ok) *)
  | BINUNICODE s => 88 :: counted 4 (utf8_enc s)
  | SHORT_BINUNICODE s => 140 :: counted 1 (utf8_enc s)
  | BINUNICODE8 s => 141 :: counted 8 (utf8_enc s)
  | BINBYTES s => 66 :: counted 4 s
  | SHORT_BINBYTES s => 67 :: counted 1 s
  | BINBYTES8 s => 142 :: counted 8 s
  | EMPTY_LIST => [93] | EMPTY_DICT => [125] | EMPTY_TUPLE => [41] | EMPTY_SET => [143]
  | APPEND => [97] | APPENDS => [101] | SETITEM => [115] | SETITEMS => [117] | ADDITEMS => [144]
  | TUPLE => [116] | TUPLE1 => [133] | TUPLE2 => [134] | TUPLE3 => [135] | FROZENSET => [145]
  | LIST => [108] | DICT => [100]
  | GLOBAL m n => 99 :: (line (utf8_enc m) ++ line (utf8_enc n))%list
  | STACK_GLOBAL => [147]
  | INST m n => 105 :: (line (utf8_enc m) ++ line (utf8_enc n))%list
  | OBJ => [111] | NEWOBJ => [129] | NEWOBJ_EX => [146] | REDUCE => [82] | BUILD => [98]
  | BINPERSID => [81]
  | PERSID s => 80 :: line s
  | EXT1 c => 130 :: le_Z 1 c
  | EXT2 c => 131 :: le_Z 2 c
  | EXT4 c => 132 :: le_Z 4 c
  | STRING s => 83 :: line (39 :: s ++ [39])
  | BINSTRING s => 84 :: counted 4 s
  | SHORT_BINSTRING s => 85 :: counted 1 s
  | BYTEARRAY8 s => 150 :: counted 8 s
  | NEXT_BUFFER => [151]
  | READONLY_BUFFER => [152]
  end.
Definition enc_ops (ops : list op) : list N := flat_map enc_op ops.

(* which opcodes [enc_op] encodes faithfully: arguments in range, text that the
   format can carry *)
Definition zin (lo hi : Z) (z : Z) : bool := ((lo <=? z) && (z <? hi))%Z.
Definition cp_ok (c : N) : bool := c <? 1114112.
Definition str_ok (s : pystr) : bool := forallb cp_ok s.
Definition bytes_ok (s : pystr) : bool := forallb (fun c => c <? 256) s.
Definition no_nl (s : list N) : bool := forallb (fun c => negb (c =? 10)) s.
Definition not_surrogate (c : N) : bool := negb ((55296 <=? c) && (c <? 57344)).
Definition name_ok (s : pystr) : bool :=
  nonempty s && str_ok s && forallb not_surrogate s && no_nl s.
Definition lenlt (l : list N) (b : N) : bool := len l <? b.
Definition fl_eqb (f g : fl) : bool :=
  match f, g with
  | FHalf a, FHalf b => (a =? b)%Z
  | FBits a, FBits b => (a =? b)%Z
  | _, _ => false
  end.
Definition fl_ok (f : fl) : bool :=
  match f with
  | FHalf t => (Z.abs t <? 2 ^ 53)%Z && (bits_of_half t <? 2 ^ 64) && fl_eqb (fl_of_bits (bits_of_half t)) f
  | FBits b => zin 0 (2 ^ 64) b && fl_eqb (fl_of_bits (Z.to_N b)) f
  end.
Definition enc_ok (o : op) : bool :=
  match o with
  | PROTO n => zin 0 256 n
  | FRAME n => zin 0 (2 ^ 63) n
  | PUT i | GET i => (0 <=? i)%Z
  | BINPUT i | BINGET i => zin 0 256 i
  | LONG_BINPUT i | LONG_BINGET i => zin 0 (2 ^ 32) i
  | BININT z => zin (- 2 ^ 31) (2 ^ 31) z
  | BININT1 z => zin 0 256 z
  | BININT2 z => zin 0 65536 z
  | LONG1 z => lenlt (enc_long z) 256
  | LONG4 z => lenlt (enc_long z) (2 ^ 31)
  | FLOAT _ => false
  | BINFLOAT f => fl_ok f
  | UNICODE s => forallb (fun c => (c <? 256) && negb (c =? 92) && negb (c =? 10)) s
  | BINUNICODE s => str_ok s && lenlt (utf8_enc s) (2 ^ 32)
  | SHORT_BINUNICODE s => str_ok s && lenlt (utf8_enc s) 256
  | BINUNICODE8 s => str_ok s && lenlt (utf8_enc s) (2 ^ 63)
  | BINBYTES s => lenlt s (2 ^ 32)
  | SHORT_BINBYTES s => lenlt s 256
  | BINBYTES8 s | BYTEARRAY8 s => lenlt s (2 ^ 63)
  | GLOBAL m n => name_ok m && name_ok n
  | INST m n => (name_ok m && all_ascii m) && (name_ok n && all_ascii n)     (* ASCII lines only: [c_iname] *)
  | PERSID s => all_ascii s && no_nl s
  | EXT1 c => zin 0 256 c
  | EXT2 c => zin 0 65536 c
  | EXT4 c => zin (- 2 ^ 31) (2 ^ 31) c
  | STRING s => plain_ascii s && no_nl s
  | BINSTRING s => all_ascii s && lenlt s (2 ^ 31)
  | SHORT_BINSTRING s => all_ascii s && lenlt s 256
  | _ => true
  end.

(* what pickle_dump writes for a payload, canonical form: protocol 4, one frame over everything after it *)
Definition dump_body (v : pv) : list N := enc_ops (enc v ++ [STOP])%list.
Definition dump_bytes (v : pv) : list N :=
  (enc_op (PROTO 4) ++ enc_op (FRAME (Z.of_N (len (dump_body v)))) ++ dump_body v)%list.
(* the opcodes [dump_bytes] stands for: [enc_prog] with the frame length filled in *)
Definition dump_prog (v : pv) : list op :=
  (PROTO 4 :: FRAME (Z.of_N (len (dump_body v))) :: enc v ++ [STOP])%list.

(* every opcode of the canonical encoding can be assembled: strings are code points, ints fit LONG1, floats are
   doubles, lengths fit their count fields - evaluated on every payload of every run (hypothesis of the
   theorems about [dump_bytes]) *)
Definition dump_ok (v : pv) : bool :=
  forallb enc_ok (enc v) && (len (dump_body v) <? 2 ^ 63).

(** Pickle/SrcPrimsFacts.v - facts about the statement-level primitives of Pickle/SrcPrims.v that do not depend
    on the generated text (used by coq/srctie/PickleGenEquiv.v, which is compiled on every run). *)
From Coq Require Import List ZArith NArith Bool Lia.
Import ListNotations.
From DD Require Import Base.PyStr Pickle.Vm Pickle.Bytes Pickle.PickleProofs Pickle.BytesProofs Pickle.SrcPrims.

Definition strf (e : pyv) : list pystr := match e with VStr s => [s] | _ => [] end.
Definition setlike (v : pyv) : bool := match v with VSet _ | VFrozenset _ => true | _ => false end.

Lemma strs_of_elems : forall v, strs_of v = flat_map strf (elems v).
Proof. reflexivity. Qed.

(* `key in S` for a str key is membership among the str members *)
Lemma existsb_str_eq_v : forall k l, existsb (str_eq_v k) l = mem_str k (flat_map strf l).
Proof.
  intros k l. induction l as [|x l IH]; [reflexivity|].
  cbn [existsb flat_map]. destruct x; cbn [str_eq_v strf app]; try exact IH.
  unfold mem_str in *. cbn [existsb]. rewrite IH. reflexivity.
Qed.
Lemma py_in_setlike : forall k S, setlike S = true -> py_in k S = mem_str k (strs_of S).
Proof. intros k S H. destruct S; try discriminate H; unfold py_in, strs_of; apply existsb_str_eq_v. Qed.

Lemma mem_str_ext : forall k l1 l2, (forall s, In s l1 <-> In s l2) -> mem_str k l1 = mem_str k l2.
Proof.
  intros k l1 l2 H. destruct (mem_str k l2) eqn:E.
  - apply mem_str_In. apply H. apply mem_str_In. exact E.
  - apply mem_str_false. intro Hin. apply (proj1 (mem_str_false k l2) E). apply H. exact Hin.
Qed.

Lemma strf_map_VStr : forall l, flat_map strf (map VStr l) = l.
Proof. induction l as [|x l IH]; [reflexivity|]. cbn. rewrite IH. reflexivity. Qed.
Lemma flat_map_app_strf : forall a b, flat_map strf (a ++ b) = (flat_map strf a ++ flat_map strf b)%list.
Proof. intros a b. apply flat_map_app. Qed.

Lemma strs_of_mk_iter : forall c l, strs_of (mk_iter c (map VStr l)) = l.
Proof. intros c l. destruct c; unfold strs_of; cbn [mk_iter elems]; apply strf_map_VStr. Qed.

(* the str members of a | b, for set-like a *)
Lemma strs_of_py_or : forall a b, setlike a = true -> strs_of (py_or a b) = (strs_of a ++ strs_of b)%list.
Proof. intros a b H. destruct a; try discriminate H; unfold strs_of; cbn [py_or elems]; apply flat_map_app. Qed.
Lemma setlike_py_or : forall a b, setlike (py_or a b) = true.
Proof. intros a b. destruct a; reflexivity. Qed.
Lemma setlike_py_set : forall a, setlike (py_set a) = true.
Proof. reflexivity. Qed.

(* the world a process induces: find_class of Vm.v sees sys.modules[m] and getattr through lookup_of *)
Lemma lookup_of_world : forall e S m n, lookup (world_of e S) m n = lookup_of (e_proc e) m n.
Proof. reflexivity. Qed.
Lemma allow_world_of : forall e S, allow (world_of e S) = strs_of S.
Proof. reflexivity. Qed.

(* reading results back *)
Lemma fc_of_forbidden : forall r, fc_of r = Some FCForbidden <-> exists msg, r = Raise (EForbiddenModule msg).
Proof.
  intros r. split.
  - destruct r as [k|e]; [discriminate|]. destruct e; try discriminate. intros _. eexists. reflexivity.
  - intros [msg ->]. reflexivity.
Qed.
Lemma fc_of_resolved : forall r k, fc_of r = Some (FCResolved k) <-> r = Ret k.
Proof.
  intros r k. split.
  - destruct r as [k'|e]; [intro H; inversion H; reflexivity|]. destruct e; discriminate.
  - intros ->. reflexivity.
Qed.
Lemma result_of_ret : forall r x, r = Ret x -> result_of r = Some x.
Proof. intros r x ->. reflexivity. Qed.

(* str.encode('utf-8') of a non-empty str is non-empty *)
Lemma utf8_enc_cp_nonempty : forall c, utf8_enc_cp c <> [].
Proof.
  intros c. unfold utf8_enc_cp.
  destruct (c <? 128)%N; [discriminate|]. destruct (c <? 2048)%N; [discriminate|].
  destruct (c <? 65536)%N; discriminate.
Qed.
Lemma utf8_enc_nonempty : forall c s, exists b r, utf8_enc (c :: s) = b :: r.
Proof.
  intros c s. unfold utf8_enc. cbn [flat_map]. pose proof (utf8_enc_cp_nonempty c) as H.
  destruct (utf8_enc_cp c) as [|b r]; [contradiction|]. exists b, (r ++ flat_map utf8_enc_cp s)%list. reflexivity.
Qed.

(* the shape `module.name` of an allow-list entry: a dot with something on both sides *)
Definition entry_shape_ok (s : pystr) : bool :=
  existsb (fun p => negb (match fst p with [] => true | _ => false end) && negb (match snd p with [] => true | _ => false end))
          (splits s).
Lemma entry_shape_ok_spec : forall s, entry_shape_ok s = true -> exists m n, m <> [] /\ n <> [] /\ dotted m n = s.
Proof.
  intros s H. unfold entry_shape_ok in H. apply existsb_exists in H. destruct H as [[m n] [Hin Hb]].
  apply splits_spec in Hin. apply andb_true_iff in Hb. destruct Hb as [Hm Hn]. cbn [fst snd] in *.
  exists m, n. repeat split; [| |exact Hin]; intro E; subst; discriminate.
Qed.

(* two lists of strings with the same members (decidable: used with vm_compute on the two literal lists) *)
Definition same_members_b (a b : list pystr) : bool :=
  forallb (fun s => mem_str s b) a && forallb (fun s => mem_str s a) b.
Lemma same_members_b_spec : forall a b, same_members_b a b = true -> forall s, In s a <-> In s b.
Proof.
  intros a b H s. unfold same_members_b in H. apply andb_true_iff in H. destruct H as [H1 H2].
  rewrite forallb_forall in H1, H2. split; intro Hin; apply mem_str_In; auto.
Qed.

(* the C15 safety statement for a load that starts from a file object (no emptiness test: Bytes.bytes_run) *)
Theorem bytes_run_no_forbidden_resolution : forall (w : world) (d : dialect) (bs : list N) out tr,
  ext_cache_safe_b w = true -> bytes_run w d bs = (out, tr) ->
  (forall m n, In (EResolve m n) tr -> In (dotted m n) (allow w)) /\
  (forall e, In e tr -> ev_safe_b (allow w) e = true) /\
  (forall v, out = Done v -> safe_b (allow w) v = true) /\
  (forall m n, out = Err (Forbidden m n) -> ~ In (dotted m n) (allow w)).
Proof.
  intros w d bs out tr Hg H. unfold bytes_run in H.
  destruct (vm_run w (bdecode_ops d bs)) as [out0 tr0] eqn:R.
  pose proof (no_forbidden_resolution_partial w _ out0 tr0 Hg R) as [H1 [H2 [H3 H4]]].
  assert (Ht : tr = tr0) by (pose proof (finish_trace (bdecode_end d bs) (out0, tr0)) as F; rewrite H in F; exact F).
  subst tr0. split; [exact H1|]. split; [exact H2|]. split.
  - intros v E. subst out. apply finish_done in H. destruct H as [E _]. apply (H3 v E).
  - intros m n E. subst out. apply finish_forbidden in H. destruct H as [E _]. apply (H4 m n E).
Qed.

Lemma result_of_inv : forall r out tr, result_of r = Some (out, tr) -> out <> Err BadArg -> r = Ret (out, tr).
Proof.
  intros r out tr H Hne. destruct r as [x|e]; cbn in H; [inversion H; reflexivity|].
  destruct e; try discriminate H. inversion H; subst. contradiction Hne. reflexivity.
Qed.

(** Pickle/EncodesProofs.v - every encoding in the class [accepts] decodes, on the
    restricted-unpickler model, to the payload it was checked against.  The invariant [inv]
    relates the checker's logical memo to the machine's memo; [pend] lists the identities of
    the containers being filled: no completed object contains one of them, so a shared list /
    dict / set fetched from the memo is never disturbed by later mutation. *)
From Coq Require Import List ZArith NArith Bool Arith Lia.
Import ListNotations.
From DD Require Import Base.Sx Base.PyStr Base.Value Pickle.Vm Pickle.Codec Pickle.PickleProofs Pickle.CodecProofs Pickle.Encodes.

(** * equality tests are exact *)

Lemma atom_eqb_eq : forall a b, atom_eqb a b = true -> a = b.
Proof.
  intros a b. destruct a as [|x|x|x|x|x], b as [|y|y|y|y|y]; cbn; intro H; try discriminate; try reflexivity.
  - apply Bool.eqb_prop in H. subst. reflexivity.
  - apply Z.eqb_eq in H. subst. reflexivity.
  - apply Z.eqb_eq in H. subst. reflexivity.
  - apply pystr_eqb_eq in H. subst. reflexivity.
  - apply pystr_eqb_eq in H. subst. reflexivity.
Qed.

Lemma atoms_eqb_eq : forall xs ys, atoms_eqb xs ys = true -> xs = ys.
Proof.
  induction xs as [|x r IH]; destruct ys as [|y s]; cbn; intro H; try discriminate; [reflexivity|].
  apply andb_true_iff in H. destruct H as [H1 H2]. apply atom_eqb_eq in H1. rewrite (IH _ H2), H1. reflexivity.
Qed.

Lemma pv_eqb_eq : forall a b, pv_eqb a b = true -> a = b.
Proof.
  induction a using pv_ind'; intro bb; destruct bb; cbn [pv_eqb]; intro E; try discriminate.
  - apply atom_eqb_eq in E. subst. reflexivity.
  - apply Z.eqb_eq in E. subst. reflexivity.
  - f_equal. revert xs0 E. induction H as [|x r Hx Hr IH]; destruct xs0 as [|y s]; intro E; try discriminate; [reflexivity|].
    apply andb_true_iff in E. destruct E as [E1 E2]. rewrite (Hx _ E1), (IH _ E2). reflexivity.
  - f_equal. revert xs0 E. induction H as [|x r Hx Hr IH]; destruct xs0 as [|y s]; intro E; try discriminate; [reflexivity|].
    apply andb_true_iff in E. destruct E as [E1 E2]. rewrite (Hx _ E1), (IH _ E2). reflexivity.
  - f_equal. revert kvs0 E. induction H as [|[k x] r Hx Hr IH]; destruct kvs0 as [|[k' y] s]; intro E; try discriminate; [reflexivity|].
    apply andb_true_iff in E. destruct E as [E1 E2]. apply andb_true_iff in E1. destruct E1 as [Ek Ev].
    apply atom_eqb_eq in Ek. cbn in Hx. rewrite (Hx _ Ev), (IH _ E2), Ek. reflexivity.
  - apply atoms_eqb_eq in E. subst. reflexivity.
  - apply atoms_eqb_eq in E. subst. reflexivity.
  - apply andb_true_iff in E. destruct E as [E1 E2]. apply pystr_eqb_eq in E1. apply pystr_eqb_eq in E2. subst. reflexivity.
  - reflexivity.
  - apply andb_true_iff in E. destruct E as [E En]. apply andb_true_iff in E. destruct E as [E Eo].
    apply andb_true_iff in E. destruct E as [E E4]. apply andb_true_iff in E. destruct E as [E E3].
    apply andb_true_iff in E. destruct E as [E E2]. apply andb_true_iff in E. destruct E as [E0 E1].
    apply pystr_eqb_eq in E0. apply Z.eqb_eq in E1. apply Z.eqb_eq in E2. apply Z.eqb_eq in E3. apply Z.eqb_eq in E4.
    subst. rewrite (IHa1 _ Eo), (IHa2 _ En). reflexivity.
  - f_equal. revert xs0 E. induction H as [|x r Hx Hr IH]; destruct xs0 as [|y s]; intro E; try discriminate; [reflexivity|].
    apply andb_true_iff in E. destruct E as [E1 E2]. rewrite (Hx _ E1), (IH _ E2). reflexivity.
Qed.

(** * the object an id-free payload value is *)

Fixpoint canon_obj (v : pv) {struct v} : obj :=
  match v with
  | PAtom a => obj_of_atom a
  | PFloatBits b => OFloat (FBits b)
  | PType m n => OGlobal m n GType
  | PNoneType => ONoneType
  | PFrozen xs => OFrozen (map obj_of_atom xs)
  | PTuple xs => OTuple (map canon_obj xs)
  | _ => ONone
  end.

Fixpoint noids (o : obj) {struct o} : bool :=
  match o with
  | OTuple xs | OFrozen xs => forallb noids xs
  | OList _ _ | ODict _ _ | OSet _ _ | OInst _ _ _ _ _ | OMark => false
  | _ => true
  end.

Lemma noids_atom : forall a, noids (obj_of_atom a) = true.
Proof. destruct a; reflexivity. Qed.
Lemma noids_atoms : forall xs, forallb noids (map obj_of_atom xs) = true.
Proof. induction xs as [|a r IH]; cbn; [reflexivity|]. rewrite noids_atom. exact IH. Qed.

Lemma canon_noids : forall v, idfree v = true -> noids (canon_obj v) = true.
Proof.
  induction v using pv_ind'; cbn [idfree canon_obj noids]; intro Hf; try discriminate; try reflexivity.
  - apply noids_atom.
  - induction H as [|x r Hx Hr IH]; cbn in *; [reflexivity|].
    apply andb_true_iff in Hf. destruct Hf as [F1 F2]. rewrite (Hx F1), (IH F2). reflexivity.
  - apply noids_atoms.
Qed.

Lemma canon_decode : forall v, idfree v = true -> decode (canon_obj v) = Some v.
Proof.
  induction v using pv_ind'; cbn [idfree canon_obj]; intro Hf; try discriminate; try reflexivity.
  - apply decode_obj_of_atom.
  - rewrite decode_tuple_eq.
    assert (E : all_some (map decode (map canon_obj xs)) = Some xs).
    { induction H as [|x r Hx Hr IH]; cbn in *; [reflexivity|].
      apply andb_true_iff in Hf. destruct Hf as [F1 F2]. rewrite (Hx F1), (IH F2). reflexivity. }
    rewrite E. reflexivity.
  - apply decode_frozen_atoms.
Qed.

Lemma noids_subst : forall i c o, noids o = true -> subst i c o = o.
Proof.
  intros i c. induction o using obj_ind'; cbn [noids subst]; intro Hn; try discriminate; try reflexivity.
  - f_equal. apply (map_id_forall _ noids); assumption.
  - f_equal. apply (map_id_forall _ noids); assumption.
Qed.

Lemma noids_below : forall n o, noids o = true -> ids_below n o = true.
Proof.
  intros n. induction o using obj_ind'; cbn [noids ids_below]; intro Hn; try discriminate; try reflexivity.
  - apply (forallb_imp _ noids); assumption.
  - apply (forallb_imp _ noids); assumption.
Qed.

Lemma noids_not_mark : forall o, noids o = true -> is_mark o = false.
Proof. destruct o; cbn; intro H; try reflexivity. discriminate. Qed.

(* substitution keeps the id bound *)
Lemma subst_ids_below : forall n i c, ids_below n c = true ->
  forall o, ids_below n o = true -> ids_below n (subst i c o) = true.
Proof.
  intros n i c Hc. induction o using obj_ind'; cbn [subst ids_below]; intro Hb; try exact Hb.
  - apply forallb_map_imp; assumption.
  - apply forallb_map_imp; assumption.
  - destruct (Nat.eqb i i0); [exact Hc|]. cbn [ids_below]. apply andb_true_iff in Hb. destruct Hb as [Hl Hx].
    rewrite Hl. cbn. apply forallb_map_imp; assumption.
  - destruct (Nat.eqb i i0); [exact Hc|]. cbn [ids_below]. apply andb_true_iff in Hb. destruct Hb as [Hl Hx].
    rewrite Hl. cbn. revert Hx. induction H as [|kv r [Hk Hv] Hr IH]; cbn; [auto|].
    intro E. apply andb_true_iff in E. destruct E as [E1 E2]. apply andb_true_iff in E1. destruct E1 as [Ek Ev].
    rewrite (Hk Ek), (Hv Ev), (IH E2). reflexivity.
  - destruct (Nat.eqb i i0); [exact Hc|]. cbn [ids_below]. apply andb_true_iff in Hb. destruct Hb as [Hl Hx].
    rewrite Hl. cbn. apply forallb_map_imp; assumption.
  - destruct (Nat.eqb i i0); [exact Hc|]. cbn [ids_below].
    apply andb_true_iff in Hb. destruct Hb as [Hb Hs]. apply andb_true_iff in Hb. destruct Hb as [Hb Ha].
    apply andb_true_iff in Hb. destruct Hb as [Hl Hf].
    rewrite Hl, (IHo1 Hf), (IHo2 Ha). cbn. apply forallb_map_imp; assumption.
Qed.

(** * memo facts *)

Lemma memo_put_fresh : forall i v (m : list (Z * obj)),
  existsb (Z.eqb i) (map fst m) = false -> memo_put i v m = (m ++ [(i, v)])%list.
Proof.
  intros i v. unfold memo_put. induction m as [|[j x] r IH]; cbn; [reflexivity|].
  intro H. apply orb_false_iff in H. destruct H as [H1 H2]. rewrite H1, (IH H2). reflexivity.
Qed.

Lemma memo_get_app_new : forall i v (m : list (Z * obj)),
  existsb (Z.eqb i) (map fst m) = false -> memo_get i (m ++ [(i, v)]) = Some v.
Proof.
  intros i v. induction m as [|[j x] r IH]; cbn; [rewrite Z.eqb_refl; reflexivity|].
  intro H. apply orb_false_iff in H. destruct H as [H1 H2]. rewrite H1. apply IH. exact H2.
Qed.

Lemma memo_get_app_old : forall j x (m l : list (Z * obj)),
  memo_get j m = Some x -> memo_get j (m ++ l) = Some x.
Proof.
  intros j x. induction m as [|[k y] r IH]; cbn; intros l H; [discriminate|].
  destruct (Z.eqb j k); [exact H | apply IH; exact H].
Qed.

Lemma memo_get_map_subst : forall i c j (m : list (Z * obj)),
  memo_get j (map (fun p => (fst p, subst i c (snd p))) m) = option_map (subst i c) (memo_get j m).
Proof.
  intros i c j. induction m as [|[k y] r IH]; cbn; [reflexivity|]. destruct (Z.eqb j k); [reflexivity | exact IH].
Qed.

Lemma memo_get_in_keys : forall j x (m : list (Z * obj)), memo_get j m = Some x -> existsb (Z.eqb j) (map fst m) = true.
Proof.
  intros j x. induction m as [|[k y] r IH]; cbn; intro H; [discriminate|].
  destruct (Z.eqb j k); [reflexivity | apply IH; exact H].
Qed.


(** * occurrences of an identity *)

Fixpoint occurs (i : nat) (o : obj) {struct o} : bool :=
  match o with
  | OTuple xs | OFrozen xs => existsb (occurs i) xs
  | OList j xs | OSet j xs => Nat.eqb i j || existsb (occurs i) xs
  | ODict j kvs => Nat.eqb i j || existsb (fun kv => occurs i (fst kv) || occurs i (snd kv)) kvs
  | OInst j _ f a sts => Nat.eqb i j || occurs i f || occurs i a || existsb (occurs i) sts
  | _ => false
  end.

Lemma map_id_noccur : forall (g : obj -> obj) (f : obj -> bool) xs,
  Forall (fun x => f x = false -> g x = x) xs -> existsb f xs = false -> map g xs = xs.
Proof.
  intros g f xs H. induction H as [|x r Hx Hr IH]; cbn; [reflexivity|].
  intro E. apply orb_false_iff in E. destruct E as [E1 E2]. rewrite (Hx E1), (IH E2). reflexivity.
Qed.

Lemma subst_noccur : forall i c o, occurs i o = false -> subst i c o = o.
Proof.
  intros i c. induction o using obj_ind'; cbn [occurs subst]; intro Hn; try reflexivity.
  - f_equal. apply (map_id_noccur _ (occurs i)); assumption.
  - f_equal. apply (map_id_noccur _ (occurs i)); assumption.
  - apply orb_false_iff in Hn. destruct Hn as [He Hx]. rewrite He. f_equal. apply (map_id_noccur _ (occurs i)); assumption.
  - apply orb_false_iff in Hn. destruct Hn as [He Hx]. rewrite He. f_equal.
    revert Hx. induction H as [|kv r [Hk Hv] Hr IH]; cbn; [reflexivity|].
    intro E. apply orb_false_iff in E. destruct E as [E1 E2]. apply orb_false_iff in E1. destruct E1 as [Ek Ev].
    rewrite (Hk Ek), (Hv Ev), (IH E2). destruct kv; reflexivity.
  - apply orb_false_iff in Hn. destruct Hn as [He Hx]. rewrite He. f_equal. apply (map_id_noccur _ (occurs i)); assumption.
  - apply orb_false_iff in Hn. destruct Hn as [Hn Hs]. apply orb_false_iff in Hn. destruct Hn as [Hn Ha].
    apply orb_false_iff in Hn. destruct Hn as [He Hf]. rewrite He, (IHo1 Hf), (IHo2 Ha). f_equal.
    apply (map_id_noccur _ (occurs i)); assumption.
Qed.

Lemma existsb_false_forall : forall (f g : obj -> bool) xs,
  Forall (fun x => g x = true -> f x = false) xs -> forallb g xs = true -> existsb f xs = false.
Proof.
  intros f g xs H. induction H as [|x r Hx Hr IH]; cbn; [reflexivity|].
  intro E. apply andb_true_iff in E. destruct E as [E1 E2]. rewrite (Hx E1), (IH E2). reflexivity.
Qed.

Lemma ltb_neq' : forall i j n, Nat.ltb j n = true -> n <= i -> Nat.eqb i j = false.
Proof. intros i j n H Hle. apply Nat.ltb_lt in H. apply Nat.eqb_neq. lia. Qed.

(* an identity at or above the bound does not occur *)
Lemma below_noccur : forall n i, n <= i -> forall o, ids_below n o = true -> occurs i o = false.
Proof.
  intros n i Hle. induction o using obj_ind'; cbn [ids_below occurs]; intro Hb; try reflexivity.
  - apply (existsb_false_forall _ (ids_below n)); assumption.
  - apply (existsb_false_forall _ (ids_below n)); assumption.
  - apply andb_true_iff in Hb. destruct Hb as [Hl Hx]. rewrite (ltb_neq' _ _ _ Hl Hle). cbn.
    apply (existsb_false_forall _ (ids_below n)); assumption.
  - apply andb_true_iff in Hb. destruct Hb as [Hl Hx]. rewrite (ltb_neq' _ _ _ Hl Hle). cbn.
    revert Hx. induction H as [|kv r [Hk Hv] Hr IH]; cbn; [reflexivity|].
    intro E. apply andb_true_iff in E. destruct E as [E1 E2]. apply andb_true_iff in E1. destruct E1 as [Ek Ev].
    rewrite (Hk Ek), (Hv Ev), (IH E2). reflexivity.
  - apply andb_true_iff in Hb. destruct Hb as [Hl Hx]. rewrite (ltb_neq' _ _ _ Hl Hle). cbn.
    apply (existsb_false_forall _ (ids_below n)); assumption.
  - apply andb_true_iff in Hb. destruct Hb as [Hb Hs]. apply andb_true_iff in Hb. destruct Hb as [Hb Ha].
    apply andb_true_iff in Hb. destruct Hb as [Hl Hf].
    rewrite (ltb_neq' _ _ _ Hl Hle), (IHo1 Hf), (IHo2 Ha). cbn. apply (existsb_false_forall _ (ids_below n)); assumption.
Qed.

Definition noccur_all (pend : list nat) (o : obj) : bool := forallb (fun j => negb (occurs j o)) pend.

Lemma noccur_all_below : forall pend n o, ids_below n o = true -> Forall (fun j => n <= j) pend -> noccur_all pend o = true.
Proof.
  intros pend n o Hb H. unfold noccur_all. induction H as [|j r Hj Hr IH]; cbn; [reflexivity|].
  rewrite (below_noccur n j Hj o Hb), IH. reflexivity.
Qed.
Lemma noccur_all_noids : forall pend o, noids o = true -> noccur_all pend o = true.
Proof.
  intros pend o H. unfold noccur_all. apply forallb_forall. intros j _.
  rewrite (below_noccur 0 j (Nat.le_0_l j) o (noids_below 0 o H)). reflexivity.
Qed.
Lemma noccur_all_in : forall pend o i, noccur_all pend o = true -> In i pend -> occurs i o = false.
Proof.
  intros pend o i H Hin. unfold noccur_all in H. rewrite forallb_forall in H. apply negb_true_iff. apply H. exact Hin.
Qed.
Lemma noccur_all_cons : forall i pend o, noccur_all (i :: pend) o = true -> noccur_all pend o = true.
Proof. intros i pend o H. cbn in H. apply andb_true_iff in H. apply H. Qed.

(** * the invariant between checker state and machine state *)

(* [pend]: the identities of the containers that are being filled right now.  No completed object
   the checker knows about contains one of them, so filling them (mutation through [subst])
   leaves every known memo entry alone. *)
Definition known_ok (pend : list nat) (m : list (Z * obj)) (i : Z) (v : pv) : Prop :=
  exists o, memo_get i m = Some o /\ decode o = Some v /\ (idfree v = true -> o = canon_obj v) /\
            noccur_all pend o = true.

Definition inv (cs : cstate) (pend : list nat) (st : state) : Prop :=
  fresh_state st /\ map fst (memo st) = snd cs /\
  (forall i v, lm_get i (fst cs) = Some v -> known_ok pend (memo st) i v).

Definition memo_ext (st st' : state) : Prop :=
  forall idx o, memo_get idx (memo st) = Some o -> memo_get idx (memo st') = Some o.
Lemma memo_ext_refl : forall st, memo_ext st st.
Proof. intros st idx o H. exact H. Qed.
Lemma memo_ext_trans : forall a b c, memo_ext a b -> memo_ext b c -> memo_ext a c.
Proof. intros a b c H1 H2 idx o H. apply H2. apply H1. exact H. Qed.
Lemma memo_ext_same : forall st st', memo st' = memo st -> memo_ext st st'.
Proof. intros st st' E idx o H. rewrite E. exact H. Qed.

Lemma inv_stack : forall cs pend st s n, inv cs pend st -> next st <= n ->
  forallb (ids_below n) s = true ->
  inv cs pend (mkState s (memo st) n (ecache st) (trace st)).
Proof.
  intros cs pend st s n [[Hs Hm] [Hk Ha]] Hle Hb. split; [|split]; cbn.
  - split; cbn; [exact Hb | apply (memo_mono _ _ _ Hle Hm)].
  - exact Hk.
  - exact Ha.
Qed.

Lemma inv_trace : forall cs pend s m n e t t', inv cs pend (mkState s m n e t) -> inv cs pend (mkState s m n e t').
Proof. intros cs pend s m n e t t' H. exact H. Qed.

Lemma inv_weaken : forall cs i pend st, inv cs (i :: pend) st -> inv cs pend st.
Proof.
  intros cs i pend st [Hf [Hk Ha]]. split; [exact Hf|]. split; [exact Hk|].
  intros j v Hj. destruct (Ha j v Hj) as [o [Hg [Hd [Hc Hn]]]]. exists o. repeat split; try assumption.
  apply (noccur_all_cons i). exact Hn.
Qed.

(* a container created now has an identity that occurs nowhere yet *)
Lemma inv_enter : forall cs pend st i, inv cs pend st -> next st <= i -> inv cs (i :: pend) st.
Proof.
  intros cs pend st i [[Hs Hm] [Hk Ha]] Hle. split; [split; assumption|]. split; [exact Hk|].
  intros j v Hj. destruct (Ha j v Hj) as [o [Hg [Hd [Hc Hn]]]]. exists o. repeat split; try assumption.
  unfold noccur_all in *. cbn [forallb]. rewrite Hn, andb_true_r. apply negb_true_iff. apply (below_noccur (next st) i Hle).
  clear - Hm Hg. induction (memo st) as [|[k x] r IH]; cbn in *; [discriminate|].
  apply andb_true_iff in Hm. destruct Hm as [H1 H2]. destruct (Z.eqb j k); [inversion Hg; subst; exact H1 | apply IH; assumption].
Qed.

Lemma inv_mutate : forall cs pend st i c, inv cs pend st -> In i pend -> ids_below (next st) c = true ->
  inv cs pend (mutate i c st).
Proof.
  intros cs pend st i c [[Hs Hm] [Hk Ha]] Hin Hc. split; [|split]; cbn.
  - split; cbn.
    + apply forallb_map_imp; [|exact Hs]. apply Forall_forall. intros x _. apply subst_ids_below. exact Hc.
    + clear - Hm Hc. induction (memo st) as [|[j x] r IH]; cbn in *; [reflexivity|].
      apply andb_true_iff in Hm. destruct Hm as [H1 H2]. rewrite (subst_ids_below _ i c Hc x H1), (IH H2). reflexivity.
  - rewrite map_map. cbn. exact Hk.
  - intros j v Hj. destruct (Ha j v Hj) as [o [Hg [Hd [Hcn Hn]]]]. exists o.
    rewrite memo_get_map_subst, Hg. cbn. rewrite (subst_noccur i c o (noccur_all_in _ _ _ Hn Hin)). auto.
Qed.

Lemma inv_push : forall cs pend st o, inv cs pend st -> ids_below (next st) o = true -> inv cs pend (push o st).
Proof.
  intros cs pend st o H Ho. unfold push, set_stack. apply inv_stack; [exact H | lia|].
  cbn. rewrite Ho. destruct H as [[Hs _] _]. exact Hs.
Qed.
Lemma inv_emit : forall cs pend st e, inv cs pend st -> inv cs pend (emit e st).
Proof. intros cs pend st e H. exact H. Qed.
Lemma inv_keys_len : forall cs pend st, inv cs pend st -> List.length (memo st) = List.length (snd cs).
Proof. intros cs pend st [_ [Hk _]]. rewrite <- Hk, map_length. reflexivity. Qed.
Lemma inv_set_stack_sub : forall cs pend st s, inv cs pend st ->
  forallb (ids_below (next st)) s = true -> inv cs pend (set_stack st s).
Proof. intros cs pend st s H Hs. unfold set_stack. apply inv_stack; [exact H | lia | exact Hs]. Qed.

(* the object completed under a reserved index is entered into the logical memo *)
Lemma inv_record : forall cs pend st pidx v o,
  inv cs pend st -> (forall idx, pidx = Some idx -> memo_get idx (memo st) = Some o) ->
  decode o = Some v -> (idfree v = true -> o = canon_obj v) -> noccur_all pend o = true ->
  inv (record cs pidx v) pend st.
Proof.
  intros cs pend st pidx v o Hinv Hown Hd Hc Hn. destruct pidx as [idx|]; [|exact Hinv].
  destruct Hinv as [Hf [Hk Ha]]. split; [exact Hf|]. split; [exact Hk|].
  intros j w Hj. cbn [record fst lm_get] in Hj. destruct (Z.eqb j idx) eqn:E.
  - inversion Hj; subst w. apply Z.eqb_eq in E. subst j. exists o. rewrite (Hown idx eq_refl). auto.
  - apply Ha. exact Hj.
Qed.

(** * single opcodes *)

Definition put_state (st : state) (idx : Z) (o : obj) : state :=
  mkState (stack st) (memo st ++ [(idx, o)])%list (next st) (ecache st) (trace st).

Lemma do_put_is : forall cs pend st o s idx,
  inv cs pend st -> stack st = o :: s -> is_mark o = false -> existsb (Z.eqb idx) (snd cs) = false ->
  do_put st idx = SNext (put_state st idx o) /\ memo_ext st (put_state st idx o) /\
  memo_get idx (memo (put_state st idx o)) = Some o.
Proof.
  intros cs pend st o s idx [[Hs Hmm] [Hk Ha]] Hst Hm Hfr.
  assert (Hp : pop1 (stack st) = Some (o, s)) by (rewrite Hst; cbn [pop1]; rewrite Hm; reflexivity).
  rewrite <- Hk in Hfr. split; [|split].
  - unfold do_put. rewrite Hp, (memo_put_fresh idx o (memo st) Hfr). reflexivity.
  - intros j x Hj. cbn. apply memo_get_app_old. exact Hj.
  - cbn. apply memo_get_app_new. exact Hfr.
Qed.

Lemma inv_put_pending : forall cs pend st o s idx,
  inv cs pend st -> stack st = o :: s -> existsb (Z.eqb idx) (snd cs) = false ->
  inv (fst cs, (snd cs ++ [idx])%list) pend (put_state st idx o).
Proof.
  intros cs pend st o s idx [[Hs Hmm] [Hk Ha]] Hst Hfr.
  assert (Ho : ids_below (next st) o = true).
  { rewrite Hst in Hs. cbn in Hs. apply andb_true_iff in Hs. apply Hs. }
  split; [|split]; cbn.
  - split; cbn; [exact Hs|]. rewrite forallb_app, Hmm. cbn. rewrite Ho. reflexivity.
  - rewrite map_app, Hk. reflexivity.
  - intros j w Hj. destruct (Ha j w Hj) as [x [Hg Hr]]. exists x. split; [apply memo_get_app_old; exact Hg | exact Hr].
Qed.

Lemma inv_put_recorded : forall cs pend st o s idx v,
  inv cs pend st -> stack st = o :: s -> existsb (Z.eqb idx) (snd cs) = false ->
  decode o = Some v -> (idfree v = true -> o = canon_obj v) -> noccur_all pend o = true ->
  inv ((idx, v) :: fst cs, (snd cs ++ [idx])%list) pend (put_state st idx o).
Proof.
  intros cs pend st o s idx v Hinv Hst Hfr Hd Hc Hn.
  pose proof (inv_put_pending cs pend st o s idx Hinv Hst Hfr) as [Hf [Hk Ha]].
  split; [exact Hf|]. split; [exact Hk|].
  intros j w Hj. cbn [fst lm_get] in Hj. destruct (Z.eqb j idx) eqn:E.
  - inversion Hj; subst w. apply Z.eqb_eq in E. subst j. exists o. split; [|auto].
    destruct Hinv as [_ [Hk0 _]]. rewrite <- Hk0 in Hfr. cbn. apply memo_get_app_new. exact Hfr.
  - apply Ha. exact Hj.
Qed.

Lemma put_op_step : forall w cs pend st p idx,
  inv cs pend st -> put_index (snd cs) p = Some idx -> step w st p = do_put st idx.
Proof.
  intros w cs pend st p idx Hinv Ep. destruct p; cbn in Ep; try discriminate; cbn [step].
  - inversion Ep; subst idx. rewrite (inv_keys_len cs pend st Hinv). reflexivity.
  - destruct (Z.ltb i 0); [discriminate|]. destruct (Z.ltb MEMO_MAX i); [discriminate|]. inversion Ep; subst. reflexivity.
  - inversion Ep; subst. reflexivity.
  - destruct (Z.ltb MEMO_MAX i); [discriminate|]. inversion Ep; subst. reflexivity.
Qed.

Lemma put_sound : forall w cs pend v prog cs' rest st o s,
  chk_put cs v prog = Some (cs', rest) -> inv cs pend st -> stack st = o :: s ->
  is_mark o = false -> decode o = Some v -> (idfree v = true -> o = canon_obj v) -> noccur_all pend o = true ->
  exists st', run w st prog = run w st' rest /\ stack st' = stack st /\ next st' = next st /\ inv cs' pend st' /\
              memo_ext st st'.
Proof.
  intros w cs pend v prog cs' rest st o s H Hinv Hst Hm Hd Hc Hn. unfold chk_put in H.
  assert (Hsame : exists st', run w st prog = run w st' prog /\ stack st' = stack st /\ next st' = next st /\ inv cs pend st' /\ memo_ext st st').
  { exists st. split; [reflexivity|]. split; [reflexivity|]. split; [reflexivity|]. split; [exact Hinv | apply memo_ext_refl]. }
  destruct prog as [|p r]; [inversion H; subst; exact Hsame|].
  destruct (put_index (snd cs) p) as [idx|] eqn:Ep; [|inversion H; subst; exact Hsame]. clear Hsame.
  destruct (existsb (Z.eqb idx) (snd cs)) eqn:Ef; [discriminate|]. inversion H; subst cs' rest. clear H.
  destruct (do_put_is cs pend st o s idx Hinv Hst Hm Ef) as [Hd' [He' _]].
  exists (put_state st idx o). split; [apply run_step_next; rewrite (put_op_step w cs pend st p idx Hinv Ep); exact Hd'|].
  split; [reflexivity|]. split; [reflexivity|]. split; [|exact He'].
  apply (inv_put_recorded cs pend st o s idx v); assumption.
Qed.

Lemma put_pending_sound : forall w cs pend prog cs' rest pidx st o s,
  chk_put_pending cs prog = Some (cs', rest, pidx) -> inv cs pend st -> stack st = o :: s -> is_mark o = false ->
  exists st', run w st prog = run w st' rest /\ stack st' = stack st /\ next st' = next st /\ inv cs' pend st' /\
              memo_ext st st' /\ (forall idx, pidx = Some idx -> memo_get idx (memo st') = Some o).
Proof.
  intros w cs pend prog cs' rest pidx st o s H Hinv Hst Hm. unfold chk_put_pending in H.
  assert (Hsame : exists st', run w st prog = run w st' prog /\ stack st' = stack st /\ next st' = next st /\ inv cs pend st' /\
                    memo_ext st st' /\ (forall idx, @None Z = Some idx -> memo_get idx (memo st') = Some o)).
  { exists st. split; [reflexivity|]. split; [reflexivity|]. split; [reflexivity|]. split; [exact Hinv|].
    split; [apply memo_ext_refl | intros; discriminate]. }
  destruct prog as [|p r]; [inversion H; subst; exact Hsame|].
  destruct (put_index (snd cs) p) as [idx|] eqn:Ep; [|inversion H; subst; exact Hsame]. clear Hsame.
  destruct (existsb (Z.eqb idx) (snd cs)) eqn:Ef; [discriminate|]. inversion H; subst cs' rest pidx. clear H.
  destruct (do_put_is cs pend st o s idx Hinv Hst Hm Ef) as [Hd' [He' Hg']].
  exists (put_state st idx o). split; [apply run_step_next; rewrite (put_op_step w cs pend st p idx Hinv Ep); exact Hd'|].
  split; [reflexivity|]. split; [reflexivity|]. split; [apply (inv_put_pending cs pend st o s idx); assumption|].
  split; [exact He'|]. intros j Hj. inversion Hj; subst j. exact Hg'.
Qed.

(* a fetch pushes the known object *)
Lemma get_sound : forall w cs pend v i st p,
  get_index p = Some i -> chk_get cs v i = true -> inv cs pend st ->
  exists o, step w st p = SNext (push o st) /\ decode o = Some v /\ (idfree v = true -> o = canon_obj v) /\
            noccur_all pend o = true /\ ids_below (next st) o = true.
Proof.
  intros w cs pend v i st p Hg Hc Hinv. unfold chk_get in Hc.
  destruct (lm_get i (fst cs)) as [v'|] eqn:El; [|discriminate]. apply pv_eqb_eq in Hc. subst v'.
  destruct Hinv as [[_ Hmm] [_ Ha]]. destruct (Ha i v El) as [o [Hm [Hd [Hcn Hn]]]]. exists o.
  split; [|split; [exact Hd | split; [exact Hcn | split; [exact Hn|]]]].
  - destruct p; cbn in Hg; try discriminate; inversion Hg; subst; cbn [step]; unfold do_get; rewrite Hm; reflexivity.
  - clear - Hmm Hm. induction (memo st) as [|[k x] r IH]; cbn in *; [discriminate|].
    apply andb_true_iff in Hmm. destruct Hmm as [H1 H2]. destruct (Z.eqb i k); [inversion Hm; subst; exact H1 | apply IH; assumption].
Qed.

Lemma atom_of_push_step : forall w st p a, atom_of_push p = Some a -> step w st p = SNext (push (obj_of_atom a) st).
Proof.
  intros w st p a H. destruct p; cbn in H; try discriminate; try (inversion H; subst; reflexivity).
  - destruct f; [inversion H; subst; reflexivity | discriminate].
  - destruct f; [inversion H; subst; reflexivity | discriminate].
Qed.

Lemma noccur_atom : forall pend a, noccur_all pend (obj_of_atom a) = true.
Proof. intros. apply noccur_all_noids. apply noids_atom. Qed.

Lemma atom_sound : forall w a cs pend prog cs' rest st,
  chk_atom a cs prog = Some (cs', rest) -> inv cs pend st ->
  exists st', run w st prog = run w st' rest /\ stack st' = obj_of_atom a :: stack st /\
              next st' = next st /\ inv cs' pend st' /\ memo_ext st st'.
Proof.
  intros w a cs pend prog cs' rest st H Hinv. unfold chk_atom in H. destruct prog as [|p r]; [discriminate|].
  destruct (get_index p) as [i|] eqn:Eg.
  - destruct (chk_get cs (PAtom a) i) eqn:Ec; [|discriminate]. inversion H; subst cs' rest.
    destruct (get_sound w cs pend (PAtom a) i st p Eg Ec Hinv) as [o [Hs [_ [Hc _]]]].
    rewrite (Hc eq_refl) in Hs. cbn [canon_obj] in Hs.
    exists (push (obj_of_atom a) st). split; [apply run_step_next; exact Hs|].
    split; [reflexivity | split; [reflexivity|]]. split; [apply inv_push; [exact Hinv | apply ids_below_atom] | apply memo_ext_same; reflexivity].
  - destruct (atom_of_push p) as [a'|] eqn:Ea; [|discriminate].
    destruct (atom_eqb a' a) eqn:Ee; [|discriminate]. apply atom_eqb_eq in Ee. subst a'.
    assert (Hinv1 : inv cs pend (push (obj_of_atom a) st)) by (apply inv_push; [exact Hinv | apply ids_below_atom]).
    destruct (put_sound w cs pend (PAtom a) r cs' rest (push (obj_of_atom a) st) (obj_of_atom a) (stack st) H Hinv1
                        eq_refl (is_mark_atom a) (decode_obj_of_atom a) (fun _ => eq_refl) (noccur_atom pend a))
      as [st' [Hr [Hs [Hn [Hi He]]]]].
    exists st'. split; [|split; [exact Hs | split; [exact Hn | split; [exact Hi | exact He]]]].
    rewrite (run_step_next w st p _ r (atom_of_push_step w st p a Ea)). exact Hr.
Qed.

Lemma atoms_sound : forall w xs cs pend prog cs' rest st,
  chk_atoms xs cs prog = Some (cs', rest) -> inv cs pend st ->
  exists st', run w st prog = run w st' rest /\ stack st' = (rev (map obj_of_atom xs) ++ stack st)%list /\
              next st' = next st /\ inv cs' pend st' /\ memo_ext st st'.
Proof.
  intros w. induction xs as [|a r IH]; intros cs pend prog cs' rest st H Hinv; cbn [chk_atoms] in H.
  - inversion H; subst. exists st. split; [reflexivity|]. split; [reflexivity|]. split; [reflexivity|].
    split; [exact Hinv | apply memo_ext_refl].
  - destruct (chk_atom a cs prog) as [[cs1 p1]|] eqn:Ea; [|discriminate].
    destruct (atom_sound w a cs pend prog cs1 p1 st Ea Hinv) as [st1 [Hr1 [Hs1 [Hn1 [Hi1 He1]]]]].
    destruct (IH cs1 pend p1 cs' rest st1 H Hi1) as [st2 [Hr2 [Hs2 [Hn2 [Hi2 He2]]]]].
    exists st2. split; [rewrite Hr1; exact Hr2|]. split; [|split; [lia | split; [exact Hi2 | exact (memo_ext_trans _ _ _ He1 He2)]]].
    rewrite Hs2, Hs1. cbn [map rev]. rewrite <- app_assoc. reflexivity.
Qed.

(* a class object *)
Lemma type_default_sound : forall w m n cs pend prog cs' rest st,
  match chk_atom (AStr m) cs prog with
  | Some (cs1, p1) =>
      match chk_atom (AStr n) cs1 p1 with
      | Some (cs2, STACK_GLOBAL :: p2) => chk_put cs2 (PType m n) p2
      | _ => None
      end
  | None => None
  end = Some (cs', rest) ->
  inv cs pend st -> find_class w m n = FCResolved GType ->
  exists st', run w st prog = run w st' rest /\ stack st' = OGlobal m n GType :: stack st /\
              next st' = next st /\ inv cs' pend st' /\ memo_ext st st'.
Proof.
  intros w m n cs pend prog cs' rest st H Hinv Hfc.
  destruct (chk_atom (AStr m) cs prog) as [[cs1 p1]|] eqn:E1; [|discriminate].
  destruct (chk_atom (AStr n) cs1 p1) as [[cs2 p2]|] eqn:E2; [|discriminate].
  destruct p2 as [|q p2]; [discriminate|]. destruct q; try discriminate.
  destruct (atom_sound w _ _ pend _ _ _ st E1 Hinv) as [st1 [Hr1 [Hs1 [Hn1 [Hi1 He1]]]]].
  destruct (atom_sound w _ _ pend _ _ _ st1 E2 Hi1) as [st2 [Hr2 [Hs2 [Hn2 [Hi2 He2]]]]].
  cbn [obj_of_atom] in Hs1, Hs2.
  set (st3 := mkState (OGlobal m n GType :: stack st) (memo st2) (next st2) (ecache st2) (EResolve m n :: trace st2)).
  assert (H3 : step w st2 STACK_GLOBAL = SNext st3).
  { cbn [step]. rewrite Hs2, Hs1. cbn [pop1 is_mark]. unfold do_global. rewrite Hfc. reflexivity. }
  assert (Hi3 : inv cs2 pend st3).
  { unfold st3. apply (inv_trace _ _ _ _ _ _ (trace st2)). apply inv_stack; [exact Hi2 | lia|].
    cbn. destruct Hi2 as [[Hs _] _]. rewrite Hs2, Hs1 in Hs. cbn in Hs. exact Hs. }
  destruct (put_sound w cs2 pend (PType m n) p2 cs' rest st3 (OGlobal m n GType) (stack st) H Hi3 eq_refl eq_refl eq_refl
                      (fun _ => eq_refl) (noccur_all_noids pend (OGlobal m n GType) eq_refl)) as [st4 [Hr4 [Hs4 [Hn4 [Hi4 He4]]]]].
  exists st4. split; [|split; [exact Hs4 | split; [cbn in Hn4; lia | split; [exact Hi4|]]]].
  - rewrite Hr1, Hr2, (run_step_next w st2 STACK_GLOBAL st3 p2 H3). exact Hr4.
  - apply (memo_ext_trans _ _ _ He1). apply (memo_ext_trans _ _ _ He2). exact He4.
Qed.

Lemma type_sound : forall w m n cs pend prog cs' rest st,
  chk_type m n cs prog = Some (cs', rest) -> inv cs pend st -> find_class w m n = FCResolved GType ->
  exists st', run w st prog = run w st' rest /\ stack st' = OGlobal m n GType :: stack st /\
              next st' = next st /\ inv cs' pend st' /\ memo_ext st st'.
Proof.
  intros w m n cs pend prog cs' rest st H Hinv Hfc. unfold chk_type in H. destruct prog as [|p r]; [discriminate|].
  destruct (match get_index p with Some i => chk_get cs (PType m n) i | None => false end) eqn:Eg.
  - inversion H; subst cs' rest. destruct (get_index p) as [i|] eqn:Ei; [|discriminate].
    destruct (get_sound w cs pend (PType m n) i st p Ei Eg Hinv) as [o [Hs [_ [Hc _]]]].
    rewrite (Hc eq_refl) in Hs. cbn [canon_obj] in Hs.
    exists (push (OGlobal m n GType) st). split; [apply run_step_next; exact Hs|].
    split; [reflexivity | split; [reflexivity|]]. split; [apply inv_push; [exact Hinv | reflexivity] | apply memo_ext_same; reflexivity].
  - destruct p;
      try (match type of H with
           | match chk_atom _ _ ?pp with _ => _ end = _ => exact (type_default_sound w m n cs pend pp cs' rest st H Hinv Hfc)
           end).
    (* GLOBAL *)
    match type of H with (if (pystr_eqb ?a m && pystr_eqb ?b n && _ && _)%bool then _ else _) = _ =>
      rename a into m0; rename b into n0 end.
    destruct (pystr_eqb m0 m && pystr_eqb n0 n && negb (empty_line m) && negb (empty_line n))%bool eqn:Ec; [|discriminate].
    apply andb_true_iff in Ec. destruct Ec as [Ec En]. apply andb_true_iff in Ec. destruct Ec as [Ec Em].
    apply andb_true_iff in Ec. destruct Ec as [E1 E2]. apply pystr_eqb_eq in E1. apply pystr_eqb_eq in E2. subst m0 n0.
    apply negb_true_iff in Em. apply negb_true_iff in En.
    set (st1 := mkState (OGlobal m n GType :: stack st) (memo st) (next st) (ecache st) (EResolve m n :: trace st)).
    assert (H1 : step w st (GLOBAL m n) = SNext st1).
    { cbn [step]. rewrite Em, En. cbn [orb]. unfold do_global. rewrite Hfc. reflexivity. }
    assert (Hi1 : inv cs pend st1).
    { unfold st1. apply (inv_trace _ _ _ _ _ _ (trace st)). apply inv_stack; [exact Hinv | lia|].
      cbn. destruct Hinv as [[Hs _] _]. exact Hs. }
    destruct (put_sound w cs pend (PType m n) r cs' rest st1 (OGlobal m n GType) (stack st) H Hi1 eq_refl eq_refl eq_refl
                        (fun _ => eq_refl) (noccur_all_noids pend (OGlobal m n GType) eq_refl)) as [st2 [Hr2 [Hs2 [Hn2 [Hi2 He2]]]]].
    exists st2. split; [|split; [exact Hs2 | split; [exact Hn2 | split; [exact Hi2 | exact He2]]]].
    rewrite (run_step_next w st _ st1 r H1). exact Hr2.
Qed.

(** * closing a batch: the target is mutated in place *)

Lemma mutate_stack : forall i c st t below,
  stack st = t :: below -> subst i c t = c -> forallb (ids_below i) below = true ->
  stack (mutate i c st) = c :: below.
Proof.
  intros i c st t below Hs Ht Hb. unfold mutate. cbn [stack]. rewrite Hs. cbn [map].
  rewrite Ht, (stack_subst_fresh _ _ _ Hb). reflexivity.
Qed.

(* what filling target [i] does to the memo: its own entry follows, entries older than [i] stay *)
Lemma mutate_memo_own : forall i c st s idx t,
  memo_get idx (memo st) = Some t -> subst i c t = c ->
  memo_get idx (memo (mutate i c (set_stack st s))) = Some c.
Proof. intros i c st s idx t H Ht. cbn [mutate set_stack memo]. rewrite memo_get_map_subst, H. cbn. rewrite Ht. reflexivity. Qed.
Lemma mutate_memo_old : forall i c st s idx o,
  memo_get idx (memo st) = Some o -> ids_below i o = true ->
  memo_get idx (memo (mutate i c (set_stack st s))) = Some o.
Proof.
  intros i c st s idx o H Hb. cbn [mutate set_stack memo]. rewrite memo_get_map_subst, H. cbn.
  rewrite (subst_fresh i c o Hb). reflexivity.
Qed.

Lemma nodup_atoms_prefix : forall l1 l2, nodup_atoms (l1 ++ l2) = true -> nodup_atoms l1 = true.
Proof.
  induction l1 as [|a r IH]; intros l2 H; cbn in *; [reflexivity|].
  apply andb_true_iff in H. destruct H as [H1 H2]. rewrite (IH _ H2), andb_true_r.
  apply negb_true_iff in H1. apply negb_true_iff. unfold mem_atom in *. rewrite existsb_app in H1.
  apply orb_false_iff in H1. apply H1.
Qed.

Lemma forallb_app_split : forall (A : Type) (f : A -> bool) l1 l2,
  forallb f (l1 ++ l2) = true -> forallb f l1 = true /\ forallb f l2 = true.
Proof. intros. rewrite forallb_app in H. apply andb_true_iff in H. exact H. Qed.

(* the bookkeeping every member loop carries for its target [i] (reserved memo index [pidx]) *)
Definition own_entry (pidx : option Z) (st : state) (t : obj) : Prop :=
  forall idx, pidx = Some idx -> memo_get idx (memo st) = Some t.
Definition old_kept (i : nat) (st st' : state) : Prop :=
  forall idx o, memo_get idx (memo st) = Some o -> ids_below i o = true -> memo_get idx (memo st') = Some o.
Lemma old_kept_refl : forall i st, old_kept i st st.
Proof. intros i st idx o H _. exact H. Qed.
Lemma old_kept_trans : forall i a b c, old_kept i a b -> old_kept i b c -> old_kept i a c.
Proof. intros i a b c H1 H2 idx o H Hb. apply H2; [apply H1; assumption | exact Hb]. Qed.
Lemma old_kept_ext : forall i a b, memo_ext a b -> old_kept i a b.
Proof. intros i a b H idx o Hg _. apply H. exact Hg. Qed.
Lemma own_entry_ext : forall pidx a b t, own_entry pidx a t -> memo_ext a b -> own_entry pidx b t.
Proof. intros pidx a b t H He idx E. apply He. apply H. exact E. Qed.

(* ADDITEMS on a set that already has members *)
Lemma additems_step : forall w cs pend st i prevA itemsA below pidx,
  inv cs pend st -> In i pend -> itemsA <> [] -> nodup_atoms (prevA ++ itemsA) = true ->
  stack st = (rev (map obj_of_atom itemsA) ++ OMark :: OSet i (map obj_of_atom prevA) :: below)%list ->
  forallb (ids_below i) below = true -> i < next st ->
  own_entry pidx st (OSet i (map obj_of_atom prevA)) ->
  exists st', step w st ADDITEMS = SNext st' /\
              stack st' = OSet i (map obj_of_atom (prevA ++ itemsA)) :: below /\
              next st' = next st /\ inv cs pend st' /\
              own_entry pidx st' (OSet i (map obj_of_atom (prevA ++ itemsA))) /\ old_kept i st st'.
Proof.
  intros w cs pend st i prevA itemsA below pidx Hinv Hin Hne Hnd Hs Hb Hlt Hown.
  set (c := OSet i (map obj_of_atom (prevA ++ itemsA))).
  exists (mutate i c (set_stack st (OSet i (map obj_of_atom prevA) :: below))).
  assert (Hsub : subst i c (OSet i (map obj_of_atom prevA)) = c) by (cbn [subst]; rewrite Nat.eqb_refl; reflexivity).
  split; [|split; [|split; [|split; [|split]]]].
  - cbn [step]. unfold with_mark. rewrite Hs, (to_mark_rev _ _ (no_mark_atoms itemsA)).
    unfold do_additems. cbn [pop1 is_mark].
    destruct (map obj_of_atom itemsA) as [|x r] eqn:E; [destruct itemsA; [contradiction | discriminate]|].
    rewrite <- E, (set_add_all_atoms itemsA prevA Hnd). reflexivity.
  - apply (mutate_stack i c _ (OSet i (map obj_of_atom prevA)) below); [reflexivity | exact Hsub | exact Hb].
  - reflexivity.
  - apply inv_mutate; [|exact Hin|].
    + apply inv_set_stack_sub; [exact Hinv|]. destruct Hinv as [[Hst _] _]. rewrite Hs in Hst.
      apply forallb_app_split in Hst. destruct Hst as [_ Hst]. cbn in Hst. exact Hst.
    + cbn [ids_below c]. rewrite ids_below_atoms, andb_true_r. apply Nat.ltb_lt. exact Hlt.
  - intros idx E. apply (mutate_memo_own i c st _ idx _ (Hown idx E) Hsub).
  - intros idx o Hg Ho. apply mutate_memo_old; assumption.
Qed.

Lemma set_items_sound : forall w xs inm cs pend prog cs' rest st i prevA batchA below pidx,
  chk_set_items xs inm cs prog = Some (cs', rest) -> inv cs pend st -> In i pend ->
  stack st = ((if inm then rev (map obj_of_atom batchA) ++ [OMark] else []) ++ OSet i (map obj_of_atom prevA) :: below)%list ->
  (inm = false -> batchA = []) ->
  nodup_atoms (prevA ++ batchA ++ xs) = true ->
  forallb (ids_below i) below = true -> i < next st ->
  own_entry pidx st (OSet i (map obj_of_atom prevA)) ->
  exists st', run w st prog = run w st' rest /\
              stack st' = OSet i (map obj_of_atom (prevA ++ batchA ++ xs)) :: below /\
              next st' = next st /\ inv cs' pend st' /\
              own_entry pidx st' (OSet i (map obj_of_atom (prevA ++ batchA ++ xs))) /\ old_kept i st st'.
Proof.
  intros w. induction xs as [|a r IH];
    intros inm cs pend prog cs' rest st i prevA batchA below pidx H Hinv Hin Hs Hbat Hnd Hb Hlt Hown;
    cbn [chk_set_items] in H.
  - destruct inm; [discriminate|]. inversion H; subst cs' rest. rewrite (Hbat eq_refl) in *. cbn [app] in *.
    exists st. rewrite !app_nil_r. split; [reflexivity|]. split; [exact Hs|]. split; [reflexivity|].
    split; [exact Hinv|]. split; [exact Hown | apply old_kept_refl].
  - assert (Henter : exists st0 p0, run w st prog = run w st0 p0 /\
              (if inm then Some prog else match prog with MARK :: p => Some p | _ => None end) = Some p0 /\
              stack st0 = (rev (map obj_of_atom batchA) ++ OMark :: OSet i (map obj_of_atom prevA) :: below)%list /\
              next st0 = next st /\ inv cs pend st0 /\ memo_ext st st0).
    { destruct inm.
      - exists st, prog. rewrite Hs, <- app_assoc. split; [reflexivity|]. split; [reflexivity|]. split; [reflexivity|].
        split; [reflexivity|]. split; [exact Hinv | apply memo_ext_refl].
      - rewrite (Hbat eq_refl) in *. destruct prog as [|q p]; [discriminate|]. destruct q; try discriminate.
        exists (push OMark st), p. split; [apply run_step_next; reflexivity|]. split; [reflexivity|].
        split; [cbn; rewrite Hs; reflexivity|]. split; [reflexivity|].
        split; [apply inv_push; [exact Hinv | reflexivity] | apply memo_ext_same; reflexivity]. }
    destruct Henter as [st0 [p0 [Hr0 [Hp0 [Hs0 [Hn0 [Hi0 He0]]]]]]]. rewrite Hp0 in H. clear Hp0.
    destruct (chk_atom a cs p0) as [[cs1 p1]|] eqn:Ea; [|discriminate].
    destruct (atom_sound w a cs pend p0 cs1 p1 st0 Ea Hi0) as [st1 [Hr1 [Hs1 [Hn1 [Hi1 He1]]]]].
    assert (He01 : memo_ext st st1) by exact (memo_ext_trans _ _ _ He0 He1).
    assert (Hs1' : stack st1 = (rev (map obj_of_atom (batchA ++ [a])) ++ OMark :: OSet i (map obj_of_atom prevA) :: below)%list).
    { rewrite Hs1, Hs0, map_app, rev_app_distr. reflexivity. }
    assert (Hopen : chk_set_items r true cs1 p1 = Some (cs', rest) ->
              exists st', run w st prog = run w st' rest /\
                stack st' = OSet i (map obj_of_atom (prevA ++ batchA ++ a :: r)) :: below /\
                next st' = next st /\ inv cs' pend st' /\
                own_entry pidx st' (OSet i (map obj_of_atom (prevA ++ batchA ++ a :: r))) /\ old_kept i st st').
    { intro H'. destruct (IH true cs1 pend p1 cs' rest st1 i prevA (batchA ++ [a]) below pidx H' Hi1 Hin)
        as [st' [Hr' [Hs' [Hn' [Hi' [Ho' Hk']]]]]].
      - rewrite Hs1', <- app_assoc. reflexivity.
      - discriminate.
      - rewrite <- app_assoc. exact Hnd.
      - exact Hb.
      - lia.
      - exact (own_entry_ext _ _ _ _ Hown He01).
      - exists st'. split; [rewrite Hr0, Hr1; exact Hr'|]. rewrite <- app_assoc in Hs', Ho'.
        split; [exact Hs'|]. split; [lia|]. split; [exact Hi'|]. split; [exact Ho'|].
        exact (old_kept_trans _ _ _ _ (old_kept_ext i _ _ He01) Hk'). }
    destruct p1 as [|q p1']; [apply Hopen; exact H|].
    destruct q; try (apply Hopen; exact H).
    assert (Hnd1 : nodup_atoms (prevA ++ (batchA ++ [a])) = true).
    { apply (nodup_atoms_prefix _ r). rewrite <- !app_assoc. exact Hnd. }
    destruct (additems_step w cs1 pend st1 i prevA (batchA ++ [a]) below pidx Hi1 Hin)
      as [st2 [Hst2 [Hs2 [Hn2 [Hi2 [Ho2 Hk2]]]]]].
    + destruct batchA; discriminate.
    + exact Hnd1.
    + exact Hs1'.
    + exact Hb.
    + lia.
    + exact (own_entry_ext _ _ _ _ Hown He01).
    + destruct (IH false cs1 pend p1' cs' rest st2 i (prevA ++ batchA ++ [a]) [] below pidx H Hi2 Hin)
        as [st' [Hr' [Hs' [Hn' [Hi' [Ho' Hk']]]]]].
      * exact Hs2.
      * reflexivity.
      * cbn [app]. rewrite <- !app_assoc. exact Hnd.
      * exact Hb.
      * lia.
      * exact Ho2.
      * exists st'. split; [rewrite Hr0, Hr1, (run_step_next w st1 ADDITEMS st2 p1' Hst2); exact Hr'|].
        cbn [app] in Hs', Ho'. rewrite <- !app_assoc in Hs', Ho'. split; [exact Hs'|]. split; [lia|]. split; [exact Hi'|].
        split; [exact Ho'|].
        exact (old_kept_trans _ _ _ _ (old_kept_ext i _ _ He01) (old_kept_trans _ _ _ _ Hk2 Hk')).
Qed.

(** * the generic member loops *)

Definition member_sound (w : world) (chkf : pv -> cstate -> list op -> option (cstate * list op)) (x : pv) : Prop :=
  forall cs prog cs' rest, chkf x cs prog = Some (cs', rest) ->
  forall pend st, inv cs pend st -> Forall (fun j => j < next st) pend ->
  exists o st', run w st prog = run w st' rest /\ stack st' = o :: stack st /\ decode o = Some x /\
    is_mark o = false /\ (idfree x = true -> o = canon_obj x) /\ noccur_all pend o = true /\
    inv cs' pend st' /\ next st <= next st' /\ memo_ext st st'.

Lemma pend_mono : forall pend n m, n <= m -> Forall (fun j => j < n) pend -> Forall (fun j => j < m) pend.
Proof. intros pend n m H HF. induction HF; constructor; [lia | assumption]. Qed.

Lemma seq_sound : forall w chkf xs, Forall (member_sound w chkf) xs ->
  forall cs prog cs' rest pend st, seq_gen chkf xs cs prog = Some (cs', rest) -> inv cs pend st ->
  Forall (fun j => j < next st) pend ->
  exists os st', run w st prog = run w st' rest /\ stack st' = (rev os ++ stack st)%list /\
    Forall2 (fun o v => decode o = Some v) os xs /\ existsb is_mark os = false /\
    (forallb idfree xs = true -> os = map canon_obj xs) /\ forallb (noccur_all pend) os = true /\
    inv cs' pend st' /\ next st <= next st' /\ memo_ext st st'.
Proof.
  intros w chkf xs HF. induction HF as [|x r Hx Hr IH]; intros cs prog cs' rest pend st H Hinv Hp; cbn [seq_gen] in H.
  - inversion H; subst. exists [], st. cbn.
    split; [reflexivity|]. split; [reflexivity|]. split; [constructor|]. split; [reflexivity|].
    split; [reflexivity|]. split; [reflexivity|]. split; [exact Hinv|]. split; [lia | apply memo_ext_refl].
  - destruct (chkf x cs prog) as [[cs1 p1]|] eqn:E; [|discriminate].
    destruct (Hx cs prog cs1 p1 E pend st Hinv Hp) as [o [st1 [Hr1 [Hs1 [Hd1 [Hm1 [Hc1 [Hno1 [Hi1 [Hn1 He1]]]]]]]]]].
    destruct (IH cs1 p1 cs' rest pend st1 H Hi1 (pend_mono _ _ _ Hn1 Hp))
      as [os [st2 [Hr2 [Hs2 [Hd2 [Hm2 [Hc2 [Hno2 [Hi2 [Hn2 He2]]]]]]]]]].
    exists (o :: os), st2. split; [rewrite Hr1; exact Hr2|].
    split; [rewrite Hs2, Hs1; cbn [rev]; rewrite <- app_assoc; reflexivity|].
    split; [constructor; assumption|]. split; [cbn; rewrite Hm1; exact Hm2|].
    split; [|split; [cbn; rewrite Hno1; exact Hno2|]].
    + intro Hf. cbn in Hf. apply andb_true_iff in Hf. destruct Hf as [F1 F2]. cbn [map]. rewrite (Hc1 F1), (Hc2 F2). reflexivity.
    + split; [exact Hi2|]. split; [lia | exact (memo_ext_trans _ _ _ He1 He2)].
Qed.

Lemma appends_step : forall w cs pend st i prev items below pidx,
  inv cs pend st -> In i pend -> items <> [] -> existsb is_mark items = false ->
  stack st = (rev items ++ OMark :: OList i prev :: below)%list ->
  forallb (ids_below i) below = true -> i < next st -> own_entry pidx st (OList i prev) ->
  exists st', step w st APPENDS = SNext st' /\ stack st' = OList i (prev ++ items) :: below /\
              next st' = next st /\ inv cs pend st' /\ own_entry pidx st' (OList i (prev ++ items)) /\ old_kept i st st'.
Proof.
  intros w cs pend st i prev items below pidx Hinv Hin Hne Hm Hs Hb Hlt Hown.
  set (c := OList i (prev ++ items)).
  exists (mutate i c (set_stack st (OList i prev :: below))).
  assert (Hsub : subst i c (OList i prev) = c) by (cbn [subst]; rewrite Nat.eqb_refl; reflexivity).
  pose proof Hinv as [[Hst _] _]. rewrite Hs in Hst.
  apply forallb_app_split in Hst. destruct Hst as [Hit Hst']. rewrite forallb_rev' in Hit.
  cbn [forallb] in Hst'. apply andb_true_iff in Hst'. destruct Hst' as [_ Hst'].
  split; [|split; [|split; [|split; [|split]]]].
  - cbn [step]. unfold with_mark. rewrite Hs, (to_mark_rev _ _ Hm). unfold do_extend. cbn [pop1 is_mark].
    destruct items as [|x r]; [contradiction|]. reflexivity.
  - apply (mutate_stack i c _ (OList i prev) below); [reflexivity | exact Hsub | exact Hb].
  - reflexivity.
  - apply inv_mutate; [apply inv_set_stack_sub; assumption | exact Hin|].
    cbn [forallb ids_below] in Hst'. apply andb_true_iff in Hst'. destruct Hst' as [Ht _].
    apply andb_true_iff in Ht. destruct Ht as [Hl Hp].
    cbn [ids_below c set_stack next]. rewrite Hl, forallb_app, Hp, Hit. reflexivity.
  - intros idx E. apply (mutate_memo_own i c st _ idx _ (Hown idx E) Hsub).
  - intros idx o Hg Ho. apply mutate_memo_old; assumption.
Qed.

Lemma append_step : forall w cs pend st i prev o below pidx,
  inv cs pend st -> In i pend -> is_mark o = false ->
  stack st = o :: OList i prev :: below ->
  forallb (ids_below i) below = true -> i < next st -> own_entry pidx st (OList i prev) ->
  exists st', step w st APPEND = SNext st' /\ stack st' = OList i (prev ++ [o]) :: below /\
              next st' = next st /\ inv cs pend st' /\ own_entry pidx st' (OList i (prev ++ [o])) /\ old_kept i st st'.
Proof.
  intros w cs pend st i prev o below pidx Hinv Hin Hm Hs Hb Hlt Hown.
  set (c := OList i (prev ++ [o])).
  exists (mutate i c (set_stack st (OList i prev :: below))).
  assert (Hsub : subst i c (OList i prev) = c) by (cbn [subst]; rewrite Nat.eqb_refl; reflexivity).
  pose proof Hinv as [[Hst _] _]. rewrite Hs in Hst.
  cbn [forallb] in Hst. apply andb_true_iff in Hst. destruct Hst as [Ho Hst'].
  split; [|split; [|split; [|split; [|split]]]].
  - cbn [step]. rewrite Hs. cbn [pop1]. rewrite Hm. unfold do_extend. cbn [pop1 is_mark]. reflexivity.
  - apply (mutate_stack i c _ (OList i prev) below); [reflexivity | exact Hsub | exact Hb].
  - reflexivity.
  - apply inv_mutate; [apply inv_set_stack_sub; assumption | exact Hin|].
    cbn [forallb ids_below] in Hst'. apply andb_true_iff in Hst'. destruct Hst' as [Ht _].
    apply andb_true_iff in Ht. destruct Ht as [Hl Hp].
    cbn [ids_below c set_stack next]. rewrite Hl, forallb_app, Hp. cbn. rewrite Ho. reflexivity.
  - intros idx E. apply (mutate_memo_own i c st _ idx _ (Hown idx E) Hsub).
  - intros idx x Hg Hx. apply mutate_memo_old; assumption.
Qed.

Definition items_res (w : world) (cs' : cstate) (pend : list nat) (st : state) (prog rest : list op)
    (i : nat) (prev batch below : list obj) (pidx : option Z) (xs : list pv) : Prop :=
  exists os st', run w st prog = run w st' rest /\ stack st' = OList i (prev ++ batch ++ os) :: below /\
     Forall2 (fun o v => decode o = Some v) os xs /\ forallb (noccur_all pend) (prev ++ batch ++ os) = true /\
     inv cs' pend st' /\ next st <= next st' /\
     own_entry pidx st' (OList i (prev ++ batch ++ os)) /\ old_kept i st st'.

Lemma items_sound : forall w chkf xs, Forall (member_sound w chkf) xs ->
  forall inm cs pend prog cs' rest st i prev batch below pidx,
  items_gen chkf xs inm cs prog = Some (cs', rest) -> inv cs pend st -> In i pend ->
  Forall (fun j => j < next st) pend ->
  stack st = ((if inm then rev batch ++ [OMark] else []) ++ OList i prev :: below)%list ->
  (inm = false -> batch = []) -> existsb is_mark batch = false ->
  forallb (noccur_all pend) (prev ++ batch) = true ->
  forallb (ids_below i) below = true -> own_entry pidx st (OList i prev) ->
  items_res w cs' pend st prog rest i prev batch below pidx xs.
Proof.
  intros w chkf xs HF. induction HF as [|x r Hx Hr IH];
    intros inm cs pend prog cs' rest st i prev batch below pidx H Hinv Hin Hp Hs Hbat Hmk Hno Hb Hown;
    cbn [items_gen] in H; unfold items_res.
  - destruct inm; [discriminate|]. inversion H; subst cs' rest. rewrite (Hbat eq_refl) in *. cbn [app] in *.
    exists [], st. rewrite !app_nil_r in *.
    split; [reflexivity|]. split; [exact Hs|]. split; [constructor|]. split; [exact Hno|]. split; [exact Hinv|].
    split; [lia|]. split; [exact Hown | apply old_kept_refl].
  - assert (Hilt : i < next st) by (rewrite Forall_forall in Hp; apply Hp; exact Hin).
    assert (Hbatch : forall st0 p0,
              run w st prog = run w st0 p0 -> next st0 = next st -> inv cs pend st0 -> memo_ext st st0 ->
              stack st0 = (rev batch ++ OMark :: OList i prev :: below)%list ->
              match chkf x cs p0 with
              | Some (cs1, p1) => match p1 with
                                  | APPENDS :: p2 => items_gen chkf r false cs1 p2
                                  | _ => items_gen chkf r true cs1 p1
                                  end
              | None => None
              end = Some (cs', rest) ->
              items_res w cs' pend st prog rest i prev batch below pidx (x :: r)).
    { intros st0 p0 Hr0 Hn0 Hi0 He0 Hs0 H0. unfold items_res.
      destruct (chkf x cs p0) as [[cs1 p1]|] eqn:E; [|discriminate].
      assert (Hp0 : Forall (fun j => j < next st0) pend) by (rewrite Hn0; exact Hp).
      destruct (Hx cs p0 cs1 p1 E pend st0 Hi0 Hp0) as [o [st1 [Hr1 [Hs1 [Hd1 [Hm1 [_ [Hno1 [Hi1 [Hn1 He1]]]]]]]]]].
      assert (He01 : memo_ext st st1) by exact (memo_ext_trans _ _ _ He0 He1).
      assert (Hs1' : stack st1 = (rev (batch ++ [o]) ++ OMark :: OList i prev :: below)%list).
      { rewrite Hs1, Hs0, rev_app_distr. reflexivity. }
      assert (Hmk1 : existsb is_mark (batch ++ [o]) = false).
      { rewrite existsb_app, Hmk. cbn. rewrite Hm1. reflexivity. }
      assert (Hno' : forallb (noccur_all pend) (prev ++ batch ++ [o]) = true).
      { rewrite app_assoc, forallb_app, Hno. cbn. rewrite Hno1. reflexivity. }
      assert (Hp1 : Forall (fun j => j < next st1) pend) by (apply (pend_mono _ (next st)); [lia | exact Hp]).
      assert (Hopen : items_gen chkf r true cs1 p1 = Some (cs', rest) ->
                items_res w cs' pend st prog rest i prev batch below pidx (x :: r)).
      { intro H'. destruct (IH true cs1 pend p1 cs' rest st1 i prev (batch ++ [o]) below pidx H' Hi1 Hin Hp1)
          as [os [st' [Hr' [Hs' [Hd' [Hno'' [Hi' [Hn' [Ho' Hk']]]]]]]]].
        - rewrite Hs1', <- app_assoc. reflexivity.
        - discriminate.
        - exact Hmk1.
        - exact Hno'.
        - exact Hb.
        - exact (own_entry_ext _ _ _ _ Hown He01).
        - exists (o :: os), st'. rewrite <- !app_assoc in Hs', Hno'', Ho'. cbn [app] in Hs', Hno'', Ho'.
          split; [rewrite Hr0, Hr1; exact Hr'|]. split; [exact Hs'|]. split; [constructor; assumption|].
          split; [exact Hno''|]. split; [exact Hi'|]. split; [lia|]. split; [exact Ho'|].
          exact (old_kept_trans _ _ _ _ (old_kept_ext i _ _ He01) Hk'). }
      destruct p1 as [|q p1']; [apply Hopen; exact H0|].
      destruct q; try (apply Hopen; exact H0).
      destruct (appends_step w cs1 pend st1 i prev (batch ++ [o]) below pidx Hi1 Hin)
        as [st2 [Hst2 [Hs2 [Hn2 [Hi2 [Ho2 Hk2]]]]]].
      + destruct batch; discriminate.
      + exact Hmk1.
      + exact Hs1'.
      + exact Hb.
      + lia.
      + exact (own_entry_ext _ _ _ _ Hown He01).
      + assert (Hp2 : Forall (fun j => j < next st2) pend) by (rewrite Hn2; exact Hp1).
        destruct (IH false cs1 pend p1' cs' rest st2 i (prev ++ batch ++ [o]) [] below pidx H0 Hi2 Hin Hp2)
          as [os [st' [Hr' [Hs' [Hd' [Hno'' [Hi' [Hn' [Ho' Hk']]]]]]]]].
        * exact Hs2.
        * reflexivity.
        * reflexivity.
        * rewrite app_nil_r. exact Hno'.
        * exact Hb.
        * exact Ho2.
        * exists (o :: os), st'. cbn [app] in Hs', Hno'', Ho'. rewrite <- !app_assoc in Hs', Hno'', Ho'. cbn [app] in Hs', Hno'', Ho'.
          split; [rewrite Hr0, Hr1, (run_step_next w st1 APPENDS st2 p1' Hst2); exact Hr'|].
          split; [exact Hs'|]. split; [constructor; assumption|]. split; [exact Hno''|]. split; [exact Hi'|].
          split; [lia|]. split; [exact Ho'|].
          exact (old_kept_trans _ _ _ _ (old_kept_ext i _ _ He01) (old_kept_trans _ _ _ _ Hk2 Hk')). }
    assert (Hsingle : inm = false ->
              match chkf x cs prog with
              | Some (cs1, p1) => match p1 with APPEND :: p2 => items_gen chkf r false cs1 p2 | _ => None end
              | None => None
              end = Some (cs', rest) ->
              items_res w cs' pend st prog rest i prev batch below pidx (x :: r)).
    { intros Einm H0. unfold items_res. subst inm. rewrite (Hbat eq_refl) in *. cbn [app] in Hs. rewrite app_nil_r in Hno.
      destruct (chkf x cs prog) as [[cs1 p1]|] eqn:E; [|discriminate].
      destruct p1 as [|q p2]; [discriminate|]. destruct q; try discriminate.
      destruct (Hx cs prog cs1 _ E pend st Hinv Hp) as [o [st1 [Hr1 [Hs1 [Hd1 [Hm1 [_ [Hno1 [Hi1 [Hn1 He1]]]]]]]]]].
      assert (Hp1 : Forall (fun j => j < next st1) pend) by (apply (pend_mono _ (next st)); [lia | exact Hp]).
      destruct (append_step w cs1 pend st1 i prev o below pidx Hi1 Hin Hm1) as [st2 [Hst2 [Hs2 [Hn2 [Hi2 [Ho2 Hk2]]]]]].
      + rewrite Hs1, Hs. reflexivity.
      + exact Hb.
      + lia.
      + exact (own_entry_ext _ _ _ _ Hown He1).
      + assert (Hp2 : Forall (fun j => j < next st2) pend) by (rewrite Hn2; exact Hp1).
        destruct (IH false cs1 pend p2 cs' rest st2 i (prev ++ [o]) [] below pidx H0 Hi2 Hin Hp2)
          as [os [st' [Hr' [Hs' [Hd' [Hno'' [Hi' [Hn' [Ho' Hk']]]]]]]]].
        * exact Hs2.
        * reflexivity.
        * reflexivity.
        * rewrite app_nil_r, forallb_app, Hno. cbn. rewrite Hno1. reflexivity.
        * exact Hb.
        * exact Ho2.
        * exists (o :: os), st'. cbn [app] in Hs', Hno'', Ho'. rewrite <- !app_assoc in Hs', Hno'', Ho'. cbn [app] in *.
          split; [rewrite Hr1, (run_step_next w st1 APPEND st2 p2 Hst2); exact Hr'|].
          split; [exact Hs'|]. split; [constructor; assumption|]. split; [exact Hno''|]. split; [exact Hi'|].
          split; [lia|]. split; [exact Ho'|].
          exact (old_kept_trans _ _ _ _ (old_kept_ext i _ _ He1) (old_kept_trans _ _ _ _ Hk2 Hk')). }
    destruct inm.
    + apply (Hbatch st prog); [reflexivity | reflexivity | exact Hinv | apply memo_ext_refl | | exact H].
      rewrite Hs, <- app_assoc. reflexivity.
    + destruct prog as [|q p]; [apply Hsingle; [reflexivity | exact H]|].
      destruct q; try (apply Hsingle; [reflexivity | exact H]).
      (* MARK: a batch, or the first opcode of x itself *)
      match type of H with
      | match ?t with Some res => Some res | None => _ end = _ => destruct t as [res|] eqn:Eb
      end; [|apply Hsingle; [reflexivity | exact H]].
      inversion H; subst res. clear H.
      pose proof (Hbat eq_refl) as Eb0. subst batch.
      apply (Hbatch (push OMark st) p); [| reflexivity | | apply memo_ext_same; reflexivity | | exact Eb].
      * apply run_step_next. reflexivity.
      * apply inv_push; [exact Hinv | reflexivity].
      * cbn. rewrite Hs. reflexivity.
Qed.

(** * dict batches *)

Lemma flatten_app : forall a b, flatten (a ++ b) = (flatten a ++ flatten b)%list.
Proof. intros. unfold flatten. apply flat_map_app. Qed.

Lemma forallb_flatten : forall n ps, forallb (ids_below n) (flatten ps) = true ->
  forallb (fun kv => ids_below n (fst kv) && ids_below n (snd kv)) ps = true.
Proof.
  intros n. induction ps as [|[k v] r IH]; cbn; [auto|]. intro H.
  apply andb_true_iff in H. destruct H as [Hk H]. apply andb_true_iff in H. destruct H as [Hv H].
  rewrite Hk, Hv, (IH H). reflexivity.
Qed.

Lemma hashable_atoms : forall xs, forallb hashable (map obj_of_atom xs) = true.
Proof. induction xs as [|a r IH]; cbn; [reflexivity|]. rewrite hashable_atom. exact IH. Qed.

Lemma dict_step_common : forall cs pend st i prev ps below ka kb pidx,
  inv cs pend st -> In i pend -> forallb (ids_below (next st)) (flatten ps) = true ->
  forallb (ids_below (next st)) (ODict i prev :: below) = true ->
  map fst prev = map obj_of_atom ka -> map fst ps = map obj_of_atom kb -> nodup_atoms (ka ++ kb) = true ->
  forallb (ids_below i) below = true -> own_entry pidx st (ODict i prev) ->
  let st' := mutate i (ODict i (prev ++ ps)) (set_stack st (ODict i prev :: below)) in
  dict_set_all ps prev = Some (prev ++ ps)%list /\
  stack st' = ODict i (prev ++ ps) :: below /\ inv cs pend st' /\
  own_entry pidx st' (ODict i (prev ++ ps)) /\ old_kept i st st'.
Proof.
  intros cs pend st i prev ps below ka kb pidx Hinv Hin Hps Hst Hka Hkb Hnd Hb Hown st'.
  assert (Hsub : subst i (ODict i (prev ++ ps)) (ODict i prev) = ODict i (prev ++ ps))
    by (cbn [subst]; rewrite Nat.eqb_refl; reflexivity).
  split; [|split; [|split; [|split]]].
  - apply dict_set_all_fresh; [rewrite Hkb; apply hashable_atoms|].
    rewrite Hka, Hkb, <- map_app, nodup_keys_atoms. exact Hnd.
  - apply (mutate_stack i _ _ (ODict i prev) below); [reflexivity | exact Hsub | exact Hb].
  - apply inv_mutate; [apply inv_set_stack_sub; assumption | exact Hin|].
    cbn [forallb ids_below] in Hst. apply andb_true_iff in Hst. destruct Hst as [Ht _].
    apply andb_true_iff in Ht. destruct Ht as [Hl Hp].
    cbn [ids_below set_stack next]. rewrite Hl, forallb_app, Hp, (forallb_flatten _ _ Hps). reflexivity.
  - intros idx E. apply (mutate_memo_own i _ st _ idx _ (Hown idx E) Hsub).
  - intros idx o Hg Ho. apply mutate_memo_old; assumption.
Qed.

Lemma setitems_step : forall w cs pend st i prev ps below ka kb pidx,
  inv cs pend st -> In i pend -> ps <> [] -> existsb is_mark (flatten ps) = false ->
  stack st = (rev (flatten ps) ++ OMark :: ODict i prev :: below)%list ->
  map fst prev = map obj_of_atom ka -> map fst ps = map obj_of_atom kb -> nodup_atoms (ka ++ kb) = true ->
  forallb (ids_below i) below = true -> own_entry pidx st (ODict i prev) ->
  exists st', step w st SETITEMS = SNext st' /\ stack st' = ODict i (prev ++ ps) :: below /\
              next st' = next st /\ inv cs pend st' /\ own_entry pidx st' (ODict i (prev ++ ps)) /\ old_kept i st st'.
Proof.
  intros w cs pend st i prev ps below ka kb pidx Hinv Hin Hne Hm Hs Hka Hkb Hnd Hb Hown.
  pose proof Hinv as [[Hst _] _]. rewrite Hs in Hst. apply forallb_app_split in Hst. destruct Hst as [Hit Hst].
  rewrite forallb_rev' in Hit. cbn [forallb] in Hst. apply andb_true_iff in Hst. destruct Hst as [_ Hst].
  destruct (dict_step_common cs pend st i prev ps below ka kb pidx Hinv Hin Hit Hst Hka Hkb Hnd Hb Hown)
    as [Hd [Hs' [Hi' [Ho' Hk']]]].
  eexists. split; [|split; [exact Hs' | split; [reflexivity | split; [exact Hi' | split; [exact Ho' | exact Hk']]]]].
  cbn [step]. unfold with_mark. rewrite Hs, (to_mark_rev _ _ Hm). unfold do_setitems. cbn [pop1 is_mark].
  destruct (flatten ps) as [|x r] eqn:E; [destruct ps as [|[k v] ps']; [contradiction | discriminate]|].
  rewrite <- E, pairs_of_flatten, Hd. reflexivity.
Qed.

Lemma setitem_step : forall w cs pend st i prev v below ka a pidx,
  inv cs pend st -> In i pend -> is_mark v = false ->
  stack st = v :: obj_of_atom a :: ODict i prev :: below ->
  map fst prev = map obj_of_atom ka -> nodup_atoms (ka ++ [a]) = true ->
  forallb (ids_below i) below = true -> own_entry pidx st (ODict i prev) ->
  exists st', step w st SETITEM = SNext st' /\ stack st' = ODict i (prev ++ [(obj_of_atom a, v)]) :: below /\
              next st' = next st /\ inv cs pend st' /\
              own_entry pidx st' (ODict i (prev ++ [(obj_of_atom a, v)])) /\ old_kept i st st'.
Proof.
  intros w cs pend st i prev v below ka a pidx Hinv Hin Hm Hs Hka Hnd Hb Hown.
  pose proof Hinv as [[Hst _] _]. rewrite Hs in Hst. cbn [forallb] in Hst.
  apply andb_true_iff in Hst. destruct Hst as [Hv Hst]. apply andb_true_iff in Hst. destruct Hst as [Hk Hst].
  destruct (dict_step_common cs pend st i prev [(obj_of_atom a, v)] below ka [a] pidx Hinv Hin)
    as [Hd [Hs' [Hi' [Ho' Hk']]]]; try assumption; try reflexivity.
  { cbn. rewrite Hk, Hv. reflexivity. }
  eexists. split; [|split; [exact Hs' | split; [reflexivity | split; [exact Hi' | split; [exact Ho' | exact Hk']]]]].
  cbn [step]. rewrite Hs. cbn [pop1]. rewrite Hm. cbn [pop1]. rewrite (is_mark_atom a).
  unfold do_setitems. cbn [pop1 is_mark pairs_of]. rewrite Hd. reflexivity.
Qed.

Definition kitems_res (w : world) (cs' : cstate) (pend : list nat) (st : state) (prog rest : list op)
    (i : nat) (prev batch : list (obj * obj)) (below : list obj) (pidx : option Z) (kvs : list (atom * pv)) : Prop :=
  exists ps st', run w st prog = run w st' rest /\ stack st' = ODict i (prev ++ batch ++ ps) :: below /\
     Forall2 (fun p kv => fst p = obj_of_atom (fst kv) /\ decode (snd p) = Some (snd kv)) ps kvs /\
     forallb (noccur_all pend) (map snd (prev ++ batch ++ ps)) = true /\
     inv cs' pend st' /\ next st <= next st' /\
     own_entry pidx st' (ODict i (prev ++ batch ++ ps)) /\ old_kept i st st'.

Lemma kitems_sound : forall w chkf (kvs : list (atom * pv)), Forall (fun kv => member_sound w chkf (snd kv)) kvs ->
  forall inm cs pend prog cs' rest st i prev batch below ka kb pidx,
  kitems_gen chkf kvs inm cs prog = Some (cs', rest) -> inv cs pend st -> In i pend ->
  Forall (fun j => j < next st) pend ->
  stack st = ((if inm then rev (flatten batch) ++ [OMark] else []) ++ ODict i prev :: below)%list ->
  (inm = false -> batch = []) -> existsb is_mark (flatten batch) = false ->
  map fst prev = map obj_of_atom ka -> map fst batch = map obj_of_atom kb ->
  nodup_atoms (ka ++ kb ++ map fst kvs) = true ->
  forallb (noccur_all pend) (map snd (prev ++ batch)) = true ->
  forallb (ids_below i) below = true -> own_entry pidx st (ODict i prev) ->
  kitems_res w cs' pend st prog rest i prev batch below pidx kvs.
Proof.
  intros w chkf kvs HF. induction HF as [|[k x] r Hx Hr IH];
    intros inm cs pend prog cs' rest st i prev batch below ka kb pidx H Hinv Hin Hp Hs Hbat Hmk Hka Hkb Hnd Hno Hb Hown;
    cbn [kitems_gen] in H; unfold kitems_res.
  - destruct inm; [discriminate|]. inversion H; subst cs' rest. rewrite (Hbat eq_refl) in *. cbn [app] in *.
    exists [], st. rewrite !app_nil_r in *.
    split; [reflexivity|]. split; [exact Hs|]. split; [constructor|]. split; [exact Hno|]. split; [exact Hinv|].
    split; [lia|]. split; [exact Hown | apply old_kept_refl].
  - cbn [snd] in Hx. cbn [map fst] in Hnd.
    assert (Hbatch : forall st0 p0,
              run w st prog = run w st0 p0 -> next st0 = next st -> inv cs pend st0 -> memo_ext st st0 ->
              stack st0 = (rev (flatten batch) ++ OMark :: ODict i prev :: below)%list ->
              match chk_atom k cs p0 with
              | Some (cs2, p2) =>
                  match chkf x cs2 p2 with
                  | Some (cs3, p3) => match p3 with
                                      | SETITEMS :: p4 => kitems_gen chkf r false cs3 p4
                                      | _ => kitems_gen chkf r true cs3 p3
                                      end
                  | None => None
                  end
              | None => None
              end = Some (cs', rest) ->
              kitems_res w cs' pend st prog rest i prev batch below pidx ((k, x) :: r)).
    { intros st0 p0 Hr0 Hn0 Hi0 He0 Hs0 H0. unfold kitems_res.
      destruct (chk_atom k cs p0) as [[cs2 p2]|] eqn:Ek; [|discriminate].
      destruct (atom_sound w k cs pend p0 cs2 p2 st0 Ek Hi0) as [sta [Hra [Hsa [Hna [Hia Hea]]]]].
      destruct (chkf x cs2 p2) as [[cs3 p3]|] eqn:E; [|discriminate].
      assert (Hpa : Forall (fun j => j < next sta) pend) by (rewrite Hna, Hn0; exact Hp).
      destruct (Hx cs2 p2 cs3 p3 E pend sta Hia Hpa) as [o [st1 [Hr1 [Hs1 [Hd1 [Hm1 [_ [Hno1 [Hi1 [Hn1 He1]]]]]]]]]].
      assert (He01 : memo_ext st st1) by exact (memo_ext_trans _ _ _ He0 (memo_ext_trans _ _ _ Hea He1)).
      set (batch1 := (batch ++ [(obj_of_atom k, o)])%list).
      assert (Hs1' : stack st1 = (rev (flatten batch1) ++ OMark :: ODict i prev :: below)%list).
      { unfold batch1. rewrite Hs1, Hsa, Hs0, flatten_app, rev_app_distr. reflexivity. }
      assert (Hmk1 : existsb is_mark (flatten batch1) = false).
      { unfold batch1. rewrite flatten_app, existsb_app, Hmk. cbn. rewrite is_mark_atom, Hm1. reflexivity. }
      assert (Hkb1 : map fst batch1 = map obj_of_atom (kb ++ [k])).
      { unfold batch1. rewrite !map_app, Hkb. reflexivity. }
      assert (Hno' : forallb (noccur_all pend) (map snd (prev ++ batch1)) = true).
      { unfold batch1. rewrite app_assoc, map_app, forallb_app, Hno. cbn. rewrite Hno1. reflexivity. }
      assert (Hp1 : Forall (fun j => j < next st1) pend) by (apply (pend_mono _ (next st)); [lia | exact Hp]).
      assert (Hopen : kitems_gen chkf r true cs3 p3 = Some (cs', rest) ->
                kitems_res w cs' pend st prog rest i prev batch below pidx ((k, x) :: r)).
      { intro H'.
        destruct (IH true cs3 pend p3 cs' rest st1 i prev batch1 below ka (kb ++ [k]) pidx H' Hi1 Hin Hp1)
          as [ps [st' [Hr' [Hs' [Hd' [Hno'' [Hi' [Hn' [Ho' Hk']]]]]]]]].
        - rewrite Hs1', <- app_assoc. reflexivity.
        - discriminate.
        - exact Hmk1.
        - exact Hka.
        - exact Hkb1.
        - rewrite <- app_assoc. exact Hnd.
        - exact Hno'.
        - exact Hb.
        - exact (own_entry_ext _ _ _ _ Hown He01).
        - exists ((obj_of_atom k, o) :: ps), st'. unfold batch1 in Hs', Hno'', Ho'. rewrite <- !app_assoc in Hs', Hno'', Ho'.
          cbn [app] in Hs', Hno'', Ho'.
          split; [rewrite Hr0, Hra, Hr1; exact Hr'|]. split; [exact Hs'|].
          split; [constructor; [split; [reflexivity | exact Hd1] | exact Hd']|]. split; [exact Hno''|].
          split; [exact Hi'|]. split; [lia|]. split; [exact Ho'|].
          exact (old_kept_trans _ _ _ _ (old_kept_ext i _ _ He01) Hk'). }
      destruct p3 as [|q p4]; [apply Hopen; exact H0|].
      destruct q; try (apply Hopen; exact H0).
      destruct (setitems_step w cs3 pend st1 i prev batch1 below ka (kb ++ [k]) pidx Hi1 Hin)
        as [st2 [Hst2 [Hs2 [Hn2 [Hi2 [Ho2 Hk2]]]]]].
      + unfold batch1. destruct batch; discriminate.
      + exact Hmk1.
      + exact Hs1'.
      + exact Hka.
      + exact Hkb1.
      + apply (nodup_atoms_prefix _ (map fst r)). rewrite <- !app_assoc. exact Hnd.
      + exact Hb.
      + exact (own_entry_ext _ _ _ _ Hown He01).
      + assert (Hp2 : Forall (fun j => j < next st2) pend) by (rewrite Hn2; exact Hp1).
        destruct (IH false cs3 pend p4 cs' rest st2 i (prev ++ batch1) [] below (ka ++ kb ++ [k]) [] pidx H0 Hi2 Hin Hp2)
          as [ps [st' [Hr' [Hs' [Hd' [Hno'' [Hi' [Hn' [Ho' Hk']]]]]]]]].
        * exact Hs2.
        * reflexivity.
        * reflexivity.
        * rewrite map_app, Hka, Hkb1, <- map_app. reflexivity.
        * reflexivity.
        * cbn [app]. rewrite <- !app_assoc. exact Hnd.
        * rewrite app_nil_r. exact Hno'.
        * exact Hb.
        * exact Ho2.
        * exists ((obj_of_atom k, o) :: ps), st'.
          unfold batch1 in Hs', Hno'', Ho'. cbn [app] in Hs', Hno'', Ho'. rewrite <- !app_assoc in Hs', Hno'', Ho'.
          cbn [app] in Hs', Hno'', Ho'.
          split; [rewrite Hr0, Hra, Hr1, (run_step_next w st1 SETITEMS st2 p4 Hst2); exact Hr'|].
          split; [exact Hs'|]. split; [constructor; [split; [reflexivity | exact Hd1] | exact Hd']|].
          split; [exact Hno''|]. split; [exact Hi'|]. split; [lia|]. split; [exact Ho'|].
          exact (old_kept_trans _ _ _ _ (old_kept_ext i _ _ He01) (old_kept_trans _ _ _ _ Hk2 Hk')). }
    assert (Hsingle : inm = false ->
              match chk_atom k cs prog with
              | Some (cs2, p2) =>
                  match chkf x cs2 p2 with
                  | Some (cs3, p3) => match p3 with SETITEM :: p4 => kitems_gen chkf r false cs3 p4 | _ => None end
                  | None => None
                  end
              | None => None
              end = Some (cs', rest) ->
              kitems_res w cs' pend st prog rest i prev batch below pidx ((k, x) :: r)).
    { intros Einm H0. unfold kitems_res. subst inm. rewrite (Hbat eq_refl) in *. cbn [app] in Hs. cbn [map] in Hkb.
      rewrite app_nil_r in Hno.
      assert (Ekb : kb = []) by (destruct kb; [reflexivity | discriminate]). subst kb. cbn [app] in Hnd.
      destruct (chk_atom k cs prog) as [[cs2 p2]|] eqn:Ek; [|discriminate].
      destruct (atom_sound w k cs pend prog cs2 p2 st Ek Hinv) as [sta [Hra [Hsa [Hna [Hia Hea]]]]].
      destruct (chkf x cs2 p2) as [[cs3 p3]|] eqn:E; [|discriminate].
      destruct p3 as [|q p4]; [discriminate|]. destruct q; try discriminate.
      assert (Hpa : Forall (fun j => j < next sta) pend) by (rewrite Hna; exact Hp).
      destruct (Hx cs2 p2 cs3 _ E pend sta Hia Hpa) as [o [st1 [Hr1 [Hs1 [Hd1 [Hm1 [_ [Hno1 [Hi1 [Hn1 He1]]]]]]]]]].
      assert (He01 : memo_ext st st1) by exact (memo_ext_trans _ _ _ Hea He1).
      assert (Hp1 : Forall (fun j => j < next st1) pend) by (apply (pend_mono _ (next st)); [lia | exact Hp]).
      destruct (setitem_step w cs3 pend st1 i prev o below ka k pidx Hi1 Hin Hm1) as [st2 [Hst2 [Hs2 [Hn2 [Hi2 [Ho2 Hk2]]]]]].
      + rewrite Hs1, Hsa, Hs. reflexivity.
      + exact Hka.
      + apply (nodup_atoms_prefix _ (map fst r)). rewrite <- app_assoc. exact Hnd.
      + exact Hb.
      + exact (own_entry_ext _ _ _ _ Hown He01).
      + assert (Hp2 : Forall (fun j => j < next st2) pend) by (rewrite Hn2; exact Hp1).
        destruct (IH false cs3 pend p4 cs' rest st2 i (prev ++ [(obj_of_atom k, o)]) [] below (ka ++ [k]) [] pidx H0 Hi2 Hin Hp2)
          as [ps [st' [Hr' [Hs' [Hd' [Hno'' [Hi' [Hn' [Ho' Hk']]]]]]]]].
        * exact Hs2.
        * reflexivity.
        * reflexivity.
        * rewrite !map_app, Hka. reflexivity.
        * reflexivity.
        * cbn [app]. rewrite <- app_assoc. exact Hnd.
        * rewrite app_nil_r, map_app, forallb_app, Hno. cbn. rewrite Hno1. reflexivity.
        * exact Hb.
        * exact Ho2.
        * exists ((obj_of_atom k, o) :: ps), st'.
          cbn [app] in Hs', Hno'', Ho'. rewrite <- !app_assoc in Hs', Hno'', Ho'. cbn [app] in *.
          split; [rewrite Hra, Hr1, (run_step_next w st1 SETITEM st2 p4 Hst2); exact Hr'|].
          split; [exact Hs'|]. split; [constructor; [split; [reflexivity | exact Hd1] | exact Hd']|].
          split; [exact Hno''|]. split; [exact Hi'|]. split; [lia|]. split; [exact Ho'|].
          exact (old_kept_trans _ _ _ _ (old_kept_ext i _ _ He01) (old_kept_trans _ _ _ _ Hk2 Hk')). }
    destruct inm.
    + apply (Hbatch st prog); [reflexivity | reflexivity | exact Hinv | apply memo_ext_refl | | exact H].
      rewrite Hs, <- app_assoc. reflexivity.
    + destruct prog as [|q p]; [apply Hsingle; [reflexivity | exact H]|].
      destruct q; try (apply Hsingle; [reflexivity | exact H]).
      rewrite (Hbat eq_refl) in *.
      apply (Hbatch (push OMark st) p); [| reflexivity | | apply memo_ext_same; reflexivity | | exact H].
      * apply run_step_next. reflexivity.
      * apply inv_push; [exact Hinv | reflexivity].
      * cbn. rewrite Hs. reflexivity.
Qed.

(** * the cases of the main theorem *)

Definition vres (w : world) (v : pv) (cs' : cstate) (pend : list nat) (st : state) (prog rest : list op) : Prop :=
  exists o st', run w st prog = run w st' rest /\ stack st' = o :: stack st /\ decode o = Some v /\
    is_mark o = false /\ (idfree v = true -> o = canon_obj v) /\ noccur_all pend o = true /\
    inv cs' pend st' /\ next st <= next st' /\ memo_ext st st'.

Lemma get_case : forall w v cs pend p r st,
  (match get_index p with Some i => chk_get cs v i | None => false end) = true -> inv cs pend st ->
  vres w v cs pend st (p :: r) r.
Proof.
  intros w v cs pend p r st Eg Hinv. destruct (get_index p) as [i|] eqn:Ei; [|discriminate].
  destruct (get_sound w cs pend v i st p Ei Eg Hinv) as [o [Hs [Hd [Hc [Hn Hb]]]]].
  exists o, (push o st).
  split; [apply run_step_next; exact Hs|]. split; [reflexivity|]. split; [exact Hd|].
  split; [|split; [exact Hc | split; [exact Hn | split; [apply inv_push; assumption | split; [cbn; lia | apply memo_ext_same; reflexivity]]]]].
  destruct o; try reflexivity. cbn in Hd. discriminate.
Qed.

Lemma atom_case : forall w a cs pend prog cs' rest st,
  chk_atom a cs prog = Some (cs', rest) -> inv cs pend st -> vres w (PAtom a) cs' pend st prog rest.
Proof.
  intros w a cs pend prog cs' rest st H Hinv.
  destruct (atom_sound w a cs pend prog cs' rest st H Hinv) as [st' [Hr [Hs [Hn [Hi He]]]]].
  exists (obj_of_atom a), st'. split; [exact Hr|]. split; [exact Hs|]. split; [apply decode_obj_of_atom|].
  split; [apply is_mark_atom|]. split; [reflexivity|]. split; [apply noccur_atom|]. split; [exact Hi|]. split; [lia | exact He].
Qed.

Lemma put_after : forall w v pend prog p1 cs1 cs' rest st st1 o,
  run w st prog = run w st1 p1 -> stack st1 = o :: stack st -> next st <= next st1 -> inv cs1 pend st1 ->
  memo_ext st st1 -> chk_put cs1 v p1 = Some (cs', rest) ->
  decode o = Some v -> is_mark o = false -> (idfree v = true -> o = canon_obj v) -> noccur_all pend o = true ->
  vres w v cs' pend st prog rest.
Proof.
  intros w v pend prog p1 cs1 cs' rest st st1 o Hrun Hs1 Hn1 Hi1 He1 Hput Hd Hm Hc Hno.
  destruct (put_sound w cs1 pend v p1 cs' rest st1 o (stack st) Hput Hi1 Hs1 Hm Hd Hc Hno) as [st2 [Hr2 [Hs2 [Hn2 [Hi2 He2]]]]].
  exists o, st2. split; [rewrite Hrun; exact Hr2|].
  split; [rewrite Hs2; exact Hs1|]. split; [exact Hd|]. split; [exact Hm|]. split; [exact Hc|]. split; [exact Hno|].
  split; [exact Hi2|]. split; [lia | exact (memo_ext_trans _ _ _ He1 He2)].
Qed.

Lemma pushed_then_put : forall w v cs pend p r cs' rest st st1 o,
  step w st p = SNext st1 -> stack st1 = o :: stack st -> next st <= next st1 -> inv cs pend st1 -> memo_ext st st1 ->
  chk_put cs v r = Some (cs', rest) ->
  decode o = Some v -> is_mark o = false -> (idfree v = true -> o = canon_obj v) -> noccur_all pend o = true ->
  vres w v cs' pend st (p :: r) rest.
Proof.
  intros w v cs pend p r cs' rest st st1 o Hstep. intros.
  apply (put_after w v pend (p :: r) r cs cs' rest st st1 o); try assumption. apply run_step_next. exact Hstep.
Qed.

Lemma Forall2_decode_length : forall os (xs : list pv), Forall2 (fun o v => decode o = Some v) os xs ->
  List.length os = List.length xs.
Proof. intros os xs H. induction H; cbn; [reflexivity | rewrite IHForall2; reflexivity]. Qed.

Lemma noccur_list : forall pend os, forallb (noccur_all pend) os = true ->
  forall j, In j pend -> existsb (occurs j) os = false.
Proof.
  intros pend os H j Hj. induction os as [|o r IH]; [reflexivity|]. cbn in H. apply andb_true_iff in H. destruct H as [H1 H2].
  cbn. rewrite (noccur_all_in _ _ _ H1 Hj), (IH H2). reflexivity.
Qed.
Lemma noccur_tuple : forall pend os, forallb (noccur_all pend) os = true -> noccur_all pend (OTuple os) = true.
Proof.
  intros pend os H. unfold noccur_all. apply forallb_forall. intros j Hj. cbn [occurs].
  rewrite (noccur_list pend os H j Hj). reflexivity.
Qed.
(* a container created at or after the current [next] *)
Lemma noccur_fresh_list : forall pend i os n, Forall (fun j => j < n) pend -> n <= i ->
  forallb (noccur_all pend) os = true -> noccur_all pend (OList i os) = true.
Proof.
  intros pend i os n Hp Hle H. unfold noccur_all. apply forallb_forall. intros j Hj. cbn [occurs].
  rewrite (noccur_list pend os H j Hj), orb_false_r. rewrite Forall_forall in Hp. specialize (Hp j Hj).
  apply negb_true_iff. apply Nat.eqb_neq. lia.
Qed.

Lemma fresh_memo_below : forall st idx o, fresh_state st -> memo_get idx (memo st) = Some o -> ids_below (next st) o = true.
Proof.
  intros st idx o [_ Hm] Hg. induction (memo st) as [|[k x] r IH]; cbn in *; [discriminate|].
  apply andb_true_iff in Hm. destruct Hm as [H1 H2]. destruct (Z.eqb idx k); [inversion Hg; subst; exact H1 | apply IH; assumption].
Qed.
Lemma old_kept_memo_ext : forall i st st1 st', fresh_state st -> next st <= i -> memo_ext st st1 -> old_kept i st1 st' -> memo_ext st st'.
Proof.
  intros i st st1 st' Hf Hle He Hk idx o Hg. apply Hk; [apply He; exact Hg|].
  apply (ids_below_mono (next st) i Hle). apply (fresh_memo_below st idx o Hf Hg).
Qed.

Lemma tuple_case : forall w xs, Forall (member_sound w chk) xs ->
  forall cs prog cs' rest pend st, chk (PTuple xs) cs prog = Some (cs', rest) -> inv cs pend st ->
  Forall (fun j => j < next st) pend -> vres w (PTuple xs) cs' pend st prog rest.
Proof.
  intros w xs HF cs prog cs' rest pend st H Hinv Hp. destruct prog as [|p r]; [discriminate|]. cbn [chk] in H.
  destruct (match get_index p with Some i => chk_get cs (PTuple xs) i | None => false end) eqn:Eg.
  { inversion H; subst. apply get_case; assumption. }
  assert (Hfin : forall cs1 p1 st1 os, run w st (p :: r) = run w st1 p1 -> stack st1 = OTuple os :: stack st ->
            next st <= next st1 -> inv cs1 pend st1 -> memo_ext st st1 -> Forall2 (fun o v => decode o = Some v) os xs ->
            (forallb idfree xs = true -> os = map canon_obj xs) -> forallb (noccur_all pend) os = true ->
            chk_put cs1 (PTuple xs) p1 = Some (cs', rest) -> vres w (PTuple xs) cs' pend st (p :: r) rest).
  { intros cs1 p1 st1 os Hrun Hs1 Hn1 Hi1 He1 Hd Hc Hno Hput.
    apply (put_after w (PTuple xs) pend (p :: r) p1 cs1 cs' rest st st1 (OTuple os)); try assumption.
    - rewrite decode_tuple_eq, (all_some_map_decode _ _ Hd). reflexivity.
    - reflexivity.
    - intro Hf. cbn [idfree] in Hf. cbn [canon_obj]. rewrite (Hc Hf). reflexivity.
    - apply noccur_tuple. exact Hno. }
  assert (Hsmall : match seq_gen chk xs cs (p :: r) with
                   | Some (cs1, TUPLE1 :: p1) => if Nat.eqb (List.length xs) 1 then chk_put cs1 (PTuple xs) p1 else None
                   | Some (cs1, TUPLE2 :: p1) => if Nat.eqb (List.length xs) 2 then chk_put cs1 (PTuple xs) p1 else None
                   | Some (cs1, TUPLE3 :: p1) => if Nat.eqb (List.length xs) 3 then chk_put cs1 (PTuple xs) p1 else None
                   | _ => None
                   end = Some (cs', rest) -> vres w (PTuple xs) cs' pend st (p :: r) rest).
  { intro H0. destruct (seq_gen chk xs cs (p :: r)) as [[cs1 pp]|] eqn:Es; [|discriminate].
    destruct (seq_sound w chk xs HF cs (p :: r) cs1 pp pend st Es Hinv Hp)
      as [os [st1 [Hr1 [Hs1 [Hd1 [Hm1 [Hc1 [Hno1 [Hi1 [Hn1 He1]]]]]]]]]].
    pose proof (Forall2_decode_length _ _ Hd1) as Hlen.
    destruct pp as [|q p1]; [discriminate|]. destruct q; try discriminate.
    - destruct (Nat.eqb (List.length xs) 1) eqn:El; [|discriminate]. apply Nat.eqb_eq in El.
      rewrite El in Hlen. destruct os as [|a [|b os']]; try discriminate.
      cbn in Hm1. apply orb_false_iff in Hm1. destruct Hm1 as [Ma _].
      set (st2 := set_stack st1 (OTuple [a] :: stack st)).
      apply (Hfin cs1 p1 st2 [a]); try assumption; try reflexivity.
      + rewrite Hr1. apply run_step_next. cbn [step]. rewrite Hs1. cbn [rev app pop1]. rewrite Ma. reflexivity.
      + apply inv_set_stack_sub; [exact Hi1|]. destruct Hi1 as [[Hst _] _]. rewrite Hs1 in Hst. cbn in Hst. cbn. rewrite andb_true_r. exact Hst.
    - destruct (Nat.eqb (List.length xs) 2) eqn:El; [|discriminate]. apply Nat.eqb_eq in El.
      rewrite El in Hlen. destruct os as [|a [|b [|c os']]]; try discriminate.
      cbn in Hm1. apply orb_false_iff in Hm1. destruct Hm1 as [Ma Hm1]. apply orb_false_iff in Hm1. destruct Hm1 as [Mb _].
      set (st2 := set_stack st1 (OTuple [a; b] :: stack st)).
      apply (Hfin cs1 p1 st2 [a; b]); try assumption; try reflexivity.
      + rewrite Hr1. apply run_step_next. cbn [step]. rewrite Hs1. cbn [rev app pop1]. rewrite Mb. cbn [pop1]. rewrite Ma. reflexivity.
      + apply inv_set_stack_sub; [exact Hi1|]. destruct Hi1 as [[Hst _] _]. rewrite Hs1 in Hst. cbn in Hst.
        apply andb_true_iff in Hst. destruct Hst as [Hb' Hst]. apply andb_true_iff in Hst. destruct Hst as [Ha' Hst].
        cbn. rewrite Ha', Hb', Hst. reflexivity.
    - destruct (Nat.eqb (List.length xs) 3) eqn:El; [|discriminate]. apply Nat.eqb_eq in El.
      rewrite El in Hlen. destruct os as [|a [|b [|c [|d os']]]]; try discriminate.
      cbn in Hm1. apply orb_false_iff in Hm1. destruct Hm1 as [Ma Hm1]. apply orb_false_iff in Hm1. destruct Hm1 as [Mb Hm1].
      apply orb_false_iff in Hm1. destruct Hm1 as [Mc _].
      set (st2 := set_stack st1 (OTuple [a; b; c] :: stack st)).
      apply (Hfin cs1 p1 st2 [a; b; c]); try assumption; try reflexivity.
      + rewrite Hr1. apply run_step_next. cbn [step]. rewrite Hs1. cbn [rev app pop1]. rewrite Mc. cbn [pop1]. rewrite Mb.
        cbn [pop1]. rewrite Ma. reflexivity.
      + apply inv_set_stack_sub; [exact Hi1|]. destruct Hi1 as [[Hst _] _]. rewrite Hs1 in Hst. cbn in Hst.
        apply andb_true_iff in Hst. destruct Hst as [Hc' Hst]. apply andb_true_iff in Hst. destruct Hst as [Hb' Hst].
        apply andb_true_iff in Hst. destruct Hst as [Ha' Hst].
        cbn. rewrite Ha', Hb', Hc', Hst. reflexivity. }
  destruct p; try (apply Hsmall; exact H).
  - destruct (seq_gen chk xs cs r) as [[cs1 pp]|] eqn:Es; [|apply Hsmall; exact H].
    destruct pp as [|q p1]; [apply Hsmall; exact H|]. destruct q; try (apply Hsmall; exact H).
    assert (Hi0 : inv cs pend (push OMark st)) by (apply inv_push; [exact Hinv | reflexivity]).
    destruct (seq_sound w chk xs HF cs r cs1 _ pend (push OMark st) Es Hi0 Hp)
      as [os [st1 [Hr1 [Hs1 [Hd1 [Hm1 [Hc1 [Hno1 [Hi1 [Hn1 He1]]]]]]]]]].
    set (st2 := set_stack st1 (OTuple os :: stack st)).
    apply (Hfin cs1 p1 st2 os); try assumption; try reflexivity.
    + rewrite (run_step_next w st MARK (push OMark st) r eq_refl), Hr1. apply run_step_next.
      cbn [step]. unfold with_mark. rewrite Hs1. cbn [push set_stack stack]. rewrite (to_mark_rev os _ Hm1). reflexivity.
    + apply inv_set_stack_sub; [exact Hi1|]. destruct Hi1 as [[Hst _] _]. rewrite Hs1 in Hst. cbn [push set_stack stack] in Hst.
      apply forallb_app_split in Hst. destruct Hst as [Ho Hst]. rewrite forallb_rev' in Ho. cbn in Hst.
      cbn [forallb ids_below]. rewrite Ho. exact Hst.
  - destruct xs as [|x xs']; [|discriminate].
    apply (pushed_then_put w (PTuple []) cs pend EMPTY_TUPLE r cs' rest st (push (OTuple []) st) (OTuple []));
      [reflexivity | reflexivity | cbn; lia | apply inv_push; [exact Hinv | reflexivity] | apply memo_ext_same; reflexivity
      | exact H | reflexivity | reflexivity | intro; reflexivity | apply noccur_all_noids; reflexivity].
Qed.

(* the state right after EMPTY_LIST / EMPTY_DICT / EMPTY_SET, with the new identity pending *)
Lemma enter_container : forall cs pend st t,
  inv cs pend st -> Forall (fun j => j < next st) pend -> ids_below (S (next st)) t = true ->
  let st1 := fresh (push t st) in
  inv cs (next st :: pend) st1 /\ Forall (fun j => j < next st1) (next st :: pend) /\ memo_ext st st1.
Proof.
  intros cs pend st t Hinv Hp Ht st1. split; [|split].
  - pose proof (inv_enter cs pend st (next st) Hinv (le_n _)) as H1.
    unfold st1, fresh, push, set_stack. cbn [stack memo next ecache trace]. apply inv_stack; [exact H1 | lia|].
    cbn [forallb]. rewrite Ht. destruct Hinv as [[Hs _] _].
    apply (ids_below_all_mono (next st) (S (next st)) _ (Nat.le_succ_diag_r _) Hs).
  - unfold st1. cbn. constructor; [lia|]. apply (pend_mono _ (next st)); [lia | exact Hp].
  - apply memo_ext_same. reflexivity.
Qed.

Lemma list_case : forall w xs, Forall (member_sound w chk) xs ->
  forall cs prog cs' rest pend st, chk (PList xs) cs prog = Some (cs', rest) -> inv cs pend st ->
  Forall (fun j => j < next st) pend -> vres w (PList xs) cs' pend st prog rest.
Proof.
  intros w xs HF cs prog cs' rest pend st H Hinv Hp. destruct prog as [|p r]; [discriminate|]. cbn [chk] in H.
  destruct (match get_index p with Some i => chk_get cs (PList xs) i | None => false end) eqn:Eg.
  { inversion H; subst. apply get_case; assumption. }
  destruct p; try discriminate.
  destruct (chk_put_pending cs r) as [[[cs1 p1] pidx]|] eqn:Ep; [|discriminate].
  destruct (items_gen chk xs false cs1 p1) as [[cs2 p2]|] eqn:Ei; [|discriminate]. inversion H; subst cs' rest. clear H.
  set (i := next st). set (st1 := fresh (push (OList i []) st)).
  destruct (enter_container cs pend st (OList i []) Hinv Hp) as [Hi1 [Hp1 He1]].
  { cbn [ids_below forallb]. rewrite andb_true_r. apply Nat.ltb_lt. unfold i. lia. }
  fold i st1 in Hi1, Hp1, He1.
  destruct (put_pending_sound w cs (i :: pend) r cs1 p1 pidx st1 (OList i []) (stack st) Ep Hi1 eq_refl eq_refl)
    as [st2 [Hr2 [Hs2 [Hn2 [Hi2 [He2 Hown2]]]]]].
  pose proof Hinv as [[Hs0 Hm0] _].
  destruct (items_sound w chk xs HF false cs1 (i :: pend) p1 cs2 p2 st2 i [] [] (stack st) pidx Ei Hi2)
    as [os [st3 [Hr3 [Hs3 [Hd3 [Hno3 [Hi3 [Hn3 [Hown3 Hk3]]]]]]]]].
  - left. reflexivity.
  - rewrite Hn2. exact Hp1.
  - rewrite Hs2. reflexivity.
  - reflexivity.
  - reflexivity.
  - reflexivity.
  - exact Hs0.
  - exact Hown2.
  - cbn [app] in Hs3, Hno3, Hown3.
    assert (Hnol : noccur_all pend (OList i os) = true).
    { apply (noccur_fresh_list pend i os (next st) Hp (le_n _)).
      apply (forallb_imp _ (noccur_all (i :: pend))); [|exact Hno3]. apply Forall_forall. intros x _. apply noccur_all_cons. }
    exists (OList i os), st3.
    split; [rewrite (run_step_next w st EMPTY_LIST st1 r eq_refl), Hr2; exact Hr3|].
    split; [exact Hs3|]. split; [rewrite decode_list_eq, (all_some_map_decode _ _ Hd3); reflexivity|].
    split; [reflexivity|]. split; [intro; discriminate|]. split; [exact Hnol|].
    split; [|split].
    + apply (inv_record cs2 pend st3 pidx (PList xs) (OList i os)); [apply (inv_weaken _ i); exact Hi3 | exact Hown3 | | | exact Hnol].
      * rewrite decode_list_eq, (all_some_map_decode _ _ Hd3). reflexivity.
      * intro; discriminate.
    + rewrite Hn2 in Hn3. unfold st1 in Hn3. cbn in Hn3. lia.
    + apply (old_kept_memo_ext i st st2 st3); [split; assumption | unfold i; lia | exact (memo_ext_trans _ _ _ He1 He2) | exact Hk3].
Qed.

Lemma noccur_fresh_dict : forall pend i (ps : list (obj * obj)) n, Forall (fun j => j < n) pend -> n <= i ->
  forallb (noccur_all pend) (map snd ps) = true ->
  (forall p, In p ps -> noids (fst p) = true) -> noccur_all pend (ODict i ps) = true.
Proof.
  intros pend i ps n Hp Hle H Hk. unfold noccur_all. apply forallb_forall. intros j Hj. cbn [occurs].
  rewrite Forall_forall in Hp. specialize (Hp j Hj).
  replace (Nat.eqb j i) with false by (symmetry; apply Nat.eqb_neq; lia). cbn [orb]. apply negb_true_iff.
  induction ps as [|[k v] r IH]; [reflexivity|]. cbn [map snd forallb] in H. apply andb_true_iff in H. destruct H as [H1 H2].
  cbn [existsb fst snd]. rewrite (noccur_all_in _ _ _ H1 Hj), orb_false_r.
  rewrite (below_noccur 0 j (Nat.le_0_l j) k (noids_below 0 k (Hk (k, v) (or_introl eq_refl)))). cbn.
  apply IH; [exact H2|]. intros p Hin. apply Hk. right. exact Hin.
Qed.

Lemma dict_case : forall w (kvs : list (atom * pv)), Forall (fun kv => member_sound w chk (snd kv)) kvs ->
  nodup_atoms (map fst kvs) = true ->
  forall cs prog cs' rest pend st, chk (PDict kvs) cs prog = Some (cs', rest) -> inv cs pend st ->
  Forall (fun j => j < next st) pend -> vres w (PDict kvs) cs' pend st prog rest.
Proof.
  intros w kvs HF Hnd cs prog cs' rest pend st H Hinv Hp. destruct prog as [|p r]; [discriminate|]. cbn [chk] in H.
  destruct (match get_index p with Some i => chk_get cs (PDict kvs) i | None => false end) eqn:Eg.
  { inversion H; subst. apply get_case; assumption. }
  destruct p; try discriminate.
  destruct (chk_put_pending cs r) as [[[cs1 p1] pidx]|] eqn:Ep; [|discriminate].
  destruct (kitems_gen chk kvs false cs1 p1) as [[cs2 p2]|] eqn:Ei; [|discriminate]. inversion H; subst cs' rest. clear H.
  set (i := next st). set (st1 := fresh (push (ODict i []) st)).
  destruct (enter_container cs pend st (ODict i []) Hinv Hp) as [Hi1 [Hp1 He1]].
  { cbn [ids_below forallb]. rewrite andb_true_r. apply Nat.ltb_lt. unfold i. lia. }
  fold i st1 in Hi1, Hp1, He1.
  destruct (put_pending_sound w cs (i :: pend) r cs1 p1 pidx st1 (ODict i []) (stack st) Ep Hi1 eq_refl eq_refl)
    as [st2 [Hr2 [Hs2 [Hn2 [Hi2 [He2 Hown2]]]]]].
  pose proof Hinv as [[Hs0 Hm0] _].
  destruct (kitems_sound w chk kvs HF false cs1 (i :: pend) p1 cs2 p2 st2 i [] [] (stack st) [] [] pidx Ei Hi2)
    as [ps [st3 [Hr3 [Hs3 [Hd3 [Hno3 [Hi3 [Hn3 [Hown3 Hk3]]]]]]]]].
  - left. reflexivity.
  - rewrite Hn2. exact Hp1.
  - rewrite Hs2. reflexivity.
  - reflexivity.
  - reflexivity.
  - reflexivity.
  - reflexivity.
  - exact Hnd.
  - reflexivity.
  - exact Hs0.
  - exact Hown2.
  - cbn [app] in Hs3, Hno3, Hown3. destruct (kvs_keys _ _ Hd3) as [Hkeys Hdec].
    assert (Hdd : decode (ODict i ps) = Some (PDict kvs)) by (rewrite decode_dict_eq, Hdec; reflexivity).
    assert (Hnol : noccur_all pend (ODict i ps) = true).
    { apply (noccur_fresh_dict pend i ps (next st) Hp (le_n _)).
      - apply (forallb_imp _ (noccur_all (i :: pend))); [|exact Hno3]. apply Forall_forall. intros x _. apply noccur_all_cons.
      - intros q Hin. assert (In (fst q) (map fst ps)) by (apply in_map; exact Hin). rewrite Hkeys in H.
        apply in_map_iff in H. destruct H as [a [Ha _]]. rewrite <- Ha. apply noids_atom. }
    exists (ODict i ps), st3.
    split; [rewrite (run_step_next w st EMPTY_DICT st1 r eq_refl), Hr2; exact Hr3|].
    split; [exact Hs3|]. split; [exact Hdd|].
    split; [reflexivity|]. split; [intro; discriminate|]. split; [exact Hnol|].
    split; [|split].
    + apply (inv_record cs2 pend st3 pidx (PDict kvs) (ODict i ps));
        [apply (inv_weaken _ i); exact Hi3 | exact Hown3 | exact Hdd | intro; discriminate | exact Hnol].
    + rewrite Hn2 in Hn3. unfold st1 in Hn3. cbn in Hn3. lia.
    + apply (old_kept_memo_ext i st st2 st3); [split; assumption | unfold i; lia | exact (memo_ext_trans _ _ _ He1 He2) | exact Hk3].
Qed.

Lemma noccur_fresh_set : forall pend i xs n, Forall (fun j => j < n) pend -> n <= i ->
  noccur_all pend (OSet i (map obj_of_atom xs)) = true.
Proof.
  intros pend i xs n Hp Hle. unfold noccur_all. apply forallb_forall. intros j Hj. cbn [occurs].
  rewrite Forall_forall in Hp. specialize (Hp j Hj).
  replace (Nat.eqb j i) with false by (symmetry; apply Nat.eqb_neq; lia). cbn [orb]. apply negb_true_iff.
  induction xs as [|a r IH]; [reflexivity|]. cbn [map existsb].
  rewrite (below_noccur 0 j (Nat.le_0_l j) _ (ids_below_atom 0 a)). exact IH.
Qed.

Lemma set_case : forall w xs, nodup_atoms xs = true ->
  forall cs prog cs' rest pend st, chk (PSet xs) cs prog = Some (cs', rest) -> inv cs pend st ->
  Forall (fun j => j < next st) pend -> vres w (PSet xs) cs' pend st prog rest.
Proof.
  intros w xs Hnd cs prog cs' rest pend st H Hinv Hp. destruct prog as [|p r]; [discriminate|]. cbn [chk] in H.
  destruct (match get_index p with Some i => chk_get cs (PSet xs) i | None => false end) eqn:Eg.
  { inversion H; subst. apply get_case; assumption. }
  destruct p; try discriminate.
  destruct (chk_put_pending cs r) as [[[cs1 p1] pidx]|] eqn:Ep; [|discriminate].
  destruct (chk_set_items xs false cs1 p1) as [[cs2 p2]|] eqn:Ei; [|discriminate]. inversion H; subst cs' rest. clear H.
  set (i := next st). set (st1 := fresh (push (OSet i []) st)).
  destruct (enter_container cs pend st (OSet i []) Hinv Hp) as [Hi1 [Hp1 He1]].
  { cbn [ids_below forallb]. rewrite andb_true_r. apply Nat.ltb_lt. unfold i. lia. }
  fold i st1 in Hi1, Hp1, He1.
  destruct (put_pending_sound w cs (i :: pend) r cs1 p1 pidx st1 (OSet i []) (stack st) Ep Hi1 eq_refl eq_refl)
    as [st2 [Hr2 [Hs2 [Hn2 [Hi2 [He2 Hown2]]]]]].
  pose proof Hinv as [[Hs0 Hm0] _].
  destruct (set_items_sound w xs false cs1 (i :: pend) p1 cs2 p2 st2 i [] [] (stack st) pidx Ei Hi2)
    as [st3 [Hr3 [Hs3 [Hn3 [Hi3 [Hown3 Hk3]]]]]].
  - left. reflexivity.
  - rewrite Hs2. reflexivity.
  - reflexivity.
  - exact Hnd.
  - exact Hs0.
  - rewrite Hn2. unfold st1, i. cbn. lia.
  - exact Hown2.
  - cbn [app] in Hs3, Hown3.
    assert (Hnol : noccur_all pend (OSet i (map obj_of_atom xs)) = true) by (apply (noccur_fresh_set pend i xs (next st) Hp (le_n _))).
    exists (OSet i (map obj_of_atom xs)), st3.
    split; [rewrite (run_step_next w st EMPTY_SET st1 r eq_refl), Hr2; exact Hr3|].
    split; [exact Hs3|]. split; [apply decode_set_atoms|].
    split; [reflexivity|]. split; [intro; discriminate|]. split; [exact Hnol|].
    split; [|split].
    + apply (inv_record cs2 pend st3 pidx (PSet xs) (OSet i (map obj_of_atom xs)));
        [apply (inv_weaken _ i); exact Hi3 | exact Hown3 | apply decode_set_atoms | intro; discriminate | exact Hnol].
    + rewrite Hn3, Hn2. unfold st1. cbn. lia.
    + apply (old_kept_memo_ext i st st2 st3); [split; assumption | unfold i; lia | exact (memo_ext_trans _ _ _ He1 He2) | exact Hk3].
Qed.

Lemma frozen_case : forall w xs, nodup_atoms xs = true ->
  forall cs prog cs' rest pend st, chk (PFrozen xs) cs prog = Some (cs', rest) -> inv cs pend st ->
  vres w (PFrozen xs) cs' pend st prog rest.
Proof.
  intros w xs Hnd cs prog cs' rest pend st H Hinv. destruct prog as [|p r]; [discriminate|]. cbn [chk] in H.
  destruct (match get_index p with Some i => chk_get cs (PFrozen xs) i | None => false end) eqn:Eg.
  { inversion H; subst. apply get_case; assumption. }
  destruct p; try discriminate.
  destruct (chk_atoms xs cs r) as [[cs1 pp]|] eqn:Ea; [|discriminate].
  destruct pp as [|q p1]; [discriminate|]. destruct q; try discriminate.
  assert (Hi0 : inv cs pend (push OMark st)) by (apply inv_push; [exact Hinv | reflexivity]).
  destruct (atoms_sound w xs cs pend r cs1 _ (push OMark st) Ea Hi0) as [st1 [Hr1 [Hs1 [Hn1 [Hi1 He1]]]]].
  set (o := OFrozen (map obj_of_atom xs)).
  set (st2 := set_stack st1 (o :: stack st)).
  apply (put_after w (PFrozen xs) pend (MARK :: r) p1 cs1 cs' rest st st2 o);
    [ | reflexivity | | | | exact H | apply decode_frozen_atoms | reflexivity | intro; reflexivity | ].
  - rewrite (run_step_next w st MARK (push OMark st) r eq_refl), Hr1. apply run_step_next.
    cbn [step]. unfold with_mark. rewrite Hs1. cbn [push set_stack stack]. rewrite (to_mark_rev _ _ (no_mark_atoms xs)).
    pose proof (set_add_all_atoms xs [] Hnd) as E. cbn [map app] in E. rewrite E. reflexivity.
  - unfold st2. cbn [set_stack next]. rewrite Hn1. cbn. lia.
  - apply inv_set_stack_sub; [exact Hi1|]. destruct Hi1 as [[Hst _] _]. rewrite Hs1 in Hst. cbn [push set_stack stack] in Hst.
    apply forallb_app_split in Hst. destruct Hst as [_ Hst]. cbn in Hst.
    cbn [forallb ids_below o]. rewrite ids_below_atoms. exact Hst.
  - intros idx x Hg. unfold st2. cbn [set_stack memo]. apply He1. exact Hg.
  - apply noccur_all_noids. unfold o. cbn [noids]. apply noids_atoms.
Qed.

Lemma floatbits_case : forall w b cs prog cs' rest pend st,
  chk (PFloatBits b) cs prog = Some (cs', rest) -> inv cs pend st -> vres w (PFloatBits b) cs' pend st prog rest.
Proof.
  intros w b cs prog cs' rest pend st H Hinv. destruct prog as [|p r]; [discriminate|]. cbn [chk] in H.
  destruct (match get_index p with Some i => chk_get cs (PFloatBits b) i | None => false end) eqn:Eg.
  { inversion H; subst. apply get_case; assumption. }
  destruct p; try discriminate; destruct f; try discriminate;
    (destruct (Z.eqb bits b) eqn:Eb; [|discriminate]; apply Z.eqb_eq in Eb; subst bits;
     apply (pushed_then_put w (PFloatBits b) cs pend _ r cs' rest st (push (OFloat (FBits b)) st) (OFloat (FBits b)));
     [reflexivity | reflexivity | cbn; lia | apply inv_push; [exact Hinv | reflexivity] | apply memo_ext_same; reflexivity
     | exact H | reflexivity | reflexivity | intro; reflexivity | apply noccur_all_noids; reflexivity]).
Qed.

Lemma nonetype_case : forall w cs prog cs' rest pend st,
  chk PNoneType cs prog = Some (cs', rest) -> inv cs pend st -> vres w PNoneType cs' pend st prog rest.
Proof.
  intros w cs prog cs' rest pend st H Hinv. destruct prog as [|p r]; [discriminate|]. cbn [chk] in H.
  destruct (match get_index p with Some i => chk_get cs PNoneType i | None => false end) eqn:Eg.
  { inversion H; subst. apply get_case; assumption. }
  assert (Hdef : match chk_atom (AStr NONE_TYPE_PID) cs (p :: r) with
                 | Some (cs1, BINPERSID :: p1) => Some (cs1, p1)
                 | _ => None
                 end = Some (cs', rest) -> vres w PNoneType cs' pend st (p :: r) rest).
  { intro H0. destruct (chk_atom (AStr NONE_TYPE_PID) cs (p :: r)) as [[cs1 pp]|] eqn:Ea; [|discriminate].
    destruct pp as [|q p1]; [discriminate|]. destruct q; try discriminate. inversion H0; subst cs1 p1.
    destruct (atom_sound w _ cs pend (p :: r) cs' _ st Ea Hinv) as [st1 [Hr1 [Hs1 [Hn1 [Hi1 He1]]]]]. cbn [obj_of_atom] in Hs1.
    exists ONoneType, (set_stack (emit (EPersist (OStr NONE_TYPE_PID)) st1) (ONoneType :: stack st)).
    split; [rewrite Hr1; apply run_step_next; cbn [step]; rewrite Hs1; cbn [pop1 is_mark persistent_load];
            rewrite pystr_eqb_refl; reflexivity|].
    split; [reflexivity|]. split; [reflexivity|]. split; [reflexivity|]. split; [reflexivity|].
    split; [apply noccur_all_noids; reflexivity|].
    split; [|split; [cbn; lia | intros idx x Hg; cbn; apply He1; exact Hg]].
    apply inv_set_stack_sub; [apply inv_emit; exact Hi1|]. destruct Hi1 as [[Hst _] _]. rewrite Hs1 in Hst. cbn in Hst. exact Hst. }
  destruct p; try (apply Hdef; exact H).
  destruct (pystr_eqb s NONE_TYPE_PID) eqn:Es; [|discriminate]. inversion H; subst cs' rest.
  apply pystr_eqb_eq in Es. subst s.
  exists ONoneType, (push ONoneType (emit (EPersist (OStr NONE_TYPE_PID)) st)).
  split; [apply run_step_next; cbn [step persistent_load]; rewrite pystr_eqb_refl; reflexivity|].
  split; [reflexivity|]. split; [reflexivity|]. split; [reflexivity|]. split; [reflexivity|].
  split; [apply noccur_all_noids; reflexivity|].
  split; [apply inv_push; [apply inv_emit; exact Hinv | reflexivity] | split; [cbn; lia | apply memo_ext_same; reflexivity]].
Qed.

Lemma noccur_fresh_inst : forall pend i k f a sts n, Forall (fun j => j < n) pend -> n <= i ->
  noccur_all pend f = true -> noccur_all pend a = true -> forallb (noccur_all pend) sts = true ->
  noccur_all pend (OInst i k f a sts) = true.
Proof.
  intros pend i k f a sts n Hp Hle Hf Ha Hs. unfold noccur_all. apply forallb_forall. intros j Hj. cbn [occurs].
  rewrite Forall_forall in Hp. specialize (Hp j Hj).
  replace (Nat.eqb j i) with false by (symmetry; apply Nat.eqb_neq; lia).
  rewrite (noccur_all_in _ _ _ Hf Hj), (noccur_all_in _ _ _ Ha Hj), (noccur_list pend sts Hs j Hj). reflexivity.
Qed.

Lemma opcode_case : forall w tag i1 i2 j1 j2 old new,
  calls_ok w -> find_class w HELPER OPCODE = FCResolved GType ->
  member_sound w chk old -> member_sound w chk new ->
  forall cs prog cs' rest pend st, chk (POpcode tag i1 i2 j1 j2 old new) cs prog = Some (cs', rest) -> inv cs pend st ->
  Forall (fun j => j < next st) pend -> vres w (POpcode tag i1 i2 j1 j2 old new) cs' pend st prog rest.
Proof.
  intros w tag i1 i2 j1 j2 old new Hco Hfc Hold Hnew cs prog cs' rest pend st H Hinv Hp.
  destruct prog as [|p r]; [discriminate|]. cbn [chk] in H.
  destruct (match get_index p with Some i => chk_get cs (POpcode tag i1 i2 j1 j2 old new) i | None => false end) eqn:Eg.
  { inversion H; subst. apply get_case; assumption. }
  destruct (chk_type HELPER OPCODE cs (p :: r)) as [[cs1 pp]|] eqn:Et; [|discriminate].
  destruct pp as [|q p1]; [discriminate|]. destruct q; try discriminate.
  destruct (chk_atoms [AStr tag; AInt i1; AInt i2; AInt j1; AInt j2] cs1 p1) as [[cs2 p2]|] eqn:Ea; [|discriminate].
  destruct (chk old cs2 p2) as [[cs3 p3]|] eqn:Eo; [|discriminate].
  destruct (chk new cs3 p3) as [[cs4 pp4]|] eqn:En; [|discriminate].
  destruct pp4 as [|q p4]; [discriminate|]. destruct q; try discriminate.
  destruct (chk_put cs4 (opcode_args tag i1 i2 j1 j2 old new) p4) as [[cs5 pp5]|] eqn:Ep; [|discriminate].
  destruct pp5 as [|q p5]; [discriminate|]. destruct q; try discriminate.
  set (cls := OGlobal HELPER OPCODE GType).
  destruct (type_sound w HELPER OPCODE cs pend (p :: r) cs1 _ st Et Hinv Hfc) as [st1 [Hr1 [Hs1 [Hn1 [Hi1 He1]]]]].
  assert (Hi1' : inv cs1 pend (push OMark st1)) by (apply inv_push; [exact Hi1 | reflexivity]).
  destruct (atoms_sound w _ cs1 pend p1 cs2 p2 (push OMark st1) Ea Hi1') as [st2 [Hr2 [Hs2 [Hn2 [Hi2 He2]]]]].
  assert (Hp2 : Forall (fun j => j < next st2) pend).
  { rewrite Hn2. cbn [push set_stack next]. rewrite Hn1. exact Hp. }
  destruct (Hold cs2 p2 cs3 p3 Eo pend st2 Hi2 Hp2) as [o1 [st3 [Hr3 [Hs3 [Hd3 [Hm3 [Hc3 [Hno3 [Hi3 [Hn3 He3]]]]]]]]]].
  assert (Hp3 : Forall (fun j => j < next st3) pend) by (apply (pend_mono _ _ _ Hn3 Hp2)).
  destruct (Hnew cs3 p3 cs4 _ En pend st3 Hi3 Hp3) as [o2 [st4 [Hr4 [Hs4 [Hd4 [Hm4 [Hc4 [Hno4 [Hi4 [Hn4 He4]]]]]]]]]].
  set (args := OTuple [OStr tag; OInt i1; OInt i2; OInt j1; OInt j2; o1; o2]).
  assert (Hs4' : stack st4 = (rev [OStr tag; OInt i1; OInt i2; OInt j1; OInt j2; o1; o2] ++ OMark :: cls :: stack st)%list).
  { rewrite Hs4, Hs3, Hs2. cbn [push set_stack stack map obj_of_atom rev app]. rewrite Hs1. reflexivity. }
  set (st5 := set_stack st4 (args :: cls :: stack st)).
  assert (H5 : step w st4 TUPLE = SNext st5).
  { cbn [step]. unfold with_mark. rewrite Hs4', to_mark_rev; [reflexivity|]. cbn. rewrite Hm3, Hm4. reflexivity. }
  assert (Hi5 : inv cs4 pend st5).
  { apply inv_set_stack_sub; [exact Hi4|]. destruct Hi4 as [[Hst _] _]. rewrite Hs4' in Hst. cbn in Hst.
    repeat (apply andb_true_iff in Hst; destruct Hst as [? Hst]).
    cbn. repeat match goal with E : ids_below _ _ = true |- _ => rewrite E; clear E end. exact Hst. }
  assert (Hd5 : decode args = Some (opcode_args tag i1 i2 j1 j2 old new)).
  { unfold args, opcode_args. rewrite decode_tuple_eq. cbn [map all_some decode atom_of_obj option_map]. rewrite Hd3, Hd4. reflexivity. }
  assert (Hnoa : noccur_all pend args = true).
  { unfold args. apply noccur_tuple. cbn [forallb]. rewrite Hno3, Hno4.
    rewrite (noccur_all_noids pend (OStr tag) eq_refl), (noccur_all_noids pend (OInt i1) eq_refl),
      (noccur_all_noids pend (OInt i2) eq_refl), (noccur_all_noids pend (OInt j1) eq_refl),
      (noccur_all_noids pend (OInt j2) eq_refl). reflexivity. }
  destruct (put_sound w cs4 pend (opcode_args tag i1 i2 j1 j2 old new) p4 cs5 _ st5 args (cls :: stack st) Ep Hi5 eq_refl eq_refl Hd5)
    as [st6 [Hr6 [Hs6 [Hn6 [Hi6 He6]]]]]; [|exact Hnoa|].
  { intro Hf. unfold opcode_args in Hf. cbn [idfree forallb andb] in Hf.
    apply andb_true_iff in Hf. destruct Hf as [F1 Hf]. apply andb_true_iff in Hf. destruct Hf as [F2 _].
    unfold args, opcode_args. cbn [canon_obj map obj_of_atom]. rewrite (Hc3 F1), (Hc4 F2). reflexivity. }
  set (inst := OInst (next st6) KNewobj cls args []).
  set (st7 := fresh (set_stack (emit (ECall KNewobj cls args) (set_stack st6 (stack st))) (inst :: stack st))).
  assert (H7 : step w st6 NEWOBJ = SNext st7).
  { cbn [step]. rewrite Hs6. unfold st5. cbn [set_stack stack pop1 is_mark args cls is_type].
    unfold do_call. rewrite (co_opcode w Hco). reflexivity. }
  assert (Hn7 : next st <= next st6).
  { rewrite Hn6. unfold st5. cbn [set_stack next]. cbn [push set_stack next] in Hn2. lia. }
  assert (Hi7 : inv cs5 pend st7).
  { unfold st7, fresh, set_stack, emit. cbn [stack memo next ecache trace]. apply inv_stack; [exact Hi6 | lia|].
    destruct Hi6 as [[Hst _] _]. rewrite Hs6 in Hst. unfold st5 in Hst. cbn [set_stack stack forallb] in Hst.
    apply andb_true_iff in Hst. destruct Hst as [Ha Hst]. apply andb_true_iff in Hst. destruct Hst as [_ Hst].
    cbn [forallb ids_below inst cls]. rewrite (ids_below_mono _ _ (Nat.le_succ_diag_r _) _ Ha).
    rewrite (ids_below_all_mono _ _ _ (Nat.le_succ_diag_r _) Hst). rewrite !andb_true_r. apply Nat.ltb_lt. lia. }
  assert (He7 : memo_ext st st7).
  { apply (memo_ext_trans _ _ _ He1). apply (memo_ext_trans _ (push OMark st1)); [apply memo_ext_same; reflexivity|].
    apply (memo_ext_trans _ _ _ He2). apply (memo_ext_trans _ _ _ He3). apply (memo_ext_trans _ _ _ He4).
    apply (memo_ext_trans _ st5); [apply memo_ext_same; reflexivity|]. apply (memo_ext_trans _ _ _ He6).
    apply memo_ext_same. reflexivity. }
  apply (put_after w _ pend (p :: r) p5 cs5 cs' rest st st7 inst);
    [ | reflexivity | | exact Hi7 | exact He7 | exact H | | reflexivity | intro; discriminate | ].
  - rewrite Hr1, (run_step_next w st1 MARK (push OMark st1) p1 eq_refl), Hr2, Hr3, Hr4,
      (run_step_next w st4 TUPLE st5 p4 H5), Hr6. apply run_step_next. exact H7.
  - unfold st7. cbn [fresh set_stack emit next]. lia.
  - unfold inst, cls, args. cbn [decode]. rewrite !pystr_eqb_refl. cbn [andb]. rewrite Hd3, Hd4. reflexivity.
  - apply (noccur_fresh_inst pend _ _ _ _ _ (next st) Hp Hn7); [apply noccur_all_noids; reflexivity | exact Hnoa | reflexivity].
Qed.

Lemma setordered_case : forall w xs, calls_ok w -> find_class w HELPER SETORDERED = FCResolved GType ->
  Forall (member_sound w chk) xs ->
  forall cs prog cs' rest pend st, chk (PSetOrdered xs) cs prog = Some (cs', rest) -> inv cs pend st ->
  Forall (fun j => j < next st) pend -> vres w (PSetOrdered xs) cs' pend st prog rest.
Proof.
  intros w xs Hco Hfc HF cs prog cs' rest pend st H Hinv Hp. destruct prog as [|p r]; [discriminate|]. cbn [chk] in H.
  destruct (match get_index p with Some i => chk_get cs (PSetOrdered xs) i | None => false end) eqn:Eg.
  { inversion H; subst. apply get_case; assumption. }
  destruct (chk_type HELPER SETORDERED cs (p :: r)) as [[cs1 pp]|] eqn:Et; [|discriminate].
  destruct pp as [|q pp]; [discriminate|]. destruct q; try discriminate.
  destruct pp as [|q p1]; [discriminate|]. destruct q; try discriminate.
  destruct (chk_put_pending cs1 p1) as [[[cs2 pp2] iidx]|] eqn:Ep1; [|discriminate].
  destruct pp2 as [|q p2]; [discriminate|]. destruct q; try discriminate.
  destruct (chk_put_pending cs2 p2) as [[[cs3 p3] lidx]|] eqn:Ep2; [|discriminate].
  destruct (items_gen chk xs false cs3 p3) as [[cs4 pp4]|] eqn:Ei; [|discriminate].
  destruct pp4 as [|q p4]; [discriminate|]. destruct q; try discriminate. inversion H; subst cs' rest. clear H.
  set (cls := OGlobal HELPER SETORDERED GType).
  destruct (type_sound w HELPER SETORDERED cs pend (p :: r) cs1 _ st Et Hinv Hfc) as [st1 [Hr1 [Hs1 [Hn1 [Hi1 He1]]]]].
  pose proof Hinv as [[Hs0 Hm0] _].
  (* EMPTY_TUPLE; NEWOBJ: the instance, its identity pending until BUILD *)
  set (j := next st1).
  set (inst0 := OInst j KNewobj cls (OTuple []) []).
  set (st2 := fresh (set_stack (emit (ECall KNewobj cls (OTuple [])) (set_stack (push (OTuple []) st1) (stack st))) (inst0 :: stack st))).
  assert (H2 : step w (push (OTuple []) st1) NEWOBJ = SNext st2).
  { cbn [step push set_stack stack pop1 is_mark]. rewrite Hs1. cbn [pop1 is_mark cls is_type].
    unfold do_call. rewrite (co_setordered w Hco). reflexivity. }
  assert (Hp1 : Forall (fun k => k < next st1) pend) by (rewrite Hn1; exact Hp).
  assert (Hi2 : inv cs1 (j :: pend) st2).
  { pose proof (inv_enter cs1 pend st1 j Hi1 (le_n _)) as Hi1e.
    unfold st2, fresh, push, emit, set_stack. cbn [stack memo next ecache trace]. apply inv_stack; [exact Hi1e | lia|].
    cbn [forallb ids_below inst0 cls]. rewrite !andb_true_r.
    rewrite (ids_below_all_mono (next st) (S (next st1)) _ ltac:(lia) Hs0), andb_true_r. apply Nat.ltb_lt. unfold j. lia. }
  destruct (put_pending_sound w cs1 (j :: pend) p1 cs2 _ iidx st2 inst0 (stack st) Ep1 Hi2 eq_refl eq_refl)
    as [st3 [Hr3 [Hs3 [Hn3 [Hi3 [He3 Hown3]]]]]].
  assert (Hn3' : next st3 = S j) by (rewrite Hn3; unfold st2; cbn; reflexivity).
  (* EMPTY_LIST: the state list, pending as well *)
  set (i := next st3).
  set (st4 := fresh (push (OList i []) st3)).
  assert (Hp3 : Forall (fun k => k < next st3) (j :: pend)).
  { rewrite Hn3'. constructor; [lia|]. apply (pend_mono _ (next st1)); [unfold j; lia | exact Hp1]. }
  destruct (enter_container cs2 (j :: pend) st3 (OList i []) Hi3 Hp3) as [Hi4 [Hp4 He4]].
  { cbn [ids_below forallb]. rewrite andb_true_r. apply Nat.ltb_lt. unfold i. lia. }
  fold i st4 in Hi4, Hp4, He4.
  destruct (put_pending_sound w cs2 (i :: j :: pend) p2 cs3 p3 lidx st4 (OList i []) (stack st3) Ep2 Hi4 eq_refl eq_refl)
    as [st5 [Hr5 [Hs5 [Hn5 [Hi5 [He5 Hown5]]]]]].
  destruct (items_sound w chk xs HF false cs3 (i :: j :: pend) p3 cs4 _ st5 i [] [] (stack st3) lidx Ei Hi5)
    as [os [st6 [Hr6 [Hs6 [Hd6 [Hno6 [Hi6 [Hn6 [Hown6 Hk6]]]]]]]]].
  - left. reflexivity.
  - rewrite Hn5. exact Hp4.
  - rewrite Hs5. reflexivity.
  - reflexivity.
  - reflexivity.
  - reflexivity.
  - destruct Hi3 as [[Hs _] _]. exact Hs.
  - exact Hown5.
  - cbn [app] in Hs6, Hno6, Hown6. rewrite Hs3 in Hs6. unfold st2 in Hs6. cbn [fresh set_stack stack] in Hs6.
    set (lst := OList i os).
    set (c := OInst j KNewobj cls (OTuple []) [lst]).
    assert (Hdl : decode lst = Some (PList xs)) by (unfold lst; rewrite decode_list_eq, (all_some_map_decode _ _ Hd6); reflexivity).
    assert (Hnol : noccur_all (j :: pend) lst = true).
    { apply (noccur_fresh_list (j :: pend) i os (next st3) Hp3 (le_n _)).
      apply (forallb_imp _ (noccur_all (i :: j :: pend))); [|exact Hno6]. apply Forall_forall. intros x _. apply noccur_all_cons. }
    (* the list is complete: record it; then BUILD mutates the instance *)
    assert (Hi6r : inv (record cs4 lidx (PList xs)) (j :: pend) st6).
    { apply (inv_record cs4 (j :: pend) st6 lidx (PList xs) lst);
        [apply (inv_weaken _ i); exact Hi6 | exact Hown6 | exact Hdl | intro; discriminate | exact Hnol]. }
    set (st7 := mutate j c (emit (EBuild inst0 lst) (set_stack st6 (inst0 :: stack st)))).
    assert (H7 : step w st6 BUILD = SNext st7).
    { cbn [step]. rewrite Hs6. unfold lst, inst0, cls. cbn [pop1 is_mark]. rewrite (co_build w Hco). reflexivity. }
    assert (Hst6 : forallb (ids_below (next st6)) (lst :: inst0 :: stack st) = true).
    { destruct Hi6 as [[Hst _] _]. rewrite Hs6 in Hst. exact Hst. }
    cbn [forallb] in Hst6. apply andb_true_iff in Hst6. destruct Hst6 as [Hl Hst6].
    apply andb_true_iff in Hst6. destruct Hst6 as [Hin Hst6].
    assert (Hi7 : inv (record cs4 lidx (PList xs)) (j :: pend) st7).
    { unfold st7. apply inv_mutate; [|left; reflexivity|].
      - apply inv_emit. apply inv_set_stack_sub; [exact Hi6r|]. cbn [forallb]. rewrite Hin, Hst6. reflexivity.
      - cbn [emit set_stack next]. cbn [ids_below c inst0 cls forallb] in *. rewrite Hl.
        apply andb_true_iff in Hin. destruct Hin as [Hin _]. rewrite Hin. reflexivity. }
    assert (Hsub : subst j c inst0 = c) by (cbn [subst inst0]; rewrite Nat.eqb_refl; reflexivity).
    assert (Hs7 : stack st7 = c :: stack st).
    { unfold st7. apply (mutate_stack j c _ inst0 (stack st)); [reflexivity | exact Hsub|].
      apply (ids_below_all_mono (next st) j); [unfold j; lia | exact Hs0]. }
    (* the instance's reserved entry followed the mutation *)
    assert (Hown7 : own_entry iidx st7 c).
    { intros idx E. unfold st7. apply (mutate_memo_own j c (emit (EBuild inst0 lst) st6) _ idx inst0); [|exact Hsub].
      cbn [emit memo]. apply Hk6; [apply He5; apply He4; exact (Hown3 idx E)|].
      cbn [ids_below inst0 cls forallb]. rewrite !andb_true_r. apply Nat.ltb_lt. unfold i. lia. }
    assert (Hdc : decode c = Some (PSetOrdered xs)).
    { unfold c, lst, cls. rewrite decode_setordered_eq, (all_some_map_decode _ _ Hd6). reflexivity. }
    assert (Hn7 : next st1 <= next st6) by (rewrite Hn5 in Hn6; unfold st4 in Hn6; cbn in Hn6; unfold i in *; lia).
    assert (Hnoc : noccur_all pend c = true).
    { apply (noccur_fresh_inst pend j _ _ _ _ (next st1) Hp1 (le_n _));
        [apply noccur_all_noids; reflexivity | apply noccur_all_noids; reflexivity|].
      cbn [forallb]. rewrite (noccur_all_cons j pend lst Hnol). reflexivity. }
    exists c, st7.
    split; [rewrite Hr1, (run_step_next w st1 EMPTY_TUPLE (push (OTuple []) st1) _ eq_refl),
              (run_step_next w _ NEWOBJ st2 p1 H2), Hr3, (run_step_next w st3 EMPTY_LIST st4 p2 eq_refl), Hr5, Hr6;
            apply run_step_next; exact H7|].
    split; [exact Hs7|]. split; [exact Hdc|]. split; [reflexivity|]. split; [intro; discriminate|]. split; [exact Hnoc|].
    split; [|split].
    + apply (inv_record _ pend st7 iidx (PSetOrdered xs) c);
        [apply (inv_weaken _ j); exact Hi7 | exact Hown7 | exact Hdc | intro; discriminate | exact Hnoc].
    + unfold st7. cbn [mutate emit set_stack next]. lia.
    + (* entries that existed before are older than both identities *)
      intros idx x Hg. assert (Hbx : ids_below (next st) x = true) by (apply (fresh_memo_below st idx x); [split; assumption | exact Hg]).
      unfold st7. apply mutate_memo_old; [|apply (ids_below_mono (next st) j); [unfold j; lia | exact Hbx]].
      cbn [emit memo]. apply Hk6; [|apply (ids_below_mono (next st) i); [unfold i; lia | exact Hbx]].
      apply He5. apply He4. apply He3. unfold st2. cbn [fresh set_stack emit push memo]. apply He1. exact Hg.
Qed.

(** * the main theorem *)

Theorem chk_sound : forall w, calls_ok w -> forall v, wfp v = true -> types_ok w v -> member_sound w chk v.
Proof.
  intros w Hco. induction v using pv_ind'; intros Hw Ht cs prog cs' rest Hc pend st Hinv Hp.
  - destruct prog as [|p r]; [discriminate|]. cbn [chk] in Hc.
    destruct (match get_index p with Some i => chk_get cs (PAtom a) i | None => false end) eqn:Eg.
    + inversion Hc; subst. exact (get_case w (PAtom a) cs' pend p rest st Eg Hinv).
    + exact (atom_case w a cs pend (p :: r) cs' rest st Hc Hinv).
  - exact (floatbits_case w b cs prog cs' rest pend st Hc Hinv).
  - refine (list_case w xs _ cs prog cs' rest pend st Hc Hinv Hp).
    apply (Forall_wfp_types w _ _ H); [exact Hw | exact Ht].
  - refine (tuple_case w xs _ cs prog cs' rest pend st Hc Hinv Hp).
    apply (Forall_wfp_types w _ _ H); [exact Hw | exact Ht].
  - cbn [wfp] in Hw. apply andb_true_iff in Hw. destruct Hw as [Hnd Hw].
    refine (dict_case w kvs _ Hnd cs prog cs' rest pend st Hc Hinv Hp).
    apply (Forall_wfp_types_kv w (member_sound w chk) _ H); [exact Hw | exact Ht].
  - exact (set_case w xs Hw cs prog cs' rest pend st Hc Hinv Hp).
  - exact (frozen_case w xs Hw cs prog cs' rest pend st Hc Hinv).
  - destruct prog as [|p r]; [discriminate|]. cbn [chk] in Hc.
    destruct (match get_index p with Some i => chk_get cs (PType m n) i | None => false end) eqn:Eg.
    + inversion Hc; subst. exact (get_case w (PType m n) cs' pend p rest st Eg Hinv).
    + assert (Hfc : find_class w m n = FCResolved GType) by (apply Ht; left; reflexivity).
      destruct (type_sound w m n cs pend (p :: r) cs' rest st Hc Hinv Hfc) as [st' [Hr [Hs [Hn [Hi He]]]]].
      exists (OGlobal m n GType), st'. split; [exact Hr|]. split; [exact Hs|]. split; [reflexivity|].
      split; [reflexivity|]. split; [reflexivity|]. split; [apply noccur_all_noids; reflexivity|].
      split; [exact Hi|]. split; [lia | exact He].
  - exact (nonetype_case w cs prog cs' rest pend st Hc Hinv).
  - cbn [wfp] in Hw. apply andb_true_iff in Hw. destruct Hw as [Hw1 Hw2].
    refine (opcode_case w tag i1 i2 j1 j2 v1 v2 Hco _ _ _ cs prog cs' rest pend st Hc Hinv Hp).
    + apply Ht. left. reflexivity.
    + apply IHv1; [exact Hw1|]. intros m n Hin. apply Ht. cbn. right. apply in_or_app. left. exact Hin.
    + apply IHv2; [exact Hw2|]. intros m n Hin. apply Ht. cbn. right. apply in_or_app. right. exact Hin.
  - refine (setordered_case w xs Hco _ _ cs prog cs' rest pend st Hc Hinv Hp).
    + apply Ht. left. reflexivity.
    + apply (Forall_wfp_types w _ _ H); [exact Hw|]. intros m n Hin. apply Ht. cbn. right. exact Hin.
Qed.

Lemma inv_init : forall w, inv cs0 [] (init w).
Proof. intro w. split; [split; reflexivity|]. split; [reflexivity|]. intros i v H. discriminate. Qed.

(* every encoding in the class loads to the payload it was checked against *)
Theorem accepts_sound : forall w prog d,
  calls_ok w -> types_ok w d -> wfp d = true -> accepts prog d = true -> load w prog = Some d.
Proof.
  intros w prog d Hco Ht Hw H. unfold accepts in H.
  set (p1 := match prog with PROTO n :: p => if (Z.leb 0 n && Z.leb n 5)%bool then p else prog | _ => prog end) in *.
  set (p2 := match p1 with FRAME _ :: p => p | _ => p1 end) in *.
  assert (E1 : run w (init w) prog = run w (init w) p1).
  { unfold p1. destruct prog as [|q p]; [reflexivity|]. destruct q; try reflexivity.
    destruct (Z.leb 0 n && Z.leb n 5)%bool eqn:E; [|reflexivity]. apply run_step_next. cbn [step]. rewrite E. reflexivity. }
  assert (E2 : run w (init w) p1 = run w (init w) p2).
  { unfold p2. destruct p1 as [|q p]; [reflexivity|]. destruct q; try reflexivity. }
  destruct (chk d cs0 p2) as [[cs' pp]|] eqn:Ec; [|discriminate].
  destruct pp as [|q rest]; [discriminate|]. destruct q; try discriminate.
  destruct (chk_sound w Hco d Hw Ht cs0 p2 cs' _ Ec [] (init w) (inv_init w) (Forall_nil _)) as [o [st' [Hr [Hs [Hd [Hm _]]]]]].
  unfold load, vm_run. rewrite E1, E2, Hr. cbn [run step]. rewrite Hs. cbn [pop1]. rewrite Hm. cbn. exact Hd.
Qed.

(* in the default process, also under any safe_to_import *)
Theorem accepted_dumps_load : forall (a : safe_arg) prog d,
  wfp d = true -> types_default_b d = true -> accepts prog d = true ->
  load (with_allow (effective_allow a) default_world) prog = Some d.
Proof.
  intros a prog d Hw Ht Ha. apply accepts_sound; [constructor; intros; reflexivity | | exact Hw | exact Ha].
  intros m n Hin. pose proof (types_default_ok d Ht m n Hin) as H.
  apply find_class_resolved in H. destruct H as [Hal Hl].
  apply (proj2 (find_class_exact (with_allow (effective_allow a) default_world) m n) GType).
  split; [|exact Hl]. cbn [allow with_allow]. apply effective_allow_spec. left. exact Hal.
Qed.

(* the class is not empty: the canonical encoding, and an encoding in CPython's
   style (MEMOIZE after every object, BINGET of a repeated string and class) *)
From Coq Require Import String.
Local Open Scope string_scope.
Example accepts_canonical : accepts (enc_prog sample_payload) sample_payload = true.
Proof. vm_compute. reflexivity. Qed.
Definition cpython_style_dump : list op :=
  [PROTO 4; FRAME 120; EMPTY_DICT; MEMOIZE; SHORT_BINUNICODE (s2p "type_changes"); MEMOIZE; EMPTY_DICT; MEMOIZE;
   SHORT_BINUNICODE (s2p "root"); MEMOIZE; EMPTY_DICT; MEMOIZE; MARK;
   SHORT_BINUNICODE (s2p "old_type"); MEMOIZE; SHORT_BINUNICODE (s2p "builtins"); MEMOIZE; SHORT_BINUNICODE (s2p "int"); MEMOIZE;
   STACK_GLOBAL; MEMOIZE;
   SHORT_BINUNICODE (s2p "new_type"); MEMOIZE; BINGET 6; SHORT_BINUNICODE (s2p "str"); MEMOIZE; STACK_GLOBAL; MEMOIZE;
   SHORT_BINUNICODE (s2p "old_value"); MEMOIZE; BININT1 1;
   SHORT_BINUNICODE (s2p "new_value"); MEMOIZE; BINGET 9;
   SETITEMS; SETITEM; SETITEM; STOP].
Definition cpython_style_payload : pv :=
  PDict [(AStr (s2p "type_changes"),
          PDict [(AStr (s2p "root"),
                  PDict [(AStr (s2p "old_type"), PType (s2p "builtins") (s2p "int"));
                         (AStr (s2p "new_type"), PType (s2p "builtins") (s2p "str"));
                         (AStr (s2p "old_value"), PAtom (AInt 1%Z));
                         (AStr (s2p "new_value"), PAtom (AStr (s2p "new_type")))])])].
Example accepts_cpython_style : accepts cpython_style_dump cpython_style_payload = true.
Proof. vm_compute. reflexivity. Qed.
(* one list reachable twice: memoised when created, fetched when complete *)
Definition shared_list_dump : list op :=
  [PROTO 4; FRAME 30; EMPTY_DICT; MEMOIZE; MARK;
   BININT1 0; EMPTY_LIST; MEMOIZE; MARK; BININT1 1; BININT1 2; APPENDS;
   BININT1 3; BINGET 1; SETITEMS; STOP].
Definition shared_list_payload : pv :=
  PDict [(AInt 0%Z, PList [PAtom (AInt 1%Z); PAtom (AInt 2%Z)]); (AInt 3%Z, PList [PAtom (AInt 1%Z); PAtom (AInt 2%Z)])].
Example accepts_shared_list : accepts shared_list_dump shared_list_payload = true.
Proof. vm_compute. reflexivity. Qed.
Local Close Scope string_scope.

(** Pickle/JsonProofs.v - C14: the JSON path (json_dumps / json_loads with the
    object hook / the Opcode-rebuilding wrapper): identity on a stated fragment,
    refuted outside it. *)
From Coq Require Import List ZArith NArith Bool Arith Lia String.
Import ListNotations.
From DD Require Import Base.Sx Base.PyStr Base.Value Pickle.Vm Pickle.Codec Pickle.PickleProofs Pickle.CodecProofs.

(** * the fragment on which the JSON round trip is the identity *)

Definition is_type_key (a : atom) : bool :=
  match a with AStr k => pystr_eqb k OLD_TYPE || pystr_eqb k NEW_TYPE | _ => false end.
Definition str_key (a : atom) : bool := match a with AStr _ => true | _ => false end.
(* a builtin class whose name TYPE_STR_TO_TYPE maps back to itself *)
Definition self_type (v : pv) : bool :=
  match v with
  | PType m n => pystr_eqb m BUILTINS && existsb (fun t => pystr_eqb n (s2p t)) TYPE_NAMES
  | _ => false
  end.

Fixpoint jfrag (v : pv) {struct v} : bool :=
  match v with
  | PAtom (ABytes _) => false
  | PAtom _ => true
  | PList xs => forallb jfrag xs
  | PDict kvs =>
      forallb (fun kv => str_key (fst kv)) kvs && nodup_atoms (map fst kvs) &&
      (if has_key OLD_TYPE kvs && has_key NEW_TYPE kvs
       then forallb (fun kv => if is_type_key (fst kv) then self_type (snd kv) else jfrag (snd kv)) kvs
       else forallb (fun kv => jfrag (snd kv)) kvs)
  | _ => false
  end.

(* a delta without iterable opcodes *)
Definition json_ok_plain (d : pv) : bool :=
  match d with
  | PDict kvs => jfrag d && negb (has_key ITERABLE_OPCODES kvs)
  | _ => false
  end.

(* a delta with iterable opcodes: Opcode records (with JSON-representable value lists) under
   path strings under the key _iterable_opcodes; everything else as above *)
Definition is_ops_key (a : atom) : bool :=
  match a with AStr k => pystr_eqb k ITERABLE_OPCODES | _ => false end.
Definition op_ok (v : pv) : bool :=
  match v with POpcode _ _ _ _ _ old new => jfrag old && jfrag new | _ => false end.
Definition ops_list_ok (v : pv) : bool :=
  match v with PList ops => forallb op_ok ops | _ => false end.
Definition ops_ok (v : pv) : bool :=
  match v with
  | PDict paths =>
      forallb (fun kv => str_key (fst kv)) paths && nodup_atoms (map fst paths) &&
      negb (has_key OLD_TYPE paths && has_key NEW_TYPE paths) &&
      forallb (fun kv => ops_list_ok (snd kv)) paths
  | _ => false
  end.
Definition json_ok_ops (d : pv) : bool :=
  match d with
  | PDict kvs =>
      forallb (fun kv => str_key (fst kv)) kvs && nodup_atoms (map fst kvs) &&
      negb (has_key OLD_TYPE kvs && has_key NEW_TYPE kvs) &&
      forallb (fun kv => if is_ops_key (fst kv) then ops_ok (snd kv) else jfrag (snd kv)) kvs
  | _ => false
  end.

Definition json_ok (d : pv) : bool := json_ok_plain d || json_ok_ops d.

(** * the local fixpoints as list functions *)

Definition to_kv (kv : atom * pv) : option (pystr * jv) :=
  match json_key (fst kv), to_json (snd kv) with Some s, Some y => Some (s, y) | _, _ => None end.

Lemma to_json_list_eq : forall xs, to_json (PList xs) = option_map JArr (all_some (map to_json xs)).
Proof.
  intros xs. cbn [to_json]. f_equal. induction xs as [|x r IH]; cbn; [reflexivity|].
  rewrite IH. destruct (to_json x); [|reflexivity]. destruct (all_some (map to_json r)); reflexivity.
Qed.
Lemma to_json_dict_eq : forall kvs, to_json (PDict kvs) = option_map JObj (all_some (map to_kv kvs)).
Proof.
  intros kvs. cbn [to_json]. f_equal. induction kvs as [|[k x] r IH]; cbn; [reflexivity|].
  rewrite IH. unfold to_kv. cbn. destruct (json_key k); [|reflexivity].
  destruct (to_json x); [|reflexivity]. destruct (all_some (map to_kv r)); reflexivity.
Qed.
Lemma of_json_arr_eq : forall xs, of_json (JArr xs) = option_map PList (all_some (map of_json xs)).
Proof.
  intros xs. cbn [of_json]. f_equal. induction xs as [|x r IH]; cbn; [reflexivity|].
  rewrite IH. destruct (of_json x); [|reflexivity]. destruct (all_some (map of_json r)); reflexivity.
Qed.
Fixpoint ofkv (kvs : list (pystr * jv)) (acc : list (atom * pv)) : option (list (atom * pv)) :=
  match kvs with
  | [] => Some acc
  | (k, x) :: r => match of_json x with Some y => ofkv r (obj_set k y acc) | None => None end
  end.
Lemma of_json_obj_eq : forall kvs,
  of_json (JObj kvs) =
  match ofkv kvs [] with
  | Some d => if has_key OLD_TYPE d && has_key NEW_TYPE d then option_map PDict (hook_kvs d) else Some (PDict d)
  | None => None
  end.
Proof.
  intros kvs. cbn [of_json].
  match goal with |- match ?f kvs [] with _ => _ end = _ => assert (E : forall l acc, f l acc = ofkv l acc) end.
  { induction l as [|[k x] r IH]; intro acc; cbn; [reflexivity|]. destruct (of_json x); [apply IH | reflexivity]. }
  rewrite E. reflexivity.
Qed.

(** * parsing an object with distinct keys *)

Lemma py_eq_str : forall s t, py_eq (AStr s) (AStr t) = pystr_eqb s t.
Proof. reflexivity. Qed.

Lemma obj_set_fresh : forall k y acc,
  existsb (py_eq (AStr k)) (map fst acc) = false -> obj_set k y acc = (acc ++ [(AStr k, y)])%list.
Proof.
  intros k y. induction acc as [|[a v] r IH]; cbn; [reflexivity|].
  intro H. apply orb_false_iff in H. destruct H as [H1 H2].
  destruct a; try (rewrite (IH H2); reflexivity).
  change (pystr_eqb k s = false) in H1. rewrite pystr_eqb_sym in H1. rewrite H1, (IH H2). reflexivity.
Qed.

Lemma ofkv_fresh : forall (jk : list (pystr * jv)) (kvs : list (atom * pv)) acc,
  Forall2 (fun sj kv => fst kv = AStr (fst sj) /\ of_json (snd sj) = Some (snd kv)) jk kvs ->
  nodup_atoms (map fst acc ++ map fst kvs) = true ->
  ofkv jk acc = Some (acc ++ kvs)%list.
Proof.
  intros jk kvs acc H. revert acc. induction H as [|[s j] [a v] jk kvs [Hk Hv] Hr IH]; intros acc Hn; cbn.
  - rewrite app_nil_r. reflexivity.
  - cbn in Hk, Hv. subst a. rewrite Hv. cbn [map fst] in Hn.
    destruct (nodup_atoms_app_mid _ _ _ Hn) as [He Hn'].
    rewrite (obj_set_fresh s v acc He). rewrite IH.
    + rewrite <- app_assoc. reflexivity.
    + rewrite map_app. exact Hn'.
Qed.

(** * the object hook undoes the type names *)

Definition type_name (v : pv) : pv := match v with PType _ n => PAtom (AStr n) | _ => v end.
Definition pre_hook (kv : atom * pv) : atom * pv :=
  if is_type_key (fst kv) then (fst kv, type_name (snd kv)) else kv.

Lemma self_type_inv : forall v, self_type v = true ->
  exists n, v = PType BUILTINS n /\ type_of_name n = PType BUILTINS n.
Proof.
  intros v H. destruct v; try discriminate. cbn [self_type] in H. apply andb_true_iff in H. destruct H as [Hm Hn].
  apply pystr_eqb_eq in Hm. subst m. exists n. split; [reflexivity|]. unfold type_of_name. rewrite Hn. reflexivity.
Qed.

Lemma hook_pre : forall kvs,
  forallb (fun kv => str_key (fst kv)) kvs = true ->
  forallb (fun kv => if is_type_key (fst kv) then self_type (snd kv) else true) kvs = true ->
  hook_kvs (map pre_hook kvs) = Some kvs.
Proof.
  induction kvs as [|[a x] r IH]; intros Hk Ht; [reflexivity|].
  cbn in Hk, Ht. apply andb_true_iff in Hk. destruct Hk as [Ha Hk]. apply andb_true_iff in Ht. destruct Ht as [Hx Ht].
  destruct a; try discriminate. cbn [map]. unfold pre_hook at 1. cbn [fst snd is_type_key] in *.
  destruct (pystr_eqb s OLD_TYPE || pystr_eqb s NEW_TYPE) eqn:E.
  - destruct (self_type_inv x Hx) as [n [-> Hn]]. cbn [type_name hook_kvs]. rewrite E. cbn [hook_value].
    rewrite Hn, (IH Hk Ht). reflexivity.
  - cbn [hook_kvs]. rewrite E, (IH Hk Ht). reflexivity.
Qed.

Lemma has_key_pre : forall k kvs, has_key k (map pre_hook kvs) = has_key k kvs.
Proof.
  intros k kvs. unfold has_key. rewrite existsb_map. apply existsb_ext_in. intros [a x].
  unfold pre_hook. cbn. destruct (is_type_key a); reflexivity.
Qed.

Lemma map_fst_pre : forall kvs, map fst (map pre_hook kvs) = map fst kvs.
Proof.
  induction kvs as [|[a x] r IH]; cbn; [reflexivity|]. rewrite IH. unfold pre_hook. cbn.
  destruct (is_type_key a); reflexivity.
Qed.

(** * the round trip on the fragment *)

Lemma json_key_str : forall a, str_key a = true -> exists s, a = AStr s /\ json_key a = Some s.
Proof. intros a H. destruct a; try discriminate. eauto. Qed.

Lemma kvs_rt : forall (b : bool) (kvs : list (atom * pv)),
  Forall (fun kv => jfrag (snd kv) = true -> exists j, to_json (snd kv) = Some j /\ of_json j = Some (snd kv)) kvs ->
  forallb (fun kv => str_key (fst kv)) kvs = true ->
  (if b then forallb (fun kv => if is_type_key (fst kv) then self_type (snd kv) else jfrag (snd kv)) kvs
   else forallb (fun kv => jfrag (snd kv)) kvs) = true ->
  exists jk, all_some (map to_kv kvs) = Some jk /\
    Forall2 (fun sj kv => fst kv = AStr (fst sj) /\ of_json (snd sj) = Some (snd kv)) jk
            (map (fun kv => if b then pre_hook kv else kv) kvs).
Proof.
  intros b kvs H. induction H as [|[a x] r Hx Hr IH]; intros Hkeys Hvals; [exists []; split; [reflexivity | constructor]|].
  cbn [forallb fst snd] in Hkeys. apply andb_true_iff in Hkeys. destruct Hkeys as [Ka Kr].
  destruct (json_key_str a Ka) as [s [-> Ks]].
  assert (Hr' : (if b then forallb (fun kv => if is_type_key (fst kv) then self_type (snd kv) else jfrag (snd kv)) r
                 else forallb (fun kv => jfrag (snd kv)) r) = true).
  { destruct b; cbn [forallb] in Hvals; apply andb_true_iff in Hvals; apply Hvals. }
  destruct (IH Kr Hr') as [jk [Tk Fk]].
  assert (Hx' : exists j, to_json x = Some j /\ of_json j = Some (snd (if b then pre_hook (AStr s, x) else (AStr s, x)))).
  { destruct b.
    - cbn [forallb fst snd] in Hvals. apply andb_true_iff in Hvals. destruct Hvals as [V _].
      unfold pre_hook. cbn [fst snd]. destruct (is_type_key (AStr s)).
      + destruct (self_type_inv x V) as [n [-> _]]. exists (JStr n). split; reflexivity.
      + apply Hx. exact V.
    - cbn [forallb fst snd] in Hvals. apply andb_true_iff in Hvals. destruct Hvals as [V _]. apply Hx. exact V. }
  destruct Hx' as [j [Tj Oj]].
  exists ((s, j) :: jk). cbn [map all_some]. unfold to_kv at 1. cbn [fst snd]. rewrite Ks, Tj, Tk.
  split; [reflexivity|]. constructor; [|exact Fk]. split; [|exact Oj].
  destruct b; [unfold pre_hook; cbn [fst snd]; destruct (is_type_key (AStr s)); reflexivity | reflexivity].
Qed.

Lemma jfrag_rt : forall v, jfrag v = true -> exists j, to_json v = Some j /\ of_json j = Some v.
Proof.
  induction v using pv_ind'; intro Hj; try discriminate.
  - (* atoms *) destruct a; try discriminate; cbn; eauto.
  - (* list *) cbn [jfrag] in Hj. rewrite to_json_list_eq.
    assert (E : exists js, all_some (map to_json xs) = Some js /\ all_some (map of_json js) = Some xs).
    { induction H as [|x r Hx Hr IH]; [exists []; split; reflexivity|].
      cbn in Hj. apply andb_true_iff in Hj. destruct Hj as [J1 J2].
      destruct (Hx J1) as [j [T O]]. destruct (IH J2) as [js [Ts Os]].
      exists (j :: js). cbn. rewrite T, Ts, O, Os. split; reflexivity. }
    destruct E as [js [Ts Os]]. rewrite Ts. exists (JArr js). split; [reflexivity|].
    rewrite of_json_arr_eq, Os. reflexivity.
  - (* dict *) cbn [jfrag] in Hj. apply andb_true_iff in Hj. destruct Hj as [Hj Hvals].
    apply andb_true_iff in Hj. destruct Hj as [Hkeys Hnd].
    remember (has_key OLD_TYPE kvs && has_key NEW_TYPE kvs) as both eqn:Eb.
    destruct (kvs_rt both kvs H Hkeys Hvals) as [jk [Tk Fk]].
    rewrite to_json_dict_eq, Tk. exists (JObj jk). split; [reflexivity|].
    rewrite of_json_obj_eq.
    assert (Hfst : map fst (map (fun kv => if both then pre_hook kv else kv) kvs) = map fst kvs).
    { destruct both; [apply map_fst_pre | rewrite map_id; reflexivity]. }
    rewrite (ofkv_fresh jk _ [] Fk) by (cbn [map app]; rewrite Hfst; exact Hnd).
    cbn [app].
    assert (Hhk : forall k, has_key k (map (fun kv => if both then pre_hook kv else kv) kvs) = has_key k kvs).
    { intro k. destruct both; [apply has_key_pre | rewrite map_id; reflexivity]. }
    rewrite !Hhk. rewrite <- Eb. destruct both.
    + rewrite hook_pre; [reflexivity | exact Hkeys|].
      clear - Hvals. induction kvs as [|[a x] r IH]; [reflexivity|]. cbn [forallb fst snd] in *.
      apply andb_true_iff in Hvals. destruct Hvals as [V1 V2]. rewrite (IH V2), andb_true_r.
      destruct (is_type_key a); [exact V1 | reflexivity].
    + rewrite map_id. reflexivity.
Qed.

Lemma has_key_find : forall k kvs, has_key k kvs = false ->
  find (fun kv : atom * pv => match fst kv with AStr s => pystr_eqb s k | _ => false end) kvs = None.
Proof.
  intros k. induction kvs as [|[a x] r IH]; cbn; [reflexivity|].
  intro H. apply orb_false_iff in H. destruct H as [H1 H2]. rewrite H1. apply IH. exact H2.
Qed.

(* on the fragment, Delta(json_dumps(payload), deserializer=json_loads).diff is the payload *)
Lemma json_roundtrip_plain : forall d, json_ok_plain d = true -> json_roundtrip d = Some d.
Proof.
  intros d H. destruct d; try discriminate. cbn [json_ok_plain] in H. apply andb_true_iff in H. destruct H as [Hj Hk].
  apply negb_true_iff in Hk. destruct (jfrag_rt _ Hj) as [j [T O]].
  unfold json_roundtrip, json_load. rewrite T, O. unfold wrapper. rewrite (has_key_find _ _ Hk). reflexivity.
Qed.

(** * deltas with iterable opcodes (Opcode records travel as arrays and are rebuilt positionally) *)

(* what an Opcode record looks like after json.loads, before the wrapper *)
Definition raw_op (v : pv) : pv :=
  match v with
  | POpcode tag i1 i2 j1 j2 old new =>
      PList [PAtom (AStr tag); PAtom (AInt i1); PAtom (AInt i2); PAtom (AInt j1); PAtom (AInt j2); old; new]
  | _ => v
  end.
Definition raw_ops (v : pv) : pv := match v with PList ops => PList (map raw_op ops) | _ => v end.
Definition raw_paths (v : pv) : pv :=
  match v with PDict paths => PDict (map (fun kv => (fst kv, raw_ops (snd kv))) paths) | _ => v end.
Definition raw_entry (kv : atom * pv) : pv := if is_ops_key (fst kv) then raw_paths (snd kv) else snd kv.

Lemma op_rt : forall v, op_ok v = true ->
  (exists j, to_json v = Some j /\ of_json j = Some (raw_op v)) /\ opcode_of (raw_op v) = Some v.
Proof.
  intros v H. destruct v; try discriminate. cbn [op_ok] in H. apply andb_true_iff in H. destruct H as [H1 H2].
  destruct (jfrag_rt _ H1) as [j1' [T1 O1]]. destruct (jfrag_rt _ H2) as [j2' [T2 O2]].
  split; [|reflexivity].
  exists (JArr [JStr tag; JInt i1; JInt i2; JInt j1; JInt j2; j1'; j2']).
  split; [cbn [to_json]; rewrite T1, T2; reflexivity|].
  rewrite of_json_arr_eq. cbn [map all_some of_json]. rewrite O1, O2. reflexivity.
Qed.

Lemma ops_list_rt : forall v, ops_list_ok v = true ->
  (exists j, to_json v = Some j /\ of_json j = Some (raw_ops v)) /\
  (exists ops, v = PList ops /\ all_some (map opcode_of (map raw_op ops)) = Some ops).
Proof.
  intros v H. destruct v; try discriminate. cbn [ops_list_ok] in H.
  assert (E : (exists js, all_some (map to_json xs) = Some js /\ all_some (map of_json js) = Some (map raw_op xs)) /\
              all_some (map opcode_of (map raw_op xs)) = Some xs).
  { induction xs as [|x r IH]; [split; [exists []; split; reflexivity | reflexivity]|].
    cbn [forallb] in H. apply andb_true_iff in H. destruct H as [Hx Hr].
    destruct (op_rt x Hx) as [[j [T O]] Hop]. destruct (IH Hr) as [[js [Ts Os]] Hops].
    split; [exists (j :: js); cbn [map all_some]; rewrite T, Ts, O, Os; split; reflexivity|].
    cbn [map all_some]. rewrite Hop, Hops. reflexivity. }
  destruct E as [[js [Ts Os]] Hops]. split.
  - exists (JArr js). rewrite to_json_list_eq, Ts. split; [reflexivity|]. rewrite of_json_arr_eq, Os. reflexivity.
  - exists xs. split; [reflexivity | exact Hops].
Qed.

(* dict entries in general: each value has a JSON form that parses to [g kv] *)
Lemma kvs_rt_gen : forall (g : atom * pv -> pv) (kvs : list (atom * pv)),
  forallb (fun kv => str_key (fst kv)) kvs = true ->
  Forall (fun kv => exists j, to_json (snd kv) = Some j /\ of_json j = Some (g kv)) kvs ->
  exists jk, all_some (map to_kv kvs) = Some jk /\
    Forall2 (fun sj kv => fst kv = AStr (fst sj) /\ of_json (snd sj) = Some (snd kv)) jk
            (map (fun kv => (fst kv, g kv)) kvs).
Proof.
  intros g kvs Hk HF. induction HF as [|[a x] r [j [Tj Oj]] Hr IH]; [exists []; split; [reflexivity | constructor]|].
  cbn [forallb fst snd] in Hk. apply andb_true_iff in Hk. destruct Hk as [Ka Kr].
  destruct (json_key_str a Ka) as [s [-> Ks]]. destruct (IH Kr) as [jk [Tk Fk]].
  exists ((s, j) :: jk). cbn [map all_some]. unfold to_kv at 1. cbn [fst snd] in *. rewrite Ks, Tj, Tk.
  split; [reflexivity|]. constructor; [split; [reflexivity | exact Oj] | exact Fk].
Qed.

Lemma has_key_map_g : forall k (g : atom * pv -> pv) kvs,
  has_key k (map (fun kv => (fst kv, g kv)) kvs) = has_key k kvs.
Proof. intros. unfold has_key. rewrite existsb_map. reflexivity. Qed.

Lemma dict_rt_gen : forall (g : atom * pv -> pv) (kvs : list (atom * pv)),
  forallb (fun kv => str_key (fst kv)) kvs = true -> nodup_atoms (map fst kvs) = true ->
  has_key OLD_TYPE kvs && has_key NEW_TYPE kvs = false ->
  Forall (fun kv => exists j, to_json (snd kv) = Some j /\ of_json j = Some (g kv)) kvs ->
  exists j, to_json (PDict kvs) = Some j /\ of_json j = Some (PDict (map (fun kv => (fst kv, g kv)) kvs)).
Proof.
  intros g kvs Hk Hnd Hb HF. destruct (kvs_rt_gen g kvs Hk HF) as [jk [Tk Fk]].
  exists (JObj jk). rewrite to_json_dict_eq, Tk. split; [reflexivity|].
  rewrite of_json_obj_eq.
  rewrite (ofkv_fresh jk _ [] Fk) by (cbn [map app]; rewrite map_map; cbn [fst]; exact Hnd).
  cbn [app]. rewrite !has_key_map_g, Hb. reflexivity.
Qed.

Lemma paths_rt : forall v, ops_ok v = true ->
  (exists j, to_json v = Some j /\ of_json j = Some (raw_paths v)) /\
  (truthy (raw_paths v) = true -> rebuild_opcodes (raw_paths v) = Some v) /\
  (truthy (raw_paths v) = false -> raw_paths v = v).
Proof.
  intros v H. destruct v; try discriminate. cbn [ops_ok] in H.
  apply andb_true_iff in H. destruct H as [H Hops]. apply andb_true_iff in H. destruct H as [H Hb].
  apply andb_true_iff in H. destruct H as [Hk Hnd]. apply negb_true_iff in Hb.
  split; [|split].
  - cbn [raw_paths]. apply (dict_rt_gen (fun kv => raw_ops (snd kv)) kvs Hk Hnd Hb).
    clear - Hops. induction kvs as [|[a x] r IH]; [constructor|].
    cbn [forallb snd] in Hops. apply andb_true_iff in Hops. destruct Hops as [Hx Hr].
    constructor; [exact (proj1 (ops_list_rt x Hx)) | exact (IH Hr)].
  - intros _. cbn [raw_paths rebuild_opcodes].
    match goal with |- option_map PDict (?f ?l) = _ => assert (E : f l = Some kvs) end.
    { clear - Hops. induction kvs as [|[a x] r IH]; [reflexivity|].
      cbn [forallb snd] in Hops. apply andb_true_iff in Hops. destruct Hops as [Hx Hr].
      destruct (proj2 (ops_list_rt x Hx)) as [ops [-> Hop]].
      cbn [map fst snd raw_ops]. rewrite Hop. rewrite (IH Hr). reflexivity. }
    rewrite E. reflexivity.
  - cbn [raw_paths]. destruct kvs; [reflexivity | discriminate].
Qed.

Lemma find_ops_key : forall (g : atom * pv -> pv) kvs,
  find (fun kv : atom * pv => match fst kv with AStr s => pystr_eqb s ITERABLE_OPCODES | _ => false end)
       (map (fun kv => (fst kv, g kv)) kvs)
  = option_map (fun kv => (fst kv, g kv))
      (find (fun kv : atom * pv => match fst kv with AStr s => pystr_eqb s ITERABLE_OPCODES | _ => false end) kvs).
Proof.
  intros g. induction kvs as [|[a x] r IH]; [reflexivity|]. cbn [map find fst].
  destruct (match a with AStr s => pystr_eqb s ITERABLE_OPCODES | _ => false end); [reflexivity | exact IH].
Qed.

(* replacing the raw opcodes entry by the rebuilt one restores the dict *)
Lemma replace_ops_key : forall kvs,
  forallb (fun kv => str_key (fst kv)) kvs = true -> nodup_atoms (map fst kvs) = true ->
  forall a x, find (fun kv : atom * pv => is_ops_key (fst kv)) kvs = Some (a, x) ->
  replace_key ITERABLE_OPCODES x (map (fun kv => (fst kv, raw_entry kv)) kvs) = kvs /\
  (forall kv, In kv kvs -> is_ops_key (fst kv) = true -> kv = (a, x)).
Proof.
  induction kvs as [|[b y] r IH]; intros Hk Hnd a x Hf; [discriminate|].
  cbn [forallb fst] in Hk. apply andb_true_iff in Hk. destruct Hk as [Kb Kr].
  cbn [map fst nodup_atoms] in Hnd. apply andb_true_iff in Hnd. destruct Hnd as [Nb Nr].
  destruct b; try discriminate. cbn [find fst is_ops_key] in Hf. cbn [map replace_key fst].
  destruct (pystr_eqb s ITERABLE_OPCODES) eqn:E.
  - inversion Hf; subst a x. clear Hf. apply pystr_eqb_eq in E. subst s.
    assert (Hno : forall kv, In kv r -> is_ops_key (fst kv) = false).
    { intros [c z] Hin. cbn [fst]. destruct c; try reflexivity. cbn [is_ops_key].
      destruct (pystr_eqb s ITERABLE_OPCODES) eqn:E2; [|reflexivity]. apply pystr_eqb_eq in E2. subst s.
      exfalso. apply negb_true_iff in Nb. unfold mem_atom in Nb.
      assert (existsb (py_eq (AStr ITERABLE_OPCODES)) (map fst r) = true).
      { apply existsb_exists. exists (AStr ITERABLE_OPCODES). split; [apply in_map_iff; exists (AStr ITERABLE_OPCODES, z); auto|].
        rewrite py_eq_str. apply pystr_eqb_refl. }
      congruence. }
    split.
    + f_equal. clear - Hno. induction r as [|[c z] r IH]; [reflexivity|]. cbn [map fst].
      unfold raw_entry at 1. cbn [fst snd]. pose proof (Hno (c, z) (or_introl eq_refl)) as Hc. cbn [fst] in Hc. rewrite Hc.
      rewrite IH; [reflexivity|]. intros kv Hin. apply Hno. right. exact Hin.
    + intros kv [<-|Hin] Hkey; [reflexivity|]. rewrite (Hno kv Hin) in Hkey. discriminate.
  - unfold raw_entry at 1. cbn [fst snd is_ops_key]. rewrite E.
    destruct (IH Kr Nr a x Hf) as [IH1 IH2]. split.
    + rewrite IH1. reflexivity.
    + intros kv [<-|Hin] Hkey; [cbn [fst is_ops_key] in Hkey; congruence | apply IH2; assumption].
Qed.

Lemma json_roundtrip_ops : forall d, json_ok_ops d = true -> json_roundtrip d = Some d.
Proof.
  intros d H. destruct d; try discriminate. cbn [json_ok_ops] in H.
  apply andb_true_iff in H. destruct H as [H Hv]. apply andb_true_iff in H. destruct H as [H Hb].
  apply andb_true_iff in H. destruct H as [Hk Hnd]. apply negb_true_iff in Hb.
  assert (HF : Forall (fun kv => exists j, to_json (snd kv) = Some j /\ of_json j = Some (raw_entry kv)) kvs).
  { clear - Hv. induction kvs as [|[a x] r IH]; [constructor|].
    cbn [forallb fst snd] in Hv. apply andb_true_iff in Hv. destruct Hv as [Hx Hr].
    constructor; [|exact (IH Hr)]. unfold raw_entry. cbn [fst snd].
    destruct (is_ops_key a); [exact (proj1 (paths_rt x Hx)) | exact (jfrag_rt x Hx)]. }
  destruct (dict_rt_gen raw_entry kvs Hk Hnd Hb HF) as [j [T O]].
  unfold json_roundtrip, json_load. rewrite T, O. unfold wrapper.
  rewrite (find_ops_key raw_entry kvs).
  destruct (find (fun kv : atom * pv => match fst kv with AStr s => pystr_eqb s ITERABLE_OPCODES | _ => false end) kvs)
    as [[a x]|] eqn:Ef; cbn [option_map].
  - (* the entry is there *)
    change (fun kv : atom * pv => match fst kv with AStr s => pystr_eqb s ITERABLE_OPCODES | _ => false end)
      with (fun kv : atom * pv => is_ops_key (fst kv)) in Ef.
    destruct (replace_ops_key kvs Hk Hnd a x Ef) as [Hrep Hall].
    assert (Hin : In (a, x) kvs /\ is_ops_key a = true).
    { apply find_some in Ef. exact Ef. }
    destruct Hin as [Hin Ha].
    assert (Hx : ops_ok x = true).
    { rewrite forallb_forall in Hv. specialize (Hv (a, x) Hin). cbn [fst snd] in Hv. rewrite Ha in Hv. exact Hv. }
    assert (Era : raw_entry (a, x) = raw_paths x) by (unfold raw_entry; cbn [fst snd]; rewrite Ha; reflexivity).
    cbn [fst snd]. rewrite !Era.
    destruct (paths_rt x Hx) as [_ [Ht Hf]].
    destruct (truthy (raw_paths x)) eqn:Et.
    + rewrite (Ht eq_refl), Hrep. reflexivity.
    + (* an empty opcodes dict is left alone; nothing was changed by the parse *)
      f_equal. f_equal. rewrite <- (map_id kvs) at 2. apply map_ext_in. intros [c z] Hin2.
      unfold raw_entry. cbn [fst snd]. destruct (is_ops_key c) eqn:Ec; [|reflexivity].
      pose proof (Hall (c, z) Hin2 Ec) as Heq. inversion Heq; subst c z. rewrite (Hf eq_refl). reflexivity.
  - (* no opcodes entry: every value parsed to itself *)
    f_equal. f_equal.
    assert (Hno : forall kv, In kv kvs -> is_ops_key (fst kv) = false).
    { intros kv Hin. destruct (is_ops_key (fst kv)) eqn:E; [|reflexivity].
      pose proof (find_none _ _ Ef kv Hin) as Hn. cbn beta in Hn. unfold is_ops_key in E. congruence. }
    clear - Hno. induction kvs as [|[c z] r IH]; [reflexivity|]. cbn [map fst].
    unfold raw_entry at 1. cbn [fst snd]. pose proof (Hno (c, z) (or_introl eq_refl)) as Hc. cbn [fst] in Hc. rewrite Hc.
    rewrite IH; [reflexivity|]. intros kv Hin. apply Hno. right. exact Hin.
Qed.

(* on the JSON-representable fragment, Delta(json_dumps(payload), deserializer=json_loads).diff is the payload *)
Theorem json_roundtrip_partial : forall d, json_ok d = true -> json_roundtrip d = Some d.
Proof.
  intros d H. unfold json_ok in H. apply orb_true_iff in H. destruct H as [H|H].
  - apply json_roundtrip_plain. exact H.
  - apply json_roundtrip_ops. exact H.
Qed.

(** * where the real code changes the payload *)
Local Open Scope string_scope.

(* K12 (fixed in c7b983b): a delta with iterable opcodes, serialised to JSON, loads again and
   carries the same payload - it is inside the fragment *)
Definition opcode_payload : pv :=
  PDict [(AStr (s2p "_iterable_opcodes"),
          PDict [(AStr (s2p "root"),
                  PList [POpcode (s2p "insert") 0 0 0 2 (PAtom ANone) (PList [PAtom (AInt 9%Z); PAtom (AInt 8%Z)]);
                         POpcode (s2p "equal") 0 4 2 6 (PAtom ANone) (PAtom ANone)])])].
Example json_opcode_payload_ok : json_ok opcode_payload = true.
Proof. vm_compute. reflexivity. Qed.
Example json_opcode_roundtrip : json_roundtrip opcode_payload = Some opcode_payload.
Proof. apply json_roundtrip_partial. exact json_opcode_payload_ok. Qed.

(* a type change from / to None comes back with None instead of NoneType *)
Definition nonetype_payload : pv :=
  PDict [(AStr (s2p "type_changes"),
          PDict [(AStr (s2p "root['a']"),
                  PDict [(AStr (s2p "old_type"), PNoneType);
                         (AStr (s2p "new_type"), PType (s2p "builtins") (s2p "int"));
                         (AStr (s2p "new_value"), PAtom (AInt 1%Z))])])].
Theorem json_nonetype_refuted :
  exists d d', wfp d = true /\ json_roundtrip d = Some d' /\ d' <> d.
Proof.
  exists nonetype_payload. eexists. split; [reflexivity|]. split; [vm_compute; reflexivity|]. discriminate.
Qed.

(* in general (tuples, sets, int keys, bytes ...) the JSON round trip is not the identity *)
Theorem json_roundtrip_refuted :
  exists d d', wfp d = true /\ json_roundtrip d = Some d' /\ d' <> d.
Proof.
  exists (PDict [(AStr (s2p "values_changed"),
                  PDict [(AStr (s2p "root"), PDict [(AStr (s2p "new_value"), PTuple [PAtom (AInt 1%Z)])])])]).
  eexists. split; [reflexivity|]. split; [vm_compute; reflexivity|]. discriminate.
Qed.

(* the guard is satisfiable by a delta with a type change, values and nesting *)
Definition json_sample : pv :=
  PDict [(AStr (s2p "type_changes"),
          PDict [(AStr (s2p "root['a']"),
                  PDict [(AStr (s2p "old_type"), PType (s2p "builtins") (s2p "int"));
                         (AStr (s2p "new_type"), PType (s2p "builtins") (s2p "str"));
                         (AStr (s2p "old_value"), PAtom (AInt 1%Z)); (AStr (s2p "new_value"), PAtom (AStr (s2p "x")))])]);
         (AStr (s2p "dictionary_item_added"),
          PDict [(AStr (s2p "root['f']"), PList [PAtom (AHalf 3%Z); PAtom ANone; PDict [(AStr (s2p "k"), PAtom (ABool true))]])])].
Example json_sample_ok : json_ok json_sample = true.
Proof. vm_compute. reflexivity. Qed.

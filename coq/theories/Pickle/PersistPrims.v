(** Pickle/PersistPrims.v - statement-level vocabulary for the SOURCE TIE of C14 (harness/translate/persist.py).

    The translator turns the Python text of
      deepdiff/serialization.py : pickle_dump (+ the signatures of pickle_dump / pickle_load), JSON_CONVERTOR
      deepdiff/delta.py         : Delta.__init__ (parameter defaults, the _deserializer choice, the if/elif chain that
                                  selects where self.diff comes from), Delta.dump / dumps / to_dict
    into Gallina, one statement per line.  This file is the vocabulary those lines are written in.  None of the
    functions the translator re-derives is mentioned here; [pickler_dump], the model of the inherited C method
    pickle.Pickler.dump, is the hand-written pickler [PicklerHook.enc_with] assembled to bytes by [Bytes.enc_ops]
    (exactly as SrcPrims.unpickler_load is the hand-written machine).  Definitions only (facts: PersistFacts.v). *)
From Coq Require Import List ZArith NArith Bool String.
Import ListNotations.
From DD Require Import Base.PyStr Base.Value Pickle.Vm Pickle.Codec Pickle.Bytes Pickle.PicklerHook Pickle.SrcPrims.

(** * what persistent_id is shown *)
(* the machine object a payload value is, as far as the tests the translator admits in persistent_id (`is NONE_TYPE`,
   `is None`, `== <str literal>`) can tell: leaves exactly, containers and instances by their kind only *)
Definition seen_obj (v : pv) : obj :=
  match v with
  | PAtom a => obj_of_atom a
  | PFloatBits b => OFloat (FBits b)
  | PList _ => OList 0 []
  | PTuple _ => OTuple []
  | PDict _ => ODict 0 []
  | PSet _ => OSet 0 []
  | PFrozen _ => OFrozen []
  | PType m n => OGlobal m n GType
  | PNoneType => ONoneType
  | POpcode _ _ _ _ _ _ _ => OInst 0 KNewobj (OGlobal HELPER OPCODE GType) (OTuple []) []
  | PSetOrdered _ => OInst 0 KNewobj (OGlobal HELPER SETORDERED GType) (OTuple []) []
  end.
(* the pickler's hook, on payload values, that a persistent_id method on machine objects induces *)
Definition hook_of (pid : obj -> option pystr) (v : pv) : option pystr := pid (seen_obj v).

(** * binary file objects open for writing *)
Inductive wfile :=
| WNone                                  (* the value None (argument not given) *)
| WFile (content : list N)               (* a file object / io.BytesIO holding [content], positioned at its end *)
| WUnknown.                              (* a file object whose content the model does not follow *)
Definition wf_truth (f : wfile) : bool := match f with WNone => false | _ => true end.   (* file objects are truthy *)
Definition wf_is_none (f : wfile) : bool := match f with WNone => true | _ => false end.    (* f is None *)
Definition wf_or (a b : wfile) : wfile := if wf_truth a then a else b.                  (* a or b *)
Definition io_BytesIO_new : wfile := WFile [].                                          (* io.BytesIO() *)

(* what pickle_dump returns *)
Inductive dump_ret :=
| DNone
| DBytes (b : list N)
| DUnknown.                              (* bytes the model does not follow *)
Definition wf_getvalue (f : wfile) : res dump_ret :=
  match f with WNone => Raise EAttributeError | WFile c => Ret (DBytes c) | WUnknown => Ret DUnknown end.
(* `return e` / falling off the end of a function that was handed the file object [f]: the caller sees the returned
   value and the (mutated) file object *)
Definition returning {A : Type} (r : res A) (f : wfile) : res (A * wfile) :=
  match r with Ret a => Ret (a, f) | Raise e => Raise e end.

(** * pickle.Pickler (C): protocol 4, one frame over everything after the header *)
Definition pickler_ops (hook : pv -> option pystr) (v : pv) : list op := dump_with hook v.
Definition pickler_body (hook : pv -> option pystr) (v : pv) : list N := enc_ops (enc_with hook v ++ [STOP])%list.
Definition pickler_bytes (hook : pv -> option pystr) (v : pv) : list N :=
  (enc_op (PROTO 4) ++ enc_op (FRAME (Z.of_N (len (pickler_body hook v)))) ++ pickler_body hook v)%list.

Record pickler := mkPickler {
  pk_hook : pv -> option pystr;          (* the subclass's persistent_id *)
  pk_file : wfile;
  pk_protocol : Z;
  pk_fix_imports : bool                  (* only read by protocols < 3 *)
}.
(* Pickler.dump(obj): appends the pickle to the file it was constructed on; the file object after the call.
   Protocols other than 4 are outside the hand-written encoder: the content is then unknown to the model *)
Definition pickler_dump (pk : pickler) (v : pv) : res wfile :=
  match pk_file pk with
  | WNone => Raise ETypeError            (* pickle.Pickler(None): file must have a 'write' attribute *)
  | WUnknown => Ret WUnknown
  | WFile c => if (pk_protocol pk =? 4)%Z then Ret (WFile (c ++ pickler_bytes (pk_hook pk) v)%list) else Ret WUnknown
  end.

(** * names: co_varnames, `'x' in set(names)` *)
Definition str_in (s : string) (l : list string) : bool := existsb (String.eqb s) l.

(** * Delta.__init__: which arguments are given *)
(* the classes the chain tests `diff` against *)
Inductive diff_cls := ClsDeepDiff | ClsMapping | ClsStrings.
(* what the caller passed as `diff`: a DeepDiff object is also a Mapping (DeepDiff subclasses dict) *)
Inductive diff_kind := KNone | KDeepDiff | KMapping | KStrings | KOther.
Definition kind_is_none (k : diff_kind) : bool := match k with KNone => true | _ => false end.
Definition kind_isinstance (k : diff_kind) (c : diff_cls) : bool :=
  match k, c with
  | KDeepDiff, ClsDeepDiff | KDeepDiff, ClsMapping | KMapping, ClsMapping | KStrings, ClsStrings => true
  | _, _ => false
  end.
(* [a_x] = the truth value of the argument x *)
Record init_args := mkArgs {
  a_diff : diff_kind;
  a_delta_path : bool; a_delta_file : bool; a_delta_diff : bool; a_flat_dict_list : bool; a_flat_rows_list : bool
}.
(* where the bytes handed to the deserializer come from *)
Inductive content_src :=
| CArg (name : string)                   (* the argument itself *)
| CPathRead (name : string) (mode : string)   (* open(<arg>, mode).read(), the file closed afterwards *)
| CFileRead (name : string).             (* <arg>.read(); UnicodeDecodeError -> ValueError(BINIARY_MODE_NEEDED_MSG) *)
(* what self.diff is set from *)
Inductive source :=
| SToDeltaDict                           (* diff._to_delta_dict(directed=not bidirectional, always_include_values=...) *)
| SAsIs (name : string)                  (* the argument object itself *)
| SDeserialize (c : content_src) (safe_to_import_passed : bool)   (* _deserializer(content, safe_to_import=safe_to_import) *)
| SFlatDicts (name : string)             (* self._from_flat_dicts(copy.deepcopy(<arg>)) *)
| SFlatRows (name : string)              (* self._from_flat_rows(copy.deepcopy(<arg>)) *)
| SUnset                                 (* no branch assigns self.diff (AttributeError at the next statement that reads it) *)
| SValueError (msg : pystr).

(* which callable _deserializer is *)
Inductive deser_choice := DeserDirect | DeserWrapped.
(* Delta.dump *)
Inductive dump_mode :=
| DumpFileObjKeyword (kw : string)       (* self.serializer(self.diff, <kw>=file) *)
| DumpWriteDumps.                        (* file.write(self.dumps()) *)
(* Delta.dumps / to_dict *)
Inductive dumps_mode := DumpsSerializerOfDiff.      (* return self.serializer(self.diff) *)
Inductive to_dict_mode := ToDictCopyOfDiff.         (* return dict(self.diff) *)

(** * JSON_CONVERTOR: (class, what the converter does) *)
Inductive jconv :=
| JcFunc (name : string)                 (* a module-level function / a builtin class, by name *)
| JcLambda (body : string).              (* a lambda, by the source text of its body *)

(** * json_convertor_default: the table, the closure's lookup *)
(* dict-like association lists keyed by the (dotted) name a class is written with *)
Definition table := list (string * jconv).
Definition table_truth (t : table) : bool := match t with [] => false | _ => true end.
Definition table_copy (t : table) : table := t.
Fixpoint table_set (k : string) (v : jconv) (t : table) : table :=
  match t with
  | [] => [(k, v)]
  | (k', v') :: r => if String.eqb k k' then (k', v) :: r else (k', v') :: table_set k v r
  end.
(* d.update(m): existing keys keep their position, new keys are appended in m's order *)
Definition table_update (t m : table) : table := fold_left (fun acc kv => table_set (fst kv) (snd kv) acc) m t.
(* for k, v in t.items(): if test(k): return <v> - the first entry, in insertion order, whose key passes *)
Fixpoint table_first (test : string -> bool) (t : table) : option jconv :=
  match t with
  | [] => None
  | (k, v) :: r => if test k then Some v else table_first test r
  end.

(* the classes of objects json's `default=` hook can be handed from a delta payload (None / bool / int / float / str / list /
   tuple / dict never reach it), one that the fallback names, and any other object *)
Inductive pycl := PcSet | PcFrozenset | PcSetOrdered | PcType | PcBytes | PcListReverseIterator | PcOther.
(* isinstance(obj, <the class the table writes as key>) for an obj of class c: SetOrdered subclasses orderly_set.StableSetEq and
   is not a set; a frozenset is a frozenset and not a set; none of them is a Mapping, a tuple, a Decimal, ... *)
Definition pc_isinstance (c : pycl) (key : string) : bool :=
  match c with
  | PcSet => String.eqb key "set"
  | PcSetOrdered => String.eqb key "SetOrdered" || String.eqb key "orderly_set.StableSetEq"
  | PcType => String.eqb key "type"
  | PcBytes => String.eqb key "bytes"
  | PcFrozenset => String.eqb key "frozenset"        (* not a key of JSON_CONVERTOR: only a caller's default_mapping can name it *)
  | PcListReverseIterator | PcOther => false
  end.
(* obj.__class__.__name__ *)
Definition pc_class_name (c : pycl) : string :=
  match c with
  | PcSet => "set" | PcFrozenset => "frozenset" | PcSetOrdered => "SetOrdered" | PcType => "type" | PcBytes => "bytes"
  | PcListReverseIterator => "list_reverseiterator" | PcOther => "object"
  end.
Inductive conv_result :=
| ConvApply (c : jconv)                  (* return convert_to(obj) *)
| ConvListOfCopy                         (* return list(copy(obj)) *)
| ConvTypeError.                         (* raise TypeError(...) *)

(** Pickle/PersistFacts.v - facts about the vocabulary of Pickle/PersistPrims.v and the model Pickle/PersistModel.v *)
From Coq Require Import List ZArith NArith Bool String.
Import ListNotations.
From DD Require Import Base.PyStr Base.Value Pickle.Vm Pickle.Codec Pickle.Bytes Pickle.BytesProofs Pickle.PicklerHook
  Pickle.PicklerHookProofs Pickle.SrcPrims Pickle.PersistPrims Pickle.PersistModel.

(* a hook that claims the class type(None) under the id persistent_load knows, and nothing else, makes the C pickler
   write the canonical encoding: as opcodes and as bytes *)
Section Hook.
  Variable hook : pv -> option pystr.
  Hypothesis hook_spec : forall x, hook x = None \/ (x = PNoneType /\ hook x = Some NONE_TYPE_PID).
  Hypothesis hook_claims : hook PNoneType = Some NONE_TYPE_PID.

  Lemma hook_enc : forall v, enc_with hook v = enc v.
  Proof. intro v. apply (enc_with_agrees hook hook_spec). intro H. rewrite hook_claims in H. discriminate H. Qed.
  Lemma pickler_ops_canonical : forall v, pickler_ops hook v = enc_prog v.
  Proof. intro v. unfold pickler_ops, dump_with, enc_prog. rewrite hook_enc. reflexivity. Qed.
  Lemma pickler_ops_pickle_dump : forall v, pickler_ops hook v = pickle_dump v.
  Proof. intro v. rewrite pickler_ops_canonical, pickle_dump_is_enc_prog. reflexivity. Qed.
  Lemma pickler_bytes_canonical : forall v, pickler_bytes hook v = dump_bytes v.
  Proof. intro v. unfold pickler_bytes, pickler_body, dump_bytes, dump_body. rewrite hook_enc. reflexivity. Qed.
End Hook.

(* the hand model's hook is such a hook *)
Lemma persistent_id_claims : persistent_id PNoneType = Some NONE_TYPE_PID.
Proof. reflexivity. Qed.

(* the dump is never empty *)
Lemma dump_bytes_nonempty : forall v, exists b r, dump_bytes v = b :: r.
Proof. intro v. unfold dump_bytes. cbn [enc_op]. eexists. eexists. cbn [app]. reflexivity. Qed.

(** * the hand model: what pickle_dump_call writes, pickle_load reads back *)
Theorem dump_call_returns_bytes : forall v, pickle_dump_call v WNone PICKLE_DUMP_PROTOCOL = Ret (DBytes (dump_bytes v), WFile (dump_bytes v)).
Proof. reflexivity. Qed.
Theorem dump_call_appends : forall v c, pickle_dump_call v (WFile c) PICKLE_DUMP_PROTOCOL = Ret (DNone, WFile (c ++ dump_bytes v)%list).
Proof. reflexivity. Qed.

(* the default serializer / deserializer are used without detour *)
Theorem default_deserializer_direct : deserializer_choice true PICKLE_LOAD_VARNAMES = DeserDirect.
Proof. reflexivity. Qed.
Theorem default_dump_mode : delta_dump_mode PICKLE_DUMP_VARNAMES = DumpFileObjKeyword "file_obj".
Proof. reflexivity. Qed.

(* the three persisted forms all reach the deserializer with safe_to_import *)
Theorem persisted_sources : forall a : init_args,
  (a_diff a = KStrings -> delta_source a = SDeserialize (CArg "diff") true) /\
  (a_diff a = KNone -> a_delta_path a = true -> delta_source a = SDeserialize (CPathRead "delta_path" "rb") true) /\
  (a_diff a = KNone -> a_delta_path a = false -> a_delta_diff a = false -> a_delta_file a = true ->
     delta_source a = SDeserialize (CFileRead "delta_file") true).
Proof.
  intros [d p f dd fd fr]. cbn [a_diff a_delta_path a_delta_file a_delta_diff]. unfold delta_source. cbn [a_diff a_delta_path a_delta_file a_delta_diff].
  split; [|split].
  - intros ->. reflexivity.
  - intros -> ->. reflexivity.
  - intros -> -> -> ->. reflexivity.
Qed.

(** * json_convertor_default *)
Lemma jconv_eqb_eq : forall a b, jconv_eqb a b = true -> a = b.
Proof. intros [x|x] [y|y] H; cbn in H; try discriminate H; apply String.eqb_eq in H; subst; reflexivity. Qed.
Lemma entry_eqb_eq : forall a b, entry_eqb a b = true -> a = b.
Proof.
  intros [k j] [k' j'] H. unfold entry_eqb in H. cbn [fst snd] in H. apply andb_true_iff in H. destruct H as [H1 H2].
  apply String.eqb_eq in H1. apply jconv_eqb_eq in H2. subst. reflexivity.
Qed.
Lemma same_entries_b_spec : forall a b, same_entries_b a b = true -> forall e, In e a <-> In e b.
Proof.
  intros a b H e. unfold same_entries_b in H. apply andb_true_iff in H. destruct H as [H1 H2].
  rewrite forallb_forall in H1, H2. split; intro Hin.
  - specialize (H1 e Hin). apply existsb_exists in H1. destruct H1 as [y [Hy E]]. apply entry_eqb_eq in E. subst. exact Hy.
  - specialize (H2 e Hin). apply existsb_exists in H2. destruct H2 as [y [Hy E]]. apply entry_eqb_eq in E. subst. exact Hy.
Qed.
(* the hand table gives the converters Codec.to_json assumes *)
Theorem default_convertor_is_table_lookup : forall c, convertor (convertor_mapping []) c = default_convertor c.
Proof. intros []; reflexivity. Qed.

(** Pickle/PersistModel.v - hand-written statement-level model of the PERSISTING side of C14:
    serialization.pickle_dump as a call (bytes returned vs written into the caller's file object), and Delta's
    choice of where its payload comes from (Delta.__init__), how Delta.dump / dumps hand it to the serializer, and
    the defaults of the signature.  The encoder itself is PicklerHook.pickle_dump / Bytes.dump_bytes.
    coq/srctie/PersistGenEquiv.v proves the definitions regenerated from the source equal to these.
    Definitions only (facts: PersistFacts.v). *)
From Coq Require Import List ZArith NArith Bool String.
Import ListNotations.
From DD Require Import Base.PyStr Base.Value Pickle.Vm Pickle.Codec Pickle.Bytes Pickle.PicklerHook Pickle.SrcPrims
  Pickle.PersistPrims.
Local Open Scope string_scope.

(** * pickle_dump(obj, file_obj=None, protocol=4) *)
(* without a file object the bytes of the dump are returned; with one they are appended to it and None is
   returned; -> (returned value, the file object written to) *)
Definition pickle_dump_call (v : pv) (file_obj : wfile) (protocol : Z) : res (dump_ret * wfile) :=
  match file_obj with
  | WNone => if (protocol =? 4)%Z then Ret (DBytes (dump_bytes v), WFile (dump_bytes v)) else Ret (DUnknown, WUnknown)
  | WFile c => if (protocol =? 4)%Z then Ret (DNone, WFile (c ++ dump_bytes v)%list) else Ret (DNone, WUnknown)
  | WUnknown => Ret (DNone, WUnknown)
  end.
Definition PICKLE_DUMP_PROTOCOL : Z := 4.
Definition PICKLE_DUMP_VARNAMES : list string := ["obj"; "file_obj"; "protocol"; "file_obj_passed"].
Definition PICKLE_LOAD_VARNAMES : list string := ["content"; "file_obj"; "safe_to_import"].

(** * Delta.__init__: where self.diff comes from *)
Definition AT_LEAST_ONE_ARG : pystr := s2p "At least one of the diff, delta_path or delta_file arguments need to be passed.".
Definition delta_source (a : init_args) : source :=
  match a_diff a with
  | KDeepDiff => SToDeltaDict
  | KMapping => SAsIs "diff"
  | KStrings => SDeserialize (CArg "diff") true
  | KOther => SUnset
  | KNone =>
      if a_delta_path a then SDeserialize (CPathRead "delta_path" "rb") true
      else if a_delta_diff a then SAsIs "delta_diff"
      else if a_delta_file a then SDeserialize (CFileRead "delta_file") true
      else if a_flat_dict_list a then SFlatDicts "flat_dict_list"
      else if a_flat_rows_list a then SFlatRows "flat_rows_list"
      else SValueError AT_LEAST_ONE_ARG
  end.

(* a deserializer that is a Python function with a parameter (or local) named safe_to_import is called directly;
   anything else through the wrapper that drops safe_to_import and rebuilds the Opcode records (Codec.wrapper) *)
Definition deserializer_choice (has_code : bool) (co_varnames : list string) : deser_choice :=
  if has_code && str_in "safe_to_import" co_varnames then DeserDirect else DeserWrapped.

(* the defaults of the signature, by name *)
Definition DEFAULT_DESERIALIZER : string := "pickle_load".
Definition DEFAULT_SERIALIZER : string := "pickle_dump".

(** * Delta.dump(file) / dumps() / to_dict() *)
Definition delta_dump_mode (serializer_co_varnames : list string) : dump_mode :=
  if str_in "file_obj" serializer_co_varnames then DumpFileObjKeyword "file_obj" else DumpWriteDumps.
Definition delta_dumps_mode : dumps_mode := DumpsSerializerOfDiff.
Definition delta_to_dict_mode : to_dict_mode := ToDictCopyOfDiff.

(** * json_convertor_default *)
Definition JSON_CONVERTOR_TABLE : table := [
  ("decimal.Decimal", JcFunc "_serialize_decimal");
  ("SetOrdered", JcFunc "list");
  ("orderly_set.StableSetEq", JcFunc "list");
  ("set", JcFunc "list");
  ("type", JcLambda "x.__name__");
  ("bytes", JcLambda "x.decode('utf-8')");
  ("datetime.datetime", JcLambda "x.isoformat()");
  ("uuid.UUID", JcLambda "str(x)");
  ("np_float32", JcFunc "float");
  ("np_float64", JcFunc "float");
  ("np_int32", JcFunc "int");
  ("np_int64", JcFunc "int");
  ("np_ndarray", JcLambda "x.tolist()");
  ("tuple", JcFunc "_serialize_tuple");
  ("Mapping", JcFunc "dict");
  ("NotPresent", JcFunc "str")
].
(* the mapping the closure closes over *)
Definition convertor_mapping (default_mapping : table) : table :=
  match default_mapping with [] => JSON_CONVERTOR_TABLE | _ => table_update JSON_CONVERTOR_TABLE default_mapping end.
(* _convertor(obj): the first entry whose class obj is an instance of; else the list_reverseiterator fallback; else TypeError *)
Definition convertor (mapping : table) (c : pycl) : conv_result :=
  match table_first (pc_isinstance c) mapping with
  | Some j => ConvApply j
  | None => match c with PcListReverseIterator => ConvListOfCopy | _ => ConvTypeError end
  end.
(* what Codec.to_json assumes of json_convertor_default(): sets and SetOrdered become lists, a class its __name__, bytes
   their UTF-8 text, a frozenset is refused *)
Definition default_convertor (c : pycl) : conv_result :=
  match c with
  | PcSet | PcSetOrdered => ConvApply (JcFunc "list")
  | PcType => ConvApply (JcLambda "x.__name__")
  | PcBytes => ConvApply (JcLambda "x.decode('utf-8')")
  | PcListReverseIterator => ConvListOfCopy
  | PcFrozenset | PcOther => ConvTypeError
  end.

(* tables as sets of pairs *)
Definition jconv_eqb (a b : jconv) : bool :=
  match a, b with JcFunc x, JcFunc y | JcLambda x, JcLambda y => String.eqb x y | _, _ => false end.
Definition entry_eqb (a b : string * jconv) : bool := String.eqb (fst a) (fst b) && jconv_eqb (snd a) (snd b).
Definition same_entries_b (a b : table) : bool :=
  forallb (fun x => existsb (entry_eqb x) b) a && forallb (fun x => existsb (entry_eqb x) a) b.

(** * reading a load result as a payload *)
Definition payload_of (r : res result) : option pv :=
  match result_of r with
  | Some (Done o, _) => decode o
  | _ => None
  end.

(** Pickle/BytesDeltaProofs.v - C14 stated on the BYTES of a persisted delta:
    the canonical dump of a delta (Bytes.dump_bytes of DeltaCodec.pv_of_delta),
    read back through the byte decoder, the machine and DeltaCodec.delta_of_pv,
    is the delta itself - so it gives the same result on every base - whatever
    bytes follow the dump in the file. *)
From Coq Require Import List ZArith NArith Bool Arith Lia String.
Import ListNotations.
From DD Require Import Base.Sx Base.PyStr Base.Value Path.PathModel Path.PathProofs Diff.Tree Diff.DiffModel Delta.DeltaModel
  Pickle.Vm Pickle.Codec Pickle.CodecProofs Pickle.DeltaCodec Pickle.DeltaCodecProofs Pickle.Bytes Pickle.BytesProofs.

(* Delta(pickle_load(content), bidirectional=b) *)
Definition reload_bytes (w : world) (dl : dialect) (b : bool) (bs : list N) : option delta :=
  match load_bytes w dl bs with Some p => delta_of_pv b p | None => None end.

Theorem reload_bytes_canonical_dump : forall w t d junk,
  calls_ok w -> types_ok w (pv_of_delta d) -> wfp (pv_of_delta d) = true -> delta_ok d ->
  dump_ok (pv_of_delta d) = true ->
  reload_bytes w (c_dialect t) (d_bidir d) (dump_bytes (pv_of_delta d) ++ junk) = Some d.
Proof.
  intros w t d junk Hc Ht Hw Hok Hd. unfold reload_bytes.
  rewrite (load_bytes_dump w t _ junk Hc Ht Hw Hd). apply delta_of_pv_of_delta. exact Hok.
Qed.

Section SameResultBytes.
  Variable conv : ty -> value -> option value.
  Variable rem_order : list (path * value) -> list (path * value).
  Variable add_order : list (path * option value) -> list (path * option value).

  Theorem reloaded_bytes_same_result : forall w t d junk,
    calls_ok w -> types_ok w (pv_of_delta d) -> wfp (pv_of_delta d) = true -> delta_ok d ->
    dump_ok (pv_of_delta d) = true ->
    exists d', reload_bytes w (c_dialect t) (d_bidir d) (dump_bytes (pv_of_delta d) ++ junk) = Some d' /\
      (forall base, apply conv rem_order add_order d' base = apply conv rem_order add_order d base) /\
      (forall base, sub conv rem_order add_order d' base = sub conv rem_order add_order d base).
  Proof.
    intros w t d junk Hc Ht Hw Hok Hd. exists d. split; [apply reload_bytes_canonical_dump; assumption|]. split; reflexivity.
  Qed.
End SameResultBytes.

(* non-vacuity: the sample delta with every category meets the new hypothesis too, and its dump
   followed by other bytes reloads to it *)
Example sample_delta_dump_ok : dump_ok (pv_of_delta sample_delta) = true.
Proof. vm_compute. reflexivity. Qed.
Example sample_delta_reloads_from_bytes :
  reload_bytes default_world (c_dialect no_text) (d_bidir sample_delta)
               (dump_bytes (pv_of_delta sample_delta) ++ [128; 4; 78; 46]%N) = Some sample_delta.
Proof. vm_compute. reflexivity. Qed.

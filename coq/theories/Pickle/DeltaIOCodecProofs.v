(** Pickle/DeltaIOCodecProofs.v - C14 for deltas built with ignore_order=True: the payload with its
    index maps, dumped, loaded and read back, is the delta_io itself, so Delta.__add__ as modelled
    by DeltaIO.apply_io gives the same result on every base. *)
From Coq Require Import List ZArith NArith Bool Arith Lia String.
Import ListNotations.
From DD Require Import Base.Sx Base.PyStr Base.Value Path.PathModel Path.PathProofs Diff.Tree Diff.DiffModel
  Delta.DeltaModel Delta.DeltaIO
  Pickle.Vm Pickle.Codec Pickle.PickleProofs Pickle.CodecProofs Pickle.Encodes Pickle.EncodesProofs
  Pickle.DeltaCodec Pickle.DeltaCodecProofs Pickle.DeltaIOCodec Pickle.Bytes Pickle.BytesProofs Pickle.BytesDeltaProofs.
Local Open Scope string_scope.

Lemma idx_entry_inv : forall iv, idx_entry (pv_of_idx iv) = Some iv.
Proof. intros [n v]. unfold idx_entry, pv_of_idx. cbn [fst snd]. rewrite value_of_pv_of_value, nat_of_Z_of_nat. reflexivity. Qed.

Lemma imap_entry_inv : forall pm, gpath (fst pm) -> imap_entry (pv_of_imap pm) = Some pm.
Proof.
  intros [p m] Hp. unfold imap_entry, pv_of_imap. cbn [fst snd pkey_s path_of_key] in *.
  rewrite (parse_render_gpath p Hp).
  rewrite (all_some_inv _ _ pv_of_idx idx_entry (fun _ => True) m (fun x _ => idx_entry_inv x)); [reflexivity|].
  apply Forall_forall. intros; exact I.
Qed.

Record delta_io_ok (d : delta_io) : Prop := mkDioOk {
  io_ok_base : delta_ok (io_base d);
  io_ok_added : Forall (fun pm => gpath (fst pm)) (io_added d);
  io_ok_removed : Forall (fun pm => gpath (fst pm)) (io_removed d)
}.

Lemma all_cats_io_dicts : forall d, Forall (fun kv : atom * pv => exists es, snd kv = PDict es) (all_categories_io d).
Proof.
  intro d. unfold all_categories_io. apply Forall_app. split; [apply all_cats_dicts|].
  repeat (constructor; [eexists; reflexivity|]). constructor.
Qed.

Lemma filter_comm : forall (A : Type) (f g : A -> bool) l, filter f (filter g l) = filter g (filter f l).
Proof.
  intros A f g. induction l as [|x r IH]; [reflexivity|]. cbn [filter].
  destruct (g x) eqn:Eg, (f x) eqn:Ef; cbn [filter]; rewrite ?Eg, ?Ef, IH; reflexivity.
Qed.

Theorem delta_io_of_pv_of_delta_io : forall d, delta_io_ok d ->
  delta_io_of_pv (d_bidir (io_base d)) (pv_of_delta_io d) = Some d.
Proof.
  intros d [Hb Ha Hr]. unfold delta_io_of_pv, pv_of_delta_io.
  rewrite filter_comm.
  change (filter not_io_cat (all_categories_io d)) with (all_categories (io_base d)).
  fold (pv_of_delta (io_base d)). rewrite (delta_of_pv_of_delta _ Hb).
  unfold category. rewrite !(entries_filter _ _ (all_cats_io_dicts d) eq_refl).
  change (entries_of IO_ADDED (all_categories_io d)) with (Some (map pv_of_imap (io_added d))).
  change (entries_of IO_REMOVED (all_categories_io d)) with (Some (map pv_of_imap (io_removed d))).
  cbn beta iota.
  rewrite (all_some_inv _ _ pv_of_imap imap_entry _ _ imap_entry_inv Ha).
  rewrite (all_some_inv _ _ pv_of_imap imap_entry _ _ imap_entry_inv Hr).
  destruct d; reflexivity.
Qed.

(** * the property: same result on EVERY base *)
Section SameResultIO.
  Variable H : pystr -> pystr.
  Variable conv : ty -> value -> option value.
  Variable rem_order : list (path * value) -> list (path * value).
  Variable add_order : list (path * option value) -> list (path * option value).

  (* Delta(pickle_load(dump), bidirectional=b) *)
  Definition reload_io (w : world) (b : bool) (prog : list op) : option delta_io :=
    match load w prog with Some p => delta_io_of_pv b p | None => None end.
  Definition reload_io_bytes (w : world) (dl : dialect) (b : bool) (bs : list N) : option delta_io :=
    match load_bytes w dl bs with Some p => delta_io_of_pv b p | None => None end.

  Theorem reloaded_io_same_result : forall w d,
    calls_ok w -> types_ok w (pv_of_delta_io d) -> wfp (pv_of_delta_io d) = true -> delta_io_ok d ->
    exists d', reload_io w (d_bidir (io_base d)) (enc_prog (pv_of_delta_io d)) = Some d' /\
      (forall base, apply_io H conv rem_order add_order d' base = apply_io H conv rem_order add_order d base).
  Proof.
    intros w d Hc Ht Hw Hok. exists d. split; [|reflexivity].
    unfold reload_io. rewrite (pickle_roundtrip w _ Hc Ht Hw). apply delta_io_of_pv_of_delta_io. exact Hok.
  Qed.

  Theorem reloaded_io_same_result_accepted : forall w prog d,
    calls_ok w -> types_ok w (pv_of_delta_io d) -> wfp (pv_of_delta_io d) = true -> delta_io_ok d ->
    accepts prog (pv_of_delta_io d) = true ->
    exists d', reload_io w (d_bidir (io_base d)) prog = Some d' /\
      (forall base, apply_io H conv rem_order add_order d' base = apply_io H conv rem_order add_order d base).
  Proof.
    intros w prog d Hc Ht Hw Hok Ha. exists d. split; [|reflexivity].
    unfold reload_io. rewrite (accepts_sound w prog _ Hc Ht Hw Ha). apply delta_io_of_pv_of_delta_io. exact Hok.
  Qed.

  Theorem reloaded_io_bytes_same_result : forall w t d junk,
    calls_ok w -> types_ok w (pv_of_delta_io d) -> wfp (pv_of_delta_io d) = true -> delta_io_ok d ->
    dump_ok (pv_of_delta_io d) = true ->
    exists d', reload_io_bytes w (c_dialect t) (d_bidir (io_base d)) (dump_bytes (pv_of_delta_io d) ++ junk) = Some d' /\
      (forall base, apply_io H conv rem_order add_order d' base = apply_io H conv rem_order add_order d base).
  Proof.
    intros w t d junk Hc Ht Hw Hok Hd. exists d. split; [|reflexivity].
    unfold reload_io_bytes. rewrite (load_bytes_dump w t _ junk Hc Ht Hw Hd). apply delta_io_of_pv_of_delta_io. exact Hok.
  Qed.
End SameResultIO.

(* non-vacuity: a delta with index maps at two paths meets the hypotheses and comes back from the bytes of its dump *)
Definition sample_delta_io : delta_io :=
  mkDIO (mkDelta [mkVC [pk "a"] None (Some (VAtom (AInt 1))) (VAtom (AInt 2))] [] [([pk "n"], VAtom ANone)] [] [] [] []
                 [([pk "s"], [AInt 3])] [] [] true)
        [([], [(0%nat, VAtom (AInt 5)); (2%nat, VList [VAtom (AStr (s2p "x"))])]); ([pk "l"], [(1%nat, VAtom (AHalf 3))])]
        [([], [(1%nat, VTuple [VAtom (ABool true)])])].
Example sample_delta_io_ok :
  delta_io_ok sample_delta_io /\ wfp (pv_of_delta_io sample_delta_io) = true /\
  types_default_b (pv_of_delta_io sample_delta_io) = true /\ dump_ok (pv_of_delta_io sample_delta_io) = true.
Proof.
  split; [|vm_compute; repeat split; reflexivity].
  constructor; [constructor|..]; cbn;
    repeat first [ apply Forall_nil | apply Forall_cons | split
                 | (apply gpath_by_compute; vm_compute; reflexivity) | exact I ].
Qed.
Example sample_delta_io_reloads_from_bytes :
  reload_io_bytes default_world (c_dialect no_text) true (dump_bytes (pv_of_delta_io sample_delta_io) ++ [46]%N)
  = Some sample_delta_io.
Proof. vm_compute. reflexivity. Qed.

(** Correspondence-side rendering for C14's link to the Delta application model
    (no theorem depends on this file). *)
From Coq Require Import List ZArith NArith Bool Arith String.
Import ListNotations.
From DD Require Import Base.Sx Base.PyStr Base.Value Path.PathModel Diff.Tree Diff.DiffModel Diff.DiffShow
  Delta.DeltaModel Delta.DeltaShow Pickle.Vm Pickle.Codec Pickle.DeltaCodec.
Local Open Scope string_scope.

(* the delta the application model sees after pickle_load of a real dump *)
Definition sx_loaded_delta (w : world) (b : bool) (prog : list op) : sx :=
  match load w prog with
  | Some p => match delta_of_pv b p with
              | Some d => sx_delta d
              | None => SA "not-an-ordered-mode-delta"
              end
  | None => SA "raises"
  end.
(* and after the canonical re-encoding of what it read *)
Definition sx_reencoded_delta (w : world) (b : bool) (prog : list op) : sx :=
  match load w prog with
  | Some p => match delta_of_pv b p with
              | Some d => match load w (enc_prog (pv_of_delta d)) with
                          | Some p' => match delta_of_pv b p' with Some d' => sx_delta d' | None => SA "not-an-ordered-mode-delta" end
                          | None => SA "raises"
                          end
              | None => SA "not-an-ordered-mode-delta"
              end
  | None => SA "raises"
  end.

(* the payload rebuilt from the delta that was read: must be the payload Delta.diff holds *)
From DD Require Import Pickle.PickleShow.
Definition sx_rebuilt_payload (w : world) (b : bool) (prog : list op) : sx :=
  match load w prog with
  | Some p => match delta_of_pv b p with
              | Some d => sx_pv (pv_of_delta d)
              | None => SA "not-an-ordered-mode-delta"
              end
  | None => SA "raises"
  end.

(* the three observations with one run of the machine *)
Definition sx_delta_all (w : world) (b : bool) (prog : list op) : sx :=
  match load w prog with
  | Some p =>
      match delta_of_pv b p with
      | Some d =>
          SL [sx_delta d;
              match load w (enc_prog (pv_of_delta d)) with
              | Some p' => match delta_of_pv b p' with Some d' => sx_delta d' | None => SA "not-an-ordered-mode-delta" end
              | None => SA "raises"
              end;
              sx_pv (pv_of_delta d)]
      | None => SA "not-an-ordered-mode-delta"
      end
  | None => SA "raises"
  end.

(* a JSON-persisted delta: the model's reloaded payload, the relation's right-hand side, and the
   delta the application model reads from it *)
Definition sx_json_sets (b : bool) (p : pv) : sx :=
  SL [sx_opv (json_roundtrip p); sx_pv (setlist p);
      match json_roundtrip p with
      | Some p' => match delta_of_pv b p' with Some d => sx_delta d | None => SA "not-an-ordered-mode-delta" end
      | None => SA "raises"
      end;
      match delta_of_pv b p with Some d => sx_delta d | None => SA "not-an-ordered-mode-delta" end].

(** ignore_order payloads: the index maps (Pickle/DeltaIOCodec.v, Delta/DeltaIO.v) *)
From DD Require Import Hash.HashModel DiffIO.DiffIOModel DiffIO.DiffIOShow Delta.DeltaIO Delta.DeltaIOShow Pickle.DeltaIOCodec.
Definition sx_dio (d : delta_io) : sx :=
  SL [sx_delta (io_base d);
      SL (sx_sort (map (sx_imap "addat") (io_added d) ++ map (sx_imap "remat") (io_removed d)))].
(* the delta_io read from a real dump; read again after the canonical re-encoding; the payload rebuilt from it *)
Definition sx_delta_io_all (w : world) (b : bool) (prog : list op) : sx :=
  match load w prog with
  | Some p =>
      match delta_io_of_pv b p with
      | Some d =>
          SL [sx_dio d;
              match load w (enc_prog (pv_of_delta_io d)) with
              | Some p' => match delta_io_of_pv b p' with Some d' => sx_dio d' | None => SA "not-an-ignore-order-delta" end
              | None => SA "raises"
              end;
              sx_pv (pv_of_delta_io d)]
      | None => SA "not-an-ignore-order-delta"
      end
  | None => SA "raises"
  end.

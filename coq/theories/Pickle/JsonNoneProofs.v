(** Pickle/JsonNoneProofs.v - C14, JSON path: the exact effect of finding C14-JSON-NONETYPE.
    On the JSON-representable fragment EXTENDED with NoneType at old_type / new_type the JSON round trip
    yields [jimg d]: the payload with exactly those NoneType entries replaced by None (json_dumps writes
    the name 'NoneType', TYPE_STR_TO_TYPE maps it to the VALUE None) and nothing else changed; it is the
    identity exactly when no such entry exists. *)
From Coq Require Import List ZArith NArith Bool Arith Lia String.
Import ListNotations.
From DD Require Import Base.Sx Base.PyStr Base.Value Pickle.Vm Pickle.Codec Pickle.PickleProofs Pickle.CodecProofs Pickle.JsonProofs.

Definition is_nonetype (v : pv) : bool := match v with PNoneType => true | _ => false end.
Definition type_okN (v : pv) : bool := self_type v || is_nonetype v.
Definition timg (v : pv) : pv := match v with PNoneType => PAtom ANone | _ => v end.

(* the fragment: [jfrag] with NoneType admitted where a type object is *)
Fixpoint jfragN (v : pv) {struct v} : bool :=
  match v with
  | PAtom (ABytes _) => false
  | PAtom _ => true
  | PList xs => forallb jfragN xs
  | PDict kvs =>
      forallb (fun kv => str_key (fst kv)) kvs && nodup_atoms (map fst kvs) &&
      (if has_key OLD_TYPE kvs && has_key NEW_TYPE kvs
       then forallb (fun kv => if is_type_key (fst kv) then type_okN (snd kv) else jfragN (snd kv)) kvs
       else forallb (fun kv => jfragN (snd kv)) kvs)
  | _ => false
  end.

(* what comes back *)
Fixpoint jimg (v : pv) {struct v} : pv :=
  match v with
  | PList xs => PList (map jimg xs)
  | PDict kvs =>
      let both := has_key OLD_TYPE kvs && has_key NEW_TYPE kvs in
      PDict (map (fun kv => (fst kv, if both && is_type_key (fst kv) then timg (snd kv) else jimg (snd kv))) kvs)
  | _ => v
  end.

(* a NoneType at old_type / new_type of a dict that has both keys *)
Fixpoint has_nonetype (v : pv) {struct v} : bool :=
  match v with
  | PList xs => existsb has_nonetype xs
  | PDict kvs =>
      let both := has_key OLD_TYPE kvs && has_key NEW_TYPE kvs in
      existsb (fun kv => if both && is_type_key (fst kv) then is_nonetype (snd kv) else has_nonetype (snd kv)) kvs
  | _ => false
  end.

Definition imgkv (both : bool) (kv : atom * pv) : atom * pv :=
  (fst kv, if both && is_type_key (fst kv) then timg (snd kv) else jimg (snd kv)).
Lemma jimg_dict : forall kvs, jimg (PDict kvs) = PDict (map (imgkv (has_key OLD_TYPE kvs && has_key NEW_TYPE kvs)) kvs).
Proof. reflexivity. Qed.

Local Open Scope string_scope.
Definition type_nameN (v : pv) : pv :=
  match v with PType _ n => PAtom (AStr n) | PNoneType => PAtom (AStr (s2p "NoneType")) | _ => v end.
Local Close Scope string_scope.
(* the dict as json.loads hands it to the object hook *)
Definition prekv (both : bool) (kv : atom * pv) : atom * pv :=
  (fst kv, if both && is_type_key (fst kv) then type_nameN (snd kv) else jimg (snd kv)).

Lemma type_okN_inv : forall v, type_okN v = true ->
  exists n, to_json v = Some (JStr n) /\ type_nameN v = PAtom (AStr n) /\ type_of_name n = timg v.
Proof.
  intros v H. unfold type_okN in H. apply orb_true_iff in H. destruct H as [H|H].
  - destruct (self_type_inv v H) as [n [-> Hn]]. exists n. repeat split. exact Hn.
  - destruct v; try discriminate. eexists. repeat split.
Qed.

Lemma hook_preN : forall kvs,
  forallb (fun kv => str_key (fst kv)) kvs = true ->
  forallb (fun kv => if is_type_key (fst kv) then type_okN (snd kv) else true) kvs = true ->
  hook_kvs (map (prekv true) kvs) = Some (map (imgkv true) kvs).
Proof.
  induction kvs as [|[a x] r IH]; intros Hk Ht; [reflexivity|].
  cbn in Hk, Ht. apply andb_true_iff in Hk. destruct Hk as [Ha Hk]. apply andb_true_iff in Ht. destruct Ht as [Hx Ht].
  destruct a; try discriminate. cbn [map]. unfold prekv at 1, imgkv at 1. cbn [fst snd is_type_key andb] in *.
  destruct (pystr_eqb s OLD_TYPE || pystr_eqb s NEW_TYPE) eqn:E.
  - destruct (type_okN_inv x Hx) as [n [_ [Hn Ht']]]. rewrite Hn. cbn [hook_kvs]. rewrite E. cbn [hook_value].
    rewrite Ht', (IH Hk Ht). reflexivity.
  - cbn [hook_kvs]. rewrite E, (IH Hk Ht). reflexivity.
Qed.

Lemma has_key_map_fst : forall k (f : atom * pv -> atom * pv) kvs, (forall kv, fst (f kv) = fst kv) ->
  has_key k (map f kvs) = has_key k kvs.
Proof.
  intros k f kvs Hf. unfold has_key. rewrite existsb_map. apply existsb_ext_in. intros kv. rewrite Hf. reflexivity.
Qed.
Lemma map_fst_same : forall (f : atom * pv -> atom * pv) kvs, (forall kv, fst (f kv) = fst kv) -> map fst (map f kvs) = map fst kvs.
Proof. intros f kvs Hf. rewrite map_map. apply map_ext. exact Hf. Qed.

Lemma kvs_rtN : forall (b : bool) (kvs : list (atom * pv)),
  Forall (fun kv => jfragN (snd kv) = true -> exists j, to_json (snd kv) = Some j /\ of_json j = Some (jimg (snd kv))) kvs ->
  forallb (fun kv => str_key (fst kv)) kvs = true ->
  (if b then forallb (fun kv => if is_type_key (fst kv) then type_okN (snd kv) else jfragN (snd kv)) kvs
   else forallb (fun kv => jfragN (snd kv)) kvs) = true ->
  exists jk, all_some (map to_kv kvs) = Some jk /\
    Forall2 (fun sj kv => fst kv = AStr (fst sj) /\ of_json (snd sj) = Some (snd kv)) jk (map (prekv b) kvs).
Proof.
  intros b kvs H. induction H as [|[a x] r Hx Hr IH]; intros Hkeys Hvals; [exists []; split; [reflexivity | constructor]|].
  cbn [forallb fst snd] in Hkeys. apply andb_true_iff in Hkeys. destruct Hkeys as [Ka Kr].
  destruct (json_key_str a Ka) as [s [-> Ks]].
  assert (Hr' : (if b then forallb (fun kv => if is_type_key (fst kv) then type_okN (snd kv) else jfragN (snd kv)) r
                 else forallb (fun kv => jfragN (snd kv)) r) = true).
  { destruct b; cbn [forallb] in Hvals; apply andb_true_iff in Hvals; apply Hvals. }
  destruct (IH Kr Hr') as [jk [Tk Fk]].
  assert (Hx' : exists j, to_json x = Some j /\ of_json j = Some (snd (prekv b (AStr s, x)))).
  { unfold prekv. cbn [fst snd]. destruct b; cbn [andb].
    - cbn [forallb fst snd] in Hvals. apply andb_true_iff in Hvals. destruct Hvals as [V _].
      destruct (is_type_key (AStr s)).
      + destruct (type_okN_inv x V) as [n [Tn [Hn _]]]. exists (JStr n). rewrite Hn. split; [exact Tn | reflexivity].
      + apply Hx. exact V.
    - cbn [forallb fst snd] in Hvals. apply andb_true_iff in Hvals. destruct Hvals as [V _]. apply Hx. exact V. }
  destruct Hx' as [j [Tj Oj]].
  exists ((s, j) :: jk). cbn [map all_some]. unfold to_kv at 1. cbn [fst snd]. rewrite Ks, Tj, Tk.
  split; [reflexivity|]. constructor; [|exact Fk]. split; [reflexivity | exact Oj].
Qed.

Lemma jfragN_rt : forall v, jfragN v = true -> exists j, to_json v = Some j /\ of_json j = Some (jimg v).
Proof.
  induction v using pv_ind'; intro Hj; try discriminate.
  - destruct a; try discriminate; cbn; eauto.
  - cbn [jfragN] in Hj. rewrite to_json_list_eq.
    assert (E : exists js, all_some (map to_json xs) = Some js /\ all_some (map of_json js) = Some (map jimg xs)).
    { induction H as [|x r Hx Hr IH]; [exists []; split; reflexivity|].
      cbn in Hj. apply andb_true_iff in Hj. destruct Hj as [J1 J2].
      destruct (Hx J1) as [j [T O]]. destruct (IH J2) as [js [Ts Os]].
      exists (j :: js). cbn. rewrite T, Ts, O, Os. split; reflexivity. }
    destruct E as [js [Ts Os]]. rewrite Ts. exists (JArr js). split; [reflexivity|].
    rewrite of_json_arr_eq, Os. reflexivity.
  - cbn [jfragN] in Hj. apply andb_true_iff in Hj. destruct Hj as [Hj Hvals].
    apply andb_true_iff in Hj. destruct Hj as [Hkeys Hnd].
    remember (has_key OLD_TYPE kvs && has_key NEW_TYPE kvs) as both eqn:Eb.
    destruct (kvs_rtN both kvs H Hkeys Hvals) as [jk [Tk Fk]].
    rewrite to_json_dict_eq, Tk. exists (JObj jk). split; [reflexivity|].
    rewrite of_json_obj_eq, jimg_dict, <- Eb.
    rewrite (ofkv_fresh jk _ [] Fk) by (cbn [map app]; rewrite map_fst_same by reflexivity; exact Hnd).
    cbn [app]. rewrite !(has_key_map_fst _ (prekv both)) by reflexivity. rewrite <- Eb. destruct both.
    + rewrite hook_preN; [reflexivity | exact Hkeys|].
      clear - Hvals. induction kvs as [|[a x] r IH]; [reflexivity|]. cbn [forallb fst snd] in *.
      apply andb_true_iff in Hvals. destruct Hvals as [V1 V2]. rewrite (IH V2), andb_true_r.
      destruct (is_type_key a); [exact V1 | reflexivity].
    + reflexivity.
Qed.

(* deltas without iterable opcodes whose type changes may involve NoneType *)
Definition json_okN (d : pv) : bool :=
  match d with
  | PDict kvs => jfragN d && negb (has_key ITERABLE_OPCODES kvs)
  | _ => false
  end.

Theorem json_roundtrip_nonetype : forall d, json_okN d = true -> json_roundtrip d = Some (jimg d).
Proof.
  intros d H. destruct d; try discriminate. cbn [json_okN] in H. apply andb_true_iff in H. destruct H as [Hj Hk].
  apply negb_true_iff in Hk. destruct (jfragN_rt _ Hj) as [j [T O]].
  unfold json_roundtrip, json_load. rewrite T, O. rewrite jimg_dict. unfold wrapper.
  set (both := has_key OLD_TYPE kvs && has_key NEW_TYPE kvs).
  assert (Hk' : has_key ITERABLE_OPCODES (map (imgkv both) kvs) = false)
    by (rewrite has_key_map_fst by reflexivity; exact Hk).
  rewrite (has_key_find _ _ Hk'). reflexivity.
Qed.

(* [jimg] changes a payload exactly when it has a NoneType at old_type / new_type *)
Lemma jimg_id_iff : forall v, jimg v = v <-> has_nonetype v = false.
Proof.
  induction v using pv_ind'; try (split; reflexivity).
  - (* list *) cbn [jimg has_nonetype]. split.
    + intro E. injection E as E'. induction H as [|x r Hx Hr IH]; [reflexivity|].
      cbn [map existsb] in E' |- *. injection E' as E1 E2. rewrite (proj1 Hx E1), (IH E2). reflexivity.
    + intro E. f_equal. induction H as [|x r Hx Hr IH]; [reflexivity|].
      cbn [map existsb] in E |- *. apply orb_false_iff in E. destruct E as [E1 E2]. rewrite (proj2 Hx E1), (IH E2). reflexivity.
  - (* dict *) rewrite jimg_dict. cbn [has_nonetype]. generalize (has_key OLD_TYPE kvs && has_key NEW_TYPE kvs). intro both. split.
    + intro E. injection E as E'. induction H as [|[a x] r Hx Hr IH]; [reflexivity|].
      cbn [map existsb fst snd] in E' |- *. unfold imgkv at 1 in E'. cbn [fst snd] in E'. injection E' as E1 E2.
      rewrite (IH E2), orb_false_r. destruct (both && is_type_key a)%bool.
      * destruct x; try reflexivity. discriminate E1.
      * cbn [snd] in Hx. apply (proj1 Hx E1).
    + intro E. f_equal. induction H as [|[a x] r Hx Hr IH]; [reflexivity|].
      cbn [map existsb fst snd] in E |- *. apply orb_false_iff in E. destruct E as [E1 E2]. rewrite (IH E2).
      unfold imgkv. cbn [fst snd]. destruct (both && is_type_key a)%bool.
      * destruct x; try reflexivity. discriminate E1.
      * cbn [snd] in Hx. rewrite (proj2 Hx E1). reflexivity.
Qed.

(* the exact characterisation of the finding: on the extended fragment the JSON-persisted delta carries an
   equal payload iff no type change involves None *)
Theorem json_roundtrip_identity_iff : forall d, json_okN d = true ->
  (json_roundtrip d = Some d <-> has_nonetype d = false).
Proof.
  intros d H. rewrite (json_roundtrip_nonetype d H). split.
  - intro E. injection E as E'. apply jimg_id_iff. exact E'.
  - intro E. f_equal. apply jimg_id_iff. exact E.
Qed.

(* the extended fragment contains the old one, where nothing changes *)
Lemma self_type_okN : forall v, self_type v = true -> type_okN v = true.
Proof. intros v H. unfold type_okN. rewrite H. reflexivity. Qed.

(* the extended fragment contains the fragment of C14_json_roundtrip_partial, and there is no NoneType entry there:
   C14_json_nonetype_exact specialises to the identity *)
Lemma jfrag_jfragN : forall v, jfrag v = true -> jfragN v = true /\ has_nonetype v = false.
Proof.
  induction v using pv_ind'; intro Hj; try discriminate.
  - destruct a; try discriminate; split; reflexivity.
  - cbn [jfrag jfragN has_nonetype] in *. induction H as [|x r Hx Hr IH]; [split; reflexivity|].
    cbn [forallb existsb] in *. apply andb_true_iff in Hj. destruct Hj as [J1 J2].
    destruct (Hx J1) as [A1 A2]. destruct (IH J2) as [B1 B2]. rewrite A1, A2, B1, B2. split; reflexivity.
  - cbn [jfrag jfragN has_nonetype] in *. apply andb_true_iff in Hj. destruct Hj as [Hj Hvals]. rewrite Hj. cbn [andb]. clear Hj.
    destruct (has_key OLD_TYPE kvs && has_key NEW_TYPE kvs)%bool; cbn [andb].
    + induction H as [|[a x] r Hx Hr IH]; [split; reflexivity|].
      cbn [forallb existsb fst snd] in *. apply andb_true_iff in Hvals. destruct Hvals as [V1 V2].
      destruct (IH V2) as [B1 B2]. rewrite B1, B2. destruct (is_type_key a).
      * rewrite (self_type_okN x V1). destruct x; try discriminate V1. split; reflexivity.
      * destruct (Hx V1) as [A1 A2]. rewrite A1, A2. split; reflexivity.
    + induction H as [|[a x] r Hx Hr IH]; [split; reflexivity|].
      cbn [forallb existsb fst snd] in *. apply andb_true_iff in Hvals. destruct Hvals as [V1 V2].
      destruct (IH V2) as [B1 B2]. destruct (Hx V1) as [A1 A2]. rewrite A1, A2, B1, B2. split; reflexivity.
Qed.

Theorem json_ok_plain_okN : forall d, json_ok_plain d = true -> json_okN d = true /\ has_nonetype d = false.
Proof.
  intros d H. destruct d; try discriminate. cbn [json_ok_plain json_okN] in *. apply andb_true_iff in H. destruct H as [Hj Hk].
  destruct (jfrag_jfragN _ Hj) as [A B]. rewrite A, Hk. split; [reflexivity | exact B].
Qed.

(* the witness of C14_json_nonetype_refuted is inside the extended fragment *)
Example nonetype_payload_okN : json_okN nonetype_payload = true /\ has_nonetype nonetype_payload = true.
Proof. split; vm_compute; reflexivity. Qed.

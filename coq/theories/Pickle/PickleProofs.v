(** Pickle/PickleProofs.v - lemmas and main proofs about the restricted
    unpickler model (Vm.v): the allow-list decision, and the safety invariant
    of the machine (C15). *)
From Coq Require Import List ZArith NArith Bool Arith Lia.
Import ListNotations.
From DD Require Import Base.Sx Base.PyStr Pickle.Vm.

(** * Strings *)

Lemma pystr_eqb_refl : forall a, pystr_eqb a a = true.
Proof. induction a as [|x a IH]; cbn; [reflexivity|]. rewrite N.eqb_refl. exact IH. Qed.

Lemma pystr_eqb_eq : forall a b, pystr_eqb a b = true <-> a = b.
Proof.
  induction a as [|x a IH]; destruct b as [|y b]; cbn; split; intro H; try reflexivity; try discriminate.
  - apply andb_true_iff in H. destruct H as [H1 H2]. apply N.eqb_eq in H1. apply IH in H2. congruence.
  - inversion H; subst. rewrite N.eqb_refl. apply (pystr_eqb_refl b).
Qed.

Lemma mem_str_In : forall s l, mem_str s l = true <-> In s l.
Proof.
  intros s l. unfold mem_str. rewrite existsb_exists. split.
  - intros [x [Hin He]]. apply pystr_eqb_eq in He. subst. exact Hin.
  - intro H. exists s. split; [exact H | apply pystr_eqb_refl].
Qed.

Lemma mem_str_false : forall s l, mem_str s l = false <-> ~ In s l.
Proof.
  intros s l. rewrite <- mem_str_In. destruct (mem_str s l); split; intro H.
  - discriminate.
  - exfalso. apply H. reflexivity.
  - intro H'. discriminate.
  - reflexivity.
Qed.

(** * find_class decides by membership of the joined string, exactly *)

Definition allowed (w : world) (m n : pystr) : Prop := In (dotted m n) (allow w).

Lemma find_class_forbidden_iff : forall w m n,
  find_class w m n = FCForbidden <-> ~ allowed w m n.
Proof.
  intros w m n. unfold find_class, allowed. rewrite <- mem_str_false.
  destruct (mem_str (dotted m n) (allow w)); split; intro H; try reflexivity; try discriminate.
  destruct (lookup w m n); discriminate.
Qed.

Lemma find_class_resolved : forall w m n k,
  find_class w m n = FCResolved k -> allowed w m n /\ lookup w m n = Found k.
Proof.
  intros w m n k. unfold find_class, allowed.
  destruct (mem_str (dotted m n) (allow w)) eqn:E; [|discriminate].
  apply mem_str_In in E. destruct (lookup w m n); intro H; try discriminate. inversion H; subst. auto.
Qed.

Lemma find_class_allowed : forall w m n, allowed w m n ->
  find_class w m n = match lookup w m n with
                     | NoModule => FCNoModule | NoAttr => FCNoAttr | Found k => FCResolved k
                     end.
Proof.
  intros w m n H. unfold find_class. apply mem_str_In in H. unfold allowed in *. rewrite H. reflexivity.
Qed.

(* resolved <-> member of the allow-list and actually present in the process *)
Lemma find_class_exact : forall w m n,
  (find_class w m n = FCForbidden <-> ~ In (dotted m n) (allow w)) /\
  (forall k, find_class w m n = FCResolved k <-> In (dotted m n) (allow w) /\ lookup w m n = Found k).
Proof.
  intros w m n. split; [apply find_class_forbidden_iff|].
  intro k. split; [apply find_class_resolved|].
  intros [Ha Hl]. rewrite (find_class_allowed w m n Ha), Hl. reflexivity.
Qed.

(* the allow-list the unpickler works with: the built-in list plus what the caller passed *)
Definition user_names (a : safe_arg) : list pystr :=
  match a with SafeNone => [] | SafeStr [] => [] | SafeStr s => [s] | SafeIter l => l end.

Lemma effective_allow_spec : forall a s,
  In s (effective_allow a) <-> In s SAFE_TO_IMPORT \/ In s (user_names a).
Proof.
  intros a s. destruct a as [|[|c r]|[|x l]]; cbn [effective_allow user_names].
  - split; [auto|]. intros [H|[]]. exact H.
  - split; [auto|]. intros [H|[]]. exact H.
  - split.
    + intros [H|H]; [right; left; exact H | left; exact H].
    + intros [H|[H|[]]]; [right; exact H | left; exact H].
  - split; [auto|]. intros [H|[]]. exact H.
  - rewrite in_app_iff. tauto.
Qed.

(** ** the joined string: which (module, name) pairs one allow-list entry admits *)

Fixpoint splits (s : pystr) : list (pystr * pystr) :=
  match s with
  | [] => []
  | c :: r => (if N.eqb c dot then [([], r)] else []) ++ map (fun p => (c :: fst p, snd p)) (splits r)
  end.

Lemma splits_spec : forall s m n, In (m, n) (splits s) <-> dotted m n = s.
Proof.
  induction s as [|c r IH]; intros m n; cbn [splits].
  - split; [intros []|]. unfold dotted. destruct m; discriminate.
  - rewrite in_app_iff, in_map_iff. split.
    + intros [H|[[m' n'] [He Hin]]].
      * destruct (N.eqb_spec c dot) as [->|]; [|destruct H].
        destruct H as [H|[]]. inversion H; subst. reflexivity.
      * cbn in He. inversion He; subst. apply IH in Hin. unfold dotted in *. cbn. rewrite Hin. reflexivity.
    + intro H. unfold dotted in H. destruct m as [|x m]; cbn in H; inversion H; subst.
      * left. rewrite N.eqb_refl. left. reflexivity.
      * right. exists (m, n). split; [reflexivity|]. apply IH. reflexivity.
Qed.

(* exactly the pairs obtained by cutting an allow-list entry at one of its dots pass the test *)
Lemma allowed_iff_split : forall w m n,
  allowed w m n <-> exists s, In s (allow w) /\ In (m, n) (splits s).
Proof.
  intros w m n. unfold allowed. split.
  - intro H. exists (dotted m n). split; [exact H|]. apply splits_spec. reflexivity.
  - intros [s [Hs Hsp]]. apply splits_spec in Hsp. subst. exact Hs.
Qed.

Lemma decision_depends_on_join : forall w m n m' n',
  dotted m n = dotted m' n' ->
  (find_class w m n = FCForbidden <-> find_class w m' n' = FCForbidden).
Proof.
  intros w m n m' n' H. rewrite !find_class_forbidden_iff. unfold allowed. rewrite H. tauto.
Qed.

(** * Safety: no global outside the allow-list ever exists inside the machine *)

Fixpoint safe_b (al : list pystr) (o : obj) {struct o} : bool :=
  match o with
  | OTuple xs | OFrozen xs | OList _ xs | OSet _ xs => forallb (safe_b al) xs
  | ODict _ kvs => forallb (fun kv => safe_b al (fst kv) && safe_b al (snd kv)) kvs
  | OGlobal m n _ => mem_str (dotted m n) al
  | OInst _ _ f a sts => safe_b al f && safe_b al a && forallb (safe_b al) sts
  | _ => true
  end.

Definition ev_safe_b (al : list pystr) (e : event) : bool :=
  match e with
  | EResolve m n => mem_str (dotted m n) al
  | ECall _ f a => safe_b al f && safe_b al a
  | EBuild i s => safe_b al i && safe_b al s
  | EPersist p => safe_b al p
  | EExtCached _ o => safe_b al o
  end.

Definition cache_safe_b (al : list pystr) (c : list (Z * obj)) : bool :=
  forallb (fun p => safe_b al (snd p)) c.

(* the guard: copyreg's process-wide extension cache holds no forbidden global *)
Definition ext_cache_safe_b (w : world) : bool := cache_safe_b (allow w) (ext_cache0 w).

Record st_safe (al : list pystr) (st : state) : Prop := mkSafe {
  safe_stack : forallb (safe_b al) (stack st) = true;
  safe_memo : cache_safe_b al (memo st) = true;
  safe_ecache : cache_safe_b al (ecache st) = true;
  safe_trace : forallb (ev_safe_b al) (trace st) = true
}.

(** ** induction principle for the nested object type *)
Section ObjInd.
  Variable P : obj -> Prop.
  Hypothesis HNone : P ONone.
  Hypothesis HBool : forall b, P (OBool b).
  Hypothesis HInt : forall z, P (OInt z).
  Hypothesis HFloat : forall f, P (OFloat f).
  Hypothesis HStr : forall s, P (OStr s).
  Hypothesis HBytes : forall s, P (OBytes s).
  Hypothesis HTuple : forall xs, Forall P xs -> P (OTuple xs).
  Hypothesis HFrozen : forall xs, Forall P xs -> P (OFrozen xs).
  Hypothesis HList : forall i xs, Forall P xs -> P (OList i xs).
  Hypothesis HDict : forall i kvs, Forall (fun kv => P (fst kv) /\ P (snd kv)) kvs -> P (ODict i kvs).
  Hypothesis HSet : forall i xs, Forall P xs -> P (OSet i xs).
  Hypothesis HGlobal : forall m n k, P (OGlobal m n k).
  Hypothesis HNoneType : P ONoneType.
  Hypothesis HInst : forall i k f a sts, P f -> P a -> Forall P sts -> P (OInst i k f a sts).
  Hypothesis HMark : P OMark.
  Hypothesis HByteArray : forall s, P (OByteArray s).

  Fixpoint obj_ind' (o : obj) : P o :=
    let fix all (xs : list obj) : Forall P xs :=
      match xs with
      | [] => Forall_nil P
      | x :: r => Forall_cons x (obj_ind' x) (all r)
      end in
    match o with
    | ONone => HNone
    | OBool b => HBool b
    | OInt z => HInt z
    | OFloat f => HFloat f
    | OStr s => HStr s
    | OBytes s => HBytes s
    | OTuple xs => HTuple xs (all xs)
    | OFrozen xs => HFrozen xs (all xs)
    | OList i xs => HList i xs (all xs)
    | ODict i kvs =>
        HDict i kvs
          ((fix allp (kvs : list (obj * obj)) : Forall (fun kv => P (fst kv) /\ P (snd kv)) kvs :=
              match kvs with
              | [] => Forall_nil _
              | kv :: r => Forall_cons kv (conj (obj_ind' (fst kv)) (obj_ind' (snd kv))) (allp r)
              end) kvs)
    | OSet i xs => HSet i xs (all xs)
    | OGlobal m n k => HGlobal m n k
    | ONoneType => HNoneType
    | OInst i k f a sts => HInst i k f a sts (obj_ind' f) (obj_ind' a) (all sts)
    | OMark => HMark
    | OByteArray s => HByteArray s
    end.
End ObjInd.

(** ** list helpers *)

Lemma forallb_map_imp : forall (A : Type) (f : A -> bool) (g : A -> A) (xs : list A),
  Forall (fun x => f x = true -> f (g x) = true) xs ->
  forallb f xs = true -> forallb f (map g xs) = true.
Proof.
  intros A f g xs H. induction H as [|x r Hx Hr IH]; cbn; [auto|].
  intro E. apply andb_true_iff in E. destruct E as [E1 E2]. rewrite (Hx E1), (IH E2). reflexivity.
Qed.

Lemma forallb_app_true : forall (A : Type) (f : A -> bool) xs ys,
  forallb f (xs ++ ys) = true <-> forallb f xs = true /\ forallb f ys = true.
Proof. intros. rewrite forallb_app, andb_true_iff. tauto. Qed.

(** ** mutation through shared references keeps safety *)

Lemma subst_safe : forall al i c, safe_b al c = true ->
  forall o, safe_b al o = true -> safe_b al (subst i c o) = true.
Proof.
  intros al i c Hc. induction o using obj_ind'; cbn [subst safe_b]; intro Ho; try exact Ho.
  - apply forallb_map_imp; assumption.
  - apply forallb_map_imp; assumption.
  - destruct (Nat.eqb i i0); [exact Hc|]. cbn [safe_b]. apply forallb_map_imp; assumption.
  - destruct (Nat.eqb i i0); [exact Hc|]. cbn [safe_b].
    revert Ho. induction H as [|kv r [Hk Hv] Hr IH]; cbn; [auto|].
    intro E. apply andb_true_iff in E. destruct E as [E1 E2]. apply andb_true_iff in E1. destruct E1 as [Ek Ev].
    rewrite (Hk Ek), (Hv Ev), (IH E2). reflexivity.
  - destruct (Nat.eqb i i0); [exact Hc|]. cbn [safe_b]. apply forallb_map_imp; assumption.
  - destruct (Nat.eqb i i0); [exact Hc|]. cbn [safe_b].
    apply andb_true_iff in Ho. destruct Ho as [Ho Hs]. apply andb_true_iff in Ho. destruct Ho as [Hf Ha].
    rewrite (IHo1 Hf), (IHo2 Ha). cbn. apply forallb_map_imp; assumption.
Qed.

Lemma cache_safe_map_subst : forall al i c m, safe_b al c = true ->
  cache_safe_b al m = true ->
  cache_safe_b al (map (fun p => (fst p, subst i c (snd p))) m) = true.
Proof.
  intros al i c m Hc. unfold cache_safe_b. induction m as [|[j x] r IH]; cbn; [auto|].
  intro E. apply andb_true_iff in E. destruct E as [E1 E2].
  rewrite (subst_safe al i c Hc x E1), (IH E2). reflexivity.
Qed.

Lemma mutate_safe : forall al i c st, safe_b al c = true -> st_safe al st -> st_safe al (mutate i c st).
Proof.
  intros al i c st Hc [Hs Hm He Ht]. constructor; cbn; try assumption.
  - apply forallb_map_imp; [|exact Hs]. apply Forall_forall. intros x _. apply subst_safe. exact Hc.
  - apply cache_safe_map_subst; assumption.
Qed.

(** ** stack helpers *)

Lemma pop1_safe : forall al s v r, pop1 s = Some (v, r) ->
  forallb (safe_b al) s = true -> safe_b al v = true /\ forallb (safe_b al) r = true.
Proof.
  intros al s v r. destruct s as [|o s']; cbn; [discriminate|].
  destruct (is_mark o); [discriminate|]. intro H. inversion H; subst.
  intro E. apply andb_true_iff in E. exact E.
Qed.

Lemma to_mark_safe : forall al s acc items below, to_mark s acc = Some (items, below) ->
  forallb (safe_b al) s = true -> forallb (safe_b al) acc = true ->
  forallb (safe_b al) items = true /\ forallb (safe_b al) below = true.
Proof.
  intros al. induction s as [|o s IH]; cbn; intros acc items below H Hs Ha; [discriminate|].
  apply andb_true_iff in Hs. destruct Hs as [Ho Hs].
  destruct (is_mark o).
  - inversion H; subst. auto.
  - apply (IH (o :: acc)); [exact H | exact Hs|]. cbn. rewrite Ho, Ha. reflexivity.
Qed.

Lemma pairs_of_safe : forall al l ps, pairs_of l = Some ps -> forallb (safe_b al) l = true ->
  forallb (fun kv => safe_b al (fst kv) && safe_b al (snd kv)) ps = true.
Proof.
  intros al. fix IH 1. intros l ps. destruct l as [|k [|v r]]; cbn.
  - intro H. inversion H; subst. reflexivity.
  - discriminate.
  - destruct (pairs_of r) as [ps'|] eqn:E; [|discriminate].
    intro H. inversion H; subst. intro S.
    apply andb_true_iff in S. destruct S as [Sk S]. apply andb_true_iff in S. destruct S as [Sv S].
    cbn. rewrite Sk, Sv. cbn. apply (IH r ps' E S).
Qed.

Lemma dict_set_safe : forall al k v kvs, safe_b al k = true -> safe_b al v = true ->
  forallb (fun kv => safe_b al (fst kv) && safe_b al (snd kv)) kvs = true ->
  forallb (fun kv => safe_b al (fst kv) && safe_b al (snd kv)) (dict_set k v kvs) = true.
Proof.
  intros al k v kvs Hk Hv. induction kvs as [|[k' v'] r IH]; cbn.
  - intros _. rewrite Hk, Hv. reflexivity.
  - intro E. apply andb_true_iff in E. destruct E as [E1 E2]. apply andb_true_iff in E1. destruct E1 as [Ek' Ev'].
    destruct (obj_pyeq k' k); cbn.
    + rewrite Ek', Hv, E2. reflexivity.
    + rewrite Ek', Ev', (IH E2). reflexivity.
Qed.

Lemma dict_set_all_safe : forall al ps kvs kvs', dict_set_all ps kvs = Some kvs' ->
  forallb (fun kv => safe_b al (fst kv) && safe_b al (snd kv)) ps = true ->
  forallb (fun kv => safe_b al (fst kv) && safe_b al (snd kv)) kvs = true ->
  forallb (fun kv => safe_b al (fst kv) && safe_b al (snd kv)) kvs' = true.
Proof.
  intros al. induction ps as [|[k v] r IH]; cbn; intros kvs kvs' H Hp Hk.
  - inversion H; subst. exact Hk.
  - destruct (hashable k); [|discriminate].
    apply andb_true_iff in Hp. destruct Hp as [Hp1 Hp2]. apply andb_true_iff in Hp1. destruct Hp1 as [Sk Sv].
    apply (IH _ _ H Hp2). apply dict_set_safe; assumption.
Qed.

Lemma set_add_all_safe : forall al items xs xs', set_add_all items xs = Some xs' ->
  forallb (safe_b al) items = true -> forallb (safe_b al) xs = true -> forallb (safe_b al) xs' = true.
Proof.
  intros al. induction items as [|x r IH]; cbn; intros xs xs' H Hi Hx.
  - inversion H; subst. exact Hx.
  - destruct (hashable x); [|discriminate].
    apply andb_true_iff in Hi. destruct Hi as [Sx Sr].
    apply (IH _ _ H Sr). unfold set_add. destruct (existsb (obj_pyeq x) xs); [exact Hx|].
    apply forallb_app_true. split; [exact Hx|]. cbn. rewrite Sx. reflexivity.
Qed.

Lemma list_set_nth_safe : forall al n v xs, safe_b al v = true -> forallb (safe_b al) xs = true ->
  forallb (safe_b al) (list_set_nth n v xs) = true.
Proof.
  intros al n v xs Hv. revert n. induction xs as [|x r IH]; intros n.
  - destruct n; cbn; auto.
  - cbn [forallb]. intro E. apply andb_true_iff in E. destruct E as [E1 E2].
    destruct n; cbn.
    + rewrite Hv, E2. reflexivity.
    + rewrite E1, (IH n E2). reflexivity.
Qed.

Lemma list_set_all_safe : forall al ps xs xs', list_set_all ps xs = Some xs' ->
  forallb (fun kv => safe_b al (fst kv) && safe_b al (snd kv)) ps = true ->
  forallb (safe_b al) xs = true -> forallb (safe_b al) xs' = true.
Proof.
  intros al. induction ps as [|[k v] r IH]; cbn; intros xs xs' H Hp Hx.
  - inversion H; subst. exact Hx.
  - destruct (list_index k (List.length xs)) as [n|]; [|discriminate].
    apply andb_true_iff in Hp. destruct Hp as [Hp1 Hp2]. apply andb_true_iff in Hp1. destruct Hp1 as [_ Sv].
    apply (IH _ _ H Hp2). apply list_set_nth_safe; assumption.
Qed.

Lemma memo_get_safe : forall al i m v, memo_get i m = Some v -> cache_safe_b al m = true -> safe_b al v = true.
Proof.
  intros al i. unfold cache_safe_b. induction m as [|[j x] r IH]; cbn; intros v H E; [discriminate|].
  apply andb_true_iff in E. destruct E as [E1 E2].
  destruct (Z.eqb i j); [inversion H; subst; exact E1 | apply (IH v H E2)].
Qed.

Lemma memo_put_safe : forall al i v m, safe_b al v = true -> cache_safe_b al m = true ->
  cache_safe_b al (memo_put i v m) = true.
Proof.
  intros al i v m Hv. unfold cache_safe_b, memo_put. induction m as [|[j x] r IH]; cbn.
  - intros _. rewrite Hv. reflexivity.
  - intro E. apply andb_true_iff in E. destruct E as [E1 E2].
    destruct (Z.eqb i j); cbn.
    + rewrite Hv, E2. reflexivity.
    + rewrite E1. cbn. apply IH. exact E2.
Qed.

Lemma persistent_load_safe : forall al p, safe_b al (persistent_load p) = true.
Proof. intros al p. unfold persistent_load. destruct p; try reflexivity. destruct (pystr_eqb s NONE_TYPE_PID); reflexivity. Qed.

Lemma glob_obj_safe : forall al m n g, mem_str (dotted m n) al = true -> safe_b al (glob_obj m n g) = true.
Proof. intros al m n g H. destruct g; cbn; try exact H. reflexivity. Qed.

(** ** every step keeps the machine safe *)

Definition sres_safe (al : list pystr) (r : sres) : Prop :=
  match r with
  | SNext s => st_safe al s
  | SStop v s => safe_b al v = true /\ st_safe al s
  | SFail _ s => st_safe al s
  end.

Lemma set_stack_safe : forall al st s, st_safe al st -> forallb (safe_b al) s = true -> st_safe al (set_stack st s).
Proof. intros al st s [Hs Hm He Ht] H. constructor; cbn; assumption. Qed.

Lemma push_safe : forall al st o, st_safe al st -> safe_b al o = true -> st_safe al (push o st).
Proof. intros al st o H Ho. apply set_stack_safe; [exact H|]. cbn. rewrite Ho. apply (safe_stack _ _ H). Qed.

Lemma emit_safe : forall al st e, st_safe al st -> ev_safe_b al e = true -> st_safe al (emit e st).
Proof. intros al st e [Hs Hm He Ht] H. constructor; cbn; try assumption. rewrite H, Ht. reflexivity. Qed.

Lemma fresh_safe : forall al st, st_safe al st -> st_safe al (fresh st).
Proof. intros al st [Hs Hm He Ht]. constructor; cbn; assumption. Qed.

Lemma do_global_safe : forall w st m n k,
  st_safe (allow w) st ->
  (forall st1 g, st_safe (allow w) st1 -> safe_b (allow w) g = true -> sres_safe (allow w) (k st1 g)) ->
  sres_safe (allow w) (do_global w st m n k).
Proof.
  intros w st m n k Hst Hk. unfold do_global.
  destruct (find_class w m n) eqn:E; cbn; try exact Hst.
  apply find_class_resolved in E. destruct E as [Ha _]. apply mem_str_In in Ha.
  apply Hk.
  - apply emit_safe; [exact Hst|]. exact Ha.
  - apply glob_obj_safe. exact Ha.
Qed.

Lemma do_call_safe : forall w st k callee args rest,
  st_safe (allow w) st -> safe_b (allow w) callee = true -> safe_b (allow w) args = true ->
  forallb (safe_b (allow w)) rest = true ->
  sres_safe (allow w) (do_call w st k callee args rest).
Proof.
  intros w st k callee args rest Hst Hc Ha Hr. unfold do_call.
  assert (H1 : st_safe (allow w) (emit (ECall k callee args) st)).
  { apply emit_safe; [exact Hst|]. cbn. rewrite Hc, Ha. reflexivity. }
  destruct (call_ok w k callee args); cbn; [|exact H1].
  apply fresh_safe. apply set_stack_safe; [exact H1|]. cbn. rewrite Hc, Ha, Hr. reflexivity.
Qed.

Lemma do_put_safe : forall al st i, st_safe al st -> sres_safe al (do_put st i).
Proof.
  intros al st i Hst. unfold do_put. destruct (pop1 (stack st)) as [[v r]|] eqn:E; cbn; [|exact Hst].
  destruct (pop1_safe al _ _ _ E (safe_stack _ _ Hst)) as [Hv _].
  destruct Hst as [Hs Hm He Ht]. constructor; cbn; try assumption. apply memo_put_safe; assumption.
Qed.

Lemma do_get_safe : forall al st i, st_safe al st -> sres_safe al (do_get st i).
Proof.
  intros al st i Hst. unfold do_get. destruct (memo_get i (memo st)) as [v|] eqn:E; cbn; [|exact Hst].
  apply push_safe; [exact Hst|]. apply (memo_get_safe al i _ v E (safe_memo _ _ Hst)).
Qed.

Lemma do_ext_safe : forall w st c, st_safe (allow w) st -> sres_safe (allow w) (do_ext w st c).
Proof.
  intros w st c Hst. unfold do_ext. destruct (Z.leb c 0); [exact Hst|].
  destruct (memo_get c (ecache st)) as [o|] eqn:E.
  - assert (Ho : safe_b (allow w) o = true) by apply (memo_get_safe _ c _ o E (safe_ecache _ _ Hst)).
    cbn. apply push_safe; [|exact Ho]. apply emit_safe; [exact Hst | exact Ho].
  - destruct (ext_registry w c) as [[m n]|]; [|exact Hst].
    apply do_global_safe; [exact Hst|]. intros st1 g H1 Hg. cbn.
    apply push_safe; [|exact Hg]. destruct H1 as [Hs Hm He Ht]. constructor; cbn; try assumption.
    apply memo_put_safe; assumption.
Qed.

Lemma do_extend_safe : forall al st items below, st_safe al st ->
  forallb (safe_b al) items = true -> forallb (safe_b al) below = true ->
  sres_safe al (do_extend st items below).
Proof.
  intros al st items below Hst Hi Hb. unfold do_extend.
  destruct (pop1 below) as [[t r]|] eqn:E; [|exact Hst].
  destruct (pop1_safe al _ _ _ E Hb) as [Ht _].
  destruct items as [|x xs]; [apply set_stack_safe; assumption|].
  destruct t; try exact Hst. cbn.
  apply mutate_safe; [|apply set_stack_safe; assumption].
  cbn [safe_b] in *. apply forallb_app_true. split; assumption.
Qed.

Lemma do_setitems_safe : forall al st items below, st_safe al st ->
  forallb (safe_b al) items = true -> forallb (safe_b al) below = true ->
  sres_safe al (do_setitems st items below).
Proof.
  intros al st items below Hst Hi Hb. unfold do_setitems.
  destruct (pop1 below) as [[t r]|] eqn:E; [|exact Hst].
  destruct (pop1_safe al _ _ _ E Hb) as [Ht _].
  destruct items as [|x xs]; [apply set_stack_safe; assumption|].
  destruct (pairs_of (x :: xs)) as [ps|] eqn:Ep; [|exact Hst].
  pose proof (pairs_of_safe al _ _ Ep Hi) as Hps.
  destruct t; try exact Hst.
  - destruct (list_set_all ps xs0) as [xs'|] eqn:El; [|exact Hst]. cbn.
    apply mutate_safe; [|apply set_stack_safe; assumption].
    cbn [safe_b] in *. apply (list_set_all_safe al _ _ _ El Hps Ht).
  - destruct (dict_set_all ps kvs) as [kvs'|] eqn:Ed; [|exact Hst]. cbn.
    apply mutate_safe; [|apply set_stack_safe; assumption].
    cbn [safe_b] in *. apply (dict_set_all_safe al _ _ _ Ed Hps Ht).
Qed.

Lemma do_additems_safe : forall al st items below, st_safe al st ->
  forallb (safe_b al) items = true -> forallb (safe_b al) below = true ->
  sres_safe al (do_additems st items below).
Proof.
  intros al st items below Hst Hi Hb. unfold do_additems.
  destruct (pop1 below) as [[t r]|] eqn:E; [|exact Hst].
  destruct (pop1_safe al _ _ _ E Hb) as [Ht _].
  destruct items as [|x xs]; [apply set_stack_safe; assumption|].
  destruct t; try exact Hst.
  destruct (set_add_all (x :: xs) xs0) as [xs'|] eqn:Es; [|exact Hst]. cbn.
  apply mutate_safe; [|apply set_stack_safe; assumption].
  cbn [safe_b] in *. apply (set_add_all_safe al _ _ _ Es Hi Ht).
Qed.

Lemma with_mark_safe : forall al st k, st_safe al st ->
  (forall items below, forallb (safe_b al) items = true -> forallb (safe_b al) below = true ->
                       sres_safe al (k items below)) ->
  sres_safe al (with_mark st k).
Proof.
  intros al st k Hst Hk. unfold with_mark.
  destruct (to_mark (stack st) []) as [[items below]|] eqn:E; [|exact Hst].
  destruct (to_mark_safe al _ _ _ _ E (safe_stack _ _ Hst) eq_refl) as [Hi Hb]. apply Hk; assumption.
Qed.

Ltac pop_stack Hst E v r Hv Hr :=
  match goal with
  | |- context [pop1 ?s] =>
      destruct (pop1 s) as [[v r]|] eqn:E; [|exact Hst];
      match type of E with
      | pop1 _ = Some _ =>
          first [ destruct (pop1_safe _ _ _ _ E (safe_stack _ _ Hst)) as [Hv Hr]
                | idtac ]
      end
  end.

Lemma step_safe : forall w st o, st_safe (allow w) st -> sres_safe (allow w) (step w st o).
Proof.
  intros w st o Hst. set (al := allow w) in *.
  pose proof (safe_stack _ _ Hst) as Hs.
  destruct o; cbn [step].
  - (* PROTO *) destruct (_ && _)%bool; exact Hst.
  - exact Hst.
  - (* STOP *) destruct (pop1 (stack st)) as [[v r]|] eqn:E; [|exact Hst].
    destruct (pop1_safe al _ _ _ E Hs) as [Hv Hr]. split; [exact Hv|]. apply set_stack_safe; assumption.
  - (* POP *) destruct (stack st) as [|x r] eqn:E; [exact Hst|]. apply set_stack_safe; [exact Hst|].
    cbn in Hs. apply andb_true_iff in Hs. apply Hs.
  - (* POP_MARK *) apply with_mark_safe; [exact Hst|]. intros items below Hi Hb. apply set_stack_safe; assumption.
  - (* DUP *) destruct (pop1 (stack st)) as [[v r]|] eqn:E; [|exact Hst].
    destruct (pop1_safe al _ _ _ E Hs) as [Hv Hr]. apply push_safe; assumption.
  - (* MARK *) apply push_safe; [exact Hst | reflexivity].
  - apply do_put_safe; exact Hst.
  - destruct (Z.ltb i 0); [exact Hst |]. destruct (Z.ltb MEMO_MAX i); [exact Hst | apply do_put_safe; exact Hst].
  - apply do_put_safe; exact Hst.
  - destruct (Z.ltb MEMO_MAX i); [exact Hst | apply do_put_safe; exact Hst].
  - apply do_get_safe; exact Hst.
  - apply do_get_safe; exact Hst.
  - apply do_get_safe; exact Hst.
  - apply push_safe; [exact Hst | reflexivity].
  - apply push_safe; [exact Hst | reflexivity].
  - apply push_safe; [exact Hst | reflexivity].
  - apply push_safe; [exact Hst | reflexivity].
  - apply push_safe; [exact Hst | reflexivity].
  - apply push_safe; [exact Hst | reflexivity].
  - apply push_safe; [exact Hst | reflexivity].
  - apply push_safe; [exact Hst | reflexivity].
  - apply push_safe; [exact Hst | reflexivity].
  - apply push_safe; [exact Hst | reflexivity].
  - apply push_safe; [exact Hst | reflexivity].
  - apply push_safe; [exact Hst | reflexivity].
  - apply push_safe; [exact Hst | reflexivity].
  - apply push_safe; [exact Hst | reflexivity].
  - apply push_safe; [exact Hst | reflexivity].
  - apply push_safe; [exact Hst | reflexivity].
  - apply push_safe; [exact Hst | reflexivity].
  - apply push_safe; [exact Hst | reflexivity].
  - apply push_safe; [exact Hst | reflexivity].
  - apply push_safe; [exact Hst | reflexivity].
  - (* EMPTY_LIST *) apply fresh_safe. apply push_safe; [exact Hst | reflexivity].
  - apply fresh_safe. apply push_safe; [exact Hst | reflexivity].
  - apply push_safe; [exact Hst | reflexivity].
  - apply fresh_safe. apply push_safe; [exact Hst | reflexivity].
  - (* APPEND *) destruct (pop1 (stack st)) as [[v r]|] eqn:E; [|exact Hst].
    destruct (pop1_safe al _ _ _ E Hs) as [Hv Hr]. apply do_extend_safe; [exact Hst| |exact Hr]. cbn. rewrite Hv. reflexivity.
  - apply with_mark_safe; [exact Hst|]. intros. apply do_extend_safe; assumption.
  - (* SETITEM *) destruct (pop1 (stack st)) as [[v r]|] eqn:E; [|exact Hst].
    destruct (pop1_safe al _ _ _ E Hs) as [Hv Hr].
    destruct (pop1 r) as [[k r']|] eqn:E'; [|exact Hst].
    destruct (pop1_safe al _ _ _ E' Hr) as [Hk Hr'].
    apply do_setitems_safe; [exact Hst| |exact Hr']. cbn. rewrite Hk, Hv. reflexivity.
  - apply with_mark_safe; [exact Hst|]. intros. apply do_setitems_safe; assumption.
  - apply with_mark_safe; [exact Hst|]. intros. apply do_additems_safe; assumption.
  - (* TUPLE *) apply with_mark_safe; [exact Hst|]. intros items below Hi Hb.
    apply set_stack_safe; [exact Hst|]. cbn. rewrite Hi, Hb. reflexivity.
  - (* TUPLE1 *) destruct (pop1 (stack st)) as [[a r]|] eqn:E; [|exact Hst].
    destruct (pop1_safe al _ _ _ E Hs) as [Ha Hr]. apply set_stack_safe; [exact Hst|]. cbn. rewrite Ha, Hr. reflexivity.
  - (* TUPLE2 *) destruct (pop1 (stack st)) as [[b r]|] eqn:E; [|exact Hst].
    destruct (pop1_safe al _ _ _ E Hs) as [Hb Hr].
    destruct (pop1 r) as [[a r']|] eqn:E'; [|exact Hst].
    destruct (pop1_safe al _ _ _ E' Hr) as [Ha Hr'].
    apply set_stack_safe; [exact Hst|]. cbn. rewrite Ha, Hb, Hr'. reflexivity.
  - (* TUPLE3 *) destruct (pop1 (stack st)) as [[c r]|] eqn:E; [|exact Hst].
    destruct (pop1_safe al _ _ _ E Hs) as [Hc Hr].
    destruct (pop1 r) as [[b r']|] eqn:E'; [|exact Hst].
    destruct (pop1_safe al _ _ _ E' Hr) as [Hb Hr'].
    destruct (pop1 r') as [[a r'']|] eqn:E''; [|exact Hst].
    destruct (pop1_safe al _ _ _ E'' Hr') as [Ha Hr''].
    apply set_stack_safe; [exact Hst|]. cbn. rewrite Ha, Hb, Hc, Hr''. reflexivity.
  - (* FROZENSET *) apply with_mark_safe; [exact Hst|]. intros items below Hi Hb.
    destruct (set_add_all items []) as [xs|] eqn:Es; [|exact Hst].
    apply set_stack_safe; [exact Hst|]. cbn. rewrite Hb.
    rewrite (set_add_all_safe al _ _ _ Es Hi eq_refl). reflexivity.
  - (* LIST *) apply with_mark_safe; [exact Hst|]. intros items below Hi Hb.
    apply fresh_safe. apply set_stack_safe; [exact Hst|]. cbn. rewrite Hi, Hb. reflexivity.
  - (* DICT *) apply with_mark_safe; [exact Hst|]. intros items below Hi Hb.
    destruct (pairs_of items) as [ps|] eqn:Ep; [|exact Hst].
    destruct (dict_set_all ps []) as [kvs|] eqn:Ed; [|exact Hst].
    apply fresh_safe. apply set_stack_safe; [exact Hst|]. cbn. rewrite Hb.
    rewrite (dict_set_all_safe al _ _ _ Ed (pairs_of_safe al _ _ Ep Hi) eq_refl). reflexivity.
  - (* GLOBAL *) destruct (_ || _)%bool; [exact Hst|].
    apply do_global_safe; [exact Hst|]. intros st1 g H1 Hg. apply push_safe; assumption.
  - (* STACK_GLOBAL *) destruct (pop1 (stack st)) as [[n r]|] eqn:E; [|exact Hst].
    destruct (pop1_safe al _ _ _ E Hs) as [Hn Hr].
    destruct (pop1 r) as [[m r']|] eqn:E'; [|exact Hst].
    destruct (pop1_safe al _ _ _ E' Hr) as [Hm Hr'].
    destruct m; try exact Hst. destruct n; try exact Hst.
    apply do_global_safe; [apply set_stack_safe; assumption|]. intros st1 g H1 Hg. apply push_safe; assumption.
  - (* INST *) apply with_mark_safe; [exact Hst|]. intros items below Hi Hb.
    destruct (_ || _)%bool; [exact Hst|].
    apply do_global_safe; [apply set_stack_safe; assumption|]. intros st1 g H1 Hg.
    apply do_call_safe; assumption.
  - (* OBJ *) apply with_mark_safe; [exact Hst|]. intros items below Hi Hb.
    destruct items as [|cls args]; [exact Hst|]. cbn in Hi. apply andb_true_iff in Hi. destruct Hi as [Hc Ha].
    apply do_call_safe; [apply set_stack_safe; assumption | exact Hc | exact Ha | exact Hb].
  - (* NEWOBJ *) destruct (pop1 (stack st)) as [[args r]|] eqn:E; [|exact Hst].
    destruct (pop1_safe al _ _ _ E Hs) as [Ha Hr].
    destruct args; try exact Hst.
    destruct (pop1 r) as [[cls r']|] eqn:E'; [|exact Hst].
    destruct (pop1_safe al _ _ _ E' Hr) as [Hc Hr'].
    destruct (is_type cls); [|exact Hst].
    apply do_call_safe; [apply set_stack_safe; assumption | exact Hc | exact Ha | exact Hr'].
  - (* NEWOBJ_EX *) destruct (pop1 (stack st)) as [[kw r]|] eqn:E; [|exact Hst].
    destruct (pop1_safe al _ _ _ E Hs) as [Hk Hr].
    destruct (pop1 r) as [[args r']|] eqn:E'; [|exact Hst].
    destruct (pop1_safe al _ _ _ E' Hr) as [Ha Hr'].
    destruct (pop1 r') as [[cls r'']|] eqn:E''; [|exact Hst].
    destruct (pop1_safe al _ _ _ E'' Hr') as [Hc Hr''].
    destruct (is_type cls); [|exact Hst].
    destruct args; try exact Hst. destruct kw; try exact Hst.
    apply do_call_safe; [apply set_stack_safe; assumption | exact Hc | | exact Hr''].
    match goal with |- safe_b _ (OTuple [?a; ?b]) = true =>
      change (safe_b al a && (safe_b al b && true) = true) end.
    rewrite Ha, Hk. reflexivity.
  - (* REDUCE *) destruct (pop1 (stack st)) as [[args r]|] eqn:E; [|exact Hst].
    destruct (pop1_safe al _ _ _ E Hs) as [Ha Hr].
    destruct (pop1 r) as [[f r']|] eqn:E'; [|exact Hst].
    destruct (pop1_safe al _ _ _ E' Hr) as [Hf Hr'].
    destruct args; try exact Hst.
    apply do_call_safe; [apply set_stack_safe; assumption | exact Hf | exact Ha | exact Hr'].
  - (* BUILD *) destruct (pop1 (stack st)) as [[s_ r]|] eqn:E; [|exact Hst].
    destruct (pop1_safe al _ _ _ E Hs) as [Hs_ Hr].
    destruct (pop1 r) as [[inst r']|] eqn:E'; [|exact Hst].
    destruct (pop1_safe al _ _ _ E' Hr) as [Hi Hr'].
    assert (H1 : st_safe al (emit (EBuild inst s_) (set_stack st r))).
    { apply emit_safe; [apply set_stack_safe; assumption|]. cbn. rewrite Hi, Hs_. reflexivity. }
    destruct (build_ok w inst s_); [|exact H1].
    destruct inst; try exact H1. cbn.
    apply mutate_safe; [|exact H1].
    cbn [safe_b] in *. apply andb_true_iff in Hi. destruct Hi as [Hi Hsts]. rewrite Hi. cbn.
    apply forallb_app_true. split; [exact Hsts|]. cbn. rewrite Hs_. reflexivity.
  - (* BINPERSID *) destruct (pop1 (stack st)) as [[pid r]|] eqn:E; [|exact Hst].
    destruct (pop1_safe al _ _ _ E Hs) as [Hp Hr].
    apply set_stack_safe; [apply emit_safe; [exact Hst | exact Hp]|].
    cbn. rewrite persistent_load_safe, Hr. reflexivity.
  - (* PERSID *) apply push_safe; [apply emit_safe; [exact Hst | reflexivity] | apply persistent_load_safe].
  - apply do_ext_safe; exact Hst.
  - apply do_ext_safe; exact Hst.
  - apply do_ext_safe; exact Hst.
  - (* STRING *) apply push_safe; [exact Hst | reflexivity].
  - apply push_safe; [exact Hst | reflexivity].
  - apply push_safe; [exact Hst | reflexivity].
  - (* BYTEARRAY8 *) apply push_safe; [exact Hst | reflexivity].
  - (* NEXT_BUFFER *) exact Hst.
  - (* READONLY_BUFFER *) destruct (pop1 (stack st)) as [[v r]|]; [|exact Hst]. destruct v; exact Hst.
Qed.

(** ** whole runs *)

Lemma forallb_rev : forall (A : Type) (f : A -> bool) l, forallb f (rev l) = forallb f l.
Proof.
  intros A f l. induction l as [|x r IH]; cbn; [reflexivity|].
  rewrite forallb_app, IH. cbn. rewrite andb_true_r. apply andb_comm.
Qed.

Lemma init_safe : forall w, ext_cache_safe_b w = true -> st_safe (allow w) (init w).
Proof. intros w H. constructor; cbn; try reflexivity. exact H. Qed.

Lemma run_safe : forall w prog st out tr,
  st_safe (allow w) st -> run w st prog = (out, tr) ->
  forallb (ev_safe_b (allow w)) tr = true /\ (forall v, out = Done v -> safe_b (allow w) v = true).
Proof.
  intros w. induction prog as [|o r IH]; intros st out tr Hst H; cbn in H.
  - inversion H; subst. split; [rewrite forallb_rev; apply (safe_trace _ _ Hst) | discriminate].
  - pose proof (step_safe w st o Hst) as Hs. destruct (step w st o) as [s|v s|e s]; cbn in Hs.
    + apply (IH s out tr Hs H).
    + destruct Hs as [Hv Hs]. inversion H; subst. split; [rewrite forallb_rev; apply (safe_trace _ _ Hs)|].
      intros v' E. inversion E; subst. exact Hv.
    + inversion H; subst. split; [rewrite forallb_rev; apply (safe_trace _ _ Hs) | discriminate].
Qed.

(** ** the lookup an opcode asks for, and rejection at the first forbidden one *)

Definition requested (w : world) (st : state) (o : op) : option (pystr * pystr) :=
  match o with
  | GLOBAL m n => if empty_line m || empty_line n then None else Some (m, n)
  | STACK_GLOBAL =>
      match pop1 (stack st) with
      | Some (OStr n, r) => match pop1 r with Some (OStr m, _) => Some (m, n) | _ => None end
      | _ => None
      end
  | INST m n =>
      match to_mark (stack st) [] with
      | Some _ => if empty_line m || empty_line n then None else Some (m, n)
      | None => None
      end
  | EXT1 c | EXT2 c | EXT4 c =>
      if Z.leb c 0 then None else
      match memo_get c (ecache st) with
      | Some _ => None                 (* served from the cache: find_class is not asked *)
      | None => ext_registry w c
      end
  | _ => None
  end.

Lemma do_global_forbidden : forall w st m n k,
  ~ allowed w m n -> do_global w st m n k = SFail (Forbidden m n) st.
Proof.
  intros w st m n k H. unfold do_global. apply find_class_forbidden_iff in H. rewrite H. reflexivity.
Qed.

Lemma requested_forbidden_fails : forall w st o m n,
  requested w st o = Some (m, n) -> ~ allowed w m n ->
  exists s, step w st o = SFail (Forbidden m n) s /\ trace s = trace st.
Proof.
  intros w st o m n Hr Hna. destruct o; cbn [requested] in Hr; try discriminate; cbn [step].
  - destruct (_ || _)%bool; [discriminate|]. inversion Hr; subst.
    rewrite do_global_forbidden by exact Hna. eauto.
  - destruct (pop1 (stack st)) as [[x r]|]; [|discriminate].
    destruct x; try discriminate.
    destruct (pop1 r) as [[y r']|]; [|discriminate].
    destruct y; try discriminate. inversion Hr; subst.
    rewrite do_global_forbidden by exact Hna. eexists. split; [reflexivity|]. reflexivity.
  - unfold with_mark. destruct (to_mark (stack st) []) as [[items below]|]; [|discriminate].
    destruct (_ || _)%bool; [discriminate|]. inversion Hr; subst.
    rewrite do_global_forbidden by exact Hna. eexists. split; [reflexivity|]. reflexivity.
  - unfold do_ext. destruct (Z.leb c 0); [discriminate|].
    destruct (memo_get c (ecache st)); [discriminate|]. rewrite Hr.
    rewrite do_global_forbidden by exact Hna. eauto.
  - unfold do_ext. destruct (Z.leb c 0); [discriminate|].
    destruct (memo_get c (ecache st)); [discriminate|]. rewrite Hr.
    rewrite do_global_forbidden by exact Hna. eauto.
  - unfold do_ext. destruct (Z.leb c 0); [discriminate|].
    destruct (memo_get c (ecache st)); [discriminate|]. rewrite Hr.
    rewrite do_global_forbidden by exact Hna. eauto.
Qed.

Fixpoint exec (w : world) (st : state) (pre : list op) : option state :=
  match pre with
  | [] => Some st
  | o :: r => match step w st o with SNext s => exec w s r | _ => None end
  end.

Lemma run_app : forall w pre post st st1,
  exec w st pre = Some st1 -> run w st (pre ++ post) = run w st1 post.
Proof.
  intros w. induction pre as [|o r IH]; intros post st st1 H; cbn in *.
  - inversion H; subst. reflexivity.
  - destruct (step w st o) as [s|v s|e s]; try discriminate. apply IH. exact H.
Qed.

(* whatever came before (any nesting, any opcode form), the first lookup of a
   non-member ends the load with ForbiddenModule; the trace is the one of the
   prefix: the opcode itself resolved, called, built nothing; nothing after it runs *)
Lemma rejected_at_first_forbidden_lookup : forall w pre o post st1 m n,
  exec w (init w) pre = Some st1 ->
  requested w st1 o = Some (m, n) -> ~ In (dotted m n) (allow w) ->
  vm_run w (pre ++ o :: post) = (Err (Forbidden m n), rev (trace st1)).
Proof.
  intros w pre o post st1 m n He Hr Hna. unfold vm_run. rewrite (run_app w pre (o :: post) _ _ He).
  cbn [run]. destruct (requested_forbidden_fails w st1 o m n Hr Hna) as [s [Hs Ht]].
  rewrite Hs, Ht. reflexivity.
Qed.

(* conversely ForbiddenModule is only ever raised by such a lookup *)
Lemma do_call_not_forbidden : forall w st k f a rest m n s,
  do_call w st k f a rest <> SFail (Forbidden m n) s.
Proof. intros. unfold do_call. destruct (call_ok w k f a); discriminate. Qed.

Lemma do_global_forbidden_inv : forall w st m n k m' n' s,
  (forall st1 g, k st1 g <> SFail (Forbidden m' n') s) ->
  do_global w st m n k = SFail (Forbidden m' n') s ->
  m' = m /\ n' = n /\ s = st /\ ~ allowed w m n.
Proof.
  intros w st m n k m' n' s Hk. unfold do_global.
  destruct (find_class w m n) eqn:E; intro H; try discriminate.
  - exfalso. apply (Hk _ _ H).
  - inversion H; subst. apply find_class_forbidden_iff in E. auto.
Qed.

Ltac kill_fail :=
  repeat match goal with
         | H : SNext _ = SFail _ _ |- _ => discriminate H
         | H : SStop _ _ = SFail _ _ |- _ => discriminate H
         | H : SFail ?e _ = SFail (Forbidden _ _) _ |- _ => solve [inversion H]
         | H : (if ?c then _ else _) = SFail _ _ |- _ => destruct c eqn:?
         | H : match ?x with _ => _ end = SFail _ _ |- _ => destruct x eqn:?
         end.

Lemma step_forbidden_inv : forall w st o m n s,
  step w st o = SFail (Forbidden m n) s ->
  requested w st o = Some (m, n) /\ ~ allowed w m n /\ trace s = trace st.
Proof.
  intros w st o m n s H.
  destruct o; cbn [step] in H;
    unfold do_put, do_get, with_mark, do_extend, do_setitems, do_additems in H;
    try solve [kill_fail].
  - (* GLOBAL *) destruct (empty_line m0 || empty_line n0)%bool eqn:El; [discriminate|].
    apply do_global_forbidden_inv in H; [|intros; discriminate].
    destruct H as [-> [-> [-> Hn]]]. cbn [requested]. rewrite El. auto.
  - (* STACK_GLOBAL *) cbn [requested].
    destruct (pop1 (stack st)) as [[x r]|]; [|discriminate].
    destruct (pop1 r) as [[y r']|]; [|destruct x; discriminate].
    destruct y; try discriminate; destruct x; try discriminate.
    apply do_global_forbidden_inv in H; [|intros; discriminate].
    destruct H as [-> [-> [-> Hn]]]. auto.
  - (* INST *) cbn [requested].
    destruct (to_mark (stack st) []) as [[items below]|]; [|discriminate].
    destruct (empty_line m0 || empty_line n0)%bool eqn:El; [discriminate|].
    apply do_global_forbidden_inv in H; [|intros; apply do_call_not_forbidden].
    destruct H as [-> [-> [-> Hn]]]. auto.
  - (* OBJ *) destruct (to_mark (stack st) []) as [[items below]|]; [|discriminate].
    destruct items; [discriminate|]. exfalso. apply (do_call_not_forbidden _ _ _ _ _ _ _ _ _ H).
  - (* NEWOBJ *) destruct (pop1 (stack st)) as [[args r]|]; [|discriminate].
    destruct args; try discriminate.
    destruct (pop1 r) as [[cls r']|]; [|discriminate].
    destruct (is_type cls); [|discriminate]. exfalso. apply (do_call_not_forbidden _ _ _ _ _ _ _ _ _ H).
  - (* NEWOBJ_EX *) destruct (pop1 (stack st)) as [[kw r]|]; [|discriminate].
    destruct (pop1 r) as [[args r']|]; [|discriminate].
    destruct (pop1 r') as [[cls r'']|]; [|discriminate].
    destruct (is_type cls); [|discriminate].
    destruct args; try discriminate; destruct kw; try discriminate.
    exfalso. apply (do_call_not_forbidden _ _ _ _ _ _ _ _ _ H).
  - (* REDUCE *) destruct (pop1 (stack st)) as [[args r]|]; [|discriminate].
    destruct (pop1 r) as [[f r']|]; [|discriminate].
    destruct args; try discriminate.
    exfalso. apply (do_call_not_forbidden _ _ _ _ _ _ _ _ _ H).
  - (* EXT1 *) cbn [requested]. unfold do_ext in H.
    destruct (Z.leb c 0); [discriminate|]. destruct (memo_get c (ecache st)); [discriminate|].
    destruct (ext_registry w c) as [[m' n']|]; [|discriminate].
    apply do_global_forbidden_inv in H; [|intros; discriminate].
    destruct H as [-> [-> [-> Hn]]]. auto.
  - cbn [requested]. unfold do_ext in H.
    destruct (Z.leb c 0); [discriminate|]. destruct (memo_get c (ecache st)); [discriminate|].
    destruct (ext_registry w c) as [[m' n']|]; [|discriminate].
    apply do_global_forbidden_inv in H; [|intros; discriminate].
    destruct H as [-> [-> [-> Hn]]]. auto.
  - cbn [requested]. unfold do_ext in H.
    destruct (Z.leb c 0); [discriminate|]. destruct (memo_get c (ecache st)); [discriminate|].
    destruct (ext_registry w c) as [[m' n']|]; [|discriminate].
    apply do_global_forbidden_inv in H; [|intros; discriminate].
    destruct H as [-> [-> [-> Hn]]]. auto.
Qed.

Lemma forbidden_only_from_lookup : forall w prog st m n tr,
  run w st prog = (Err (Forbidden m n), tr) ->
  exists pre o post st1,
    prog = (pre ++ o :: post)%list /\ exec w st pre = Some st1 /\
    requested w st1 o = Some (m, n) /\ ~ allowed w m n /\ tr = rev (trace st1).
Proof.
  intros w. induction prog as [|o r IH]; intros st m n tr H; cbn in H; [discriminate|].
  destruct (step w st o) as [s|v s|e s] eqn:E.
  - destruct (IH s m n tr H) as [pre [o' [post [st1 [Hp [He [Hr [Hn Ht]]]]]]]].
    exists (o :: pre), o', post, st1. subst. cbn. rewrite E. auto.
  - discriminate.
  - inversion H; subst. destruct (step_forbidden_inv w st o m n s E) as [Hr [Hn Ht]].
    exists [], o, r, st. cbn. rewrite Ht. auto.
Qed.

(* a persistent id is not a second way to name a global: it yields NoneType for the one id
   "<<NoneType>>" and None for everything else, whatever object is passed *)
Lemma persistent_load_only_nonetype : forall pid,
  (persistent_load pid = ONoneType <-> pid = OStr NONE_TYPE_PID) /\
  (persistent_load pid = ONoneType \/ persistent_load pid = ONone).
Proof.
  intro pid. unfold persistent_load. destruct pid; try (split; [split; intro H; discriminate | right; reflexivity]).
  destruct (pystr_eqb s NONE_TYPE_PID) eqn:E.
  - apply pystr_eqb_eq in E. subst s. split; [split; reflexivity | left; reflexivity].
  - split; [|right; reflexivity]. split; intro H; [discriminate|].
    inversion H; subst s. rewrite pystr_eqb_refl in E. discriminate.
Qed.

(** * C15: the main statements *)
From Coq Require Import String.
Local Open Scope string_scope.

Lemma forallb_In : forall (A : Type) (f : A -> bool) l x, forallb f l = true -> In x l -> f x = true.
Proof. intros A f l x H Hin. rewrite forallb_forall in H. apply H. exact Hin. Qed.

Theorem no_forbidden_resolution_partial : forall w prog out tr,
  ext_cache_safe_b w = true -> vm_run w prog = (out, tr) ->
  (forall m n, In (EResolve m n) tr -> In (dotted m n) (allow w)) /\
  (forall e, In e tr -> ev_safe_b (allow w) e = true) /\
  (forall v, out = Done v -> safe_b (allow w) v = true) /\
  (forall m n, out = Err (Forbidden m n) -> ~ In (dotted m n) (allow w)).
Proof.
  intros w prog out tr Hg H.
  destruct (run_safe w prog (init w) out tr (init_safe w Hg) H) as [Ht Hv].
  split; [|split; [|split]].
  - intros m n Hin. apply mem_str_In. apply (forallb_In _ _ _ _ Ht Hin).
  - intros e Hin. apply (forallb_In _ _ _ _ Ht Hin).
  - exact Hv.
  - intros m n E. subst out. destruct (forbidden_only_from_lookup w prog _ m n tr H) as [_ [_ [_ [_ [_ [_ [_ [Hn _]]]]]]]].
    exact Hn.
Qed.

(* without the guard the statement is false: an EXT opcode served from the
   process-wide extension cache pushes a forbidden global without find_class
   being asked, and REDUCE calls it *)
Definition w_cached : world :=
  mkWorld SAFE_TO_IMPORT default_lookup (fun _ _ _ => true) (fun _ _ => true)
          [(201%Z, OGlobal (s2p "os") (s2p "getpid") GFunc)] (fun _ => None).
Definition prog_cached : list op := [PROTO 2; EXT1 201; EMPTY_TUPLE; REDUCE; STOP].

Theorem no_forbidden_resolution_refuted :
  exists w prog out tr, vm_run w prog = (out, tr) /\
    exists k f a, In (ECall k f a) tr /\ safe_b (allow w) f = false.
Proof.
  exists w_cached, prog_cached. eexists. eexists. split; [vm_compute; reflexivity|].
  exists KReduce, (OGlobal (s2p "os") (s2p "getpid") GFunc), (OTuple []).
  split; [right; left; reflexivity | vm_compute; reflexivity].
Qed.

(* the guard is satisfiable by the default process and by a process whose
   extension cache holds an allowed global; and guarded runs do resolve and call *)
Example guard_default : ext_cache_safe_b default_world = true.
Proof. reflexivity. Qed.
Example guard_nonempty_cache :
  ext_cache_safe_b (mkWorld SAFE_TO_IMPORT default_lookup (fun _ _ _ => true) (fun _ _ => true)
                            [(7%Z, OGlobal (s2p "builtins") (s2p "list") GType)] (fun _ => None)) = true.
Proof. vm_compute. reflexivity. Qed.
Example guarded_run_resolves_and_calls :
  vm_run default_world [GLOBAL (s2p "builtins") (s2p "list"); EMPTY_TUPLE; REDUCE; STOP]
  = (Done (OInst 0 KReduce (OGlobal (s2p "builtins") (s2p "list") GType) (OTuple []) []),
     [EResolve (s2p "builtins") (s2p "list");
      ECall KReduce (OGlobal (s2p "builtins") (s2p "list") GType) (OTuple [])]).
Proof. vm_compute. reflexivity. Qed.

(* the join remark, on the real allow-list: ("orderly_set", "sets.OrderedSet")
   passes the membership test because it joins to an allow-list entry, but the
   lookup is a single getattr on the module named "orderly_set", which has no
   attribute of that name: the run ends with an error and no object *)
Example join_alike_passes_test_but_resolves_nothing :
  dotted (s2p "orderly_set") (s2p "sets.OrderedSet") = dotted (s2p "orderly_set.sets") (s2p "OrderedSet") /\
  find_class default_world (s2p "orderly_set") (s2p "sets.OrderedSet") = FCNoAttr /\
  find_class default_world (s2p "orderly_set.sets") (s2p "OrderedSet") = FCResolved GType /\
  vm_run default_world [GLOBAL (s2p "orderly_set") (s2p "sets.OrderedSet"); STOP]
    = (Err (AttrError (s2p "orderly_set") (s2p "sets.OrderedSet")), []).
Proof. vm_compute. repeat split; reflexivity. Qed.

Example forbidden_examples :
  find_class default_world (s2p "os") (s2p "system") = FCForbidden /\
  find_class default_world (s2p "datetime") (s2p "date") = FCForbidden /\
  find_class default_world (s2p "builtins") (s2p "int.__add__") = FCForbidden /\
  find_class default_world (s2p "builtins") (s2p "eval") = FCForbidden.
Proof. vm_compute. repeat split; reflexivity. Qed.

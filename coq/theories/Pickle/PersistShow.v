(** Pickle/PersistShow.v - the statement-level model of the persisting side (Pickle/PersistModel.v) as [sx] observables for
    the correspondence check of C14, and the differencing helper of its source tie.  No theorem depends on this file. *)
From Coq Require Import List ZArith NArith Bool String.
Import ListNotations.
From DD Require Import Base.Sx Base.PyStr Base.Value Pickle.Vm Pickle.Codec Pickle.Bytes Pickle.PicklerHook Pickle.SrcPrims
  Pickle.PersistPrims Pickle.PersistModel.
Local Open Scope string_scope.

Definition sx_nbytes (b : list N) : sx := SL (map sx_N b).
Definition sx_wfile (f : wfile) : sx :=
  match f with WNone => SA "none" | WFile c => SL [SA "file"; sx_nbytes c] | WUnknown => SA "unknown" end.
Definition sx_dret (d : dump_ret) : sx :=
  match d with DNone => SA "None" | DBytes b => SL [SA "bytes"; sx_nbytes b] | DUnknown => SA "unknown" end.
Definition sx_exc (e : exc) : sx :=
  SA match e with EKeyError => "KeyError" | EAttributeError => "AttributeError" | ETypeError => "TypeError"
     | EValueError _ => "ValueError" | EModuleNotFound _ => "ModuleNotFoundError" | EForbiddenModule _ => "ForbiddenModule" end.
Definition sx_dump_res (r : res (dump_ret * wfile)) : sx :=
  match r with Ret (d, f) => SL [sx_dret d; sx_wfile f] | Raise e => SL [SA "raises"; sx_exc e] end.
(* what a caller of pickle_dump can see without reading the bytes: the kind of the returned value, and whether the file
   written to still starts with what it held ([pre]) *)
Fixpoint is_prefix (a b : list N) : bool :=
  match a, b with [] , _ => true | x :: r, y :: s => N.eqb x y && is_prefix r s | _, _ => false end.
Definition sx_dump_kind (pre : list N) (r : res (dump_ret * wfile)) : sx :=
  match r with
  | Ret (d, f) => SL [SA match d with DNone => "None" | DBytes _ => "bytes" | DUnknown => "unknown" end;
                      match f with WFile c => sx_bool (is_prefix pre c) | _ => SA "unknown" end;
                      match d, f with DBytes b, WFile c => sx_bool (sx_eqb (sx_nbytes b) (sx_nbytes c)) | _, _ => SA "-" end]
  | Raise e => SL [SA "raises"; sx_exc e]
  end.

Definition sx_csrc (c : content_src) : sx :=
  match c with
  | CArg n => SL [SA "arg"; SA n] | CPathRead n m => SL [SA "path"; SA n; SA m] | CFileRead n => SL [SA "file.read"; SA n]
  end.
Definition sx_source (s : source) : sx :=
  match s with
  | SToDeltaDict => SL [SA "to_delta_dict"]
  | SAsIs n => SL [SA "as-is"; SA n]
  | SDeserialize c b => SL [SA "deserialize"; sx_csrc c; sx_bool b]
  | SFlatDicts n => SL [SA "flat_dicts"; SA n]
  | SFlatRows n => SL [SA "flat_rows"; SA n]
  | SUnset => SL [SA "unset"]
  | SValueError m => SL [SA "ValueError"; sx_str m]
  end.
Definition sx_choice (c : deser_choice) : sx := SA match c with DeserDirect => "direct" | DeserWrapped => "wrapped" end.
Definition sx_dump_mode (m : dump_mode) : sx :=
  match m with DumpFileObjKeyword k => SL [SA "serializer-keyword"; SA k] | DumpWriteDumps => SL [SA "write-dumps"] end.
Definition sx_strs (l : list string) : sx := SL (map SA l).

(* every combination of arguments the chain distinguishes: 5 x 2^5 *)
Definition ALL_KINDS : list diff_kind := [KNone; KDeepDiff; KMapping; KStrings; KOther].
Definition BOOLS : list bool := [false; true].
Definition ALL_ARGS : list init_args :=
  flat_map (fun d => flat_map (fun p => flat_map (fun f => flat_map (fun dd => flat_map (fun fd => map (fun fr =>
    mkArgs d p f dd fd fr) BOOLS) BOOLS) BOOLS) BOOLS) BOOLS) ALL_KINDS.
Definition sx_kind (k : diff_kind) : sx :=
  SA match k with KNone => "None" | KDeepDiff => "DeepDiff" | KMapping => "Mapping" | KStrings => "strings" | KOther => "other" end.
Definition sx_args (a : init_args) : sx :=
  SL [sx_kind (a_diff a); sx_bool (a_delta_path a); sx_bool (a_delta_file a); sx_bool (a_delta_diff a);
      sx_bool (a_flat_dict_list a); sx_bool (a_flat_rows_list a)].

(* the indices (at most 60, preceded by their number) at which two observables differ *)
Definition idx_diff {A : Type} (f g : A -> sx) (l : list A) : sx :=
  let all := (fix go (i : Z) (l : list A) : list sx :=
                match l with [] => [] | x :: r => if sx_eqb (f x) (g x) then go (i + 1)%Z r else SZ i :: go (i + 1)%Z r end) 0%Z l in
  SL (SZ (Z.of_nat (List.length all)) :: firstn 60 all).

Definition sx_jconv (j : jconv) : sx := match j with JcFunc n => SL [SA "func"; SA n] | JcLambda b => SL [SA "lambda"; SA b] end.
Definition sx_conv (r : conv_result) : sx :=
  match r with ConvApply j => SL [SA "apply"; sx_jconv j] | ConvListOfCopy => SL [SA "list(copy(obj))"] | ConvTypeError => SL [SA "TypeError"] end.
Definition sx_table (t : table) : sx := SL (map (fun kv => SL [SA (fst kv); sx_jconv (snd kv)]) t).
Definition ALL_PYCL : list pycl := [PcSet; PcFrozenset; PcSetOrdered; PcType; PcBytes; PcListReverseIterator; PcOther].
(* what the converter the model names does to the sample object of each class, as the harness observes it *)
Definition sx_conv_effect (r : conv_result) : sx :=
  SA match r with
     | ConvApply (JcFunc "list") | ConvApply (JcFunc "sorted") => "list of the members"
     | ConvApply (JcLambda "x.__name__") => "the class name"
     | ConvApply (JcLambda "x.decode('utf-8')") => "the text"
     | ConvApply _ => "other converter"
     | ConvListOfCopy => "list of the members"
     | ConvTypeError => "TypeError"
     end.
Definition sx_conv_obs (r : conv_result) : sx :=
  SL [sx_conv_effect r; SA match r with ConvApply (JcFunc n) => n | ConvApply (JcLambda _) => "<lambda>" | _ => "-" end].
Definition sx_pycl (c : pycl) : sx := SA (pc_class_name c).

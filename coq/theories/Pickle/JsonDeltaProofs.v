(** Pickle/JsonDeltaProofs.v - C14, JSON path with set items: a JSON-persisted delta holds lists where
    the original holds the sets of set_item_added / set_item_removed ([setlist]); it is the same delta
    for the application model, so it gives the same result on every base, and a second trip changes
    nothing more. *)
From Coq Require Import List ZArith NArith Bool Arith Lia String.
Import ListNotations.
From DD Require Import Base.Sx Base.PyStr Base.Value Path.PathModel Diff.Tree Diff.DiffModel Delta.DeltaModel
  Pickle.Vm Pickle.Codec Pickle.PickleProofs Pickle.CodecProofs Pickle.JsonProofs Pickle.DeltaCodec Pickle.DeltaCodecProofs.
Local Open Scope string_scope.

(** * json_dumps writes a set and the list of its members alike *)

Lemma to_json_atoms : forall xs, all_some (map to_json (map PAtom xs)) = all_some (map json_atom xs).
Proof. induction xs as [|a r IH]; [reflexivity|]. cbn [map all_some to_json]. rewrite IH. reflexivity. Qed.

Lemma to_json_set_to_list : forall v, to_json (set_to_list v) = to_json v.
Proof.
  intros v. destruct v; try reflexivity. cbn [set_to_list]. rewrite to_json_list_eq, to_json_atoms. reflexivity.
Qed.

Lemma to_json_sets_to_lists : forall v, to_json (sets_to_lists v) = to_json v.
Proof.
  intros v. destruct v; try reflexivity. cbn [sets_to_lists]. rewrite !to_json_dict_eq. f_equal. f_equal.
  induction kvs as [|[k x] r IH]; [reflexivity|]. cbn [map]. rewrite IH. f_equal.
  unfold to_kv. cbn [fst snd]. rewrite to_json_set_to_list. reflexivity.
Qed.

Lemma to_json_setlist : forall d, to_json (setlist d) = to_json d.
Proof.
  intros d. destruct d; try reflexivity. cbn [setlist]. rewrite !to_json_dict_eq. f_equal. f_equal.
  induction kvs as [|[k x] r IH]; [reflexivity|]. cbn [map]. rewrite IH. f_equal.
  unfold to_kv. cbn [fst snd]. destruct (is_set_key k); [rewrite to_json_sets_to_lists|]; reflexivity.
Qed.

Lemma set_to_list_idem : forall v, set_to_list (set_to_list v) = set_to_list v.
Proof. destruct v; reflexivity. Qed.
Lemma sets_to_lists_idem : forall v, sets_to_lists (sets_to_lists v) = sets_to_lists v.
Proof.
  destruct v; try reflexivity. cbn [sets_to_lists]. f_equal. rewrite map_map. apply map_ext. intros [k x]. cbn [fst snd].
  rewrite set_to_list_idem. reflexivity.
Qed.
Lemma setlist_idem : forall d, setlist (setlist d) = setlist d.
Proof.
  destruct d; try reflexivity. cbn [setlist]. f_equal. rewrite map_map. apply map_ext. intros [k x]. cbn [fst snd].
  destruct (is_set_key k); [rewrite sets_to_lists_idem|]; reflexivity.
Qed.

(* the JSON round trip of a delta with set items: the payload comes back with the sets as lists,
   and nothing else changed; a second trip is the identity *)
Theorem json_roundtrip_sets : forall d, json_ok (setlist d) = true ->
  json_roundtrip d = Some (setlist d) /\ json_roundtrip (setlist d) = Some (setlist d).
Proof.
  intros d H. pose proof (json_roundtrip_partial (setlist d) H) as E. split; [|exact E].
  unfold json_roundtrip in *. rewrite <- (to_json_setlist d). exact E.
Qed.

(** * for the application model it is the same delta *)

Lemma atoms_of_list_atoms : forall xs, atoms_of_list (map PAtom xs) = Some xs.
Proof. unfold atoms_of_list. induction xs as [|a r IH]; [reflexivity|]. cbn [map all_some]. cbn [map] in IH. rewrite IH. reflexivity. Qed.

Lemma set_entry_to_list : forall k x, set_entry (k, set_to_list x) = set_entry (k, x).
Proof.
  intros k x. destruct x; try reflexivity. unfold set_entry. cbn [fst snd set_to_list].
  destruct (path_of_key k); [|reflexivity]. rewrite atoms_of_list_atoms. reflexivity.
Qed.

Definition tr (kv : atom * pv) : atom * pv := (fst kv, if is_set_key (fst kv) then sets_to_lists (snd kv) else snd kv).

Lemma lookup_s_tr : forall k cats,
  lookup_s k (map tr cats) =
  option_map (fun x => if is_set_key (AStr (s2p k)) then sets_to_lists x else x) (lookup_s k cats).
Proof.
  intros k cats. unfold lookup_s. induction cats as [|[a x] r IH]; [reflexivity|]. cbn [map find fst tr].
  destruct a; try exact IH. destruct (pystr_eqb s (s2p k)) eqn:E; [|exact IH].
  apply pystr_eqb_eq in E. subst s. reflexivity.
Qed.

Lemma entries_of_tr_other : forall k cats, is_set_key (AStr (s2p k)) = false ->
  entries_of k (map tr cats) = entries_of k cats.
Proof. intros k cats H. unfold entries_of. rewrite lookup_s_tr, H. destruct (lookup_s k cats); reflexivity. Qed.

Lemma category_sets_tr : forall k cats, is_set_key (AStr (s2p k)) = true ->
  category k set_entry (map tr cats) = category k set_entry cats.
Proof.
  intros k cats H. unfold category, entries_of. rewrite lookup_s_tr, H. destruct (lookup_s k cats) as [x|]; [|reflexivity].
  cbn [option_map]. destruct x; try reflexivity. cbn [sets_to_lists]. rewrite map_map. f_equal. apply map_ext.
  intros [a y]. cbn [fst snd]. apply set_entry_to_list.
Qed.

Lemma known_keys_tr : forall (f : atom * pv -> bool) cats, (forall kv, f (tr kv) = f kv) -> forallb f (map tr cats) = forallb f cats.
Proof. intros f cats H. induction cats as [|kv r IH]; [reflexivity|]. cbn. rewrite H, IH. reflexivity. Qed.

Theorem delta_of_pv_setlist : forall b p, delta_of_pv b (setlist p) = delta_of_pv b p.
Proof.
  intros b p. destruct p; try reflexivity. cbn [setlist]. change (map _ kvs) with (map tr kvs). unfold delta_of_pv.
  rewrite (known_keys_tr _ kvs) by (intros [a x]; reflexivity).
  destruct (forallb _ kvs); [|reflexivity].
  unfold category at 1 2 3 4 5 6 7 10.
  rewrite !(entries_of_tr_other _ kvs) by reflexivity.
  rewrite (category_sets_tr "set_item_added" kvs eq_refl), (category_sets_tr "set_item_removed" kvs eq_refl).
  reflexivity.
Qed.

(* the statement: the JSON-persisted delta gives the same result on every base, for + and for the
   bidirectional -, and so does the delta persisted a second time *)
Theorem json_reloaded_same_result : forall conv rem_order add_order (b : bool) p d,
  json_ok (setlist p) = true -> delta_of_pv b p = Some d ->
  exists p', json_roundtrip p = Some p' /\ p' = setlist p /\ json_roundtrip p' = Some p' /\
    exists d', delta_of_pv b p' = Some d' /\
      (forall base, apply conv rem_order add_order d' base = apply conv rem_order add_order d base) /\
      (forall base, sub conv rem_order add_order d' base = sub conv rem_order add_order d base).
Proof.
  intros conv ro ao b p d Hok Hd. destruct (json_roundtrip_sets p Hok) as [E1 E2].
  exists (setlist p). split; [exact E1|]. split; [reflexivity|]. split; [exact E2|].
  exists d. rewrite delta_of_pv_setlist. split; [exact Hd|]. split; reflexivity.
Qed.

(* non-vacuity *)
Definition set_items_payload : pv :=
  PDict [(AStr (s2p "set_item_added"), PDict [(AStr (s2p "root['s']"), PSet [AInt 4%Z; AStr (s2p "a")])]);
         (AStr (s2p "set_item_removed"), PDict [(AStr (s2p "root['s']"), PSet [AInt 1%Z])]);
         (AStr (s2p "values_changed"), PDict [(AStr (s2p "root['n']"), PDict [(AStr (s2p "new_value"), PAtom (AInt 2%Z))])])].
Example set_items_payload_ok :
  json_ok (setlist set_items_payload) = true /\ setlist set_items_payload <> set_items_payload /\
  exists d, delta_of_pv true set_items_payload = Some d.
Proof. split; [vm_compute; reflexivity|]. split; [discriminate|]. eexists. vm_compute. reflexivity. Qed.

(** Correspondence-side functions for C15 / C14 (no theorem depends on this
    file): sx renderings of objects, outcomes and traces, and concrete
    [world]s built from tables the harness measures on the real process. *)
From Coq Require Import List ZArith NArith Bool Arith String.
Import ListNotations.
From DD Require Import Base.Sx Base.PyStr Base.Value Pickle.Vm Pickle.Codec.
Local Open Scope string_scope.

Definition sx_ckind (k : ckind) : sx :=
  SA (match k with KReduce => "reduce" | KNewobj => "newobj" | KNewobjEx => "newobj_ex"
              | KInst => "inst" | KObj => "obj" end).
Definition sx_fl (f : fl) : sx :=
  match f with FHalf t => SL [SA "f"; SZ t] | FBits b => SL [SA "fb"; SZ b] end.

(* canonical rendering: identities erased, set members sorted, dict in insertion order *)
Fixpoint sx_obj (o : obj) : sx :=
  match o with
  | ONone => SA "None"
  | OBool b => SL [SA "b"; sx_bool b]
  | OInt z => SL [SA "i"; SZ z]
  | OFloat f => sx_fl f
  | OStr s => SL [SA "s"; sx_str s]
  | OBytes s => SL [SA "y"; sx_str s]
  | OTuple xs => SL [SA "T"; SL (map sx_obj xs)]
  | OFrozen xs => SL [SA "F"; SL (sx_sort (map sx_obj xs))]
  | OList _ xs => SL [SA "L"; SL (map sx_obj xs)]
  | ODict _ kvs => SL [SA "D"; SL (map (fun kv => SL [sx_obj (fst kv); sx_obj (snd kv)]) kvs)]
  | OSet _ xs => SL [SA "S"; SL (sx_sort (map sx_obj xs))]
  | OGlobal m n _ => SL [SA "G"; sx_str m; sx_str n]
  | ONoneType => SA "NoneType"
  | OInst _ k f a sts => SL [SA "inst"; sx_ckind k; sx_obj f; sx_obj a; SL (map sx_obj sts)]
  | OMark => SA "MARK"
  end.

(* outcome class as the harness observes it *)
Definition sx_err_class (e : err) : sx :=
  SA (match e with
      | Forbidden _ _ => "ForbiddenModule"
      | ModuleNotFound _ _ => "ModuleNotFoundError"
      | _ => "other"
      end).
Definition sx_err_name (e : err) : sx :=
  match e with
  | Forbidden m n | ModuleNotFound m n | AttrError m n => SL [sx_str m; sx_str n]
  | _ => SA "None"
  end.
(* finer: the Python exception class the C unpickler raises for this error *)
Definition sx_err_fine (e : err) : sx :=
  SA (match e with
      | Forbidden _ _ => "ForbiddenModule"
      | ModuleNotFound _ _ => "ModuleNotFoundError"
      | AttrError _ _ => "AttributeError"
      | Underflow | NoMark => "UnpicklingError"
      | BadOperand => "BadOperand"
      | Unhashable => "TypeError"
      | MemoMiss => "KeyError"
      | BadArg => "ValueError"
      | CallRaised => "CallRaised"
      | BuildRaised => "BuildRaised"
      | Truncated => "EOFError"
      end).

Definition resolved_of (tr : list event) : list sx :=
  flat_map (fun e => match e with EResolve m n => [SL [sx_str m; sx_str n]] | _ => [] end) tr.
Definition calls_of (tr : list event) : list sx :=
  flat_map (fun e => match e with
                     | ECall k f a => [SL [sx_ckind k; sx_obj f; sx_obj a]]
                     | EBuild i s => [SL [SA "build"; sx_obj i; sx_obj s]]
                     | EExtCached c o => [SL [SA "ext_cached"; SZ c; sx_obj o]]
                     | _ => []
                     end) tr.

(* [class; failing (module, name) or None; resolved names in order; value or None] *)
Definition sx_result (with_value : bool) (r : result) : sx :=
  let '(out, tr) := r in
  match out with
  | Done v => SL [SA "ok"; SA "None"; SL (resolved_of tr); if with_value then sx_obj v else SA "None"]
  | Err e => SL [sx_err_class e; sx_err_name e; SL (resolved_of tr); SA "None"]
  end.
Definition sx_result_fine (r : result) : sx :=
  let '(out, tr) := r in
  match out with
  | Done v => SL [SA "ok"; SL (calls_of tr)]
  | Err e => SL [sx_err_fine e; SL (calls_of tr)]
  end.

(** concrete worlds from measured tables *)

Definition gk (c : Z) : gkind :=
  if Z.eqb c 0 then GType else if Z.eqb c 1 then GFunc else if Z.eqb c 3 then GNone else GPlain.

(* found : (module, name, kind code) for every existing attribute the run may ask for;
   modules : the modules present in sys.modules among those asked for *)
Definition table_lookup (modules : list pystr) (found : list (pystr * pystr * Z)) (m n : pystr) : lookup_res :=
  if mem_str m modules then
    match find (fun t => pystr_eqb (fst (fst t)) m && pystr_eqb (snd (fst t)) n) found with
    | Some t => Found (gk (snd t))
    | None => NoAttr
    end
  else NoModule.

Definition call_key (k : ckind) (f a : obj) : sx := SL [sx_ckind k; sx_obj f; sx_obj a].
Definition build_key (i s : obj) : sx := SL [sx_obj i; sx_obj s].

Definition table_world (allow_ : list pystr) (modules : list pystr) (found : list (pystr * pystr * Z))
           (call_fail build_fail : list sx) (cache : list (Z * obj))
           (registry : list (Z * (pystr * pystr))) : world :=
  mkWorld allow_ (table_lookup modules found)
          (fun k f a => negb (existsb (sx_eqb (call_key k f a)) call_fail))
          (fun i s => negb (existsb (sx_eqb (build_key i s)) build_fail))
          cache
          (fun c => match find (fun p => Z.eqb (fst p) c) registry with Some p => Some (snd p) | None => None end).

(* part (i): the decision only, for a batch of names of one module *)
Definition decide (allow_ : list pystr) (m n : pystr) : bool := mem_str (dotted m n) allow_.
Definition count_true (l : list bool) : Z := Z.of_nat (List.length (filter (fun b => b) l)).
(* the names of [m] the model does NOT forbid *)
Definition allowed_names (allow_ : list pystr) (m : pystr) (names : list pystr) : sx :=
  SL (map sx_str (filter (decide allow_ m) names)).

(* the model's default process tables, to be compared with the measured ones *)
Definition gk_code (g : gkind) : Z := match g with GType => 0 | GFunc => 1 | GPlain => 2 | GNone => 3 end.
Definition sx_default_world : sx :=
  SL [SL (sx_sort (map sx_str default_modules));
      SL (sx_sort (map (fun t => SL [sx_str (fst (fst t)); sx_str (snd (fst t)); SZ (gk_code (snd t))]) default_found))].

(** * C14: payloads, JSON values, canonical encodings *)

Fixpoint sx_pv (v : pv) : sx :=
  match v with
  | PAtom a => sx_atom a
  | PFloatBits b => SL [SA "fb"; SZ b]
  | PList xs => SL [SA "L"; SL (map sx_pv xs)]
  | PTuple xs => SL [SA "T"; SL (map sx_pv xs)]
  | PDict kvs => SL [SA "D"; SL (map (fun kv => SL [sx_atom (fst kv); sx_pv (snd kv)]) kvs)]
  | PSet xs => SL [SA "S"; SL (sx_sort (map sx_atom xs))]
  | PFrozen xs => SL [SA "F"; SL (sx_sort (map sx_atom xs))]
  | PType m n => SL [SA "G"; sx_str m; sx_str n]
  | PNoneType => SA "NoneType"
  | POpcode tag i1 i2 j1 j2 old new => SL [SA "Op"; sx_str tag; SZ i1; SZ i2; SZ j1; SZ j2; sx_pv old; sx_pv new]
  | PSetOrdered xs => SL [SA "SO"; SL (map sx_pv xs)]
  end.
Definition sx_opv (o : option pv) : sx := match o with Some v => sx_pv v | None => SA "raises" end.

Fixpoint sx_jv (j : jv) : sx :=
  match j with
  | JNull => SA "None"
  | JBool b => SL [SA "b"; sx_bool b]
  | JInt z => SL [SA "i"; SZ z]
  | JFloat t => SL [SA "f"; SZ t]
  | JStr s => SL [SA "s"; sx_str s]
  | JArr xs => SL [SA "A"; SL (map sx_jv xs)]
  | JObj kvs => SL [SA "O"; SL (map (fun kv => SL [sx_str (fst kv); sx_jv (snd kv)]) kvs)]
  end.
Definition sx_ojv (o : option jv) : sx := match o with Some v => sx_jv v | None => SA "raises" end.

(* [decoded payload or raises; resolved names] of a real dump run on the model *)
Definition sx_load (w : world) (prog : list op) : sx :=
  let '(out, tr) := vm_run w prog in
  match out with
  | Done o => SL [sx_opv (decode o); SL (resolved_of tr)]
  | Err e => SL [sx_err_class e; SL (resolved_of tr)]
  end.

(* canonical encoding rendered one opcode per line: NAME <tab> argument *)
Definition show_fl (f : fl) : string :=
  match f with FHalf t => "h" ++ show_Z t | FBits b => "b" ++ show_Z b end.
Definition show_op (o : op) : string :=
  let a1 (n : string) (x : string) := n ++ tab ++ x in
  match o with
  | PROTO n => a1 "PROTO" (show_Z n) | FRAME n => a1 "FRAME" (show_Z n)
  | STOP => "STOP" | POP => "POP" | POP_MARK => "POP_MARK" | DUP => "DUP" | MARK => "MARK"
  | MEMOIZE => "MEMOIZE" | PUT i => a1 "PUT" (show_Z i) | BINPUT i => a1 "BINPUT" (show_Z i)
  | LONG_BINPUT i => a1 "LONG_BINPUT" (show_Z i) | GET i => a1 "GET" (show_Z i)
  | BINGET i => a1 "BINGET" (show_Z i) | LONG_BINGET i => a1 "LONG_BINGET" (show_Z i)
  | NONE => "NONE" | NEWTRUE => "NEWTRUE" | NEWFALSE => "NEWFALSE"
  | INT z => a1 "INT" (show_Z z) | INTB b => a1 "INTB" (if b then "1" else "0")
  | BININT z => a1 "BININT" (show_Z z) | BININT1 z => a1 "BININT1" (show_Z z) | BININT2 z => a1 "BININT2" (show_Z z)
  | LONG z => a1 "LONG" (show_Z z) | LONG1 z => a1 "LONG1" (show_Z z) | LONG4 z => a1 "LONG4" (show_Z z)
  | FLOAT f => a1 "FLOAT" (show_fl f) | BINFLOAT f => a1 "BINFLOAT" (show_fl f)
  | UNICODE s => a1 "UNICODE" (show_pystr s) | BINUNICODE s => a1 "BINUNICODE" (show_pystr s)
  | SHORT_BINUNICODE s => a1 "SHORT_BINUNICODE" (show_pystr s) | BINUNICODE8 s => a1 "BINUNICODE8" (show_pystr s)
  | BINBYTES s => a1 "BINBYTES" (show_pystr s) | SHORT_BINBYTES s => a1 "SHORT_BINBYTES" (show_pystr s)
  | BINBYTES8 s => a1 "BINBYTES8" (show_pystr s)
  | EMPTY_LIST => "EMPTY_LIST" | EMPTY_DICT => "EMPTY_DICT" | EMPTY_TUPLE => "EMPTY_TUPLE" | EMPTY_SET => "EMPTY_SET"
  | APPEND => "APPEND" | APPENDS => "APPENDS" | SETITEM => "SETITEM" | SETITEMS => "SETITEMS" | ADDITEMS => "ADDITEMS"
  | TUPLE => "TUPLE" | TUPLE1 => "TUPLE1" | TUPLE2 => "TUPLE2" | TUPLE3 => "TUPLE3" | FROZENSET => "FROZENSET"
  | LIST => "LIST" | DICT => "DICT"
  | GLOBAL m n => a1 "GLOBAL" (show_pystr m ++ tab ++ show_pystr n) | STACK_GLOBAL => "STACK_GLOBAL"
  | INST m n => a1 "INST" (show_pystr m ++ tab ++ show_pystr n) | OBJ => "OBJ"
  | NEWOBJ => "NEWOBJ" | NEWOBJ_EX => "NEWOBJ_EX" | REDUCE => "REDUCE" | BUILD => "BUILD"
  | BINPERSID => "BINPERSID" | PERSID s => a1 "PERSID" (show_pystr s)
  | EXT1 c => a1 "EXT1" (show_Z c) | EXT2 c => a1 "EXT2" (show_Z c) | EXT4 c => a1 "EXT4" (show_Z c)
  end.
Fixpoint show_ops (l : list op) : string :=
  match l with [] => "" | o :: r => show_op o ++ nl ++ show_ops r end.
(* several programs, separated by a line "--" *)
Fixpoint show_progs (l : list (list op)) : string :=
  match l with [] => "" | p :: r => show_ops p ++ "--" ++ nl ++ show_progs r end.

(* membership of real dumps in the proved encoding class, one character per case *)
From DD Require Import Pickle.Encodes.
Fixpoint show_accepts (l : list (list op * pv)) : string :=
  match l with
  | [] => ""
  | (p, d) :: r => (if accepts p d then "T" else "F") ++ show_accepts r
  end.

(** Correspondence-side functions for C15 / C14 (no theorem depends on this
    file): sx renderings of objects, outcomes and traces, and concrete
    [world]s built from tables the harness measures on the real process. *)
From Coq Require Import List ZArith NArith Bool Arith String.
Import ListNotations.
From DD Require Import Base.Sx Base.PyStr Base.Value Pickle.Vm Pickle.Codec.
Local Open Scope string_scope.

Definition sx_ckind (k : ckind) : sx :=
  SA (match k with KReduce => "reduce" | KNewobj => "newobj" | KNewobjEx => "newobj_ex"
              | KInst => "inst" | KObj => "obj" end).
Definition sx_fl (f : fl) : sx :=
  match f with FHalf t => SL [SA "f"; SZ t] | FBits b => SL [SA "fb"; SZ b] end.

(* canonical rendering: identities erased, set members sorted, dict in insertion order *)
Fixpoint sx_obj (o : obj) : sx :=
  match o with
  | ONone => SA "None"
  | OBool b => SL [SA "b"; sx_bool b]
  | OInt z => SL [SA "i"; SZ z]
  | OFloat f => sx_fl f
  | OStr s => SL [SA "s"; sx_str s]
  | OBytes s => SL [SA "y"; sx_str s]
  | OTuple xs => SL [SA "T"; SL (map sx_obj xs)]
  | OFrozen xs => SL [SA "F"; SL (sx_sort (map sx_obj xs))]
  | OList _ xs => SL [SA "L"; SL (map sx_obj xs)]
  | ODict _ kvs => SL [SA "D"; SL (map (fun kv => SL [sx_obj (fst kv); sx_obj (snd kv)]) kvs)]
  | OSet _ xs => SL [SA "S"; SL (sx_sort (map sx_obj xs))]
  | OGlobal m n _ => SL [SA "G"; sx_str m; sx_str n]
  | ONoneType => SA "NoneType"
  | OInst _ k f a sts => SL [SA "inst"; sx_ckind k; sx_obj f; sx_obj a; SL (map sx_obj sts)]
  | OMark => SA "MARK"
  | OByteArray s => SL [SA "ba"; sx_str s]
  end.

(* outcome class as the harness observes it *)
Definition sx_err_class (e : err) : sx :=
  SA (match e with
      | Forbidden _ _ => "ForbiddenModule"
      | ModuleNotFound _ _ => "ModuleNotFoundError"
      | _ => "other"
      end).
Definition sx_err_name (e : err) : sx :=
  match e with
  | Forbidden m n | ModuleNotFound m n | AttrError m n => SL [sx_str m; sx_str n]
  | _ => SA "None"
  end.
(* finer: the Python exception class the C unpickler raises for this error *)
Definition sx_err_fine (e : err) : sx :=
  SA (match e with
      | Forbidden _ _ => "ForbiddenModule"
      | ModuleNotFound _ _ => "ModuleNotFoundError"
      | AttrError _ _ => "AttributeError"
      | Underflow | NoMark => "UnpicklingError"
      | BadOperand => "BadOperand"
      | Unhashable => "TypeError"
      | MemoMiss => "KeyError"
      | BadArg => "ValueError"
      | CallRaised => "CallRaised"
      | BuildRaised => "BuildRaised"
      | Truncated => "EOFError"
      | OutOfModel => "OutOfModel"
      | Malformed k => if N.eqb k 4 then "OverflowError" else if N.eqb k 3 then "BadArgument" else "UnpicklingError"
      end).

Definition resolved_of (tr : list event) : list sx :=
  flat_map (fun e => match e with EResolve m n => [SL [sx_str m; sx_str n]] | _ => [] end) tr.
Definition calls_of (tr : list event) : list sx :=
  flat_map (fun e => match e with
                     | ECall k f a => [SL [sx_ckind k; sx_obj f; sx_obj a]]
                     | EBuild i s => [SL [SA "build"; sx_obj i; sx_obj s]]
                     | EExtCached c o => [SL [SA "ext_cached"; SZ c; sx_obj o]]
                     | _ => []
                     end) tr.

(* [class; failing (module, name) or None; resolved names in order; value or None] *)
Definition sx_result (with_value : bool) (r : result) : sx :=
  let '(out, tr) := r in
  match out with
  | Done v => SL [SA "ok"; SA "None"; SL (resolved_of tr); if with_value then sx_obj v else SA "None"]
  | Err e => SL [sx_err_class e; sx_err_name e; SL (resolved_of tr); SA "None"]
  end.
Definition sx_result_fine (r : result) : sx :=
  let '(out, tr) := r in
  match out with
  | Done v => SL [SA "ok"; SL (calls_of tr)]
  | Err e => SL [sx_err_fine e; SL (calls_of tr)]
  end.

(** concrete worlds from measured tables *)

Definition gk (c : Z) : gkind :=
  if Z.eqb c 0 then GType else if Z.eqb c 1 then GFunc else if Z.eqb c 3 then GNone else GPlain.

(* found : (module, name, kind code) for every existing attribute the run may ask for;
   modules : the modules present in sys.modules among those asked for *)
Definition table_lookup (modules : list pystr) (found : list (pystr * pystr * Z)) (m n : pystr) : lookup_res :=
  if mem_str m modules then
    match find (fun t => pystr_eqb (fst (fst t)) m && pystr_eqb (snd (fst t)) n) found with
    | Some t => Found (gk (snd t))
    | None => NoAttr
    end
  else NoModule.

Definition call_key (k : ckind) (f a : obj) : sx := SL [sx_ckind k; sx_obj f; sx_obj a].
Definition build_key (i s : obj) : sx := SL [sx_obj i; sx_obj s].

Definition table_world (allow_ : list pystr) (modules : list pystr) (found : list (pystr * pystr * Z))
           (call_fail build_fail : list sx) (cache : list (Z * obj))
           (registry : list (Z * (pystr * pystr))) : world :=
  mkWorld allow_ (table_lookup modules found)
          (fun k f a => negb (existsb (sx_eqb (call_key k f a)) call_fail))
          (fun i s => negb (existsb (sx_eqb (build_key i s)) build_fail))
          cache
          (fun c => match find (fun p => Z.eqb (fst p) c) registry with Some p => Some (snd p) | None => None end).

(* part (i): the decision only, for a batch of names of one module *)
Definition decide (allow_ : list pystr) (m n : pystr) : bool := mem_str (dotted m n) allow_.
Definition count_true (l : list bool) : Z := Z.of_nat (List.length (filter (fun b => b) l)).
(* the names of [m] the model does NOT forbid *)
Definition allowed_names (allow_ : list pystr) (m : pystr) (names : list pystr) : sx :=
  SL (map sx_str (filter (decide allow_ m) names)).

(* the model's default process tables, to be compared with the measured ones *)
Definition gk_code (g : gkind) : Z := match g with GType => 0 | GFunc => 1 | GPlain => 2 | GNone => 3 end.
Definition sx_default_world : sx :=
  SL [SL (sx_sort (map sx_str default_modules));
      SL (sx_sort (map (fun t => SL [sx_str (fst (fst t)); sx_str (snd (fst t)); SZ (gk_code (snd t))]) default_found))].

(** * C14: payloads, JSON values, canonical encodings *)

Fixpoint sx_pv (v : pv) : sx :=
  match v with
  | PAtom a => sx_atom a
  | PFloatBits b => SL [SA "fb"; SZ b]
  | PList xs => SL [SA "L"; SL (map sx_pv xs)]
  | PTuple xs => SL [SA "T"; SL (map sx_pv xs)]
  | PDict kvs => SL [SA "D"; SL (map (fun kv => SL [sx_atom (fst kv); sx_pv (snd kv)]) kvs)]
  | PSet xs => SL [SA "S"; SL (sx_sort (map sx_atom xs))]
  | PFrozen xs => SL [SA "F"; SL (sx_sort (map sx_atom xs))]
  | PType m n => SL [SA "G"; sx_str m; sx_str n]
  | PNoneType => SA "NoneType"
  | POpcode tag i1 i2 j1 j2 old new => SL [SA "Op"; sx_str tag; SZ i1; SZ i2; SZ j1; SZ j2; sx_pv old; sx_pv new]
  | PSetOrdered xs => SL [SA "SO"; SL (map sx_pv xs)]
  end.
Definition sx_opv (o : option pv) : sx := match o with Some v => sx_pv v | None => SA "raises" end.

Fixpoint sx_jv (j : jv) : sx :=
  match j with
  | JNull => SA "None"
  | JBool b => SL [SA "b"; sx_bool b]
  | JInt z => SL [SA "i"; SZ z]
  | JFloat t => SL [SA "f"; SZ t]
  | JStr s => SL [SA "s"; sx_str s]
  | JArr xs => SL [SA "A"; SL (map sx_jv xs)]
  | JObj kvs => SL [SA "O"; SL (map (fun kv => SL [sx_str (fst kv); sx_jv (snd kv)]) kvs)]
  end.
Definition sx_ojv (o : option jv) : sx := match o with Some v => sx_jv v | None => SA "raises" end.

(* [decoded payload or raises; resolved names] of a real dump run on the model *)
Definition sx_load (w : world) (prog : list op) : sx :=
  let '(out, tr) := vm_run w prog in
  match out with
  | Done o => SL [sx_opv (decode o); SL (resolved_of tr)]
  | Err e => SL [sx_err_class e; SL (resolved_of tr)]
  end.

(* canonical encoding rendered one opcode per line: NAME <tab> argument *)
Definition show_fl (f : fl) : string :=
  match f with FHalf t => "h" ++ show_Z t | FBits b => "b" ++ show_Z b end.
Definition show_op (o : op) : string :=
  let a1 (n : string) (x : string) := n ++ tab ++ x in
  match o with
  | PROTO n => a1 "PROTO" (show_Z n) | FRAME n => a1 "FRAME" (show_Z n)
  | STOP => "STOP" | POP => "POP" | POP_MARK => "POP_MARK" | DUP => "DUP" | MARK => "MARK"
  | MEMOIZE => "MEMOIZE" | PUT i => a1 "PUT" (show_Z i) | BINPUT i => a1 "BINPUT" (show_Z i)
  | LONG_BINPUT i => a1 "LONG_BINPUT" (show_Z i) | GET i => a1 "GET" (show_Z i)
  | BINGET i => a1 "BINGET" (show_Z i) | LONG_BINGET i => a1 "LONG_BINGET" (show_Z i)
  | NONE => "NONE" | NEWTRUE => "NEWTRUE" | NEWFALSE => "NEWFALSE"
  | INT z => a1 "INT" (show_Z z) | INTB b => a1 "INTB" (if b then "1" else "0")
  | BININT z => a1 "BININT" (show_Z z) | BININT1 z => a1 "BININT1" (show_Z z) | BININT2 z => a1 "BININT2" (show_Z z)
  | LONG z => a1 "LONG" (show_Z z) | LONG1 z => a1 "LONG1" (show_Z z) | LONG4 z => a1 "LONG4" (show_Z z)
  | FLOAT f => a1 "FLOAT" (show_fl f) | BINFLOAT f => a1 "BINFLOAT" (show_fl f)
  | UNICODE s => a1 "UNICODE" (show_pystr s) | BINUNICODE s => a1 "BINUNICODE" (show_pystr s)
  | SHORT_BINUNICODE s => a1 "SHORT_BINUNICODE" (show_pystr s) | BINUNICODE8 s => a1 "BINUNICODE8" (show_pystr s)
  | BINBYTES s => a1 "BINBYTES" (show_pystr s) | SHORT_BINBYTES s => a1 "SHORT_BINBYTES" (show_pystr s)
  | BINBYTES8 s => a1 "BINBYTES8" (show_pystr s)
  | EMPTY_LIST => "EMPTY_LIST" | EMPTY_DICT => "EMPTY_DICT" | EMPTY_TUPLE => "EMPTY_TUPLE" | EMPTY_SET => "EMPTY_SET"
  | APPEND => "APPEND" | APPENDS => "APPENDS" | SETITEM => "SETITEM" | SETITEMS => "SETITEMS" | ADDITEMS => "ADDITEMS"
  | TUPLE => "TUPLE" | TUPLE1 => "TUPLE1" | TUPLE2 => "TUPLE2" | TUPLE3 => "TUPLE3" | FROZENSET => "FROZENSET"
  | LIST => "LIST" | DICT => "DICT"
  | GLOBAL m n => a1 "GLOBAL" (show_pystr m ++ tab ++ show_pystr n) | STACK_GLOBAL => "STACK_GLOBAL"
  | INST m n => a1 "INST" (show_pystr m ++ tab ++ show_pystr n) | OBJ => "OBJ"
  | NEWOBJ => "NEWOBJ" | NEWOBJ_EX => "NEWOBJ_EX" | REDUCE => "REDUCE" | BUILD => "BUILD"
  | BINPERSID => "BINPERSID" | PERSID s => a1 "PERSID" (show_pystr s)
  | EXT1 c => a1 "EXT1" (show_Z c) | EXT2 c => a1 "EXT2" (show_Z c) | EXT4 c => a1 "EXT4" (show_Z c)
  | STRING s => a1 "STRING" (show_pystr s) | BINSTRING s => a1 "BINSTRING" (show_pystr s)
  | SHORT_BINSTRING s => a1 "SHORT_BINSTRING" (show_pystr s) | BYTEARRAY8 s => a1 "BYTEARRAY8" (show_pystr s)
  | NEXT_BUFFER => "NEXT_BUFFER" | READONLY_BUFFER => "READONLY_BUFFER"
  end.
Fixpoint show_ops (l : list op) : string :=
  match l with [] => "" | o :: r => show_op o ++ nl ++ show_ops r end.
(* several programs, separated by a line "--" *)
Fixpoint show_progs (l : list (list op)) : string :=
  match l with [] => "" | p :: r => show_ops p ++ "--" ++ nl ++ show_progs r end.

(* membership of real dumps in the proved encoding class, one character per case *)
From DD Require Import Pickle.Encodes.
Fixpoint show_accepts (l : list (list op * pv)) : string :=
  match l with
  | [] => ""
  | (p, d) :: r => (if accepts p d then "T" else "F") ++ show_accepts r
  end.

(** * The byte layer (Pickle/Bytes.v) *)
From DD Require Import Pickle.Bytes.

Definition tlook {A : Type} (t : list (list N * A)) (l : list N) : option A :=
  match find (fun p => pystr_eqb (fst p) l) t with Some p => Some (snd p) | None => None end.
(* measured on the C library functions (C dialect) or on pickletools' readers (genops dialect):
   only the lines the function accepts and the decoder does not read itself *)
Definition table_textw (ints : list (list N * intres)) (longs idxs : list (list N * Z))
           (floats : list (list N * fl)) (strings : list (list N * pystr)) : textw :=
  mkTextw (tlook ints) (tlook longs) (tlook idxs) (tlook floats) (tlook strings).

(* pickletools.genops: sequential, FRAME skipped, no minimum line length; names and persistent ids
   through escape_decode + ASCII (identity on plain ASCII without backslash, table otherwise),
   BINSTRING as latin-1 *)
Definition is_quote_b (q : N) : bool := N.eqb q 39 || N.eqb q 34.
Definition genops_dialect (tw : textw) (names : list (list N * pystr)) : dialect :=
  mkDialect false false (c_int tw) (c_long tw) (c_idx tw) (tx_float tw)
            (fun l => if plain_ascii l then Some l else tlook names l)
            (fun l => if plain_ascii l then Some l else tlook names l)   (* INST: the same reader (stringnl_noescape_pair) *)
            (fun l => if plain_ascii l then Some l else tlook names l)
            rue_dec
            (fun l => match l with [q] => if is_quote_b q then Some [] else None | _ => c_string tw l end)
            (fun l => Some l).

(* an opcode as pickletools.genops reports it: [name; argument] *)
Definition sx_gop (o : op) : sx :=
  let z (n : string) (x : Z) := SL [SA n; SZ x] in
  let s (n : string) (x : pystr) := SL [SA n; sx_str x] in
  match o with
  | PROTO n => z "PROTO" n | FRAME n => z "FRAME" n
  | STOP => SL [SA "STOP"] | POP => SL [SA "POP"] | POP_MARK => SL [SA "POP_MARK"] | DUP => SL [SA "DUP"]
  | MARK => SL [SA "MARK"] | MEMOIZE => SL [SA "MEMOIZE"]
  | PUT i => z "PUT" i | BINPUT i => z "BINPUT" i | LONG_BINPUT i => z "LONG_BINPUT" i
  | GET i => z "GET" i | BINGET i => z "BINGET" i | LONG_BINGET i => z "LONG_BINGET" i
  | NONE => SL [SA "NONE"] | NEWTRUE => SL [SA "NEWTRUE"] | NEWFALSE => SL [SA "NEWFALSE"]
  | INT x => z "INT" x | INTB b => SL [SA "INT"; sx_bool b]
  | BININT x => z "BININT" x | BININT1 x => z "BININT1" x | BININT2 x => z "BININT2" x
  | LONG x => z "LONG" x | LONG1 x => z "LONG1" x | LONG4 x => z "LONG4" x
  | FLOAT f => SL [SA "FLOAT"; sx_fl f] | BINFLOAT f => SL [SA "BINFLOAT"; sx_fl f]
  | UNICODE x => s "UNICODE" x | BINUNICODE x => s "BINUNICODE" x
  | SHORT_BINUNICODE x => s "SHORT_BINUNICODE" x | BINUNICODE8 x => s "BINUNICODE8" x
  | BINBYTES x => s "BINBYTES" x | SHORT_BINBYTES x => s "SHORT_BINBYTES" x | BINBYTES8 x => s "BINBYTES8" x
  | EMPTY_LIST => SL [SA "EMPTY_LIST"] | EMPTY_DICT => SL [SA "EMPTY_DICT"] | EMPTY_TUPLE => SL [SA "EMPTY_TUPLE"]
  | EMPTY_SET => SL [SA "EMPTY_SET"]
  | APPEND => SL [SA "APPEND"] | APPENDS => SL [SA "APPENDS"] | SETITEM => SL [SA "SETITEM"]
  | SETITEMS => SL [SA "SETITEMS"] | ADDITEMS => SL [SA "ADDITEMS"]
  | TUPLE => SL [SA "TUPLE"] | TUPLE1 => SL [SA "TUPLE1"] | TUPLE2 => SL [SA "TUPLE2"] | TUPLE3 => SL [SA "TUPLE3"]
  | FROZENSET => SL [SA "FROZENSET"] | LIST => SL [SA "LIST"] | DICT => SL [SA "DICT"]
  | GLOBAL m n => s "GLOBAL" (m ++ 32%N :: n)%list | STACK_GLOBAL => SL [SA "STACK_GLOBAL"]
  | INST m n => s "INST" (m ++ 32%N :: n)%list | OBJ => SL [SA "OBJ"]
  | NEWOBJ => SL [SA "NEWOBJ"] | NEWOBJ_EX => SL [SA "NEWOBJ_EX"] | REDUCE => SL [SA "REDUCE"] | BUILD => SL [SA "BUILD"]
  | BINPERSID => SL [SA "BINPERSID"] | PERSID x => s "PERSID" x
  | EXT1 c => z "EXT1" c | EXT2 c => z "EXT2" c | EXT4 c => z "EXT4" c
  | STRING x => s "STRING" x | BINSTRING x => s "BINSTRING" x | SHORT_BINSTRING x => s "SHORT_BINSTRING" x
  | BYTEARRAY8 x => s "BYTEARRAY8" x
  | NEXT_BUFFER => SL [SA "NEXT_BUFFER"] | READONLY_BUFFER => SL [SA "READONLY_BUFFER"]
  end.

(* ["ok" | "raises"; the opcodes produced] *)
Definition sx_genops (d : dialect) (bs : list N) : sx :=
  let '(ops, e, _) := bdecode d bs in
  SL [SA (match e with DStop => "ok" | _ => "raises" end); SL (map sx_gop ops)].

Definition sx_dend (e : dend) : sx :=
  SA (match e with
      | DStop => "stop" | DEof => "eof" | DTrunc => "truncated" | DBadOpcode _ => "badopcode"
      | DBadArg => "badarg" | DTooBig => "toobig" | DFuel => "fuel"
      end).

(* does the verdict of the run depend on the call / build oracles or on an object the model does not follow *)
Definition is_call_ev (e : event) : bool :=
  match e with ECall _ _ _ | EBuild _ _ => true | _ => false end.
Fixpoint before_call (tr : list event) : list event :=
  match tr with
  | [] => []
  | e :: r => if is_call_ev e then [] else e :: before_call r
  end.
Definition oracle_free (r : result) : bool :=
  let '(out, tr) := r in
  negb (existsb is_call_ev tr) && match out with Err OutOfModel => false | _ => true end.
Fixpoint sx_prefix (a b : list sx) : bool :=
  match a, b with
  | [], _ => true
  | x :: a', y :: b' => sx_eqb x y && sx_prefix a' b'
  | _ :: _, [] => false
  end.
(* [real] = what the harness observed: [class; failing name; resolved names; value].
   exact (the oracles were measured for this very stream) or oracle-free run: the model's own observation.
   Otherwise only what precedes the first call is comparable: the names resolved before it must be
   the first names the implementation resolved; the answer is [real] itself when they are. *)
(* decoding errors whose Python exception class is certain: running out of input where an opcode is
   expected is EOFError, an unknown opcode is UnpicklingError *)
Definition exc_ok (r : result) (exc : string) : bool :=
  match fst r with
  | Err Truncated => String.eqb exc "EOFError"
  | Err (Malformed k) => if N.eqb k 2 then String.eqb exc "UnpicklingError" else true
  | _ => true
  end.
Definition out_of_model (r : result) : bool := match fst r with Err OutOfModel => true | _ => false end.
Definition sx_bytes_verdict (exact with_value : bool) (exc : string) (r : result) (real : sx) : sx :=
  if (exact || oracle_free r) && negb (out_of_model r) then
    if exc_ok r exc then sx_result with_value r else SL [SA "exception-mismatch"; sx_result_fine r]
  else
    (* exact: the oracles were measured, every resolve up to the OutOfModel point is comparable *)
    let pre := resolved_of (if exact then snd r else before_call (snd r)) in
    match real with
    | SL [c; f; SL resolved; v] =>
        if sx_prefix pre resolved then real else SL [SA "prefix-mismatch"; SL pre]
    | _ => SA "bad-observation"
    end.
(* how the comparison of a stream was made: "exact" / "oracle-free" / "prefix" (informational) *)
Definition verdict_mode (exact : bool) (r : result) : string :=
  if exact then "exact" else if oracle_free r then "oracle-free" else "prefix".

(* [decoded payload or raises; resolved names] of a real dump given as BYTES *)
Definition sx_load_bytes (w : world) (d : dialect) (bs : list N) : sx :=
  let '(out, tr) := load_content w d bs in
  match out with
  | Done o => SL [sx_opv (decode o); SL (resolved_of tr)]
  | Err e => SL [sx_err_class e; SL (resolved_of tr)]
  end.
(* byte strings printed as decimal numbers, one string per line *)
Fixpoint show_bytes (l : list N) : string :=
  match l with [] => "" | b :: r => show_N b ++ " " ++ show_bytes r end.
Fixpoint show_dumps (l : list (list N)) : string :=
  match l with [] => "" | p :: r => show_bytes p ++ nl ++ show_dumps r end.

(* the call / build queries of a run, in order, in a form that parses back unambiguously:
   atoms as <length:text>, one run per line (for measuring the oracles of a mutated stream) *)
Fixpoint show_sxq (a : sx) : string :=
  match a with
  | SA t => "<" ++ show_nat (String.length t) ++ ":" ++ t ++ ">"
  | SZ z => show_Z z
  | SL l => "(" ++ (fix go (l : list sx) : string :=
                     match l with
                     | [] => ""
                     | [x] => show_sxq x
                     | x :: r => show_sxq x ++ " " ++ go r
                     end) l ++ ")"
  end.
Definition show_queries (w : world) (d : dialect) (bs : list N) : string :=
  show_sxq (SL (calls_of (snd (load_content w d bs)))) ++ nl.

(** Pickle/DeltaCodec.v - the persisted payload (Codec.pv, what Delta.diff holds and
    pickle / JSON carry) read as a delta of the application model (Delta/DeltaModel.v),
    and back.  Ordered-mode categories: values_changed, type_changes,
    dictionary_item_added/removed, iterable_item_added/removed, iterable_item_moved,
    set_item_added/removed, _iterable_opcodes.  Paths travel as strings and are parsed
    with the model of deepdiff's path parser (Path/PathModel.parse), as Delta does.
    The bidirectional flag is a constructor argument of Delta, not part of the payload.
    Definitions only. *)
From Coq Require Import List ZArith NArith Bool Arith String.
Import ListNotations.
From DD Require Import Base.Sx Base.PyStr Base.Value Path.PathModel Diff.Tree Diff.DiffModel Delta.DeltaModel
  Pickle.Vm Pickle.Codec.

(** * values, types, tags *)

Fixpoint value_of_pv (v : pv) {struct v} : option value :=
  let vals := fix vals (xs : list pv) : option (list value) :=
                match xs with
                | [] => Some []
                | x :: r => match value_of_pv x, vals r with
                            | Some y, Some ys => Some (y :: ys)
                            | _, _ => None
                            end
                end in
  match v with
  | PAtom a => Some (VAtom a)
  | PList xs => option_map VList (vals xs)
  | PTuple xs => option_map VTuple (vals xs)
  | PDict kvs =>
      option_map VDict
        ((fix go (kvs : list (atom * pv)) : option (list (atom * value)) :=
            match kvs with
            | [] => Some []
            | (k, x) :: r => match value_of_pv x, go r with
                             | Some y, Some ys => Some ((k, y) :: ys)
                             | _, _ => None
                             end
            end) kvs)
  | PSet xs => Some (VSet xs)
  | PFrozen xs => Some (VFrozen xs)
  | _ => None
  end.

Local Open Scope string_scope.
Definition ty_name (t : ty) : string :=
  match t with
  | TNone => "NoneType" | TBool => "bool" | TInt => "int" | TFloat => "float" | TStr => "str" | TBytes => "bytes"
  | TList => "list" | TTuple => "tuple" | TDict => "dict" | TSet => "set" | TFrozen => "frozenset"
  end.
Definition pv_of_ty (t : ty) : pv :=
  match t with TNone => PNoneType | _ => PType BUILTINS (s2p (ty_name t)) end.
Definition ALL_TYS : list ty := [TBool; TInt; TFloat; TStr; TBytes; TList; TTuple; TDict; TSet; TFrozen].
Definition ty_of_pv (v : pv) : option ty :=
  match v with
  | PNoneType => Some TNone
  | PType m n => if pystr_eqb m BUILTINS then find (fun t => pystr_eqb n (s2p (ty_name t))) ALL_TYS else None
  | _ => None
  end.

Definition tag_name (t : optag) : string :=
  match t with OEqual => "equal" | OReplace => "replace" | ODelete => "delete" | OInsert => "insert" end.
Definition tag_of (s : pystr) : option optag :=
  find (fun t => pystr_eqb s (s2p (tag_name t))) [OEqual; OReplace; ODelete; OInsert].

(** * dict access *)

Definition skey (s : string) : atom := AStr (s2p s).
Definition lookup_s (k : string) (kvs : list (atom * pv)) : option pv :=
  match find (fun kv => match fst kv with AStr s => pystr_eqb s (s2p k) | _ => false end) kvs with
  | Some kv => Some (snd kv)
  | None => None
  end.
(* the entries of a category; a missing category is an empty one *)
Definition entries_of (k : string) (cats : list (atom * pv)) : option (list (atom * pv)) :=
  match lookup_s k cats with
  | None => Some []
  | Some (PDict es) => Some es
  | Some _ => None
  end.
Definition path_of_key (a : atom) : option path :=
  match a with AStr s => parse s | _ => None end.
Definition opt_path (o : option pv) : option (option path) :=
  match o with
  | None => Some None
  | Some (PAtom (AStr s)) => option_map Some (parse s)
  | Some _ => None
  end.
Definition opt_value (o : option pv) : option (option value) :=
  match o with
  | None => Some None
  | Some x => option_map Some (value_of_pv x)
  end.

(** * payload -> delta *)

Definition val_entry (kv : atom * pv) : option vchange :=
  match path_of_key (fst kv), snd kv with
  | Some p, PDict f =>
      match opt_path (lookup_s "new_path" f), opt_value (lookup_s "old_value" f), lookup_s "new_value" f with
      | Some np, Some ov, Some nv =>
          match value_of_pv nv with Some n => Some (mkVC p np ov n) | None => None end
      | _, _, _ => None
      end
  | _, _ => None
  end.

Definition type_entry (kv : atom * pv) : option tchange :=
  match path_of_key (fst kv), snd kv with
  | Some p, PDict f =>
      match opt_path (lookup_s "new_path" f), lookup_s "old_type" f, lookup_s "new_type" f,
            opt_value (lookup_s "old_value" f), opt_value (lookup_s "new_value" f) with
      | Some np, Some ot, Some nt, Some ov, Some nv =>
          match ty_of_pv ot, ty_of_pv nt with
          | Some t1, Some t2 => Some (mkTC p np t1 t2 ov nv)
          | _, _ => None
          end
      | _, _, _, _, _ => None
      end
  | _, _ => None
  end.

Definition item_entry (kv : atom * pv) : option (path * value) :=
  match path_of_key (fst kv), value_of_pv (snd kv) with
  | Some p, Some v => Some (p, v)
  | _, _ => None
  end.

Definition moved_entry (kv : atom * pv) : option (path * path * value) :=
  match path_of_key (fst kv), snd kv with
  | Some p, PDict f =>
      match lookup_s "new_path" f, lookup_s "value" f with
      | Some (PAtom (AStr s)), Some x =>
          match parse s, value_of_pv x with
          | Some q, Some v => Some (p, q, v)
          | _, _ => None
          end
      | _, _ => None
      end
  | _, _ => None
  end.

(* the members: a set, or - in a JSON-persisted delta - the list of its members (Delta applies
   them with set.union / set.difference, which take any iterable) *)
Definition atoms_of_list (xs : list pv) : option (list atom) :=
  all_some (map (fun x => match x with PAtom a => Some a | _ => None end) xs).
Definition set_entry (kv : atom * pv) : option (path * list atom) :=
  match path_of_key (fst kv), snd kv with
  | Some p, PSet xs => Some (p, xs)
  | Some p, PList xs => match atoms_of_list xs with Some l => Some (p, l) | None => None end
  | _, _ => None
  end.

Definition nat_of_Z (z : Z) : option nat := if Z.ltb z 0 then None else Some (Z.to_nat z).
Definition values_of_list (v : pv) : option (list value) :=
  match v with
  | PList xs => all_some (map value_of_pv xs)
  | _ => None
  end.
Definition opv_of_pv (v : pv) : option opv :=
  match v with
  | POpcode tag i1 i2 j1 j2 old new =>
      match tag_of tag, nat_of_Z i1, nat_of_Z i2, nat_of_Z j1, nat_of_Z j2 with
      | Some t, Some a1, Some a2, Some b1, Some b2 =>
          (* new_values or []  /  old_values or None *)
          match (match new with PAtom ANone => Some [] | _ => values_of_list new end),
                (match old with PAtom ANone => Some None | _ => option_map Some (values_of_list old) end) with
          | Some n, Some o => Some (mkOV t a1 a2 b1 b2 n o)
          | _, _ => None
          end
      | _, _, _, _, _ => None
      end
  | _ => None
  end.
Definition ops_entry (kv : atom * pv) : option (path * list opv) :=
  match path_of_key (fst kv), snd kv with
  | Some p, PList ops => match all_some (map opv_of_pv ops) with Some l => Some (p, l) | None => None end
  | _, _ => None
  end.

Definition CATEGORIES : list string :=
  ["values_changed"; "type_changes"; "dictionary_item_added"; "dictionary_item_removed";
   "iterable_item_added"; "iterable_item_removed"; "iterable_item_moved";
   "set_item_added"; "set_item_removed"; "_iterable_opcodes"].

Definition category {A} (k : string) (f : atom * pv -> option A) (cats : list (atom * pv)) : option (list A) :=
  match entries_of k cats with
  | Some es => all_some (map f es)
  | None => None
  end.

(* Delta(payload, bidirectional=b) as the application model sees it; None: the payload has a
   category or a value outside the ordered-mode vocabulary *)
Definition delta_of_pv (b : bool) (p : pv) : option delta :=
  match p with
  | PDict cats =>
      if forallb (fun kv => match fst kv with
                            | AStr s => existsb (fun c => pystr_eqb s (s2p c)) CATEGORIES
                            | _ => false end) cats then
        match category "values_changed" val_entry cats, category "type_changes" type_entry cats,
              category "dictionary_item_added" item_entry cats, category "dictionary_item_removed" item_entry cats,
              category "iterable_item_added" item_entry cats, category "iterable_item_removed" item_entry cats,
              category "iterable_item_moved" moved_entry cats,
              category "set_item_added" set_entry cats, category "set_item_removed" set_entry cats,
              category "_iterable_opcodes" ops_entry cats with
        | Some v, Some t, Some da, Some dr, Some ia, Some ir, Some mv, Some sa, Some sr, Some ops =>
            Some (mkDelta v t da dr ia ir mv sa sr ops b)
        | _, _, _, _, _, _, _, _, _, _ => None
        end
      else None
  | _ => None
  end.

(** * delta -> payload (what DeltaResult / _to_delta_dict build; empty categories are removed) *)

Definition pkey_s (p : path) : atom := AStr (render p).
Definition opt_field (k : string) (o : option pv) : list (atom * pv) :=
  match o with Some x => [(skey k, x)] | None => [] end.

Definition pv_of_vchange (c : vchange) : atom * pv :=
  (pkey_s (vc_path c),
   PDict ((skey "new_value", of_value (vc_new c))
          :: opt_field "old_value" (option_map of_value (vc_old c))
          ++ opt_field "new_path" (option_map (fun q => PAtom (AStr (render q))) (vc_new_path c)))%list).
Definition pv_of_tchange (c : tchange) : atom * pv :=
  (pkey_s (tc_path c),
   PDict ((skey "old_type", pv_of_ty (tc_old_ty c)) :: (skey "new_type", pv_of_ty (tc_new_ty c))
          :: opt_field "new_path" (option_map (fun q => PAtom (AStr (render q))) (tc_new_path c))
          ++ opt_field "old_value" (option_map of_value (tc_old c))
          ++ opt_field "new_value" (option_map of_value (tc_new c)))%list).
Definition pv_of_item (pvv : path * value) : atom * pv := (pkey_s (fst pvv), of_value (snd pvv)).
Definition pv_of_moved (m : path * path * value) : atom * pv :=
  (pkey_s (fst (fst m)),
   PDict [(skey "new_path", PAtom (AStr (render (snd (fst m))))); (skey "value", of_value (snd m))]).
Definition pv_of_setitems (pa : path * list atom) : atom * pv := (pkey_s (fst pa), PSet (snd pa)).
Definition pv_of_opv (o : opv) : pv :=
  POpcode (s2p (tag_name (ov_tag o))) (Z.of_nat (ov_i1 o)) (Z.of_nat (ov_i2 o)) (Z.of_nat (ov_j1 o)) (Z.of_nat (ov_j2 o))
          (match ov_old o with Some l => PList (map of_value l) | None => PAtom ANone end)
          (PList (map of_value (ov_new o))).
Definition pv_of_ops (po : path * list opv) : atom * pv := (pkey_s (fst po), PList (map pv_of_opv (snd po))).

Definition all_categories (d : delta) : list (atom * pv) :=
  [(skey "type_changes", PDict (map pv_of_tchange (d_type d)));
   (skey "dictionary_item_added", PDict (map pv_of_item (d_dadd d)));
   (skey "dictionary_item_removed", PDict (map pv_of_item (d_drem d)));
   (skey "values_changed", PDict (map pv_of_vchange (d_val d)));
   (skey "iterable_item_added", PDict (map pv_of_item (d_iadd d)));
   (skey "iterable_item_removed", PDict (map pv_of_item (d_irem d)));
   (skey "iterable_item_moved", PDict (map pv_of_moved (d_moved d)));
   (skey "set_item_removed", PDict (map pv_of_setitems (d_srem d)));
   (skey "set_item_added", PDict (map pv_of_setitems (d_sadd d)));
   (skey "_iterable_opcodes", PDict (map pv_of_ops (d_ops d)))].
Definition nonempty_cat (kv : atom * pv) : bool := match snd kv with PDict [] => false | _ => true end.
(* remove_empty_keys *)
Definition pv_of_delta (d : delta) : pv := PDict (filter nonempty_cat (all_categories d)).

(** Pickle/PicklerHookProofs.v - the persistent-id round trip of the class type(None), both directions (C14).

    - the pickler with _RestrictedPickler's hook writes exactly Codec.enc ([pickle_dump_is_enc_prog]), so the
      round-trip theorems of CodecProofs.v are theorems about [pickle_dump];
    - dump-then-load is the identity on every payload that holds the class type(None) ANYWHERE
      ([nonetype_anywhere_roundtrip], [nonetype_at_any_position_roundtrip]: every one-hole context), and the
      class needs nothing from the allow-list ([types_of_plug_nonetype]);
    - a pickler WITHOUT the hook (pickle.Pickler) writes the same opcodes for a payload without that class
      ([plain_pickler_same_dump]) but, for a payload that holds it anywhere, a dump the restricted unpickler
      refuses with ForbiddenModule builtins.type in every process whose allow-list lacks builtins.type
      ([plain_pickler_dump_refused]); hence [plain_pickler_loads_iff].  (Seeded C14-10.) *)
From Coq Require Import List ZArith NArith Bool Arith Lia String.
Import ListNotations.
From DD Require Import Base.PyStr Base.Value Pickle.Vm Pickle.Codec Pickle.PickleProofs Pickle.CodecProofs Pickle.PicklerHook.

(** * generic list facts *)

Lemma flat_map_Forall_ext : forall (A B : Type) (f g : A -> list B) xs,
  Forall (fun x => f x = g x) xs -> flat_map f xs = flat_map g xs.
Proof. intros A B f g xs H. induction H as [|x r Hx Hr IH]; cbn; [reflexivity|]. rewrite Hx, IH. reflexivity. Qed.

Lemma existsb_false_Forall : forall (A : Type) (f : A -> bool) xs, existsb f xs = false -> Forall (fun x => f x = false) xs.
Proof.
  intros A f xs. induction xs as [|x r IH]; cbn; intro H; constructor.
  - apply orb_false_iff in H. apply H.
  - apply IH. apply orb_false_iff in H. apply H.
Qed.

(** * the pickler with a hook that claims at most the class type(None) writes what Codec.enc writes *)

Section Agree.
  Variable hook : pv -> option pystr.
  Hypothesis hook_spec : forall x, hook x = None \/ (x = PNoneType /\ hook x = Some NONE_TYPE_PID).

  (* if the hook does not claim type(None), the payload must not contain it *)
  Definition fine (v : pv) : Prop := hook PNoneType = None -> mentions_nonetype v = false.

  Lemma hook_none : forall v, v <> PNoneType -> hook v = None.
  Proof. intros v Hv. destruct (hook_spec v) as [H | [H _]]; [exact H | contradiction]. Qed.

  Lemma fine_children : forall xs, (hook PNoneType = None -> existsb mentions_nonetype xs = false) -> Forall fine xs.
  Proof.
    intros xs H. apply Forall_forall. intros x Hin Hn. specialize (H Hn).
    apply existsb_false_Forall in H. rewrite Forall_forall in H. apply H. exact Hin.
  Qed.

  Lemma fine_children_kv : forall kvs : list (atom * pv),
    (hook PNoneType = None -> existsb (fun kv => mentions_nonetype (snd kv)) kvs = false) ->
    Forall (fun kv => fine (snd kv)) kvs.
  Proof.
    intros kvs H. apply Forall_forall. intros x Hin Hn. specialize (H Hn).
    apply existsb_false_Forall in H. rewrite Forall_forall in H. apply (H x Hin).
  Qed.

  Lemma Forall_impl2 : forall (A : Type) (P Q R : A -> Prop) xs,
    Forall (fun x => P x -> Q x) xs -> Forall P xs -> (forall x, Q x -> R x) -> Forall R xs.
  Proof.
    intros A P Q R xs H1. induction H1 as [|x r Hx Hr IH]; intros H2 HQR; constructor.
    - apply HQR, Hx. inversion H2; assumption.
    - apply IH; [inversion H2; assumption | exact HQR].
  Qed.

  Lemma enc_with_agrees : forall v, fine v -> enc_with hook v = enc v.
  Proof.
    induction v using pv_ind'; intro Hf.
    - cbn [enc_with]. rewrite hook_none by discriminate. reflexivity.
    - cbn [enc_with]. rewrite hook_none by discriminate. reflexivity.
    - (* list *) cbn [enc_with]. rewrite hook_none by discriminate. rewrite enc_list_eq.
      destruct xs as [|x r]; [reflexivity|].
      rewrite (flat_map_Forall_ext _ _ (enc_with hook) enc (x :: r)); [reflexivity|].
      apply (Forall_impl2 _ _ _ _ _ H (fine_children _ Hf)). auto.
    - (* tuple *) cbn [enc_with]. rewrite hook_none by discriminate. rewrite enc_tuple_eq.
      destruct xs as [|x r]; [reflexivity|].
      rewrite (flat_map_Forall_ext _ _ (enc_with hook) enc (x :: r)); [reflexivity|].
      apply (Forall_impl2 _ _ _ _ _ H (fine_children _ Hf)). auto.
    - (* dict *) cbn [enc_with]. rewrite hook_none by discriminate. rewrite enc_dict_eq.
      destruct kvs as [|kv r]; [reflexivity|].
      rewrite (flat_map_Forall_ext _ _ (fun kv => enc_atom (fst kv) :: enc_with hook (snd kv)) enc_kv (kv :: r)); [reflexivity|].
      apply (Forall_impl2 _ (fun kv => fine (snd kv)) (fun kv => enc_with hook (snd kv) = enc (snd kv)) _ _ H (fine_children_kv _ Hf)).
      intros x E. unfold enc_kv. rewrite E. reflexivity.
    - cbn [enc_with]. rewrite hook_none by discriminate. destruct xs; reflexivity.
    - cbn [enc_with]. rewrite hook_none by discriminate. reflexivity.
    - cbn [enc_with]. rewrite hook_none by discriminate. reflexivity.
    - (* the class type(None) *) cbn [enc_with].
      destruct (hook_spec PNoneType) as [Hn | [_ Hs]].
      + specialize (Hf Hn). discriminate.
      + rewrite Hs. reflexivity.
    - (* Opcode *) cbn [enc_with]. rewrite hook_none by discriminate. cbn [enc].
      rewrite IHv1, IHv2; [reflexivity | |].
      + intro Hn. specialize (Hf Hn). cbn [mentions_nonetype] in Hf. apply orb_false_iff in Hf. apply Hf.
      + intro Hn. specialize (Hf Hn). cbn [mentions_nonetype] in Hf. apply orb_false_iff in Hf. apply Hf.
    - (* SetOrdered *) cbn [enc_with]. rewrite hook_none by discriminate. rewrite enc_setordered_eq.
      destruct xs as [|x r]; [reflexivity|]. cbn [list_prog].
      rewrite (flat_map_Forall_ext _ _ (enc_with hook) enc (x :: r)); [reflexivity|].
      apply (Forall_impl2 _ _ _ _ _ H (fine_children _ Hf)). auto.
  Qed.
End Agree.

Lemma persistent_id_spec : forall x, persistent_id x = None \/ (x = PNoneType /\ persistent_id x = Some NONE_TYPE_PID).
Proof. intros []; cbn; auto. Qed.

(* persistent_id claims the class type(None) and nothing else *)
Lemma persistent_id_only_nonetype : forall v pid, persistent_id v = Some pid <-> v = PNoneType /\ pid = NONE_TYPE_PID.
Proof.
  intros v pid. split.
  - destruct v; cbn; intro H; try discriminate. inversion H. auto.
  - intros [-> ->]. reflexivity.
Qed.

(* what pickle_dump writes is the canonical encoding of Codec.v: every payload *)
Theorem pickle_dump_is_enc_prog : forall v, pickle_dump v = enc_prog v.
Proof.
  intro v. unfold pickle_dump, dump_with, enc_prog.
  rewrite (enc_with_agrees persistent_id persistent_id_spec v); [reflexivity|].
  intro H. discriminate H.
Qed.

(* a pickler without the hook writes the very same opcodes as long as the class type(None) does not occur *)
Theorem plain_pickler_same_dump : forall v, mentions_nonetype v = false -> dump_with no_hook v = pickle_dump v.
Proof.
  intros v H. rewrite pickle_dump_is_enc_prog. unfold dump_with, enc_prog.
  rewrite (enc_with_agrees no_hook (fun _ => or_introl eq_refl) v); [reflexivity|]. intros _. exact H.
Qed.

(** * positions *)

Lemma existsb_mid : forall (A : Type) (f : A -> bool) l x r, f x = true -> existsb f (l ++ x :: r) = true.
Proof. intros A f l x r H. rewrite existsb_app. cbn. rewrite H. apply orb_true_r. Qed.

Lemma mentions_plug : forall c, mentions_nonetype (plug c PNoneType) = true.
Proof.
  induction c; cbn [plug mentions_nonetype]; try reflexivity.
  - apply existsb_mid. exact IHc.
  - apply existsb_mid. exact IHc.
  - apply (existsb_mid _ (fun kv => mentions_nonetype (snd kv))). exact IHc.
  - rewrite IHc. reflexivity.
  - rewrite IHc. apply orb_true_r.
  - apply existsb_mid. exact IHc.
Qed.

Lemma existsb_split : forall (A : Type) (f : A -> bool) xs, existsb f xs = true ->
  exists l x r, xs = (l ++ x :: r)%list /\ f x = true.
Proof.
  intros A f xs H. apply existsb_exists in H. destruct H as [x [Hin Hx]].
  apply in_split in Hin. destruct Hin as [l [r E]]. exists l, x, r. auto.
Qed.

(* conversely: wherever the class occurs, it occurs at a position *)
Lemma mentions_is_plug : forall v, mentions_nonetype v = true -> exists c, v = plug c PNoneType.
Proof.
  induction v using pv_ind'; cbn [mentions_nonetype]; intro Hm; try discriminate.
  - destruct (existsb_split _ _ _ Hm) as [l [x [r [E Hx]]]]. subst xs.
    rewrite Forall_forall in H. destruct (H x (in_elt x l r) Hx) as [c Ec]. exists (CList l c r). cbn. rewrite <- Ec. reflexivity.
  - destruct (existsb_split _ _ _ Hm) as [l [x [r [E Hx]]]]. subst xs.
    rewrite Forall_forall in H. destruct (H x (in_elt x l r) Hx) as [c Ec]. exists (CTuple l c r). cbn. rewrite <- Ec. reflexivity.
  - destruct (existsb_split _ _ _ Hm) as [l [[k x] [r [E Hx]]]]. subst kvs. cbn [snd] in Hx.
    rewrite Forall_forall in H. destruct (H (k, x) (in_elt (k, x) l r) Hx) as [c Ec]. exists (CDict l k c r). cbn. cbn [snd] in Ec. rewrite <- Ec. reflexivity.
  - exists CHole. reflexivity.
  - apply orb_true_iff in Hm. destruct Hm as [Hm | Hm].
    + destruct (IHv1 Hm) as [c Ec]. exists (COld tag i1 i2 j1 j2 c v2). cbn. rewrite <- Ec. reflexivity.
    + destruct (IHv2 Hm) as [c Ec]. exists (CNew tag i1 i2 j1 j2 v1 c). cbn. rewrite <- Ec. reflexivity.
  - destruct (existsb_split _ _ _ Hm) as [l [x [r [E Hx]]]]. subst xs.
    rewrite Forall_forall in H. destruct (H x (in_elt x l r) Hx) as [c Ec]. exists (CSetOrdered l c r). cbn. rewrite <- Ec. reflexivity.
Qed.

(* the class type(None) asks nothing of the allow-list / the process: the class objects a payload needs are
   the same whether a position holds that class or the value None *)
Lemma types_of_plug_nonetype : forall c, types_of (plug c PNoneType) = types_of (plug c (PAtom ANone)).
Proof.
  induction c; cbn [plug types_of]; try reflexivity.
  - rewrite !flat_map_app. cbn [flat_map]. rewrite IHc. reflexivity.
  - rewrite !flat_map_app. cbn [flat_map]. rewrite IHc. reflexivity.
  - rewrite !flat_map_app. cbn [flat_map snd]. rewrite IHc. reflexivity.
  - rewrite IHc. reflexivity.
  - rewrite IHc. reflexivity.
  - rewrite !flat_map_app. cbn [flat_map]. rewrite IHc. reflexivity.
Qed.

(** * dump, then load: the identity, wherever the class sits *)

Theorem nonetype_anywhere_roundtrip : forall w d,
  calls_ok w -> types_ok w d -> wfp d = true -> mentions_nonetype d = true ->
  load w (pickle_dump d) = Some d.
Proof. intros w d Hco Ht Hw _. rewrite pickle_dump_is_enc_prog. apply pickle_roundtrip; assumption. Qed.

Theorem nonetype_at_any_position_roundtrip : forall w (c : pctx),
  calls_ok w -> types_ok w (plug c PNoneType) -> wfp (plug c PNoneType) = true ->
  load w (pickle_dump (plug c PNoneType)) = Some (plug c PNoneType).
Proof. intros w c Hco Ht Hw. apply nonetype_anywhere_roundtrip; try assumption. apply mentions_plug. Qed.

(** * a pickler without the hook: refused *)

Section Plain.
  Variable w : world.
  Hypothesis type_not_allowed : ~ allowed w BUILTINS_ TYPE_.
  Hypothesis Hco : calls_ok w.

  (* [p] runs through, leaving a fresh state *)
  Definition passes (p : list op) : Prop :=
    forall st rest, fresh_state st -> exists st', fresh_state st' /\ run w st (p ++ rest) = run w st' rest.
  (* [p] ends the load with ForbiddenModule builtins.type *)
  Definition refused (p : list op) : Prop :=
    forall st rest, fresh_state st -> fst (run w st (p ++ rest)) = Err (Forbidden BUILTINS_ TYPE_).

  Lemma passes_nil : passes [].
  Proof. intros st rest Hf. exists st. auto. Qed.

  Lemma passes_app : forall p q, passes p -> passes q -> passes (p ++ q).
  Proof.
    intros p q Hp Hq st rest Hf. destruct (Hp st (q ++ rest) Hf) as [s1 [Hf1 E1]].
    destruct (Hq s1 rest Hf1) as [s2 [Hf2 E2]]. exists s2. split; [exact Hf2|]. rewrite <- app_assoc, E1. exact E2.
  Qed.

  Lemma passes_pushes : forall p v, pushes w p v -> passes p.
  Proof.
    intros p v Hp st rest Hf. destruct (Hp st rest Hf) as [o [n' [tr' [Hr [_ [Hle [Hb _]]]]]]].
    exists (st_push st [o] n' tr'). split; [|exact Hr].
    apply fresh_after_push; [exact Hf | exact Hle|]. cbn. rewrite Hb. reflexivity.
  Qed.

  Lemma passes_mark : passes [MARK].
  Proof.
    intros st rest Hf. exists (st_push st [OMark] (next st) (trace st)). split.
    - apply fresh_after_push; [exact Hf | lia | reflexivity].
    - cbn [app]. apply run_step_next. reflexivity.
  Qed.

  Lemma passes_empty_list : passes [EMPTY_LIST].
  Proof.
    intros st rest Hf. exists (st_push st [OList (next st) []] (S (next st)) (trace st)). split.
    - apply fresh_after_push; [exact Hf | lia|]. cbn [forallb ids_below]. rewrite !andb_true_r. apply Nat.ltb_lt. lia.
    - cbn [app]. apply run_step_next. reflexivity.
  Qed.

  Lemma passes_empty_dict : passes [EMPTY_DICT].
  Proof.
    intros st rest Hf. exists (st_push st [ODict (next st) []] (S (next st)) (trace st)). split.
    - apply fresh_after_push; [exact Hf | lia|]. cbn [forallb ids_below]. rewrite !andb_true_r. apply Nat.ltb_lt. lia.
    - cbn [app]. apply run_step_next. reflexivity.
  Qed.

  Lemma passes_atom : forall a, passes [enc_atom a].
  Proof. intro a. apply (passes_pushes _ _ (pushes_atom w a)). Qed.

  Lemma passes_setordered_prefix : find_class w HELPER SETORDERED = FCResolved GType ->
    passes [enc_str HELPER; enc_str SETORDERED; STACK_GLOBAL; EMPTY_TUPLE; NEWOBJ].
  Proof.
    intros Hfc st rest Hf.
    set (j := next st).
    set (tr0 := ECall KNewobj (OGlobal HELPER SETORDERED GType) (OTuple []) :: EResolve HELPER SETORDERED :: trace st).
    set (inst0 := OInst j KNewobj (OGlobal HELPER SETORDERED GType) (OTuple []) []).
    exists (st_push st [inst0] (S j) tr0). split.
    - apply fresh_after_push; [exact Hf | unfold j; lia|]. subst inst0. cbn [forallb ids_below].
      rewrite !andb_true_r. apply Nat.ltb_lt. lia.
    - cbn [app]. rewrite (run_step_next w st _ _ _ (step_enc_str w st HELPER)).
      rewrite (run_step_next w _ _ _ _ (step_enc_str w _ SETORDERED)).
      rewrite (run_step_next w _ STACK_GLOBAL (push (OGlobal HELPER SETORDERED GType) (emit (EResolve HELPER SETORDERED) st))).
      2:{ cbn [step push set_stack stack pop1 is_mark]. unfold do_global. rewrite Hfc. destruct st; reflexivity. }
      rewrite (run_step_next w _ EMPTY_TUPLE _ _ eq_refl).
      apply run_step_next.
      cbn [step push set_stack emit stack pop1 is_mark is_type]. unfold do_call. rewrite (co_setordered w Hco). reflexivity.
  Qed.

  Lemma refused_app_l : forall p q, refused p -> refused (p ++ q).
  Proof. intros p q H st rest Hf. rewrite <- app_assoc. apply H. exact Hf. Qed.

  Lemma refused_after : forall pre p, passes pre -> refused p -> refused (pre ++ p).
  Proof.
    intros pre p Hpre Hp st rest Hf. destruct (Hpre st (p ++ rest) Hf) as [s1 [Hf1 E1]].
    rewrite <- app_assoc, E1. apply Hp. exact Hf1.
  Qed.

  (* the reduction builtins.type(None): the lookup of builtins.type is refused *)
  Lemma refused_reduce : refused reduce_nonetype.
  Proof.
    intros st rest Hf. unfold reduce_nonetype. cbn [app].
    rewrite (run_step_next w st _ _ _ (step_enc_str w st BUILTINS_)).
    rewrite (run_step_next w _ _ _ _ (step_enc_str w _ TYPE_)).
    cbn [run].
    destruct (requested_forbidden_fails w (push (OStr TYPE_) (push (OStr BUILTINS_) st)) STACK_GLOBAL BUILTINS_ TYPE_ eq_refl type_not_allowed)
      as [s [Hs _]].
    rewrite Hs. reflexivity.
  Qed.

  Definition claim (v : pv) : Prop :=
    wfp v = true -> types_ok w v -> mentions_nonetype v = true -> refused (enc_with no_hook v).

  Lemma plain_is_enc : forall v, mentions_nonetype v = false -> enc_with no_hook v = enc v.
  Proof. intros v H. apply (enc_with_agrees no_hook (fun _ => or_introl eq_refl)). intros _. exact H. Qed.

  Lemma passes_clean : forall v, wfp v = true -> types_ok w v -> mentions_nonetype v = false -> passes (enc_with no_hook v).
  Proof. intros v Hw Ht Hm. rewrite (plain_is_enc v Hm). apply (passes_pushes _ v). apply enc_pushes; assumption. Qed.

  (* the leftmost child that holds the class ends the load; its left siblings run through *)
  Lemma refused_children : forall xs, Forall claim xs ->
    forallb wfp xs = true -> (forall m n, In (m, n) (flat_map types_of xs) -> find_class w m n = FCResolved GType) ->
    existsb mentions_nonetype xs = true -> refused (flat_map (enc_with no_hook) xs).
  Proof.
    intros xs H. induction H as [|x r Hx Hr IH]; intros Hw Ht Hm; [discriminate|].
    cbn [forallb] in Hw. apply andb_true_iff in Hw. destruct Hw as [Hw1 Hw2].
    assert (Ht1 : types_ok w x). { intros m n Hin. apply Ht. cbn. apply in_or_app. left. exact Hin. }
    assert (Ht2 : forall m n, In (m, n) (flat_map types_of r) -> find_class w m n = FCResolved GType).
    { intros m n Hin. apply Ht. cbn. apply in_or_app. right. exact Hin. }
    cbn [flat_map]. cbn [existsb] in Hm. destruct (mentions_nonetype x) eqn:Ex.
    - apply refused_app_l. apply Hx; assumption.
    - apply refused_after; [apply passes_clean; assumption|]. apply IH; assumption.
  Qed.

  Lemma refused_children_kv : forall kvs : list (atom * pv), Forall (fun kv => claim (snd kv)) kvs ->
    forallb (fun kv => wfp (snd kv)) kvs = true ->
    (forall m n, In (m, n) (flat_map (fun kv => types_of (snd kv)) kvs) -> find_class w m n = FCResolved GType) ->
    existsb (fun kv => mentions_nonetype (snd kv)) kvs = true ->
    refused (flat_map (fun kv => enc_atom (fst kv) :: enc_with no_hook (snd kv)) kvs).
  Proof.
    intros kvs H. induction H as [|[k x] r Hx Hr IH]; intros Hw Ht Hm; [discriminate|].
    cbn [forallb snd] in Hw. apply andb_true_iff in Hw. destruct Hw as [Hw1 Hw2]. cbn [snd] in Hx.
    assert (Ht1 : types_ok w x). { intros m n Hin. apply Ht. cbn. apply in_or_app. left. exact Hin. }
    assert (Ht2 : forall m n, In (m, n) (flat_map (fun kv => types_of (snd kv)) r) -> find_class w m n = FCResolved GType).
    { intros m n Hin. apply Ht. cbn. apply in_or_app. right. exact Hin. }
    cbn [flat_map fst snd]. cbn [existsb snd] in Hm.
    change (enc_atom k :: enc_with no_hook x ++ flat_map (fun kv => enc_atom (fst kv) :: enc_with no_hook (snd kv)) r)%list
      with ([enc_atom k] ++ (enc_with no_hook x ++ flat_map (fun kv => enc_atom (fst kv) :: enc_with no_hook (snd kv)) r))%list.
    apply (refused_after [enc_atom k] _ (passes_atom k)).
    destruct (mentions_nonetype x) eqn:Ex.
    - apply refused_app_l. apply Hx; assumption.
    - apply refused_after; [apply passes_clean; assumption|]. apply IH; assumption.
  Qed.

  Lemma existsb_nonempty : forall (A : Type) (f : A -> bool) xs, existsb f xs = true -> xs <> [].
  Proof. intros A f [|x r] H; [discriminate H | discriminate]. Qed.

  Theorem plain_refused : forall v, claim v.
  Proof.
    induction v using pv_ind'; intros Hw Ht Hm; cbn [mentions_nonetype] in Hm; try discriminate.
    - (* list *) destruct xs as [|x r]; [discriminate|].
      change (enc_with no_hook (PList (x :: r)))
        with ([EMPTY_LIST] ++ [MARK] ++ flat_map (enc_with no_hook) (x :: r) ++ [APPENDS])%list.
      apply refused_after; [apply passes_empty_list|]. apply refused_after; [apply passes_mark|].
      apply refused_app_l. apply refused_children; assumption.
    - (* tuple *) destruct xs as [|x r]; [discriminate|].
      change (enc_with no_hook (PTuple (x :: r))) with ([MARK] ++ flat_map (enc_with no_hook) (x :: r) ++ [TUPLE])%list.
      apply refused_after; [apply passes_mark|]. apply refused_app_l. apply refused_children; assumption.
    - (* dict *) destruct kvs as [|kv r]; [discriminate|].
      cbn [wfp] in Hw. apply andb_true_iff in Hw. destruct Hw as [_ Hw].
      change (enc_with no_hook (PDict (kv :: r)))
        with ([EMPTY_DICT] ++ [MARK] ++ flat_map (fun kv => enc_atom (fst kv) :: enc_with no_hook (snd kv)) (kv :: r) ++ [SETITEMS])%list.
      apply refused_after; [apply passes_empty_dict|]. apply refused_after; [apply passes_mark|].
      apply refused_app_l. apply refused_children_kv; assumption.
    - (* the class itself *) apply refused_reduce.
    - (* Opcode *) cbn [wfp] in Hw. apply andb_true_iff in Hw. destruct Hw as [Hw1 Hw2].
      assert (Ht1 : types_ok w v1). { intros m n Hin. apply Ht. cbn. right. apply in_or_app. left. exact Hin. }
      assert (Ht2 : types_ok w v2). { intros m n Hin. apply Ht. cbn. right. apply in_or_app. right. exact Hin. }
      change (enc_with no_hook (POpcode tag i1 i2 j1 j2 v1 v2))
        with (([enc_str HELPER; enc_str OPCODE; STACK_GLOBAL] ++ [MARK] ++ [enc_atom (AStr tag)] ++ [enc_atom (AInt i1)]
               ++ [enc_atom (AInt i2)] ++ [enc_atom (AInt j1)] ++ [enc_atom (AInt j2)])
              ++ enc_with no_hook v1 ++ enc_with no_hook v2 ++ [TUPLE; NEWOBJ])%list.
      apply refused_after.
      { apply passes_app; [apply (passes_pushes _ _ (pushes_type w HELPER OPCODE (Ht _ _ (or_introl eq_refl))))|].
        apply passes_app; [apply passes_mark|].
        repeat (apply passes_app; [apply passes_atom|]). apply passes_atom. }
      destruct (mentions_nonetype v1) eqn:E1.
      + apply refused_app_l. apply IHv1; assumption.
      + apply refused_after; [apply passes_clean; assumption|]. apply refused_app_l. apply IHv2; assumption.
    - (* SetOrdered *) destruct xs as [|x r]; [discriminate|].
      change (enc_with no_hook (PSetOrdered (x :: r)))
        with ([enc_str HELPER; enc_str SETORDERED; STACK_GLOBAL; EMPTY_TUPLE; NEWOBJ]
              ++ ([EMPTY_LIST] ++ [MARK] ++ flat_map (enc_with no_hook) (x :: r) ++ [APPENDS]) ++ [BUILD])%list.
      apply refused_after; [apply passes_setordered_prefix; apply Ht; left; reflexivity|].
      apply refused_app_l. apply refused_after; [apply passes_empty_list|]. apply refused_after; [apply passes_mark|].
      apply refused_app_l. apply refused_children; try assumption.
      intros m n Hin. apply Ht. cbn. right. exact Hin.
  Qed.

  (* the dump of a pickler without the hook, of a payload that holds the class type(None) anywhere: ForbiddenModule *)
  Theorem plain_pickler_dump_refused : forall d,
    types_ok w d -> wfp d = true -> mentions_nonetype d = true ->
    fst (vm_run w (dump_with no_hook d)) = Err (Forbidden BUILTINS_ TYPE_) /\ load w (dump_with no_hook d) = None.
  Proof.
    intros d Ht Hw Hm.
    assert (E : fst (vm_run w (dump_with no_hook d)) = Err (Forbidden BUILTINS_ TYPE_)).
    { unfold dump_with, vm_run.
      rewrite (run_step_next w (init w) (PROTO 4) (init w)) by reflexivity.
      rewrite (run_step_next w (init w) (FRAME 0) (init w)) by reflexivity.
      apply (plain_refused d Hw Ht Hm). apply init_fresh. }
    split; [exact E|]. unfold load. rewrite E. reflexivity.
  Qed.

  (* so: the hook-less pickler's dump loads (to the payload) exactly when the class does not occur *)
  Theorem plain_pickler_loads_iff : forall d, types_ok w d -> wfp d = true ->
    (load w (dump_with no_hook d) = Some d <-> mentions_nonetype d = false).
  Proof.
    intros d Ht Hw. split.
    - intro H. destruct (mentions_nonetype d) eqn:E; [|reflexivity].
      destruct (plain_pickler_dump_refused d Ht Hw E) as [_ Hn]. rewrite Hn in H. discriminate.
    - intro H. rewrite (plain_pickler_same_dump d H), pickle_dump_is_enc_prog. apply pickle_roundtrip; assumption.
  Qed.
End Plain.

(** * the default process *)

(* builtins.type is not on the built-in allow-list: the hypothesis of the three theorems above holds of the default process *)
Lemma default_forbids_type : ~ allowed default_world BUILTINS_ TYPE_.
Proof. apply find_class_forbidden_iff. vm_compute. reflexivity. Qed.

Local Open Scope string_scope.
(* a delta as seeded C14-10 needs it: the class type(None) as a plain VALUE of an added dictionary item, inside an added
   list item, as new_value of a changed value, nested in a tuple - and no type_changes report *)
Definition schema_payload : pv :=
  PDict [(AStr (s2p "dictionary_item_added"),
          PDict [(AStr (s2p "root['nickname']"), PNoneType);
                 (AStr (s2p "root['fields']"), PDict [(AStr (s2p "nickname"), PTuple [PType BUILTINS_ (s2p "str"); PNoneType]);
                                                      (AStr (s2p "default"), PAtom ANone)])]);
         (AStr (s2p "iterable_item_added"), PDict [(AStr (s2p "root['accepted'][1]"), PList [PNoneType; PAtom (AInt 1)])]);
         (AStr (s2p "values_changed"),
          PDict [(AStr (s2p "root['vc']"), PDict [(AStr (s2p "new_value"), PNoneType); (AStr (s2p "old_value"), PType BUILTINS_ (s2p "str"))])])].
Local Close Scope string_scope.

Example schema_payload_ok :
  wfp schema_payload = true /\ types_default_b schema_payload = true /\ mentions_nonetype schema_payload = true.
Proof. vm_compute. auto. Qed.

(* both halves on it, by evaluation of the machine *)
Example schema_payload_roundtrip : load default_world (pickle_dump schema_payload) = Some schema_payload.
Proof. vm_compute. reflexivity. Qed.
Example schema_payload_plain_refused :
  fst (vm_run default_world (dump_with no_hook schema_payload)) = Err (Forbidden BUILTINS_ TYPE_).
Proof. vm_compute. reflexivity. Qed.

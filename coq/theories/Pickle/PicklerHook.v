(** Pickle/PicklerHook.v - the PICKLER side of the persistent-id protocol (C14).

    [persistent_id]   _RestrictedPickler.persistent_id: "<<NoneType>>" for the class
                      type(None), None (= write the object the ordinary way) for
                      everything else.
    [enc_with hook]   the pickler with its hook explicit: as CPython's save() does, the
                      hook is asked first for EVERY object; an object nobody claims is
                      written as Codec.enc writes it - except the class type(None), which
                      a pickler without the hook writes by reduction:
                      save_type -> save_reduce(type, (None,)), i.e. the global
                      builtins.type applied to (None,)  [reduce_nonetype].
    [dump_with hook]  protocol 4, one frame (as Codec.enc_prog).
    [no_hook]         pickle.Pickler: nothing is claimed.
    [mentions_nonetype], [pctx] / [plug]   the class type(None) occurs somewhere in a payload;
                      payloads with a hole (every position a value can sit in).
    Definitions only. *)
From Coq Require Import List ZArith NArith Bool Arith String.
Import ListNotations.
From DD Require Import Base.Sx Base.PyStr Base.Value Pickle.Vm Pickle.Codec.

Definition persistent_id (v : pv) : option pystr :=
  match v with PNoneType => Some NONE_TYPE_PID | _ => None end.

Definition no_hook (v : pv) : option pystr := None.

Local Open Scope string_scope.
Definition TYPE_ : pystr := s2p "type".
Local Close Scope string_scope.

(* copyreg-free reduction CPython's pickler uses for the three singleton classes:
   type(None) is written as  builtins.type(None) *)
Definition reduce_nonetype : list op :=
  [enc_str BUILTINS_; enc_str TYPE_; STACK_GLOBAL; NONE; TUPLE1; REDUCE].

Fixpoint enc_with (hook : pv -> option pystr) (v : pv) {struct v} : list op :=
  match hook v with
  | Some pid => [enc_str pid; BINPERSID]
  | None =>
    match v with
    | PAtom a => [enc_atom a]
    | PFloatBits b => [BINFLOAT (FBits b)]
    | PList [] => [EMPTY_LIST]
    | PList xs => (EMPTY_LIST :: MARK :: flat_map (enc_with hook) xs ++ [APPENDS])%list
    | PTuple [] => [EMPTY_TUPLE]
    | PTuple xs => (MARK :: flat_map (enc_with hook) xs ++ [TUPLE])%list
    | PDict [] => [EMPTY_DICT]
    | PDict kvs =>
        (EMPTY_DICT :: MARK :: flat_map (fun kv => enc_atom (fst kv) :: enc_with hook (snd kv)) kvs ++ [SETITEMS])%list
    | PSet [] => [EMPTY_SET]
    | PSet xs => (EMPTY_SET :: MARK :: map enc_atom xs ++ [ADDITEMS])%list
    | PFrozen xs => (MARK :: map enc_atom xs ++ [FROZENSET])%list
    | PType m n => [enc_str m; enc_str n; STACK_GLOBAL]
    | PNoneType => reduce_nonetype
    | POpcode tag i1 i2 j1 j2 old new =>
        ([enc_str HELPER; enc_str OPCODE; STACK_GLOBAL; MARK;
          enc_str tag; enc_int i1; enc_int i2; enc_int j1; enc_int j2]
         ++ enc_with hook old ++ enc_with hook new ++ [TUPLE; NEWOBJ])%list
    | PSetOrdered xs =>
        ([enc_str HELPER; enc_str SETORDERED; STACK_GLOBAL; EMPTY_TUPLE; NEWOBJ]
         ++ match xs with
            | [] => [EMPTY_LIST]
            | _ => (EMPTY_LIST :: MARK :: flat_map (enc_with hook) xs ++ [APPENDS])%list
            end
         ++ [BUILD])%list
    end
  end.

Definition dump_with (hook : pv -> option pystr) (v : pv) : list op :=
  (PROTO 4 :: FRAME 0 :: enc_with hook v ++ [STOP])%list.

(* pickle_dump = the pickler with _RestrictedPickler's hook *)
Definition pickle_dump (v : pv) : list op := dump_with persistent_id v.

(** * where the class type(None) sits *)

Fixpoint mentions_nonetype (v : pv) {struct v} : bool :=
  match v with
  | PNoneType => true
  | PList xs | PTuple xs | PSetOrdered xs => existsb mentions_nonetype xs
  | PDict kvs => existsb (fun kv => mentions_nonetype (snd kv)) kvs
  | POpcode _ _ _ _ _ old new => mentions_nonetype old || mentions_nonetype new
  | PAtom _ | PFloatBits _ | PSet _ | PFrozen _ | PType _ _ => false
  end.

(* a payload with one hole: every position of a payload at which a value (not a dict key,
   not a set member: those are atoms) can stand *)
Inductive pctx :=
| CHole
| CList (l : list pv) (c : pctx) (r : list pv)
| CTuple (l : list pv) (c : pctx) (r : list pv)
| CDict (l : list (atom * pv)) (k : atom) (c : pctx) (r : list (atom * pv))
| COld (tag : pystr) (i1 i2 j1 j2 : Z) (c : pctx) (new : pv)
| CNew (tag : pystr) (i1 i2 j1 j2 : Z) (old : pv) (c : pctx)
| CSetOrdered (l : list pv) (c : pctx) (r : list pv).

Fixpoint plug (c : pctx) (x : pv) : pv :=
  match c with
  | CHole => x
  | CList l c r => PList (l ++ plug c x :: r)
  | CTuple l c r => PTuple (l ++ plug c x :: r)
  | CDict l k c r => PDict (l ++ (k, plug c x) :: r)
  | COld tag i1 i2 j1 j2 c new => POpcode tag i1 i2 j1 j2 (plug c x) new
  | CNew tag i1 i2 j1 j2 old c => POpcode tag i1 i2 j1 j2 old (plug c x)
  | CSetOrdered l c r => PSetOrdered (l ++ plug c x :: r)
  end.

(** Pickle/DumpOkProofs.v - the hypothesis [dump_ok] of the byte-level C14 theorems in closed form:
    conditions on the leaves of the payload (code points, LONG1-sized ints, doubles, 32-bit lengths). *)
From Coq Require Import List ZArith NArith Bool Arith Lia String.
Import ListNotations.
From DD Require Import Base.PyStr Base.Value Pickle.Vm Pickle.Codec Pickle.PickleProofs Pickle.CodecProofs Pickle.Bytes Pickle.BytesProofs.
Local Open Scope N_scope.
(** * [dump_ok] in closed form: conditions on the leaves of the payload *)

Definition int_ok (z : Z) : bool := lenlt (enc_long z) 256.                  (* fits LONG1: |z| < 2^2039 *)
Definition text_ok (s : pystr) : bool := str_ok s && lenlt (utf8_enc s) (2 ^ 32).
Definition atom_bytes_ok (a : atom) : bool :=
  match a with
  | AInt z => int_ok z
  | AHalf t => (Z.abs t <? 2 ^ 53)%Z
  | AStr s => text_ok s
  | ABytes s => lenlt s (2 ^ 32)
  | _ => true
  end.
Fixpoint leaves_ok (v : pv) {struct v} : bool :=
  match v with
  | PAtom a => atom_bytes_ok a
  | PFloatBits b => fl_ok (FBits b)
  | PList xs | PTuple xs | PSetOrdered xs => forallb leaves_ok xs
  | PDict kvs => forallb (fun kv => atom_bytes_ok (fst kv) && leaves_ok (snd kv)) kvs
  | PSet xs | PFrozen xs => forallb atom_bytes_ok xs
  | PType m n => text_ok m && text_ok n
  | PNoneType => true
  | POpcode tag i1 i2 j1 j2 old new =>
      text_ok tag && int_ok i1 && int_ok i2 && int_ok j1 && int_ok j2 && leaves_ok old && leaves_ok new
  end.

Lemma enc_int_ok : forall z, int_ok z = true -> enc_ok (enc_int z) = true.
Proof.
  intros z H. unfold enc_int.
  destruct (Z.leb 0 z && Z.ltb z 256)%bool eqn:E1; [exact E1|].
  destruct (Z.leb 0 z && Z.ltb z 65536)%bool eqn:E2; [exact E2|].
  destruct (Z.leb (-2147483648) z && Z.ltb z 2147483648)%bool eqn:E3; [exact E3 | exact H].
Qed.

(* a string of fewer than 64 code points has fewer than 256 UTF-8 bytes *)
Lemma utf8_enc_cp_len : forall c, (List.length (utf8_enc_cp c) <= 4)%nat.
Proof. intro c. unfold utf8_enc_cp. destruct (c <? 128); [cbn; lia|]. destruct (c <? 2048); [cbn; lia|]. destruct (c <? 65536); cbn; lia. Qed.
Lemma utf8_enc_len : forall s, (List.length (utf8_enc s) <= 4 * List.length s)%nat.
Proof.
  induction s as [|c r IH]; [cbn; lia|]. unfold utf8_enc in *. cbn [flat_map List.length]. rewrite app_length.
  pose proof (utf8_enc_cp_len c). lia.
Qed.
Lemma enc_str_ok : forall s, text_ok s = true -> enc_ok (enc_str s) = true.
Proof.
  intros s H. unfold text_ok in H. apply andb_true_iff in H. destruct H as [Hs Hl]. unfold enc_str.
  destruct (Nat.ltb_spec (List.length s) 64) as [Hlt|Hge]; cbn [enc_ok]; rewrite Hs; cbn [andb]; [|exact Hl].
  apply N.ltb_lt. unfold len. pose proof (utf8_enc_len s). lia.
Qed.
Lemma enc_bytes_ok : forall s, lenlt s (2 ^ 32) = true -> enc_ok (enc_bytes s) = true.
Proof.
  intros s H. unfold enc_bytes. destruct (Nat.ltb_spec (List.length s) 256) as [Hlt|Hge]; cbn [enc_ok]; [|exact H].
  apply N.ltb_lt. unfold len. lia.
Qed.
Lemma enc_atom_ok : forall a, atom_bytes_ok a = true -> enc_ok (enc_atom a) = true.
Proof.
  intros [| [] | z | t | s | s] H; cbn [enc_atom atom_bytes_ok] in *; try reflexivity.
  - apply enc_int_ok. exact H.
  - cbn [enc_ok]. apply fl_ok_half. apply Z.ltb_lt. exact H.
  - apply enc_str_ok. exact H.
  - apply enc_bytes_ok. exact H.
Qed.

Lemma flat_enc_ok : forall (A : Type) (f : A -> list op) xs,
  Forall (fun x => forallb enc_ok (f x) = true) xs -> forallb enc_ok (flat_map f xs) = true.
Proof. intros A f xs H. induction H as [|x r Hx Hr IH]; [reflexivity|]. cbn [flat_map]. rewrite forallb_app, Hx, IH. reflexivity. Qed.
Lemma map_atom_enc_ok : forall xs, forallb atom_bytes_ok xs = true -> forallb enc_ok (map enc_atom xs) = true.
Proof.
  induction xs as [|a r IH]; intro H; [reflexivity|]. cbn [map forallb] in *. apply andb_true_iff in H. destruct H as [Ha Hr].
  rewrite (enc_atom_ok a Ha), (IH Hr). reflexivity.
Qed.
Lemma text_ok_const : forall s, text_ok (s2p s) = true -> enc_ok (enc_str (s2p s)) = true.
Proof. intros. apply enc_str_ok. assumption. Qed.

Theorem leaves_ok_enc_ok : forall v, leaves_ok v = true -> forallb enc_ok (enc v) = true.
Proof.
  induction v using pv_ind'; intro Hl.
  - cbn [enc forallb]. cbn [leaves_ok] in Hl. rewrite (enc_atom_ok a Hl). reflexivity.
  - cbn [enc forallb enc_ok]. cbn [leaves_ok] in Hl. rewrite Hl. reflexivity.
  - rewrite enc_list_eq. destruct xs as [|x0 r0]; [reflexivity|]. cbn [forallb enc_ok andb]. rewrite forallb_app. cbn [forallb enc_ok andb].
    rewrite andb_true_r. apply flat_enc_ok. cbn [leaves_ok] in Hl.
    rewrite Forall_forall in *. intros x Hx. apply (H x Hx). rewrite forallb_forall in Hl. apply Hl. exact Hx.
  - rewrite enc_tuple_eq. destruct xs as [|x0 r0]; [reflexivity|]. cbn [forallb enc_ok andb]. rewrite forallb_app. cbn [forallb enc_ok andb].
    rewrite andb_true_r. apply flat_enc_ok. cbn [leaves_ok] in Hl.
    rewrite Forall_forall in *. intros x Hx. apply (H x Hx). rewrite forallb_forall in Hl. apply Hl. exact Hx.
  - rewrite enc_dict_eq. destruct kvs as [|kv0 r0]; [reflexivity|]. cbn [forallb enc_ok andb]. rewrite forallb_app. cbn [forallb enc_ok andb].
    rewrite andb_true_r. apply flat_enc_ok. cbn [leaves_ok] in Hl.
    rewrite Forall_forall in *. intros kv Hkv. rewrite forallb_forall in Hl. specialize (Hl kv Hkv). apply andb_true_iff in Hl. destruct Hl as [Hk Hv].
    unfold enc_kv. cbn [forallb]. rewrite (enc_atom_ok _ Hk). apply (H kv Hkv Hv).
  - cbn [enc]. cbn [leaves_ok] in Hl. destruct xs as [|x0 r0]; [reflexivity|]. cbn [forallb enc_ok andb]. rewrite forallb_app. cbn [forallb enc_ok andb].
    rewrite andb_true_r. apply map_atom_enc_ok. exact Hl.
  - cbn [enc]. cbn [leaves_ok] in Hl. cbn [forallb enc_ok andb]. rewrite forallb_app. cbn [forallb enc_ok andb].
    rewrite andb_true_r. apply map_atom_enc_ok. exact Hl.
  - cbn [enc forallb]. cbn [leaves_ok] in Hl. apply andb_true_iff in Hl. destruct Hl as [Hm Hn].
    rewrite (enc_str_ok m Hm), (enc_str_ok n Hn). reflexivity.
  - cbn [enc forallb]. rewrite enc_str_ok by (vm_compute; reflexivity). reflexivity.
  - cbn [enc]. cbn [leaves_ok] in Hl.
    repeat match goal with Hx : (_ && _)%bool = true |- _ => apply andb_true_iff in Hx; destruct Hx end.
    cbn [app forallb]. rewrite !forallb_app. cbn [forallb enc_ok andb].
    rewrite !enc_str_ok by (first [assumption | vm_compute; reflexivity]).
    rewrite !enc_int_ok by assumption. rewrite IHv1, IHv2 by assumption. reflexivity.
  - rewrite enc_setordered_eq. cbn [app forallb]. rewrite !enc_str_ok by (vm_compute; reflexivity). cbn [enc_ok andb].
    rewrite forallb_app. cbn [forallb enc_ok andb]. rewrite andb_true_r.
    unfold list_prog. cbn [leaves_ok] in Hl. destruct xs as [|x0 r0]; [reflexivity|]. cbn [forallb enc_ok andb]. rewrite forallb_app. cbn [forallb enc_ok andb].
    rewrite andb_true_r. apply flat_enc_ok.
    rewrite Forall_forall in *. intros x Hx. apply (H x Hx). rewrite forallb_forall in Hl. apply Hl. exact Hx.
Qed.

(* dump_ok from conditions on the leaves and the total length *)
Theorem dump_ok_closed_form : forall v, leaves_ok v = true -> (len (dump_body v) <? 2 ^ 63) = true -> dump_ok v = true.
Proof. intros v H1 H2. unfold dump_ok. rewrite (leaves_ok_enc_ok v H1), H2. reflexivity. Qed.

Example leaves_ok_sample : leaves_ok sample_payload = true.
Proof. vm_compute. reflexivity. Qed.

(** Pickle/Codec.v - the payload of a delta and its two serialisations.

    [pv]       the vocabulary of Delta.diff (the dict that dumps()/dump()
               persist): the shared value universe of Base/Value.v plus type
               objects, the NoneType marker, Opcode records and SetOrdered.
    [enc]      one canonical pickle encoding (protocol-4 opcodes, no memo).
    [decode]   reading a machine object (Vm.obj) back as a payload: identities
               erased, Opcode / SetOrdered constructor calls interpreted.
    [to_json] / [json_load]   deepdiff's JSON path at the level of JSON values:
               json_dumps' default-convertor table and key coercion, then
               json_loads' object_hook (TYPE_STR_TO_TYPE) and the wrapper in
               Delta.__init__ that rebuilds Opcode records with Opcode-star-star-op.
    Definitions only. *)
From Coq Require Import List ZArith NArith Bool Arith String.
Import ListNotations.
From DD Require Import Base.Sx Base.PyStr Base.Value Pickle.Vm.

Inductive pv :=
| PAtom (a : atom)
| PFloatBits (b : Z)                       (* a float outside the half-integers: opaque *)
| PList (xs : list pv)
| PTuple (xs : list pv)
| PDict (kvs : list (atom * pv))           (* insertion order *)
| PSet (xs : list atom)
| PFrozen (xs : list atom)
| PType (m n : pystr)                      (* a class object, by the name the pickler writes *)
| PNoneType                                (* type(None): travels as the persistent id *)
| POpcode (tag : pystr) (i1 i2 j1 j2 : Z) (old new : pv)
| PSetOrdered (xs : list pv).

Fixpoint of_value (v : value) : pv :=
  match v with
  | VAtom a => PAtom a
  | VList xs => PList (map of_value xs)
  | VTuple xs => PTuple (map of_value xs)
  | VDict kvs => PDict (map (fun kv => (fst kv, of_value (snd kv))) kvs)
  | VSet xs => PSet xs
  | VFrozen xs => PFrozen xs
  end.

(** * machine objects for atoms *)

Definition obj_of_atom (a : atom) : obj :=
  match a with
  | ANone => ONone
  | ABool b => OBool b
  | AInt z => OInt z
  | AHalf t => OFloat (FHalf t)
  | AStr s => OStr s
  | ABytes s => OBytes s
  end.
Definition atom_of_obj (o : obj) : option atom :=
  match o with
  | ONone => Some ANone
  | OBool b => Some (ABool b)
  | OInt z => Some (AInt z)
  | OFloat (FHalf t) => Some (AHalf t)
  | OStr s => Some (AStr s)
  | OBytes s => Some (ABytes s)
  | _ => None
  end.

(** * the canonical encoder *)

Definition enc_int (z : Z) : op :=
  if (Z.leb 0 z && Z.ltb z 256)%bool then BININT1 z
  else if (Z.leb 0 z && Z.ltb z 65536)%bool then BININT2 z
  else if (Z.leb (-2147483648) z && Z.ltb z 2147483648)%bool then BININT z
  else LONG1 z.
Definition enc_str (s : pystr) : op :=
  if Nat.ltb (List.length s) 64 then SHORT_BINUNICODE s else BINUNICODE s.
Definition enc_bytes (s : pystr) : op :=
  if Nat.ltb (List.length s) 256 then SHORT_BINBYTES s else BINBYTES s.
Definition enc_atom (a : atom) : op :=
  match a with
  | ANone => NONE
  | ABool true => NEWTRUE
  | ABool false => NEWFALSE
  | AInt z => enc_int z
  | AHalf t => BINFLOAT (FHalf t)
  | AStr s => enc_str s
  | ABytes s => enc_bytes s
  end.

Local Open Scope string_scope.
Definition HELPER : pystr := s2p "deepdiff.helper".
Definition OPCODE : pystr := s2p "Opcode".
Definition SETORDERED : pystr := s2p "SetOrdered".
Definition BUILTINS_ : pystr := s2p "builtins".
Definition SET_ : pystr := s2p "set".
Definition FROZENSET_ : pystr := s2p "frozenset".
Local Close Scope string_scope.

Fixpoint enc (v : pv) {struct v} : list op :=
  let encs := fix encs (xs : list pv) : list op :=
                match xs with [] => [] | x :: r => (enc x ++ encs r)%list end in
  match v with
  | PAtom a => [enc_atom a]
  | PFloatBits b => [BINFLOAT (FBits b)]
  | PList [] => [EMPTY_LIST]
  | PList xs => (EMPTY_LIST :: MARK :: encs xs ++ [APPENDS])%list
  | PTuple [] => [EMPTY_TUPLE]
  | PTuple xs => (MARK :: encs xs ++ [TUPLE])%list
  | PDict [] => [EMPTY_DICT]
  | PDict kvs =>
      (EMPTY_DICT :: MARK ::
       (fix enckv (kvs : list (atom * pv)) : list op :=
          match kvs with [] => [] | (k, x) :: r => (enc_atom k :: enc x ++ enckv r)%list end) kvs
       ++ [SETITEMS])%list
  | PSet [] => [EMPTY_SET]
  | PSet xs => (EMPTY_SET :: MARK :: map enc_atom xs ++ [ADDITEMS])%list
  | PFrozen xs => (MARK :: map enc_atom xs ++ [FROZENSET])%list
  | PType m n => [enc_str m; enc_str n; STACK_GLOBAL]
  | PNoneType => [enc_str NONE_TYPE_PID; BINPERSID]
  | POpcode tag i1 i2 j1 j2 old new =>
      ([enc_str HELPER; enc_str OPCODE; STACK_GLOBAL; MARK;
        enc_str tag; enc_int i1; enc_int i2; enc_int j1; enc_int j2]
       ++ enc old ++ enc new ++ [TUPLE; NEWOBJ])%list
  | PSetOrdered xs =>
      ([enc_str HELPER; enc_str SETORDERED; STACK_GLOBAL; EMPTY_TUPLE; NEWOBJ]
       ++ match xs with
          | [] => [EMPTY_LIST]
          | _ => (EMPTY_LIST :: MARK :: encs xs ++ [APPENDS])%list
          end
       ++ [BUILD])%list
  end.

(* what pickle_dump writes, in canonical form: protocol 4, one frame *)
Definition enc_prog (v : pv) : list op := (PROTO 4 :: FRAME 0 :: enc v ++ [STOP])%list.

(** * reading machine objects back *)

Fixpoint all_some {A} (l : list (option A)) : option (list A) :=
  match l with
  | [] => Some []
  | Some x :: r => match all_some r with Some xs => Some (x :: xs) | None => None end
  | None :: _ => None
  end.

Fixpoint decode (o : obj) {struct o} : option pv :=
  let decs := fix decs (xs : list obj) : option (list pv) :=
                match xs with
                | [] => Some []
                | x :: r => match decode x, decs r with
                            | Some y, Some ys => Some (y :: ys)
                            | _, _ => None
                            end
                end in
  match o with
  | ONone | OBool _ | OInt _ | OStr _ | OBytes _ => option_map PAtom (atom_of_obj o)
  | OFloat (FHalf t) => Some (PAtom (AHalf t))
  | OFloat (FBits b) => Some (PFloatBits b)
  | OTuple xs => option_map PTuple (decs xs)
  | OList _ xs => option_map PList (decs xs)
  | ODict _ kvs =>
      option_map PDict
        ((fix deckv (kvs : list (obj * obj)) : option (list (atom * pv)) :=
            match kvs with
            | [] => Some []
            | (k, x) :: r => match atom_of_obj k, decode x, deckv r with
                             | Some a, Some y, Some ys => Some ((a, y) :: ys)
                             | _, _, _ => None
                             end
            end) kvs)
  | OSet _ xs => option_map PSet (all_some (map atom_of_obj xs))
  | OFrozen xs => option_map PFrozen (all_some (map atom_of_obj xs))
  | OGlobal m n GType => Some (PType m n)
  | OGlobal _ _ _ => None
  | ONoneType => Some PNoneType
  | OInst _ KNewobj (OGlobal m n GType) (OTuple args) sts =>
      if pystr_eqb m HELPER && pystr_eqb n OPCODE then
        match args, sts with
        | [OStr tag; OInt i1; OInt i2; OInt j1; OInt j2; old; new], [] =>
            match decode old, decode new with
            | Some o1, Some o2 => Some (POpcode tag i1 i2 j1 j2 o1 o2)
            | _, _ => None
            end
        | _, _ => None
        end
      else if pystr_eqb m HELPER && pystr_eqb n SETORDERED then
        match args, sts with
        | [], [OList _ xs] => option_map PSetOrdered (decs xs)
        | _, _ => None
        end
      else None
  | OInst _ KReduce (OGlobal m n GType) (OTuple args) [] =>
      (* how protocols < 4 write sets: builtins.set([...]) / builtins.frozenset([...]) *)
      if pystr_eqb m BUILTINS_ then
        match args with
        | [] => if pystr_eqb n SET_ then Some (PSet []) else if pystr_eqb n FROZENSET_ then Some (PFrozen []) else None
        | [OList _ xs] =>
            match all_some (map atom_of_obj xs) with
            | Some ats =>
                if negb (nodup_atoms ats) then None           (* the pickler never writes duplicates *)
                else if pystr_eqb n SET_ then Some (PSet ats)
                else if pystr_eqb n FROZENSET_ then Some (PFrozen ats) else None
            | None => None
            end
        | _ => None
        end
      else None
  | _ => None
  end.

(* pickle_load(pickle bytes) as a payload *)
Definition load (w : world) (prog : list op) : option pv :=
  match fst (vm_run w prog) with
  | Done o => decode o
  | Err _ => None
  end.

(** * well-formed payloads: the representation invariant of Python dicts and sets *)

Fixpoint wfp (v : pv) {struct v} : bool :=
  match v with
  | PAtom _ | PFloatBits _ | PType _ _ | PNoneType => true
  | PList xs | PTuple xs | PSetOrdered xs => forallb wfp xs
  | PDict kvs => nodup_atoms (map fst kvs) && forallb (fun kv => wfp (snd kv)) kvs
  | PSet xs | PFrozen xs => nodup_atoms xs
  | POpcode _ _ _ _ _ old new => wfp old && wfp new
  end.

(* the class objects a payload mentions *)
Fixpoint types_of (v : pv) {struct v} : list (pystr * pystr) :=
  match v with
  | PAtom _ | PFloatBits _ | PNoneType | PSet _ | PFrozen _ => []
  | PList xs | PTuple xs => flat_map types_of xs
  | PSetOrdered xs => (HELPER, SETORDERED) :: flat_map types_of xs
  | PDict kvs => flat_map (fun kv => types_of (snd kv)) kvs
  | PType m n => [(m, n)]
  | POpcode _ _ _ _ _ old new => ((HELPER, OPCODE) :: types_of old ++ types_of new)%list
  end.

(** * the JSON path (values, not text) *)

Inductive jv :=
| JNull | JBool (b : bool) | JInt (z : Z) | JFloat (twice : Z) | JStr (s : pystr)
| JArr (xs : list jv) | JObj (kvs : list (pystr * jv)).

Local Open Scope string_scope.
(* the json module's coercion of dict keys (skipkeys=False) *)
Definition json_key (a : atom) : option pystr :=
  match a with
  | AStr s => Some s
  | AInt z => Some (p_of_Z z)
  | ABool true => Some (s2p "true")
  | ABool false => Some (s2p "false")
  | ANone => Some (s2p "null")
  | AHalf t => Some ((if Z.ltb t 0 then s2p "-" else []) ++ p_of_Z (Z.div (Z.abs t) 2)
                     ++ s2p (if Z.even t then ".0" else ".5"))%list       (* float.__repr__ of t/2, |t| < 2^53 *)
  | ABytes _ => None                        (* TypeError: keys must be str, int, float, bool or None *)
  end.
Definition is_ascii (s : pystr) : bool := forallb (fun c => N.ltb c 128) s.
Definition json_atom (a : atom) : option jv :=
  match a with
  | ANone => Some JNull
  | ABool b => Some (JBool b)
  | AInt z => Some (JInt z)
  | AHalf t => Some (JFloat t)
  | AStr s => Some (JStr s)
  | ABytes s => if is_ascii s then Some (JStr s) else None     (* bytes.decode('utf-8'); non-ASCII: outside the model *)
  end.

(* json.dumps(payload, default=json_convertor_default()) *)
Fixpoint to_json (v : pv) {struct v} : option jv :=
  let tos := fix tos (xs : list pv) : option (list jv) :=
               match xs with
               | [] => Some []
               | x :: r => match to_json x, tos r with
                           | Some y, Some ys => Some (y :: ys)
                           | _, _ => None
                           end
               end in
  match v with
  | PAtom a => json_atom a
  | PFloatBits _ => None                                   (* outside the model *)
  | PList xs | PTuple xs | PSetOrdered xs => option_map JArr (tos xs)   (* tuple -> array; SetOrdered: list *)
  | PDict kvs =>
      option_map JObj
        ((fix tokv (kvs : list (atom * pv)) : option (list (pystr * jv)) :=
            match kvs with
            | [] => Some []
            | (k, x) :: r => match json_key k, to_json x, tokv r with
                             | Some s, Some y, Some ys => Some ((s, y) :: ys)
                             | _, _, _ => None
                             end
            end) kvs)
  | PSet xs => option_map JArr (all_some (map json_atom xs))        (* set: list *)
  | PFrozen _ => None                                      (* not in JSON_CONVERTOR: TypeError *)
  | PType _ n => Some (JStr n)                             (* type: x.__name__ *)
  | PNoneType => Some (JStr (s2p "NoneType"))
  | POpcode tag i1 i2 j1 j2 old new =>                     (* a named tuple is a tuple: array *)
      match to_json old, to_json new with
      | Some o1, Some o2 => Some (JArr [JStr tag; JInt i1; JInt i2; JInt j1; JInt j2; o1; o2])
      | _, _ => None
      end
  end.

(* TYPE_STR_TO_TYPE: names that come back as the class of that name, and the
   two that come back as None *)
Definition TYPE_NAMES : list string :=
  ["range"; "complex"; "set"; "frozenset"; "slice"; "str"; "bytes"; "list"; "tuple"; "int"; "float"; "dict"; "bool"].
Definition BUILTINS : pystr := s2p "builtins".
Definition type_of_name (s : pystr) : pv :=
  if existsb (fun t => pystr_eqb s (s2p t)) TYPE_NAMES then PType BUILTINS s
  else if pystr_eqb s (s2p "None") || pystr_eqb s (s2p "NoneType") then PAtom ANone
  else if pystr_eqb s (s2p "bin") then PType BUILTINS s        (* the function bin: kept as a builtins global *)
  else if pystr_eqb s (s2p "datetime") then PType (s2p "datetime") s
  else if pystr_eqb s (s2p "time") then PType (s2p "datetime") s
  else if pystr_eqb s (s2p "timedelta") then PType (s2p "datetime") s
  else if pystr_eqb s (s2p "Decimal") then PType (s2p "decimal") s
  else if pystr_eqb s (s2p "SetOrdered") then PType HELPER s
  else if pystr_eqb s (s2p "namedtuple") then PType (s2p "collections") s
  else if pystr_eqb s (s2p "OrderedDict") then PType (s2p "collections") s
  else if pystr_eqb s (s2p "Pattern") then PType (s2p "re") s
  else if pystr_eqb s (s2p "iprange") then PType BUILTINS (s2p "str")
  else PAtom (AStr s).                                      (* unknown names stay strings *)

Definition OLD_TYPE : pystr := s2p "old_type".
Definition NEW_TYPE : pystr := s2p "new_type".
Definition ITERABLE_OPCODES : pystr := s2p "_iterable_opcodes".
Local Close Scope string_scope.

Definition has_key (k : pystr) (kvs : list (atom * pv)) : bool :=
  existsb (fun kv => match fst kv with AStr s => pystr_eqb s k | _ => false end) kvs.

(* JSONDecoder.object_hook on an already converted dict: None = TypeError
   (TYPE_STR_TO_TYPE.get on an unhashable value) *)
Definition hook_value (x : pv) : option pv :=
  match x with
  | PAtom (AStr s) => Some (type_of_name s)
  | PList _ | PDict _ => None                               (* unhashable type *)
  | _ => Some x                                             (* numbers / None: not in the table, kept *)
  end.
Fixpoint hook_kvs (kvs : list (atom * pv)) : option (list (atom * pv)) :=
  match kvs with
  | [] => Some []
  | (AStr k, x) :: r =>
      if pystr_eqb k OLD_TYPE || pystr_eqb k NEW_TYPE then
        match hook_value x, hook_kvs r with
        | Some y, Some ys => Some ((AStr k, y) :: ys)
        | _, _ => None
        end
      else match hook_kvs r with Some ys => Some ((AStr k, x) :: ys) | None => None end
  | kv :: r => match hook_kvs r with Some ys => Some (kv :: ys) | None => None end
  end.

(* json parsing keeps the last of duplicate keys, at the position of the first *)
Fixpoint obj_set (k : pystr) (v : pv) (kvs : list (atom * pv)) : list (atom * pv) :=
  match kvs with
  | [] => [(AStr k, v)]
  | (AStr k', v') :: r => if pystr_eqb k' k then (AStr k', v) :: r else (AStr k', v') :: obj_set k v r
  | kv :: r => kv :: obj_set k v r
  end.

(* json_loads(text): json.loads with deepdiff's JSONDecoder *)
Fixpoint of_json (j : jv) {struct j} : option pv :=
  match j with
  | JNull => Some (PAtom ANone)
  | JBool b => Some (PAtom (ABool b))
  | JInt z => Some (PAtom (AInt z))
  | JFloat t => Some (PAtom (AHalf t))
  | JStr s => Some (PAtom (AStr s))
  | JArr xs =>
      option_map PList
        ((fix ofs (xs : list jv) : option (list pv) :=
            match xs with
            | [] => Some []
            | x :: r => match of_json x, ofs r with
                        | Some y, Some ys => Some (y :: ys)
                        | _, _ => None
                        end
            end) xs)
  | JObj kvs =>
      match (fix ofkv (kvs : list (pystr * jv)) (acc : list (atom * pv)) : option (list (atom * pv)) :=
               match kvs with
               | [] => Some acc
               | (k, x) :: r => match of_json x with
                                | Some y => ofkv r (obj_set k y acc)
                                | None => None
                                end
               end) kvs [] with
      | Some d => if has_key OLD_TYPE d && has_key NEW_TYPE d
                  then option_map PDict (hook_kvs d) else Some (PDict d)
      | None => None
      end
  end.

(* the wrapper Delta.__init__ puts around a deserializer without safe_to_import:
   every entry of the _iterable_opcodes entry is rebuilt with Opcode-star-star-op (a mapping)
   or Opcode-star-op (a list).
   None = TypeError (the double-star argument must be a mapping; unexpected or missing keyword) *)
Local Open Scope string_scope.
Definition OP_FIELDS : list string :=
  ["tag"; "t1_from_index"; "t1_to_index"; "t2_from_index"; "t2_to_index"; "old_values"; "new_values"].
Definition field (k : string) (kvs : list (atom * pv)) : option pv :=
  match find (fun kv => match fst kv with AStr s => pystr_eqb s (s2p k) | _ => false end) kvs with
  | Some kv => Some (snd kv)
  | None => None
  end.
Definition opcode_of (x : pv) : option pv :=
  match x with
  | PDict kvs =>
      if forallb (fun kv => match fst kv with
                            | AStr s => existsb (fun f => pystr_eqb s (s2p f)) OP_FIELDS
                            | _ => false end) kvs then
        match field "tag" kvs, field "t1_from_index" kvs, field "t1_to_index" kvs,
              field "t2_from_index" kvs, field "t2_to_index" kvs with
        | Some (PAtom (AStr tag)), Some (PAtom (AInt i1)), Some (PAtom (AInt i2)),
          Some (PAtom (AInt j1)), Some (PAtom (AInt j2)) =>
            Some (POpcode tag i1 i2 j1 j2
                          (match field "old_values" kvs with Some o => o | None => PAtom ANone end)
                          (match field "new_values" kvs with Some o => o | None => PAtom ANone end))
        | _, _, _, _, _ => None     (* other field types: outside the model *)
        end
      else None
  (* a list - what a named tuple becomes in JSON with the builtin json module: Opcode( *op ),
     five required fields and two that default to None (since fix c7b983b) *)
  | PList [PAtom (AStr tag); PAtom (AInt i1); PAtom (AInt i2); PAtom (AInt j1); PAtom (AInt j2)] =>
      Some (POpcode tag i1 i2 j1 j2 (PAtom ANone) (PAtom ANone))
  | PList [PAtom (AStr tag); PAtom (AInt i1); PAtom (AInt i2); PAtom (AInt j1); PAtom (AInt j2); o] =>
      Some (POpcode tag i1 i2 j1 j2 o (PAtom ANone))
  | PList [PAtom (AStr tag); PAtom (AInt i1); PAtom (AInt i2); PAtom (AInt j1); PAtom (AInt j2); o; n] =>
      Some (POpcode tag i1 i2 j1 j2 o n)
  | _ => None                        (* wrong number of fields: TypeError; other field types: outside the model *)
  end.
Local Close Scope string_scope.

Definition truthy (x : pv) : bool :=
  match x with
  | PAtom ANone | PAtom (ABool false) | PAtom (AInt 0%Z) | PAtom (AHalf 0%Z) | PAtom (AStr []) | PAtom (ABytes [])
  | PList [] | PTuple [] | PDict [] | PSet [] | PFrozen [] | PSetOrdered [] => false
  | _ => true
  end.

Definition rebuild_opcodes (x : pv) : option pv :=
  match x with
  | PDict paths =>
      option_map PDict
        ((fix go (ps : list (atom * pv)) : option (list (atom * pv)) :=
            match ps with
            | [] => Some []
            | (path, PList ops) :: r =>
                match all_some (map opcode_of ops), go r with
                | Some ops', Some r' => Some ((path, PList ops') :: r')
                | _, _ => None
                end
            | _ => None
            end) paths)
  | _ => None
  end.

Fixpoint replace_key (k : pystr) (v : pv) (kvs : list (atom * pv)) : list (atom * pv) :=
  match kvs with
  | [] => []
  | (AStr k', v') :: r => if pystr_eqb k' k then (AStr k', v) :: r else (AStr k', v') :: replace_key k v r
  | kv :: r => kv :: replace_key k v r
  end.

Definition wrapper (x : pv) : option pv :=
  match x with
  | PDict kvs =>
      match find (fun kv => match fst kv with AStr s => pystr_eqb s ITERABLE_OPCODES | _ => false end) kvs with
      | Some (_, ops) =>
          if truthy ops then
            match rebuild_opcodes ops with
            | Some ops' => Some (PDict (replace_key ITERABLE_OPCODES ops' kvs))
            | None => None
            end
          else Some x
      | None => Some x
      end
  | _ => None                         (* result.get: a non-dict payload is outside the model *)
  end.

(* what a JSON-persisted delta holds in place of the sets of set_item_added / set_item_removed:
   JSON_CONVERTOR[set] = list writes the members as an array (in the set's iteration order) and
   nothing turns them back; Delta applies them with set.union / set.difference, which take any
   iterable.  [setlist d] is d with exactly those sets replaced by the lists of their members. *)
Definition set_to_list (v : pv) : pv := match v with PSet xs => PList (map PAtom xs) | _ => v end.
Definition sets_to_lists (v : pv) : pv :=
  match v with
  | PDict paths => PDict (map (fun kv => (fst kv, set_to_list (snd kv))) paths)
  | _ => v
  end.
Local Open Scope string_scope.
Definition is_set_key (a : atom) : bool :=
  match a with
  | AStr k => pystr_eqb k (s2p "set_item_added") || pystr_eqb k (s2p "set_item_removed")
  | _ => false
  end.
Local Close Scope string_scope.
Definition setlist (d : pv) : pv :=
  match d with
  | PDict kvs => PDict (map (fun kv => (fst kv, if is_set_key (fst kv) then sets_to_lists (snd kv) else snd kv)) kvs)
  | _ => d
  end.

(* Delta(json text, deserializer=json_loads).diff *)
Definition json_load (j : jv) : option pv :=
  match of_json j with Some x => wrapper x | None => None end.
Definition json_roundtrip (v : pv) : option pv :=
  match to_json v with Some j => json_load j | None => None end.

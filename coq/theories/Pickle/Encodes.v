(** Pickle/Encodes.v - a syntactic class of pickle encodings of a payload, as a
    payload-directed checker.

    [accepts prog d] holds for the encodings of [d] that a pickler may choose:
    any of the integer / string / bytes / float opcodes, GLOBAL or STACK_GLOBAL,
    TUPLE1-3 or MARK..TUPLE, single-item (APPEND / SETITEM) or batched
    (MARK .. APPENDS / SETITEMS / ADDITEMS) container filling in any number of
    batches, an optional MEMOIZE / BINPUT / LONG_BINPUT / PUT after any object
    (with a fresh index), and GET / BINGET / LONG_BINGET of a previously
    memoized value that contains no mutable object (atoms, tuples of such,
    frozensets, class objects) - which is how CPython's pickler shares repeated
    strings, numbers and classes - or of a COMPLETED list / dict / set / tuple /
    Opcode / SetOrdered (what CPython emits for one object reachable twice).
    Not in the class: a container fetched while it is still being filled
    (recursive structures).

    Definitions only; soundness ([accepts prog d = true -> load w prog = Some d])
    is in EncodesProofs.v. *)
From Coq Require Import List ZArith NArith Bool Arith.
Import ListNotations.
From DD Require Import Base.Sx Base.PyStr Base.Value Pickle.Vm Pickle.Codec.

(** * decidable equality of payloads *)

Fixpoint atoms_eqb (xs ys : list atom) : bool :=
  match xs, ys with
  | [], [] => true
  | x :: xs', y :: ys' => atom_eqb x y && atoms_eqb xs' ys'
  | _, _ => false
  end.

Fixpoint pv_eqb (a b : pv) {struct a} : bool :=
  let list_eqb := fix go (xs ys : list pv) {struct xs} : bool :=
                    match xs, ys with
                    | [], [] => true
                    | x :: xs', y :: ys' => pv_eqb x y && go xs' ys'
                    | _, _ => false
                    end in
  match a, b with
  | PAtom x, PAtom y => atom_eqb x y
  | PFloatBits x, PFloatBits y => Z.eqb x y
  | PList xs, PList ys | PTuple xs, PTuple ys | PSetOrdered xs, PSetOrdered ys => list_eqb xs ys
  | PDict xs, PDict ys =>
      (fix go (xs ys : list (atom * pv)) {struct xs} : bool :=
         match xs, ys with
         | [], [] => true
         | (k, v) :: xs', (k', v') :: ys' => atom_eqb k k' && pv_eqb v v' && go xs' ys'
         | _, _ => false
         end) xs ys
  | PSet xs, PSet ys | PFrozen xs, PFrozen ys => atoms_eqb xs ys
  | PType m n, PType m' n' => pystr_eqb m m' && pystr_eqb n n'
  | PNoneType, PNoneType => true
  | POpcode t a1 a2 b1 b2 o n, POpcode t' a1' a2' b1' b2' o' n' =>
      pystr_eqb t t' && Z.eqb a1 a1' && Z.eqb a2 a2' && Z.eqb b1 b1' && Z.eqb b2 b2' && pv_eqb o o' && pv_eqb n n'
  | _, _ => false
  end.

(* payload values that contain no mutable object: may be recorded in / fetched from the memo *)
Fixpoint idfree (v : pv) {struct v} : bool :=
  match v with
  | PAtom _ | PFloatBits _ | PType _ _ | PNoneType | PFrozen _ => true
  | PTuple xs => forallb idfree xs
  | _ => false
  end.

(** * checker state: the logical memo (known id-free values) and the indices used so far *)

Definition cstate := (list (Z * pv) * list Z)%type.
Definition cs0 : cstate := ([], []).

Fixpoint lm_get (i : Z) (m : list (Z * pv)) : option pv :=
  match m with
  | [] => None
  | (j, v) :: r => if Z.eqb i j then Some v else lm_get i r
  end.

Definition put_index (used : list Z) (o : op) : option Z :=
  match o with
  | MEMOIZE => Some (Z.of_nat (List.length used))
  | BINPUT i => Some i
  | LONG_BINPUT i => if Z.ltb MEMO_MAX i then None else Some i      (* beyond: the memo array may not be allocatable *)
  | PUT i => if Z.ltb i 0 then None else if Z.ltb MEMO_MAX i then None else Some i
  | _ => None
  end.
Definition get_index (o : op) : option Z :=
  match o with GET i | BINGET i | LONG_BINGET i => Some i | _ => None end.

(* an optional put after an object that reads as [v] *)
Definition chk_put (cs : cstate) (v : pv) (prog : list op) : option (cstate * list op) :=
  match prog with
  | o :: r =>
      match put_index (snd cs) o with
      | Some idx =>
          if existsb (Z.eqb idx) (snd cs) then None          (* picklers never reuse an index *)
          else Some (((idx, v) :: fst cs, (snd cs ++ [idx])%list), r)
      | None => Some (cs, prog)
      end
  | [] => Some (cs, prog)
  end.

(* an optional put right after the creation of a container that is still to be filled: the index is
   only reserved; [record] enters the value once the container is complete (a container cannot be
   fetched while it is being filled: recursive structures are outside the class) *)
Definition chk_put_pending (cs : cstate) (prog : list op) : option (cstate * list op * option Z) :=
  match prog with
  | o :: r =>
      match put_index (snd cs) o with
      | Some idx =>
          if existsb (Z.eqb idx) (snd cs) then None
          else Some ((fst cs, (snd cs ++ [idx])%list), r, Some idx)
      | None => Some (cs, prog, None)
      end
  | [] => Some (cs, prog, None)
  end.
Definition record (cs : cstate) (pidx : option Z) (v : pv) : cstate :=
  match pidx with Some idx => ((idx, v) :: fst cs, snd cs) | None => cs end.

(* a fetch of a known value equal to [v] *)
Definition chk_get (cs : cstate) (v : pv) (i : Z) : bool :=
  match lm_get i (fst cs) with Some v' => pv_eqb v' v | None => false end.

Definition atom_of_push (o : op) : option atom :=
  match o with
  | NONE => Some ANone
  | NEWTRUE => Some (ABool true)
  | NEWFALSE => Some (ABool false)
  | INTB b => Some (ABool b)
  | INT z | BININT z | BININT1 z | BININT2 z | LONG z | LONG1 z | LONG4 z => Some (AInt z)
  | FLOAT (FHalf t) | BINFLOAT (FHalf t) => Some (AHalf t)
  | UNICODE s | BINUNICODE s | SHORT_BINUNICODE s | BINUNICODE8 s => Some (AStr s)
  | BINBYTES s | SHORT_BINBYTES s | BINBYTES8 s => Some (ABytes s)
  | _ => None
  end.

Definition chk_atom (a : atom) (cs : cstate) (prog : list op) : option (cstate * list op) :=
  match prog with
  | o :: r =>
      match get_index o with
      | Some i => if chk_get cs (PAtom a) i then Some (cs, r) else None
      | None =>
          match atom_of_push o with
          | Some a' => if atom_eqb a' a then chk_put cs (PAtom a) r else None
          | None => None
          end
      end
  | [] => None
  end.

(* a class object: fetched, or GLOBAL, or two strings and STACK_GLOBAL; optional put *)
Definition chk_type (m n : pystr) (cs : cstate) (prog : list op) : option (cstate * list op) :=
  match prog with
  | o :: r =>
      if (match get_index o with Some i => chk_get cs (PType m n) i | None => false end) then Some (cs, r)
      else
          match o with
          | GLOBAL m' n' =>
              if pystr_eqb m' m && pystr_eqb n' n && negb (empty_line m) && negb (empty_line n)
              then chk_put cs (PType m n) r else None
          | _ =>
              match chk_atom (AStr m) cs prog with
              | Some (cs1, p1) =>
                  match chk_atom (AStr n) cs1 p1 with
                  | Some (cs2, STACK_GLOBAL :: p2) => chk_put cs2 (PType m n) p2
                  | _ => None
                  end
              | None => None
              end
          end
  | [] => None
  end.

(* atoms between MARK and a closing opcode (sets, frozensets) *)
Fixpoint chk_atoms (xs : list atom) (cs : cstate) (prog : list op) : option (cstate * list op) :=
  match xs with
  | [] => Some (cs, prog)
  | a :: r => match chk_atom a cs prog with
              | Some (cs1, p1) => chk_atoms r cs1 p1
              | None => None
              end
  end.

(* set members in one or more MARK .. ADDITEMS batches *)
Fixpoint chk_set_items (xs : list atom) (inm : bool) (cs : cstate) (prog : list op) : option (cstate * list op) :=
  match xs with
  | [] => if inm then None else Some (cs, prog)
  | a :: r =>
      match (if inm then Some prog else match prog with MARK :: p => Some p | _ => None end) with
      | Some p0 =>
          match chk_atom a cs p0 with
          | Some (cs1, ADDITEMS :: p1) => chk_set_items r false cs1 p1
          | Some (cs1, p1) => chk_set_items r true cs1 p1
          | None => None
          end
      | None => None
      end
  end.

(* the member loops, generic in the checker of one member *)
Section Loops.
  Variable chkf : pv -> cstate -> list op -> option (cstate * list op).

  (* list items: single (x APPEND) or batched (MARK x.. APPENDS), any number of batches *)
  Fixpoint items_gen (xs : list pv) (inm : bool) (cs : cstate) (prog : list op) {struct xs} : option (cstate * list op) :=
    match xs with
    | [] => if inm then None else Some (cs, prog)
    | x :: r =>
        (* x inside a batch (p0: the program after the batch's MARK, or the current one) *)
        let batch (p0 : list op) :=
          match chkf x cs p0 with
          | Some (cs1, p1) =>
              match p1 with
              | APPENDS :: p2 => items_gen r false cs1 p2
              | _ => items_gen r true cs1 p1
              end
          | None => None
          end in
        (* x alone, followed by APPEND *)
        let single :=
          match chkf x cs prog with
          | Some (cs1, p1) => match p1 with APPEND :: p2 => items_gen r false cs1 p2 | _ => None end
          | None => None
          end in
        if inm then batch prog
        else match prog with
             | MARK :: p =>
                 (* the MARK opens a batch - or belongs to x itself (a tuple / frozenset appended alone) *)
                 match batch p with Some res => Some res | None => single end
             | _ => single
             end
    end.

  (* plain sequence of values (tuple members) *)
  Fixpoint seq_gen (xs : list pv) (cs : cstate) (prog : list op) {struct xs} : option (cstate * list op) :=
    match xs with
    | [] => Some (cs, prog)
    | x :: r => match chkf x cs prog with
                | Some (cs1, p1) => seq_gen r cs1 p1
                | None => None
                end
    end.

  (* dict items: k v SETITEM or MARK (k v).. SETITEMS, any number of batches *)
  Fixpoint kitems_gen (kvs : list (atom * pv)) (inm : bool) (cs : cstate) (prog : list op) {struct kvs}
    : option (cstate * list op) :=
    match kvs with
    | [] => if inm then None else Some (cs, prog)
    | (k, x) :: rr =>
        let '(inm1, p0) := if inm then (true, prog)
                           else match prog with MARK :: p => (true, p) | _ => (false, prog) end in
        match chk_atom k cs p0 with
        | Some (cs2, p2) =>
            match chkf x cs2 p2 with
            | Some (cs3, p3) =>
                if inm1 then
                  match p3 with
                  | SETITEMS :: p4 => kitems_gen rr false cs3 p4
                  | _ => kitems_gen rr true cs3 p3
                  end
                else match p3 with SETITEM :: p4 => kitems_gen rr false cs3 p4 | _ => None end
            | None => None
            end
        | None => None
        end
    end.
End Loops.

Definition opcode_args (tag : pystr) (i1 i2 j1 j2 : Z) (old new : pv) : pv :=
  PTuple [PAtom (AStr tag); PAtom (AInt i1); PAtom (AInt i2); PAtom (AInt j1); PAtom (AInt j2); old; new].

Fixpoint chk (v : pv) (cs : cstate) (prog : list op) {struct v} : option (cstate * list op) :=
  match prog with
  | [] => None
  | o :: r =>
      (* a fetch of the whole value; otherwise a GET can only be the first part of a composite *)
      if (match get_index o with Some i => chk_get cs v i | None => false end) then Some (cs, r)
      else
          match v with
          | PAtom a => chk_atom a cs prog
          | PFloatBits b =>
              match o with
              | FLOAT (FBits b') | BINFLOAT (FBits b') => if Z.eqb b' b then chk_put cs v r else None
              | _ => None
              end
          | PList xs =>
              match o with
              | EMPTY_LIST =>
                  match chk_put_pending cs r with
                  | Some (cs1, p1, pidx) =>
                      match items_gen chk xs false cs1 p1 with
                      | Some (cs2, p2) => Some (record cs2 pidx v, p2)
                      | None => None
                      end
                  | None => None
                  end
              | _ => None
              end
          | PTuple xs =>
              let small :=
                match seq_gen chk xs cs prog with
                | Some (cs1, TUPLE1 :: p1) => if Nat.eqb (List.length xs) 1 then chk_put cs1 v p1 else None
                | Some (cs1, TUPLE2 :: p1) => if Nat.eqb (List.length xs) 2 then chk_put cs1 v p1 else None
                | Some (cs1, TUPLE3 :: p1) => if Nat.eqb (List.length xs) 3 then chk_put cs1 v p1 else None
                | _ => None
                end in
              match o with
              | EMPTY_TUPLE => match xs with [] => chk_put cs v r | _ => None end
              | MARK =>
                  (* the MARK opens the tuple - or its first member (TUPLE1-3 form) *)
                  match seq_gen chk xs cs r with
                  | Some (cs1, TUPLE :: p1) => chk_put cs1 v p1
                  | _ => small
                  end
              | _ => small
              end
          | PDict kvs =>
              match o with
              | EMPTY_DICT =>
                  match chk_put_pending cs r with
                  | Some (cs1, p1, pidx) =>
                      match kitems_gen chk kvs false cs1 p1 with
                      | Some (cs2, p2) => Some (record cs2 pidx v, p2)
                      | None => None
                      end
                  | None => None
                  end
              | _ => None
              end
          | PSet xs =>
              match o with
              | EMPTY_SET =>
                  match chk_put_pending cs r with
                  | Some (cs1, p1, pidx) =>
                      match chk_set_items xs false cs1 p1 with
                      | Some (cs2, p2) => Some (record cs2 pidx v, p2)
                      | None => None
                      end
                  | None => None
                  end
              | _ => None
              end
          | PFrozen xs =>
              match o with
              | MARK =>
                  match chk_atoms xs cs r with
                  | Some (cs1, FROZENSET :: p1) => chk_put cs1 v p1
                  | _ => None
                  end
              | _ => None
              end
          | PType m n => chk_type m n cs prog
          | PNoneType =>
              match o with
              | PERSID s => if pystr_eqb s NONE_TYPE_PID then Some (cs, r) else None
              | _ =>
                  match chk_atom (AStr NONE_TYPE_PID) cs prog with
                  | Some (cs1, BINPERSID :: p1) => Some (cs1, p1)
                  | _ => None
                  end
              end
          | POpcode tag i1 i2 j1 j2 old new =>
              match chk_type HELPER OPCODE cs prog with
              | Some (cs1, MARK :: p1) =>
                  match chk_atoms [AStr tag; AInt i1; AInt i2; AInt j1; AInt j2] cs1 p1 with
                  | Some (cs2, p2) =>
                      match chk old cs2 p2 with
                      | Some (cs3, p3) =>
                          match chk new cs3 p3 with
                          | Some (cs4, TUPLE :: p4) =>
                              match chk_put cs4 (opcode_args tag i1 i2 j1 j2 old new) p4 with
                              | Some (cs5, NEWOBJ :: p5) => chk_put cs5 v p5
                              | _ => None
                              end
                          | _ => None
                          end
                      | None => None
                      end
                  | None => None
                  end
              | _ => None
              end
          | PSetOrdered xs =>
              match chk_type HELPER SETORDERED cs prog with
              | Some (cs1, EMPTY_TUPLE :: NEWOBJ :: p1) =>
                  match chk_put_pending cs1 p1 with
                  | Some (cs2, EMPTY_LIST :: p2, iidx) =>
                      match chk_put_pending cs2 p2 with
                      | Some (cs3, p3, lidx) =>
                          match items_gen chk xs false cs3 p3 with
                          | Some (cs4, BUILD :: p4) => Some (record (record cs4 lidx (PList xs)) iidx v, p4)
                          | _ => None
                          end
                      | None => None
                      end
                  | _ => None
                  end
              | _ => None
              end
          end
  end.

(* optional PROTO, optional FRAME, the value, STOP *)
Definition accepts (prog : list op) (d : pv) : bool :=
  let p1 := match prog with PROTO n :: p => if (Z.leb 0 n && Z.leb n 5)%bool then p else prog | _ => prog end in
  let p2 := match p1 with FRAME _ :: p => p | _ => p1 end in
  match chk d cs0 p2 with
  | Some (_, STOP :: _) => true
  | _ => false
  end.

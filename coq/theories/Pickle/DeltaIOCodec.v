(** Pickle/DeltaIOCodec.v - the persisted payload of a delta built with ignore_order=True read as
    a delta of the ignore-order application model (Delta/DeltaIO.v): the categories of
    Pickle/DeltaCodec.v plus the index maps iterable_items_added_at_indexes /
    iterable_items_removed_at_indexes ({path string: {index: item}}), and back.
    Definitions only. *)
From Coq Require Import List ZArith NArith Bool Arith String.
Import ListNotations.
From DD Require Import Base.Sx Base.PyStr Base.Value Path.PathModel Diff.Tree Diff.DiffModel Delta.DeltaModel Delta.DeltaIO
  Pickle.Vm Pickle.Codec Pickle.DeltaCodec.
Local Open Scope string_scope.

Definition IO_ADDED : string := "iterable_items_added_at_indexes".
Definition IO_REMOVED : string := "iterable_items_removed_at_indexes".

Definition is_io_cat (kv : atom * pv) : bool :=
  match fst kv with
  | AStr s => pystr_eqb s (s2p IO_ADDED) || pystr_eqb s (s2p IO_REMOVED)
  | _ => false
  end.
Definition not_io_cat (kv : atom * pv) : bool := negb (is_io_cat kv).

(** * payload -> delta_io *)

Definition idx_entry (e : atom * pv) : option (nat * value) :=
  match fst e, value_of_pv (snd e) with
  | AInt z, Some v => option_map (fun n => (n, v)) (nat_of_Z z)
  | _, _ => None
  end.
Definition imap_entry (kv : atom * pv) : option (path * imap) :=
  match path_of_key (fst kv), snd kv with
  | Some p, PDict es => option_map (pair p) (all_some (map idx_entry es))
  | _, _ => None
  end.

(* Delta(payload, bidirectional=b) for a payload of DeepDiff(ignore_order=True) *)
Definition delta_io_of_pv (b : bool) (p : pv) : option delta_io :=
  match p with
  | PDict cats =>
      match delta_of_pv b (PDict (filter not_io_cat cats)),
            category IO_ADDED imap_entry cats, category IO_REMOVED imap_entry cats with
      | Some base, Some a, Some r => Some (mkDIO base a r)
      | _, _, _ => None
      end
  | _ => None
  end.

(** * delta_io -> payload *)

Definition pv_of_idx (iv : nat * value) : atom * pv := (AInt (Z.of_nat (fst iv)), of_value (snd iv)).
Definition pv_of_imap (pm : path * imap) : atom * pv := (pkey_s (fst pm), PDict (map pv_of_idx (snd pm))).
Definition all_categories_io (d : delta_io) : list (atom * pv) :=
  (all_categories (io_base d) ++
   [(skey IO_ADDED, PDict (map pv_of_imap (io_added d)));
    (skey IO_REMOVED, PDict (map pv_of_imap (io_removed d)))])%list.
Definition pv_of_delta_io (d : delta_io) : pv := PDict (filter nonempty_cat (all_categories_io d)).

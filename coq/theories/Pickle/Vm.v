(** Pickle/Vm.v - executable model of deepdiff's restricted unpickler.

    Models  deepdiff/serialization.py:
      _RestrictedUnpickler.__init__   (the effective allow-list)        -> [effective_allow]
      _RestrictedUnpickler.find_class (the decision, then the lookup)   -> [find_class]
      _RestrictedUnpickler.persistent_load                              -> [persistent_load]
      pickle_load = _RestrictedUnpickler(file, safe_to_import).load()   -> [vm_run]
    and the part of CPython's unpickling machine (Modules/_pickle.c, protocols
    0-5) that decides WHICH globals are looked up, WHAT is called with what,
    and what value comes out.  The machine works on an opcode list; the byte
    level - opcode bytes, argument decoding, framing - is Pickle/Bytes.v.

    Objects carry identity: every mutable object (list, dict, set, instance)
    gets a fresh [id] when it is created and a mutation through one reference
    (APPEND, SETITEM, ADDITEMS, BUILD) is applied to every copy of that id in
    the stack and the memo, so DUP / BINGET aliasing of a container that is
    still being filled behaves as in CPython for acyclic data.

    Calls are symbolic: REDUCE / NEWOBJ / NEWOBJ_EX / INST / OBJ produce an
    [OInst] node recording the callee and the arguments; whether the call
    raises is the oracle [call_ok] of the [world].  A global object is the
    leaf [OGlobal m n k] and is only ever produced by [find_class] (or served
    from copyreg's process-wide extension cache, see EXT below).

    Definitions only. *)
From Coq Require Import List ZArith NArith Bool Arith String.
Import ListNotations.
From DD Require Import Base.Sx Base.PyStr.

(** * Objects *)

(* floats are opaque to the unpickler; half-integers are kept exact so that
   1.0 == 1 == True can be decided for dict keys / set members *)
Inductive fl := FHalf (twice : Z) | FBits (bits : Z).

Inductive ckind := KReduce | KNewobj | KNewobjEx | KInst | KObj.
(* what getattr(sys.modules[m], n) returned: a class, another callable, a
   plain object, or None itself ("builtins.None" is on the allow-list and
   getattr(builtins, "None") is None) *)
Inductive gkind := GType | GFunc | GPlain | GNone.

Inductive obj :=
| ONone
| OBool (b : bool)
| OInt (z : Z)
| OFloat (f : fl)
| OStr (s : pystr)
| OBytes (s : pystr)
| OTuple (xs : list obj)
| OFrozen (xs : list obj)
| OList (id : nat) (xs : list obj)
| ODict (id : nat) (kvs : list (obj * obj))
| OSet (id : nat) (xs : list obj)
| OGlobal (m n : pystr) (k : gkind)        (* the object find_class returned for (m, n) *)
| ONoneType                                (* persistent_load("<<NoneType>>") *)
| OInst (id : nat) (k : ckind) (callee args : obj) (states : list obj)
                                           (* result of calling [callee] with [args]; BUILD appends to [states] *)
| OMark
| OByteArray (s : pystr).                  (* BYTEARRAY8 (protocol 5); never mutated inside the model, see [OutOfModel] *)

Definition is_mark (o : obj) : bool := match o with OMark => true | _ => false end.

(** * The world: everything outside the unpickler *)

Inductive lookup_res := NoModule | NoAttr | Found (k : gkind).

Record world := mkWorld {
  allow : list pystr;                                (* self.safe_to_import *)
  lookup : pystr -> pystr -> lookup_res;             (* sys.modules[m], getattr(module, n) *)
  call_ok : ckind -> obj -> obj -> bool;             (* does callee applied to args / cls.__new__ applied to cls and args return? *)
  build_ok : obj -> obj -> bool;                     (* does __setstate__ / __dict__ update succeed? *)
  ext_cache0 : list (Z * obj);                       (* copyreg._extension_cache (process-wide) *)
  ext_registry : Z -> option (pystr * pystr)         (* copyreg._inverted_registry *)
}.

(** * find_class *)

Definition dot : N := 46%N.
(* '{}.{}'.format(module, name) *)
Definition dotted (m n : pystr) : pystr := (m ++ dot :: n)%list.
Definition mem_str (s : pystr) (l : list pystr) : bool := existsb (pystr_eqb s) l.

Inductive fc_res := FCResolved (k : gkind) | FCForbidden | FCNoModule | FCNoAttr.

Definition find_class (w : world) (m n : pystr) : fc_res :=
  if mem_str (dotted m n) (allow w) then
    match lookup w m n with
    | NoModule => FCNoModule          (* deepdiff's ModuleNotFoundError *)
    | NoAttr => FCNoAttr              (* AttributeError from getattr *)
    | Found k => FCResolved k
    end
  else FCForbidden.

(* SAFE_TO_IMPORT, serialization.py:60-89 *)
Local Open Scope string_scope.
Definition SAFE_TO_IMPORT : list pystr := map s2p [
  "builtins.range"; "builtins.complex"; "builtins.set"; "builtins.frozenset";
  "builtins.slice"; "builtins.str"; "builtins.bytes"; "builtins.list";
  "builtins.tuple"; "builtins.int"; "builtins.float"; "builtins.dict";
  "builtins.bool"; "builtins.bin"; "builtins.None"; "datetime.datetime";
  "datetime.time"; "datetime.timedelta"; "decimal.Decimal"; "uuid.UUID";
  "orderly_set.sets.OrderedSet"; "orderly_set.sets.OrderlySet";
  "orderly_set.sets.StableSetEq"; "deepdiff.helper.SetOrdered";
  "collections.namedtuple"; "collections.OrderedDict"; "re.Pattern";
  "deepdiff.helper.Opcode" ].
Local Close Scope string_scope.

(* _RestrictedUnpickler.__init__: the safe_to_import argument *)
Inductive safe_arg := SafeNone | SafeStr (s : pystr) | SafeIter (l : list pystr).
Definition effective_allow (a : safe_arg) : list pystr :=
  match a with
  | SafeNone => SAFE_TO_IMPORT
  | SafeStr [] => SAFE_TO_IMPORT                 (* falsy *)
  | SafeStr s => s :: SAFE_TO_IMPORT             (* set([s]) | SAFE_TO_IMPORT *)
  | SafeIter [] => SAFE_TO_IMPORT                (* falsy *)
  | SafeIter l => (l ++ SAFE_TO_IMPORT)%list     (* set(l) | SAFE_TO_IMPORT *)
  end.

(** * Python equality / hashability on objects (dict keys, set members) *)

Definition onum2 (o : obj) : option Z :=
  match o with
  | OBool b => Some (if b then 2 else 0)%Z
  | OInt z => Some (2 * z)%Z
  | OFloat (FHalf t) => Some t
  | _ => None
  end.

Fixpoint obj_pyeq (a b : obj) {struct a} : bool :=
  match onum2 a, onum2 b with
  | Some x, Some y => Z.eqb x y
  | None, None =>
      match a, b with
      | ONone, ONone => true
      | OFloat (FBits x), OFloat (FBits y) => Z.eqb x y
      | OStr s, OStr t => pystr_eqb s t
      | OBytes s, OBytes t => pystr_eqb s t
      | OTuple xs, OTuple ys =>
          (fix go (xs ys : list obj) {struct xs} : bool :=
             match xs, ys with
             | [], [] => true
             | x :: xs', y :: ys' => obj_pyeq x y && go xs' ys'
             | _, _ => false
             end) xs ys
      | OFrozen xs, OFrozen ys =>
          Nat.eqb (List.length xs) (List.length ys) &&
          forallb (fun x => existsb (obj_pyeq x) ys) xs
      | OGlobal m n _, OGlobal m' n' _ => pystr_eqb m m' && pystr_eqb n n'
      | ONoneType, ONoneType => true
      | OInst i _ _ _ _, OInst j _ _ _ _ => Nat.eqb i j
      | _, _ => false                      (* lists, dicts, sets are unhashable: never keys *)
      end
  | _, _ => false
  end.

Fixpoint hashable (o : obj) : bool :=
  match o with
  | OList _ _ | ODict _ _ | OSet _ _ | OMark | OByteArray _ => false
  | OTuple xs => forallb hashable xs
  | _ => true
  end.

(** * Mutation through shared references *)

(* replace every copy of the mutable object with identity [i] by [c] *)
Fixpoint subst (i : nat) (c : obj) (o : obj) {struct o} : obj :=
  match o with
  | OTuple xs => OTuple (map (subst i c) xs)
  | OFrozen xs => OFrozen (map (subst i c) xs)
  | OList j xs => if Nat.eqb i j then c else OList j (map (subst i c) xs)
  | ODict j kvs => if Nat.eqb i j then c
                   else ODict j (map (fun kv => (subst i c (fst kv), subst i c (snd kv))) kvs)
  | OSet j xs => if Nat.eqb i j then c else OSet j (map (subst i c) xs)
  | OInst j k f a sts => if Nat.eqb i j then c
                         else OInst j k (subst i c f) (subst i c a) (map (subst i c) sts)
  | _ => o
  end.

(** * Events and errors *)

Inductive event :=
| EResolve (m n : pystr)                       (* find_class returned getattr(sys.modules[m], n) *)
| ECall (k : ckind) (callee args : obj)        (* the unpickler invoked callee with args *)
| EBuild (inst st : obj)                       (* BUILD: __setstate__ / __dict__ update *)
| EPersist (pid : obj)                         (* persistent_load(pid) *)
| EExtCached (code : Z) (o : obj).             (* EXT served from the extension cache: no find_class *)

Inductive err :=
| Forbidden (m n : pystr)          (* ForbiddenModule *)
| ModuleNotFound (m n : pystr)     (* deepdiff's ModuleNotFoundError *)
| AttrError (m n : pystr)          (* getattr failed *)
| Underflow                        (* unpickling stack underflow / unexpected MARK *)
| NoMark                           (* could not find MARK *)
| BadOperand                       (* an operand has the wrong type / shape *)
| Unhashable
| MemoMiss
| BadArg                           (* unsupported protocol, negative PUT, bad EXT code *)
| CallRaised
| BuildRaised
| Truncated                        (* ran out of opcodes before STOP: EOFError *)
| OutOfModel                       (* the load goes on in a way the model does not follow: a container opcode applied to
                                      a symbolic instance or a bytearray, READONLY_BUFFER on a bytearray *)
| Malformed (k : N).               (* the byte stream ends in an undecodable opcode (Pickle/Bytes.v: 1 truncated argument,
                                      2 unknown opcode, 3 bad argument, 4 length beyond sys.maxsize) *)

(** * Opcodes (arguments as decoded by pickletools.genops) *)

Inductive op :=
| PROTO (n : Z) | FRAME (n : Z) | STOP | POP | POP_MARK | DUP | MARK
| MEMOIZE | PUT (i : Z) | BINPUT (i : Z) | LONG_BINPUT (i : Z)
| GET (i : Z) | BINGET (i : Z) | LONG_BINGET (i : Z)
| NONE | NEWTRUE | NEWFALSE
| INT (z : Z) | INTB (b : bool) | BININT (z : Z) | BININT1 (z : Z) | BININT2 (z : Z)
| LONG (z : Z) | LONG1 (z : Z) | LONG4 (z : Z)
| FLOAT (f : fl) | BINFLOAT (f : fl)
| UNICODE (s : pystr) | BINUNICODE (s : pystr) | SHORT_BINUNICODE (s : pystr) | BINUNICODE8 (s : pystr)
| BINBYTES (s : pystr) | SHORT_BINBYTES (s : pystr) | BINBYTES8 (s : pystr)
| EMPTY_LIST | EMPTY_DICT | EMPTY_TUPLE | EMPTY_SET
| APPEND | APPENDS | SETITEM | SETITEMS | ADDITEMS
| TUPLE | TUPLE1 | TUPLE2 | TUPLE3 | FROZENSET | LIST | DICT
| GLOBAL (m n : pystr) | STACK_GLOBAL | INST (m n : pystr) | OBJ
| NEWOBJ | NEWOBJ_EX | REDUCE | BUILD
| BINPERSID | PERSID (s : pystr)
| EXT1 (c : Z) | EXT2 (c : Z) | EXT4 (c : Z)
(* the remaining opcodes of protocols 0-5; none of them looks up a global *)
| STRING (s : pystr) | BINSTRING (s : pystr) | SHORT_BINSTRING (s : pystr)   (* Python-2 str, decoded as ASCII *)
| BYTEARRAY8 (s : pystr) | NEXT_BUFFER | READONLY_BUFFER.

(** * Machine state *)

Record state := mkState {
  stack : list obj;            (* top first; OMark entries are the marks *)
  memo : list (Z * obj);
  next : nat;                  (* next fresh identity *)
  ecache : list (Z * obj);     (* extension cache as this load sees it *)
  trace : list event           (* newest first *)
}.

Inductive sres := SNext (s : state) | SStop (v : obj) (s : state) | SFail (e : err) (s : state).

Definition set_stack (st : state) (s : list obj) : state :=
  mkState s (memo st) (next st) (ecache st) (trace st).
Definition push (o : obj) (st : state) : state := set_stack st (o :: stack st).
Definition emit (e : event) (st : state) : state :=
  mkState (stack st) (memo st) (next st) (ecache st) (e :: trace st).
Definition fresh (st : state) : state :=
  mkState (stack st) (memo st) (S (next st)) (ecache st) (trace st).

(* pops never cross a mark (the C unpickler's "fence") *)
Definition pop1 (s : list obj) : option (obj * list obj) :=
  match s with
  | [] => None
  | o :: r => if is_mark o then None else Some (o, r)
  end.

(* items above the topmost mark, in push order, and the stack below the mark *)
Fixpoint to_mark (s : list obj) (acc : list obj) : option (list obj * list obj) :=
  match s with
  | [] => None
  | o :: r => if is_mark o then Some (acc, r) else to_mark r (o :: acc)
  end.

Fixpoint pairs_of (l : list obj) : option (list (obj * obj)) :=
  match l with
  | [] => Some []
  | k :: v :: r => match pairs_of r with Some ps => Some ((k, v) :: ps) | None => None end
  | [_] => None
  end.

(* dict[k] = v : an equal key keeps its place (and the original key object) *)
Fixpoint dict_set (k v : obj) (kvs : list (obj * obj)) : list (obj * obj) :=
  match kvs with
  | [] => [(k, v)]
  | (k', v') :: r => if obj_pyeq k' k then (k', v) :: r else (k', v') :: dict_set k v r
  end.
Fixpoint dict_set_all (ps : list (obj * obj)) (kvs : list (obj * obj)) : option (list (obj * obj)) :=
  match ps with
  | [] => Some kvs
  | (k, v) :: r => if hashable k then dict_set_all r (dict_set k v kvs) else None
  end.
Definition set_add (x : obj) (xs : list obj) : list obj :=
  if existsb (obj_pyeq x) xs then xs else (xs ++ [x])%list.
Fixpoint set_add_all (items : list obj) (xs : list obj) : option (list obj) :=
  match items with
  | [] => Some xs
  | x :: r => if hashable x then set_add_all r (set_add x xs) else None
  end.

(* list[i] = v through PyObject_SetItem (SETITEM on a list target) *)
Fixpoint list_set_nth (n : nat) (v : obj) (xs : list obj) : list obj :=
  match xs, n with
  | [], _ => []
  | _ :: r, O => v :: r
  | x :: r, S n' => x :: list_set_nth n' v r
  end.
Definition list_index (k : obj) (len : nat) : option nat :=
  match k with
  | OInt z => if (Z.leb 0 z && Z.ltb z (Z.of_nat len))%bool then Some (Z.to_nat z)
              else if (Z.ltb z 0 && Z.leb (- Z.of_nat len) z)%bool then Some (Z.to_nat (Z.of_nat len + z))
              else None
  | OBool b => if Nat.ltb (if b then 1 else 0) len then Some (if b then 1 else 0)%nat else None
  | _ => None
  end.
Fixpoint list_set_all (ps : list (obj * obj)) (xs : list obj) : option (list obj) :=
  match ps with
  | [] => Some xs
  | (k, v) :: r => match list_index k (List.length xs) with
                   | Some n => list_set_all r (list_set_nth n v xs)
                   | None => None
                   end
  end.

Definition memo_put (i : Z) (v : obj) (m : list (Z * obj)) : list (Z * obj) :=
  (fix go (m : list (Z * obj)) : list (Z * obj) :=
     match m with
     | [] => [(i, v)]
     | (j, x) :: r => if Z.eqb i j then (j, v) :: r else (j, x) :: go r
     end) m.
Fixpoint memo_get (i : Z) (m : list (Z * obj)) : option obj :=
  match m with
  | [] => None
  | (j, x) :: r => if Z.eqb i j then Some x else memo_get i r
  end.

(* the mutable object [c] (identity [i]) replaces all its copies *)
Definition mutate (i : nat) (c : obj) (st : state) : state :=
  mkState (map (subst i c) (stack st))
          (map (fun p => (fst p, subst i c (snd p))) (memo st))
          (next st) (ecache st) (trace st).

Definition NONE_TYPE_PID : pystr := s2p "<<NoneType>>".
(* _RestrictedUnpickler.persistent_load: NoneType for the one id, else (implicitly) None *)
Definition persistent_load (pid : obj) : obj :=
  match pid with
  | OStr s => if pystr_eqb s NONE_TYPE_PID then ONoneType else ONone
  | _ => ONone
  end.

Definition is_type (o : obj) : bool :=
  match o with OGlobal _ _ GType | ONoneType => true | _ => false end.

(* the object a successful find_class hands to the machine *)
Definition glob_obj (m n : pystr) (g : gkind) : obj :=
  match g with GNone => ONone | _ => OGlobal m n g end.

(* a global lookup on behalf of an opcode: find_class decides, then the object is pushed *)
Definition do_global (w : world) (st : state) (m n : pystr) (k : state -> obj -> sres) : sres :=
  match find_class w m n with
  | FCForbidden => SFail (Forbidden m n) st
  | FCNoModule => SFail (ModuleNotFound m n) st
  | FCNoAttr => SFail (AttrError m n) st
  | FCResolved g => k (emit (EResolve m n) st) (glob_obj m n g)
  end.

(* callee applied to args / cls.__new__ applied to cls and args / instantiate(cls, args) *)
Definition do_call (w : world) (st : state) (k : ckind) (callee args : obj) (rest : list obj) : sres :=
  let st1 := emit (ECall k callee args) st in
  if call_ok w k callee args
  then SNext (fresh (set_stack st1 (OInst (next st) k callee args [] :: rest)))
  else SFail CallRaised st1.

(* the C unpickler's memo is an ARRAY: an explicit index i makes it grow to 2*i slots (zero-filled).  Whether
   that allocation succeeds for an absurd index depends on the machine; above this bound the model stops *)
Definition MEMO_MAX : Z := 67108864.    (* 2^26: a 1 GiB array *)

Definition do_put (st : state) (i : Z) : sres :=
  match pop1 (stack st) with
  | None => SFail Underflow st
  | Some (v, _) => SNext (mkState (stack st) (memo_put i v (memo st)) (next st) (ecache st) (trace st))
  end.
Definition do_get (st : state) (i : Z) : sres :=
  match memo_get i (memo st) with
  | None => SFail MemoMiss st
  | Some v => SNext (push v st)
  end.

Definition do_ext (w : world) (st : state) (code : Z) : sres :=
  if Z.leb code 0 then SFail BadArg st else
  match memo_get code (ecache st) with
  | Some o => SNext (push o (emit (EExtCached code o) st))       (* no find_class! *)
  | None =>
      match ext_registry w code with
      | None => SFail BadArg st                                  (* unregistered extension code *)
      | Some (m, n) =>
          do_global w st m n (fun st1 g =>
            SNext (push g (mkState (stack st1) (memo st1) (next st1)
                                   (memo_put code g (ecache st1)) (trace st1))))
      end
  end.

(* APPEND(S) / SETITEM(S) / ADDITEMS after the items have been taken off:
   [items] in push order, [below] = the stack under them (target on top) *)
Definition do_extend (st : state) (items below : list obj) : sres :=
  match pop1 below with
  | None => SFail Underflow st
  | Some (target, _) =>
      match items with
      | [] => SNext (set_stack st below)            (* nothing to do: the target is not inspected *)
      | _ =>
          match target with
          | OList i xs => SNext (mutate i (OList i (xs ++ items)) (set_stack st below))
          | OInst _ _ _ _ _ | OByteArray _ => SFail OutOfModel st    (* extend / append of an arbitrary object *)
          | _ => SFail BadOperand st                (* no extend/append attribute *)
          end
      end
  end.

Definition do_setitems (st : state) (items below : list obj) : sres :=
  match pop1 below with
  | None => SFail Underflow st
  | Some (target, _) =>
      match items with
      | [] => SNext (set_stack st below)
      | _ =>
          match pairs_of items with
          | None => SFail BadOperand st             (* odd number of items for SETITEMS *)
          | Some ps =>
              match target with
              | ODict i kvs =>
                  match dict_set_all ps kvs with
                  | Some kvs' => SNext (mutate i (ODict i kvs') (set_stack st below))
                  | None => SFail Unhashable st
                  end
              | OList i xs =>                       (* PyObject_SetItem on a list: xs[k] = v *)
                  match list_set_all ps xs with
                  | Some xs' => SNext (mutate i (OList i xs') (set_stack st below))
                  | None => SFail BadOperand st
                  end
              | OInst _ _ _ _ _ | OByteArray _ => SFail OutOfModel st   (* __setitem__ of an arbitrary object *)
              | _ => SFail BadOperand st            (* object does not support item assignment *)
              end
          end
      end
  end.

Definition do_additems (st : state) (items below : list obj) : sres :=
  match pop1 below with
  | None => SFail Underflow st
  | Some (target, _) =>
      match items with
      | [] => SNext (set_stack st below)
      | _ =>
          match target with
          | OSet i xs =>
              match set_add_all items xs with
              | Some xs' => SNext (mutate i (OSet i xs') (set_stack st below))
              | None => SFail Unhashable st
              end
          | OInst _ _ _ _ _ => SFail OutOfModel st  (* add of an arbitrary object *)
          | _ => SFail BadOperand st                (* no add attribute (frozenset, bytearray included) *)
          end
      end
  end.

Definition with_mark (st : state) (k : list obj -> list obj -> sres) : sres :=
  match to_mark (stack st) [] with
  | None => SFail NoMark st
  | Some (items, below) => k items below
  end.

(* the textual forms GLOBAL / INST read two newline-terminated lines; an empty
   line is rejected by the reader (bad_readline) before find_class is asked *)
Definition empty_line (s : pystr) : bool := match s with [] => true | _ => false end.

Definition step (w : world) (st : state) (o : op) : sres :=
  match o with
  | PROTO n => if (Z.leb 0 n && Z.leb n 5)%bool then SNext st else SFail BadArg st
  | FRAME _ => SNext st
  | STOP => match pop1 (stack st) with
            | Some (v, r) => SStop v (set_stack st r)
            | None => SFail Underflow st
            end
  | POP => match stack st with
           | [] => SFail Underflow st
           | _ :: r => SNext (set_stack st r)       (* a mark on top is popped as well *)
           end
  | POP_MARK => with_mark st (fun _ below => SNext (set_stack st below))
  | DUP => match pop1 (stack st) with
           | Some (v, _) => SNext (push v st)
           | None => SFail Underflow st
           end
  | MARK => SNext (push OMark st)
  | MEMOIZE => do_put st (Z.of_nat (List.length (memo st)))
  | PUT i => if Z.ltb i 0 then SFail BadArg st
             else if Z.ltb MEMO_MAX i then SFail OutOfModel st else do_put st i
  | BINPUT i => do_put st i
  | LONG_BINPUT i => if Z.ltb MEMO_MAX i then SFail OutOfModel st else do_put st i
  | GET i | BINGET i | LONG_BINGET i => do_get st i
  | NONE => SNext (push ONone st)
  | NEWTRUE => SNext (push (OBool true) st)
  | NEWFALSE => SNext (push (OBool false) st)
  | INTB b => SNext (push (OBool b) st)
  | INT z | BININT z | BININT1 z | BININT2 z | LONG z | LONG1 z | LONG4 z => SNext (push (OInt z) st)
  | FLOAT f | BINFLOAT f => SNext (push (OFloat f) st)
  | UNICODE s | BINUNICODE s | SHORT_BINUNICODE s | BINUNICODE8 s => SNext (push (OStr s) st)
  | BINBYTES s | SHORT_BINBYTES s | BINBYTES8 s => SNext (push (OBytes s) st)
  | EMPTY_LIST => SNext (fresh (push (OList (next st) []) st))
  | EMPTY_DICT => SNext (fresh (push (ODict (next st) []) st))
  | EMPTY_SET => SNext (fresh (push (OSet (next st) []) st))
  | EMPTY_TUPLE => SNext (push (OTuple []) st)
  | APPEND => match pop1 (stack st) with
              | Some (v, below) => do_extend st [v] below
              | None => SFail Underflow st
              end
  | APPENDS => with_mark st (do_extend st)
  | SETITEM => match pop1 (stack st) with
               | Some (v, r) => match pop1 r with
                                | Some (k, below) => do_setitems st [k; v] below
                                | None => SFail Underflow st
                                end
               | None => SFail Underflow st
               end
  | SETITEMS => with_mark st (do_setitems st)
  | ADDITEMS => with_mark st (do_additems st)
  | TUPLE => with_mark st (fun items below => SNext (set_stack st (OTuple items :: below)))
  | TUPLE1 => match pop1 (stack st) with
              | Some (a, r) => SNext (set_stack st (OTuple [a] :: r))
              | None => SFail Underflow st
              end
  | TUPLE2 => match pop1 (stack st) with
              | Some (b, r) => match pop1 r with
                               | Some (a, r') => SNext (set_stack st (OTuple [a; b] :: r'))
                               | None => SFail Underflow st
                               end
              | None => SFail Underflow st
              end
  | TUPLE3 => match pop1 (stack st) with
              | Some (c, r) =>
                  match pop1 r with
                  | Some (b, r') => match pop1 r' with
                                    | Some (a, r'') => SNext (set_stack st (OTuple [a; b; c] :: r''))
                                    | None => SFail Underflow st
                                    end
                  | None => SFail Underflow st
                  end
              | None => SFail Underflow st
              end
  | LIST => with_mark st (fun items below => SNext (fresh (set_stack st (OList (next st) items :: below))))
  | FROZENSET => with_mark st (fun items below =>
                   match set_add_all items [] with
                   | Some xs => SNext (set_stack st (OFrozen xs :: below))
                   | None => SFail Unhashable st
                   end)
  | DICT => with_mark st (fun items below =>
              match pairs_of items with
              | None => SFail BadOperand st          (* odd number of items for DICT *)
              | Some ps => match dict_set_all ps [] with
                           | Some kvs => SNext (fresh (set_stack st (ODict (next st) kvs :: below)))
                           | None => SFail Unhashable st
                           end
              end)
  | GLOBAL m n =>
      if empty_line m || empty_line n then SFail BadOperand st      (* bad_readline *)
      else do_global w st m n (fun st1 g => SNext (push g st1))
  | STACK_GLOBAL =>
      match pop1 (stack st) with
      | Some (n, r) =>
          match pop1 r with
          | Some (m, r') =>
              match m, n with
              | OStr ms, OStr ns => do_global w (set_stack st r') ms ns (fun st1 g => SNext (push g st1))
              | _, _ => SFail BadOperand st          (* STACK_GLOBAL requires str *)
              end
          | None => SFail Underflow st
          end
      | None => SFail Underflow st
      end
  | INST m n =>
      with_mark st (fun items below =>
        if empty_line m || empty_line n then SFail BadOperand st    (* bad_readline *)
        else do_global w (set_stack st below) m n (fun st1 g => do_call w st1 KInst g (OTuple items) below))
  | OBJ =>
      with_mark st (fun items below =>
        match items with
        | [] => SFail Underflow st
        | cls :: args => do_call w (set_stack st below) KObj cls (OTuple args) below
        end)
  | NEWOBJ =>
      match pop1 (stack st) with
      | Some (args, r) =>
          match args with
          | OTuple _ =>
              match pop1 r with
              | Some (cls, r') =>
                  if is_type cls then do_call w (set_stack st r') KNewobj cls args r'
                  else SFail BadOperand st           (* NEWOBJ class argument isn't a type object *)
              | None => SFail Underflow st
              end
          | _ => SFail BadOperand st                 (* NEWOBJ expected an arg tuple *)
          end
      | None => SFail Underflow st
      end
  | NEWOBJ_EX =>
      match pop1 (stack st) with
      | Some (kwargs, r) =>
          match pop1 r with
          | Some (args, r') =>
              match pop1 r' with
              | Some (cls, r'') =>
                  if is_type cls then
                    match args, kwargs with
                    | OTuple _, ODict _ _ => do_call w (set_stack st r'') KNewobjEx cls (OTuple [args; kwargs]) r''
                    | _, _ => SFail BadOperand st
                    end
                  else SFail BadOperand st
              | None => SFail Underflow st
              end
          | None => SFail Underflow st
          end
      | None => SFail Underflow st
      end
  | REDUCE =>
      match pop1 (stack st) with
      | Some (args, r) =>
          match pop1 r with
          | Some (callee, r') =>
              match args with
              | OTuple _ => do_call w (set_stack st r') KReduce callee args r'
              | _ => SFail BadOperand st             (* argument list must be a tuple *)
              end
          | None => SFail Underflow st
          end
      | None => SFail Underflow st
      end
  | BUILD =>
      match pop1 (stack st) with
      | Some (state_, r) =>
          match pop1 r with
          | Some (inst, _) =>
              let st1 := emit (EBuild inst state_) (set_stack st r) in
              if build_ok w inst state_ then
                match inst with
                | OInst i k f a sts => SNext (mutate i (OInst i k f a (sts ++ [state_])) st1)
                | _ => SNext st1
                end
              else SFail BuildRaised st1
          | None => SFail Underflow st
          end
      | None => SFail Underflow st
      end
  | BINPERSID =>
      match pop1 (stack st) with
      | Some (pid, r) => SNext (set_stack (emit (EPersist pid) st) (persistent_load pid :: r))
      | None => SFail Underflow st
      end
  | PERSID s => SNext (push (persistent_load (OStr s)) (emit (EPersist (OStr s)) st))
  | EXT1 c | EXT2 c | EXT4 c => do_ext w st c
  | STRING s | BINSTRING s | SHORT_BINSTRING s => SNext (push (OStr s) st)
  | BYTEARRAY8 s => SNext (push (OByteArray s) st)
  | NEXT_BUFFER => SFail BadOperand st              (* no out-of-band buffers were given to the unpickler *)
  | READONLY_BUFFER =>
      match pop1 (stack st) with
      | Some (OBytes _, _) => SNext st              (* bytes is read-only already: left as it is *)
      | Some (OByteArray _, _) => SFail OutOfModel st   (* replaced by a read-only memoryview *)
      | Some _ => SFail BadOperand st               (* memoryview: a bytes-like object is required *)
      | None => SFail Underflow st
      end
  end.

(** * Running a program *)

Inductive outcome := Done (v : obj) | Err (e : err).
Definition result := (outcome * list event)%type.     (* events oldest first *)

Fixpoint run (w : world) (st : state) (prog : list op) : result :=
  match prog with
  | [] => (Err Truncated, rev (trace st))
  | o :: r =>
      match step w st o with
      | SNext s => run w s r
      | SStop v s => (Done v, rev (trace s))
      | SFail e s => (Err e, rev (trace s))
      end
  end.

Definition init (w : world) : state := mkState [] [] 0 (ext_cache0 w) [].
Definition vm_run (w : world) (prog : list op) : result := run w (init w) prog.

(** * The default process: what find_class finds for the built-in allow-list
    (measured by the correspondence check: harness/props/c15.py, "default world") *)
Local Open Scope string_scope.
Definition default_modules : list pystr :=
  map s2p ["builtins"; "datetime"; "decimal"; "uuid"; "orderly_set"; "orderly_set.sets";
           "deepdiff"; "deepdiff.helper"; "collections"; "re"].
Definition default_found : list (pystr * pystr * gkind) :=
  map (fun t => (s2p (fst (fst t)), s2p (snd (fst t)), snd t)) [
    ("builtins", "range", GType); ("builtins", "complex", GType); ("builtins", "set", GType);
    ("builtins", "frozenset", GType); ("builtins", "slice", GType); ("builtins", "str", GType);
    ("builtins", "bytes", GType); ("builtins", "list", GType); ("builtins", "tuple", GType);
    ("builtins", "int", GType); ("builtins", "float", GType); ("builtins", "dict", GType);
    ("builtins", "bool", GType); ("builtins", "bin", GFunc); ("builtins", "None", GNone);
    ("datetime", "datetime", GType); ("datetime", "time", GType); ("datetime", "timedelta", GType);
    ("decimal", "Decimal", GType); ("uuid", "UUID", GType);
    ("orderly_set.sets", "OrderedSet", GType); ("orderly_set.sets", "OrderlySet", GType);
    ("orderly_set.sets", "StableSetEq", GType);
    ("deepdiff.helper", "SetOrdered", GType); ("deepdiff.helper", "Opcode", GType);
    ("collections", "namedtuple", GFunc); ("collections", "OrderedDict", GType);
    ("re", "Pattern", GType) ].
Local Close Scope string_scope.
Definition default_lookup (m n : pystr) : lookup_res :=
  if mem_str m default_modules then
    match find (fun t => pystr_eqb (fst (fst t)) m && pystr_eqb (snd (fst t)) n) default_found with
    | Some t => Found (snd t)
    | None => NoAttr
    end
  else NoModule.
(* no safe_to_import, empty extension registry and cache, constructors accept their arguments *)
Definition default_world : world :=
  mkWorld SAFE_TO_IMPORT default_lookup (fun _ _ _ => true) (fun _ _ => true) [] (fun _ => None).

(** Pickle/BytesProofs.v - facts about the byte layer (Pickle/Bytes.v):
    the decoder is total and fuel-independent, ignores what follows STOP,
    coincides with plain sequential reading when no frame bytes are skipped,
    inverts the assembler (so the assembler is uniquely decodable), and the C15
    theorems of PickleProofs.v hold of the machine run on raw bytes. *)
From Coq Require Import List ZArith NArith Bool Arith Lia.
Import ListNotations.
From DD Require Import Base.PyStr Path.PathModel Path.PathLex Pickle.Vm Pickle.Codec Pickle.PickleProofs Pickle.CodecProofs Pickle.Bytes.
Local Open Scope N_scope.

(** * take / split_nl *)

Lemma take_spec : forall l n a b, take n l = Some (a, b) -> l = (a ++ b)%list /\ len a = n.
Proof.
  induction l as [|x r IH]; intros n a b H; cbn in H.
  - destruct (n =? 0) eqn:E; [|discriminate]. inversion H; subst. apply N.eqb_eq in E. subst. split; reflexivity.
  - destruct (n =? 0) eqn:E.
    + inversion H; subst. apply N.eqb_eq in E. subst. split; reflexivity.
    + destruct (take (N.pred n) r) as [[a' b']|] eqn:T; [|discriminate]. inversion H; subst.
      destruct (IH _ _ _ T) as [-> Hl]. split; [reflexivity|].
      unfold len in *. cbn [List.length]. apply N.eqb_neq in E. lia.
Qed.

Lemma take_app : forall a b, take (len a) (a ++ b) = Some (a, b).
Proof.
  induction a as [|x r IH]; intro b.
  - unfold len. cbn. destruct b; reflexivity.
  - unfold len in *. cbn [List.length app take].
    replace (N.of_nat (S (List.length r)) =? 0) with false by (symmetry; apply N.eqb_neq; lia).
    replace (N.pred (N.of_nat (S (List.length r)))) with (N.of_nat (List.length r)) by lia.
    rewrite IH. reflexivity.
Qed.

Lemma take_ext : forall l n a b j, take n l = Some (a, b) -> take n (l ++ j) = Some (a, (b ++ j)%list).
Proof.
  intros l n a b j H. destruct (take_spec _ _ _ _ H) as [-> Hl]. subst n.
  rewrite <- app_assoc. apply take_app.
Qed.

Lemma take_none : forall l n, take n l = None <-> len l < n.
Proof.
  induction l as [|x r IH]; intro n; cbn.
  - unfold len. cbn. destruct (n =? 0) eqn:E.
    + apply N.eqb_eq in E. split; [discriminate | lia].
    + apply N.eqb_neq in E. split; [lia | reflexivity].
  - destruct (n =? 0) eqn:E.
    + apply N.eqb_eq in E. split; [discriminate | unfold len; lia].
    + apply N.eqb_neq in E. destruct (take (N.pred n) r) as [[a b]|] eqn:T.
      * split; [discriminate|]. intro H. exfalso.
        assert (Hn : take (N.pred n) r = None) by (apply IH; unfold len in *; cbn [List.length] in H; lia).
        congruence.
      * split; [|reflexivity]. intros _. apply IH in T. unfold len in *. cbn [List.length]. lia.
Qed.

Lemma take_some : forall l n, n <= len l -> exists a b, take n l = Some (a, b).
Proof.
  intros l n H. destruct (take n l) as [[a b]|] eqn:T; [eauto|]. apply take_none in T. lia.
Qed.

(* past the end of the first part: the rest comes from the second *)
Lemma take_app_long : forall a f n, len a < n ->
  take n (a ++ f) = match take (n - len a) f with Some (x, y) => Some ((a ++ x)%list, y) | None => None end.
Proof.
  induction a as [|x r IH]; intros f n H.
  - unfold len. cbn. rewrite N.sub_0_r. destruct (take n f) as [[u v]|]; reflexivity.
  - unfold len in *. cbn [List.length app take] in *.
    replace (n =? 0) with false by (symmetry; apply N.eqb_neq; lia).
    rewrite IH by lia.
    replace (N.pred n - N.of_nat (List.length r)) with (n - N.of_nat (S (List.length r))) by lia.
    destruct (take _ f) as [[u v]|]; reflexivity.
Qed.

Lemma split_nl_spec : forall l a b, split_nl l = Some (a, b) -> l = (a ++ 10 :: b)%list /\ no_nl a = true.
Proof.
  induction l as [|x r IH]; intros a b H; cbn in H; [discriminate|].
  destruct (x =? 10) eqn:E.
  - inversion H; subst. apply N.eqb_eq in E. subst. split; reflexivity.
  - destruct (split_nl r) as [[a' b']|] eqn:S; [|discriminate]. inversion H; subst.
    destruct (IH _ _ eq_refl) as [-> Hn]. split; [reflexivity|]. unfold no_nl in *. cbn. rewrite E, Hn. reflexivity.
Qed.

Lemma split_nl_app : forall a b, no_nl a = true -> split_nl (a ++ 10 :: b) = Some (a, b).
Proof.
  unfold no_nl. induction a as [|x r IH]; intros b H; cbn in *; [reflexivity|].
  apply andb_true_iff in H. destruct H as [Hx Hr]. apply negb_true_iff in Hx. rewrite Hx, (IH _ Hr). reflexivity.
Qed.

Lemma split_nl_ext : forall l a b j, split_nl l = Some (a, b) -> split_nl (l ++ j) = Some (a, (b ++ j)%list).
Proof.
  intros l a b j H. destruct (split_nl_spec _ _ _ H) as [-> Hn].
  rewrite <- app_assoc. cbn. apply split_nl_app. exact Hn.
Qed.

Lemma split_nl_none_app : forall a f, split_nl a = None ->
  split_nl (a ++ f) = match split_nl f with Some (x, y) => Some ((a ++ x)%list, y) | None => None end.
Proof.
  induction a as [|x r IH]; intros f H; cbn in *.
  - destruct (split_nl f) as [[u v]|]; reflexivity.
  - destruct (x =? 10); [discriminate|]. destruct (split_nl r) as [[u v]|] eqn:S; [discriminate|].
    rewrite (IH f eq_refl). destruct (split_nl f) as [[u v]|]; reflexivity.
Qed.

(** * The reader: sizes, the skip flag *)

Definition rsize (r : rd) : nat := (List.length (rbuf r) + List.length (rfile r))%nat.

Definition le_size {A : Type} (m : M A) : Prop :=
  forall r a r', m r = ROk a r' -> (rsize r' <= rsize r)%nat.

Lemma take_len : forall l n a b, take n l = Some (a, b) -> List.length l = (List.length a + List.length b)%nat.
Proof. intros l n a b H. destruct (take_spec _ _ _ _ H) as [-> _]. apply app_length. Qed.
Lemma split_nl_len : forall l a b, split_nl l = Some (a, b) -> List.length l = S (List.length a + List.length b)%nat.
Proof. intros l a b H. destruct (split_nl_spec _ _ _ H) as [-> _]. rewrite app_length. cbn. lia. Qed.

Lemma rd_read_size : forall n, le_size (rd_read n).
Proof.
  intros n r a r' H. unfold rd_read in H. unfold rsize.
  destruct (take n (rbuf r)) as [[x y]|] eqn:T.
  - inversion H; subst. cbn. apply take_len in T. lia.
  - destruct (take n (rfile r)) as [[x y]|] eqn:T'; [|discriminate]. inversion H; subst. cbn. apply take_len in T'. lia.
Qed.
Lemma rd_line_size : le_size rd_line.
Proof.
  intros r a r' H. unfold rd_line in H. unfold rsize.
  destruct (split_nl (rbuf r)) as [[x y]|] eqn:T.
  - inversion H; subst. cbn. apply split_nl_len in T. lia.
  - destruct (split_nl (rfile r)) as [[x y]|] eqn:T'; [|discriminate]. inversion H; subst. cbn. apply split_nl_len in T'. lia.
Qed.
Lemma rd_into_size : forall n, le_size (rd_into n).
Proof.
  intros n r a r' H. unfold rd_into in H. unfold rsize.
  destruct (take n (rbuf r)) as [[x y]|] eqn:T.
  - inversion H; subst. cbn. apply take_len in T. lia.
  - destruct (take _ (rfile r)) as [[x y]|] eqn:T'; [|discriminate]. inversion H; subst. cbn. apply take_len in T'. lia.
Qed.
Lemma rd_frame_size : forall fr n, le_size (rd_frame fr n).
Proof.
  intros fr n r a r' H. unfold rd_frame in H. unfold rsize. destruct fr; [|inversion H; subst; lia].
  destruct (take n (rbuf r)) as [[x y]|] eqn:T.
  - inversion H; subst. lia.
  - destruct (take n (rfile r)) as [[x y]|] eqn:T'; [|discriminate]. inversion H; subst. cbn. apply take_len in T'. lia.
Qed.
Lemma ret_size : forall (A : Type) (a : A), le_size (ret a).
Proof. intros A a r x r' H. inversion H; subst. lia. Qed.
Lemma fail_size : forall (A : Type) e, le_size (@fail A e).
Proof. intros A e r x r' H. discriminate. Qed.
Lemma bind_size : forall (A B : Type) (m : M A) (k : A -> M B),
  le_size m -> (forall a, le_size (k a)) -> le_size (bind m k).
Proof.
  intros A B m k Hm Hk r b r' H. unfold bind in H. destruct (m r) as [a r1|e s] eqn:E; [|discriminate].
  pose proof (Hm _ _ _ E). pose proof (Hk a _ _ _ H). lia.
Qed.
Lemma line_ne_size : forall ne, le_size (line_ne ne).
Proof.
  intro ne. apply bind_size; [apply rd_line_size|]. intro l.
  destruct (ne && negb (nonempty l))%bool; [apply fail_size | apply ret_size].
Qed.
Lemma read_arg_size : forall fr sp, le_size (read_arg fr sp).
Proof.
  intros fr sp. destruct sp; cbn [read_arg].
  - apply ret_size.
  - apply bind_size; [apply rd_read_size | intro; apply ret_size].
  - apply bind_size; [apply line_ne_size | intro; apply ret_size].
  - apply bind_size; [apply line_ne_size | intro]. apply bind_size; [apply line_ne_size | intro; apply ret_size].
  - apply bind_size; [apply rd_read_size | intro c].
    destruct (sgn && _)%bool; [apply fail_size|]. destruct (MAXSIZE <? _); [apply fail_size|].
    apply bind_size; [destruct into; [apply rd_into_size | apply rd_read_size] | intro; apply ret_size].
  - apply bind_size; [apply rd_read_size | intro c]. destruct (fr && _)%bool; [apply fail_size|].
    apply bind_size; [apply rd_frame_size | intro; apply ret_size].
Qed.

Lemma fetch_size : forall r b r', fetch r = ROk b r' -> (rsize r' < rsize r)%nat.
Proof.
  intros r b r' H. unfold fetch in H. unfold rsize.
  destruct (rbuf r) as [|x t] eqn:B.
  - destruct (rfile r) as [|y f] eqn:F; [discriminate|]. inversion H; subst. cbn. lia.
  - inversion H; subst. cbn. lia.
Qed.

Lemma decode_op_size : forall d r o r', decode_op d r = ROk o r' -> (rsize r' < rsize r)%nat.
Proof.
  intros d r o r' H. unfold decode_op, bind in H.
  destruct (fetch r) as [b r1|e s] eqn:F; [|discriminate]. apply fetch_size in F.
  destruct (spec_of d b) as [sp|]; [|discriminate].
  destruct (read_arg (dl_framed d) sp r1) as [a r2|e s] eqn:A; [|discriminate]. apply read_arg_size in A.
  destruct (build_op d b a); inversion H; subst. lia.
Qed.

(** * Totality and fuel independence *)

(* the reader and the one-opcode decoder fail only with the genuine reasons *)
Definition benign (e : dend) : bool := match e with DFuel | DStop => false | _ => true end.
Definition okerr {A : Type} (m : M A) : Prop := forall r e s, m r = RErr e s -> benign e = true.

Lemma rd_read_okerr : forall n, okerr (rd_read n).
Proof. intros n r e s. unfold rd_read. destruct (take n (rbuf r)) as [[x y]|]; [discriminate|]. destruct (take n (rfile r)) as [[x y]|]; intro H; inversion H; reflexivity. Qed.
Lemma rd_line_okerr : okerr rd_line.
Proof. intros r e s. unfold rd_line. destruct (split_nl (rbuf r)) as [[x y]|]; [discriminate|]. destruct (split_nl (rfile r)) as [[x y]|]; intro H; inversion H; reflexivity. Qed.
Lemma rd_into_okerr : forall n, okerr (rd_into n).
Proof. intros n r e s. unfold rd_into. destruct (take n (rbuf r)) as [[x y]|]; [discriminate|]. destruct (take _ (rfile r)) as [[x y]|]; intro H; inversion H; reflexivity. Qed.
Lemma rd_frame_okerr : forall fr n, okerr (rd_frame fr n).
Proof.
  intros fr n r e s. unfold rd_frame. destruct fr; [|discriminate].
  destruct (take n (rbuf r)) as [[x y]|]; [discriminate|]. destruct (take n (rfile r)) as [[x y]|]; intro H; inversion H; reflexivity.
Qed.
Lemma ret_okerr : forall (A : Type) (a : A), okerr (ret a).
Proof. intros A a r e s. discriminate. Qed.
Lemma fail_okerr : forall (A : Type) e, benign e = true -> okerr (@fail A e).
Proof. intros A e He r e' s H. inversion H. subst. exact He. Qed.
Lemma bind_okerr : forall (A B : Type) (m : M A) (k : A -> M B),
  okerr m -> (forall a, okerr (k a)) -> okerr (bind m k).
Proof.
  intros A B m k Hm Hk r e s. unfold bind. destruct (m r) as [a r1|e1 s1] eqn:E.
  - apply Hk.
  - intro H. inversion H; subst. apply (Hm _ _ _ E).
Qed.
Lemma line_ne_okerr : forall ne, okerr (line_ne ne).
Proof.
  intro ne. apply bind_okerr; [apply rd_line_okerr|]. intro l.
  destruct (ne && negb (nonempty l))%bool; [apply fail_okerr; reflexivity | apply ret_okerr].
Qed.
Lemma read_arg_okerr : forall fr sp, okerr (read_arg fr sp).
Proof.
  intros fr sp. destruct sp; cbn [read_arg].
  - apply ret_okerr.
  - apply bind_okerr; [apply rd_read_okerr | intro; apply ret_okerr].
  - apply bind_okerr; [apply line_ne_okerr | intro; apply ret_okerr].
  - apply bind_okerr; [apply line_ne_okerr | intro]. apply bind_okerr; [apply line_ne_okerr | intro; apply ret_okerr].
  - apply bind_okerr; [apply rd_read_okerr | intro c].
    destruct (sgn && _)%bool; [apply fail_okerr; reflexivity|]. destruct (MAXSIZE <? _); [apply fail_okerr; reflexivity|].
    apply bind_okerr; [destruct into; [apply rd_into_okerr | apply rd_read_okerr] | intro; apply ret_okerr].
  - apply bind_okerr; [apply rd_read_okerr | intro c]. destruct (fr && _)%bool; [apply fail_okerr; reflexivity|].
    apply bind_okerr; [apply rd_frame_okerr | intro; apply ret_okerr].
Qed.
Lemma fetch_okerr : okerr fetch.
Proof. intros r e s. unfold fetch. destruct (rbuf r); [destruct (rfile r)|]; intro H; inversion H; reflexivity. Qed.
Lemma decode_op_okerr : forall d, okerr (decode_op d).
Proof.
  intro d. apply bind_okerr; [apply fetch_okerr | intro b].
  destruct (spec_of d b) as [sp|]; [|apply fail_okerr; reflexivity].
  apply bind_okerr; [apply read_arg_okerr | intro a].
  destruct (build_op d b a); [apply ret_okerr | apply fail_okerr; reflexivity].
Qed.

Lemma decode_loop_no_fuel : forall d fuel r, (rsize r < fuel)%nat ->
  snd (fst (decode_loop d fuel r)) <> DFuel.
Proof.
  intros d. induction fuel as [|f IH]; intros r H; [lia|]. cbn [decode_loop].
  destruct (decode_op d r) as [o r'|e s] eqn:E.
  - destruct (is_stop o); [cbn; discriminate|].
    apply decode_op_size in E. specialize (IH r' ltac:(lia)).
    destruct (decode_loop d f r') as [[ops e] s]. exact IH.
  - cbn. intro Hc. subst e. pose proof (decode_op_okerr d _ _ _ E) as Hb. discriminate Hb.
Qed.

(* the decoder never runs out of fuel *)
Theorem bdecode_no_fuel : forall d bs, bdecode_end d bs <> DFuel.
Proof. intros d bs. unfold bdecode_end, bdecode. apply decode_loop_no_fuel. unfold rsize, start. cbn. lia. Qed.

Lemma decode_loop_more_fuel : forall d f r ops e s, decode_loop d f r = (ops, e, s) -> e <> DFuel ->
  forall f', (f <= f')%nat -> decode_loop d f' r = (ops, e, s).
Proof.
  intros d. induction f as [|f IH]; intros r ops e s H Hne f' Hle; cbn in H.
  - inversion H; subst. congruence.
  - destruct f' as [|f']; [lia|]. cbn [decode_loop].
    destruct (decode_op d r) as [o r'|e1 s1]; [|exact H].
    destruct (is_stop o); [exact H|].
    destruct (decode_loop d f r') as [[ops1 e1] s1] eqn:E. inversion H; subst.
    rewrite (IH _ _ _ _ E Hne f' ltac:(lia)). reflexivity.
Qed.

(** * What follows STOP is ignored *)

Definition ext (j : list N) (r : rd) : rd := mkRd (rbuf r) (rfile r ++ j) (rskip r).
Definition ext_ok {A : Type} (j : list N) (m : M A) : Prop :=
  forall r a r', m r = ROk a r' -> m (ext j r) = ROk a (ext j r').

Lemma rd_read_ext : forall j n, ext_ok j (rd_read n).
Proof.
  intros j n r a r' H. unfold rd_read in *. cbn [ext rbuf rfile rskip].
  destruct (take n (rbuf r)) as [[x y]|] eqn:T.
  - inversion H; subst. reflexivity.
  - destruct (take n (rfile r)) as [[x y]|] eqn:T'; [|discriminate]. inversion H; subst.
    rewrite (take_ext _ _ _ _ j T'). reflexivity.
Qed.
Lemma rd_line_ext : forall j, ext_ok j rd_line.
Proof.
  intros j r a r' H. unfold rd_line in *. cbn [ext rbuf rfile rskip].
  destruct (split_nl (rbuf r)) as [[x y]|] eqn:T.
  - inversion H; subst. reflexivity.
  - destruct (split_nl (rfile r)) as [[x y]|] eqn:T'; [|discriminate]. inversion H; subst.
    rewrite (split_nl_ext _ _ _ j T'). reflexivity.
Qed.
Lemma rd_into_ext : forall j n, ext_ok j (rd_into n).
Proof.
  intros j n r a r' H. unfold rd_into in *. cbn [ext rbuf rfile rskip].
  destruct (take n (rbuf r)) as [[x y]|] eqn:T.
  - inversion H; subst. reflexivity.
  - destruct (take _ (rfile r)) as [[x y]|] eqn:T'; [|discriminate]. inversion H; subst.
    rewrite (take_ext _ _ _ _ j T'). reflexivity.
Qed.
Lemma rd_frame_ext : forall j fr n, ext_ok j (rd_frame fr n).
Proof.
  intros j fr n r a r' H. unfold rd_frame in *. cbn [ext rbuf rfile rskip]. destruct fr; [|inversion H; subst; reflexivity].
  destruct (take n (rbuf r)) as [[x y]|] eqn:T.
  - inversion H; subst. reflexivity.
  - destruct (take n (rfile r)) as [[x y]|] eqn:T'; [|discriminate]. inversion H; subst.
    rewrite (take_ext _ _ _ _ j T'). reflexivity.
Qed.
Lemma ret_ext : forall j (A : Type) (a : A), ext_ok j (ret a).
Proof. intros j A a r x r' H. inversion H; subst. reflexivity. Qed.
Lemma fail_ext : forall j (A : Type) e, ext_ok j (@fail A e).
Proof. intros j A e r x r' H. discriminate. Qed.
Lemma bind_ext : forall j (A B : Type) (m : M A) (k : A -> M B),
  ext_ok j m -> (forall a, ext_ok j (k a)) -> ext_ok j (bind m k).
Proof.
  intros j A B m k Hm Hk r b r' H. unfold bind in *. destruct (m r) as [a r1|e s] eqn:E; [|discriminate].
  rewrite (Hm _ _ _ E). apply Hk. exact H.
Qed.
Lemma line_ne_ext : forall j ne, ext_ok j (line_ne ne).
Proof.
  intros j ne. apply bind_ext; [apply rd_line_ext|]. intro l.
  destruct (ne && negb (nonempty l))%bool; [apply fail_ext | apply ret_ext].
Qed.
Lemma read_arg_ext : forall j fr sp, ext_ok j (read_arg fr sp).
Proof.
  intros j fr sp. destruct sp; cbn [read_arg].
  - apply ret_ext.
  - apply bind_ext; [apply rd_read_ext | intro; apply ret_ext].
  - apply bind_ext; [apply line_ne_ext | intro; apply ret_ext].
  - apply bind_ext; [apply line_ne_ext | intro]. apply bind_ext; [apply line_ne_ext | intro; apply ret_ext].
  - apply bind_ext; [apply rd_read_ext | intro c].
    destruct (sgn && _)%bool; [apply fail_ext|]. destruct (MAXSIZE <? _); [apply fail_ext|].
    apply bind_ext; [destruct into; [apply rd_into_ext | apply rd_read_ext] | intro; apply ret_ext].
  - apply bind_ext; [apply rd_read_ext | intro c]. destruct (fr && _)%bool; [apply fail_ext|].
    apply bind_ext; [apply rd_frame_ext | intro; apply ret_ext].
Qed.
Lemma fetch_ext : forall j, ext_ok j fetch.
Proof.
  intros j r b r' H. unfold fetch in *. cbn [ext rbuf rfile rskip].
  destruct (rbuf r) as [|x t]; [|inversion H; subst; reflexivity].
  destruct (rfile r) as [|y f]; [discriminate|]. inversion H; subst. reflexivity.
Qed.
Lemma decode_op_ext : forall j d, ext_ok j (decode_op d).
Proof.
  intros j d. apply bind_ext; [apply fetch_ext | intro b].
  destruct (spec_of d b) as [sp|]; [|apply fail_ext].
  apply bind_ext; [apply read_arg_ext | intro a].
  destruct (build_op d b a); [apply ret_ext | apply fail_ext].
Qed.

Lemma decode_loop_ext : forall j d f r ops s, decode_loop d f r = (ops, DStop, s) ->
  decode_loop d f (ext j r) = (ops, DStop, s).
Proof.
  intros j d. induction f as [|f IH]; intros r ops s H; cbn in H; [inversion H|]. cbn [decode_loop].
  destruct (decode_op d r) as [o r'|e1 s1] eqn:E;
    [|inversion H; subst; pose proof (decode_op_okerr d _ _ _ E) as Hb; discriminate Hb].
  rewrite (decode_op_ext j d _ _ _ E).
  destruct (is_stop o); [exact H|].
  destruct (decode_loop d f r') as [[ops1 e1] s1] eqn:E1. inversion H; subst.
  rewrite (IH _ _ _ E1). reflexivity.
Qed.

(* a stream that decodes up to a STOP decodes to the same opcodes whatever is
   appended: no well-formed stream is a proper prefix of another reading of it *)
Theorem bdecode_stop_ext : forall d bs ops s junk,
  bdecode d bs = (ops, DStop, s) -> bdecode d (bs ++ junk) = (ops, DStop, s).
Proof.
  intros d bs ops s junk H. unfold bdecode in *.
  apply (decode_loop_more_fuel d (S (List.length bs))); [|discriminate|rewrite app_length; lia].
  apply (decode_loop_ext junk) in H. exact H.
Qed.

(** * Without skipped bytes the C reader is the sequential reader *)

Definition lin (r : rd) : rd := mkRd [] (rbuf r ++ rfile r) (rskip r).

(* the flag is sticky *)
Definition mono {A : Type} (m : M A) : Prop :=
  forall r, rskip r = true ->
    (forall a r', m r = ROk a r' -> rskip r' = true) /\ (forall e s, m r = RErr e s -> s = true).
(* [m'] on the flattened input does what [m] does when [m] skips nothing *)
Definition lin_ok {A : Type} (m m' : M A) : Prop :=
  forall r a r', m r = ROk a r' -> rskip r' = false -> m' (lin r) = ROk a (lin r').

Lemma orb_false_l2 : forall a b, a || b = false -> a = false /\ b = false.
Proof. intros [] []; cbn; intro H; try discriminate; auto. Qed.
Lemma nonempty_false : forall l : list N, nonempty l = false -> l = [].
Proof. intros [|x l] H; [reflexivity | discriminate]. Qed.

Lemma rd_read_mono : forall n, mono (rd_read n).
Proof.
  intros n r Hs. unfold rd_read. rewrite Hs. cbn [orb]. split.
  - intros a r' H. destruct (take n (rbuf r)) as [[x y]|]; [inversion H; subst; reflexivity|].
    destruct (take n (rfile r)) as [[x y]|]; inversion H; subst. reflexivity.
  - intros e s H. destruct (take n (rbuf r)) as [[x y]|]; [discriminate|].
    destruct (take n (rfile r)) as [[x y]|]; inversion H; subst. reflexivity.
Qed.
Lemma rd_line_mono : mono rd_line.
Proof.
  intros r Hs. unfold rd_line. rewrite Hs. cbn [orb]. split.
  - intros a r' H. destruct (split_nl (rbuf r)) as [[x y]|]; [inversion H; subst; reflexivity|].
    destruct (split_nl (rfile r)) as [[x y]|]; inversion H; subst. reflexivity.
  - intros e s H. destruct (split_nl (rbuf r)) as [[x y]|]; [discriminate|].
    destruct (split_nl (rfile r)) as [[x y]|]; inversion H; subst. reflexivity.
Qed.
Lemma rd_into_mono : forall n, mono (rd_into n).
Proof.
  intros n r Hs. unfold rd_into. split.
  - intros a r' H. destruct (take n (rbuf r)) as [[x y]|]; [inversion H; subst; exact Hs|].
    destruct (take _ (rfile r)) as [[x y]|]; inversion H; subst. exact Hs.
  - intros e s H. destruct (take n (rbuf r)) as [[x y]|]; [discriminate|].
    destruct (take _ (rfile r)) as [[x y]|]; inversion H; subst. exact Hs.
Qed.
Lemma rd_frame_mono : forall fr n, mono (rd_frame fr n).
Proof.
  intros fr n r Hs. unfold rd_frame. destruct fr; [rewrite Hs; cbn [orb]|].
  - split.
    + intros a r' H. destruct (take n (rbuf r)) as [[x y]|]; [inversion H; subst; exact Hs|].
      destruct (take n (rfile r)) as [[x y]|]; inversion H; subst. reflexivity.
    + intros e s H. destruct (take n (rbuf r)) as [[x y]|]; [discriminate|].
      destruct (take n (rfile r)) as [[x y]|]; inversion H; subst. reflexivity.
  - split; [intros a r' H; inversion H; subst; exact Hs | intros e s H; discriminate].
Qed.
Lemma ret_mono : forall (A : Type) (a : A), mono (ret a).
Proof. intros A a r Hs. split; [intros x r' H; inversion H; subst; exact Hs | intros e s H; discriminate]. Qed.
Lemma fail_mono : forall (A : Type) e, mono (@fail A e).
Proof. intros A e r Hs. split; [intros x r' H; discriminate | intros e' s H; inversion H; subst; exact Hs]. Qed.
Lemma bind_mono : forall (A B : Type) (m : M A) (k : A -> M B),
  mono m -> (forall a, mono (k a)) -> mono (bind m k).
Proof.
  intros A B m k Hm Hk r Hs. destruct (Hm r Hs) as [Hm1 Hm2]. unfold bind. split.
  - intros b r' H. destruct (m r) as [a r1|e s] eqn:E; [|discriminate].
    apply (proj1 (Hk a r1 (Hm1 _ _ eq_refl)) _ _ H).
  - intros e s H. destruct (m r) as [a r1|e1 s1] eqn:E.
    + apply (proj2 (Hk a r1 (Hm1 _ _ eq_refl)) _ _ H).
    + inversion H; subst. apply (Hm2 _ _ eq_refl).
Qed.
Lemma line_ne_mono : forall ne, mono (line_ne ne).
Proof.
  intro ne. apply bind_mono; [apply rd_line_mono|]. intro l.
  destruct (ne && negb (nonempty l))%bool; [apply fail_mono | apply ret_mono].
Qed.
Lemma read_arg_mono : forall fr sp, mono (read_arg fr sp).
Proof.
  intros fr sp. destruct sp; cbn [read_arg].
  - apply ret_mono.
  - apply bind_mono; [apply rd_read_mono | intro; apply ret_mono].
  - apply bind_mono; [apply line_ne_mono | intro; apply ret_mono].
  - apply bind_mono; [apply line_ne_mono | intro]. apply bind_mono; [apply line_ne_mono | intro; apply ret_mono].
  - apply bind_mono; [apply rd_read_mono | intro c].
    destruct (sgn && _)%bool; [apply fail_mono|]. destruct (MAXSIZE <? _); [apply fail_mono|].
    apply bind_mono; [destruct into; [apply rd_into_mono | apply rd_read_mono] | intro; apply ret_mono].
  - apply bind_mono; [apply rd_read_mono | intro c]. destruct (fr && _)%bool; [apply fail_mono|].
    apply bind_mono; [apply rd_frame_mono | intro; apply ret_mono].
Qed.
Lemma fetch_mono : mono fetch.
Proof.
  intros r Hs. unfold fetch. split.
  - intros b r' H. destruct (rbuf r); [destruct (rfile r)|]; inversion H; subst; exact Hs.
  - intros e s H. destruct (rbuf r); [destruct (rfile r)|]; inversion H; subst; exact Hs.
Qed.
Lemma decode_op_mono : forall d, mono (decode_op d).
Proof.
  intro d. apply bind_mono; [apply fetch_mono | intro b].
  destruct (spec_of d b) as [sp|]; [|apply fail_mono].
  apply bind_mono; [apply read_arg_mono | intro a].
  destruct (build_op d b a); [apply ret_mono | apply fail_mono].
Qed.

Lemma take_nil_some : forall n a b, take n [] = Some (a, b) -> n = 0 /\ a = [] /\ b = [].
Proof. intros n a b H. cbn in H. destruct (n =? 0) eqn:E; [|discriminate]. apply N.eqb_eq in E. inversion H; auto. Qed.

Lemma rd_read_lin : forall n, lin_ok (rd_read n) (rd_read n).
Proof.
  intros n r a r' H Hs. unfold rd_read, lin in *. cbn [rbuf rfile rskip].
  destruct (take n (rbuf r)) as [[x y]|] eqn:T.
  - inversion H; subst. cbn [rbuf rfile rskip] in *.
    destruct (take n []) as [[u v]|] eqn:T0.
    + destruct (take_nil_some _ _ _ T0) as [-> [-> ->]]. destruct (take_spec _ _ _ _ T) as [Hb Hl].
      destruct a; [|unfold len in Hl; cbn in Hl; lia]. cbn in Hb. rewrite Hb. reflexivity.
    + cbn [nonempty orb]. rewrite orb_false_r.
      rewrite (take_ext _ _ _ _ (rfile r) T). reflexivity.
  - destruct (take n (rfile r)) as [[x y]|] eqn:T'; [|discriminate]. inversion H; subst. cbn [rbuf rfile rskip] in *.
    apply orb_false_l2 in Hs. destruct Hs as [Hs Hb]. apply nonempty_false in Hb. rewrite Hb in *. cbn [app].
    rewrite T, T'. rewrite Hs. reflexivity.
Qed.

Lemma rd_line_lin : lin_ok rd_line rd_line.
Proof.
  intros r a r' H Hs. unfold rd_line, lin in *. cbn [rbuf rfile rskip split_nl].
  destruct (split_nl (rbuf r)) as [[x y]|] eqn:T.
  - inversion H; subst. cbn [rbuf rfile rskip] in *. cbn [nonempty orb]. rewrite orb_false_r.
    rewrite (split_nl_ext _ _ _ (rfile r) T). reflexivity.
  - destruct (split_nl (rfile r)) as [[x y]|] eqn:T'; [|discriminate]. inversion H; subst. cbn [rbuf rfile rskip] in *.
    apply orb_false_l2 in Hs. destruct Hs as [Hs Hb]. apply nonempty_false in Hb. rewrite Hb in *. cbn [app].
    rewrite T', Hs. reflexivity.
Qed.

Lemma rd_into_lin : forall n, lin_ok (rd_into n) (rd_into n).
Proof.
  intros n r a r' H Hs. unfold rd_into, lin in *. cbn [rbuf rfile rskip List.length]. rewrite N.sub_0_r.
  destruct (take n (rbuf r)) as [[x y]|] eqn:T.
  - inversion H; subst. cbn [rbuf rfile rskip] in *.
    destruct (take n []) as [[u v]|] eqn:T0.
    + destruct (take_nil_some _ _ _ T0) as [-> [-> ->]]. destruct (take_spec _ _ _ _ T) as [Hb Hl].
      destruct a; [|unfold len in Hl; cbn in Hl; lia]. cbn in Hb. rewrite Hb. reflexivity.
    + rewrite (take_ext _ _ _ _ (rfile r) T). reflexivity.
  - destruct (take _ (rfile r)) as [[x y]|] eqn:T'; [|discriminate]. inversion H; subst. cbn [rbuf rfile rskip] in *.
    apply take_none in T.
    destruct (take n []) as [[u v]|] eqn:T0.
    + destruct (take_nil_some _ _ _ T0) as [-> _]. lia.
    + rewrite (take_app_long _ _ _ T). unfold len. rewrite T'. reflexivity.
Qed.

Lemma rd_frame_lin : forall n, lin_ok (rd_frame true n) (rd_frame false n).
Proof.
  intros n r a r' H Hs. unfold rd_frame, lin in *. cbn [rbuf rfile rskip].
  destruct (take n (rbuf r)) as [[x y]|] eqn:T.
  - inversion H; subst. reflexivity.
  - destruct (take n (rfile r)) as [[x y]|] eqn:T'; [|discriminate]. inversion H; subst. cbn [rbuf rfile rskip] in *.
    apply orb_false_l2 in Hs. destruct Hs as [Hs Hb]. apply nonempty_false in Hb. rewrite Hb. cbn [app].
    destruct (take_spec _ _ _ _ T') as [-> _]. rewrite Hs. reflexivity.
Qed.
Lemma rd_frame_lin_false : forall n, lin_ok (rd_frame false n) (rd_frame false n).
Proof. intros n r a r' H Hs. cbn in *. inversion H; subst. reflexivity. Qed.

Lemma ret_lin : forall (A : Type) (a : A), lin_ok (ret a) (ret a).
Proof. intros A a r x r' H Hs. inversion H; subst. reflexivity. Qed.
Lemma fail_lin : forall (A : Type) e (m' : M A), lin_ok (@fail A e) m'.
Proof. intros A e m' r x r' H. discriminate. Qed.
Lemma bind_lin : forall (A B : Type) (m m' : M A) (k k' : A -> M B),
  lin_ok m m' -> (forall a, lin_ok (k a) (k' a)) -> (forall a, mono (k a)) -> lin_ok (bind m k) (bind m' k').
Proof.
  intros A B m m' k k' Hm Hk Hmono r b r' H Hs. unfold bind in *.
  destruct (m r) as [a r1|e s] eqn:E; [|discriminate].
  assert (Hs1 : rskip r1 = false).
  { destruct (rskip r1) eqn:S; [|reflexivity]. rewrite (proj1 (Hmono a r1 S) _ _ H) in Hs. discriminate. }
  rewrite (Hm _ _ _ E Hs1). apply Hk; assumption.
Qed.
Lemma line_ne_lin : forall ne, lin_ok (line_ne ne) (line_ne ne).
Proof.
  intro ne. apply bind_lin; [apply rd_line_lin | |].
  - intro l. destruct (ne && negb (nonempty l))%bool; [apply fail_lin | apply ret_lin].
  - intro l. destruct (ne && negb (nonempty l))%bool; [apply fail_mono | apply ret_mono].
Qed.
Lemma read_arg_lin : forall sp, lin_ok (read_arg true sp) (read_arg false sp).
Proof.
  intros sp. destruct sp; cbn [read_arg].
  - apply ret_lin.
  - apply bind_lin; [apply rd_read_lin | intro; apply ret_lin | intro; apply ret_mono].
  - apply bind_lin; [apply line_ne_lin | intro; apply ret_lin | intro; apply ret_mono].
  - apply bind_lin; [apply line_ne_lin | intro | intro].
    + apply bind_lin; [apply line_ne_lin | intro; apply ret_lin | intro; apply ret_mono].
    + apply bind_mono; [apply line_ne_mono | intro; apply ret_mono].
  - apply bind_lin; [apply rd_read_lin | intro c | intro c].
    + destruct (sgn && _)%bool; [apply fail_lin|]. destruct (MAXSIZE <? _); [apply fail_lin|].
      apply bind_lin; [destruct into; [apply rd_into_lin | apply rd_read_lin] | intro; apply ret_lin | intro; apply ret_mono].
    + destruct (sgn && _)%bool; [apply fail_mono|]. destruct (MAXSIZE <? _); [apply fail_mono|].
      apply bind_mono; [destruct into; [apply rd_into_mono | apply rd_read_mono] | intro; apply ret_mono].
  - apply bind_lin; [apply rd_read_lin | intro c | intro c].
    + cbn [andb]. destruct (MAXSIZE <? _); [apply fail_lin|].
      apply bind_lin; [apply rd_frame_lin | intro; apply ret_lin | intro; apply ret_mono].
    + cbn [andb]. destruct (MAXSIZE <? _); [apply fail_mono|].
      apply bind_mono; [apply rd_frame_mono | intro; apply ret_mono].
Qed.
Lemma fetch_lin : lin_ok fetch fetch.
Proof.
  intros r b r' H Hs. unfold fetch, lin in *. cbn [rbuf rfile rskip].
  destruct (rbuf r) as [|x t].
  - destruct (rfile r) as [|y f]; [discriminate|]. inversion H; subst. reflexivity.
  - inversion H; subst. reflexivity.
Qed.

(* the same dialect read sequentially (what pickletools does with FRAME) *)
Definition unframed (d : dialect) : dialect :=
  mkDialect false (dl_ne d) (dl_int d) (dl_long d) (dl_idx d) (dl_float d) (dl_name d) (dl_iname d) (dl_pid d)
            (dl_utext d) (dl_string d) (dl_binstr d).

Lemma decode_op_lin : forall d, dl_framed d = true -> lin_ok (decode_op d) (decode_op (unframed d)).
Proof.
  intros d Hf. unfold decode_op. apply bind_lin; [apply fetch_lin | intro b | intro b].
  - change (spec_of (unframed d) b) with (spec_of d b).
    destruct (spec_of d b) as [sp|]; [|apply fail_lin].
    rewrite Hf. cbn [unframed dl_framed].
    apply bind_lin; [apply read_arg_lin | intro a | intro a].
    + change (build_op (unframed d) b a) with (build_op d b a).
      destruct (build_op d b a); [apply ret_lin | apply fail_lin].
    + destruct (build_op d b a); [apply ret_mono | apply fail_mono].
  - destruct (spec_of d b) as [sp|]; [|apply fail_mono].
    apply bind_mono; [apply read_arg_mono | intro a].
    destruct (build_op d b a); [apply ret_mono | apply fail_mono].
Qed.

Lemma decode_loop_mono : forall d f r ops e s, rskip r = true -> decode_loop d f r = (ops, e, s) -> s = true.
Proof.
  intros d. induction f as [|f IH]; intros r ops e s Hs H; cbn in H.
  - inversion H; subst. exact Hs.
  - destruct (decode_op_mono d r Hs) as [H1 H2].
    destruct (decode_op d r) as [o r'|e1 s1] eqn:E.
    + specialize (H1 _ _ eq_refl). destruct (is_stop o); [inversion H; subst; exact H1|].
      destruct (decode_loop d f r') as [[ops1 e1] s1] eqn:E1. inversion H; subst. apply (IH _ _ _ _ H1 E1).
    + inversion H; subst. apply (H2 _ _ eq_refl).
Qed.

Lemma decode_loop_lin : forall d, dl_framed d = true -> forall f r ops,
  decode_loop d f r = (ops, DStop, false) -> decode_loop (unframed d) f (lin r) = (ops, DStop, false).
Proof.
  intros d Hf. induction f as [|f IH]; intros r ops H; cbn in H; [inversion H|]. cbn [decode_loop].
  destruct (decode_op d r) as [o r'|e1 s1] eqn:E;
    [|inversion H; subst; pose proof (decode_op_okerr d _ _ _ E) as Hb; discriminate Hb].
  assert (Hs : rskip r' = false).
  { destruct (rskip r') eqn:S; [|reflexivity]. destruct (is_stop o); [inversion H; subst; congruence|].
    destruct (decode_loop d f r') as [[ops1 e1] s1] eqn:E1. inversion H; subst.
    pose proof (decode_loop_mono _ _ _ _ _ _ S E1). discriminate. }
  rewrite (decode_op_lin d Hf _ _ _ E Hs).
  destruct (is_stop o); [inversion H; subst; cbn; reflexivity|].
  destruct (decode_loop d f r') as [[ops1 e1] s1] eqn:E1. inversion H; subst.
  rewrite (IH _ _ E1). reflexivity.
Qed.

(* a stream in which the C unpickler drops no frame bytes (true of every dump
   the pickler writes; checked on every dump of every run) is read by it exactly
   as by a sequential reader that ignores FRAME: pickletools.genops *)
Theorem bdecode_noskip_sequential : forall d bs ops, dl_framed d = true ->
  bdecode d bs = (ops, DStop, false) -> bdecode (unframed d) bs = (ops, DStop, false).
Proof.
  intros d bs ops Hf H. unfold bdecode in *. apply (decode_loop_lin d Hf) in H. exact H.
Qed.

(** * Numbers *)

Lemma le_bytes_length : forall k n, List.length (le_bytes k n) = k.
Proof. induction k as [|k IH]; intro n; cbn; [reflexivity|]. rewrite IH. reflexivity. Qed.

Lemma le_bytes_range : forall k n, forallb (fun c => c <? 256) (le_bytes k n) = true.
Proof.
  induction k as [|k IH]; intro n; cbn; [reflexivity|]. rewrite IH, andb_true_r.
  apply N.ltb_lt. apply N.mod_upper_bound. discriminate.
Qed.

Lemma le_N_le_bytes : forall k n, n < 256 ^ N.of_nat k -> le_N (le_bytes k n) = n.
Proof.
  induction k as [|k IH]; intros n H.
  - cbn in *. lia.
  - cbn [le_bytes le_N]. rewrite Nat2N.inj_succ, N.pow_succ_r' in H.
    rewrite IH by (apply N.div_lt_upper_bound; lia).
    pose proof (N.div_mod n 256 ltac:(discriminate)). lia.
Qed.

Lemma pow2_8k : forall k, 2 ^ (8 * N.of_nat k) = 256 ^ N.of_nat k.
Proof. intro k. rewrite N.pow_mul_r. reflexivity. Qed.

Lemma zle_le_Z : forall k z, (0 <= z < Z.of_N (256 ^ N.of_nat k))%Z -> zle (le_Z k z) = z.
Proof.
  intros k z H. unfold zle, le_Z. rewrite pow2_8k. rewrite Z.mod_small by lia.
  rewrite le_N_le_bytes by lia. lia.
Qed.

Lemma le_N_le_Z : forall k z, (0 <= z < Z.of_N (256 ^ N.of_nat k))%Z -> le_N (le_Z k z) = Z.to_N z.
Proof.
  intros k z H. unfold le_Z. rewrite pow2_8k. rewrite Z.mod_small by lia. apply le_N_le_bytes. lia.
Qed.

Lemma le_Z_length : forall k z, List.length (le_Z k z) = k.
Proof. intros. apply le_bytes_length. Qed.

Lemma signed32_le_Z : forall z, (- 2 ^ 31 <= z < 2 ^ 31)%Z -> signed 32 (le_N (le_Z 4 z)) = z.
Proof.
  intros z H. change (2 ^ 31)%Z with 2147483648%Z in H. unfold le_Z. change (Z.of_N (2 ^ (8 * N.of_nat 4))) with 4294967296%Z.
  assert (Hm : (0 <= z mod 4294967296 < 4294967296)%Z) by (apply Z.mod_pos_bound; lia).
  rewrite le_N_le_bytes by (change (256 ^ N.of_nat 4) with 4294967296; lia).
  unfold signed. change (2 ^ (32 - 1)) with 2147483648. change (2 ^ 32) with 4294967296.
  destruct (Z_lt_le_dec z 0) as [Hn|Hp].
  - assert (E : (z mod 4294967296 = z + 4294967296)%Z).
    { symmetry. apply (Z.mod_unique _ _ (-1)); lia. }
    rewrite E. clear E Hm. replace (Z.to_N (z + 4294967296) <? 2147483648) with false by (symmetry; apply N.ltb_ge; lia). lia.
  - rewrite Z.mod_small by lia. clear Hm. replace (Z.to_N z <? 2147483648) with true by (symmetry; apply N.ltb_lt; lia). lia.
Qed.

Lemma be_N_app : forall l acc b, be_N acc (l ++ [b]) = be_N acc l * 256 + b.
Proof. induction l as [|x r IH]; intros acc b; cbn; [reflexivity|]. apply IH. Qed.
Lemma be_N_rev : forall l, be_N 0 (rev l) = le_N l.
Proof. induction l as [|x r IH]; cbn [rev le_N]; [reflexivity|]. rewrite be_N_app, IH. lia. Qed.
Lemma be_bytes8_val : forall n, n < 2 ^ 64 -> be_N 0 (be_bytes8 n) = n.
Proof. intros n H. unfold be_bytes8. rewrite be_N_rev. apply (le_N_le_bytes 8). exact H. Qed.
Lemma be_bytes8_length : forall n, List.length (be_bytes8 n) = 8%nat.
Proof. intro n. unfold be_bytes8. rewrite rev_length. apply le_bytes_length. Qed.

(* two's complement of any length *)
Lemma long_bytes_nonempty : forall f z, long_bytes (S f) z <> [].
Proof. intros f z. cbn. destruct (_ && _)%bool; discriminate. Qed.

Lemma long_of_long_bytes : forall f z,
  (- (128 * 256 ^ Z.of_nat f) <= z < 128 * 256 ^ Z.of_nat f)%Z -> long_of_bytes (long_bytes (S f) z) = z.
Proof.
  induction f as [|f IH]; intros z H.
  - cbn [Z.of_nat] in H. change (256 ^ 0)%Z with 1%Z in H. cbn [long_bytes].
    replace ((-128 <=? z) && (z <? 128))%Z with true by (symmetry; apply andb_true_iff; split; [apply Z.leb_le | apply Z.ltb_lt]; lia).
    cbn [long_of_bytes].
    destruct (Z_lt_le_dec z 0) as [Hn|Hp].
    + assert (E : (z mod 256 = z + 256)%Z) by (symmetry; apply (Z.mod_unique _ _ (-1)); lia).
      rewrite E. replace (Z.to_N (z + 256) <? 128) with false by (symmetry; apply N.ltb_ge; lia). lia.
    + rewrite Z.mod_small by lia. replace (Z.to_N z <? 128) with true by (symmetry; apply N.ltb_lt; lia). lia.
  - remember (S f) as f1. cbn [long_bytes]. destruct ((-128 <=? z) && (z <? 128))%Z eqn:E.
    + apply andb_true_iff in E. destruct E as [E1 E2]. apply Z.leb_le in E1. apply Z.ltb_lt in E2.
      cbn [long_of_bytes].
      destruct (Z_lt_le_dec z 0) as [Hn|Hp].
      * assert (E : (z mod 256 = z + 256)%Z) by (symmetry; apply (Z.mod_unique _ _ (-1)); lia).
        rewrite E. replace (Z.to_N (z + 256) <? 128) with false by (symmetry; apply N.ltb_ge; lia). lia.
      * rewrite Z.mod_small by lia. replace (Z.to_N z <? 128) with true by (symmetry; apply N.ltb_lt; lia). lia.
    + subst f1. assert (Hr : (- (128 * 256 ^ Z.of_nat f) <= z / 256 < 128 * 256 ^ Z.of_nat f)%Z).
      { rewrite Nat2Z.inj_succ, Z.pow_succ_r in H by lia. split.
        - apply Z.div_le_lower_bound; lia.
        - apply Z.div_lt_upper_bound; lia. }
      specialize (IH _ Hr).
      pose proof (long_bytes_nonempty f (z / 256)) as Hne.
      cbn [long_of_bytes]. destruct (long_bytes (S f) (z / 256)) as [|y t] eqn:L; [congruence|].
      rewrite IH. pose proof (Z.div_mod z 256 ltac:(lia)). pose proof (Z.mod_pos_bound z 256 ltac:(lia)). lia.
Qed.

Lemma long_of_enc_long : forall z, long_of_bytes (enc_long z) = z.
Proof.
  intro z. unfold enc_long. destruct (Z.eqb_spec z 0) as [->|Hz]; [reflexivity|].
  apply long_of_long_bytes. rewrite Z2Nat.id by apply Z.log2_nonneg.
  assert (Ha : (0 < Z.abs z)%Z) by lia.
  pose proof (Z.log2_spec _ Ha) as [_ Hu]. pose proof (Z.log2_nonneg (Z.abs z)) as Hl.
  assert (Hp : (2 ^ Z.succ (Z.log2 (Z.abs z)) <= 128 * 256 ^ Z.log2 (Z.abs z))%Z).
  { remember (Z.log2 (Z.abs z)) as L. change 256%Z with (2 ^ 8)%Z. change 128%Z with (2 ^ 7)%Z.
    rewrite <- Z.pow_mul_r by lia. rewrite <- Z.pow_add_r by lia. apply Z.pow_le_mono_r; lia. }
  lia.
Qed.

(** * Text *)

Local Ltac Zify.zify_post_hook ::= Z.to_euclidean_division_equations.

Ltac dec_cmp :=
  repeat match goal with
         | |- context [?a <? ?b] =>
             first [ replace (a <? b) with true by (symmetry; apply N.ltb_lt; lia)
                   | replace (a <? b) with false by (symmetry; apply N.ltb_ge; lia) ]
         | |- context [?a <=? ?b] =>
             first [ replace (a <=? b) with true by (symmetry; apply N.leb_le; lia)
                   | replace (a <=? b) with false by (symmetry; apply N.leb_gt; lia) ]
         end.

Lemma utf8_dec_enc_cp : forall sp c rest, c < 1114112 -> (sp = true \/ not_surrogate c = true) ->
  utf8_dec sp (utf8_enc_cp c ++ rest) = option_map (cons c) (utf8_dec sp rest).
Proof.
  intros sp c rest Hc Hs. unfold utf8_enc_cp.
  destruct (N.ltb_spec c 128) as [H1|H1].
  - cbn [app utf8_dec]. replace (c <? 128) with true by (symmetry; apply N.ltb_lt; lia). reflexivity.
  - destruct (N.ltb_spec c 2048) as [H2|H2].
    + cbn [app utf8_dec]. unfold cont. dec_cmp. cbn [andb].
      replace ((192 + c / 64 - 192) * 64 + (128 + c mod 64 - 128)) with c by lia. reflexivity.
    + destruct (N.ltb_spec c 65536) as [H3|H3].
      * cbn [app utf8_dec]. unfold cont.
        replace ((224 + c / 4096 - 224) * 4096 + (128 + (c / 64) mod 64 - 128) * 64 + (128 + c mod 64 - 128)) with c by lia.
        replace (224 + c / 4096 <? 128) with false by (symmetry; apply N.ltb_ge; lia).
        replace (224 + c / 4096 <? 194) with false by (symmetry; apply N.ltb_ge; lia).
        replace (224 + c / 4096 <? 224) with false by (symmetry; apply N.ltb_ge; lia).
        replace (224 + c / 4096 <? 240) with true by (symmetry; apply N.ltb_lt; lia).
        replace (128 <=? 128 + (c / 64) mod 64) with true by (symmetry; apply N.leb_le; lia).
        replace (128 + (c / 64) mod 64 <? 192) with true by (symmetry; apply N.ltb_lt; lia).
        replace (128 <=? 128 + c mod 64) with true by (symmetry; apply N.leb_le; lia).
        replace (128 + c mod 64 <? 192) with true by (symmetry; apply N.ltb_lt; lia).
        replace (2048 <=? c) with true by (symmetry; apply N.leb_le; lia).
        cbn [andb].
        destruct Hs as [-> | Hs]; [reflexivity|]. unfold not_surrogate in Hs. rewrite Hs. rewrite orb_true_r. reflexivity.
      * cbn [app utf8_dec]. unfold cont.
        replace ((240 + c / 262144 - 240) * 262144 + (128 + (c / 4096) mod 64 - 128) * 4096 +
                 (128 + (c / 64) mod 64 - 128) * 64 + (128 + c mod 64 - 128)) with c by lia.
        replace (240 + c / 262144 <? 128) with false by (symmetry; apply N.ltb_ge; lia).
        replace (240 + c / 262144 <? 194) with false by (symmetry; apply N.ltb_ge; lia).
        replace (240 + c / 262144 <? 224) with false by (symmetry; apply N.ltb_ge; lia).
        replace (240 + c / 262144 <? 240) with false by (symmetry; apply N.ltb_ge; lia).
        replace (240 + c / 262144 <? 245) with true by (symmetry; apply N.ltb_lt; lia).
        replace (128 <=? 128 + (c / 4096) mod 64) with true by (symmetry; apply N.leb_le; lia).
        replace (128 + (c / 4096) mod 64 <? 192) with true by (symmetry; apply N.ltb_lt; lia).
        replace (128 <=? 128 + (c / 64) mod 64) with true by (symmetry; apply N.leb_le; lia).
        replace (128 + (c / 64) mod 64 <? 192) with true by (symmetry; apply N.ltb_lt; lia).
        replace (128 <=? 128 + c mod 64) with true by (symmetry; apply N.leb_le; lia).
        replace (128 + c mod 64 <? 192) with true by (symmetry; apply N.ltb_lt; lia).
        replace (65536 <=? c) with true by (symmetry; apply N.leb_le; lia).
        replace (c <? 1114112) with true by (symmetry; apply N.ltb_lt; lia).
        reflexivity.
Qed.

Lemma utf8_dec_enc : forall sp s, str_ok s = true -> (sp = true \/ forallb not_surrogate s = true) ->
  utf8_dec sp (utf8_enc s) = Some s.
Proof.
  intros sp. induction s as [|c r IH]; intros Hok Hs; [reflexivity|].
  unfold str_ok in *. cbn [forallb] in Hok. apply andb_true_iff in Hok. destruct Hok as [Hc Hr].
  unfold cp_ok in Hc. apply N.ltb_lt in Hc.
  unfold utf8_enc. cbn [flat_map]. rewrite utf8_dec_enc_cp.
  - fold (utf8_enc r). rewrite IH; [reflexivity | exact Hr |].
    destruct Hs as [Hs|Hs]; [left; exact Hs | right]. cbn [forallb] in Hs. apply andb_true_iff in Hs. apply Hs.
  - exact Hc.
  - destruct Hs as [Hs|Hs]; [left; exact Hs | right]. cbn [forallb] in Hs. apply andb_true_iff in Hs. apply Hs.
Qed.

(* every byte of the UTF-8 form of c is c itself (ASCII) or >= 128 *)
Lemma utf8_enc_cp_bytes : forall c b, In b (utf8_enc_cp c) -> b = c /\ c < 128 \/ 128 <= b.
Proof.
  intros c b H. unfold utf8_enc_cp in H.
  destruct (N.ltb_spec c 128); [cbn [In] in H; destruct H as [<-|[]]; left; split; [reflexivity | assumption]|].
  destruct (c <? 2048); [|destruct (c <? 65536)]; cbn [In] in H; right;
    repeat (destruct H as [<-|H]; [lia|]); destruct H.
Qed.
Lemma utf8_enc_ascii : forall s, all_ascii s = true -> utf8_enc s = s.
Proof.
  induction s as [|c s IH]; intro Ha; [reflexivity|].
  cbn [all_ascii forallb] in Ha. apply andb_true_iff in Ha. destruct Ha as [Hc Hs].
  unfold utf8_enc. cbn [flat_map]. unfold utf8_enc_cp at 1. rewrite Hc. cbn [app].
  f_equal. apply IH. exact Hs.
Qed.

(* what the C unpickler makes of the two lines of INST: the bytes themselves when all are below 128, otherwise
   no opcode (UnicodeDecodeError before any lookup) - while GLOBAL reads them as UTF-8 *)
Lemma c_iname_ascii : forall l s, c_iname l = Some s -> s = l /\ all_ascii l = true.
Proof. intros l s H. unfold c_iname in H. destruct (all_ascii l); inversion H; auto. Qed.

Lemma utf8_enc_no_nl : forall s, no_nl s = true -> no_nl (utf8_enc s) = true.
Proof.
  unfold no_nl. intros s H. apply forallb_forall. intros b Hb. unfold utf8_enc in Hb.
  apply in_flat_map in Hb. destruct Hb as [c [Hc Hb]]. rewrite forallb_forall in H. specialize (H c Hc).
  destruct (utf8_enc_cp_bytes c b Hb) as [[-> _]|Hge]; [exact H|].
  apply negb_true_iff. apply N.eqb_neq. lia.
Qed.
Lemma utf8_enc_nonempty : forall s, nonempty s = true -> nonempty (utf8_enc s) = true.
Proof.
  intros [|c r] H; [discriminate|]. unfold utf8_enc. cbn [flat_map]. unfold utf8_enc_cp.
  destruct (c <? 128); [reflexivity|]. destruct (c <? 2048); [reflexivity|]. destruct (c <? 65536); reflexivity.
Qed.

(* canonical decimal text *)
Lemma digit_not_nl : forall c, is_digit c = true -> negb (c =? 10) = true.
Proof. intros c H. unfold is_digit in H. apply negb_true_iff, N.eqb_neq. lia. Qed.
Lemma p_of_N_canon : forall n, canon_digits (p_of_N n) = true.
Proof.
  intro n. pose proof (p_of_N_digits n) as Hd. pose proof (p_of_N_nonempty n) as Hne.
  destruct (N.eq_dec n 0) as [->|Hn]; [reflexivity|].
  pose proof (p_of_N_hd n ltac:(lia)) as Hh.
  destruct (p_of_N n) as [|c r] eqn:E; [congruence|]. cbn [hd] in Hh. unfold canon_digits.
  destruct r; [cbn in Hd; rewrite andb_true_r in Hd; exact Hd|]. rewrite Hh. exact Hd.
Qed.
Lemma canon_dec_p_of_Z : forall z, canon_dec (p_of_Z z) = Some z.
Proof.
  intros [|p|p].
  - reflexivity.
  - change (p_of_Z (Z.pos p)) with (p_of_N (N.pos p)).
    pose proof (p_of_N_canon (N.pos p)) as Hc. pose proof (p_of_N_digits (N.pos p)) as Hd.
    pose proof (p_of_N_val (N.pos p)) as Hv.
    destruct (p_of_N (N.pos p)) as [|c r] eqn:E; [discriminate|]. unfold canon_dec.
    assert (Hm : (c =? 45) = false).
    { cbn in Hd. apply andb_true_iff in Hd. destruct Hd as [Hd _]. unfold is_digit in Hd. apply N.eqb_neq. lia. }
    rewrite Hm, Hc, Hv. reflexivity.
  - change (p_of_Z (Z.neg p)) with (45 :: p_of_N (N.pos p)).
    pose proof (p_of_N_canon (N.pos p)) as Hc. pose proof (p_of_N_hd (N.pos p) ltac:(lia)) as Hh.
    pose proof (p_of_N_val (N.pos p)) as Hv.
    unfold canon_dec. cbn [N.eqb Pos.eqb]. destruct (p_of_N (N.pos p)) as [|d r] eqn:E; [discriminate|].
    cbn [hd] in Hh. rewrite Hh, Hc, Hv. reflexivity.
Qed.
Lemma p_of_N_no_nl : forall n, no_nl (p_of_N n) = true.
Proof.
  intro n. unfold no_nl. pose proof (p_of_N_digits n) as H. rewrite forallb_forall in *. intros c Hc. apply digit_not_nl, H, Hc.
Qed.
Lemma p_of_Z_no_nl : forall z, no_nl (p_of_Z z) = true.
Proof.
  intros [|p|p]; [reflexivity | apply (p_of_N_no_nl (N.pos p)) |].
  change (p_of_Z (Z.neg p)) with (45 :: p_of_N (N.pos p)). unfold no_nl. cbn [forallb]. apply (p_of_N_no_nl (N.pos p)).
Qed.
Lemma p_of_Z_nonempty : forall z, nonempty (p_of_Z z) = true.
Proof.
  intros [|p|p]; [reflexivity | | reflexivity].
  change (p_of_Z (Z.pos p)) with (p_of_N (N.pos p)). pose proof (p_of_N_nonempty (N.pos p)). destruct (p_of_N (N.pos p)); [congruence | reflexivity].
Qed.

Lemma c_int_p_of_Z : forall t z, c_int t (p_of_Z z) = Some (IRInt z).
Proof.
  intros t z. unfold c_int. rewrite canon_dec_p_of_Z.
  destruct (p_of_Z z) as [|a [|b [|c r]]] eqn:E; try reflexivity.
  (* two characters: the first is '-' or a non-zero digit *)
  assert (Ha : (a =? 48) = false).
  { destruct z as [|p|p].
    - discriminate E.
    - change (p_of_Z (Z.pos p)) with (p_of_N (N.pos p)) in E. pose proof (p_of_N_hd (N.pos p) ltac:(lia)) as Hh. rewrite E in Hh. exact Hh.
    - change (p_of_Z (Z.neg p)) with (45 :: p_of_N (N.pos p)) in E. inversion E. reflexivity. }
  rewrite Ha. reflexivity.
Qed.
Lemma c_int_bool : forall t (b : bool), c_int t [48; if b then 49 else 48] = Some (IRBool b).
Proof. intros t []; reflexivity. Qed.

Lemma strip_L_app : forall l, strip_L (l ++ [76]) = l.
Proof. intro l. unfold strip_L. rewrite rev_app_distr. cbn. apply rev_involutive. Qed.
Lemma c_long_p_of_Z : forall t z, c_long t (p_of_Z z ++ [76]) = Some z.
Proof. intros t z. unfold c_long. rewrite strip_L_app, canon_dec_p_of_Z. reflexivity. Qed.

Lemma c_idx_p_of_Z : forall t i, (0 <= i)%Z -> c_idx t (p_of_Z i) = Some i.
Proof.
  intros t i Hi. destruct i as [|p|p]; [reflexivity | | lia].
  change (p_of_Z (Z.pos p)) with (p_of_N (N.pos p)). unfold c_idx.
  rewrite p_of_N_digits, p_of_N_val. pose proof (p_of_N_nonempty (N.pos p)).
  destruct (p_of_N (N.pos p)); [congruence | reflexivity].
Qed.

Lemma rue_dec_plain : forall s, forallb (fun c => (c <? 256) && negb (c =? 92) && negb (c =? 10)) s = true -> rue_dec s = Some s.
Proof.
  induction s as [|c r IH]; intro H; [reflexivity|]. cbn [forallb] in H.
  apply andb_true_iff in H. destruct H as [Hc Hr]. apply andb_true_iff in Hc. destruct Hc as [Hc _]. apply andb_true_iff in Hc. destruct Hc as [_ Hc].
  cbn [rue_dec]. rewrite Hc, (IH Hr). reflexivity.
Qed.

Lemma c_string_quoted : forall t s, plain_ascii s = true -> c_string t (39 :: s ++ [39]) = Some s.
Proof.
  intros t s H. unfold c_string. rewrite rev_app_distr. cbn [rev app]. cbn [N.eqb Pos.eqb andb orb].
  rewrite rev_involutive, H. reflexivity.
Qed.

(** * The decoder inverts the assembler *)

(* the reader with [s] in front: in the frame buffer ([ib]) or, with an empty buffer, in the file *)
Definition put (ib : bool) (s : list N) (r : rd) : rd :=
  if ib then mkRd (s ++ rbuf r) (rfile r) (rskip r) else mkRd [] (s ++ rfile r) (rskip r).
Definition putok (ib : bool) (r : rd) : Prop := ib = false -> rbuf r = [].

Lemma put_app : forall ib a s r, put ib (a ++ s) r = put ib a (put ib s r).
Proof. intros [] a s r; unfold put; cbn; rewrite app_assoc; reflexivity. Qed.
Lemma putok_put : forall ib s r, putok ib r -> putok ib (put ib s r).
Proof. intros [] s r H; unfold putok, put in *; cbn; intro E; [discriminate | reflexivity]. Qed.

Lemma fetch_put : forall ib b s r, putok ib r -> fetch (put ib (b :: s) r) = ROk b (put ib s r).
Proof. intros [] b s r H; unfold fetch, put; cbn; reflexivity. Qed.

Lemma len_0 : forall l : list N, len l = 0 -> l = [].
Proof. intros [|x l] H; [reflexivity|]. unfold len in H. cbn in H. lia. Qed.

Lemma rd_read_put : forall ib a s r, putok ib r -> rd_read (len a) (put ib (a ++ s) r) = ROk a (put ib s r).
Proof.
  intros [] a s r H; unfold rd_read, put; cbn [rbuf rfile rskip].
  - rewrite <- app_assoc, take_app. reflexivity.
  - destruct (take (len a) []) as [[u v]|] eqn:T0.
    + destruct (take_nil_some _ _ _ T0) as [E [-> ->]]. apply len_0 in E. subst a. reflexivity.
    + cbn [nonempty]. rewrite orb_false_r. rewrite <- app_assoc, take_app. reflexivity.
Qed.
Lemma rd_into_put : forall ib a s r, putok ib r -> rd_into (len a) (put ib (a ++ s) r) = ROk a (put ib s r).
Proof.
  intros [] a s r H; unfold rd_into, put; cbn [rbuf rfile rskip].
  - rewrite <- app_assoc, take_app. reflexivity.
  - destruct (take (len a) []) as [[u v]|] eqn:T0.
    + destruct (take_nil_some _ _ _ T0) as [E [-> ->]]. apply len_0 in E. subst a. reflexivity.
    + cbn [List.length]. rewrite N.sub_0_r. rewrite <- app_assoc, take_app. reflexivity.
Qed.
Lemma rd_line_put : forall ib a s r, putok ib r -> no_nl a = true ->
  rd_line (put ib (line a ++ s) r) = ROk a (put ib s r).
Proof.
  intros [] a s r H Hn; unfold rd_line, put, line; cbn [rbuf rfile rskip].
  - rewrite <- !app_assoc. cbn [app]. rewrite split_nl_app by exact Hn. reflexivity.
  - cbn [split_nl nonempty]. rewrite orb_false_r. rewrite <- !app_assoc. cbn [app]. rewrite split_nl_app by exact Hn. reflexivity.
Qed.
Lemma line_ne_put : forall ib ne a s r, putok ib r -> no_nl a = true -> (ne = true -> nonempty a = true) ->
  line_ne ne (put ib (line a ++ s) r) = ROk a (put ib s r).
Proof.
  intros ib ne a s r H Hn Hne. unfold line_ne, bind. rewrite rd_line_put by assumption.
  destruct ne; [rewrite (Hne eq_refl)|]; reflexivity.
Qed.

Lemma read_arg_raw : forall fr ib a s r, putok ib r ->
  read_arg fr (SRaw (len a)) (put ib (a ++ s) r) = ROk (RData a) (put ib s r).
Proof. intros. cbn [read_arg]. unfold bind. rewrite rd_read_put by assumption. reflexivity. Qed.
Lemma read_arg_line : forall fr ne ib a s r, putok ib r -> no_nl a = true -> (ne = true -> nonempty a = true) ->
  read_arg fr (SLine ne) (put ib (line a ++ s) r) = ROk (RLine a) (put ib s r).
Proof. intros. cbn [read_arg]. unfold bind. rewrite line_ne_put by assumption. reflexivity. Qed.
Lemma read_arg_line2 : forall fr ne ib a b s r, putok ib r -> no_nl a = true -> no_nl b = true ->
  (ne = true -> nonempty a = true /\ nonempty b = true) ->
  read_arg fr (SLine2 ne) (put ib ((line a ++ line b) ++ s) r) = ROk (RLine2 a b) (put ib s r).
Proof.
  intros fr ne ib a b s r H Ha Hb Hne. cbn [read_arg]. unfold bind. rewrite <- app_assoc.
  rewrite line_ne_put; [|assumption|assumption|intro E; apply (Hne E)].
  rewrite line_ne_put; [reflexivity|assumption|assumption|intro E; apply (Hne E)].
Qed.
Lemma read_arg_counted : forall fr k sgn into ib a s r, putok ib r ->
  len a < 256 ^ N.of_nat k -> (sgn = true -> len a < 2 ^ (8 * N.of_nat k - 1)) -> len a <= MAXSIZE ->
  read_arg fr (SCounted (N.of_nat k) sgn into) (put ib (counted k a ++ s) r) = ROk (RData a) (put ib s r).
Proof.
  intros fr k sgn into ib a s r H Hk Hs Hm. cbn [read_arg]. unfold bind, counted.
  rewrite <- app_assoc.
  replace (N.of_nat k) with (len (le_bytes k (len a))) at 1 by (unfold len; rewrite le_bytes_length; reflexivity).
  rewrite rd_read_put by assumption. rewrite le_N_le_bytes by exact Hk.
  replace (sgn && (2 ^ (8 * N.of_nat k - 1) <=? len a))%bool with false.
  2:{ destruct sgn; [|reflexivity]. cbn [andb]. symmetry. apply N.leb_gt. apply Hs. reflexivity. }
  replace (MAXSIZE <? len a) with false by (symmetry; apply N.ltb_ge; exact Hm).
  destruct into; [rewrite rd_into_put by assumption | rewrite rd_read_put by assumption]; reflexivity.
Qed.

Lemma read_arg_raw' : forall fr k ib a s r, putok ib r -> len a = k ->
  read_arg fr (SRaw k) (put ib (a ++ s) r) = ROk (RData a) (put ib s r).
Proof. intros. subst k. apply read_arg_raw. assumption. Qed.
Lemma read_arg_counted' : forall fr kk k sgn into ib a s r, putok ib r -> kk = N.of_nat k ->
  len a < 256 ^ N.of_nat k -> (sgn = true -> len a < 2 ^ (8 * N.of_nat k - 1)) -> len a <= MAXSIZE ->
  read_arg fr (SCounted kk sgn into) (put ib (counted k a ++ s) r) = ROk (RData a) (put ib s r).
Proof. intros. subst kk. apply read_arg_counted; assumption. Qed.

Lemma len_le_Z : forall k z, len (le_Z k z) = N.of_nat k.
Proof. intros. unfold len. rewrite le_Z_length. reflexivity. Qed.
Lemma len_be8 : forall n, len (be_bytes8 n) = 8.
Proof. intros. unfold len. rewrite be_bytes8_length. reflexivity. Qed.

Definition not_frame (o : op) : bool := match o with FRAME _ => false | _ => true end.

Lemma zin_spec : forall lo hi z, zin lo hi z = true -> (lo <= z < hi)%Z.
Proof. intros lo hi z H. unfold zin in H. apply andb_true_iff in H. destruct H as [H1 H2]. apply Z.leb_le in H1. apply Z.ltb_lt in H2. lia. Qed.
Lemma lenlt_spec : forall l b, lenlt l b = true -> len l < b.
Proof. intros l b H. apply N.ltb_lt. exact H. Qed.

Lemma fl_ok_spec : forall f, fl_ok f = true ->
  fl_of_bits (be_N 0 (enc_fl f)) = f.
Proof.
  intros f H. unfold enc_fl. destruct f as [t|b]; cbn [fl_ok] in H.
  - apply andb_true_iff in H. destruct H as [H H2]. apply andb_true_iff in H. destruct H as [_ H1].
    apply N.ltb_lt in H1. rewrite be_bytes8_val by exact H1.
    unfold fl_eqb in H2. destruct (fl_of_bits (bits_of_half t)) as [a|a]; [|discriminate]. apply Z.eqb_eq in H2. subst. reflexivity.
  - apply andb_true_iff in H. destruct H as [H1 H2]. apply zin_spec in H1.
    rewrite be_bytes8_val by (change (2 ^ 64) with (Z.to_N (2 ^ 64)); lia).
    unfold fl_eqb in H2. destruct (fl_of_bits (Z.to_N b)) as [a|a]; [discriminate|]. apply Z.eqb_eq in H2. subst. reflexivity.
Qed.

(* the C dialect with FRAME buffering switched on (the C unpickler) or off (a sequential reader) *)
Definition cdl (fr : bool) (t : textw) : dialect :=
  mkDialect fr true (c_int t) (c_long t) (c_idx t) (tx_float t) c_name c_iname c_pid rue_dec (c_string t) c_binstr.
Lemma cdl_true : forall t, cdl true t = c_dialect t.
Proof. reflexivity. Qed.
Lemma cdl_false : forall t, cdl false t = unframed (c_dialect t).
Proof. reflexivity. Qed.

Ltac start H := unfold decode_op, bind; cbn [enc_op app]; rewrite fetch_put by exact H;
                cbn [spec_of cdl dl_ne dl_framed].
Ltac noarg H := start H; reflexivity.
Ltac raw H := start H;
  erewrite read_arg_raw';
  [| exact H | first [unfold len; rewrite le_Z_length; reflexivity | unfold len; unfold enc_fl; rewrite be_bytes8_length; reflexivity]];
  cbn [build_op].

Theorem decode_op_enc : forall fr t ib o s r, putok ib r -> enc_ok o = true -> not_frame o = true ->
  decode_op (cdl fr t) (put ib (enc_op o ++ s) r) = ROk o (put ib s r).
Proof.
  intros fr t ib o s r H Hok Hnf. destruct o; cbn [enc_ok] in Hok; try discriminate Hnf; try discriminate Hok; try solve [noarg H].
  - (* PROTO *) raw H. rewrite zle_le_Z by (apply zin_spec in Hok; cbn; lia). reflexivity.
  - (* PUT *) start H. apply Z.leb_le in Hok.
    rewrite read_arg_line by (first [exact H | apply p_of_Z_no_nl | intros _; apply p_of_Z_nonempty]).
    cbn [build_op cdl dl_idx]. rewrite c_idx_p_of_Z by exact Hok. reflexivity.
  - (* BINPUT *) raw H. rewrite zle_le_Z by (apply zin_spec in Hok; cbn; lia). reflexivity.
  - (* LONG_BINPUT *) raw H. rewrite zle_le_Z by (apply zin_spec in Hok; cbn in *; lia). reflexivity.
  - (* GET *) start H. apply Z.leb_le in Hok.
    rewrite read_arg_line by (first [exact H | apply p_of_Z_no_nl | intros _; apply p_of_Z_nonempty]).
    cbn [build_op cdl dl_idx]. rewrite c_idx_p_of_Z by exact Hok. reflexivity.
  - (* BINGET *) raw H. rewrite zle_le_Z by (apply zin_spec in Hok; cbn; lia). reflexivity.
  - (* LONG_BINGET *) raw H. rewrite zle_le_Z by (apply zin_spec in Hok; cbn in *; lia). reflexivity.
  - (* INT *) start H.
    rewrite read_arg_line by (first [exact H | apply p_of_Z_no_nl | intros _; apply p_of_Z_nonempty]).
    cbn [build_op cdl dl_int]. rewrite c_int_p_of_Z. reflexivity.
  - (* INTB *) start H.
    rewrite read_arg_line by (first [exact H | destruct b; reflexivity | intros _; reflexivity]).
    cbn [build_op cdl dl_int]. rewrite c_int_bool. reflexivity.
  - (* BININT *) raw H. rewrite signed32_le_Z by (apply zin_spec in Hok; exact Hok). reflexivity.
  - (* BININT1 *) raw H. rewrite zle_le_Z by (apply zin_spec in Hok; cbn; lia). reflexivity.
  - (* BININT2 *) raw H. rewrite zle_le_Z by (apply zin_spec in Hok; cbn; lia). reflexivity.
  - (* LONG *) start H.
    rewrite read_arg_line.
    + cbn [build_op cdl dl_long]. rewrite c_long_p_of_Z. reflexivity.
    + exact H.
    + unfold no_nl. rewrite forallb_app. fold (no_nl (p_of_Z z)). rewrite p_of_Z_no_nl. reflexivity.
    + intros _. pose proof (p_of_Z_nonempty z). destruct (p_of_Z z); [discriminate | reflexivity].
  - (* LONG1 *) start H. apply lenlt_spec in Hok.
    rewrite (read_arg_counted' _ _ 1) by (first [exact H | reflexivity | exact Hok | discriminate | (unfold MAXSIZE; cbn; lia)]).
    cbn [build_op]. rewrite long_of_enc_long. reflexivity.
  - (* LONG4 *) start H. apply lenlt_spec in Hok. change (2 ^ 31) with 2147483648 in Hok.
    rewrite (read_arg_counted' _ _ 4) by (first [exact H | reflexivity | (cbn; lia) | (intros _; cbn; lia) | (unfold MAXSIZE; cbn; lia)]).
    cbn [build_op]. rewrite long_of_enc_long. reflexivity.
  - (* BINFLOAT *) raw H. rewrite fl_ok_spec by exact Hok. reflexivity.
  - (* UNICODE *) start H.
    rewrite read_arg_line.
    + cbn [build_op cdl dl_utext]. rewrite rue_dec_plain by exact Hok. reflexivity.
    + exact H.
    + unfold no_nl. rewrite forallb_forall in *. intros c Hc. specialize (Hok c Hc).
      apply andb_true_iff in Hok. apply Hok.
    + discriminate.
  - (* BINUNICODE *) start H. apply andb_true_iff in Hok. destruct Hok as [Hs Hl]. apply lenlt_spec in Hl.
    change (2 ^ 32) with 4294967296 in Hl.
    rewrite (read_arg_counted' _ _ 4) by (first [exact H | reflexivity | (cbn; lia) | discriminate | (unfold MAXSIZE; cbn; lia)]).
    cbn [build_op]. rewrite utf8_dec_enc by (first [exact Hs | left; reflexivity]). reflexivity.
  - (* SHORT_BINUNICODE *) start H. apply andb_true_iff in Hok. destruct Hok as [Hs Hl]. apply lenlt_spec in Hl.
    rewrite (read_arg_counted' _ _ 1) by (first [exact H | reflexivity | (cbn; lia) | discriminate | (unfold MAXSIZE; cbn; lia)]).
    cbn [build_op]. rewrite utf8_dec_enc by (first [exact Hs | left; reflexivity]). reflexivity.
  - (* BINUNICODE8 *) start H. apply andb_true_iff in Hok. destruct Hok as [Hs Hl]. apply lenlt_spec in Hl.
    change (2 ^ 63) with 9223372036854775808 in Hl.
    rewrite (read_arg_counted' _ _ 8) by (first [exact H | reflexivity | (cbn; lia) | discriminate | (unfold MAXSIZE; cbn; lia)]).
    cbn [build_op]. rewrite utf8_dec_enc by (first [exact Hs | left; reflexivity]). reflexivity.
  - (* BINBYTES *) start H. apply lenlt_spec in Hok. change (2 ^ 32) with 4294967296 in Hok.
    rewrite (read_arg_counted' _ _ 4) by (first [exact H | reflexivity | (cbn; lia) | discriminate | (unfold MAXSIZE; cbn; lia)]).
    reflexivity.
  - (* SHORT_BINBYTES *) start H. apply lenlt_spec in Hok.
    rewrite (read_arg_counted' _ _ 1) by (first [exact H | reflexivity | (cbn; lia) | discriminate | (unfold MAXSIZE; cbn; lia)]).
    reflexivity.
  - (* BINBYTES8 *) start H. apply lenlt_spec in Hok. change (2 ^ 63) with 9223372036854775808 in Hok.
    rewrite (read_arg_counted' _ _ 8) by (first [exact H | reflexivity | (cbn; lia) | discriminate | (unfold MAXSIZE; cbn; lia)]).
    reflexivity.
  - (* GLOBAL *) start H. apply andb_true_iff in Hok. destruct Hok as [Hm Hn].
    unfold name_ok in Hm, Hn.
    repeat match goal with Hx : (_ && _)%bool = true |- _ => apply andb_true_iff in Hx; destruct Hx end.
    rewrite read_arg_line2 by (first [exact H | apply utf8_enc_no_nl; assumption | intros _; split; apply utf8_enc_nonempty; assumption]).
    cbn [build_op cdl dl_name]. unfold c_name. rewrite !utf8_dec_enc by (first [assumption | right; assumption]). reflexivity.
  - (* INST: both lines ASCII, so their UTF-8 form is the text itself *)
    start H. apply andb_true_iff in Hok. destruct Hok as [Hm Hn].
    apply andb_true_iff in Hm. destruct Hm as [Hm Hma]. apply andb_true_iff in Hn. destruct Hn as [Hn Hna].
    unfold name_ok in Hm, Hn.
    repeat match goal with Hx : (_ && _)%bool = true |- _ => apply andb_true_iff in Hx; destruct Hx end.
    rewrite read_arg_line2 by (first [exact H | apply utf8_enc_no_nl; assumption | intros _; split; apply utf8_enc_nonempty; assumption]).
    cbn [build_op cdl dl_iname]. unfold c_iname. rewrite !utf8_enc_ascii by assumption. rewrite Hma, Hna. reflexivity.
  - (* PERSID *) start H. apply andb_true_iff in Hok. destruct Hok as [Ha Hn].
    rewrite read_arg_line by (first [exact H | exact Hn | discriminate]).
    cbn [build_op cdl dl_pid]. unfold c_pid. rewrite Ha. reflexivity.
  - (* EXT1 *) raw H. rewrite zle_le_Z by (apply zin_spec in Hok; cbn; lia). reflexivity.
  - (* EXT2 *) raw H. rewrite zle_le_Z by (apply zin_spec in Hok; cbn; lia). reflexivity.
  - (* EXT4 *) raw H. rewrite signed32_le_Z by (apply zin_spec in Hok; exact Hok). reflexivity.
  - (* STRING *) start H. apply andb_true_iff in Hok. destruct Hok as [Hp Hn].
    rewrite read_arg_line.
    + cbn [build_op cdl dl_string]. rewrite c_string_quoted by exact Hp. reflexivity.
    + exact H.
    + unfold no_nl in *. cbn [forallb]. rewrite forallb_app, Hn. reflexivity.
    + discriminate.
  - (* BINSTRING *) start H. apply andb_true_iff in Hok. destruct Hok as [Ha Hl]. apply lenlt_spec in Hl.
    change (2 ^ 31) with 2147483648 in Hl.
    rewrite (read_arg_counted' _ _ 4) by (first [exact H | reflexivity | (cbn; lia) | (intros _; cbn; lia) | (unfold MAXSIZE; cbn; lia)]).
    cbn [build_op cdl dl_binstr]. unfold c_binstr. rewrite Ha. reflexivity.
  - (* SHORT_BINSTRING *) start H. apply andb_true_iff in Hok. destruct Hok as [Ha Hl]. apply lenlt_spec in Hl.
    rewrite (read_arg_counted' _ _ 1) by (first [exact H | reflexivity | (cbn; lia) | discriminate | (unfold MAXSIZE; cbn; lia)]).
    cbn [build_op cdl dl_binstr]. unfold c_binstr. rewrite Ha. reflexivity.
  - (* BYTEARRAY8 *) start H. apply lenlt_spec in Hok. change (2 ^ 63) with 9223372036854775808 in Hok.
    rewrite (read_arg_counted' _ _ 8) by (first [exact H | reflexivity | (cbn; lia) | discriminate | (unfold MAXSIZE; cbn; lia)]).
    reflexivity.
Qed.


(* FRAME, read sequentially *)
Lemma decode_op_enc_frame_seq : forall t n s r, rbuf r = [] -> zin 0 (2 ^ 63) n = true ->
  decode_op (cdl false t) (put false (enc_op (FRAME n) ++ s) r) = ROk (FRAME n) (put false s r).
Proof.
  intros t n s r Hb Hok. assert (H : putok false r) by (intros _; exact Hb).
  unfold decode_op, bind. cbn [enc_op app]. rewrite fetch_put by exact H. cbn [spec_of cdl dl_framed read_arg]. unfold bind.
  replace 8 with (len (le_Z 8 n)) by (unfold len; rewrite le_Z_length; reflexivity).
  rewrite rd_read_put by exact H. cbn [andb rd_frame]. unfold ret. cbn [build_op].
  apply zin_spec in Hok. change (2 ^ 63)%Z with 9223372036854775808%Z in Hok.
  rewrite le_N_le_Z by (cbn; lia). rewrite Z2N.id by lia. reflexivity.
Qed.

Theorem decode_op_enc_seq : forall t o s r, rbuf r = [] -> enc_ok o = true ->
  decode_op (cdl false t) (put false (enc_op o ++ s) r) = ROk o (put false s r).
Proof.
  intros t o s r Hb Hok. destruct (not_frame o) eqn:Hnf.
  - apply decode_op_enc; [intros _; exact Hb | exact Hok | exact Hnf].
  - destruct o; try discriminate Hnf. apply decode_op_enc_frame_seq; [exact Hb | exact Hok].
Qed.

(* the assembler is a prefix code: no encoding of an opcode is a prefix of another one's ... *)
Theorem enc_op_prefix_free : forall o1 o2 x y, enc_ok o1 = true -> enc_ok o2 = true ->
  (enc_op o1 ++ x = enc_op o2 ++ y)%list -> o1 = o2 /\ x = y.
Proof.
  intros o1 o2 x y H1 H2 E.
  pose (r0 := mkRd [] [] false).
  pose proof (decode_op_enc_seq no_text o1 x r0 eq_refl H1) as D1.
  pose proof (decode_op_enc_seq no_text o2 y r0 eq_refl H2) as D2.
  rewrite E in D1. rewrite D1 in D2. inversion D2 as [[Ho Hx]]. split; [reflexivity|].
  rewrite !app_nil_r in Hx. exact Hx.
Qed.

(* ... hence a byte string is the encoding of at most one opcode list *)
Theorem enc_ops_inj : forall ops1 ops2, forallb enc_ok ops1 = true -> forallb enc_ok ops2 = true ->
  enc_ops ops1 = enc_ops ops2 -> ops1 = ops2.
Proof.
  assert (Hne : forall o, enc_op o <> []) by (intro o; destruct o; discriminate).
  induction ops1 as [|o1 r1 IH]; intros [|o2 r2] H1 H2 E; [reflexivity | | |].
  - unfold enc_ops in E. cbn [flat_map] in E. symmetry in E. apply app_eq_nil in E. destruct E as [E _]. destruct (Hne _ E).
  - unfold enc_ops in E. cbn [flat_map] in E. apply app_eq_nil in E. destruct E as [E _]. destruct (Hne _ E).
  - cbn [forallb] in H1, H2. apply andb_true_iff in H1, H2. destruct H1 as [Ho1 Hr1], H2 as [Ho2 Hr2].
    unfold enc_ops in E. cbn [flat_map] in E.
    destruct (enc_op_prefix_free _ _ _ _ Ho1 Ho2 E) as [-> Er]. f_equal. apply IH; assumption.
Qed.

(** * IEEE doubles *)

(* every half-integer float of magnitude below 2^53 survives the trip through its 64 bits *)
Lemma fl_of_bits_of_half : forall t, (Z.abs t < 2 ^ 53)%Z ->
  bits_of_half t < 2 ^ 64 /\ fl_of_bits (bits_of_half t) = FHalf t.
Proof.
  intros t Ht. unfold bits_of_half. destruct (Z.eqb_spec t 0) as [->|Hz]; [split; [reflexivity | reflexivity]|].
  set (a := Z.to_N (Z.abs t)). set (p := N.log2 a).
  assert (Ha : 0 < a) by (unfold a; lia).
  assert (Ha53 : a < 2 ^ 53) by (unfold a; change (2 ^ 53) with (Z.to_N (2 ^ 53)); lia).
  destruct (N.log2_spec a Ha) as [Hlo Hhi]. fold p in Hlo, Hhi.
  assert (Hp : p <= 52).
  { assert (p < 53); [|lia]. apply (N.pow_lt_mono_r_iff 2); [lia|]. lia. }
  set (q := 52 - p). set (X := 2 ^ q).
  assert (HX : 0 < X) by (unfold X; apply N.neq_0_lt_0, N.pow_nonzero; lia).
  assert (Hpq : 2 ^ p * X = 2 ^ 52) by (unfold X, q; rewrite <- N.pow_add_r; f_equal; lia).
  assert (Hsucc : 2 ^ N.succ p * X = 2 ^ 53) by (unfold X, q; rewrite <- N.pow_add_r; f_equal; lia).
  set (M := a * X).
  assert (HM1 : 2 ^ 52 <= M) by (unfold M; rewrite <- Hpq; apply N.mul_le_mono_r; exact Hlo).
  assert (HM2 : M < 2 ^ 53) by (unfold M; rewrite <- Hsucc; apply N.mul_lt_mono_pos_r; assumption).
  change (2 ^ 52) with 4503599627370496 in *. change (2 ^ 53) with 9007199254740992 in *.
  change (2 ^ 63) with 9223372036854775808 in *. change (2 ^ 64) with 18446744073709551616 in *.
  set (S := if (t <? 0)%Z then 9223372036854775808 else 0).
  set (s := if (t <? 0)%Z then 1 else 0).
  assert (HS : S = s * 9223372036854775808) by (unfold S, s; destruct (t <? 0)%Z; reflexivity).
  assert (Hs : s <= 1) by (unfold s; destruct (t <? 0)%Z; lia).
  set (E := p + 1022).
  set (b := S + E * 4503599627370496 + (M - 4503599627370496)).
  assert (Hb : b = s * 9223372036854775808 + E * 4503599627370496 + (M - 4503599627370496)) by (unfold b; rewrite HS; reflexivity).
  split; [unfold E in *; lia|].
  unfold fl_of_bits. fold b.
  change (2 ^ 52) with 4503599627370496. change (2 ^ 63) with 9223372036854775808.
  assert (Hb0 : (b =? 0) = false) by (apply N.eqb_neq; unfold E in *; lia).
  assert (Hd63 : b / 9223372036854775808 = s).
  { symmetry. apply (N.div_unique _ _ _ (E * 4503599627370496 + (M - 4503599627370496))); unfold E in *; lia. }
  assert (Hd52 : b / 4503599627370496 = s * 2048 + E).
  { symmetry. apply (N.div_unique _ _ _ (M - 4503599627370496)); lia. }
  assert (Hm52 : b mod 4503599627370496 = M - 4503599627370496).
  { symmetry. apply (N.mod_unique _ _ (s * 2048 + E)); lia. }
  assert (He : (s * 2048 + E) mod 2048 = E).
  { symmetry. apply (N.mod_unique _ _ s); unfold E in *; lia. }
  rewrite Hb0, Hd63, Hd52, Hm52, He.
  replace (E =? 0) with false by (symmetry; apply N.eqb_neq; unfold E; lia).
  replace (E =? 2047) with false by (symmetry; apply N.eqb_neq; unfold E; lia).
  replace (1074 <? E) with false by (symmetry; apply N.ltb_ge; unfold E; lia).
  cbn [orb].
  replace (4503599627370496 + (M - 4503599627370496)) with M by lia.
  replace (1074 - E) with q by (unfold E, q; lia). fold X.
  unfold M. rewrite N.mod_mul by lia. rewrite N.div_mul by lia. cbn [N.eqb].
  unfold s. destruct (Z.ltb_spec t 0); cbn [N.eqb Pos.eqb]; f_equal; unfold a; lia.
Qed.

Lemma fl_ok_half : forall t, (Z.abs t < 2 ^ 53)%Z -> fl_ok (FHalf t) = true.
Proof.
  intros t Ht. destruct (fl_of_bits_of_half t Ht) as [H1 H2]. cbn [fl_ok]. rewrite H2.
  apply Z.ltb_lt in Ht. rewrite Ht. apply N.ltb_lt in H1. rewrite H1. cbn. apply Z.eqb_refl.
Qed.

(** * Whole streams *)

Definition plain_op (o : op) : bool := enc_ok o && not_frame o && negb (is_stop o).

Lemma decode_loop_enc : forall fr t ib ops s r fuel, putok ib r -> forallb plain_op ops = true ->
  (List.length ops < fuel)%nat ->
  decode_loop (cdl fr t) fuel (put ib (enc_ops (ops ++ [STOP]) ++ s) r) = ((ops ++ [STOP])%list, DStop, rskip r).
Proof.
  intros fr t ib. induction ops as [|o ops IH]; intros s r fuel H Hp Hf.
  - destruct fuel as [|f]; [cbn in Hf; lia|]. cbn [app enc_ops flat_map decode_loop].
    rewrite app_nil_r. rewrite decode_op_enc by (first [exact H | reflexivity]).
    cbn [is_stop]. destruct ib; reflexivity.
  - destruct fuel as [|f]; [cbn in Hf; lia|]. cbn [forallb] in Hp. apply andb_true_iff in Hp. destruct Hp as [Ho Hr].
    unfold plain_op in Ho. apply andb_true_iff in Ho. destruct Ho as [Ho Hns]. apply andb_true_iff in Ho. destruct Ho as [Hok Hnf].
    cbn [app]. unfold enc_ops. cbn [flat_map decode_loop]. fold (enc_ops (ops ++ [STOP])).
    rewrite <- app_assoc. rewrite decode_op_enc by (first [exact H | exact Hok | exact Hnf]).
    apply negb_true_iff in Hns. rewrite Hns.
    rewrite (IH s r f H Hr) by (cbn in Hf; lia). reflexivity.
Qed.

(* the canonical encoder emits neither FRAME nor STOP *)
Lemma enc_int_plain : forall z, not_frame (enc_int z) && negb (is_stop (enc_int z)) = true.
Proof.
  intro z. unfold enc_int.
  destruct (Z.leb 0 z && Z.ltb z 256)%bool; [reflexivity|].
  destruct (Z.leb 0 z && Z.ltb z 65536)%bool; [reflexivity|].
  destruct (Z.leb (-2147483648) z && Z.ltb z 2147483648)%bool; reflexivity.
Qed.
Lemma enc_atom_plain : forall a, not_frame (enc_atom a) && negb (is_stop (enc_atom a)) = true.
Proof.
  intros [| [] | z | t | s | s]; try reflexivity; [apply enc_int_plain | |]; unfold enc_atom, enc_str, enc_bytes;
    destruct (Nat.ltb _ _); reflexivity.
Qed.

Definition shape_ok (o : op) : bool := not_frame o && negb (is_stop o).
Lemma shape_app : forall a b, forallb shape_ok (a ++ b) = forallb shape_ok a && forallb shape_ok b.
Proof. intros. apply forallb_app. Qed.

Lemma enc_str_shape : forall s, shape_ok (enc_str s) = true.
Proof. intro s. unfold enc_str. destruct (Nat.ltb _ _); reflexivity. Qed.

Lemma flat_shape : forall (A : Type) (f : A -> list op) xs,
  Forall (fun x => forallb shape_ok (f x) = true) xs -> forallb shape_ok (flat_map f xs) = true.
Proof. intros A f xs H. induction H as [|x r Hx Hr IH]; [reflexivity|]. cbn [flat_map]. rewrite shape_app, Hx, IH. reflexivity. Qed.
Lemma map_atom_shape : forall xs, forallb shape_ok (map enc_atom xs) = true.
Proof. induction xs as [|a r IH]; [reflexivity|]. cbn [map forallb]. unfold shape_ok at 1. rewrite enc_atom_plain, IH. reflexivity. Qed.

Lemma enc_shape : forall v, forallb shape_ok (enc v) = true.
Proof.
  induction v using pv_ind'.
  - cbn [enc forallb]. unfold shape_ok. rewrite enc_atom_plain. reflexivity.
  - reflexivity.
  - rewrite enc_list_eq. destruct xs; [reflexivity|]. cbn [forallb]. rewrite shape_app, (flat_shape _ enc _ H). reflexivity.
  - rewrite enc_tuple_eq. destruct xs; [reflexivity|]. cbn [forallb]. rewrite shape_app, (flat_shape _ enc _ H). reflexivity.
  - rewrite enc_dict_eq. destruct kvs; [reflexivity|]. cbn [forallb]. rewrite shape_app. rewrite flat_shape; [reflexivity|].
    eapply Forall_impl; [|exact H]. intros [k x] Hx. unfold enc_kv. cbn [fst snd forallb]. unfold shape_ok at 1. rewrite enc_atom_plain. exact Hx.
  - cbn [enc]. destruct xs; [reflexivity|]. cbn [forallb]. rewrite shape_app, map_atom_shape. reflexivity.
  - cbn [enc forallb]. rewrite shape_app, map_atom_shape. reflexivity.
  - cbn [enc forallb]. rewrite !enc_str_shape. reflexivity.
  - cbn [enc forallb]. rewrite !enc_str_shape. reflexivity.
  - cbn [enc app forallb]. rewrite !enc_str_shape. unfold shape_ok at 1 2 3 4 5 6. rewrite !enc_int_plain.
    cbn [not_frame is_stop negb andb]. rewrite !shape_app, IHv1, IHv2. reflexivity.
  - rewrite enc_setordered_eq. cbn [app forallb]. rewrite !enc_str_shape. cbn [shape_ok not_frame is_stop negb andb]. rewrite shape_app.
    unfold list_prog. destruct xs; [reflexivity|]. cbn [forallb]. rewrite shape_app, (flat_shape _ enc _ H). reflexivity.
Qed.


(** * The canonical dump as bytes *)


Lemma plain_of_ok_shape : forall ops, forallb enc_ok ops = true -> forallb shape_ok ops = true -> forallb plain_op ops = true.
Proof.
  induction ops as [|o r IH]; intros H1 H2; [reflexivity|]. cbn [forallb] in *.
  apply andb_true_iff in H1, H2. destruct H1 as [Ho Hr], H2 as [Hs Hr2].
  rewrite (IH Hr Hr2). unfold plain_op. unfold shape_ok in Hs. apply andb_true_iff in Hs. destruct Hs as [Hnf Hns].
  rewrite Ho, Hnf, Hns. reflexivity.
Qed.

Lemma len_pos_cons : forall (x : N) l, 0 < len (x :: l).
Proof. intros. unfold len. cbn [List.length]. lia. Qed.

Lemma decode_op_frame_install : forall t body junk, 0 < len body -> len body <= MAXSIZE ->
  decode_op (cdl true t) (put false (enc_op (FRAME (Z.of_N (len body))) ++ body) (mkRd [] junk false))
  = ROk (FRAME (Z.of_N (len body))) (mkRd body junk false).
Proof.
  intros t body junk Hpos Hmax. assert (H : putok false (mkRd [] junk false)) by (intros _; reflexivity).
  unfold decode_op, bind. cbn [enc_op app]. rewrite fetch_put by exact H. cbn [spec_of cdl dl_framed read_arg]. unfold bind.
  replace 8 with (len (le_Z 8 (Z.of_N (len body)))) by (unfold len; rewrite le_Z_length; reflexivity).
  rewrite rd_read_put by exact H.
  unfold MAXSIZE in Hmax. change (2 ^ 63 - 1) with 9223372036854775807 in Hmax.
  rewrite le_N_le_Z by (cbn; lia). rewrite N2Z.id.
  replace (true && (MAXSIZE <? len body))%bool with false by (symmetry; apply N.ltb_ge; unfold MAXSIZE; cbn; lia).
  unfold rd_frame, put. cbn [rbuf rfile rskip].
  assert (T0 : take (len body) [] = None) by (apply take_none; unfold len at 1; cbn; exact Hpos).
  rewrite T0. cbn [nonempty orb]. rewrite take_app. unfold ret. cbn [build_op]. reflexivity.
Qed.

Theorem bdecode_dump : forall t v junk, dump_ok v = true ->
  bdecode (c_dialect t) (dump_bytes v ++ junk) = (dump_prog v, DStop, false).
Proof.
  intros t v junk Hok. unfold dump_ok in Hok. apply andb_true_iff in Hok. destruct Hok as [Hops Hlen].
  apply N.ltb_lt in Hlen. change (2 ^ 63) with 9223372036854775808 in Hlen.
  unfold bdecode. rewrite <- cdl_true.
  set (rj := mkRd [] junk false).
  change (start (dump_bytes v ++ junk)) with (put false (dump_bytes v) rj).
  assert (Hrj : putok false rj) by (intros _; reflexivity).
  assert (Hbody : 0 < len (dump_body v)).
  { unfold dump_body, enc_ops. rewrite flat_map_app. cbn [flat_map enc_op app]. unfold len. rewrite app_length. cbn. lia. }
  (* enough fuel *)
  assert (HL : (List.length (enc v) + 3 <= S (List.length (dump_bytes v ++ junk)))%nat).
  { rewrite app_length. unfold dump_bytes. rewrite !app_length. cbn [enc_op List.length]. rewrite !le_Z_length.
    assert (Hx : forall ops, (List.length ops <= List.length (enc_ops ops))%nat).
    { induction ops as [|o r IH]; [cbn; lia|]. unfold enc_ops in *. cbn [flat_map List.length]. rewrite app_length.
      assert (1 <= List.length (enc_op o))%nat by (destruct o; cbn; lia). lia. }
    specialize (Hx (enc v ++ [STOP])%list). rewrite app_length in Hx. cbn in Hx. unfold dump_body. lia. }
  remember (S (List.length (dump_bytes v ++ junk))) as F eqn:HF. clear HF.
  destruct F as [|F]; [lia|]. destruct F as [|F]; [lia|].
  unfold dump_bytes, dump_prog. cbn [decode_loop].
  rewrite decode_op_enc by (first [exact Hrj | reflexivity]). cbn [is_stop].
  subst rj. rewrite decode_op_frame_install by (first [exact Hbody | unfold MAXSIZE; cbn; lia]). cbn [is_stop].
  replace (mkRd (dump_body v) junk false) with (put true (enc_ops (enc v ++ [STOP]) ++ []) (mkRd [] junk false))
    by (unfold put, dump_body; cbn [rbuf rfile rskip]; rewrite !app_nil_r; reflexivity).
  rewrite decode_loop_enc.
  - reflexivity.
  - intro E; discriminate E.
  - apply plain_of_ok_shape; [exact Hops | apply enc_shape].
  - lia.
Qed.

(* so the dump is read without skipping a byte, and a sequential reader (pickletools.genops) sees the same opcodes *)
Corollary bdecode_dump_sequential : forall t v junk, dump_ok v = true ->
  bdecode (unframed (c_dialect t)) (dump_bytes v ++ junk) = (dump_prog v, DStop, false).
Proof. intros t v junk H. apply bdecode_noskip_sequential; [reflexivity | apply bdecode_dump; exact H]. Qed.

(** * C14 on bytes *)

Lemma vm_run_dump_prog : forall w v, vm_run w (dump_prog v) = vm_run w (enc_prog v).
Proof. intros w v. unfold vm_run, dump_prog, enc_prog. cbn [run step]. reflexivity. Qed.

Lemma dump_bytes_nonempty : forall v, dump_bytes v <> [].
Proof. intro v. unfold dump_bytes. cbn [enc_op app]. discriminate. Qed.

Lemma bytes_run_dump : forall w t v junk, dump_ok v = true ->
  load_content w (c_dialect t) (dump_bytes v ++ junk) = vm_run w (enc_prog v).
Proof.
  intros w t v junk Hok. unfold load_content.
  destruct (dump_bytes v ++ junk)%list as [|x l] eqn:E.
  - apply app_eq_nil in E. destruct E as [E _]. destruct (dump_bytes_nonempty _ E).
  - rewrite <- E. unfold bytes_run, bdecode_ops, bdecode_end. rewrite (bdecode_dump t v junk Hok). cbn [fst snd].
    rewrite vm_run_dump_prog. unfold finish.
    destruct (vm_run w (enc_prog v)) as [out tr] eqn:R. destruct out as [o|e]; [reflexivity|].
    destruct e; reflexivity.
Qed.

(* what pickle_dump writes (canonical form), as BYTES, loads to the payload again - whatever follows it in the file *)
Theorem load_bytes_dump : forall w t v junk,
  calls_ok w -> types_ok w v -> wfp v = true -> dump_ok v = true ->
  load_bytes w (c_dialect t) (dump_bytes v ++ junk) = Some v.
Proof.
  intros w t v junk Hc Ht Hw Hok. unfold load_bytes. rewrite (bytes_run_dump w t v junk Hok).
  pose proof (pickle_roundtrip w v Hc Ht Hw) as H. unfold load in H.
  destruct (vm_run w (enc_prog v)) as [out tr]. cbn [fst] in H. destruct out; [exact H | discriminate].
Qed.

(** * C15 on bytes *)

Lemma finish_trace : forall e r, snd (finish e r) = snd r.
Proof. intros e [out tr]. unfold finish. destruct out as [o|x]; [reflexivity|]. destruct x; reflexivity. Qed.
Lemma finish_done : forall e out tr v tr', finish e (out, tr) = (Done v, tr') -> out = Done v /\ tr' = tr.
Proof.
  intros e out tr v tr' H. unfold finish in H. destruct out as [o|x].
  - inversion H; subst. auto.
  - destruct x; inversion H.
Qed.
Lemma end_err_not_forbidden : forall e m n, end_err e <> Forbidden m n.
Proof. intros e m n. destruct e; discriminate. Qed.
Lemma finish_forbidden : forall e out tr m n tr', finish e (out, tr) = (Err (Forbidden m n), tr') ->
  out = Err (Forbidden m n) /\ tr' = tr.
Proof.
  intros e out tr m n tr' H. unfold finish in H. destruct out as [o|x]; [discriminate|].
  destruct x; inversion H; subst; auto. exfalso. eapply end_err_not_forbidden. eassumption.
Qed.

(* the property over BYTE STRINGS: for every byte string, every reader dialect (every treatment of
   non-canonical number text, framed or not), every process: if the extension cache holds no forbidden
   global, every name the load resolves is on the allow-list, everything called / built / returned
   contains only allowed globals, and ForbiddenModule names a non-member *)
Theorem bytes_no_forbidden_resolution : forall (w : world) (d : dialect) (bs : list N) out tr,
  ext_cache_safe_b w = true -> load_content w d bs = (out, tr) ->
  (forall m n, In (EResolve m n) tr -> In (dotted m n) (allow w)) /\
  (forall e, In e tr -> ev_safe_b (allow w) e = true) /\
  (forall v, out = Done v -> safe_b (allow w) v = true) /\
  (forall m n, out = Err (Forbidden m n) -> ~ In (dotted m n) (allow w)).
Proof.
  intros w d bs out tr Hg H. unfold load_content in H. destruct bs as [|b0 bs'].
  - inversion H; subst. repeat split; try (intros; contradiction); intros; discriminate.
  - unfold bytes_run in H. remember (b0 :: bs') as bs.
    destruct (vm_run w (bdecode_ops d bs)) as [out0 tr0] eqn:R.
    pose proof (no_forbidden_resolution_partial w _ out0 tr0 Hg R) as [H1 [H2 [H3 H4]]].
    assert (Ht : tr = tr0) by (pose proof (finish_trace (bdecode_end d bs) (out0, tr0)) as F; rewrite H in F; exact F).
    subst tr0. split; [exact H1|]. split; [exact H2|]. split.
    + intros v E. subst out. apply finish_done in H. destruct H as [E _]. apply (H3 v E).
    + intros m n E. subst out. apply finish_forbidden in H. destruct H as [E _]. apply (H4 m n E).
Qed.

(* no guard: the first decoded opcode that asks for a non-member ends the load with ForbiddenModule,
   whatever the bytes after it are *)
Theorem bytes_rejected_at_first_forbidden_lookup : forall (w : world) (d : dialect) (bs : list N) pre o post st1 m n,
  bs <> [] -> bdecode_ops d bs = (pre ++ o :: post)%list ->
  exec w (init w) pre = Some st1 ->
  requested w st1 o = Some (m, n) -> ~ In (dotted m n) (allow w) ->
  load_content w d bs = (Err (Forbidden m n), rev (trace st1)).
Proof.
  intros w d bs pre o post st1 m n Hne Hd He Hr Hna. unfold load_content. destruct bs as [|b0 bs']; [congruence|].
  unfold bytes_run. rewrite Hd. rewrite (rejected_at_first_forbidden_lookup w pre o post st1 m n He Hr Hna). reflexivity.
Qed.

Theorem bytes_forbidden_only_from_lookup : forall (w : world) (d : dialect) (bs : list N) m n tr,
  load_content w d bs = (Err (Forbidden m n), tr) ->
  exists pre o post st1,
    bdecode_ops d bs = (pre ++ o :: post)%list /\ exec w (init w) pre = Some st1 /\
    requested w st1 o = Some (m, n) /\ ~ In (dotted m n) (allow w) /\ tr = rev (trace st1).
Proof.
  intros w d bs m n tr H. unfold load_content in H. destruct bs as [|b0 bs']; [inversion H|].
  unfold bytes_run in H. remember (b0 :: bs') as bs.
  destruct (vm_run w (bdecode_ops d bs)) as [out0 tr0] eqn:R.
  apply finish_forbidden in H. destruct H as [-> ->].
  apply (forbidden_only_from_lookup w _ (init w) m n tr0 R).
Qed.

(* conversely: the canonical dump, as bytes, of a well-formed payload over allow-listed classes loads in the
   default process (corollary of CodecProofs.own_dumps_load) *)
Theorem own_dumps_load_bytes : forall t d junk, wfp d = true -> types_default_b d = true -> dump_ok d = true ->
  exists o tr, load_content default_world (c_dialect t) (dump_bytes d ++ junk) = (Done o, tr) /\ decode o = Some d.
Proof.
  intros t d junk Hw Ht Hd. rewrite (bytes_run_dump default_world t d junk Hd). apply own_dumps_load; assumption.
Qed.

(* the unguarded safety statement is false on bytes as well: the EXT / extension-cache witness *)
Theorem bytes_no_forbidden_resolution_refuted :
  exists w bs out tr, load_content w (c_dialect no_text) bs = (out, tr) /\
    exists k f a, In (ECall k f a) tr /\ safe_b (allow w) f = false.
Proof.
  exists w_cached, [128; 2; 130; 201; 41; 82; 46]. eexists. eexists. split; [vm_compute; reflexivity|].
  eexists. eexists. eexists. split; [right; left; reflexivity | vm_compute; reflexivity].
Qed.

From Coq Require Import String.
(** * Non-vacuity *)
Example dump_ok_sample : dump_ok sample_payload = true.
Proof. vm_compute. reflexivity. Qed.
Example sample_bytes_roundtrip : load_bytes default_world (c_dialect no_text) (dump_bytes sample_payload) = Some sample_payload.
Proof. vm_compute. reflexivity. Qed.

(* the classic attack as bytes:  cos\nsystem\n(S'id'\ntR.  - rejected at the GLOBAL, nothing resolved, nothing called *)
Definition os_system_bytes : list N :=
  [99; 111; 115; 10; 115; 121; 115; 116; 101; 109; 10; 40; 83; 39; 105; 100; 39; 10; 116; 82; 46].
Example os_system_rejected :
  load_content default_world (c_dialect no_text) os_system_bytes = (Err (Forbidden (s2p "os") (s2p "system")), []).
Proof. vm_compute. reflexivity. Qed.
(* ... and the same bytes decode to the expected opcodes *)
Example os_system_decoded :
  bdecode (c_dialect no_text) os_system_bytes =
  ([GLOBAL (s2p "os") (s2p "system"); MARK; STRING (s2p "id"); TUPLE; REDUCE; STOP], DStop, false).
Proof. vm_compute. reflexivity. Qed.

(* the EXT / extension-cache witness of C15_no_forbidden_resolution_refuted as the bytes 80 02 82 c9 29 52 2e *)
Example ext_cache_bytes_refuted :
  exists tr k f a, load_content w_cached (c_dialect no_text) [128; 2; 130; 201; 41; 82; 46] = (Done (OInst 0 KReduce f a []), tr) /\
    In (ECall k f a) tr /\ safe_b (allow w_cached) f = false.
Proof. eexists. eexists. eexists. eexists. split; [vm_compute; reflexivity|]. split; [right; left; reflexivity | vm_compute; reflexivity]. Qed.

(* a frame that is shorter than what an opcode needs: the C unpickler drops the rest of the frame
   (here the byte 1 of K 1 is skipped ... ) and reads on in the file; a sequential reader does not *)
Example frame_straddle_differs :
  let bs := [149; 4;0;0;0;0;0;0;0; 75; 1; 48; 74; 2; 0; 0; 0; 75; 7; 46] in
  bdecode (c_dialect no_text) bs = ([FRAME 4; BININT1 1; POP; BININT 2; BININT1 7; STOP], DStop, false) /\
  let bs2 := [149; 3;0;0;0;0;0;0;0; 73; 49; 50; 51; 10; 46] in
  bdecode (c_dialect no_text) bs2 = ([FRAME 3; INT 3; STOP], DStop, true) /\
  bdecode (unframed (c_dialect no_text)) bs2 = ([FRAME 3; INT 123; STOP], DStop, false).
Proof. vm_compute. repeat split; reflexivity. Qed.

(** * INST reads its two lines as ASCII (load_inst: PyUnicode_DecodeASCII), GLOBAL as UTF-8 *)

(* under the C dialect an INST opcode is decoded only from two pure-ASCII lines, and then to exactly those bytes *)
Theorem inst_decoded_only_ascii : forall fr t l1 l2 o,
  build_op (cdl fr t) 105 (RLine2 l1 l2) = Some o ->
  o = INST l1 l2 /\ all_ascii l1 = true /\ all_ascii l2 = true.
Proof.
  intros fr t l1 l2 o H. cbn [build_op cdl dl_iname] in H.
  destruct (c_iname l1) as [m|] eqn:E1; [|discriminate].
  destruct (c_iname l2) as [n|] eqn:E2; [|discriminate].
  apply c_iname_ascii in E1. apply c_iname_ascii in E2. destruct E1 as [-> A1]. destruct E2 as [-> A2].
  inversion H; subst. auto.
Qed.
(* a byte >= 128 in either line: no opcode, the load ends with a decoding error (UnicodeDecodeError) and
   find_class is not asked *)
Theorem inst_nonascii_not_decoded : forall fr t l1 l2,
  all_ascii l1 && all_ascii l2 = false -> build_op (cdl fr t) 105 (RLine2 l1 l2) = None.
Proof.
  intros fr t l1 l2 H. cbn [build_op cdl dl_iname]. unfold c_iname.
  destruct (all_ascii l1); [|reflexivity]. destruct (all_ascii l2); [discriminate H | reflexivity].
Qed.

(* b'cbuiltins\ncomplex\n0(i\xe4\xb8\xad\nx\n.' : the allowed GLOBAL is resolved, the INST line is
   UnicodeDecodeError and no lookup of its module is made; the same two lines under GLOBAL are UTF-8 and the
   lookup is refused *)
Example inst_nonascii_is_decode_error :
  load_content default_world (c_dialect no_text)
    [99; 98;117;105;108;116;105;110;115; 10; 99;111;109;112;108;101;120; 10; 48; 40; 105; 228;184;173; 10; 120; 10; 46]
  = (Err (Malformed 3), [EResolve (s2p "builtins") (s2p "complex")]) /\
  load_content default_world (c_dialect no_text)
    [99; 98;117;105;108;116;105;110;115; 10; 99;111;109;112;108;101;120; 10; 48; 40; 99; 228;184;173; 10; 120; 10; 46]
  = (Err (Forbidden [20013] (s2p "x")), [EResolve (s2p "builtins") (s2p "complex")]).
Proof. vm_compute. split; reflexivity. Qed.

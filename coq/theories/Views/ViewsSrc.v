(** C10 source tie - the TYPES and PRIMITIVES the translated text of
    deepdiff/model.py (class TextResult) and deepdiff/serialization.py
    (_get_pretty_form_text, pretty_print_diff) is written in (generated module
    DDGen.ViewsGen, harness/translate/textresult.py), and the hand-written
    statement-level targets the generated definitions are proved equal to
    (coq/srctie/ViewsGenEquiv.v): [raw_of], [raw_of_rep], [text_view_cats],
    [init_containers], [category_order], [report_keys].

    A Python object the conversion handles is a [pyobj]; the TextResult under
    construction is a [gself] (its verbose_level, the kind of container it
    holds under every report key, and - in [s_out] - the insertions made so
    far, in order); the TreeResult is a [gtree] = the entry list of Diff/Tree.v
    plus the repetition records of the repetition_change levels
    (ViewsModel.repinfo3); a level is an entry with its record.

    Definitions only. *)
From Coq Require Import List ZArith NArith Bool Arith String Ascii.
Import ListNotations.
From DD Require Import Base.PyStr Base.Value Path.PathModel Diff.Tree Diff.TextView Views.ViewsModel.

(* ------------------------------------------------------------------ *)
(* Python objects                                                      *)
(* ------------------------------------------------------------------ *)
Inductive pyobj :=
| OTy (t : option ty)            (* a class: get_type(x); None = NotPresent *)
| OVal (o : option value)        (* an object of the compared data; None = notpresent *)
| OStr (s : pystr)               (* a str made by the conversion: path(), formatted text *)
| ONat (n : nat)
| OIdx (l : list nat)            (* a list of indexes *)
| ODict (d : list (string * pyobj))   (* a dict with str-literal keys, insertion order *)
| OSet (l : list pyobj)
| OTreeItem (k : string)         (* tree[k] taken as it is *)
| OMissing.                      (* KeyError / outside the universe *)
Definition pydict := list (string * pyobj).

Definition notpresent : pyobj := OVal None.
Definition is_notpresent (o : pyobj) : bool := match o with OVal None => true | _ => false end.

(* == / != as the conversion uses them: between two str objects *)
Definition py_eqb (a b : pyobj) : bool :=
  match a, b with
  | OStr x, OStr y => pystr_eqb x y
  | _, _ => false
  end.
Definition py_str_const (s : string) : pyobj := OStr (s2p s).

Definition str_mem (k : string) (l : list string) : bool := existsb (String.eqb k) l.

(* d[k] = v *)
Fixpoint dict_set (d : pydict) (k : string) (v : pyobj) : pydict :=
  match d with
  | [] => [(k, v)]
  | (k', v') :: r => if String.eqb k' k then (k, v) :: r else (k', v') :: dict_set r k v
  end.
(* d.update(...) ; a dict display {k1: v1, ...} *)
Definition dict_update (d : pydict) (kvs : pydict) : pydict :=
  fold_left (fun d kv => dict_set d (fst kv) (snd kv)) kvs d.
Definition dict_lit (kvs : pydict) : pydict := dict_update [] kvs.
Definition dict_has (d : pydict) (k : string) : bool := existsb (fun kv => String.eqb (fst kv) k) d.
Definition dict_get (d : pydict) (k : string) : pyobj :=
  match find (fun kv => String.eqb (fst kv) k) d with Some kv => snd kv | None => OMissing end.
(* RemapDict(x) = dict(x) *)
Definition py_dict_of (o : pyobj) : pydict := match o with ODict d => d | _ => [] end.

(* dicts from str to str (the pretty() templates) *)
Definition sdict := list (string * string).
Fixpoint sdict_set (d : sdict) (k v : string) : sdict :=
  match d with
  | [] => [(k, v)]
  | (k', v') :: r => if String.eqb k' k then (k, v) :: r else (k', v') :: sdict_set r k v
  end.
Definition sdict_update (d kvs : sdict) : sdict := fold_left (fun d kv => sdict_set d (fst kv) (snd kv)) kvs d.
Definition sdict_lit (kvs : sdict) : sdict := sdict_update [] kvs.
Definition sdict_get (d : sdict) (k dflt : string) : string :=
  match find (fun kv => String.eqb (fst kv) k) d with Some kv => snd kv | None => dflt end.

(* ---- get_type, isinstance, str(), "%s", str.format ---- *)
Definition py_get_type (o : pyobj) : pyobj :=
  match o with
  | OVal o => OTy (option_map type_of o)
  | OStr _ => OTy (Some TStr)
  | _ => OMissing
  end.
(* cls.__name__ *)
Definition py_type_name (o : pyobj) : pyobj :=
  match o with
  | OTy (Some t) => OStr (ty_name t)
  | OTy None => OStr (s2p "NotPresent")
  | _ => OMissing
  end.
(* isinstance(x, strings), strings = (str, bytes) *)
Definition py_isinstance_strings (o : pyobj) : bool :=
  match o with
  | OStr _ => true
  | OVal (Some (VAtom (AStr _))) | OVal (Some (VAtom (ABytes _))) => true
  | _ => false
  end.

Definition nat_str (n : nat) : pystr := p_of_N (N.of_nat n).
Definition py_str_of (o : pyobj) : pystr :=
  match o with
  | OStr s => s
  | OVal (Some v) => py_str v
  | OVal None => s2p "not present"            (* NotPresent.__repr__ *)
  | ONat n => nat_str n
  | _ => []
  end.
Definition py_str_obj (o : pyobj) : pyobj := OStr (py_str_of o).

(* "{}" = the next positional argument, "{name}" = the keyword argument; the
   translator rejects templates with "{{", "}}", "!" or ":" *)
Definition kw_get (name : string) (kw : list (string * pystr)) : pystr :=
  match find (fun kv => String.eqb (fst kv) name) kw with Some kv => snd kv | None => [] end.
Fixpoint fmt_go (s : string) (field : option string) (pos : list pystr) (kw : list (string * pystr)) : pystr :=
  match s with
  | EmptyString => []
  | String c r =>
      match field with
      | None => if Ascii.eqb c "{" then fmt_go r (Some EmptyString) pos kw
                else N_of_ascii c :: fmt_go r None pos kw
      | Some name =>
          if Ascii.eqb c "}" then
            match name with
            | EmptyString => match pos with
                             | a :: pos' => a ++ fmt_go r None pos' kw
                             | [] => fmt_go r None [] kw
                             end
            | _ => kw_get name kw ++ fmt_go r None pos kw
            end
          else fmt_go r (Some (name ++ String c EmptyString)%string) pos kw
      end
  end%list.
(* fmt.format(pos..., kw...) *)
Definition py_format (fmt : string) (pos : list pyobj) (kw : list (string * pyobj)) : pyobj :=
  OStr (fmt_go fmt None (map py_str_of pos) (map (fun kv => (fst kv, py_str_of (snd kv))) kw)).
(* fmt % x with exactly one "%s" in fmt *)
Fixpoint pct_go (s : string) (x : pystr) : pystr :=
  match s with
  | EmptyString => []
  | String c r =>
      if Ascii.eqb c "%" then
        match r with
        | String c' r' => if Ascii.eqb c' "s" then x ++ s2p r' else N_of_ascii c :: pct_go r x
        | EmptyString => [N_of_ascii c]
        end
      else N_of_ascii c :: pct_go r x
  end%list.
Definition py_percent (fmt : string) (x : pyobj) : pyobj := OStr (pct_go fmt (py_str_of x)).

(* ------------------------------------------------------------------ *)
(* the tree result and its levels                                      *)
(* ------------------------------------------------------------------ *)
Record gtree := mkGTree { gt_es : list entry; gt_rs : list repinfo3 }.
Definition level := (entry * option repinfo3)%type.

Definition report_name (k : rkind) : string :=
  match k with
  | KType => "type_changes" | KValue => "values_changed"
  | KDictAdd => "dictionary_item_added" | KDictRem => "dictionary_item_removed"
  | KIterAdd => "iterable_item_added" | KIterRem => "iterable_item_removed"
  | KIterMoved => "iterable_item_moved"
  | KSetAdd => "set_item_added" | KSetRem => "set_item_removed"
  | KRepetition => "repetition_change"
  end.
Definition all_kinds : list rkind :=
  [KType; KValue; KDictAdd; KDictRem; KIterAdd; KIterRem; KIterMoved; KSetAdd; KSetRem; KRepetition].
Definition kind_of_report (k : string) : option rkind :=
  find (fun kd => String.eqb (report_name kd) k) all_kinds.

Definition of_kind (kd : rkind) (e : entry) : bool := rkind_eqb (ekind e) kd.

(* tree[k]: the levels filed under report key k, in their order *)
Definition tree_get (t : gtree) (k : string) : list level :=
  match kind_of_report k with
  | Some KRepetition => map (fun er => (fst er, Some (snd er))) (combine (filter is_rep (gt_es t)) (gt_rs t))
  | Some kd => map (fun e => (e, None)) (filter (of_kind kd) (gt_es t))
  | None => []
  end.
(* k in tree: DeepDiff removes the empty report keys of its tree *)
Definition tree_has (t : gtree) (k : string) : bool :=
  match tree_get t k with [] => false | _ => true end.
(* bool(tree): TreeResult.__len__ counts the levels *)
Definition tree_truthy (t : gtree) : bool := match gt_es t with [] => false | _ => true end.
(* the keys of tree.items() *)
Definition tree_keys (t : gtree) : list string :=
  map report_name (filter (fun kd => tree_has t (report_name kd)) all_kinds).
Definition tree_item (t : gtree) (k : string) : pyobj := OTreeItem k.

(* level.path(force=..., use_t2=...) : inside the value universe every key has
   a str form, so [force] does not matter *)
Definition lv_path (force : option string) (use_t2 : bool) (l : level) : pyobj :=
  OStr (render (if use_t2 then ep2 (fst l) else ep1 (fst l))).
(* level.up.path(...): for a set item the entry's key sequence IS that of the set (Diff/Tree.v) *)
Definition lv_up_path (force : option string) (l : level) : pyobj :=
  OStr (render (match ekind (fst l) with
                | KSetAdd | KSetRem => ep1 (fst l)
                | _ => removelast (ep1 (fst l))
                end)).
(* level.up is not None: a level below the root; a set item always has its set above it *)
Definition lv_has_up (l : level) : bool :=
  match ekind (fst l) with
  | KSetAdd | KSetRem => true
  | _ => match ep1 (fst l) with [] => false | _ => true end
  end.
Definition lv_report_type (l : level) : string := report_name (ekind (fst l)).
Definition lv_t1 (l : level) : pyobj := OVal (et1 (fst l)).
Definition lv_t2 (l : level) : pyobj := OVal (et2 (fst l)).
(* level.additional: 'diff' (values_changed of multi-line strings), 'repetition'
   (diff.py: RemapDict(old_repeat=, new_repeat=, old_indexes=, new_indexes=)) *)
Definition rep_dict (r : repinfo3) : pydict :=
  [("old_repeat", ONat (List.length (snd (fst r)))); ("new_repeat", ONat (List.length (snd r)));
   ("old_indexes", OIdx (snd (fst r))); ("new_indexes", OIdx (snd r))]%string.
Definition lv_additional (l : level) : pydict :=
  (match ediff (fst l) with Some d => [("diff"%string, OStr d)] | None => [] end ++
   match snd l with Some r => [("repetition"%string, ODict (rep_dict r))] | None => [] end)%list.

(* ------------------------------------------------------------------ *)
(* the text result under construction                                  *)
(* ------------------------------------------------------------------ *)
Inductive container := CDict | CSetOrdered | CList | CMissing.
Inductive pyclass := PC_SetOrdered | PC_dict | PC_list | PC_Mapping.
Definition isinstance_c (c : container) (k : pyclass) : bool :=
  match c, k with
  | CSetOrdered, PC_SetOrdered | CDict, PC_dict | CDict, PC_Mapping | CList, PC_list => true
  | _, _ => false
  end.

(* one insertion: under report key [rcat], key / member [rkey]; [rval] = the
   value stored under the key (None: the container is a SetOrdered / list) *)
Record raw := mkRaw { rcat : string; rkey : pyobj; rval : option pyobj }.
Record gself := mkSelf {
  s_verbose : nat;
  s_containers : list (string * container);
  s_opcodes : list pystr;                 (* keys of self["_iterable_opcodes"] (DeltaResult only) *)
  s_out : list raw }.

Definition self_new : gself := mkSelf 0 [] [] [].
Definition set_verbose (s : gself) (v : nat) : gself := mkSelf v (s_containers s) (s_opcodes s) (s_out s).
(* self.update({k: container, ...}) of __init__ *)
Definition self_init_containers (s : gself) (t : list (string * container)) : gself :=
  mkSelf (s_verbose s) (s_containers s ++ t) (s_opcodes s) (s_out s).
Definition emit (s : gself) (l : list raw) : gself :=
  mkSelf (s_verbose s) (s_containers s) (s_opcodes s) (s_out s ++ l).
Definition with_out (s : gself) (l : list raw) : gself :=
  mkSelf (s_verbose s) (s_containers s) (s_opcodes s) l.

(* self[k] as a container *)
Definition self_container (s : gself) (k : string) : container :=
  match find (fun kc => String.eqb (fst kc) k) (s_containers s) with Some kc => snd kc | None => CMissing end.
(* x in self["_iterable_opcodes"] *)
Definition opcodes_has (s : gself) (p : pyobj) : bool :=
  match p with OStr x => existsb (pystr_eqb x) (s_opcodes s) | _ => false end.

(* self[k].add(x) / self[k].append(x) / self[k][x] = v / self[k] = v *)
Definition self_add (s : gself) (k : string) (x : pyobj) : gself := emit s [mkRaw k x None].
Definition self_append (s : gself) (k : string) (x : pyobj) : gself := emit s [mkRaw k x None].
Definition self_setitem (s : gself) (k : string) (x v : pyobj) : gself := emit s [mkRaw k x (Some v)].
Definition self_setcat (s : gself) (k : string) (v : pyobj) : gself := emit s [mkRaw k OMissing (Some v)].
(* an insertion that stands for "raise" *)
Definition raw_raise : raw := mkRaw "!raise" OMissing None.
Definition self_raise (s : gself) : gself := emit s [raw_raise].
(* the custom-results branch ran for tree key k *)
Definition self_custom (s : gself) (k : string) : gself := emit s [mkRaw "!custom" (py_str_const k) None].

Definition raw_at (k : string) (x : pyobj) (r : raw) : bool := String.eqb (rcat r) k && py_eqb (rkey r) x.
(* x in self[k] *)
Definition self_has (s : gself) (k : string) (x : pyobj) : bool := existsb (raw_at k x) (s_out s).
(* modify self[k][x] (the last insertion under that key) *)
Fixpoint upd_last (p : raw -> bool) (f : raw -> raw) (l : list raw) : list raw * bool :=
  match l with
  | [] => ([], false)
  | x :: r => let '(r', done) := upd_last p f r in
              if done then (x :: r', true) else if p x then (f x :: r', true) else (x :: r', false)
  end.
(* self[k][x][field] = v *)
Definition self_item_setfield (s : gself) (k : string) (x : pyobj) (field : string) (v : pyobj) : gself :=
  with_out s (fst (upd_last (raw_at k x)
     (fun r => mkRaw (rcat r) (rkey r) (option_map (fun o => ODict (dict_set (py_dict_of o) field v)) (rval r))) (s_out s))).
(* self[k][x].add(v) *)
Definition self_item_add (s : gself) (k : string) (x v : pyobj) : gself :=
  with_out s (fst (upd_last (raw_at k x)
     (fun r => mkRaw (rcat r) (rkey r) (option_map (fun o => match o with OSet l => OSet (l ++ [v]) | _ => o end) (rval r))) (s_out s))).

(* ------------------------------------------------------------------ *)
(* hand-written statement-level targets                                *)
(* ------------------------------------------------------------------ *)
Definition opt_kv (k : string) (o : option pystr) : pydict := match o with Some s => [(k, OStr s)] | None => [] end.

(* the insertion a text entry of the hand model (Diff/TextView.v) stands for:
   report key, key, and the stored value with its fields in the code's insertion order *)
Definition raw_of (t : tentry) : raw :=
  match t with
  | TType p a b np vals =>
      mkRaw "type_changes" (OStr p)
        (Some (ODict ([("old_type", OTy (Some a)); ("new_type", OTy (Some b))] ++ opt_kv "new_path" np ++
                      match vals with
                      | Some (x, y) => [("old_value", OVal (Some x)); ("new_value", OVal (Some y))]
                      | None => []
                      end)))
  | TValue p x y np d =>
      mkRaw "values_changed" (OStr p)
        (Some (ODict ([("new_value", OVal (Some y)); ("old_value", OVal (Some x))] ++ opt_kv "new_path" np ++ opt_kv "diff" d)))
  | TDictAdd p v => mkRaw "dictionary_item_added" (OStr p) (option_map (fun x => OVal (Some x)) v)
  | TDictRem p v => mkRaw "dictionary_item_removed" (OStr p) (option_map (fun x => OVal (Some x)) v)
  | TIterAdd p v => mkRaw "iterable_item_added" (OStr p) (Some (OVal (Some v)))
  | TIterRem p v => mkRaw "iterable_item_removed" (OStr p) (Some (OVal (Some v)))
  | TMoved p np v => mkRaw "iterable_item_moved" (OStr p) (Some (ODict [("new_path", OStr np); ("value", OVal (Some v))]))
  | TSetAdd s => mkRaw "set_item_added" (OStr s) None
  | TSetRem s => mkRaw "set_item_removed" (OStr s) None
  end%string%list.
Definition raw_of_rep (t : trep) : raw :=
  mkRaw "repetition_change" (OStr (trpath t))
    (Some (ODict [("old_repeat", ONat (List.length (trold t))); ("new_repeat", ONat (List.length (trnew t)));
                  ("old_indexes", OIdx (trold t)); ("new_indexes", OIdx (trnew t));
                  ("value", OVal (Some (trval t)))]))%string.

(* TextResult._from_tree_results converts report key by report key, in this order *)
Definition cat_order : list rkind :=
  [KType; KDictAdd; KDictRem; KValue; KIterAdd; KIterRem; KIterMoved; KSetRem; KSetAdd].
Definition text_view_cats (verbose : nat) (es : list entry) : list tentry :=
  flat_map (fun kd => flat_map (text_of verbose) (filter (of_kind kd) es)) cat_order.
Definition category_order : list string :=
  ["type_changes"; "default:dictionary_item_added"; "default:dictionary_item_removed"; "value_changed"; "unprocessed";
   "default:iterable_item_added"; "default:iterable_item_removed"; "iterable_item_moved";
   "default:attribute_added"; "default:attribute_removed"; "set_item_removed"; "set_item_added";
   "repetition_change"; "deep_distance"; "custom_results"]%string.

(* TextResult.__init__: which container sits under which report key *)
Definition set_or_dict (verbose : nat) : container := if Nat.leb 2 verbose then CDict else CSetOrdered.
Definition init_containers (verbose : nat) : list (string * container) :=
  [("type_changes", CDict); ("dictionary_item_added", set_or_dict verbose); ("dictionary_item_removed", set_or_dict verbose);
   ("values_changed", CDict); ("unprocessed", CList); ("iterable_item_added", CDict); ("iterable_item_removed", CDict);
   ("iterable_item_moved", CDict); ("attribute_added", set_or_dict verbose); ("attribute_removed", set_or_dict verbose);
   ("set_item_removed", CSetOrdered); ("set_item_added", CSetOrdered); ("repetition_change", CDict)]%string.

Definition report_keys : list string :=
  ["type_changes"; "dictionary_item_added"; "dictionary_item_removed"; "values_changed"; "unprocessed";
   "iterable_item_added"; "iterable_item_removed"; "iterable_item_moved"; "attribute_added"; "attribute_removed";
   "set_item_removed"; "set_item_added"; "repetition_change"]%string.

(* the complete conversion of the hand model, as insertions *)
Definition text_result_raw (verbose : nat) (t : gtree) : list raw :=
  (map raw_of (text_view_cats verbose (gt_es t)) ++ map raw_of_rep (rep_view (gt_es t) (gt_rs t)))%list.

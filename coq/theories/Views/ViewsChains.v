(** C10, chain clause: every node of every reported level chain is backed by
    the inputs.  A level chain is represented by its two key sequences
    (Diff/Tree.v); the node at depth n of the chain of entry e holds
    [resolve t1 (firstn n (ep1 e))] and [resolve t2 (firstn n (ep2 e))].
    C04 (Diff/DiffFaithful.v) covers the leaf; here: every proper prefix
    resolves on BOTH sides (also for added / removed items, whose leaf exists on
    one side only), consecutive nodes are linked by the child relationship, and
    depth 0 is the pair of original inputs. *)
From Coq Require Import List ZArith NArith Bool Arith Lia.
Import ListNotations.
From DD Require Import Base.PyStr Base.Value Base.ValueFacts Path.PathModel
  Diff.Tree Diff.DiffModel Diff.DiffFacts Diff.DiffFaithful.

Definition resolves (r : value) (p : path) : Prop := exists v, resolve r p = Some v.

Definition is_set_kind (k : rkind) : bool :=
  match k with KSetAdd | KSetRem => true | _ => false end.

(* the chain of e: all nodes above the leaf exist on both sides; for a set item
   (whose two key sequences are those of the set) the set itself too *)
Definition chain_ok (r1 r2 : value) (e : entry) : Prop :=
  length (ep1 e) = length (ep2 e) /\
  forall n, (if is_set_kind (ekind e) then n <= length (ep1 e) else n < length (ep1 e)) ->
            resolves r1 (firstn n (ep1 e)) /\ resolves r2 (firstn n (ep2 e)).

(* ---- general facts about resolve: what "chain" means ---- *)
Lemma resolve_root r : resolve r [] = Some r.
Proof. reflexivity. Qed.

Lemma resolve_app r p q :
  resolve r (p ++ q) = match resolve r p with Some v => resolve v q | None => None end.
Proof.
  revert r; induction p as [|k p IH]; intros r; cbn; [reflexivity|].
  destruct (get_item r (key_atom k)); [apply IH|reflexivity].
Qed.

Lemma resolves_prefix r p q : resolves r (p ++ q) -> resolves r p.
Proof.
  intros [v H]. rewrite resolve_app in H. destruct (resolve r p) as [u|] eqn:E; [exists u; exact E|discriminate].
Qed.

Lemma resolves_firstn r p n : resolves r p -> resolves r (firstn n p).
Proof. intros H. rewrite <- (firstn_skipn n p) in H. eapply resolves_prefix; exact H. Qed.

(* the node at depth n+1 is the child, named by the n-th key, of the node at depth n *)
Lemma chain_link r p n k :
  nth_error p n = Some k ->
  resolve r (firstn (S n) p) =
  match resolve r (firstn n p) with Some v => get_item v (key_atom k) | None => None end.
Proof.
  intros Hk.
  assert (E : firstn (S n) p = firstn n p ++ [k]).
  { revert n Hk; induction p as [|a p IH]; intros [|n] Hk; cbn in *; try discriminate.
    - inversion Hk; reflexivity.
    - f_equal. apply IH. exact Hk. }
  rewrite E. apply resolve_snoc.
Qed.

(* ---- where the entries of one call of [diff] sit ---- *)
Definition at_ (p1 p2 : path) (e : entry) : Prop :=
  ep1 e = p1 /\ ep2 e = p2 /\ is_set_kind (ekind e) = false.
Definition below (p1 p2 : path) (e : entry) : Prop :=
  exists k1 k2, at_ (snoc p1 k1) (snoc p2 k2) e.
Definition set_at (p1 p2 : path) (e : entry) : Prop := ep1 e = p1 /\ ep2 e = p2.

Definition anchored (r1 r2 : value) (e : entry) : Prop :=
  exists q1 q2, length q1 = length q2 /\ resolves r1 q1 /\ resolves r2 q2 /\
    (set_at q1 q2 e \/ below q1 q2 e).

Lemma firstn_snoc_le {A} (l : list A) x n : n <= length l -> firstn n (l ++ [x]) = firstn n l.
Proof.
  intros H. rewrite firstn_app. replace (n - length l) with 0 by lia. cbn. apply app_nil_r.
Qed.

Lemma anchored_chain_ok r1 r2 e : anchored r1 r2 e -> chain_ok r1 r2 e.
Proof.
  intros (q1 & q2 & L & R1 & R2 & [[E1 E2]|(k1 & k2 & E1 & E2 & K)]).
  - split; [rewrite E1, E2; exact L|].
    intros n _. rewrite E1, E2. split; apply resolves_firstn; assumption.
  - split; [rewrite E1, E2; unfold snoc; rewrite !app_length; cbn; lia|].
    rewrite K. intros n Hn. rewrite E1, E2 in *. unfold snoc in *. rewrite app_length in Hn. cbn in Hn.
    rewrite !firstn_snoc_le by lia. split; apply resolves_firstn; assumption.
Qed.

(* ---- the non-recursive reporters ---- *)
Section Local.
Variable hatom : atom -> pystr.
Variable udiff : pystr -> pystr -> pystr.
Variable ops : path -> list value -> list value -> list opcode.
Variable skip excl : path -> bool.
Variable c : cfg.

Lemma at_report k p1 p2 a b d : is_set_kind k = false -> Forall (at_ p1 p2) (report skip k p1 p2 a b d).
Proof.
  intros K. unfold report. destruct (skip p1); constructor; [|constructor]. repeat split; assumption.
Qed.

Lemma at_diff_atom a b p1 p2 : Forall (at_ p1 p2) (diff_atom udiff skip a b p1 p2).
Proof.
  unfold diff_atom. destruct (skip p1); [constructor|].
  destruct (negb _); [apply at_report; reflexivity|].
  destruct a, b; try (destruct (py_eq _ _); [constructor|apply at_report; reflexivity]).
  - destruct (diff_str udiff false s s0) as [ch d]. destruct ch; [apply at_report; reflexivity|constructor].
  - destruct (diff_str udiff true s s0) as [ch d]. destruct ch; [apply at_report; reflexivity|constructor].
Qed.

Lemma at_diff_leaf x y p1 p2 : Forall (at_ p1 p2) (diff_leaf udiff skip x y p1 p2).
Proof. unfold diff_leaf. destruct x, y; try constructor. apply at_diff_atom. Qed.

Lemma at_below p1 p2 k1 k2 l : Forall (at_ (snoc p1 k1) (snoc p2 k2)) l -> Forall (below p1 p2) l.
Proof. intros H. eapply Forall_impl; [|exact H]. intros e He. exists k1, k2. exact He. Qed.

Lemma below_removed_from xs i p1 p2 : Forall (below p1 p2) (removed_from skip xs i p1 p2).
Proof.
  revert i; induction xs as [|x xs IH]; intros i; cbn; [constructor|].
  apply Forall_app; split; [|apply IH]. eapply at_below. apply at_report. reflexivity.
Qed.
Lemma below_added_from ys j p1 p2 : Forall (below p1 p2) (added_from skip ys j p1 p2).
Proof.
  revert j; induction ys as [|y ys IH]; intros j; cbn; [constructor|].
  apply Forall_app; split; [|apply IH]. eapply at_below. apply at_report. reflexivity.
Qed.
Lemma below_pairs_leaf xs ys i j p1 p2 : Forall (below p1 p2) (pairs_leaf udiff skip xs ys i j p1 p2).
Proof.
  revert ys i j; induction xs as [|x xs IH]; intros ys i j.
  - cbn. destruct ys; apply below_added_from.
  - destruct ys as [|y ys]; [apply below_removed_from|].
    cbn [pairs_leaf]. apply Forall_app; split; [|apply IH].
    destruct (_ && _); eapply at_below; [apply at_report; reflexivity|apply at_diff_leaf].
Qed.
Lemma below_by_opcodes os xs ys p1 p2 : Forall (below p1 p2) (by_opcodes udiff skip os xs ys p1 p2).
Proof.
  unfold by_opcodes. induction os as [|o os IH]; cbn; [constructor|].
  apply Forall_app; split; [|exact IH].
  destruct (otag o); [constructor|apply below_pairs_leaf|apply below_removed_from|apply below_added_from].
Qed.
Lemma below_default_leaf_list xs ys p1 p2 :
  Forall (below p1 p2) (fst (default_leaf_list udiff ops skip xs ys p1 p2)).
Proof.
  unfold default_leaf_list. destruct (1 <? _); [|apply below_by_opcodes].
  destruct (_ <=? _); [apply below_pairs_leaf|apply below_by_opcodes].
Qed.
Lemma set_at_diff_set xs ys p1 p2 : Forall (set_at p1 p2) (diff_set hatom skip xs ys p1 p2).
Proof.
  unfold diff_set. apply Forall_app; split; apply Forall_forall; intros e He;
    apply in_flat_map in He as (y & _ & He); destruct (existsb _ _); try destruct He;
    unfold report_set in He; destruct (skip p1); try destruct He; try (subst e; split; reflexivity); try contradiction.
Qed.
End Local.

(* ---- the induction over [diff] ---- *)
Section Main.
Variable hatom : atom -> pystr.
Variable udiff : pystr -> pystr -> pystr.
Variable ops : path -> list value -> list value -> list opcode.
Variable skip excl : path -> bool.
Variable c : cfg.
Variables r1 r2 : value.
Notation diff := (diff hatom udiff ops skip excl c).
Notation A := (anchored r1 r2).

Lemma A_at p1 p2 l : length p1 = length p2 -> resolves r1 p1 -> resolves r2 p2 -> Forall (at_ p1 p2) l -> Forall A l.
Proof.
  intros L R1 R2 H. eapply Forall_impl; [|exact H]. intros e (E1 & E2 & _).
  exists p1, p2. repeat split; try assumption. left. split; assumption.
Qed.
Lemma A_below p1 p2 l : length p1 = length p2 -> resolves r1 p1 -> resolves r2 p2 -> Forall (below p1 p2) l -> Forall A l.
Proof.
  intros L R1 R2 H. eapply Forall_impl; [|exact H]. intros e He.
  exists p1, p2. repeat split; try assumption. right. exact He.
Qed.
Lemma A_set_at p1 p2 l : length p1 = length p2 -> resolves r1 p1 -> resolves r2 p2 -> Forall (set_at p1 p2) l -> Forall A l.
Proof.
  intros L R1 R2 H. eapply Forall_impl; [|exact H]. intros e He.
  exists p1, p2. repeat split; try assumption. left. exact He.
Qed.

Definition IHC (t1 : value) : Prop :=
  forall t2 p1 p2, length p1 = length p2 -> wf t1 = true -> wf t2 = true ->
    resolve r1 p1 = Some t1 -> resolve r2 p2 = Some t2 -> Forall A (fst (diff t1 t2 p1 p2)).

Lemma snoc_len (p1 p2 : path) k1 k2 : length p1 = length p2 -> length (snoc p1 k1) = length (snoc p2 k2).
Proof. intros H. unfold snoc. rewrite !app_length. cbn. lia. Qed.

Lemma A_go_list xs : Forall IHC xs -> forall ys i v1 v2 XS YS p1 p2, length p1 = length p2 ->
  resolve r1 p1 = Some v1 -> seq_items v1 = Some XS ->
  resolve r2 p2 = Some v2 -> seq_items v2 = Some YS ->
  (forall k x, nth_error xs k = Some x -> nth_error XS (i + k) = Some x) ->
  (forall k y, nth_error ys k = Some y -> nth_error YS (i + k) = Some y) ->
  forallb wf xs = true -> forallb wf ys = true ->
  Forall A (fst (go_list skip diff p1 p2 xs ys i)).
Proof.
  induction 1 as [|x xs Hx _ IH]; intros ys i v1 v2 XS YS p1 p2 L H1 S1 H2 S2 N1 N2 W1 W2.
  - cbn. eapply A_below; [exact L|eexists; exact H1|eexists; exact H2|apply below_added_from].
  - destruct ys as [|y ys].
    + cbn [go_list fst]. eapply A_below; [exact L|eexists; exact H1|eexists; exact H2|apply below_removed_from].
    + cbn [go_list]. unfold app2. cbn [fst]. apply Forall_app; split.
      * cbn in W1, W2. apply andb_true_iff in W1 as [Wx _], W2 as [Wy _].
        apply Hx; try assumption.
        -- apply snoc_len; exact L.
        -- eapply resolve_seq_item; try eassumption. specialize (N1 0 x eq_refl). rewrite Nat.add_0_r in N1. exact N1.
        -- eapply resolve_seq_item; try eassumption. specialize (N2 0 y eq_refl). rewrite Nat.add_0_r in N2. exact N2.
      * cbn in W1, W2. apply andb_true_iff in W1 as [_ W1], W2 as [_ W2].
        eapply IH; try eassumption.
        -- intros k z Hk. specialize (N1 (S k) z Hk). rewrite Nat.add_succ_r in N1. exact N1.
        -- intros k z Hk. specialize (N2 (S k) z Hk). rewrite Nat.add_succ_r in N2. exact N2.
Qed.

Lemma A_seq_body xs ys v1 v2 p1 p2 : length p1 = length p2 ->
  Forall IHC xs ->
  resolve r1 p1 = Some v1 -> seq_items v1 = Some xs ->
  resolve r2 p2 = Some v2 -> seq_items v2 = Some ys ->
  forallb wf xs = true -> forallb wf ys = true ->
  Forall A (fst (seq_body hatom udiff ops skip excl c xs ys p1 p2)).
Proof.
  intros L IH H1 S1 H2 S2 W1 W2. unfold seq_body.
  destruct (negb (zip c) && forallb is_atom xs && forallb is_atom ys).
  - pose proof (below_default_leaf_list udiff ops skip xs ys p1 p2) as P.
    destruct (default_leaf_list udiff ops skip xs ys p1 p2) as [es rec]. cbn [fst] in *.
    eapply A_below; [exact L|eexists; exact H1|eexists; exact H2|exact P].
  - eapply A_go_list; try eassumption; intros k z Hk; exact Hk.
Qed.

Lemma A_go_common kvs1 kvs2 p1 p2 : length p1 = length p2 ->
  nodup_atoms (map fst kvs1) = true ->
  forallb (fun kv => wf (snd kv)) kvs1 = true -> forallb (fun kv => wf (snd kv)) kvs2 = true ->
  resolve r1 p1 = Some (VDict kvs1) -> resolve r2 p2 = Some (VDict kvs2) ->
  forall l, (forall kv, In kv l -> In kv kvs1) -> Forall (fun kv => IHC (snd kv)) l ->
  Forall A (fst (go_common c diff kvs2 (keys_of c kvs2) p1 p2 l)).
Proof.
  intros L N1 W1 W2 H1 H2. induction l as [|[k v1] l IH]; intros Sub HI; cbn; [constructor|].
  apply Forall_cons_iff in HI as [Hk HI'].
  assert (Rest : Forall A (fst (go_common c diff kvs2 (keys_of c kvs2) p1 p2 l))).
  { apply IH; [intros kv Hkv; apply Sub; right; exact Hkv|exact HI']. }
  destruct (keep_key c k); [|exact Rest].
  destruct (find (py_eq k) (keys_of c kvs2)) as [k'|] eqn:Fk; [|exact Rest].
  destruct (assoc k' kvs2) as [v2|] eqn:A2; [|exact Rest].
  unfold app2. cbn [fst]. apply Forall_app; split; [|exact Rest].
  apply find_some in Fk as [Hk' E].
  cbn in Hk. apply Hk.
  - apply snoc_len; exact L.
  - eapply forallb_forall in W1; [|apply Sub; left; reflexivity]. exact W1.
  - apply assoc_In in A2 as (k'' & Hin & _). eapply forallb_forall in W2; [|exact Hin]. exact W2.
  - unfold snoc. rewrite resolve_snoc, H1. rewrite get_item_key_dict.
    eapply assoc_nodup; [exact N1|apply Sub; left; reflexivity|exact E].
  - unfold snoc. rewrite resolve_snoc, H2. rewrite get_item_key_dict. exact A2.
Qed.

Lemma A_dict_body kvs1 kvs2 p1 p2 : length p1 = length p2 ->
  Forall (fun kv => IHC (snd kv)) kvs1 ->
  wf (VDict kvs1) = true -> wf (VDict kvs2) = true ->
  resolve r1 p1 = Some (VDict kvs1) -> resolve r2 p2 = Some (VDict kvs2) ->
  Forall A (fst (dict_body hatom udiff ops skip excl c kvs1 kvs2 p1 p2)).
Proof.
  intros L IH W1 W2 H1 H2. cbn in W1, W2.
  apply andb_true_iff in W1 as [N1 W1], W2 as [N2 W2].
  assert (R1 : resolves r1 p1) by (eexists; exact H1).
  assert (R2 : resolves r2 p2) by (eexists; exact H2).
  unfold dict_body.
  destruct (dict_shortcut excl c (keys_of c kvs1) (keys_of c kvs2) p1).
  - cbn [fst]. eapply A_at; try eassumption. apply at_report. reflexivity.
  - cbn [fst]. apply Forall_app; split; [|apply Forall_app; split].
    + eapply A_below; try eassumption. apply Forall_forall. intros e He. apply in_flat_map in He as (k & _ & He).
      destruct (mem_atom k _); [destruct He|].
      pose proof (at_report skip KDictAdd (snoc p1 (PKey k)) (snoc p2 (PKey k)) None (assoc k kvs2) None eq_refl) as P.
      eapply Forall_forall in P; [|exact He]. exists (PKey k), (PKey k). exact P.
    + eapply A_below; try eassumption. apply Forall_forall. intros e He. apply in_flat_map in He as (k & _ & He).
      destruct (mem_atom k _); [destruct He|].
      pose proof (at_report skip KDictRem (snoc p1 (PKey k)) (snoc p2 (PKey k)) (assoc k kvs1) None None eq_refl) as P.
      eapply Forall_forall in P; [|exact He]. exists (PKey k), (PKey k). exact P.
    + apply (A_go_common kvs1 kvs2); try assumption. intros kv Hkv; exact Hkv.
Qed.

Theorem diff_anchored : forall t1, IHC t1.
Proof.
  induction t1 as [a|xs IH|xs IH|kvs IH|xs|xs] using value_ind'; intros t2 p1 p2 L W1 W2 H1 H2;
    assert (R1 : resolves r1 p1) by (eexists; exact H1);
    assert (R2 : resolves r2 p2) by (eexists; exact H2);
    (destruct (skip p1) eqn:Hs; [rewrite diff_skip by exact Hs; apply Forall_nil|]);
    (match goal with |- context [diff ?t1 t2 _ _] => destruct (ty_eqb (type_of t1) (type_of t2)) eqn:T end;
     [|rewrite diff_type by assumption; cbn [fst]; eapply A_at; try eassumption; apply at_report; reflexivity]);
    apply ty_eqb_true in T; destruct t2; try discriminate T; try (destruct a; discriminate T).
  - rewrite diff_atom_eq by exact Hs. destruct (negb _); cbn [fst]; eapply A_at; try eassumption;
      [apply at_report; reflexivity|apply at_diff_atom].
  - rewrite diff_list by exact Hs. eapply A_seq_body; try eassumption; reflexivity.
  - rewrite diff_tuple by exact Hs. eapply A_seq_body; try eassumption; reflexivity.
  - rewrite diff_dict by exact Hs. apply A_dict_body; assumption.
  - rewrite diff_vset by exact Hs. cbn [fst]. eapply A_set_at; try eassumption. apply set_at_diff_set.
  - rewrite diff_vfrozen by exact Hs. cbn [fst]. eapply A_set_at; try eassumption. apply set_at_diff_set.
Qed.

End Main.

(* ---- mutual_add_removes_to_become_value_changes keeps the chains ---- *)
Lemma mutual_anchored r1 r2 es : Forall (anchored r1 r2) es -> Forall (anchored r1 r2) (mutual es).
Proof.
  intros HF. apply Forall_forall. intros e He. unfold mutual in He.
  apply in_flat_map in He as (e0 & H0 & He).
  pose proof (proj1 (Forall_forall _ _) HF e0 H0) as F0.
  destruct (ekind e0) eqn:K; try (destruct He as [<-|[]]; exact F0).
  - destruct (last_with_path _ _); [destruct He|]. destruct He as [<-|[]]. exact F0.
  - destruct (last_with_path (ep1 e0) (filter (is_kind KIterAdd) es)) as [a|].
    2:{ destruct He as [<-|[]]. exact F0. }
    destruct (last_with_path (ep1 e0) (filter (is_kind KIterRem) es)) as [r|].
    2:{ destruct He as [<-|[]]. exact F0. }
    destruct He as [<-|[]].
    destruct F0 as (q1 & q2 & L & R1 & R2 & [[E1 E2]|(k1 & k2 & E1 & E2 & _)]);
      exists q1, q2; repeat split; try assumption.
    + left. split; assumption.
    + right. exists k1, k2. repeat split; assumption.
Qed.

Section Run.
Variable hatom : atom -> pystr.
Variable udiff : pystr -> pystr -> pystr.
Variable ops : path -> list value -> list value -> list opcode.
Variable skip excl : path -> bool.
Variable c : cfg.

Theorem run_diff_chains t1 t2 :
  wf t1 = true -> wf t2 = true ->
  forall e, In e (fst (run_diff hatom udiff ops skip excl c t1 t2)) -> chain_ok t1 t2 e.
Proof.
  intros W1 W2 e He. apply anchored_chain_ok.
  pose proof (diff_anchored hatom udiff ops skip excl c t1 t2 t1 t2 [] [] eq_refl W1 W2 eq_refl eq_refl) as HF.
  unfold run_diff in He. destruct (diff hatom udiff ops skip excl c t1 t2 [] []) as [es rec].
  cbn [fst] in *. pose proof (mutual_anchored t1 t2 es HF) as HM.
  eapply Forall_forall in HM; eassumption.
Qed.
End Run.

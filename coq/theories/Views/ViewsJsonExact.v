(** C10 - exactly when to_json() raises.

    [to_jsonable_none_iff]   json.dumps(v, default=json_convertor_default()) raises
        IF AND ONLY IF [json_ok v = false];
    [json_ok_false_kinds]    ... i.e. iff v contains (at any depth, as a list / tuple
        item, dict value or set member) one of exactly three kinds of objects:
        a frozenset (no row of the convertor table), a bytes object that is not
        valid UTF-8 (the bytes row raises), a dict with a bytes key (json refuses
        the key before any row is consulted);
    [builtin_norow_iff]      over the convertor table: the only object of the
        universe reaching the hook without a matching row is a frozenset;
    [entry_json_none_iff], [json_of_text_none_iff]   the document: to_json()
        raises iff an entry that survives in its category's dict (a later entry
        with the same path replaces an earlier one) shows such a value. *)
From Coq Require Import List ZArith NArith Bool Arith Lia String.
Import ListNotations.
From DD Require Import Base.PyStr Base.Value Base.ValueFacts Path.PathModel Diff.Tree Diff.DiffModel Diff.TextView
  Views.ViewsModel Views.ViewsChains Views.ViewsProofs Views.ViewsJsonMap.

Lemma all_some_none_iff {X} (l : list (option X)) : all_some l = None <-> In None l.
Proof.
  induction l as [|[x|] l IH]; cbn.
  - split; [discriminate|intros []].
  - destruct (all_some l) as [r|]; cbn.
    + split; [discriminate|]. intros [D|Hn]; [discriminate D|]. apply IH in Hn. discriminate Hn.
    + split; [intros _; right; apply IH; reflexivity|reflexivity].
  - split; [intros _; left; reflexivity|reflexivity].
Qed.
Lemma all_some_kv_none_iff {X Y} (l : list (X * option Y)) : all_some_kv l = None <-> exists k, In (k, None) l.
Proof.
  induction l as [|[k [y|]] l IH]; cbn.
  - split; [discriminate|intros (k & [])].
  - destruct (all_some_kv l) as [r|]; cbn.
    + split; [discriminate|]. intros (k' & [D|Hn]); [discriminate D|]. assert (Hx : exists k, In (k, @None Y) l) by (exists k'; exact Hn).
      apply IH in Hx. discriminate Hx.
    + split; [intros _|reflexivity]. destruct (proj1 IH eq_refl) as (k' & Hk'). exists k'. right. exact Hk'.
  - split; [intros _; exists k; left; reflexivity|reflexivity].
Qed.
Lemma option_map_none_iff {X Y} (f : X -> Y) o : option_map f o = None <-> o = None.
Proof. destruct o; cbn; split; congruence. Qed.

Lemma atom_jsonable_none_iff a : atom_jsonable a = None <-> atom_json_ok a = false.
Proof. destruct a; cbn; try (split; discriminate). destruct (utf8_decode s); cbn; split; congruence. Qed.

Theorem to_jsonable_none_iff : forall v, to_jsonable v = None <-> json_ok v = false.
Proof.
  induction v as [a|xs IH|xs IH|kvs IH|xs|xs] using value_ind'; cbn [json_ok to_jsonable].
  - apply atom_jsonable_none_iff.
  - rewrite option_map_none_iff, all_some_none_iff, in_map_iff. rewrite Forall_forall in IH. split.
    + intros (x & E & Hx). apply IH in E; [|exact Hx]. apply not_true_is_false. intros F.
      rewrite forallb_forall in F. rewrite (F x Hx) in E. discriminate.
    + intros F. destruct (forallb json_ok xs) eqn:E; [discriminate|]. clear F.
      assert (Hex : exists x, In x xs /\ json_ok x = false).
      { clear IH. induction xs as [|x xs IHx]; cbn in E; [discriminate|]. destruct (json_ok x) eqn:Jx.
        - destruct (IHx E) as (y & Hy & Jy). exists y. split; [right; exact Hy|exact Jy].
        - exists x. split; [left; reflexivity|exact Jx]. }
      destruct Hex as (x & Hx & Jx). exists x. split; [apply IH; assumption|exact Hx].
  - rewrite option_map_none_iff, all_some_none_iff, in_map_iff. rewrite Forall_forall in IH. split.
    + intros (x & E & Hx). apply IH in E; [|exact Hx]. apply not_true_is_false. intros F.
      rewrite forallb_forall in F. rewrite (F x Hx) in E. discriminate.
    + intros F. destruct (forallb json_ok xs) eqn:E; [discriminate|]. clear F.
      assert (Hex : exists x, In x xs /\ json_ok x = false).
      { clear IH. induction xs as [|x xs IHx]; cbn in E; [discriminate|]. destruct (json_ok x) eqn:Jx.
        - destruct (IHx E) as (y & Hy & Jy). exists y. split; [right; exact Hy|exact Jy].
        - exists x. split; [left; reflexivity|exact Jx]. }
      destruct Hex as (x & Hx & Jx). exists x. split; [apply IH; assumption|exact Hx].
  - rewrite option_map_none_iff, all_some_none_iff, in_map_iff. rewrite Forall_forall in IH. split.
    + intros ([k x] & E & Hx). apply not_true_is_false. intros F. rewrite forallb_forall in F.
      specialize (F _ Hx). cbn in F, E. apply andb_true_iff in F as [Fk Fv].
      specialize (IH _ Hx). cbn in IH.
      destruct (json_key k) eqn:Jk; [|destruct k; cbn in Jk, Fk; try discriminate; destruct b; discriminate].
      destruct (to_jsonable x) eqn:Jx; [discriminate|]. rewrite (proj1 IH eq_refl) in Fv. discriminate.
    + intros F. destruct (forallb _ kvs) eqn:E; [discriminate|]. clear F.
      assert (Hex : exists kv, In kv kvs /\ key_json_ok (fst kv) && json_ok (snd kv) = false).
      { clear IH. induction kvs as [|kv kvs IHx]; cbn in E; [discriminate|].
        destruct (key_json_ok (fst kv) && json_ok (snd kv)) eqn:Jx.
        - destruct (IHx E) as (y & Hy & Jy). exists y. split; [right; exact Hy|exact Jy].
        - exists kv. split; [left; reflexivity|exact Jx]. }
      destruct Hex as ([k x] & Hx & Jx). exists (k, x). split; [|exact Hx]. cbn in *.
      apply andb_false_iff in Jx as [Jk|Jv].
      * destruct k; cbn in Jk; try discriminate. reflexivity.
      * specialize (IH _ Hx). cbn in IH. rewrite (proj2 IH Jv). destruct (json_key k); reflexivity.
  - rewrite option_map_none_iff, all_some_none_iff, in_map_iff. split.
    + intros (x & E & Hx). apply atom_jsonable_none_iff in E. apply not_true_is_false. intros F.
      rewrite forallb_forall in F. rewrite (F x Hx) in E. discriminate.
    + intros F. destruct (forallb atom_json_ok xs) eqn:E; [discriminate|]. clear F.
      induction xs as [|x xs IHx]; cbn in E; [discriminate|]. destruct (atom_json_ok x) eqn:Jx.
      * destruct (IHx E) as (y & Ey & Hy). exists y. split; [exact Ey|right; exact Hy].
      * exists x. split; [apply atom_jsonable_none_iff; exact Jx|left; reflexivity].
  - split; reflexivity.
Qed.

(* ---- the three kinds, spelled out ---- *)
(* v itself and everything inside it that json.dumps visits as a value *)
Fixpoint subvalues (v : value) : list value :=
  v :: match v with
       | VList xs | VTuple xs => flat_map subvalues xs
       | VDict kvs => flat_map (fun kv => subvalues (snd kv)) kvs
       | VSet xs => map VAtom xs            (* after set -> list *)
       | _ => []
       end.
Definition unencodable (w : value) : Prop :=
  (exists xs, w = VFrozen xs) \/
  (exists s, w = VAtom (ABytes s) /\ utf8_decode s = None) \/
  (exists kvs s, w = VDict kvs /\ In (ABytes s) (map fst kvs)).

Lemma forallb_false_ex {X} (f : X -> bool) l : forallb f l = false <-> exists x, In x l /\ f x = false.
Proof.
  induction l as [|x l IH]; cbn; [split; [discriminate|intros (x & [] & _)]|].
  destruct (f x) eqn:E; cbn.
  - rewrite IH. split; intros (y & Hy & Fy); [exists y; split; [right; exact Hy|exact Fy]|].
    destruct Hy as [<-|Hy]; [congruence|exists y; split; assumption].
  - split; [intros _; exists x; split; [left; reflexivity|exact E]|reflexivity].
Qed.

Theorem json_ok_false_kinds : forall v, json_ok v = false <-> exists w, In w (subvalues v) /\ unencodable w.
Proof.
  induction v as [a|xs IH|xs IH|kvs IH|xs|xs] using value_ind'; cbn [json_ok subvalues].
  - split.
    + intros F. exists (VAtom a). split; [left; reflexivity|]. right. left.
      destruct a; cbn in F; try discriminate. exists s. split; [reflexivity|]. destruct (utf8_decode s); [discriminate|reflexivity].
    + intros (w & [<-|[]] & [(xs & D)|[(s & D & U)|(kvs & s & D & _)]]); try discriminate D.
      inversion D; subst. cbn. rewrite U. reflexivity.
  - rewrite forallb_false_ex. rewrite Forall_forall in IH. split.
    + intros (x & Hx & F). apply IH in F; [|exact Hx]. destruct F as (w & Hw & U). exists w. split; [|exact U].
      right. apply in_flat_map. exists x. split; assumption.
    + intros (w & [<-|Hw] & U).
      * destruct U as [(ys & D)|[(s & D & _)|(kvs & s & D & _)]]; discriminate D.
      * apply in_flat_map in Hw as (x & Hx & Hw). exists x. split; [exact Hx|]. apply IH; [exact Hx|]. exists w. split; assumption.
  - rewrite forallb_false_ex. rewrite Forall_forall in IH. split.
    + intros (x & Hx & F). apply IH in F; [|exact Hx]. destruct F as (w & Hw & U). exists w. split; [|exact U].
      right. apply in_flat_map. exists x. split; assumption.
    + intros (w & [<-|Hw] & U).
      * destruct U as [(ys & D)|[(s & D & _)|(kvs & s & D & _)]]; discriminate D.
      * apply in_flat_map in Hw as (x & Hx & Hw). exists x. split; [exact Hx|]. apply IH; [exact Hx|]. exists w. split; assumption.
  - rewrite forallb_false_ex. rewrite Forall_forall in IH. split.
    + intros ([k x] & Hx & F). cbn in F. apply andb_false_iff in F as [Fk|Fv].
      * exists (VDict kvs). split; [left; reflexivity|]. right. right. destruct k; cbn in Fk; try discriminate.
        exists kvs, s. split; [reflexivity|]. apply in_map_iff. exists (ABytes s, x). split; [reflexivity|exact Hx].
      * specialize (IH _ Hx). cbn in IH. apply IH in Fv as (w & Hw & U). exists w. split; [|exact U].
        right. apply in_flat_map. exists (k, x). split; assumption.
    + intros (w & [<-|Hw] & U).
      * destruct U as [(ys & D)|[(s & D & _)|(kvs' & s & D & Hk)]]; try discriminate D. inversion D; subst kvs'.
        apply in_map_iff in Hk as ([k x] & E & Hx). cbn in E. subst k. exists (ABytes s, x). split; [exact Hx|reflexivity].
      * apply in_flat_map in Hw as ([k x] & Hx & Hw). exists (k, x). split; [exact Hx|]. cbn. apply andb_false_iff. right.
        specialize (IH _ Hx). cbn in IH. apply IH. exists w. split; assumption.
  - rewrite forallb_false_ex. split.
    + intros (a & Ha & F). exists (VAtom a). split; [right; apply in_map; exact Ha|]. right. left.
      destruct a; cbn in F; try discriminate. exists s. split; [reflexivity|]. destruct (utf8_decode s); [discriminate|reflexivity].
    + intros (w & [<-|Hw] & U).
      * destruct U as [(ys & D)|[(s & D & _)|(kvs & s & D & _)]]; discriminate D.
      * apply in_map_iff in Hw as (a & <- & Ha). destruct U as [(ys & D)|[(s & D & U)|(kvs & s & D & _)]]; try discriminate D.
        inversion D; subst. exists (ABytes s). split; [exact Ha|]. cbn. rewrite U. reflexivity.
  - split; [intros _|reflexivity]. exists (VFrozen xs). split; [left; reflexivity|]. left. exists xs. reflexivity.
Qed.

(* over the convertor table: a frozenset is the one object without a row *)
Theorem builtin_norow_iff iso h : lookup iso builtin h = None <-> exists xs, h = HFrozen xs.
Proof.
  unfold lookup. destruct h; cbn; split; try discriminate; try (intros (ys & D); discriminate D); try reflexivity.
  intros _. exists xs. reflexivity.
Qed.

(* ---- entries and the document ---- *)
Lemma opt_field_some name o k : ~ In (k, @None jv) (opt_field name o).
Proof. destruct o; cbn; [intros [D|[]]; discriminate D|intros []]. Qed.

Theorem entry_json_none_iff t : entry_json t = None <-> exists x, In x (tvals t) /\ json_ok x = false.
Proof.
  destruct t as [p a b np vals|p a b np d|p v|p v|p v|p v|p np v|s|s]; cbn [entry_json tvals].
  - rewrite option_map_none_iff, all_some_kv_none_iff. split.
    + intros (k & Hk). rewrite !in_app_iff in Hk. destruct Hk as [Hk|[Hk|Hk]].
      * destruct Hk as [D|[D|[]]]; discriminate D.
      * exfalso. eapply opt_field_some; exact Hk.
      * destruct vals as [[x y]|]; [|destruct Hk]. destruct Hk as [D|[D|[]]]; inversion D as [[Ek En]]; apply to_jsonable_none_iff in En;
          [exists x|exists y]; split; try assumption; cbn; tauto.
    + intros (x & Hx & F). destruct vals as [[u w]|]; [|destruct Hx]. apply to_jsonable_none_iff in F.
      destruct Hx as [<-|[<-|[]]]; [exists (s2p "old_value")|exists (s2p "new_value")]; rewrite !in_app_iff; right; right;
        rewrite F; cbn; tauto.
  - rewrite option_map_none_iff, all_some_kv_none_iff. split.
    + intros (k & Hk). rewrite !in_app_iff in Hk. destruct Hk as [Hk|[Hk|Hk]].
      * destruct Hk as [D|[D|[]]]; inversion D as [[Ek En]]; apply to_jsonable_none_iff in En;
          [exists b|exists a]; split; try assumption; cbn; tauto.
      * exfalso. eapply opt_field_some; exact Hk.
      * exfalso. eapply opt_field_some; exact Hk.
    + intros (x & Hx & F). apply to_jsonable_none_iff in F.
      destruct Hx as [<-|[<-|[]]]; [exists (s2p "old_value")|exists (s2p "new_value")]; rewrite !in_app_iff; left;
        rewrite F; cbn; tauto.
  - destruct v as [x|]; cbn [tvals].
    + rewrite to_jsonable_none_iff. split; [intros F; exists x; split; [left; reflexivity|exact F]|intros (y & [<-|[]] & F); exact F].
    + cbn. split; [discriminate|intros (y & [] & _)].
  - destruct v as [x|]; cbn [tvals].
    + rewrite to_jsonable_none_iff. split; [intros F; exists x; split; [left; reflexivity|exact F]|intros (y & [<-|[]] & F); exact F].
    + cbn. split; [discriminate|intros (y & [] & _)].
  - rewrite to_jsonable_none_iff. split; [intros F; exists v; split; [left; reflexivity|exact F]|intros (y & [<-|[]] & F); exact F].
  - rewrite to_jsonable_none_iff. split; [intros F; exists v; split; [left; reflexivity|exact F]|intros (y & [<-|[]] & F); exact F].
  - rewrite option_map_none_iff, all_some_kv_none_iff. split.
    + intros (k & [D|[D|[]]]); [discriminate D|]. inversion D as [[Ek En]]. apply to_jsonable_none_iff in En. exists v. split; [left; reflexivity|exact En].
    + intros (y & [<-|[]] & F). apply to_jsonable_none_iff in F. exists (s2p "value"). right. left. rewrite F. reflexivity.
  - split; [discriminate|intros (y & [] & _)].
  - split; [discriminate|intros (y & [] & _)].
Qed.

(* the entries json.dumps sees of a dict category: the survivors of the path collisions *)
Definition survivors (c : cat) (ts : list tentry) : list (pystr * option jv) :=
  dict_last (map (fun t => (tpath t, entry_json t)) (in_cat c ts)).

Theorem json_of_text_none_iff verbose ts :
  json_of_text verbose ts = None <->
  exists c p, list_cat verbose c = false /\ In (p, None) (survivors c ts).
Proof.
  unfold json_of_text. rewrite option_map_none_iff, all_some_kv_none_iff. unfold cat_list, survivors. split.
  - intros (k & Hk). apply in_flat_map in Hk as (c & _ & Hc).
    destruct (in_cat c ts) as [|t0 l] eqn:I; [destruct Hc|]. destruct Hc as [Hc|[]].
    assert (En : cat_json verbose c (t0 :: l) = None) by congruence. clear Hc.
    unfold cat_json in En. destruct (list_cat verbose c) eqn:LC; [discriminate|].
    apply option_map_none_iff, all_some_kv_none_iff in En as (p & Hp). exists c, p. split; [exact LC|rewrite I; exact Hp].
  - intros (c & p & LC & Hp). exists (cat_name c). apply in_flat_map. exists c. split; [apply all_cats_complete|].
    destruct (in_cat c ts) as [|t0 l] eqn:I; [cbn in Hp; destruct Hp|]. left. f_equal.
    unfold cat_json. rewrite LC. apply (proj2 (option_map_none_iff _ _)), (proj2 (all_some_kv_none_iff _)). exists p. exact Hp.
Qed.

(* every survivor is an entry of the text view, so: raising needs an unencodable value in the text view *)
Corollary json_of_text_none_entry verbose ts :
  json_of_text verbose ts = None -> exists t x, In t ts /\ In x (tvals t) /\ json_ok x = false.
Proof.
  intros Hn. apply json_of_text_none_iff in Hn as (c & p & _ & Hp). unfold survivors in Hp.
  apply dict_last_sub in Hp. apply in_map_iff in Hp as (t & E & Ht). inversion E as [[Ep En]].
  apply entry_json_none_iff in En as (x & Hx & F). apply in_cat_In in Ht as [Ht _]. exists t, x. repeat split; assumption.
Qed.

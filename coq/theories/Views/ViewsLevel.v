(** C10 - the DiffLevel chain itself (deepdiff/model.py DiffLevel,
    ChildRelationship) as a zipper.

    A comparison line is a doubly linked list of DiffLevel objects from the
    root (holding the original t1, t2) down to the reported level; every object
    carries the two child relationships to its [down] neighbour.  A reference
    to one DiffLevel object of the line is a POSITION in the line:

        ups   the objects reached by following [up], nearest first
        cur   the object itself
        downs the objects reached by following [down], nearest first

    [up] / [down] move the position ([__setattr__] keeps the two links
    symmetric), [all_up] / [all_down] are the loops of the properties of the
    same name, [path_list] / [path_str] are DiffLevel.path(output_format='list')
    and path() with [use_t2], [create_deeper] is the method of the same name
    (with [auto_generate_child_rel]).  Relationship classes of the value
    universe: DictRelationship, SubscriptableIterableRelationship (both
    subscriptable: "[<repr of the param>]") and SetRelationship (inaccessible,
    param None: its get_param_repr is ":" because repr(None) round-trips and
    param_repr_format is None).  Attribute / non-subscriptable-iterable
    relationships need objects outside the universe.  Definitions only. *)
From Coq Require Import List ZArith NArith Bool Arith.
Import ListNotations.
From DD Require Import Base.PyStr Base.Value Path.PathModel Diff.Tree Diff.DiffModel.

Inductive relcls := CDict | CSub.
Inductive rel :=
| RItem (cls : relcls) (k : pkey)      (* parent[k] *)
| RMember.                             (* SetRelationship, param None *)

Record lnode := mkNode {
  n1 : option value;                   (* t1, None = notpresent *)
  n2 : option value;
  nrel1 : option rel;                  (* t1_child_rel: relationship to down.t1 *)
  nrel2 : option rel
}.

Record level := mkLevel { ups : list lnode; cur : lnode; downs : list lnode }.

(* the whole line, root first *)
Definition line (l : level) : list lnode := rev (ups l) ++ cur l :: downs l.

Definition up (l : level) : option level :=
  match ups l with
  | [] => None
  | u :: us => Some (mkLevel us u (cur l :: downs l))
  end.
Definition down (l : level) : option level :=
  match downs l with
  | [] => None
  | d :: ds => Some (mkLevel (cur l :: ups l) d ds)
  end.

(* level = self; while level.up: level = level.up *)
Fixpoint all_up_go (us : list lnode) (c : lnode) (ds : list lnode) : level :=
  match us with
  | [] => mkLevel [] c ds
  | u :: us' => all_up_go us' u (c :: ds)
  end.
Definition all_up (l : level) : level := all_up_go (ups l) (cur l) (downs l).
Fixpoint all_down_go (us : list lnode) (c : lnode) (ds : list lnode) : level :=
  match ds with
  | [] => mkLevel us c []
  | d :: ds' => all_down_go (c :: us) d ds'
  end.
Definition all_down (l : level) : level := all_down_go (ups l) (cur l) (downs l).

(* next_rel of path(): the side's own relationship, else the other side's *)
Definition pick (use_t2 : bool) (n : lnode) : option rel :=
  if use_t2 then match nrel2 n with Some r => Some r | None => nrel1 n end
  else match nrel1 n with Some r => Some r | None => nrel2 n end.

Definition rel_param (r : rel) : option pkey :=
  match r with RItem _ k => Some k | RMember => None end.

(* get_param_repr(force): the same for force in {None, 'yes', 'fake'} for these classes *)
Definition colon : pystr := [58%N].
Definition param_repr (r : rel) : pystr :=
  match r with
  | RItem _ k => render_key k
  | RMember => colon
  end.

(* path(output_format='list'): the loop from all_up down to self, stopping at a
   level without any relationship *)
Fixpoint path_list_go (use_t2 : bool) (nodes : list lnode) : list (option pkey) :=
  match nodes with
  | [] => []
  | n :: r => match pick use_t2 n with
              | None => []
              | Some rl => rel_param rl :: path_list_go use_t2 r
              end
  end.
Definition path_list (use_t2 : bool) (l : level) : list (option pkey) :=
  path_list_go use_t2 (rev (ups l)).

(* path(): result += item while item is non-empty; an empty item makes the path
   None (not reachable with these classes: every repr is non-empty) *)
Fixpoint path_str_go (use_t2 : bool) (nodes : list lnode) (acc : pystr) : option pystr :=
  match nodes with
  | [] => Some acc
  | n :: r => match pick use_t2 n with
              | None => Some acc
              | Some rl => match param_repr rl with
                           | [] => None
                           | s => path_str_go use_t2 r (acc ++ s)
                           end
              end
  end.
Definition path_str (use_t2 : bool) (l : level) : option pystr :=
  option_map (fun s => root_str ++ s)%list (path_str_go use_t2 (rev (ups l)) []).

(* create_deeper: level = self.all_down; the new object hangs below it;
   auto_generate_child_rel creates the t1 relationship when the new t1 is
   present (param) and the t2 relationship when the new t2 is present
   (param2, or param when param2 is None) *)
Definition mk_rel (cls : option relcls) (k : pkey) : rel :=
  match cls with Some cl => RItem cl k | None => RMember end.
Definition create_deeper (l : level) (new1 new2 : option value) (cls : option relcls)
    (param : pkey) (param2 : option pkey) : level :=
  let leaf := all_down l in
  let c := cur leaf in
  let c' := mkNode (n1 c) (n2 c)
              (match new1 with Some _ => Some (mk_rel cls param) | None => nrel1 c end)
              (match new2 with
               | Some _ => Some (mk_rel cls (match param2 with Some p2 => p2 | None => param end))
               | None => nrel2 c
               end) in
  mkLevel (c' :: ups leaf) (mkNode new1 new2 None None) [].

(* a line built from a root by successive create_deeper calls *)
Record cstep := mkStep { s1 : option value; s2 : option value; scls : relcls; sparam : pkey; sparam2 : option pkey }.
Definition root_level (t1 t2 : value) : level := mkLevel [] (mkNode (Some t1) (Some t2) None None) [].
Definition build (t1 t2 : value) (steps : list cstep) : level :=
  fold_left (fun l s => create_deeper l (s1 s) (s2 s) (Some (scls s)) (sparam s) (sparam2 s)) steps (root_level t1 t2).

(* the key each side of path() shows for one step *)
Definition step_key2 (s : cstep) : pkey := match sparam2 s with Some p2 => p2 | None => sparam s end.
Definition step_key (use_t2 : bool) (s : cstep) : pkey :=
  if use_t2 then match s2 s with Some _ => step_key2 s | None => sparam s end
  else match s1 s with Some _ => sparam s | None => step_key2 s end.
Definition step_live (s : cstep) : bool :=
  match s1 s, s2 s with None, None => false | _, _ => true end.

(* the level abstracted to what the rest of the development uses *)
Definition keys_of_opts (l : list (option pkey)) : path :=
  flat_map (fun o => match o with Some k => [k] | None => [] end) l.
Definition entry_of_level (k : rkind) (d : option pystr) (l : level) : entry :=
  mkEntry k (keys_of_opts (path_list false l)) (keys_of_opts (path_list true l)) (n1 (cur l)) (n2 (cur l)) d.

(** sx renderings of the C10 presentations for the correspondence check
    (mirrored by harness/props/c10.py).  No theorem depends on this file. *)
From Coq Require Import List ZArith NArith Bool Arith String.
Import ListNotations.
From DD Require Import Base.Sx Base.PyStr Base.Value Path.PathModel Diff.Tree Diff.DiffModel Diff.TextView
  Diff.DiffShow Views.ViewsModel.
Local Open Scope string_scope.

Fixpoint sx_jv (j : jv) : sx :=
  match j with
  | JNull => SA "null"
  | JBool b => SL [SA "b"; sx_bool b]
  | JInt z => SL [SA "i"; SZ z]
  | JHalf t => SL [SA "f"; SZ t]
  | JStr s => SL [SA "s"; sx_str s]
  | JList l => SL [SA "A"; SL (map sx_jv l)]
  | JObj kvs => SL [SA "O"; SL (map (fun kv => SL [sx_str (fst kv); sx_jv (snd kv)]) kvs)]
  end.

(* the order of the categories and of the paths inside a category is the
   tree's insertion order, which the entry list does not carry: both levels
   are compared sorted; everything below (the per-entry dict, the values) in
   order *)
Definition sx_payload (j : jv) : sx :=
  match j with
  | JObj kvs => SL [SA "O"; SL (sx_sort (map (fun kv => SL [sx_str (fst kv); sx_jv (snd kv)]) kvs))]
  | JList l => SL [SA "A"; SL (sx_sort (map sx_jv l))]
  | _ => sx_jv j
  end.
Definition sx_json (o : option jv) : sx :=
  match o with
  | None => SA "raise"
  | Some (JObj cats) => SL [SA "json"; SL (sx_sort (map (fun kv => SL [sx_str (fst kv); sx_payload (snd kv)]) cats))]
  | Some j => sx_jv j
  end.

Definition sx_view_result (r : view_result) : sx :=
  match r with
  | RText ts => SL [SA "text"; sx_text ts]
  | RTree es => SL [SA "tree"; sx_sorted_list sx_entry es]
  end.

Definition sx_pretty (l : list pystr) : sx := sx_sorted_list sx_str l.

(* all presentations of one ordered-mode run (report_repetition = False) *)
Definition sx_c10_es (verbose : nat) (es : list entry) : sx :=
  SL [sx_pretty (pretty verbose es);
      sx_json (to_json false verbose es);
      sx_view_result (to_dict false ViewTree (Some ViewText) verbose es);
      sx_view_result (to_dict false ViewText (Some ViewTree) verbose es)].
Definition sx_c10 (verbose : nat) (r : list entry * list path) : sx := sx_c10_es verbose (fst r).

(* all presentations of an ignore_order + report_repetition run; [rs] = the
   repetition records of the run as (path, old_indexes, new_indexes) *)
Definition sx_trep (t : trep) : sx :=
  SL [sx_str (trpath t); SL (map sx_nat (trold t)); SL (map sx_nat (trnew t)); sx_value (trval t)].
Definition sx_c10_rep (verbose : nat) (es : list entry) (rs : list repinfo3) : sx :=
  SL [sx_pretty (pretty verbose es);
      sx_json (to_json_full true verbose es rs);
      SL [SA "text"; sx_text (fst (text_full true verbose es rs)); sx_sorted_list sx_trep (snd (text_full true verbose es rs))];
      sx_view_result (to_dict true ViewText (Some ViewTree) verbose es)].

(* str() / repr() of a value, and the JSON-able value, on their own *)
Definition sx_strs (v : value) : sx :=
  SL [sx_str (py_str v); sx_str (py_repr v); match to_jsonable v with None => SA "raise" | Some j => sx_jv j end].

(** C10 - proofs about the presentations (Views/ViewsModel.v) as functions of an
    ARBITRARY entry list (so they hold for the ordered model, the ignore-order
    model and any tree a future change produces), plus the instances for
    [run_diff].  The chain clause is in ViewsChains.v. *)
From Coq Require Import List ZArith NArith Bool Arith Lia String.
Import ListNotations.
From DD Require Import Base.PyStr Base.Value Base.ValueFacts Path.PathModel
  Diff.Tree Diff.DiffModel Diff.DiffFacts Diff.DiffFaithful Diff.TextView Views.ViewsModel Views.ViewsChains.

(* ================================================================== *)
(* A. the text view is the documented projection of the tree           *)
(* ================================================================== *)

(* which levels the text view shows at a verbose level (the documented
   projection): values_changed from 1, iterable_item_moved at 2 only;
   repetition_change is handled outside the entry list *)
Definition visible (verbose : nat) (e : entry) : bool :=
  match ekind e with
  | KValue => Nat.ltb 0 verbose
  | KIterMoved => Nat.ltb 1 verbose
  | KRepetition => false
  | _ => true
  end.

(* what a text entry shows *)
Definition told (t : tentry) : option value :=
  match t with
  | TType _ _ _ _ (Some (a, _)) => Some a
  | TValue _ a _ _ _ => Some a
  | TDictRem _ v => v
  | TIterRem _ v => Some v
  | _ => None
  end.
Definition tnew (t : tentry) : option value :=
  match t with
  | TType _ _ _ _ (Some (_, b)) => Some b
  | TValue _ _ b _ _ => Some b
  | TDictAdd _ v => v
  | TIterAdd _ v => Some v
  | TMoved _ _ v => Some v
  | _ => None
  end.
Definition tnewpath (t : tentry) : option pystr :=
  match t with
  | TType _ _ _ np _ | TValue _ _ _ np _ => np
  | TMoved _ np _ => Some np
  | _ => None
  end.
Definition ttypes (t : tentry) : option (ty * ty) :=
  match t with TType _ a b _ _ => Some (a, b) | _ => None end.
Definition tdiff (t : tentry) : option pystr :=
  match t with TValue _ _ _ _ d => d | _ => None end.

(* the key under which the documentation files a level: its path; for a set
   item the path of the set followed by the bracketed member *)
Definition epath (e : entry) : pystr :=
  match ekind e with
  | KSetAdd => render (ep1 e) ++ [cLB] ++ str_item (opt_atom (et2 e)) ++ [cRB]
  | KSetRem => render (ep1 e) ++ [cLB] ++ str_item (opt_atom (et1 e)) ++ [cRB]
  | _ => render (ep1 e)
  end%list.

(* the leaf objects a level of this kind has *)
Definition shape_ok (e : entry) : Prop :=
  match ekind e with
  | KType | KValue | KIterMoved => et1 e <> None /\ et2 e <> None
  | KDictAdd | KIterAdd => et2 e <> None
  | KDictRem | KIterRem => et1 e <> None
  | KSetAdd => exists a, et2 e = Some (VAtom a)
  | KSetRem => exists a, et1 e = Some (VAtom a)
  | KRepetition => True
  end.

Definition otype (o : option value) : option ty := option_map type_of o.

(* new_path is present exactly when the t2-side path is spelled differently *)
Definition newpath_ok (show_it : bool) (e : entry) (np : option pystr) : Prop :=
  if show_it then (np = None /\ render (ep1 e) = render (ep2 e)) \/
                  (np = Some (render (ep2 e)) /\ render (ep1 e) <> render (ep2 e))
  else np = None.

Definition describes (verbose : nat) (e : entry) (t : tentry) : Prop :=
  kind_cat (ekind e) = Some (tcat t) /\
  tpath t = epath e /\
  match ekind e with
  | KType =>
      option_map (fun ab => (Some (fst ab), Some (snd ab))) (ttypes t) = Some (otype (et1 e), otype (et2 e)) /\
      (if Nat.ltb 0 verbose then told t = et1 e /\ tnew t = et2 e else told t = None /\ tnew t = None) /\
      newpath_ok (Nat.ltb 1 verbose) e (tnewpath t)
  | KValue =>
      told t = et1 e /\ tnew t = et2 e /\ tdiff t = ediff e /\ newpath_ok (Nat.ltb 1 verbose) e (tnewpath t)
  | KDictAdd => told t = None /\ tnew t = (if Nat.leb 2 verbose then et2 e else None)
  | KDictRem => tnew t = None /\ told t = (if Nat.leb 2 verbose then et1 e else None)
  | KIterAdd => told t = None /\ tnew t = et2 e
  | KIterRem => tnew t = None /\ told t = et1 e
  | KIterMoved => tnew t = et2 e /\ tnewpath t = Some (render (ep2 e))
  | KSetAdd | KSetRem | KRepetition => True
  end.

Lemma newpath_of_ok e : newpath_ok true e (new_path_of e).
Proof.
  unfold newpath_ok, new_path_of. destruct (pystr_eqb (render (ep1 e)) (render (ep2 e))) eqn:E.
  - left. split; [reflexivity|apply pystr_eqb_eq; exact E].
  - right. split; [reflexivity|]. intros H. apply pystr_eqb_eq in H. congruence.
Qed.

Lemma opt_val_some o : o <> None -> Some (opt_val o) = o.
Proof. destruct o; [reflexivity|congruence]. Qed.

Lemma text_of_visible verbose e :
  shape_ok e ->
  if visible verbose e then exists t, text_of verbose e = [t] /\ describes verbose e t
  else text_of verbose e = [].
Proof.
  intros S. unfold visible, text_of, describes, shape_ok, epath in *.
  destruct (ekind e) eqn:K; cbn [kind_cat].
  - (* KType *) destruct S as [S1 S2]. eexists; split; [reflexivity|]. cbn [tcat tpath ttypes told tnew tnewpath option_map fst snd].
    split; [reflexivity|]. split; [reflexivity|]. split; [|split].
    + unfold otype. destruct (et1 e); [|congruence]. destruct (et2 e); [|congruence]. reflexivity.
    + destruct (0 <? verbose); cbn; [split; apply opt_val_some; assumption|split; reflexivity].
    + destruct (1 <? verbose); [apply newpath_of_ok|reflexivity].
  - (* KValue *) destruct S as [S1 S2]. destruct (0 <? verbose) eqn:V; [|reflexivity].
    eexists; split; [reflexivity|]. cbn [tcat tpath told tnew tnewpath tdiff].
    split; [reflexivity|]. split; [reflexivity|]. repeat split; try (apply opt_val_some; assumption).
    destruct (1 <? verbose); [apply newpath_of_ok|reflexivity].
  - eexists; split; [reflexivity|]. cbn. repeat split.
  - eexists; split; [reflexivity|]. cbn. repeat split.
  - eexists; split; [reflexivity|]. cbn. repeat split. apply opt_val_some; exact S.
  - eexists; split; [reflexivity|]. cbn. repeat split. apply opt_val_some; exact S.
  - destruct S as [S1 S2]. destruct (1 <? verbose); [|reflexivity].
    eexists; split; [reflexivity|]. cbn. repeat split. apply opt_val_some; exact S2.
  - eexists; split; [reflexivity|]. cbn. repeat split.
  - eexists; split; [reflexivity|]. cbn. repeat split.
  - reflexivity.
Qed.

Theorem text_is_projection verbose es :
  Forall shape_ok es ->
  Forall2 (describes verbose) (filter (visible verbose) es) (text_view verbose es).
Proof.
  induction 1 as [|e es S _ IH]; cbn; [constructor|].
  pose proof (text_of_visible verbose e S) as H.
  destruct (visible verbose e).
  - destruct H as (t & -> & D). cbn. constructor; assumption.
  - rewrite H. cbn. exact IH.
Qed.

(* the (category, path) pairs alone need no assumption on the entries *)
Definition ekey (e : entry) : option cat * pystr := (kind_cat (ekind e), epath e).
Definition tkey (t : tentry) : option cat * pystr := (Some (tcat t), tpath t).

Theorem text_same_pairs verbose es :
  map tkey (text_view verbose es) = map ekey (filter (visible verbose) es).
Proof.
  induction es as [|e es IH]; [reflexivity|].
  change (text_view verbose (e :: es)) with (text_of verbose e ++ text_view verbose es)%list.
  rewrite map_app, IH. cbn [filter].
  assert (H : map tkey (text_of verbose e) = if visible verbose e then [ekey e] else []).
  { unfold visible, text_of, ekey, epath, set_item_text.
    destruct (ekind e) eqn:K; try reflexivity; destruct verbose as [|[|n]]; reflexivity. }
  rewrite H. destruct (visible verbose e); reflexivity.
Qed.

Lemma visible_2 e : visible 2 e = negb (rkind_eqb (ekind e) KRepetition).
Proof. unfold visible. destruct (ekind e); reflexivity. Qed.

(* every entry produced by the ordered diff has the leaf objects of its kind *)
Lemma faithful_shape_ok r1 r2 e : faithful false r1 r2 e -> shape_ok e.
Proof.
  unfold faithful, shape_ok. destruct (ekind e).
  - intros (a & b & -> & -> & _). split; discriminate.
  - intros (a & b & -> & -> & _). split; discriminate.
  - intros (b & _ & -> & _). discriminate.
  - intros (a & -> & _). discriminate.
  - intros (b & _ & -> & _). discriminate.
  - intros (a & -> & _). discriminate.
  - intros (a & b & -> & -> & _). split; discriminate.
  - intros (y & s & _ & -> & _). exists y. reflexivity.
  - intros (x & s & -> & _). exists x. reflexivity.
  - intros [].
Qed.

(* ================================================================== *)
(* B. to_dict(view_override): the second run of mutual_add_removes      *)
(* ================================================================== *)
Lemma pkey_eqb_refl k : pkey_eqb k k = true.
Proof. destruct k; cbn; [apply atom_eqb_refl|apply Nat.eqb_refl]. Qed.
Lemma path_eqb_refl p : path_eqb p p = true.
Proof. induction p as [|k p IH]; cbn; [reflexivity|]. rewrite pkey_eqb_refl. exact IH. Qed.

Lemma lwp_acc_none p l acc :
  fold_left (fun acc e => if path_eqb (ep1 e) p then Some e else acc) l acc = None <->
  acc = None /\ forall e, In e l -> ep1 e <> p.
Proof.
  revert acc; induction l as [|x l IH]; intros acc; cbn.
  - split; [intros H; split; [exact H|intros e []]|intros [H _]; exact H].
  - rewrite IH. destruct (path_eqb (ep1 x) p) eqn:E.
    + split; [intros [H _]; discriminate|].
      intros [_ H]. exfalso. apply (H x (or_introl eq_refl)). apply path_eqb_eq. exact E.
    + split.
      * intros [Ha H]. split; [exact Ha|]. intros e [<-|He]; [|apply H; exact He].
        intros Hp. rewrite Hp, path_eqb_refl in E. discriminate.
      * intros [Ha H]. split; [exact Ha|]. intros e He. apply H. right. exact He.
Qed.
Lemma lwp_none p l : last_with_path p l = None <-> forall e, In e l -> ep1 e <> p.
Proof. unfold last_with_path. rewrite lwp_acc_none. split; [intros [_ H]; exact H|intros H; split; [reflexivity|exact H]]. Qed.

Lemma flat_map_id {X} (f : X -> list X) l : (forall x, In x l -> f x = [x]) -> flat_map f l = l.
Proof.
  induction l as [|x l IH]; intros H; cbn; [reflexivity|].
  rewrite (H x (or_introl eq_refl)). cbn. f_equal. apply IH. intros y Hy. apply H. right. exact Hy.
Qed.

Lemma mutual_origin es e' : In e' (mutual es) ->
  (ekind e' = KIterRem -> In e' es /\ last_with_path (ep1 e') (filter (is_kind KIterAdd) es) = None) /\
  (ekind e' = KIterAdd -> In e' es /\ last_with_path (ep1 e') (filter (is_kind KIterRem) es) = None).
Proof.
  unfold mutual. intros He. apply in_flat_map in He as (e0 & H0 & He).
  destruct (ekind e0) eqn:K;
    try (destruct He as [<-|[]]; rewrite K; split; intros D; discriminate D).
  - (* KIterAdd *)
    destruct (last_with_path (ep1 e0) (filter (is_kind KIterRem) es)) eqn:L; [destruct He|].
    destruct He as [<-|[]]. rewrite K. split; [intros D; discriminate D|]. intros _. split; assumption.
  - (* KIterRem *)
    destruct (last_with_path (ep1 e0) (filter (is_kind KIterAdd) es)) as [a|] eqn:LA.
    + destruct (last_with_path (ep1 e0) (filter (is_kind KIterRem) es)) as [r|] eqn:LR.
      * destruct He as [<-|[]]. cbn. split; intros D; discriminate D.
      * exfalso. rewrite lwp_none in LR. apply (LR e0); [|reflexivity].
        apply filter_In. split; [exact H0|]. unfold is_kind. rewrite K. reflexivity.
    + destruct He as [<-|[]]. rewrite K. split; [|intros D; discriminate D]. intros _. split; assumption.
Qed.

Theorem mutual_idem es : mutual (mutual es) = mutual es.
Proof.
  unfold mutual at 1. apply flat_map_id. intros e He.
  pose proof (mutual_origin es e He) as [OR OA].
  destruct (ekind e) eqn:K; try reflexivity.
  - (* KIterAdd: no removed level at this path survives *)
    destruct (OA eq_refl) as [_ NR].
    assert (N : last_with_path (ep1 e) (filter (is_kind KIterRem) (mutual es)) = None).
    { apply lwp_none. intros r Hr. apply filter_In in Hr as [Hr Kr]. unfold is_kind in Kr.
      destruct (ekind r) eqn:Kr'; try discriminate Kr.
      destruct (proj1 (mutual_origin es r Hr) Kr') as [Hr0 _].
      rewrite lwp_none in NR. apply NR. apply filter_In. split; [exact Hr0|]. unfold is_kind. rewrite Kr'. reflexivity. }
    rewrite N. reflexivity.
  - (* KIterRem *)
    destruct (OR eq_refl) as [_ NA].
    assert (N : last_with_path (ep1 e) (filter (is_kind KIterAdd) (mutual es)) = None).
    { apply lwp_none. intros a Ha. apply filter_In in Ha as [Ha Ka]. unfold is_kind in Ka.
      destruct (ekind a) eqn:Ka'; try discriminate Ka.
      destruct (proj2 (mutual_origin es a Ha) Ka') as [Ha0 _].
      rewrite lwp_none in NA. apply NA. apply filter_In. split; [exact Ha0|]. unfold is_kind. rewrite Ka'. reflexivity. }
    rewrite N. reflexivity.
Qed.

(* the view a fresh run would give *)
Definition direct_view (vw : view) (verbose : nat) (tree : list entry) : view_result :=
  match vw with ViewTree => RTree tree | ViewText => RText (text_view verbose tree) end.

(* [tree] = what DeepDiff stored: it already went through _get_view_results once *)
Theorem to_dict_override (rep : bool) own ov verbose raw :
  let tree := if rep then raw else mutual raw in
  to_dict rep own ov verbose tree = direct_view (match ov with Some v => v | None => own end) verbose tree.
Proof.
  cbv zeta. unfold to_dict, get_view_results, direct_view. destruct rep; [reflexivity|].
  rewrite mutual_idem. reflexivity.
Qed.

(* ================================================================== *)
(* C. pretty()                                                          *)
(* ================================================================== *)
Lemma pretty_length verbose es : List.length (pretty verbose es) = List.length es.
Proof. apply map_length. Qed.

Lemma is_prefix_app x b : is_prefix x (x ++ b)%list = true.
Proof. induction x as [|c x IH]; cbn; [reflexivity|]. rewrite N.eqb_refl. exact IH. Qed.
Lemma contains_sub_here x b : contains_sub x (x ++ b)%list = true.
Proof. destruct x as [|c x]; [destruct b; reflexivity|]. cbn. rewrite N.eqb_refl, is_prefix_app. reflexivity. Qed.
Lemma contains_sub_mid a x b : contains_sub x (a ++ x ++ b)%list = true.
Proof.
  induction a as [|c a IH]; [cbn [app]; apply contains_sub_here|].
  cbn [app contains_sub]. rewrite IH. apply orb_true_r.
Qed.

(* every statement except that of a moved item names the path of its level
   (for a set item: the path of the set, which is the entry's key sequence) *)
Theorem pretty_names_path verbose e :
  ekind e <> KIterMoved ->
  contains_sub (render (ep1 e)) (pretty_of verbose e) = true.
Proof.
  intros M. unfold pretty_of.
  destruct (ekind e); try congruence;
    try destruct (Nat.eqb verbose 2); apply contains_sub_mid.
Qed.

Theorem pretty_nonempty verbose e : ekind e <> KIterMoved -> pretty_of verbose e <> [].
Proof.
  intros M. unfold pretty_of.
  destruct (ekind e); try congruence; try destruct (Nat.eqb verbose 2); cbn; discriminate.
Qed.

Theorem pretty_per_change verbose es :
  Forall2 (fun e s => s = pretty_of verbose e /\
                      (ekind e <> KIterMoved -> s <> []) /\
                      (ekind e <> KIterMoved -> contains_sub (render (ep1 e)) s = true))
          es (pretty verbose es).
Proof.
  induction es as [|e es IH]; cbn; constructor; [|exact IH].
  split; [reflexivity|]. split; [apply pretty_nonempty|apply pretty_names_path].
Qed.

(* the statement of a moved item is empty (no template for iterable_item_moved) *)
Lemma pretty_moved_empty verbose p1 p2 a b d : pretty_of verbose (mkEntry KIterMoved p1 p2 a b d) = [].
Proof. reflexivity. Qed.

(* finding C10-pretty-set-item-root (fixed in 9738d10): DeepDiff({'a': {1, 2}}, {'a': {1, 3}})
   now gives "Item root['a'][3] added to set." *)
Definition w_hatom (a : atom) : pystr := repr_atom a.
Definition w_set_t1 : value := VDict [(AStr (s2p "a"), VSet [AInt 1; AInt 2])].
Definition w_set_t2 : value := VDict [(AStr (s2p "a"), VSet [AInt 1; AInt 3])].
Definition w_cfg : cfg := mkCfg false 33 100 true.
Definition w_run (t1 t2 : value) (ops : path -> list value -> list value -> list opcode) : list entry :=
  fst (run_diff w_hatom (fun _ _ => []) ops (fun _ => false) (fun _ => false) w_cfg t1 t2).

Example pretty_set_item_example :
  exists e, In e (w_run w_set_t1 w_set_t2 (fun _ _ _ => [])) /\ ekind e = KSetAdd /\
            pretty_of 1 e = s2p "Item root['a'][3] added to set.".
Proof.
  exists (mkEntry KSetAdd [PKey (AStr (s2p "a"))] [PKey (AStr (s2p "a"))] None (Some (VAtom (AInt 3))) None).
  split; [vm_compute; tauto|]. split; vm_compute; reflexivity.
Qed.

(* ================================================================== *)
(* D. to_json                                                           *)
(* ================================================================== *)
Definition jmembers (j : jv) : list pystr :=
  match j with
  | JObj kvs => map fst kvs
  | JList l => flat_map (fun x => match x with JStr s => [s] | _ => [] end) l
  | _ => []
  end.

Lemma all_some_kv_spec {X Y} (l : list (X * option Y)) r :
  all_some_kv l = Some r ->
  map fst r = map fst l /\ forall k y, In (k, y) r -> In (k, Some y) l.
Proof.
  revert r; induction l as [|[k [y|]] l IH]; intros r H; cbn in H; try discriminate.
  - inversion H; subst. split; [reflexivity|intros ? ? []].
  - destruct (all_some_kv l) as [r'|]; [|discriminate]. inversion H; subst.
    destruct (IH r' eq_refl) as [I1 I2]. split; [cbn; f_equal; exact I1|].
    intros k' y' [E|E]; [inversion E; subst; left; reflexivity|right; apply I2; exact E].
Qed.

Lemma all_some_kv_total {X Y} (l : list (X * option Y)) :
  (forall kv, In kv l -> snd kv <> None) -> all_some_kv l <> None.
Proof.
  induction l as [|[k [y|]] l IH]; intros H; cbn; try discriminate.
  - destruct (all_some_kv l); [discriminate|]. exfalso. apply IH; [|reflexivity].
    intros kv Hkv. apply H. right. exact Hkv.
  - exfalso. apply (H (k, None)); [left; reflexivity|reflexivity].
Qed.

Lemma existsb_key {Y} (k : pystr) (r : list (pystr * Y)) :
  existsb (fun kv => pystr_eqb (fst kv) k) r = true <-> In k (map fst r).
Proof.
  rewrite existsb_exists. split.
  - intros (kv & Hkv & E). apply pystr_eqb_eq in E. subst. apply in_map. exact Hkv.
  - intros H. apply in_map_iff in H as (kv & <- & Hkv). exists kv. split; [exact Hkv|apply pystr_eqb_refl].
Qed.

Lemma dict_last_keys {Y} (l : list (pystr * Y)) k : In k (map fst (dict_last l)) <-> In k (map fst l).
Proof.
  induction l as [|[k0 v0] l IH]; cbn; [tauto|].
  destruct (existsb (fun kv => pystr_eqb (fst kv) k0) l) eqn:E.
  - rewrite IH. split; [intros H; right; exact H|]. intros [<-|H]; [|exact H]. apply existsb_key. exact E.
  - cbn. rewrite IH. tauto.
Qed.
Lemma dict_last_sub {Y} (l : list (pystr * Y)) kv : In kv (dict_last l) -> In kv l.
Proof.
  induction l as [|[k0 v0] l IH]; cbn; [tauto|].
  destruct (existsb _ l); [intros H; right; apply IH; exact H|].
  intros [H|H]; [left; exact H|right; apply IH; exact H].
Qed.

Lemma existsb_mem (s : pystr) seen : existsb (pystr_eqb s) seen = true <-> In s seen.
Proof.
  rewrite existsb_exists. split.
  - intros (x & Hx & E). apply pystr_eqb_eq in E. subst. exact Hx.
  - intros H. exists s. split; [exact H|apply pystr_eqb_refl].
Qed.
Lemma set_first_In seen l p : In p (set_first seen l) <-> In p l /\ ~ In p seen.
Proof.
  revert seen; induction l as [|s l IH]; intros seen; cbn; [tauto|].
  destruct (existsb (pystr_eqb s) seen) eqn:E.
  - apply existsb_mem in E. rewrite IH. split; [tauto|]. intros [[<-|H] N]; [contradiction|tauto].
  - assert (N : ~ In s seen) by (intros H; apply existsb_mem in H; congruence).
    cbn. rewrite IH. cbn. split.
    + intros [<-|[H1 H2]]; [tauto|]. split; [tauto|]. intros H; apply H2; right; exact H.
    + intros [[<-|H1] H2]; [left; reflexivity|].
      destruct (list_eq_dec N.eq_dec s p) as [<-|D]; [left; reflexivity|].
      right. split; [exact H1|]. intros [H|H]; [contradiction|contradiction].
Qed.

Lemma cat_eqb_eq a b : cat_eqb a b = true <-> a = b.
Proof. destruct a, b; cbn; split; intros H; try reflexivity; try discriminate. Qed.
Lemma all_cats_complete c : In c all_cats.
Proof. destruct c; cbn; tauto. Qed.
Lemma cat_name_inj a b : cat_name a = cat_name b -> a = b.
Proof. destruct a, b; intros H; try reflexivity; vm_compute in H; discriminate H. Qed.

Lemma in_cat_In c ts t : In t (in_cat c ts) <-> In t ts /\ tcat t = c.
Proof. unfold in_cat. rewrite filter_In, cat_eqb_eq. tauto. Qed.

Lemma jmembers_strs l : flat_map (fun x => match x with JStr s => [s] | _ => [] end) (map JStr l) = l.
Proof. induction l as [|s l IH]; cbn; [reflexivity|]. f_equal. exact IH. Qed.

Lemma cat_json_members verbose c l payload :
  cat_json verbose c l = Some payload ->
  forall p, In p (jmembers payload) <-> In p (map tpath l).
Proof.
  unfold cat_json. destruct (list_cat verbose c).
  - intros H p. inversion H; subst. cbn [jmembers]. rewrite jmembers_strs, set_first_In. cbn. tauto.
  - intros H p. destruct (all_some_kv _) as [kvs|] eqn:E; [|discriminate]. inversion H; subst.
    apply all_some_kv_spec in E as [E _]. cbn [jmembers]. rewrite E, dict_last_keys, map_map. cbn. tauto.
Qed.

Lemma cat_list_names verbose ts name :
  In name (map fst (cat_list verbose ts)) <-> exists t, In t ts /\ cat_name (tcat t) = name.
Proof.
  unfold cat_list. rewrite in_map_iff. split.
  - intros ([n o] & Hn & Hin). cbn in Hn. subst n. apply in_flat_map in Hin as (c & _ & Hc).
    destruct (in_cat c ts) as [|t l] eqn:I; [destruct Hc|]. destruct Hc as [Hc|[]]. inversion Hc; subst.
    assert (Ht : In t (in_cat c ts)) by (rewrite I; left; reflexivity).
    apply in_cat_In in Ht as [Ht Hc']. exists t. split; [exact Ht|]. rewrite Hc'. reflexivity.
  - intros (t & Ht & <-). exists (cat_name (tcat t), cat_json verbose (tcat t) (in_cat (tcat t) ts)).
    split; [reflexivity|]. apply in_flat_map. exists (tcat t). split; [apply all_cats_complete|].
    destruct (in_cat (tcat t) ts) as [|t0 l] eqn:I.
    + exfalso. assert (In t (in_cat (tcat t) ts)) by (apply in_cat_In; split; [exact Ht|reflexivity]). rewrite I in H. exact H.
    + left. reflexivity.
Qed.

Lemma cat_list_payload verbose ts c o :
  In (cat_name c, o) (cat_list verbose ts) -> o = cat_json verbose c (in_cat c ts).
Proof.
  unfold cat_list. intros Hin. apply in_flat_map in Hin as (c' & _ & Hc).
  destruct (in_cat c' ts) as [|t l] eqn:I; [destruct Hc|]. destruct Hc as [Hc|[]]. inversion Hc as [[N P]].
  apply cat_name_inj in N. subst c'. rewrite I. reflexivity.
Qed.

Lemma cat_members verbose ts c payload :
  cat_json verbose c (in_cat c ts) = Some payload ->
  forall p, In p (jmembers payload) <-> exists t, In t ts /\ tcat t = c /\ tpath t = p.
Proof.
  intros P p. rewrite (cat_json_members verbose c (in_cat c ts) payload P p), in_map_iff. split.
  - intros (t' & <- & Ht'). apply in_cat_In in Ht' as [Ht' Hc']. exists t'. repeat split; assumption.
  - intros (t' & Ht' & Hc' & <-). exists t'. split; [reflexivity|]. apply in_cat_In. split; assumption.
Qed.

(* the categories of the JSON object are those of the text view, and under each
   category the member names are the paths of the text view's entries *)
Theorem json_same_keys verbose ts j :
  json_of_text verbose ts = Some j ->
  exists cats, j = JObj cats /\
    (forall name, In name (map fst cats) <-> exists t, In t ts /\ cat_name (tcat t) = name) /\
    (forall c payload, In (cat_name c, payload) cats ->
       forall p, In p (jmembers payload) <-> exists t, In t ts /\ tcat t = c /\ tpath t = p).
Proof.
  unfold json_of_text. intros H.
  destruct (all_some_kv _) as [cats|] eqn:E; [|discriminate]. inversion H; subst. clear H.
  exists cats. split; [reflexivity|].
  apply all_some_kv_spec in E as [E1 E2]. split.
  - intros name. rewrite E1. apply cat_list_names.
  - intros c payload Hin. apply E2 in Hin. apply cat_list_payload in Hin. symmetry in Hin.
    eapply cat_members. exact Hin.
Qed.

(* ---- repetition_change ---- *)
Theorem rep_view_spec es rs :
  List.length rs = List.length (filter is_rep es) ->
  Forall2 (fun e t => trpath t = render (ep1 e) /\ trval t = opt_val (et1 e)) (filter is_rep es) (rep_view es rs) /\
  Forall2 (fun r t => trold t = snd (fst r) /\ trnew t = snd r) rs (rep_view es rs).
Proof.
  unfold rep_view. generalize (filter is_rep es) as l. intros l. revert rs.
  induction l as [|e l IH]; intros [|r rs] L; cbn in L; try discriminate; cbn; [split; constructor|].
  destruct (IH rs (eq_add_S _ _ L)) as [A B]. split; constructor; try assumption; split; reflexivity.
Qed.

Lemma rep_name_fresh c : cat_name c <> rep_name.
Proof. destruct c; intros Hc; vm_compute in Hc; discriminate Hc. Qed.

(* the complete document (with the repetition_change category) *)
Theorem json_full_same_keys verbose ts reps j :
  json_full verbose ts reps = Some j ->
  exists cats, j = JObj cats /\
    (forall name, In name (map fst cats) <->
       (exists t, In t ts /\ cat_name (tcat t) = name) \/ (name = rep_name /\ reps <> [])) /\
    (forall c payload, In (cat_name c, payload) cats ->
       forall p, In p (jmembers payload) <-> exists t, In t ts /\ tcat t = c /\ tpath t = p) /\
    (forall payload, In (rep_name, payload) cats ->
       forall p, In p (jmembers payload) <-> exists t, In t reps /\ trpath t = p).
Proof.
  unfold json_full. intros H.
  destruct (all_some_kv _) as [cats|] eqn:E; [|discriminate]. inversion H; subst. clear H.
  exists cats. split; [reflexivity|].
  apply all_some_kv_spec in E as [E1 E2]. split; [|split].
  - intros name. rewrite E1, map_app, in_app_iff, cat_list_names. split; intros [Hl|Hr]; try (left; exact Hl); right.
    + unfold rep_cat in Hr. destruct reps; [destruct Hr|]. destruct Hr as [<-|[]]. split; [reflexivity|discriminate].
    + destruct Hr as [-> Hne]. unfold rep_cat. destruct reps; [congruence|]. left. reflexivity.
  - intros c payload Hin. apply E2 in Hin. apply in_app_or in Hin as [Hin|Hin].
    + apply cat_list_payload in Hin. symmetry in Hin. eapply cat_members. exact Hin.
    + exfalso. unfold rep_cat in Hin. destruct reps; [destruct Hin|]. destruct Hin as [Hin|[]].
      apply (f_equal fst) in Hin. cbn [fst] in Hin. symmetry in Hin. exact (rep_name_fresh c Hin).
  - intros payload Hin p. apply E2 in Hin. apply in_app_or in Hin as [Hin|Hin].
    + exfalso. assert (Hn : In rep_name (map fst (cat_list verbose ts))) by (apply in_map_iff; eexists; split; [|exact Hin]; reflexivity).
      apply cat_list_names in Hn as (t & _ & Hn). exact (rep_name_fresh _ Hn).
    + unfold rep_cat in Hin. destruct reps as [|t0 reps0] eqn:R; [destruct Hin|]. destruct Hin as [Hin|[]].
      apply (f_equal snd) in Hin. cbn [snd] in Hin.
      destruct (all_some_kv (dict_last _)) as [kvs|] eqn:A; [|discriminate]. cbn in Hin. inversion Hin; subst payload.
      apply all_some_kv_spec in A as [A _]. cbn [jmembers]. rewrite A, dict_last_keys, map_map. cbn [fst].
      rewrite in_map_iff. split.
      * intros (t & <- & Ht). exists t. split; [exact Ht|reflexivity].
      * intros (t & Ht & <-). exists t. split; [reflexivity|exact Ht].
Qed.

(* ---- when does to_json succeed ---- *)
Definition atom_json_ok (a : atom) : bool :=
  match a with ABytes s => match utf8_decode s with Some _ => true | None => false end | _ => true end.
Definition key_json_ok (a : atom) : bool := match a with ABytes _ => false | _ => true end.
Fixpoint json_ok (v : value) : bool :=
  match v with
  | VAtom a => atom_json_ok a
  | VList xs | VTuple xs => forallb json_ok xs
  | VDict kvs => forallb (fun kv => key_json_ok (fst kv) && json_ok (snd kv)) kvs
  | VSet xs => forallb atom_json_ok xs
  | VFrozen _ => false
  end.

Lemma all_some_total {X} (l : list (option X)) : (forall o, In o l -> o <> None) -> all_some l <> None.
Proof.
  induction l as [|[x|] l IH]; intros H; cbn; try discriminate.
  - destruct (all_some l); [discriminate|]. exfalso. apply IH; [|reflexivity]. intros o Ho. apply H. right. exact Ho.
  - exfalso. apply (H None); [left; reflexivity|reflexivity].
Qed.
Lemma option_map_some {X Y} (f : X -> Y) o : o <> None -> option_map f o <> None.
Proof. destruct o; [discriminate|congruence]. Qed.

Lemma atom_jsonable_total a : atom_json_ok a = true -> atom_jsonable a <> None.
Proof. destruct a; cbn; try discriminate. destruct (utf8_decode s); [discriminate|intros H; discriminate H]. Qed.

Theorem to_jsonable_total : forall v, json_ok v = true -> to_jsonable v <> None.
Proof.
  induction v as [a|xs IH|xs IH|kvs IH|xs|xs] using value_ind'; cbn [json_ok to_jsonable]; intros H.
  - apply atom_jsonable_total. exact H.
  - apply option_map_some, all_some_total. intros o Ho. apply in_map_iff in Ho as (x & <- & Hx).
    rewrite Forall_forall in IH. apply IH; [exact Hx|]. eapply forallb_forall in H; eassumption.
  - apply option_map_some, all_some_total. intros o Ho. apply in_map_iff in Ho as (x & <- & Hx).
    rewrite Forall_forall in IH. apply IH; [exact Hx|]. eapply forallb_forall in H; eassumption.
  - apply option_map_some, all_some_total. intros o Ho. apply in_map_iff in Ho as ([k x] & <- & Hx).
    rewrite Forall_forall in IH. eapply forallb_forall in H; [|exact Hx]. cbn in H. apply andb_true_iff in H as [Hk Hv].
    cbn. specialize (IH (k, x) Hx Hv). cbn in IH.
    destruct k; cbn in *; try discriminate Hk; destruct (to_jsonable x); try congruence; try discriminate;
      destruct b; discriminate.
  - apply option_map_some, all_some_total. intros o Ho. apply in_map_iff in Ho as (x & <- & Hx).
    apply atom_jsonable_total. eapply forallb_forall in H; eassumption.
  - discriminate H.
Qed.

(* the values a text entry carries into the JSON document *)
Definition tvals (t : tentry) : list value :=
  match t with
  | TType _ _ _ _ (Some (a, b)) => [a; b]
  | TValue _ a b _ _ => [a; b]
  | TDictAdd _ (Some v) | TDictRem _ (Some v) => [v]
  | TIterAdd _ v | TIterRem _ v | TMoved _ _ v => [v]
  | _ => []
  end.
Definition tvals_ok (t : tentry) : Prop := forall x, In x (tvals t) -> json_ok x = true.

Lemma opt_field_ok name o kv : In kv (opt_field name o) -> snd kv <> None.
Proof. destruct o; cbn; [intros [<-|[]]; discriminate|intros []]. Qed.

Lemma entry_json_total t : tvals_ok t -> entry_json t <> None.
Proof.
  unfold tvals_ok. intros H. destruct t as [p a b np vals|p a b np d|p v|p v|p v|p v|p np v|s|s]; cbn [entry_json].
  - apply option_map_some, all_some_kv_total. intros kv Hkv. cbn in Hkv.
    destruct Hkv as [<-|[<-|Hkv]]; try discriminate. apply in_app_or in Hkv as [Hkv|Hkv]; [eapply opt_field_ok; exact Hkv|].
    destruct vals as [[x y]|]; [|destruct Hkv]. cbn in H.
    destruct Hkv as [<-|[<-|[]]]; cbn; apply to_jsonable_total; apply H; tauto.
  - apply option_map_some, all_some_kv_total. intros kv Hkv. cbn in Hkv, H.
    destruct Hkv as [<-|[<-|Hkv]]; cbn; try (apply to_jsonable_total; apply H; tauto).
    apply in_app_or in Hkv as [Hkv|Hkv]; eapply opt_field_ok; exact Hkv.
  - destruct v; [apply to_jsonable_total; apply H; left; reflexivity|discriminate].
  - destruct v; [apply to_jsonable_total; apply H; left; reflexivity|discriminate].
  - apply to_jsonable_total; apply H; left; reflexivity.
  - apply to_jsonable_total; apply H; left; reflexivity.
  - apply option_map_some, all_some_kv_total. intros kv Hkv. cbn in Hkv, H.
    destruct Hkv as [<-|[<-|[]]]; cbn; [discriminate|]. apply to_jsonable_total; apply H; tauto.
  - discriminate.
  - discriminate.
Qed.

Theorem json_total verbose ts : Forall tvals_ok ts -> json_of_text verbose ts <> None.
Proof.
  intros H. unfold json_of_text. apply option_map_some, all_some_kv_total.
  intros [name o] Hin. cbn. apply in_flat_map in Hin as (c & _ & Hc).
  destruct (in_cat c ts) as [|t l] eqn:I; [destruct Hc|]. destruct Hc as [Hc|[]]. inversion Hc; subst. clear Hc.
  unfold cat_json. destruct (list_cat verbose c); [discriminate|].
  apply option_map_some, all_some_kv_total. intros kv Hkv. apply dict_last_sub in Hkv.
  apply in_map_iff in Hkv as (t' & <- & Ht'). cbn. apply entry_json_total.
  rewrite <- I in Ht'. apply in_cat_In in Ht' as [Ht' _]. rewrite Forall_forall in H. apply H. exact Ht'.
Qed.

(* the values of a text entry are leaf objects of the entry it comes from *)
Lemma text_of_vals verbose e t x :
  In t (text_of verbose e) -> In x (tvals t) -> x = opt_val (et1 e) \/ x = opt_val (et2 e).
Proof.
  unfold text_of. destruct (ekind e); destruct verbose as [|[|n]]; cbn;
    try (destruct (et1 e)); try (destruct (et2 e)); cbn;
    intuition (subst; cbn in *; intuition (subst; auto)).
Qed.

Definition entry_json_ok (e : entry) : Prop := json_ok (opt_val (et1 e)) = true /\ json_ok (opt_val (et2 e)) = true.

Theorem to_json_total (rep : bool) verbose tree :
  Forall entry_json_ok (if rep then tree else mutual tree) -> to_json rep verbose tree <> None.
Proof.
  intros H. unfold to_json, get_view_results. apply json_total.
  apply Forall_forall. intros t Ht x Hx. unfold text_view in Ht. apply in_flat_map in Ht as (e & He & Ht).
  rewrite Forall_forall in H. destruct (H e He) as [H1 H2].
  destruct (text_of_vals verbose e t x Ht Hx) as [->| ->]; assumption.
Qed.

(* finding C10-to_json-non-utf8-bytes: DeepDiff([b'\xff'], [b'a']).to_json() *)
Definition w_bytes_t1 : value := VList [VAtom (ABytes [255%N])].
Definition w_bytes_t2 : value := VList [VAtom (ABytes [97%N])].
Definition w_bytes_ops (_ : path) (_ _ : list value) : list opcode := [mkOp OReplace 0 1 0 1].

Lemma to_json_total_refuted :
  w_run w_bytes_t1 w_bytes_t2 w_bytes_ops <> [] /\
  Forall (fun e => type_of (opt_val (et1 e)) = TBytes /\ type_of (opt_val (et2 e)) = TBytes) (w_run w_bytes_t1 w_bytes_t2 w_bytes_ops) /\
  to_json false 1 (w_run w_bytes_t1 w_bytes_t2 w_bytes_ops) = None.
Proof. split; [vm_compute; discriminate|]. split; [vm_compute; repeat constructor|vm_compute; reflexivity]. Qed.

(* the guards are satisfiable by non-trivial values *)
Example json_ok_example :
  json_ok (VDict [(AInt 1, VList [VAtom (ABytes [99; 195; 169]%N); VTuple [VAtom (AHalf 3)]]); (ANone, VSet [AStr (s2p "x")])]) = true.
Proof. reflexivity. Qed.

(* ================================================================== *)
(* E. instances for a whole ordered run                                 *)
(* ================================================================== *)
Section Run.
Variable hatom : atom -> pystr.
Variable udiff : pystr -> pystr -> pystr.
Variable ops : path -> list value -> list value -> list opcode.
Variable skip excl : path -> bool.
Variable c : cfg.

Lemma run_diff_shape_ok t1 t2 :
  thr_num c <= thr_den c -> wf t1 = true -> wf t2 = true ->
  Forall shape_ok (fst (run_diff hatom udiff ops skip excl c t1 t2)).
Proof.
  intros Hthr W1 W2. apply Forall_forall. intros e He.
  destruct (run_diff_faithful hatom udiff ops skip excl c t1 t2 Hthr W1 W2 e He) as [F _].
  eapply faithful_shape_ok; exact F.
Qed.

Theorem run_diff_text_projection verbose t1 t2 :
  thr_num c <= thr_den c -> wf t1 = true -> wf t2 = true ->
  Forall2 (describes verbose)
          (filter (visible verbose) (fst (run_diff hatom udiff ops skip excl c t1 t2)))
          (text_view verbose (fst (run_diff hatom udiff ops skip excl c t1 t2))).
Proof. intros. apply text_is_projection. apply run_diff_shape_ok; assumption. Qed.

(* the stored tree of an ordered run is a fixed point of mutual_add_removes *)
Theorem run_diff_to_dict own ov verbose t1 t2 :
  to_dict false own ov verbose (fst (run_diff hatom udiff ops skip excl c t1 t2)) =
  direct_view (match ov with Some v => v | None => own end) verbose (fst (run_diff hatom udiff ops skip excl c t1 t2)).
Proof.
  unfold run_diff. destruct (diff hatom udiff ops skip excl c t1 t2 [] []) as [es rec]. cbn [fst].
  exact (to_dict_override false own ov verbose es).
Qed.
End Run.

Theorem to_json_same_keys (rep : bool) verbose tree j :
  to_json rep verbose tree = Some j ->
  let ts := text_view verbose (if rep then tree else mutual tree) in
  exists cats, j = JObj cats /\
    (forall name, In name (map fst cats) <-> exists t, In t ts /\ cat_name (tcat t) = name) /\
    (forall c payload, In (cat_name c, payload) cats ->
       forall p, In p (jmembers payload) <-> exists t, In t ts /\ tcat t = c /\ tpath t = p).
Proof. unfold to_json, get_view_results. intros H. apply json_same_keys in H. exact H. Qed.

(** C10 - facts about the DiffLevel zipper (Views/ViewsLevel.v):
    up/down are inverse, all_up/all_down reach the two ends of the SAME line,
    path() in both forms and on both sides is the rendering of the
    relationships from the root, and for a line built by create_deeper it is
    the sequence of the parameters handed to create_deeper. *)
From Coq Require Import List ZArith NArith Bool Arith Lia.
Import ListNotations.
From DD Require Import Base.PyStr Base.Value Path.PathModel Diff.Tree Diff.DiffModel Diff.DiffFacts Views.ViewsLevel.

(* ---- up / down ---- *)
Theorem up_down l d : down l = Some d -> up d = Some l.
Proof. unfold down, up. destruct l as [us c [|x ds]]; cbn; intros E; inversion E; reflexivity. Qed.
Theorem down_up l u : up l = Some u -> down u = Some l.
Proof. unfold down, up. destruct l as [[|x us] c ds]; cbn; intros E; inversion E; reflexivity. Qed.
Theorem up_line l u : up l = Some u -> line u = line l.
Proof.
  unfold up, line. destruct l as [[|x us] c ds]; cbn; intros E; inversion E; subst; cbn.
  rewrite <- app_assoc. reflexivity.
Qed.
Theorem down_line l d : down l = Some d -> line d = line l.
Proof.
  unfold down, line. destruct l as [us c [|x ds]]; cbn; intros E; inversion E; subst; cbn.
  rewrite <- app_assoc. reflexivity.
Qed.

(* ---- all_up / all_down ---- *)
Lemma all_up_go_spec us c ds :
  ups (all_up_go us c ds) = [] /\ line (all_up_go us c ds) = rev us ++ c :: ds.
Proof.
  revert c ds; induction us as [|u us IH]; intros c ds; cbn; [split; reflexivity|].
  destruct (IH u (c :: ds)) as [A B]. split; [exact A|]. rewrite B, <- app_assoc. reflexivity.
Qed.
Lemma all_down_go_spec us c ds :
  downs (all_down_go us c ds) = [] /\ line (all_down_go us c ds) = rev us ++ c :: ds.
Proof.
  revert us c; induction ds as [|d ds IH]; intros us c; cbn; [split; reflexivity|].
  destruct (IH (c :: us) d) as [A B]. split; [exact A|]. rewrite B. cbn. rewrite <- app_assoc. reflexivity.
Qed.

Theorem all_up_root l : ups (all_up l) = [] /\ up (all_up l) = None /\ line (all_up l) = line l.
Proof.
  destruct (all_up_go_spec (ups l) (cur l) (downs l)) as [A B]. unfold all_up.
  split; [exact A|]. split; [unfold up; rewrite A; reflexivity|exact B].
Qed.
Theorem all_down_leaf l : downs (all_down l) = [] /\ down (all_down l) = None /\ line (all_down l) = line l.
Proof.
  destruct (all_down_go_spec (ups l) (cur l) (downs l)) as [A B]. unfold all_down.
  split; [exact A|]. split; [unfold down; rewrite A; reflexivity|exact B].
Qed.

(* a position is determined by its line and its depth *)
Lemma app_eq_len {A} (a b c d : list A) : length a = length c -> a ++ b = c ++ d -> a = c /\ b = d.
Proof.
  revert c; induction a as [|x a IH]; intros [|y c] L E; cbn in *; try discriminate; [split; [reflexivity|exact E]|].
  inversion E; subst. destruct (IH c (eq_add_S _ _ L) H1) as [-> ->]. split; reflexivity.
Qed.

Lemma level_ext a b : line a = line b -> length (ups a) = length (ups b) -> a = b.
Proof.
  destruct a as [ua ca da], b as [ub cb db]. unfold line. cbn. intros E L.
  assert (L' : length (rev ua) = length (rev ub)) by (rewrite !rev_length; exact L).
  destruct (app_eq_len _ _ _ _ L' E) as [E1 E2]. inversion E2; subst.
  apply (f_equal (@rev _)) in E1. rewrite !rev_involutive in E1. subst. reflexivity.
Qed.

(* the two loops end at the two ends of one and the same line: following them
   in either order gives the same objects *)
Theorem all_up_all_down l : all_up (all_down l) = all_up l.
Proof.
  destruct (all_up_root (all_down l)) as (A1 & _ & B1). destruct (all_up_root l) as (A2 & _ & B2).
  destruct (all_down_leaf l) as (_ & _ & C). apply level_ext; [congruence|rewrite A1, A2; reflexivity].
Qed.
Theorem all_down_all_up l : all_down (all_up l) = all_down l.
Proof.
  destruct (all_down_leaf (all_up l)) as (A1 & _ & B1). destruct (all_down_leaf l) as (A2 & _ & B2).
  destruct (all_up_root l) as (_ & _ & C).
  assert (E : line (all_down (all_up l)) = line (all_down l)) by congruence.
  apply level_ext; [exact E|].
  (* both have no downs: the depth is the length of the line minus one *)
  apply (f_equal (@length _)) in E. unfold line in E. rewrite A1, A2 in E.
  rewrite !app_length, !rev_length in E. cbn in E. lia.
Qed.
Theorem all_up_idem l : all_up (all_up l) = all_up l.
Proof.
  destruct (all_up_root (all_up l)) as (A1 & _ & B1). destruct (all_up_root l) as (A2 & _ & B2).
  apply level_ext; [congruence|rewrite A1, A2; reflexivity].
Qed.

(* ---- path() ---- *)
(* the relationships path() follows: those of the objects above self, from the
   root, up to the first object without any relationship *)
Fixpoint rels_go (use_t2 : bool) (nodes : list lnode) : list rel :=
  match nodes with
  | [] => []
  | n :: r => match pick use_t2 n with None => [] | Some rl => rl :: rels_go use_t2 r end
  end.
Definition rels (use_t2 : bool) (l : level) : list rel := rels_go use_t2 (rev (ups l)).

Theorem path_list_rels use_t2 l : path_list use_t2 l = map rel_param (rels use_t2 l).
Proof.
  unfold path_list, rels. induction (rev (ups l)) as [|n r IH]; cbn; [reflexivity|].
  destruct (pick use_t2 n); cbn; [rewrite IH|]; reflexivity.
Qed.

Lemma render_key_nonempty k : render_key k <> [].
Proof. unfold render_key. discriminate. Qed.
Lemma param_repr_nonempty r : param_repr r <> [].
Proof. destruct r; [apply render_key_nonempty|discriminate]. Qed.

Lemma path_str_go_spec use_t2 nodes acc :
  path_str_go use_t2 nodes acc = Some (acc ++ flat_map param_repr (rels_go use_t2 nodes))%list.
Proof.
  revert acc; induction nodes as [|n r IH]; intros acc; cbn; [rewrite app_nil_r; reflexivity|].
  destruct (pick use_t2 n) as [rl|]; cbn; [|rewrite app_nil_r; reflexivity].
  pose proof (param_repr_nonempty rl) as NE. destruct (param_repr rl) as [|ch s] eqn:E; [congruence|].
  rewrite IH, <- app_assoc. reflexivity.
Qed.

(* the string form is the concatenation of the relationships' reprs behind "root" *)
Theorem path_str_rels use_t2 l :
  path_str use_t2 l = Some (root_str ++ flat_map param_repr (rels use_t2 l))%list.
Proof. unfold path_str, rels. rewrite path_str_go_spec. reflexivity. Qed.

(* when every relationship followed is subscriptable, both forms are the
   rendering of ONE key sequence: the list form gives the keys, the string form
   is [render] of them (Path/PathModel.v) *)
Definition all_items (rs : list rel) : bool :=
  forallb (fun r => match r with RItem _ _ => true | RMember => false end) rs.

Lemma items_repr rs : all_items rs = true ->
  map rel_param rs = map Some (keys_of_opts (map rel_param rs)) /\
  flat_map param_repr rs = flat_map render_key (keys_of_opts (map rel_param rs)).
Proof.
  induction rs as [|r rs IH]; cbn; intros A; [split; reflexivity|].
  destruct r as [cl k|]; [|discriminate]. cbn in A. destruct (IH A) as [I1 I2]. cbn. split.
  - f_equal. exact I1.
  - fold (keys_of_opts (map rel_param rs)). rewrite <- I2. reflexivity.
Qed.

Theorem path_is_render use_t2 l :
  all_items (rels use_t2 l) = true ->
  path_list use_t2 l = map Some (keys_of_opts (path_list use_t2 l)) /\
  path_str use_t2 l = Some (render (keys_of_opts (path_list use_t2 l))).
Proof.
  intros A. rewrite path_str_rels, path_list_rels. unfold render.
  destruct (items_repr _ A) as [I1 I2]. split; [exact I1|]. rewrite I2. reflexivity.
Qed.

(* a set item: the last relationship is the SetRelationship; the string form is
   the set's path followed by ":" and the list form ends with None *)
Theorem path_set_item use_t2 l rs :
  rels use_t2 l = rs ++ [RMember] -> all_items rs = true ->
  path_list use_t2 l = map rel_param rs ++ [None] /\
  path_str use_t2 l = Some (root_str ++ flat_map param_repr rs ++ colon)%list.
Proof.
  intros E _. rewrite path_str_rels, path_list_rels, E. rewrite map_app, flat_map_app.
  split; [reflexivity|]. cbn [flat_map param_repr]. rewrite app_nil_r. reflexivity.
Qed.

(* ---- lines built by create_deeper ---- *)
Lemma all_down_nodowns l : downs l = [] -> all_down l = l.
Proof. destruct l as [us c ds]. cbn. intros ->. reflexivity. Qed.

Lemma create_deeper_shape l a b cls p p2 :
  downs (create_deeper l a b cls p p2) = [] /\
  cur (create_deeper l a b cls p p2) = mkNode a b None None.
Proof. split; reflexivity. Qed.

Lemma build_snoc t1 t2 steps s :
  build t1 t2 (steps ++ [s]) = create_deeper (build t1 t2 steps) (s1 s) (s2 s) (Some (scls s)) (sparam s) (sparam2 s).
Proof. unfold build. rewrite fold_left_app. reflexivity. Qed.

Lemma rels_go_app use_t2 a b :
  length (rels_go use_t2 a) = length a -> rels_go use_t2 (a ++ b) = rels_go use_t2 a ++ rels_go use_t2 b.
Proof.
  induction a as [|n a IH]; cbn; intros L; [reflexivity|].
  destruct (pick use_t2 n); cbn in *; [|discriminate]. rewrite IH by lia. reflexivity.
Qed.

(* every step creates at least one object side: the relationships never run out *)
Lemma build_inv use_t2 t1 t2 steps :
  forallb step_live steps = true ->
  downs (build t1 t2 steps) = [] /\
  nrel1 (cur (build t1 t2 steps)) = None /\ nrel2 (cur (build t1 t2 steps)) = None /\
  rels_go use_t2 (rev (ups (build t1 t2 steps))) = map (fun s => RItem (scls s) (step_key use_t2 s)) steps /\
  length (ups (build t1 t2 steps)) = length steps.
Proof.
  induction steps as [|s steps IH] using rev_ind; intros Lv; [repeat split; reflexivity|].
  rewrite forallb_app in Lv. apply andb_true_iff in Lv as [Lv Ls]. cbn in Ls. rewrite andb_true_r in Ls.
  destruct (IH Lv) as (D & N1 & N2 & R & Ln). rewrite build_snoc.
  set (l := build t1 t2 steps) in *.
  unfold create_deeper. rewrite (all_down_nodowns l D). cbn [downs cur ups nrel1 nrel2].
  split; [reflexivity|]. split; [reflexivity|]. split; [reflexivity|]. split.
  - cbn [rev]. rewrite rels_go_app.
    + rewrite R, map_app. f_equal. cbn.
      unfold pick, step_key, step_key2, step_live in *. cbn. rewrite N1, N2.
      destruct use_t2, (s1 s), (s2 s); cbn; try reflexivity; discriminate.
    + rewrite R, map_length, rev_length. symmetry. exact Ln.
  - cbn [length]. rewrite app_length, Ln. cbn. lia.
Qed.

Theorem build_rels use_t2 t1 t2 steps :
  forallb step_live steps = true ->
  rels use_t2 (build t1 t2 steps) = map (fun s => RItem (scls s) (step_key use_t2 s)) steps.
Proof. intros Lv. unfold rels. apply (build_inv use_t2 t1 t2 steps Lv). Qed.

(* path() of a line built by create_deeper, both sides and both forms: the
   parameters handed to create_deeper - on the t1 side [param] where the new t1
   is present, else the t2 parameter; on the t2 side [param2 or param] where the
   new t2 is present, else [param] *)
Theorem build_path use_t2 t1 t2 steps :
  forallb step_live steps = true ->
  path_list use_t2 (build t1 t2 steps) = map (fun s => Some (step_key use_t2 s)) steps /\
  path_str use_t2 (build t1 t2 steps) = Some (render (map (step_key use_t2) steps)).
Proof.
  intros Lv. rewrite path_list_rels, path_str_rels, (build_rels use_t2 t1 t2 steps Lv). split.
  - rewrite map_map. reflexivity.
  - unfold render. f_equal. f_equal. induction steps as [|s steps IH]; cbn; [reflexivity|].
    cbn in Lv. apply andb_true_iff in Lv as [_ Lv]. rewrite (IH Lv). reflexivity.
Qed.

(* hence the abstraction of a built level to an [entry] has the two key
   sequences of the steps *)
Lemma keys_of_somes {A} (f : A -> pkey) l : keys_of_opts (map (fun s => Some (f s)) l) = map f l.
Proof. induction l as [|x l IH]; cbn; [reflexivity|]. f_equal. exact IH. Qed.

Theorem build_entry k d t1 t2 steps :
  forallb step_live steps = true ->
  ep1 (entry_of_level k d (build t1 t2 steps)) = map (step_key false) steps /\
  ep2 (entry_of_level k d (build t1 t2 steps)) = map (step_key true) steps.
Proof.
  intros Lv. unfold entry_of_level. cbn [ep1 ep2].
  destruct (build_path false t1 t2 steps Lv) as [P1 _]. destruct (build_path true t1 t2 steps Lv) as [P2 _].
  rewrite P1, P2, !keys_of_somes. split; reflexivity.
Qed.

(* ---- the objects of the line and [resolve] ---- *)
(* [linked s nodes last]: on side s every object of [nodes] has an item
   relationship whose parameter leads from its own object to the object of the
   next DiffLevel (the last one leads to [last]) - what the chain walk of the
   harness observes on real lines as parent[param] is child *)
Definition nside (use_t2 : bool) (n : lnode) : option value := if use_t2 then n2 n else n1 n.
Definition nrel (use_t2 : bool) (n : lnode) : option rel := if use_t2 then nrel2 n else nrel1 n.
Fixpoint linked (s : bool) (nodes : list lnode) (last : lnode) : Prop :=
  match nodes with
  | [] => True
  | n :: r =>
      (exists cl k v w, nrel s n = Some (RItem cl k) /\ nside s n = Some v /\
                        get_item v (key_atom k) = Some w /\ nside s (hd last r) = Some w) /\
      linked s r last
  end.

Lemma pick_own s n r : nrel s n = Some r -> pick s n = Some r.
Proof. unfold pick, nrel. destruct s; intros ->; reflexivity. Qed.

Lemma linked_resolve s nodes last t :
  linked s nodes last -> nside s (hd last nodes) = Some t ->
  resolve t (keys_of_opts (path_list_go s nodes)) = nside s last.
Proof.
  revert t; induction nodes as [|n r IH]; intros t; cbn [linked hd path_list_go].
  - intros _ E. cbn. symmetry. exact E.
  - intros [(cl & k & v & w & Rk & Sv & G & Nx) Lr] E.
    rewrite (pick_own s n _ Rk). cbn [rel_param keys_of_opts flat_map app resolve].
    rewrite Sv in E. inversion E; subst. rewrite G. apply IH; assumption.
Qed.

(* the object of a DiffLevel is the sub-object of the root's object named by its path *)
Theorem line_resolve s l t :
  linked s (rev (ups l)) (cur l) -> nside s (hd (cur l) (rev (ups l))) = Some t ->
  resolve t (keys_of_opts (path_list s l)) = nside s (cur l).
Proof. unfold path_list. apply linked_resolve. Qed.

(** C10 - to_json(default_mapping=...) / json_dumps: the convertor table as data.

    json.dumps(dic, default=json_convertor_default(default_mapping)) calls the
    [default] hook for every object it cannot encode natively; in the value
    universe these are set, frozenset, bytes, type objects (old_type / new_type)
    and the SetOrdered of path strings of a list category.  The hook walks the
    convertor table IN ORDER and applies the first row whose class the object is
    an instance of; the row's result is encoded again (so a set -> list row
    exposes bytes members to the bytes row).  No row: TypeError.

      table                rows (class, convertor); JSON_CONVERTOR restricted to the
                           rows that can match an object of the universe
      tbl_update           dict.update: an existing class keeps its position and gets
                           the new convertor, a new class is appended
      effective G dm       the table json_convertor_default(dm) works with:
                           JSON_CONVERTOR.copy() updated with dm when dm is non-empty,
                           JSON_CONVERTOR itself otherwise
      walk t fuel v        the JSON-able value json.dumps makes of v with table t;
                           [fuel] bounds the nesting of hook calls (None = raises;
                           a convertor returning what it was given recurses for ever)
      to_json_m            to_json(default_mapping=dm) of a tree
      run_calls            a HISTORY of to_json / json_dumps calls threading the
                           module-level JSON_CONVERTOR (state); the faithful
                           json_convertor_default never writes to it

    Classes other than the four of the universe (object, collections.abc.Set,
    Decimal, ...) are [HKOther n] with an oracle for isinstance.  Definitions only. *)
From Coq Require Import List ZArith NArith Bool Arith String.
Import ListNotations.
From DD Require Import Base.PyStr Base.Value Path.PathModel Diff.Tree Diff.DiffModel Diff.TextView Views.ViewsModel.

Inductive hobj :=
| HSet (xs : list atom) | HFrozen (xs : list atom) | HBytes (s : pystr) | HType (t : ty)
| HOrdered (l : list pystr).                 (* SetOrdered of path strings *)
Inductive hkey := HKOrdered | HKSet | HKType | HKBytes | HKFrozen | HKOther (n : nat).
Definition hkey_eqb (a b : hkey) : bool :=
  match a, b with
  | HKOrdered, HKOrdered | HKSet, HKSet | HKType, HKType | HKBytes, HKBytes | HKFrozen, HKFrozen => true
  | HKOther n, HKOther m => Nat.eqb n m
  | _, _ => false
  end.
(* a convertor: the Python object it returns, as a value of the universe that
   json.dumps encodes again; None = it raises *)
Definition convf := hobj -> option value.
Definition table := list (hkey * convf).

Definition strs (l : list pystr) : value := VList (map (fun s => VAtom (AStr s)) l).

(* JSON_CONVERTOR: SetOrdered -> list, set -> list, type -> __name__,
   bytes -> decode('utf-8') (in this order; the other rows - Decimal,
   StableSetEq, datetime, UUID, numpy, tuple, Mapping, NotPresent - match no
   object of the universe that reaches the hook) *)
Definition builtin : table :=
  [(HKOrdered, fun h => match h with HOrdered l => Some (strs l) | _ => None end);
   (HKSet, fun h => match h with HSet xs => Some (VList (map VAtom xs)) | _ => None end);
   (HKType, fun h => match h with HType t => Some (VAtom (AStr (ty_name t))) | _ => None end);
   (HKBytes, fun h => match h with HBytes s => option_map (fun u => VAtom (AStr u)) (utf8_decode s) | _ => None end)].

Fixpoint tbl_set (t : table) (k : hkey) (f : convf) : table :=
  match t with
  | [] => [(k, f)]
  | (k', f') :: r => if hkey_eqb k' k then (k', f) :: r else (k', f') :: tbl_set r k f
  end.
Definition tbl_update (t m : table) : table := fold_left (fun acc kf => tbl_set acc (fst kf) (snd kf)) m t.

(* if default_mapping: copy + update, else the global table *)
Definition effective (G : table) (dm : option table) : table :=
  match dm with
  | Some (kf :: m) => tbl_update G (kf :: m)
  | _ => G
  end.

Section Map.
Variable isinst_other : nat -> hobj -> bool.     (* isinstance(obj, the n-th other class) *)

Definition isinst (h : hobj) (k : hkey) : bool :=
  match k, h with
  | HKOrdered, HOrdered _ | HKSet, HSet _ | HKType, HType _ | HKBytes, HBytes _ | HKFrozen, HFrozen _ => true
  | HKOther n, _ => isinst_other n h
  | _, _ => false
  end.
Definition lookup (t : table) (h : hobj) : option convf :=
  option_map snd (find (fun kf => isinst h (fst kf)) t).

Fixpoint walk (t : table) (fuel : nat) : value -> option jv :=
  let hook : hobj -> option jv :=
    match fuel with
    | O => fun _ => None
    | S f => fun h => match lookup t h with
                      | Some cv => match cv h with Some v => walk t f v | None => None end
                      | None => None
                      end
    end in
  fix go (v : value) : option jv :=
    match v with
    | VAtom (ABytes s) => hook (HBytes s)
    | VAtom a => atom_jsonable a
    | VList xs | VTuple xs => option_map JList (all_some (map go xs))
    | VDict kvs =>
        option_map JObj (all_some (map (fun kv =>
          match json_key (fst kv), go (snd kv) with
          | Some k, Some j => Some (k, j)
          | _, _ => None
          end) kvs))
    | VSet xs => hook (HSet xs)
    | VFrozen xs => hook (HFrozen xs)
    end.
(* an object handed to the hook directly *)
Definition hook (t : table) (fuel : nat) (h : hobj) : option jv :=
  match fuel with
  | O => None
  | S f => match lookup t h with
           | Some cv => match cv h with Some v => walk t f v | None => None end
           | None => None
           end
  end.
End Map.

(* ---- the text view's JSON-able value over arbitrary encoders ----
   W : values, WT : type objects, WS : a SetOrdered of path strings *)
Section Enc.
Variable W : value -> option jv.
Variable WT : ty -> option jv.
Variable WS : list pystr -> option jv.

Definition entry_json_g (t : tentry) : option jv :=
  match t with
  | TType _ a b np vals =>
      option_map JObj (all_some_kv (
        [(s2p "old_type", WT a); (s2p "new_type", WT b)]
        ++ opt_field "new_path" np
        ++ match vals with
           | Some (x, y) => [(s2p "old_value", W x); (s2p "new_value", W y)]
           | None => []
           end))
  | TValue _ x y np d =>
      option_map JObj (all_some_kv (
        [(s2p "new_value", W y); (s2p "old_value", W x)]
        ++ opt_field "new_path" np ++ opt_field "diff" d))
  | TDictAdd _ v | TDictRem _ v => W (match v with Some x => x | None => VAtom ANone end)
  | TIterAdd _ v | TIterRem _ v => W v
  | TMoved _ np v => option_map JObj (all_some_kv [(s2p "new_path", Some (JStr np)); (s2p "value", W v)])
  | TSetAdd _ | TSetRem _ => Some JNull
  end%list.

Definition cat_json_g (verbose : nat) (c : cat) (l : list tentry) : option jv :=
  if list_cat verbose c then WS (set_first [] (map tpath l))
  else option_map JObj (all_some_kv (dict_last (map (fun t => (tpath t, entry_json_g t)) l))).
Definition cat_list_g (verbose : nat) (ts : list tentry) : list (pystr * option jv) :=
  flat_map (fun c =>
    match in_cat c ts with
    | [] => []
    | l => [(cat_name c, cat_json_g verbose c l)]
    end) all_cats.
Definition json_of_text_g (verbose : nat) (ts : list tentry) : option jv :=
  option_map JObj (all_some_kv (cat_list_g verbose ts)).

Definition rep_entry_json_g (t : trep) : option jv :=
  option_map JObj (all_some_kv
    [(s2p "old_repeat", Some (jnat (List.length (trold t)))); (s2p "new_repeat", Some (jnat (List.length (trnew t))));
     (s2p "old_indexes", Some (JList (map jnat (trold t)))); (s2p "new_indexes", Some (JList (map jnat (trnew t))));
     (s2p "value", W (trval t))]).
Definition rep_cat_g (reps : list trep) : list (pystr * option jv) :=
  match reps with
  | [] => []
  | _ => [(rep_name, option_map JObj (all_some_kv (dict_last (map (fun t => (trpath t, rep_entry_json_g t)) reps))))]
  end.
Definition json_full_g (verbose : nat) (ts : list tentry) (reps : list trep) : option jv :=
  option_map JObj (all_some_kv (cat_list_g verbose ts ++ rep_cat_g reps)).
End Enc.

(* ---- to_json(default_mapping=dm) ---- *)
Section ToJson.
Variable isinst_other : nat -> hobj -> bool.

Definition json_with (t : table) (fuel : nat) (verbose : nat) (ts : list tentry) (reps : list trep) : option jv :=
  json_full_g (walk isinst_other t fuel)
              (fun ty => hook isinst_other t fuel (HType ty))
              (fun l => hook isinst_other t fuel (HOrdered l))
              verbose ts reps.

(* to_json of a stored tree with the GLOBAL table G and the argument dm *)
Definition to_json_m (G : table) (dm : option table) (fuel : nat)
    (rep : bool) (verbose : nat) (tree : list entry) (rs : list repinfo3) : option jv :=
  json_with (effective G dm) fuel verbose (fst (text_full rep verbose tree rs)) (snd (text_full rep verbose tree rs)).

(* ---- histories ---- *)
(* one call of to_json(default_mapping=dm) on some comparison, or of
   json_dumps(item, default_mapping=dm) on some value *)
Inductive call :=
| CToJson (dm : option table) (rep : bool) (verbose : nat) (tree : list entry) (rs : list repinfo3)
| CDumps (dm : option table) (item : value).

(* json_convertor_default: the table the call works with and the module-level
   table afterwards.  [_convertor_mapping = JSON_CONVERTOR.copy();
   _convertor_mapping.update(default_mapping)] leaves JSON_CONVERTOR alone. *)
Definition convertor_default (G : table) (dm : option table) : table * table := (effective G dm, G).

(* [cd]: the model of json_convertor_default in use (the faithful one is
   [convertor_default]; ViewsJsonMapProofs.v also runs a variant that updates
   the module-level table in place, to show what the theorem excludes) *)
Definition run_call (cd : table -> option table -> table * table) (fuel : nat) (G : table) (cl : call) : option jv * table :=
  match cl with
  | CToJson dm rep verbose tree rs =>
      let '(t, G') := cd G dm in
      (json_with t fuel verbose (fst (text_full rep verbose tree rs)) (snd (text_full rep verbose tree rs)), G')
  | CDumps dm item =>
      let '(t, G') := cd G dm in
      (walk isinst_other t fuel item, G')
  end.
Fixpoint run_calls (cd : table -> option table -> table * table) (fuel : nat) (G : table) (cs : list call)
  : list (option jv) * table :=
  match cs with
  | [] => ([], G)
  | cl :: r => let '(o, G') := run_call cd fuel G cl in
               let '(os, G'') := run_calls cd fuel G' r in (o :: os, G'')
  end.
(* what the call returns on a fresh interpreter *)
Definition pure_call (fuel : nat) (cl : call) : option jv := fst (run_call convertor_default fuel builtin cl).
End ToJson.

(** C10, chain + leaf clause for the ignore-order model (DiffIO/DiffIOModel.v),
    for EVERY pairing oracle (valid or not: the model only follows a pair whose
    hashes exist), every hasher, every skip/excl/cfg:

      report_repetition = false : every level of [diff_io] is anchored in both
        inputs and its leaf objects are the sub-objects named by ep1 / ep2;
      report_repetition = true  : the same under the guard [norep] (no list or
        tuple anywhere in the inputs holds two items with the same hash);
        without the guard it is false (ViewsIO.v, finding C10-repetition-t2-index).

    The ignore-order analogue of Diff/DiffFaithful.v + ViewsChains.v. *)
From Coq Require Import List ZArith NArith Bool Arith Lia.
Import ListNotations.
From DD Require Import Base.PyStr Base.Value Base.ValueFacts Path.PathModel
  Diff.Tree Diff.DiffModel Diff.DiffFacts Diff.DiffFaithful Hash.HashModel Hash.HashProofsBase
  DiffIO.DiffIOModel DiffIO.DiffIOProofs Diff.TextView Views.ViewsModel Views.ViewsChains Views.ViewsProofs.

(* ---- the leaf clause ---- *)
Definition has1 (k : rkind) : bool :=
  match k with KDictAdd | KIterAdd | KSetAdd => false | _ => true end.
Definition has2 (k : rkind) : bool :=
  match k with KDictRem | KIterRem | KSetRem => false | _ => true end.

(* the object reported on one side is the sub-object of that input named by the
   key sequence (for a set item: a member of the set the key sequence names) *)
Definition side_ok (r : value) (p : path) (k : rkind) (o : option value) : Prop :=
  match o with
  | None => True
  | Some a => if is_set_kind k then exists s x, resolve r p = Some s /\ a = VAtom x /\ set_has s x
              else resolve r p = Some a
  end.
Definition leaf_ok (r1 r2 : value) (e : entry) : Prop :=
  side_ok r1 (ep1 e) (ekind e) (et1 e) /\ side_ok r2 (ep2 e) (ekind e) (et2 e) /\
  (if has1 (ekind e) then et1 e <> None else et1 e = None) /\
  (if has2 (ekind e) then et2 e <> None else et2 e = None).

Definition iok (r1 r2 : value) (e : entry) : Prop := anchored r1 r2 e /\ leaf_ok r1 r2 e.

(* ---- list facts ---- *)
Lemma nodup_h_NoDup l : nodup_h l = true -> NoDup l.
Proof.
  induction l as [|x l IH]; cbn; intros H; constructor.
  - apply andb_true_iff in H as [H _]. apply negb_true_iff, mem_h_false in H. exact H.
  - apply andb_true_iff in H as [_ H]. apply IH. exact H.
Qed.

Lemma indexes_unique h hs k : NoDup hs -> In k (indexes_of h hs 0) -> k = first_of (indexes_of h hs 0).
Proof.
  intros N Hk. destruct (indexes_of h hs 0) as [|k0 ks] eqn:E; [destruct Hk|].
  assert (H0 : In k0 (indexes_of h hs 0)) by (rewrite E; left; reflexivity).
  rewrite <- E in Hk. apply indexes_nth in Hk as [_ Hk]. apply indexes_nth in H0 as [_ H0].
  rewrite Nat.sub_0_r in *. cbn.
  assert (Hlt : k < length hs) by (apply nth_error_Some; congruence).
  apply (proj1 (NoDup_nth_error hs) N k k0 Hlt). congruence.
Qed.

Lemma indexes_single h hs : NoDup hs -> In h hs -> length (indexes_of h hs 0) = 1.
Proof.
  intros N Hin. rewrite indexes_length, <- count_occ_count.
  pose proof (proj1 (NoDup_count_occ pystr_eq_dec hs) N h) as Hle.
  pose proof (count_pos h hs Hin) as Hpos. rewrite <- count_occ_count in Hpos. lia.
Qed.

Lemma remove_h_incl r l : incl (remove_h r l) l.
Proof. intros x Hx. unfold remove_h in Hx. apply filter_In in Hx as [Hx _]. exact Hx. Qed.

Lemma fst_app2' {A B} (a b : list A * list B) : fst (app2 a b) = (fst a ++ fst b)%list.
Proof. reflexivity. Qed.

Lemma Forall_concat_res (P : entry -> Prop) (l : list res) :
  (forall r, In r l -> Forall P (fst r)) -> Forall P (fst (concat_res l)).
Proof.
  induction l as [|r l IH]; intros Hl; cbn; [constructor|].
  apply Forall_app; split; [apply Hl; left; reflexivity|apply IH; intros r' Hr'; apply Hl; right; exact Hr'].
Qed.

Lemma pick_true {A} (b : bool) (x y : A) : b = true -> (if b then x else y) = x.
Proof. intros ->; reflexivity. Qed.
Lemma pick_false {A} (b : bool) (x y : A) : b = false -> (if b then x else y) = y.
Proof. intros ->; reflexivity. Qed.

Lemma fph_In (hatom : atom -> pystr) l seen a : In a (first_per_hash hatom l seen) -> In a l.
Proof.
  revert seen; induction l as [|x l IH]; intros seen; cbn; [tauto|].
  destruct (existsb _ seen).
  - intros Hx; right; eapply IH; exact Hx.
  - intros [Hx|Hx]; [left; exact Hx|right; eapply IH; exact Hx].
Qed.

Section IO.
Variable H : pystr -> pystr.
Variable udiff : pystr -> pystr -> pystr.
Variable skip excl : path -> bool.
Variable c : cfg.
Variable rep : bool.
Variable pairs : path -> list (nat * nat).
Variables r1 r2 : value.

Notation dio := (diff_io H udiff skip excl c rep pairs).
Notation hvv := (hv H c rep).
Notation K := (iok r1 r2).

(* no list / tuple anywhere holds two items with the same hash *)
Fixpoint norep (v : value) : bool :=
  match v with
  | VList xs | VTuple xs => nodup_h (map hvv xs) && forallb norep xs
  | VDict kvs => forallb (fun kv => norep (snd kv)) kvs
  | _ => true
  end.
Definition good (t1 t2 : value) : Prop := rep = false \/ (norep t1 = true /\ norep t2 = true).

(* ---- single reports ---- *)
Lemma K_both k p1 p2 a b d :
  is_set_kind k = false -> has1 k = true -> has2 k = true ->
  length p1 = length p2 -> resolve r1 p1 = Some a -> resolve r2 p2 = Some b ->
  Forall K (report skip k p1 p2 (Some a) (Some b) d).
Proof.
  intros S H1 H2 L R1 R2. unfold report. destruct (skip p1); constructor; [|constructor].
  split.
  - exists p1, p2. repeat split; try assumption; try (eexists; eassumption). left. split; reflexivity.
  - unfold leaf_ok, side_ok. cbn. rewrite S, H1, H2. repeat split; try assumption; discriminate.
Qed.

Lemma K_add k q1 q2 k1 k2 b :
  is_set_kind k = false -> has1 k = false -> has2 k = true ->
  length q1 = length q2 -> resolves r1 q1 -> resolves r2 q2 ->
  resolve r2 (snoc q2 k2) = Some b ->
  Forall K (report skip k (snoc q1 k1) (snoc q2 k2) None (Some b) None).
Proof.
  intros S H1 H2 L R1 R2 Rb. unfold report. destruct (skip _); constructor; [|constructor].
  split.
  - exists q1, q2. repeat split; try assumption. right. exists k1, k2. repeat split. exact S.
  - unfold leaf_ok, side_ok. cbn. rewrite S, H1, H2. repeat split; try assumption; discriminate.
Qed.

Lemma K_rem k q1 q2 k1 k2 a :
  is_set_kind k = false -> has1 k = true -> has2 k = false ->
  length q1 = length q2 -> resolves r1 q1 -> resolves r2 q2 ->
  resolve r1 (snoc q1 k1) = Some a ->
  Forall K (report skip k (snoc q1 k1) (snoc q2 k2) (Some a) None None).
Proof.
  intros S H1 H2 L R1 R2 Ra. unfold report. destruct (skip _); constructor; [|constructor].
  split.
  - exists q1, q2. repeat split; try assumption. right. exists k1, k2. repeat split. exact S.
  - unfold leaf_ok, side_ok. cbn. rewrite S, H1, H2. repeat split; try assumption; discriminate.
Qed.

Lemma K_diff_atom a b p1 p2 :
  length p1 = length p2 -> resolve r1 p1 = Some (VAtom a) -> resolve r2 p2 = Some (VAtom b) ->
  Forall K (diff_atom udiff skip a b p1 p2).
Proof.
  intros L R1 R2. unfold diff_atom. destruct (skip p1); [constructor|].
  destruct (negb _); [apply K_both; try reflexivity; assumption|].
  destruct a, b; try (destruct (py_eq _ _); [constructor|apply K_both; try reflexivity; assumption]).
  - destruct (diff_str udiff false s s0) as [ch d]. destruct ch; [apply K_both; try reflexivity; assumption|constructor].
  - destruct (diff_str udiff true s s0) as [ch d]. destruct ch; [apply K_both; try reflexivity; assumption|constructor].
Qed.

Lemma K_diff_set (hatom : atom -> pystr) v1 v2 xs ys p1 p2 :
  length p1 = length p2 -> resolve r1 p1 = Some v1 -> resolve r2 p2 = Some v2 ->
  (forall x, In x xs -> set_has v1 x) -> (forall y, In y ys -> set_has v2 y) ->
  Forall K (diff_set hatom skip xs ys p1 p2).
Proof.
  intros L R1 R2 M1 M2. unfold diff_set. apply Forall_app; split.
  - apply Forall_forall. intros e He. apply in_flat_map in He as (y & Hy & He).
    destruct (existsb _ _); [destruct He|].
    unfold report_set in He. destruct (skip p1); [destruct He|]. destruct He as [<-|[]].
    split.
    + exists p1, p2. repeat split; try assumption; try (eexists; eassumption). left. split; reflexivity.
    + unfold leaf_ok, side_ok. cbn. repeat split; try discriminate.
      exists v2, y. repeat split; [exact R2|]. apply M2. eapply fph_In; exact Hy.
  - apply Forall_forall. intros e He. apply in_flat_map in He as (x & Hx & He).
    destruct (existsb _ _); [destruct He|].
    unfold report_set in He. destruct (skip p1); [destruct He|]. destruct He as [<-|[]].
    split.
    + exists p1, p2. repeat split; try assumption; try (eexists; eassumption). left. split; reflexivity.
    + unfold leaf_ok, side_ok. cbn. repeat split; try discriminate.
      exists v1, x. repeat split; [exact R1|]. apply M1. eapply fph_In; exact Hx.
Qed.

(* ---- equations for [diff_io] ---- *)
Lemma dio_skip t1 t2 p1 p2 : skip p1 = true -> dio t1 t2 p1 p2 = ([], []).
Proof. intros Hs. destruct t1; cbn; rewrite Hs; reflexivity. Qed.
Lemma dio_type t1 t2 p1 p2 :
  skip p1 = false -> ty_eqb (type_of t1) (type_of t2) = false ->
  dio t1 t2 p1 p2 = (report skip KType p1 p2 (Some t1) (Some t2) None, []).
Proof. intros Hs T. destruct t1; cbn; rewrite Hs; cbn in T; rewrite T; reflexivity. Qed.

Lemma dio_atom a b p1 p2 : skip p1 = false ->
  dio (VAtom a) (VAtom b) p1 p2 =
  if negb (ty_eqb (atom_ty a) (atom_ty b)) then (report skip KType p1 p2 (Some (VAtom a)) (Some (VAtom b)) None, [])
  else (diff_atom udiff skip a b p1 p2, []).
Proof. intros Hs. cbn. rewrite Hs. reflexivity. Qed.
Lemma dio_set xs ys p1 p2 : skip p1 = false ->
  dio (VSet xs) (VSet ys) p1 p2 = (diff_set (hatom_io H c rep) skip xs ys p1 p2, []).
Proof. intros Hs. cbn. rewrite Hs. reflexivity. Qed.
Lemma dio_frozen xs ys p1 p2 : skip p1 = false ->
  dio (VFrozen xs) (VFrozen ys) p1 p2 = (diff_set (hatom_io H c rep) skip xs ys p1 p2, []).
Proof. intros Hs. cbn. rewrite Hs. reflexivity. Qed.

Lemma recs_map_g xs :
  (fix go (l : list value) : list rec_fn :=
     match l with [] => [] | x :: r => dio x :: go r end) xs = map dio xs.
Proof. induction xs as [|x r IH]; cbn [map]; [reflexivity|]. rewrite IH. reflexivity. Qed.

Lemma dio_list_g xs ys p1 p2 : skip p1 = false ->
  dio (VList xs) (VList ys) p1 p2 = iter_deephash H skip c rep pairs (map dio xs) xs ys p1 p2.
Proof. intros Hs. cbn [diff_io type_of ty_eqb negb]. rewrite Hs, recs_map_g. reflexivity. Qed.
Lemma dio_tuple_g xs ys p1 p2 : skip p1 = false ->
  dio (VTuple xs) (VTuple ys) p1 p2 = iter_deephash H skip c rep pairs (map dio xs) xs ys p1 p2.
Proof. intros Hs. cbn [diff_io type_of ty_eqb negb]. rewrite Hs, recs_map_g. reflexivity. Qed.

Lemma nth_rec_map_g xs i x : nth_error xs i = Some x -> nth_rec (map dio xs) i = dio x.
Proof.
  unfold nth_rec. revert i; induction xs as [|y r IH]; intros [|i]; cbn; try discriminate.
  - intros E; inversion E; reflexivity.
  - apply IH.
Qed.
Lemma nth_rec_none xs i : nth_error xs i = None -> forall y q1 q2, nth_rec (map dio xs) i y q1 q2 = ([], []).
Proof.
  unfold nth_rec. revert i; induction xs as [|z r IH]; intros [|i]; cbn; try discriminate; intros E y q1 q2; try reflexivity.
  apply IH. exact E.
Qed.

Definition io_common_g (kvs2 : list (atom * value)) (k2 : list atom) (p1 p2 : path) :=
  fix go (l : list (atom * value)) : res :=
    match l with
    | [] => ([], [])
    | (k, v1) :: r =>
        let rest := go r in
        if keep_key c k then
          match find (py_eq k) k2 with
          | Some k' =>
              match assoc k' kvs2 with
              | Some v2 => app2 (dio v1 v2 (snoc p1 (PKey k')) (snoc p2 (PKey k'))) rest
              | None => rest
              end
          | None => rest
          end
        else rest
    end.
Definition io_dict_g (kvs1 kvs2 : list (atom * value)) (p1 p2 : path) : res :=
  let k1 := keys_of c kvs1 in
  let k2 := keys_of c kvs2 in
  if dict_shortcut excl c k1 k2 p1 then (report skip KValue p1 p2 (Some (VDict kvs1)) (Some (VDict kvs2)) None, [])
  else
    let added := flat_map (fun k => if mem_atom k k1 then []
                   else report skip KDictAdd (snoc p1 (PKey k)) (snoc p2 (PKey k)) None (assoc k kvs2) None) k2 in
    let removed := flat_map (fun k => if mem_atom k k2 then []
                   else report skip KDictRem (snoc p1 (PKey k)) (snoc p2 (PKey k)) (assoc k kvs1) None None) k1 in
    let common := io_common_g kvs2 k2 p1 p2 kvs1 in
    (added ++ removed ++ fst common, snd common).
Lemma dio_dict_g kvs1 kvs2 p1 p2 : skip p1 = false ->
  dio (VDict kvs1) (VDict kvs2) p1 p2 = io_dict_g kvs1 kvs2 p1 p2.
Proof. intros Hs. cbn [diff_io type_of ty_eqb negb]. rewrite Hs. reflexivity. Qed.

(* ---- one level of _diff_iterable_with_deephash ---- *)
Definition IHI (t1 : value) : Prop :=
  forall t2 p1 p2, length p1 = length p2 -> wf t1 = true -> wf t2 = true -> good t1 t2 ->
    resolve r1 p1 = Some t1 -> resolve r2 p2 = Some t2 -> Forall K (fst (dio t1 t2 p1 p2)).

Section Level.
Variables (xs ys : list value) (p1 p2 : path).
Hypothesis IHx : Forall IHI xs.
Hypothesis L : length p1 = length p2.
Hypothesis R1 : resolves r1 p1.
Hypothesis R2 : resolves r2 p2.
Hypothesis X1 : forall i x, nth_error xs i = Some x -> resolve r1 (snoc p1 (PIdx i)) = Some x.
Hypothesis X2 : forall j y, nth_error ys j = Some y -> resolve r2 (snoc p2 (PIdx j)) = Some y.
Hypothesis W1 : forallb wf xs = true.
Hypothesis W2 : forallb wf ys = true.
Hypothesis G : rep = false \/
  (NoDup (map hvv xs) /\ NoDup (map hvv ys) /\ forallb norep xs = true /\ forallb norep ys = true).

Notation hh1 := (h1 H c rep xs).
Notation hh2 := (h2 H c rep ys).
Notation recs := (map dio xs).

Lemma snoc_len' k1 k2 : length (snoc p1 k1) = length (snoc p2 k2).
Proof. unfold snoc. rewrite !app_length. cbn. lia. Qed.

Lemma item_of_h1 i r : nth_error hh1 i = Some r -> exists x, nth_error xs i = Some x.
Proof. intros Hn. apply nth_error_map_inv in Hn as [x [Hx _]]. exists x. exact Hx. Qed.
Lemma item_of_h2 j a : nth_error hh2 j = Some a -> exists y, nth_error ys j = Some y.
Proof. intros Hn. apply nth_error_map_inv in Hn as [y [Hy _]]. exists y. exact Hy. Qed.

Lemma partner_in_g a rem r : partner H c rep pairs xs ys p1 a rem = Some r -> In r hh1 /\ In r rem.
Proof.
  unfold partner. destruct (find _ _) as [ji|]; [|discriminate].
  destruct (nth_error hh1 (snd ji)) as [r'|] eqn:E; [|discriminate].
  destruct (mem_h r' rem) eqn:M; [|discriminate]. intros X; inversion X; subst.
  split; [eapply nth_error_In; eauto|apply mem_h_In; exact M].
Qed.

(* a paired recursion at the first indexes of the two hashes *)
Lemma K_rec i j x y :
  nth_error xs i = Some x -> nth_error ys j = Some y ->
  Forall K (fst (nth_rec recs i y (snoc p1 (PIdx i)) (snoc p2 (PIdx j)))).
Proof.
  intros Hx Hy. rewrite (nth_rec_map_g _ _ _ Hx).
  rewrite Forall_forall in IHx. apply (IHx x (nth_error_In _ _ Hx)).
  - apply snoc_len'.
  - eapply forallb_forall in W1; [exact W1|eapply nth_error_In; exact Hx].
  - eapply forallb_forall in W2; [exact W2|eapply nth_error_In; exact Hy].
  - destruct G as [G0|(_ & _ & N1 & N2)]; [left; exact G0|right]. split.
    + eapply forallb_forall in N1; [exact N1|eapply nth_error_In; exact Hx].
    + eapply forallb_forall in N2; [exact N2|eapply nth_error_In; exact Hy].
  - apply X1; exact Hx.
  - apply X2; exact Hy.
Qed.

Lemma K_added_one a rem : In a hh2 ->
  Forall K (fst (fst (added_one H skip c rep pairs recs xs ys p1 p2 a rem))).
Proof.
  intros Ha. unfold added_one.
  destruct (item_of_h2 _ _ (first_of_index a hh2 Ha)) as [y Hy].
  destruct (partner H c rep pairs xs ys p1 a rem) as [r|] eqn:P; cbn [fst].
  - apply partner_in_g in P as [P _].
    destruct (item_of_h1 _ _ (first_of_index r hh1 P)) as [x Hx].
    unfold item2. rewrite Hy. eapply K_rec; eassumption.
  - unfold item2, rpt. rewrite Hy. apply K_add; try reflexivity; try assumption. apply X2. exact Hy.
Qed.

Lemma K_removed_one r : In r hh1 -> Forall K (fst (removed_one H skip c rep xs p1 p2 r)).
Proof.
  intros Hr. unfold removed_one. cbn [fst].
  destruct (item_of_h1 _ _ (first_of_index r hh1 Hr)) as [x Hx].
  unfold item1, rpt. rewrite Hx. apply K_rem; try reflexivity; try assumption. apply X1. exact Hx.
Qed.

(* report_repetition = True, under the no-repetition guard *)
Lemma single_list h hs : NoDup hs -> In h hs -> indexes_of h hs 0 = [first_of (indexes_of h hs 0)].
Proof.
  intros N Hin. pose proof (indexes_single h hs N Hin) as Hl.
  destruct (indexes_of h hs 0) as [|k [|k' ks]]; cbn in Hl; try discriminate. reflexivity.
Qed.

Lemma K_added_one_rep a rem : NoDup hh1 -> NoDup hh2 -> In a hh2 ->
  Forall K (fst (fst (added_one_rep H skip c rep pairs recs xs ys p1 p2 a rem))).
Proof.
  intros N1 N2 Ha. unfold added_one_rep. cbv zeta.
  destruct (item_of_h2 _ _ (first_of_index a hh2 Ha)) as [y Hy].
  pose proof (single_list a hh2 N2 Ha) as Ej.
  set (j0 := first_of (indexes_of a hh2 0)) in *. rewrite Ej. cbn [first_of hd].
  destruct (partner H c rep pairs xs ys p1 a rem) as [r|] eqn:P; cbn [fst].
  - apply partner_in_g in P as [P _].
    destruct (item_of_h1 _ _ (first_of_index r hh1 P)) as [x Hx].
    pose proof (single_list r hh1 N1 P) as Ei.
    set (i0 := first_of (indexes_of r hh1 0)) in *. rewrite Ei.
    unfold item2. rewrite Hy. cbn [first_of hd fold_right length Nat.eqb].
    rewrite fst_app2'. cbn [fst]. rewrite app_nil_r. eapply K_rec; eassumption.
  - cbn [flat_map]. rewrite app_nil_r. unfold item2, rpt. rewrite Hy.
    apply K_add; try reflexivity; try assumption. apply X2. exact Hy.
Qed.

Lemma K_removed_one_rep r : NoDup hh1 -> In r hh1 -> Forall K (fst (removed_one_rep H skip c rep xs p1 p2 r)).
Proof.
  intros N1 Hr. unfold removed_one_rep. cbv zeta. cbn [fst].
  destruct (item_of_h1 _ _ (first_of_index r hh1 Hr)) as [x Hx].
  pose proof (single_list r hh1 N1 Hr) as Ei.
  set (i0 := first_of (indexes_of r hh1 0)) in *. rewrite Ei. cbn [flat_map first_of hd]. rewrite app_nil_r.
  unfold item1, rpt. rewrite Hx. apply K_rem; try reflexivity; try assumption. apply X1. exact Hx.
Qed.

Lemma repetition_one_none h : NoDup hh1 -> NoDup hh2 -> In h hh1 -> In h hh2 ->
  repetition_one H skip c rep xs ys p1 p2 h = ([], []).
Proof.
  intros N1 N2 I1 I2. unfold repetition_one.
  rewrite (indexes_single h hh1 N1 I1), (indexes_single h hh2 N2 I2). reflexivity.
Qed.

(* the loop over hashes_added *)
Lemma K_added_loop one adds rem0 :
  (forall a rem, In a adds -> Forall K (fst (fst (one a rem)))) ->
  (forall a rem, incl (snd (one a rem)) rem) ->
  Forall K (fst (fst (added_loop one adds rem0))) /\ incl (snd (added_loop one adds rem0)) rem0.
Proof.
  revert rem0; induction adds as [|a adds IH]; intros rem0 Hone Hinc; cbn [added_loop].
  - split; [constructor|intros x Hx; exact Hx].
  - destruct (one a rem0) as [ra rem1] eqn:E1.
    destruct (added_loop one adds rem1) as [rb rem2] eqn:E2. cbn [fst snd].
    destruct (IH rem1 (fun a' rem' Ha' => Hone a' rem' (or_intror Ha')) Hinc) as [IH1 IH2].
    rewrite E2 in IH1, IH2. cbn [fst snd] in IH1, IH2.
    pose proof (Hone a rem0 (or_introl eq_refl)) as H1. pose proof (Hinc a rem0) as H2.
    rewrite E1 in H1, H2. cbn [fst snd] in H1, H2.
    split; [rewrite fst_app2'; apply Forall_app; split; assumption|].
    intros x Hx. apply H2, IH2, Hx.
Qed.

Lemma added_in a : In a (hashes_added H c rep xs ys) -> In a hh2.
Proof.
  unfold hashes_added. rewrite filter_In. intros [Hi _]. apply (proj1 (dedup_In _ _)) in Hi. exact Hi.
Qed.
Lemma removed_in r : In r (hashes_removed H c rep xs ys) -> In r hh1.
Proof.
  unfold hashes_removed. rewrite filter_In. intros [Hi _]. apply (proj1 (dedup_In _ _)) in Hi. exact Hi.
Qed.

Lemma added_one_incl a rem : incl (snd (added_one H skip c rep pairs recs xs ys p1 p2 a rem)) rem.
Proof.
  unfold added_one. destruct (partner _ _ _ _ _ _ _ _ _); cbn [snd]; [apply remove_h_incl|intros x Hx; exact Hx].
Qed.
Lemma added_one_rep_incl a rem : incl (snd (added_one_rep H skip c rep pairs recs xs ys p1 p2 a rem)) rem.
Proof.
  unfold added_one_rep. destruct (partner _ _ _ _ _ _ _ _ _); cbn [snd]; [apply remove_h_incl|intros x Hx; exact Hx].
Qed.

Lemma K_iter : Forall K (fst (iter_deephash H skip c rep pairs recs xs ys p1 p2)).
Proof.
  assert (C : rep = true \/ rep = false) by (destruct rep; auto).
  unfold iter_deephash. destruct C as [C|C].
  - (* report_repetition: only under the guard *)
    rewrite (pick_true _ _ _ C).
    pose proof G as [G0|(N1 & N2 & _ & _)]; [congruence|].
    unfold iter_rep.
    destruct (K_added_loop (added_one_rep H skip c rep pairs recs xs ys p1 p2)
                (hashes_added H c rep xs ys) (hashes_removed H c rep xs ys)) as [A1 A2].
    { intros a rem Ha. apply K_added_one_rep; try assumption. apply added_in. exact Ha. }
    { intros a rem. apply added_one_rep_incl. }
    destruct (added_loop _ _ _) as [ra remaining]. cbn [fst snd] in A1, A2.
    rewrite !fst_app2'. apply Forall_app; split; [exact A1|]. apply Forall_app; split.
    + apply Forall_concat_res. intros r Hr. apply in_map_iff in Hr as (h & <- & Hh).
      apply K_removed_one_rep; [exact N1|]. apply removed_in, A2, Hh.
    + apply Forall_concat_res. intros r Hr. apply in_map_iff in Hr as (h & <- & Hh).
      apply filter_In in Hh as [Hh2 Hh1]. apply mem_h_In in Hh1.
      rewrite repetition_one_none; try assumption; [constructor| |].
      * apply (proj1 (dedup_In _ _)) in Hh1. exact Hh1.
      * apply (proj1 (dedup_In _ _)) in Hh2. exact Hh2.
  - rewrite (pick_false _ _ _ C). unfold iter_norep.
    destruct (K_added_loop (added_one H skip c rep pairs recs xs ys p1 p2)
                (hashes_added H c rep xs ys) (hashes_removed H c rep xs ys)) as [A1 A2].
    { intros a rem Ha. apply K_added_one. apply added_in. exact Ha. }
    { intros a rem. apply added_one_incl. }
    destruct (added_loop _ _ _) as [ra remaining]. cbn [fst snd] in A1, A2.
    rewrite fst_app2'. apply Forall_app; split; [exact A1|].
    apply Forall_concat_res. intros r Hr. apply in_map_iff in Hr as (h & <- & Hh).
    apply K_removed_one. apply removed_in, A2, Hh.
Qed.

End Level.
(* ---- sequences ---- *)
Lemma good_seq xs ys :
  (norep (VList xs) = true /\ norep (VList ys) = true) ->
  NoDup (map hvv xs) /\ NoDup (map hvv ys) /\ forallb norep xs = true /\ forallb norep ys = true.
Proof.
  cbn [norep]. intros [G1 G2]. apply andb_true_iff in G1 as [A1 B1], G2 as [A2 B2].
  repeat split; try assumption; apply nodup_h_NoDup; assumption.
Qed.

Lemma K_seq xs ys v1 v2 p1 p2 :
  Forall IHI xs -> length p1 = length p2 ->
  resolve r1 p1 = Some v1 -> seq_items v1 = Some xs ->
  resolve r2 p2 = Some v2 -> seq_items v2 = Some ys ->
  forallb wf xs = true -> forallb wf ys = true ->
  (rep = false \/ (NoDup (map hvv xs) /\ NoDup (map hvv ys) /\ forallb norep xs = true /\ forallb norep ys = true)) ->
  Forall K (fst (iter_deephash H skip c rep pairs (map dio xs) xs ys p1 p2)).
Proof.
  intros IH L H1 S1 H2 S2 W1 W2 G. apply K_iter; try assumption.
  - eexists; exact H1.
  - eexists; exact H2.
  - intros i x Hx. eapply resolve_seq_item; eassumption.
  - intros j y Hy. eapply resolve_seq_item; eassumption.
Qed.

(* ---- dictionaries ---- *)
Lemma assoc_of_key {B} k (kvs : list (atom * B)) : In k (map fst kvs) -> exists b, assoc k kvs = Some b.
Proof.
  intros Hk. destruct (assoc k kvs) as [b|] eqn:A; [exists b; reflexivity|].
  apply (proj1 (assoc_None k kvs)) in A.
  assert (mem_atom k (map fst kvs) = true) by (apply mem_atom_In; exists k; split; [exact Hk|apply py_eq_refl]).
  congruence.
Qed.

Lemma K_common kvs1 kvs2 p1 p2 : length p1 = length p2 ->
  nodup_atoms (map fst kvs1) = true ->
  forallb (fun kv => wf (snd kv)) kvs1 = true -> forallb (fun kv => wf (snd kv)) kvs2 = true ->
  (rep = false \/ (forallb (fun kv => norep (snd kv)) kvs1 = true /\ forallb (fun kv => norep (snd kv)) kvs2 = true)) ->
  resolve r1 p1 = Some (VDict kvs1) -> resolve r2 p2 = Some (VDict kvs2) ->
  forall l, (forall kv, In kv l -> In kv kvs1) -> Forall (fun kv => IHI (snd kv)) l ->
  Forall K (fst (io_common_g kvs2 (keys_of c kvs2) p1 p2 l)).
Proof.
  intros L N1 W1 W2 G H1 H2. induction l as [|[k v1] l IH]; intros Sub HI; cbn; [constructor|].
  apply Forall_cons_iff in HI as [Hk HI'].
  assert (Rest : Forall K (fst (io_common_g kvs2 (keys_of c kvs2) p1 p2 l))).
  { apply IH; [intros kv Hkv; apply Sub; right; exact Hkv|exact HI']. }
  destruct (keep_key c k); [|exact Rest].
  destruct (find (py_eq k) (keys_of c kvs2)) as [k'|] eqn:Fk; [|exact Rest].
  destruct (assoc k' kvs2) as [v2|] eqn:A2; [|exact Rest].
  rewrite fst_app2'. apply Forall_app; split; [|exact Rest].
  apply find_some in Fk as [Hk' E].
  pose proof (assoc_In _ _ _ A2) as (k'' & Hin2 & _).
  cbn in Hk. apply Hk.
  - unfold snoc. rewrite !app_length. cbn. lia.
  - eapply forallb_forall in W1; [|apply Sub; left; reflexivity]. exact W1.
  - eapply forallb_forall in W2; [|exact Hin2]. exact W2.
  - destruct G as [G0|[G1 G2]]; [left; exact G0|right]. split.
    + eapply forallb_forall in G1; [|apply Sub; left; reflexivity]. exact G1.
    + eapply forallb_forall in G2; [|exact Hin2]. exact G2.
  - unfold snoc. rewrite resolve_snoc, H1. rewrite get_item_key_dict.
    eapply assoc_nodup; [exact N1|apply Sub; left; reflexivity|exact E].
  - unfold snoc. rewrite resolve_snoc, H2. rewrite get_item_key_dict. exact A2.
Qed.

Lemma K_dict kvs1 kvs2 p1 p2 : length p1 = length p2 ->
  Forall (fun kv => IHI (snd kv)) kvs1 ->
  wf (VDict kvs1) = true -> wf (VDict kvs2) = true -> good (VDict kvs1) (VDict kvs2) ->
  resolve r1 p1 = Some (VDict kvs1) -> resolve r2 p2 = Some (VDict kvs2) ->
  Forall K (fst (io_dict_g kvs1 kvs2 p1 p2)).
Proof.
  intros L IH W1 W2 G H1 H2. cbn in W1, W2.
  apply andb_true_iff in W1 as [N1 W1], W2 as [N2 W2].
  assert (R1 : resolves r1 p1) by (eexists; exact H1).
  assert (R2 : resolves r2 p2) by (eexists; exact H2).
  unfold io_dict_g.
  destruct (dict_shortcut excl c (keys_of c kvs1) (keys_of c kvs2) p1).
  - cbn [fst]. apply K_both; try reflexivity; assumption.
  - cbn [fst]. apply Forall_app; split; [|apply Forall_app; split].
    + apply Forall_forall. intros e He. apply in_flat_map in He as (k & Hk & He).
      destruct (mem_atom k _); [destruct He|].
      apply keys_of_In in Hk as [Hk _]. destruct (assoc_of_key k kvs2 Hk) as [b Hb]. rewrite Hb in He.
      assert (P : Forall K (report skip KDictAdd (snoc p1 (PKey k)) (snoc p2 (PKey k)) None (Some b) None)).
      { apply K_add; try reflexivity; try assumption.
        unfold snoc. rewrite resolve_snoc, H2, get_item_key_dict. exact Hb. }
      eapply Forall_forall in P; eassumption.
    + apply Forall_forall. intros e He. apply in_flat_map in He as (k & Hk & He).
      destruct (mem_atom k _); [destruct He|].
      apply keys_of_In in Hk as [Hk _]. destruct (assoc_of_key k kvs1 Hk) as [a Ha]. rewrite Ha in He.
      assert (P : Forall K (report skip KDictRem (snoc p1 (PKey k)) (snoc p2 (PKey k)) (Some a) None None)).
      { apply K_rem; try reflexivity; try assumption.
        unfold snoc. rewrite resolve_snoc, H1, get_item_key_dict. exact Ha. }
      eapply Forall_forall in P; eassumption.
    + assert (Gd : rep = false \/ (forallb (fun kv => norep (snd kv)) kvs1 = true /\ forallb (fun kv => norep (snd kv)) kvs2 = true))
        by (destruct G as [G0|[G1 G2]]; [left; exact G0|right; split; assumption]).
      exact (K_common kvs1 kvs2 p1 p2 L N1 W1 W2 Gd H1 H2 kvs1 (fun kv Hkv => Hkv) IH).
Qed.

Theorem dio_ok : forall t1, IHI t1.
Proof.
  induction t1 as [a|xs IH|xs IH|kvs IH|xs|xs] using value_ind'; intros t2 p1 p2 L W1 W2 G H1 H2;
    (destruct (skip p1) eqn:Hs; [rewrite dio_skip by exact Hs; apply Forall_nil|]);
    (match goal with |- context [dio ?t1 t2 _ _] => destruct (ty_eqb (type_of t1) (type_of t2)) eqn:T end;
     [|rewrite dio_type by assumption; cbn [fst]; apply K_both; try reflexivity; assumption]);
    apply ty_eqb_true in T; destruct t2; try discriminate T; try (destruct a; discriminate T).
  - rewrite dio_atom by exact Hs. destruct (negb _); cbn [fst];
      [apply K_both; try reflexivity; assumption|apply K_diff_atom; assumption].
  - rewrite dio_list_g by exact Hs. eapply K_seq; try eassumption; try reflexivity.
    destruct G as [G0|G1]; [left; exact G0|right; apply good_seq; exact G1].
  - rewrite dio_tuple_g by exact Hs. eapply K_seq; try eassumption; try reflexivity.
    destruct G as [G0|G1]; [left; exact G0|right; apply good_seq; exact G1].
  - rewrite dio_dict_g by exact Hs. apply K_dict; assumption.
  - rewrite dio_set by exact Hs. cbn [fst]. eapply K_diff_set; try eassumption; intros z Hz; exact Hz.
  - rewrite dio_frozen by exact Hs. cbn [fst]. eapply K_diff_set; try eassumption; intros z Hz; exact Hz.
Qed.


End IO.

Lemma dio_root_ok H udiff skip excl c rep pairs t1 t2 :
  wf t1 = true -> wf t2 = true -> good H c rep t1 t2 ->
  Forall (iok t1 t2) (fst (diff_io H udiff skip excl c rep pairs t1 t2 [] [])).
Proof. intros W1 W2 G. exact (dio_ok H udiff skip excl c rep pairs t1 t2 t1 t2 [] [] eq_refl W1 W2 G eq_refl eq_refl). Qed.

Lemma leaf_shape_ok r1 r2 e : ekind e <> KRepetition -> leaf_ok r1 r2 e -> shape_ok e.
Proof.
  unfold leaf_ok, side_ok, shape_ok. intros NR (S1 & S2 & P1 & P2).
  destruct (ekind e); cbn in *; try tauto.
  - destruct (et2 e) as [b|]; [|congruence]. destruct S2 as (s & x & _ & -> & _). exists x. reflexivity.
  - destruct (et1 e) as [a|]; [|congruence]. destruct S1 as (s & x & _ & -> & _). exists x. reflexivity.
Qed.

Lemma mutual_shape es : Forall shape_ok es -> Forall shape_ok (mutual es).
Proof.
  intros HF. apply Forall_forall. intros e He. unfold mutual in He.
  apply in_flat_map in He as (e0 & H0 & He).
  pose proof (proj1 (Forall_forall _ _) HF e0 H0) as F0.
  destruct (ekind e0) eqn:K0; try (destruct He as [<-|[]]; exact F0).
  - destruct (last_with_path _ _); [destruct He|]. destruct He as [<-|[]]. exact F0.
  - destruct (last_with_path (ep1 e0) (filter (is_kind KIterAdd) es)) as [a|] eqn:LA.
    2:{ destruct He as [<-|[]]. exact F0. }
    destruct (last_with_path (ep1 e0) (filter (is_kind KIterRem) es)) as [r|].
    2:{ destruct He as [<-|[]]. exact F0. }
    destruct He as [<-|[]].
    apply last_with_path_In in LA as [HaIn _]. apply filter_In in HaIn as [HaIn Hak].
    pose proof (proj1 (Forall_forall _ _) HF a HaIn) as Fa.
    unfold is_kind in Hak. unfold shape_ok in *. rewrite K0 in F0.
    destruct (ekind a); try discriminate Hak. cbn. split; assumption.
Qed.

Section RunIO.
Variable H : pystr -> pystr.
Variable udiff : pystr -> pystr -> pystr.
Variable skip excl : path -> bool.
Variable c : cfg.
Variable pairs : path -> list (nat * nat).

(* report_repetition = False: every pairing oracle.  The leaf clause for the
   levels that [diff_io] itself reports; a values_changed level made by
   mutual_add_removes from a removed and an added level at one t1-side path
   takes its t2 object from the added level *)
Theorem run_io_chains t1 t2 :
  wf t1 = true -> wf t2 = true ->
  forall e, In e (fst (run_diff_io H udiff skip excl c false pairs t1 t2)) ->
    chain_ok t1 t2 e /\
    (In e (fst (diff_io H udiff skip excl c false pairs t1 t2 [] [])) -> leaf_ok t1 t2 e).
Proof.
  intros W1 W2 e He.
  pose proof (dio_root_ok H udiff skip excl c false pairs t1 t2 W1 W2 (or_introl eq_refl)) as HF.
  unfold run_diff_io in He. destruct (diff_io H udiff skip excl c false pairs t1 t2 [] []) as [es rs].
  cbn [fst] in *. split.
  - apply anchored_chain_ok.
    assert (HA : Forall (anchored t1 t2) es) by (eapply Forall_impl; [|exact HF]; intros x [A _]; exact A).
    pose proof (mutual_anchored t1 t2 es HA) as HM. eapply Forall_forall in HM; eassumption.
  - intros Hin. eapply Forall_forall in HF; [|exact Hin]. exact (proj2 HF).
Qed.

Theorem run_io_shape t1 t2 :
  wf t1 = true -> wf t2 = true ->
  Forall shape_ok (fst (run_diff_io H udiff skip excl c false pairs t1 t2)).
Proof.
  intros W1 W2.
  pose proof (dio_root_ok H udiff skip excl c false pairs t1 t2 W1 W2 (or_introl eq_refl)) as HF.
  unfold run_diff_io. destruct (diff_io H udiff skip excl c false pairs t1 t2 [] []) as [es rs].
  cbn [fst] in *. apply mutual_shape. eapply Forall_impl; [|exact HF].
  intros e [_ Lf]. destruct (rkind_eqb (ekind e) KRepetition) eqn:E.
  - unfold shape_ok. destruct (ekind e); try discriminate E. exact I.
  - eapply leaf_shape_ok; [|exact Lf]. intros Hk. rewrite Hk in E. discriminate E.
Qed.

Theorem run_io_text_projection verbose t1 t2 :
  wf t1 = true -> wf t2 = true ->
  Forall2 (describes verbose)
          (filter (visible verbose) (fst (run_diff_io H udiff skip excl c false pairs t1 t2)))
          (text_view verbose (fst (run_diff_io H udiff skip excl c false pairs t1 t2))).
Proof. intros. apply text_is_projection. apply run_io_shape; assumption. Qed.

(* report_repetition = True, no list with two items of the same hash *)
Theorem run_io_rep_chains t1 t2 :
  wf t1 = true -> wf t2 = true ->
  norep H c true t1 = true -> norep H c true t2 = true ->
  forall e, In e (fst (run_diff_io H udiff skip excl c true pairs t1 t2)) ->
    chain_ok t1 t2 e /\ leaf_ok t1 t2 e.
Proof.
  intros W1 W2 N1 N2 e He.
  pose proof (dio_root_ok H udiff skip excl c true pairs t1 t2 W1 W2 (or_intror (conj N1 N2))) as HF.
  unfold run_diff_io in He. destruct (diff_io H udiff skip excl c true pairs t1 t2 [] []) as [es rs].
  cbn [fst] in *. eapply Forall_forall in HF; [|exact He]. destruct HF as [A Lf].
  split; [apply anchored_chain_ok; exact A|exact Lf].
Qed.
End RunIO.

(* the guard is satisfiable by a non-trivial pair with a pairing *)
Example norep_example :
  norep hexhash (mkCfg false 33 100 true) true
    (VList [VAtom (AInt 3); VList [VAtom (AInt 1); VAtom (AInt 2)]; VDict [(AStr [97%N], VTuple [VAtom ANone])]]) = true.
Proof. vm_compute. reflexivity. Qed.

(** C10 - the delta view: DeepDiff(..., view='_delta') and
    to_dict(view_override='_delta').

    diff.py _get_view_results(DELTA_VIEW) returns
    _to_delta_dict(report_repetition_required=False): the DIRECTED payload
    (directed=True: no old_value; always_include_values=False) that
    model.py DeltaResult builds from the stored tree, after the same
    mutual_add_removes_to_become_value_changes as the other views.  The payload
    builders are the shared ones of the Delta block: [to_delta]
    (Delta/DeltaModel.v; ordered mode, with the recorded difflib opcodes) and
    [to_delta_io] (Delta/DeltaIO.v; ignore_order: index maps).  Definitions only. *)
From Coq Require Import List ZArith NArith Bool Arith.
Import ListNotations.
From DD Require Import Base.PyStr Base.Value Path.PathModel Diff.Tree Diff.DiffModel Diff.TextView
  Hash.HashModel DiffIO.DiffIOModel Delta.DeltaModel Delta.DeltaIO Views.ViewsModel.

Inductive view3 := V3Text | V3Tree | V3Delta.

Inductive view3_result :=
| R3Text (l : list tentry)
| R3Tree (l : list entry)
| R3Delta (d : delta)                 (* ordered mode *)
| R3DeltaIO (d : delta_io).           (* ignore_order *)

Section DeltaView.
Variable conv : ty -> value -> option value.          (* new_type(old_value) *)
Variable ops : path -> list value -> list value -> list opcode.   (* the opcodes difflib returned *)

(* what the comparison stored besides the tree *)
Record run_ctx := mkCtx {
  c_t1 : value; c_t2 : value;
  c_io : bool;                         (* ignore_order *)
  c_rep : bool;                        (* report_repetition *)
  c_rec : list path;                   (* keys of _iterable_opcodes *)
  c_reps : list repinfo                (* additional['repetition'] of the repetition_change levels *)
}.

Definition delta_of (x : run_ctx) (tree : list entry) : view3_result :=
  if c_io x then R3DeltaIO (to_delta_io conv false false (c_t1 x) (c_t2 x) tree (c_reps x))
  else R3Delta (to_delta conv false false ops (c_t1 x) (c_t2 x) tree (c_rec x)).

(* _get_view_results(view) on the stored tree *)
Definition get_view_results3 (x : run_ctx) (vw : view3) (verbose : nat) (tree : list entry) : view3_result :=
  let tree' := if c_rep x then tree else mutual tree in
  match vw with
  | V3Tree => R3Tree tree'
  | V3Text => R3Text (text_view verbose tree')
  | V3Delta => delta_of x tree'
  end.
Definition to_dict3 (x : run_ctx) (own : view3) (override : option view3) (verbose : nat) (tree : list entry) : view3_result :=
  get_view_results3 x (match override with Some v => v | None => own end) verbose tree.
End DeltaView.

(* the items a payload files under one set path *)
Definition set_members (p : path) (l : list (path * list atom)) : list atom :=
  flat_map (fun pa => if path_eqb (fst pa) p then snd pa else []) l.

(** C10 - the presentations of one comparison as functions of the result tree
    (a list of [entry], Diff/Tree.v):

      text view        Diff/TextView.v [text_view]  (model.py TextResult)
      to_dict          [get_view_results] / [to_dict]  (diff.py _get_view_results,
                       serialization.py to_dict: view_override, the second call of
                       mutual_add_removes_to_become_value_changes)
      pretty()         [pretty]  (serialization.py pretty, pretty_print_diff,
                       _get_pretty_form_text; needs Python's str()/repr() of values)
      to_json()        [to_json]  = the JSON-able value json.dumps walks: the text
                       view's dicts / SetOrdered, with JSON_CONVERTOR applied by the
                       [default] hook (set -> list, bytes -> utf-8 str, type -> name;
                       tuple -> list and non-str dict keys natively).  The JSON TEXT
                       encoder is not modelled (trusted json / orjson); [None] = raises.

    Definitions only. *)
From Coq Require Import List ZArith NArith Bool Arith String.
Import ListNotations.
From DD Require Import Base.PyStr Base.Value Path.PathModel Diff.Tree Diff.DiffModel Diff.TextView.
Local Open Scope N_scope.

(* ------------------------------------------------------------------ *)
(* Python repr() / str() of values                                     *)
(* ------------------------------------------------------------------ *)

Definition hex2 (c : N) : pystr := [cBS; 120; hex_digit (c / 16); hex_digit (c mod 16)].

(* repr of a str.  Code points < 256 exactly (Latin-1: 0x80-0xa0 and 0xad are
   not printable); code points >= 256 are copied (printable ones; the harness
   keeps the others out). *)
Definition repr_str (s : pystr) : pystr :=
  let q := if has_char cSQ s && negb (has_char cDQ s) then cDQ else cSQ in
  [q] ++ flat_map (fun c =>
     if (c =? q) || (c =? cBS) then [cBS; c]
     else if c =? 9 then [cBS; 116] else if c =? 10 then [cBS; 110] else if c =? 13 then [cBS; 114]
     else if (c <? 32) || (c =? 127) then hex2 c
     else if ((128 <=? c) && (c <=? 160)) || (c =? 173) then hex2 c
     else [c]) s ++ [q].

Definition repr_atom_py (a : atom) : pystr :=
  match a with
  | AStr s => repr_str s
  | _ => repr_atom a
  end.

Definition comma_sp : pystr := [44; 32].
Definition colon_sp : pystr := [58; 32].

Fixpoint py_repr (v : value) : pystr :=
  match v with
  | VAtom a => repr_atom_py a
  | VList xs => [cLB] ++ join comma_sp (map py_repr xs) ++ [cRB]
  | VTuple xs =>
      match xs with
      | [x] => [40] ++ py_repr x ++ [44; 41]
      | _ => [40] ++ join comma_sp (map py_repr xs) ++ [41]
      end
  | VDict kvs =>
      [123] ++ join comma_sp (map (fun kv => repr_atom_py (fst kv) ++ colon_sp ++ py_repr (snd kv)) kvs) ++ [125]
  | VSet xs =>
      match xs with
      | [] => s2p "set()"
      | _ => [123] ++ join comma_sp (map repr_atom_py xs) ++ [125]
      end
  | VFrozen xs =>
      match xs with
      | [] => s2p "frozenset()"
      | _ => s2p "frozenset({" ++ join comma_sp (map repr_atom_py xs) ++ s2p "})"
      end
  end%list.

(* str(x) *)
Definition py_str (v : value) : pystr :=
  match v with
  | VAtom (AStr s) => s
  | _ => py_repr v
  end.

Definition ty_name (t : ty) : pystr :=
  s2p (match t with
       | TNone => "NoneType" | TBool => "bool" | TInt => "int" | TFloat => "float"
       | TStr => "str" | TBytes => "bytes" | TList => "list" | TTuple => "tuple"
       | TDict => "dict" | TSet => "set" | TFrozen => "frozenset"
       end).

(* ------------------------------------------------------------------ *)
(* pretty()                                                            *)
(* ------------------------------------------------------------------ *)

(* get_type(diff.t1).__name__ ; notpresent is an instance of NotPresent *)
Definition pretty_type (o : option value) : pystr :=
  match o with
  | Some v => ty_name (type_of v)
  | None => s2p "NotPresent"
  end.
(* val_t1 = '"{}"'.format(str(t1)) if type_t1 == "str" else str(t1) *)
Definition pretty_val (o : option value) : pystr :=
  match o with
  | Some (VAtom (AStr s)) => [cDQ] ++ s ++ [cDQ]
  | Some v => py_str v
  | None => s2p "not present"
  end%list.

(* pretty_print_diff: the template of the level's report type, formatted with
   diff_path = level.path(), the type names and the values.  verbose_level is
   the level's attribute (DeepDiff's verbose_level); the extended templates
   are chosen by [verbose_level == 2].  iterable_item_moved has NO template:
   [.get(report_type, "")] gives the empty statement.  The set templates name
   the set through set_path = level.up.path() = the entry's key sequence
   (since fix 9738d10; before, the literal text "root["). *)
Definition pretty_of (verbose : nat) (e : entry) : pystr :=
  let P := render (ep1 e) in
  let V1 := pretty_val (et1 e) in
  let V2 := pretty_val (et2 e) in
  let two := Nat.eqb verbose 2 in
  match ekind e with
  | KType => s2p "Type of " ++ P ++ s2p " changed from " ++ pretty_type (et1 e) ++ s2p " to " ++ pretty_type (et2 e)
             ++ s2p " and value changed from " ++ V1 ++ s2p " to " ++ V2 ++ s2p "."
  | KValue => s2p "Value of " ++ P ++ s2p " changed from " ++ V1 ++ s2p " to " ++ V2 ++ s2p "."
  | KDictAdd => if two then s2p "Item " ++ P ++ s2p " (" ++ V2 ++ s2p ") added to dictionary."
                else s2p "Item " ++ P ++ s2p " added to dictionary."
  | KDictRem => if two then s2p "Item " ++ P ++ s2p " (" ++ V1 ++ s2p ") removed from dictionary."
                else s2p "Item " ++ P ++ s2p " removed from dictionary."
  | KIterAdd => if two then s2p "Item " ++ P ++ s2p " (" ++ V2 ++ s2p ") added to iterable."
                else s2p "Item " ++ P ++ s2p " added to iterable."
  | KIterRem => if two then s2p "Item " ++ P ++ s2p " (" ++ V1 ++ s2p ") removed from iterable."
                else s2p "Item " ++ P ++ s2p " removed from iterable."
  | KIterMoved => []
  | KSetAdd => s2p "Item " ++ P ++ s2p "[" ++ V2 ++ s2p "] added to set."
  | KSetRem => s2p "Item " ++ P ++ s2p "[" ++ V1 ++ s2p "] removed from set."
  | KRepetition => s2p "Repetition change for item " ++ P ++ s2p "."
  end%list.

(* one statement per level of the tree (pretty() joins them with newlines,
   each behind the prefix) *)
Definition pretty (verbose : nat) (es : list entry) : list pystr := map (pretty_of verbose) es.

(* ------------------------------------------------------------------ *)
(* to_dict / _get_view_results                                         *)
(* ------------------------------------------------------------------ *)
Inductive view := ViewText | ViewTree.
Inductive view_result := RText (l : list tentry) | RTree (l : list entry).

(* _get_view_results runs mutual_add_removes_to_become_value_changes on the
   stored tree every time it is called (unless report_repetition) *)
Definition get_view_results (rep : bool) (vw : view) (verbose : nat) (tree : list entry) : view_result :=
  let tree' := if rep then tree else mutual tree in
  match vw with
  | ViewTree => RTree tree'
  | ViewText => RText (text_view verbose tree')
  end.

(* to_dict(view_override): the object's own view when no override is given *)
Definition to_dict (rep : bool) (own : view) (override : option view) (verbose : nat) (tree : list entry) : view_result :=
  get_view_results rep (match override with Some v => v | None => own end) verbose tree.

(* ------------------------------------------------------------------ *)
(* to_json: the JSON-able value                                        *)
(* ------------------------------------------------------------------ *)
Inductive jv :=
| JNull | JBool (b : bool) | JInt (z : Z) | JHalf (twice : Z) | JStr (s : pystr)
| JList (l : list jv) | JObj (kvs : list (pystr * jv)).

(* bytes.decode('utf-8'), strict: Some code points, None = UnicodeDecodeError *)
Definition is_cont (c : N) : bool := (128 <=? c) && (c <=? 191).
Fixpoint utf8_decode_go (fuel : nat) (s : pystr) : option pystr :=
  match fuel with
  | O => match s with [] => Some [] | _ => None end
  | S f =>
      match s with
      | [] => Some []
      | c :: r =>
          if c <? 128 then option_map (cons c) (utf8_decode_go f r)
          else if (194 <=? c) && (c <=? 223) then
            match r with
            | c1 :: r' => if is_cont c1
                          then option_map (cons ((c - 192) * 64 + (c1 - 128))) (utf8_decode_go f r')
                          else None
            | _ => None
            end
          else if (224 <=? c) && (c <=? 239) then
            match r with
            | c1 :: c2 :: r' =>
                let cp := (c - 224) * 4096 + (c1 - 128) * 64 + (c2 - 128) in
                if is_cont c1 && is_cont c2 && (2048 <=? cp) && negb ((55296 <=? cp) && (cp <=? 57343))
                then option_map (cons cp) (utf8_decode_go f r') else None
            | _ => None
            end
          else if (240 <=? c) && (c <=? 244) then
            match r with
            | c1 :: c2 :: c3 :: r' =>
                let cp := (c - 240) * 262144 + (c1 - 128) * 4096 + (c2 - 128) * 64 + (c3 - 128) in
                if is_cont c1 && is_cont c2 && is_cont c3 && (65536 <=? cp) && (cp <=? 1114111)
                then option_map (cons cp) (utf8_decode_go f r') else None
            | _ => None
            end
          else None
      end
  end.
Definition utf8_decode (s : pystr) : option pystr := utf8_decode_go (List.length s) s.

Fixpoint all_some {A} (l : list (option A)) : option (list A) :=
  match l with
  | [] => Some []
  | None :: _ => None
  | Some x :: r => option_map (cons x) (all_some r)
  end.
Fixpoint all_some_kv {A B} (l : list (A * option B)) : option (list (A * B)) :=
  match l with
  | [] => Some []
  | (_, None) :: _ => None
  | (k, Some x) :: r => option_map (cons (k, x)) (all_some_kv r)
  end.

Definition atom_jsonable (a : atom) : option jv :=
  match a with
  | ANone => Some JNull
  | ABool b => Some (JBool b)
  | AInt z => Some (JInt z)
  | AHalf t => Some (JHalf t)
  | AStr s => Some (JStr s)
  | ABytes s => option_map JStr (utf8_decode s)       (* JSON_CONVERTOR[bytes] *)
  end.

(* json.dumps on dict keys: str as is; int, float, bool, None converted to
   their JSON text; anything else (bytes) TypeError *)
Definition json_key (a : atom) : option pystr :=
  match a with
  | ANone => Some (s2p "null")
  | ABool true => Some (s2p "true")
  | ABool false => Some (s2p "false")
  | AInt z => Some (p_of_Z z)
  | AHalf t => Some (repr_half t)
  | AStr s => Some s
  | ABytes _ => None
  end.

(* what json.dumps(default=json_convertor_default()) makes of a value:
   list and tuple natively, set through JSON_CONVERTOR[set] = list (iteration
   order), frozenset is in no table row (TypeError) *)
Fixpoint to_jsonable (v : value) : option jv :=
  match v with
  | VAtom a => atom_jsonable a
  | VList xs | VTuple xs => option_map JList (all_some (map to_jsonable xs))
  | VDict kvs =>
      option_map JObj (all_some (map (fun kv =>
        match json_key (fst kv), to_jsonable (snd kv) with
        | Some k, Some j => Some (k, j)
        | _, _ => None
        end) kvs))
  | VSet xs => option_map JList (all_some (map atom_jsonable xs))
  | VFrozen _ => None
  end.

(* ---- the text view as a dict of categories ---- *)
Inductive cat := CType | CValue | CDictAdd | CDictRem | CIterAdd | CIterRem | CMoved | CSetAdd | CSetRem.
Definition cat_eqb (a b : cat) : bool :=
  match a, b with
  | CType, CType | CValue, CValue | CDictAdd, CDictAdd | CDictRem, CDictRem | CIterAdd, CIterAdd
  | CIterRem, CIterRem | CMoved, CMoved | CSetAdd, CSetAdd | CSetRem, CSetRem => true
  | _, _ => false
  end.
Definition all_cats : list cat := [CType; CValue; CDictAdd; CDictRem; CIterAdd; CIterRem; CMoved; CSetAdd; CSetRem].
Definition cat_name (c : cat) : pystr :=
  s2p (match c with
       | CType => "type_changes" | CValue => "values_changed"
       | CDictAdd => "dictionary_item_added" | CDictRem => "dictionary_item_removed"
       | CIterAdd => "iterable_item_added" | CIterRem => "iterable_item_removed"
       | CMoved => "iterable_item_moved"
       | CSetAdd => "set_item_added" | CSetRem => "set_item_removed"
       end).
Definition kind_cat (k : rkind) : option cat :=
  match k with
  | KType => Some CType | KValue => Some CValue | KDictAdd => Some CDictAdd | KDictRem => Some CDictRem
  | KIterAdd => Some CIterAdd | KIterRem => Some CIterRem | KIterMoved => Some CMoved
  | KSetAdd => Some CSetAdd | KSetRem => Some CSetRem | KRepetition => None
  end.

Definition tcat (t : tentry) : cat :=
  match t with
  | TType _ _ _ _ _ => CType | TValue _ _ _ _ _ => CValue
  | TDictAdd _ _ => CDictAdd | TDictRem _ _ => CDictRem
  | TIterAdd _ _ => CIterAdd | TIterRem _ _ => CIterRem | TMoved _ _ _ => CMoved
  | TSetAdd _ => CSetAdd | TSetRem _ => CSetRem
  end.
(* the key (or member string) under which the entry sits in its category *)
Definition tpath (t : tentry) : pystr :=
  match t with
  | TType p _ _ _ _ | TValue p _ _ _ _ | TDictAdd p _ | TDictRem p _
  | TIterAdd p _ | TIterRem p _ | TMoved p _ _ | TSetAdd p | TSetRem p => p
  end.

(* categories that are a SetOrdered of strings (json: a list) rather than a dict *)
Definition list_cat (verbose : nat) (c : cat) : bool :=
  match c with
  | CSetAdd | CSetRem => true
  | CDictAdd | CDictRem => Nat.ltb verbose 2
  | _ => false
  end.

Definition opt_field (name : String.string) (o : option pystr) : list (pystr * option jv) :=
  match o with Some s => [(s2p name, Some (JStr s))] | None => [] end.

(* the value stored under the path, as json.dumps sees it (insertion order of the keys) *)
Definition entry_json (t : tentry) : option jv :=
  match t with
  | TType _ a b np vals =>
      option_map JObj (all_some_kv (
        [(s2p "old_type", Some (JStr (ty_name a))); (s2p "new_type", Some (JStr (ty_name b)))]
        ++ opt_field "new_path" np
        ++ match vals with
           | Some (x, y) => [(s2p "old_value", to_jsonable x); (s2p "new_value", to_jsonable y)]
           | None => []
           end))
  | TValue _ x y np d =>
      option_map JObj (all_some_kv (
        [(s2p "new_value", to_jsonable y); (s2p "old_value", to_jsonable x)]
        ++ opt_field "new_path" np ++ opt_field "diff" d))
  | TDictAdd _ v | TDictRem _ v => to_jsonable (match v with Some x => x | None => VAtom ANone end)
  | TIterAdd _ v | TIterRem _ v => to_jsonable v
  | TMoved _ np v => option_map JObj (all_some_kv [(s2p "new_path", Some (JStr np)); (s2p "value", to_jsonable v)])
  | TSetAdd _ | TSetRem _ => Some JNull     (* not used: list category *)
  end%list.

(* a Python dict filled by successive [d[k] = v]: one entry per key, the last value *)
Fixpoint dict_last {B} (l : list (pystr * B)) : list (pystr * B) :=
  match l with
  | [] => []
  | (k, v) :: r => if existsb (fun kv => pystr_eqb (fst kv) k) r then dict_last r else (k, v) :: dict_last r
  end.
(* a SetOrdered filled by successive add: first occurrences *)
Fixpoint set_first (seen : list pystr) (l : list pystr) : list pystr :=
  match l with
  | [] => []
  | s :: r => if existsb (pystr_eqb s) seen then set_first seen r else s :: set_first (s :: seen) r
  end.

Definition in_cat (c : cat) (ts : list tentry) : list tentry := filter (fun t => cat_eqb (tcat t) c) ts.

Definition cat_json (verbose : nat) (c : cat) (l : list tentry) : option jv :=
  if list_cat verbose c then Some (JList (map JStr (set_first [] (map tpath l))))
  else option_map JObj (all_some_kv (dict_last (map (fun t => (tpath t, entry_json t)) l))).

(* the dict json.dumps receives: to_dict(view_override='text'), empty categories removed *)
Definition cat_list (verbose : nat) (ts : list tentry) : list (pystr * option jv) :=
  flat_map (fun c =>
    match in_cat c ts with
    | [] => []
    | l => [(cat_name c, cat_json verbose c l)]
    end) all_cats.
Definition json_of_text (verbose : nat) (ts : list tentry) : option jv :=
  option_map JObj (all_some_kv (cat_list verbose ts)).

Definition to_json (rep : bool) (verbose : nat) (tree : list entry) : option jv :=
  match get_view_results rep ViewText verbose tree with
  | RText ts => json_of_text verbose ts
  | RTree _ => None
  end.

(* ------------------------------------------------------------------ *)
(* repetition_change (report_repetition=True)                          *)
(* ------------------------------------------------------------------ *)
(* additional['repetition'] of a repetition_change level is not part of [entry];
   the ignore-order model returns it beside the entries, one record per
   repetition_change level and in the order of these levels, as
   (path of the level, old_indexes, new_indexes).  TextResult files
   {old_repeat, new_repeat, old_indexes, new_indexes, value = t1} under the path. *)
Definition repinfo3 := (path * list nat * list nat)%type.
Record trep := mkTRep { trpath : pystr; trold : list nat; trnew : list nat; trval : value }.

(* [rs]: the records of the repetition_change levels in the order of the levels
   (each record is stored ON its level: additional['repetition']) *)
Definition is_rep (e : entry) : bool := rkind_eqb (ekind e) KRepetition.
Definition rep_view (es : list entry) (rs : list repinfo3) : list trep :=
  map (fun er => mkTRep (render (ep1 (fst er))) (snd (fst (snd er))) (snd (snd er)) (opt_val (et1 (fst er))))
      (combine (filter is_rep es) rs).

Definition jnat (n : nat) : jv := JInt (Z.of_nat n).
Definition rep_entry_json (t : trep) : option jv :=
  option_map JObj (all_some_kv
    [(s2p "old_repeat", Some (jnat (List.length (trold t)))); (s2p "new_repeat", Some (jnat (List.length (trnew t))));
     (s2p "old_indexes", Some (JList (map jnat (trold t)))); (s2p "new_indexes", Some (JList (map jnat (trnew t))));
     (s2p "value", to_jsonable (trval t))]).
Definition rep_name : pystr := s2p "repetition_change".
Definition rep_cat (reps : list trep) : list (pystr * option jv) :=
  match reps with
  | [] => []
  | _ => [(rep_name, option_map JObj (all_some_kv (dict_last (map (fun t => (trpath t, rep_entry_json t)) reps))))]
  end.

(* the complete text view and its JSON-able value *)
Definition json_full (verbose : nat) (ts : list tentry) (reps : list trep) : option jv :=
  option_map JObj (all_some_kv (cat_list verbose ts ++ rep_cat reps)).
Definition text_full (rep : bool) (verbose : nat) (tree : list entry) (rs : list repinfo3) : list tentry * list trep :=
  let tree' := if rep then tree else mutual tree in
  (text_view verbose tree', rep_view tree' rs).
Definition to_json_full (rep : bool) (verbose : nat) (tree : list entry) (rs : list repinfo3) : option jv :=
  json_full verbose (fst (text_full rep verbose tree rs)) (snd (text_full rep verbose tree rs)).

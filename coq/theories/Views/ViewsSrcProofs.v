(** C10 source tie - lemmas about the primitives of Views/ViewsSrc.v that the
    equivalence proofs (coq/srctie/ViewsGenEquiv.v) use, and the facts about the
    hand-written statement-level targets: the category-ordered text view
    [text_view_cats] is the stable grouping by category of the hand model's
    [text_view] (Diff/TextView.v), so it has the same per-category lists, the
    same JSON document, the same (category, path) pairs and is the same
    projection of the tree. *)
From Coq Require Import List ZArith NArith Bool Arith Lia String.
Import ListNotations.
From DD Require Import Base.PyStr Base.Value Path.PathModel Diff.Tree Diff.DiffModel Diff.DiffFaithful Diff.TextView
  Views.ViewsModel Views.ViewsProofs Views.ViewsSrc.

(* ------------------------------------------------------------------ *)
(* the state                                                           *)
(* ------------------------------------------------------------------ *)
Definition cfg_is (s : gself) (v : nat) (c : list (string * container)) : Prop :=
  s_verbose s = v /\ s_containers s = c.

Lemma emit_nil s : emit s [] = s.
Proof. destruct s. unfold emit. cbn. rewrite app_nil_r. reflexivity. Qed.

Lemma emit_emit s a b : emit (emit s a) b = emit s (a ++ b).
Proof. unfold emit. cbn. rewrite app_assoc. reflexivity. Qed.

Lemma emit_cfg s l v c : cfg_is s v c -> cfg_is (emit s l) v c.
Proof. intros H. exact H. Qed.

Lemma emit_out s l : s_out (emit s l) = (s_out s ++ l)%list.
Proof. reflexivity. Qed.

(* a loop whose body appends to self what a function of the level says *)
Lemma fold_emit (body : gself -> level -> gself) (f : level -> list raw) (Q : level -> Prop) v c :
  (forall s x, Q x -> cfg_is s v c -> body s x = emit s (f x)) ->
  forall l s, Forall Q l -> cfg_is s v c -> fold_left body l s = emit s (flat_map f l).
Proof.
  intros HB. induction l as [|x l IH]; intros s HQ HC; cbn.
  - rewrite emit_nil. reflexivity.
  - inversion HQ as [|? ? Qx Ql]; subst. rewrite (HB s x Qx HC). rewrite IH; [|assumption|apply emit_cfg; assumption].
    apply emit_emit.
Qed.

Lemma flat_map_map {A B C} (f : B -> list C) (g : A -> B) l :
  flat_map f (map g l) = flat_map (fun x => f (g x)) l.
Proof. induction l as [|x l IH]; cbn; [reflexivity|rewrite IH; reflexivity]. Qed.

Lemma map_flat_map' {A B C} (h : B -> C) (f : A -> list B) l :
  map h (flat_map f l) = flat_map (fun x => map h (f x)) l.
Proof. induction l as [|x l IH]; cbn; [reflexivity|rewrite map_app, IH; reflexivity]. Qed.

(* ------------------------------------------------------------------ *)
(* the tree                                                            *)
(* ------------------------------------------------------------------ *)
Lemma tree_get_kind t kd :
  kd <> KRepetition -> tree_get t (report_name kd) = map (fun e => (e, None)) (filter (of_kind kd) (gt_es t)).
Proof. intros H. destruct kd; try congruence; reflexivity. Qed.

Lemma tree_get_rep t :
  tree_get t "repetition_change" = map (fun er => (fst er, Some (snd er))) (combine (filter is_rep (gt_es t)) (gt_rs t)).
Proof. reflexivity. Qed.

(* `if k in tree: for change in tree[k]: ...` is the loop alone *)
Lemma tree_has_emit t k s (f : level -> list raw) :
  (if tree_has t k then emit s (flat_map f (tree_get t k)) else s) = emit s (flat_map f (tree_get t k)).
Proof. unfold tree_has. destruct (tree_get t k); [cbn; rewrite emit_nil|]; reflexivity. Qed.

Lemma tree_has_and_emit t k (b : bool) s (f : level -> list raw) :
  (if tree_has t k && b then emit s (flat_map f (tree_get t k)) else s) =
  (if b then emit s (flat_map f (tree_get t k)) else s).
Proof. unfold tree_has. destruct (tree_get t k); cbn; [rewrite emit_nil; destruct b|]; reflexivity. Qed.

Lemma tree_keys_report t : forall k, In k (tree_keys t) -> str_mem k report_keys = true.
Proof.
  intros k H. unfold tree_keys in H. apply in_map_iff in H as (kd & <- & _). destruct kd; reflexivity.
Qed.

Lemma flat_map_single {A B} (g : A -> B) l : flat_map (fun x => [g x]) l = map g l.
Proof. induction l as [|x l IH]; cbn; [reflexivity|rewrite IH; reflexivity]. Qed.

(* a loop over keys whose guarded branch is never taken *)
Lemma fold_guard_skip (R : list string) (F : gself -> string -> gself) l s :
  (forall k, In k l -> str_mem k R = true) ->
  fold_left (fun (s : gself) (k : string) => if negb (str_mem k R) then F s k else s) l s = s.
Proof.
  revert s. induction l as [|k l IH]; intros s H; [reflexivity|].
  cbn [fold_left]. rewrite (H k (or_introl eq_refl)). cbn [negb]. apply IH. intros k' Hk. apply H. right. exact Hk.
Qed.

Lemma text_view_none v kd es :
  (forall e, ekind e = kd -> text_of v e = []) -> text_view v (filter (of_kind kd) es) = [].
Proof.
  intros H. unfold text_view. induction es as [|e es IH]; [reflexivity|].
  cbn [filter]. unfold of_kind at 1. destruct (rkind_eqb (ekind e) kd) eqn:E; [|exact IH].
  cbn [flat_map]. rewrite IH, H; [reflexivity|]. destruct (ekind e), kd; cbn in E; congruence.
Qed.

(* modify the insertion just made *)
Lemma upd_last_snoc p f l x : p x = true -> upd_last p f (l ++ [x]) = (l ++ [f x], true)%list.
Proof.
  intros Hp. induction l as [|y l IH]; cbn.
  - rewrite Hp. reflexivity.
  - rewrite IH. reflexivity.
Qed.

(* ------------------------------------------------------------------ *)
(* what the code needs of a level beyond [shape_ok]: a removed item has *)
(* no t2 object (the code reports t2 whenever it is present) and a      *)
(* repetition_change level has its t1 object                            *)
(* ------------------------------------------------------------------ *)
Definition src_shape_ok (e : entry) : Prop :=
  shape_ok e /\ match ekind e with KDictRem | KIterRem => et2 e = None | KRepetition => et1 e <> None | _ => True end.

Lemma src_shape_ok_shape es : Forall src_shape_ok es -> Forall shape_ok es.
Proof. intros H. eapply Forall_impl; [|exact H]. intros e [S _]. exact S. Qed.

Lemma src_shape_ok_filter (p : entry -> bool) es : Forall src_shape_ok es -> Forall src_shape_ok (filter p es).
Proof. intros H. apply Forall_forall. intros e He. apply filter_In in He as [He _]. exact (proj1 (Forall_forall _ _) H e He). Qed.

Lemma faithful_src_shape_ok r1 r2 e : faithful false r1 r2 e -> src_shape_ok e.
Proof.
  intros F. split; [eapply faithful_shape_ok; exact F|].
  unfold faithful in F. destruct (ekind e); try exact I.
  - destruct F as (a & _ & H & _). exact H.
  - destruct F as (a & _ & H & _). exact H.
  - destruct F.
Qed.

Section Run.
Variable hatom : atom -> pystr.
Variable udiff : pystr -> pystr -> pystr.
Variable ops : path -> list value -> list value -> list opcode.
Variable skip excl : path -> bool.
Variable c : cfg.

(* every level of every ordered run has the shape the code expects *)
Lemma run_diff_src_shape_ok t1 t2 :
  thr_num c <= thr_den c -> wf t1 = true -> wf t2 = true ->
  Forall src_shape_ok (fst (run_diff hatom udiff ops skip excl c t1 t2)).
Proof.
  intros Hthr W1 W2. apply Forall_forall. intros e He.
  destruct (run_diff_faithful hatom udiff ops skip excl c t1 t2 Hthr W1 W2 e He) as [F _].
  eapply faithful_src_shape_ok; exact F.
Qed.
End Run.

(* ------------------------------------------------------------------ *)
(* the category-ordered text view                                      *)
(* ------------------------------------------------------------------ *)
Lemma text_view_cats_unfold v es :
  text_view_cats v es = flat_map (fun kd => text_view v (filter (of_kind kd) es)) cat_order.
Proof. reflexivity. Qed.

Definition cat_kind (c : cat) : rkind :=
  match c with
  | CType => KType | CValue => KValue | CDictAdd => KDictAdd | CDictRem => KDictRem
  | CIterAdd => KIterAdd | CIterRem => KIterRem | CMoved => KIterMoved | CSetAdd => KSetAdd | CSetRem => KSetRem
  end.

Lemma in_cat_app c a b : in_cat c (a ++ b) = (in_cat c a ++ in_cat c b)%list.
Proof. unfold in_cat. apply filter_app. Qed.

(* the entries of one level all sit in the category of its report type *)
Lemma in_cat_text_of c v e :
  in_cat c (text_of v e) = if of_kind (cat_kind c) e then text_of v e else [].
Proof.
  unfold text_of, of_kind. destruct (ekind e); destruct c; destruct (0 <? v); destruct (1 <? v); reflexivity.
Qed.

Lemma in_cat_text_view c v es :
  in_cat c (text_view v es) = text_view v (filter (of_kind (cat_kind c)) es).
Proof.
  unfold text_view. induction es as [|e es IH]; [reflexivity|].
  cbn [flat_map filter]. rewrite in_cat_app, IH, in_cat_text_of.
  destruct (of_kind (cat_kind c) e); reflexivity.
Qed.

Lemma rkind_eqb_eq a b : rkind_eqb a b = true <-> a = b.
Proof. destruct a, b; cbn; split; intros H; try reflexivity; try discriminate. Qed.
Lemma rkind_eqb_refl a : rkind_eqb a a = true.
Proof. destruct a; reflexivity. Qed.

Lemma filter_of_kind_twice k k' es :
  filter (of_kind k) (filter (of_kind k') es) = if rkind_eqb k k' then filter (of_kind k) es else [].
Proof.
  unfold of_kind.
  induction es as [|e es IH]; [destruct (rkind_eqb k k'); reflexivity|].
  cbn [filter].
  destruct (rkind_eqb (ekind e) k') eqn:E1; cbn [filter]; rewrite IH.
  - destruct (rkind_eqb (ekind e) k) eqn:E2; [|reflexivity].
    apply rkind_eqb_eq in E1. apply rkind_eqb_eq in E2. subst k k'. rewrite rkind_eqb_refl. reflexivity.
  - destruct (rkind_eqb k k') eqn:E3; [|reflexivity]. apply rkind_eqb_eq in E3. subst k'. rewrite E1. reflexivity.
Qed.

(* same per-category lists (same order, same multiplicity) as the hand model's text view *)
Theorem text_view_cats_in_cat c v es : in_cat c (text_view_cats v es) = in_cat c (text_view v es).
Proof.
  rewrite in_cat_text_view, text_view_cats_unfold. unfold cat_order. cbn [flat_map].
  repeat rewrite in_cat_app. repeat rewrite in_cat_text_view. repeat rewrite filter_of_kind_twice.
  destruct c; cbn [cat_kind rkind_eqb text_view flat_map app]; repeat rewrite app_nil_r; reflexivity.
Qed.

(* ... hence the stable grouping of the hand model's text view by category, in the code's order *)
Theorem text_view_cats_grouped v es :
  text_view_cats v es =
  flat_map (fun c => in_cat c (text_view v es)) [CType; CDictAdd; CDictRem; CValue; CIterAdd; CIterRem; CMoved; CSetRem; CSetAdd].
Proof.
  cbn [flat_map]. repeat rewrite in_cat_text_view. rewrite app_nil_r. rewrite text_view_cats_unfold. unfold cat_order.
  cbn [flat_map cat_kind]. rewrite app_nil_r. reflexivity.
Qed.

Theorem text_view_cats_In v es t : In t (text_view_cats v es) <-> In t (text_view v es).
Proof.
  split; intros H.
  - assert (H' : In t (in_cat (tcat t) (text_view_cats v es))).
    { unfold in_cat. apply filter_In. split; [exact H|]. destruct (tcat t); reflexivity. }
    rewrite text_view_cats_in_cat in H'. unfold in_cat in H'. apply filter_In in H'. tauto.
  - assert (H' : In t (in_cat (tcat t) (text_view v es))).
    { unfold in_cat. apply filter_In. split; [exact H|]. destruct (tcat t); reflexivity. }
    rewrite <- text_view_cats_in_cat in H'. unfold in_cat in H'. apply filter_In in H'. tauto.
Qed.

(* the JSON document only looks at the per-category lists *)
Theorem cat_list_cats v es : cat_list v (text_view_cats v es) = cat_list v (text_view v es).
Proof. unfold cat_list, all_cats. cbn [flat_map]. repeat rewrite text_view_cats_in_cat. reflexivity. Qed.

Theorem json_full_cats v es reps : json_full v (text_view_cats v es) reps = json_full v (text_view v es) reps.
Proof. unfold json_full. rewrite cat_list_cats. reflexivity. Qed.

(* the levels in the code's order of conversion *)
Definition levels_in_order (v : nat) (es : list entry) : list entry :=
  flat_map (fun kd => filter (visible v) (filter (of_kind kd) es)) cat_order.

Theorem text_view_cats_same_pairs v es :
  map tkey (text_view_cats v es) = map ekey (levels_in_order v es).
Proof.
  rewrite text_view_cats_unfold. unfold levels_in_order.
  induction cat_order as [|kd l IH]; [reflexivity|].
  cbn [flat_map]. rewrite !map_app, IH, text_same_pairs. reflexivity.
Qed.

Theorem text_view_cats_projection v es :
  Forall shape_ok es -> Forall2 (describes v) (levels_in_order v es) (text_view_cats v es).
Proof.
  intros S. rewrite text_view_cats_unfold. unfold levels_in_order.
  induction cat_order as [|kd l IH]; [constructor|].
  cbn [flat_map]. apply Forall2_app; [|exact IH].
  apply text_is_projection. apply Forall_forall. intros e He. apply filter_In in He as [He _].
  exact (proj1 (Forall_forall _ _) S e He).
Qed.

(* the insertions determine the text entries *)
Lemma raw_of_inj a b : raw_of a = raw_of b -> a = b.
Proof.
  destruct a as [p a1 a2 np vals|p x y np d|p v|p v|p v|p v|p np v|s|s];
  destruct b as [p' b1 b2 np' vals'|p' x' y' np' d'|p' v'|p' v'|p' v'|p' v'|p' np'' v'|s'|s']; cbn; intros H; try discriminate.
  - destruct np, np', vals as [[? ?]|], vals' as [[? ?]|]; cbn in H; inversion H; reflexivity.
  - destruct np, np', d, d'; cbn in H; inversion H; reflexivity.
  - destruct v, v'; cbn in H; inversion H; reflexivity.
  - destruct v, v'; cbn in H; inversion H; reflexivity.
  - inversion H; reflexivity.
  - inversion H; reflexivity.
  - inversion H; reflexivity.
  - inversion H; reflexivity.
  - inversion H; reflexivity.
Qed.

Lemma map_raw_of_inj a b : map raw_of a = map raw_of b -> a = b.
Proof.
  revert b. induction a as [|x a IH]; destruct b as [|y b]; cbn; intros H; try discriminate; [reflexivity|].
  inversion H as [[H1 H2]]. apply raw_of_inj in H1. rewrite H1, (IH b H2). reflexivity.
Qed.

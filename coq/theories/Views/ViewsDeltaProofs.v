(** C10 - the delta view agrees with the tree view and the text view.

    A. [to_dict3_override]: on a stored tree every view (text, tree, delta) is what a
       fresh run with that view shows, whatever the object's own view; the delta
       view IS [to_delta] / [to_delta_io] of the tree view.
    B. every category of the directed payload is, entry by entry and in order,
       the projection of the levels of that report type of the SAME tree the
       text view projects ([delta_val], [delta_type], [delta_dadd], ...;
       iterable items whose list has recorded opcodes are left to the opcodes;
       set items are grouped per set).
    C. [delta_text_*]: hence the i-th entry of a category of the verbose-2 text
       view and the i-th entry of that category of the delta view have the same
       path (printed there, parsed here: [render ks] / [norm ks], C09 relates
       them) and show the same new value.
    D. ignore_order: the index maps hold exactly the added / removed levels
       (and the new indexes of the repetition_change records). *)
From Coq Require Import List ZArith NArith Bool Arith Lia.
Import ListNotations.
From DD Require Import Base.PyStr Base.Value Base.ValueFacts Path.PathModel
  Diff.Tree Diff.DiffModel Diff.DiffFacts Diff.DiffFaithful Diff.TextView Hash.HashModel DiffIO.DiffIOModel
  Delta.DeltaModel Delta.DeltaIO Views.ViewsModel Views.ViewsChains Views.ViewsProofs Views.ViewsDelta.

(* ---- list tools ---- *)
Lemma Forall2_flat_filter {A B} (P : A -> bool) (f : A -> list B) (R : A -> B -> Prop) l :
  (forall a, In a l -> if P a then exists b, f a = [b] /\ R a b else f a = []) ->
  Forall2 R (filter P l) (flat_map f l).
Proof.
  induction l as [|a l IH]; intros Hl; cbn; [constructor|].
  pose proof (Hl a (or_introl eq_refl)) as Ha.
  assert (IH' : Forall2 R (filter P l) (flat_map f l)) by (apply IH; intros x Hx; apply Hl; right; exact Hx).
  destruct (P a).
  - destruct Ha as (b & -> & Rb). cbn. constructor; assumption.
  - rewrite Ha. exact IH'.
Qed.

Lemma Forall2_imp {A B} (R R' : A -> B -> Prop) l l' :
  (forall a b, R a b -> R' a b) -> Forall2 R l l' -> Forall2 R' l l'.
Proof. intros HR. induction 1; constructor; auto. Qed.

Lemma Forall2_join {A B C} (R1 : A -> B -> Prop) (R2 : A -> C -> Prop) l a b :
  Forall2 R1 l a -> Forall2 R2 l b -> Forall2 (fun x y => exists e, In e l /\ R1 e x /\ R2 e y) a b.
Proof.
  intros H1; revert b; induction H1 as [|e x l a Hx _ IH]; intros b H2; inversion H2; subst; [constructor|].
  constructor.
  - exists e. split; [left; reflexivity|split; assumption].
  - eapply Forall2_imp; [|apply IH; eassumption]. intros u v (e' & Hin & A1 & A2). exists e'. split; [right; exact Hin|split; assumption].
Qed.

Lemma path_eqb_sym p q : path_eqb p q = path_eqb q p.
Proof.
  destruct (path_eqb p q) eqn:E1.
  - apply path_eqb_eq in E1. subst. symmetry. apply path_eqb_refl.
  - destruct (path_eqb q p) eqn:E2; [|reflexivity]. apply path_eqb_eq in E2. subst. rewrite path_eqb_refl in E1. discriminate.
Qed.

(* ================================================================== *)
(* A. to_dict(view_override) with the delta view                        *)
(* ================================================================== *)
Definition direct_view3 conv ops (x : run_ctx) (vw : view3) (verbose : nat) (tree : list entry) : view3_result :=
  match vw with
  | V3Tree => R3Tree tree
  | V3Text => R3Text (text_view verbose tree)
  | V3Delta => delta_of conv ops x tree
  end.

Theorem to_dict3_override conv ops x own ov verbose raw :
  let tree := if c_rep x then raw else mutual raw in
  to_dict3 conv ops x own ov verbose tree = direct_view3 conv ops x (match ov with Some v => v | None => own end) verbose tree.
Proof.
  cbv zeta. unfold to_dict3, get_view_results3, direct_view3. destruct (c_rep x); [reflexivity|].
  rewrite mutual_idem. reflexivity.
Qed.

(* ================================================================== *)
(* B. the payload categories as projections of the tree                 *)
(* ================================================================== *)
Section Payload.
Variable conv : ty -> value -> option value.
Variable ops : path -> list value -> list value -> list opcode.
Variables t1 t2 : value.
Variable rec : list path.
Notation dl es := (to_delta conv false false ops t1 t2 es rec).

Definition new_path_rel (e : entry) (np : option path) : Prop :=
  (np = None /\ render (ep1 e) = render (ep2 e)) \/ (np = Some (norm (ep2 e)) /\ render (ep1 e) <> render (ep2 e)).

Lemma new_path_opt_rel e : new_path_rel e (new_path_opt e).
Proof.
  unfold new_path_rel, new_path_opt, npath. destruct (pystr_eqb (render (ep1 e)) (render (ep2 e))) eqn:E.
  - left. split; [reflexivity|apply pystr_eqb_eq; exact E].
  - right. split; [reflexivity|]. intros Hr. apply pystr_eqb_eq in Hr. congruence.
Qed.

Definition dv_ok (e : entry) (c : vchange) : Prop :=
  vc_path c = norm (ep1 e) /\ vc_new c = opt_val (et2 e) /\ vc_old c = None /\ new_path_rel e (vc_new_path c).

Theorem delta_val es : Forall2 dv_ok (filter (is_kind KValue) es) (d_val (dl es)).
Proof.
  cbn [to_delta d_val]. apply Forall2_flat_filter. intros e _. unfold is_kind.
  destruct (ekind e); cbn; try reflexivity.
  eexists. split; [reflexivity|]. repeat split. apply new_path_opt_rel.
Qed.

(* a type change carries its new value unless new_type(old_value) == new_value *)
Definition dt_ok (e : entry) (c : tchange) : Prop :=
  let a := opt_val (et1 e) in let b := opt_val (et2 e) in
  tc_path c = norm (ep1 e) /\ tc_old_ty c = type_of a /\ tc_new_ty c = type_of b /\ tc_old c = None /\
  new_path_rel e (tc_new_path c) /\
  (tc_new c = None \/ tc_new c = Some b) /\
  (tc_new c = None <-> exists a', conv (type_of b) a = Some a' /\ py_eqv a' b = true).

Theorem delta_type es : Forall2 dt_ok (filter (is_kind KType) es) (d_type (dl es)).
Proof.
  cbn [to_delta d_type]. apply Forall2_flat_filter. intros e _. unfold is_kind.
  destruct (ekind e); cbn; try reflexivity.
  eexists. split; [reflexivity|]. unfold dt_ok. cbn [tc_path tc_old_ty tc_new_ty tc_old tc_new tc_new_path].
  split; [reflexivity|]. split; [reflexivity|]. split; [reflexivity|].
  fold (opt_val (et1 e)). fold (opt_val (et2 e)).
  destruct (conv (type_of (opt_val (et2 e))) (opt_val (et1 e))) as [a'|] eqn:C.
  - destruct (py_eqv a' (opt_val (et2 e))) eqn:P; cbn.
    + split; [reflexivity|]. split; [apply new_path_opt_rel|]. split; [left; reflexivity|].
      split; [intros _; exists a'; split; [reflexivity|exact P]|reflexivity].
    + split; [reflexivity|]. split; [apply new_path_opt_rel|]. split; [right; reflexivity|].
      split; [discriminate|]. intros (a'' & E & P'). inversion E; subst. congruence.
  - cbn. split; [reflexivity|]. split; [apply new_path_opt_rel|]. split; [right; reflexivity|].
    split; [discriminate|]. intros (a'' & E & _). discriminate E.
Qed.

Definition pv2 (e : entry) (pv : path * value) : Prop := pv = (norm (ep1 e), opt_val (et2 e)).
Definition pv1 (e : entry) (pv : path * value) : Prop := pv = (norm (ep1 e), opt_val (et1 e)).

Theorem delta_dadd es : Forall2 pv2 (filter (is_kind KDictAdd) es) (d_dadd (dl es)).
Proof.
  cbn [to_delta d_dadd]. apply Forall2_flat_filter. intros e _. unfold is_kind.
  destruct (ekind e); cbn; try reflexivity. eexists. split; reflexivity.
Qed.
Theorem delta_drem es : Forall2 pv1 (filter (is_kind KDictRem) es) (d_drem (dl es)).
Proof.
  cbn [to_delta d_drem]. apply Forall2_flat_filter. intros e _. unfold is_kind.
  destruct (ekind e); cbn; try reflexivity. eexists. split; reflexivity.
Qed.

(* iterable items: those whose list has recorded opcodes are carried by the opcodes *)
Definition by_items (e : entry) : bool := negb (in_paths (removelast (ep1 e)) rec).

Theorem delta_iadd es :
  Forall2 pv2 (filter (fun e => is_kind KIterAdd e && by_items e) es) (d_iadd (dl es)).
Proof.
  cbn [to_delta d_iadd]. apply Forall2_flat_filter. intros e _. unfold is_kind, by_items.
  destruct (ekind e); cbn; try reflexivity.
  destruct (in_paths (removelast (ep1 e)) rec); cbn; [reflexivity|]. eexists. split; reflexivity.
Qed.
Theorem delta_irem es :
  Forall2 pv1 (filter (fun e => is_kind KIterRem e && by_items e) es) (d_irem (dl es)).
Proof.
  cbn [to_delta d_irem]. apply Forall2_flat_filter. intros e _. unfold is_kind, by_items.
  destruct (ekind e); cbn; try reflexivity.
  destruct (in_paths (removelast (ep1 e)) rec); cbn; [reflexivity|]. eexists. split; reflexivity.
Qed.
Theorem delta_moved es :
  Forall2 (fun e m => m = (norm (ep1 e), norm (ep2 e), opt_val (et2 e)))
          (filter (fun e => is_kind KIterMoved e && by_items e) es) (d_moved (dl es)).
Proof.
  cbn [to_delta d_moved]. apply Forall2_flat_filter. intros e _. unfold is_kind, by_items.
  destruct (ekind e); cbn; try reflexivity.
  destruct (in_paths (removelast (ep1 e)) rec); cbn; [reflexivity|]. eexists. split; reflexivity.
Qed.
(* one opcode list per recorded list, in the order recorded *)
Theorem delta_ops_paths es : map fst (d_ops (dl es)) = map norm rec.
Proof. cbn [to_delta d_ops]. rewrite map_map. reflexivity. Qed.

(* ---- set items: grouped per set ---- *)
Lemma set_members_group p q a l x :
  In x (set_members p (group_add q a l)) <-> In x (set_members p l) \/ (q = p /\ x = a).
Proof.
  induction l as [|[q0 xs] l IH]; cbn [group_add set_members flat_map fst snd].
  - destruct (path_eqb q p) eqn:E; cbn.
    + apply path_eqb_eq in E. subst. split; [intros [<-|[]]; right; split; reflexivity|intros [[]|[_ ->]]; left; reflexivity].
    + split; [intros []|]. intros [[]|[-> _]]. rewrite path_eqb_refl in E. discriminate.
  - destruct (path_eqb q q0) eqn:E.
    + apply path_eqb_eq in E. subst q0. cbn [flat_map fst snd]. fold (set_members p l).
      destruct (path_eqb q p) eqn:E'.
      * apply path_eqb_eq in E'. subst. rewrite !in_app_iff. cbn. intuition (subst; auto).
      * rewrite in_app_iff. split; [tauto|]. intros [Hx|[-> _]]; [exact Hx|]. rewrite path_eqb_refl in E'. discriminate.
    + cbn [flat_map fst snd]. fold (set_members p l). fold (set_members p (group_add q a l)).
      rewrite !in_app_iff, IH. tauto.
Qed.

Lemma set_fold_members (sel : entry -> option atom) p x es acc :
  In x (set_members p (fold_left (fun acc e => match sel e with Some a => group_add (npath (ep1 e)) a acc | None => acc end) es acc))
  <-> In x (set_members p acc) \/ exists e, In e es /\ sel e = Some x /\ norm (ep1 e) = p.
Proof.
  revert acc; induction es as [|e es IH]; intros acc; cbn [fold_left].
  - split; [tauto|]. intros [Hx|(e & [] & _)]. exact Hx.
  - rewrite IH. destruct (sel e) as [a|] eqn:S.
    + rewrite set_members_group. unfold npath. split.
      * intros [[Hx|[Ep ->]]|(e' & He' & Se' & Ep')]; [left; exact Hx| |].
        -- right. exists e. repeat split; [left; reflexivity|exact S|exact Ep].
        -- right. exists e'. repeat split; [right; exact He'|exact Se'|exact Ep'].
      * intros [Hx|(e' & [<-|He'] & Se' & Ep')]; [left; left; exact Hx| |].
        -- left. right. split; [exact Ep'|congruence].
        -- right. exists e'. repeat split; assumption.
    + split.
      * intros [Hx|(e' & He' & Se' & Ep')]; [left; exact Hx|]. right. exists e'. repeat split; [right; exact He'|exact Se'|exact Ep'].
      * intros [Hx|(e' & [<-|He'] & Se' & Ep')]; [left; exact Hx|congruence|]. right. exists e'. repeat split; assumption.
Qed.

Theorem delta_sadd es p x :
  In x (set_members p (d_sadd (dl es))) <->
  exists e, In e es /\ ekind e = KSetAdd /\ et2 e = Some (VAtom x) /\ norm (ep1 e) = p.
Proof.
  cbn [to_delta d_sadd].
  pose proof (set_fold_members (fun e => match ekind e, et2 e with KSetAdd, Some (VAtom a) => Some a | _, _ => None end) p x es []) as F.
  cbn [set_members flat_map] in F.
  assert (E : forall acc, fold_left (fun acc e => match ekind e, et2 e with KSetAdd, Some (VAtom a) => group_add (npath (ep1 e)) a acc | _, _ => acc end) es acc
            = fold_left (fun acc e => match (match ekind e, et2 e with KSetAdd, Some (VAtom a) => Some a | _, _ => None end) with
                                      | Some a => group_add (npath (ep1 e)) a acc | None => acc end) es acc).
  { clear F. induction es as [|e es IH]; intros acc; cbn [fold_left]; [reflexivity|]. rewrite IH. f_equal.
    destruct (ekind e); try reflexivity. destruct (et2 e) as [[a| | | | |]|]; reflexivity. }
  rewrite E, F. split.
  - intros [[]|(e & He & Se & Ep)]. exists e. split; [exact He|].
    destruct (ekind e); try discriminate Se. destruct (et2 e) as [[a| | | | |]|]; try discriminate Se. inversion Se; subst. repeat split; auto.
  - intros (e & He & K & T & Ep). right. exists e. split; [exact He|]. rewrite K, T. split; [reflexivity|exact Ep].
Qed.

Theorem delta_srem es p x :
  In x (set_members p (d_srem (dl es))) <->
  exists e, In e es /\ ekind e = KSetRem /\ et1 e = Some (VAtom x) /\ norm (ep1 e) = p.
Proof.
  cbn [to_delta d_srem].
  pose proof (set_fold_members (fun e => match ekind e, et1 e with KSetRem, Some (VAtom a) => Some a | _, _ => None end) p x es []) as F.
  cbn [set_members flat_map] in F.
  assert (E : forall acc, fold_left (fun acc e => match ekind e, et1 e with KSetRem, Some (VAtom a) => group_add (npath (ep1 e)) a acc | _, _ => acc end) es acc
            = fold_left (fun acc e => match (match ekind e, et1 e with KSetRem, Some (VAtom a) => Some a | _, _ => None end) with
                                      | Some a => group_add (npath (ep1 e)) a acc | None => acc end) es acc).
  { clear F. induction es as [|e es IH]; intros acc; cbn [fold_left]; [reflexivity|]. rewrite IH. f_equal.
    destruct (ekind e); try reflexivity. destruct (et1 e) as [[a| | | | |]|]; reflexivity. }
  rewrite E, F. split.
  - intros [[]|(e & He & Se & Ep)]. exists e. split; [exact He|].
    destruct (ekind e); try discriminate Se. destruct (et1 e) as [[a| | | | |]|]; try discriminate Se. inversion Se; subst. repeat split; auto.
  - intros (e & He & K & T & Ep). right. exists e. split; [exact He|]. rewrite K, T. split; [reflexivity|exact Ep].
Qed.

(* ================================================================== *)
(* C. the same changes as the text view                                 *)
(* ================================================================== *)
(* the entries of one category of the text view are the projections of the
   levels of that report type, in order *)
Lemma kind_of_cat k c e t : kind_cat k = Some c -> kind_cat (ekind e) = Some (tcat t) ->
  cat_eqb (tcat t) c = is_kind k e.
Proof.
  unfold is_kind. intros Hk. destruct k; inversion Hk; subst c; destruct (ekind e); cbn; intros He; inversion He as [Ht]; reflexivity.
Qed.

Theorem text_cat verbose k c es :
  kind_cat k = Some c -> Forall shape_ok es ->
  Forall2 (describes verbose) (filter (fun e => is_kind k e && visible verbose e) es) (in_cat c (text_view verbose es)).
Proof.
  intros Hk HS. induction HS as [|e es S _ IH]; cbn [filter]; [constructor|].
  change (text_view verbose (e :: es)) with (text_of verbose e ++ text_view verbose es)%list.
  unfold in_cat in *. rewrite filter_app.
  pose proof (text_of_visible verbose e S) as Hv. destruct (visible verbose e).
  - destruct Hv as (t & -> & D). cbn [filter]. destruct D as (D1 & D2). pose proof D1 as D1'.
    rewrite (kind_of_cat k c e t Hk D1). rewrite andb_true_r. destruct (is_kind k e); cbn [app].
    + constructor; [split; assumption|exact IH].
    + exact IH.
  - rewrite Hv. rewrite andb_false_r. cbn. exact IH.
Qed.

Lemma filter_and_true {A} (P Q : A -> bool) l : (forall a, P a = true -> Q a = true) ->
  filter (fun a => P a && Q a) l = filter P l.
Proof.
  intros HQ. induction l as [|a l IH]; cbn; [reflexivity|]. destruct (P a) eqn:E; cbn; [rewrite (HQ a E)|]; rewrite IH; reflexivity.
Qed.

Lemma visible2_kind k e : k <> KRepetition -> is_kind k e = true -> visible 2 e = true.
Proof. unfold is_kind, visible. intros Hk. destruct k, (ekind e); cbn; try discriminate; try reflexivity. congruence. Qed.

(* values_changed: same path, same new value, new_path on both or on neither *)
Theorem delta_text_values es : Forall shape_ok es ->
  Forall2 (fun t c => exists ks ks2, tpath t = render ks /\ vc_path c = norm ks /\ tnew t = Some (vc_new c) /\
                        ((tnewpath t = None /\ vc_new_path c = None) \/
                         (tnewpath t = Some (render ks2) /\ vc_new_path c = Some (norm ks2))))
          (in_cat CValue (text_view 2 es)) (d_val (dl es)).
Proof.
  intros HS. pose proof (text_cat 2 KValue CValue es eq_refl HS) as T.
  rewrite (filter_and_true (is_kind KValue) (visible 2)) in T by (intros a; apply visible2_kind; discriminate).
  eapply Forall2_imp; [|exact (Forall2_join _ _ _ _ _ T (delta_val es))].
  intros t c (e & He & (D1 & D2 & D3) & (V1 & V2 & V3 & V4)).
  apply filter_In in He as [He Kb]. unfold is_kind in Kb.
  assert (K : ekind e = KValue) by (destruct (ekind e); try discriminate Kb; reflexivity).
  rewrite Forall_forall in HS. pose proof (HS e He) as Se. unfold shape_ok in Se.
  rewrite K in *. unfold epath in D2. rewrite K in D2. destruct D3 as (O & N & _ & NP). destruct Se as [S1 S2].
  exists (ep1 e), (ep2 e). split; [exact D2|]. split; [exact V1|]. split.
  - rewrite N, V2. destruct (et2 e); [reflexivity|congruence].
  - change (newpath_ok true e (tnewpath t)) in NP. unfold newpath_ok in NP. unfold new_path_rel in V4.
    destruct NP as [[NP1 NP2]|[NP1 NP2]], V4 as [[W1 W2]|[W1 W2]].
    + left; split; assumption.
    + exfalso. exact (W2 NP2).
    + exfalso. exact (NP2 W2).
    + right; split; assumption.
Qed.

(* dictionary_item_added / removed at verbose 2: same path, same value *)
Theorem delta_text_dadd es : Forall shape_ok es ->
  Forall2 (fun t pv => exists ks, tpath t = render ks /\ fst pv = norm ks /\ tnew t = Some (snd pv))
          (in_cat CDictAdd (text_view 2 es)) (d_dadd (dl es)).
Proof.
  intros HS. pose proof (text_cat 2 KDictAdd CDictAdd es eq_refl HS) as T.
  rewrite (filter_and_true (is_kind KDictAdd) (visible 2)) in T by (intros a; apply visible2_kind; discriminate).
  eapply Forall2_imp; [|exact (Forall2_join _ _ _ _ _ T (delta_dadd es))].
  intros t pv (e & He & (D1 & D2 & D3) & ->).
  apply filter_In in He as [He Kb]. unfold is_kind in Kb.
  assert (K : ekind e = KDictAdd) by (destruct (ekind e); try discriminate Kb; reflexivity).
  rewrite Forall_forall in HS. pose proof (HS e He) as Se. unfold shape_ok in Se.
  rewrite K in *. unfold epath in D2. rewrite K in D2. destruct D3 as (_ & N). cbn in N.
  exists (ep1 e). cbn [fst snd]. repeat split; [exact D2|]. rewrite N. destruct (et2 e); [reflexivity|congruence].
Qed.
Theorem delta_text_drem es : Forall shape_ok es ->
  Forall2 (fun t pv => exists ks, tpath t = render ks /\ fst pv = norm ks /\ told t = Some (snd pv))
          (in_cat CDictRem (text_view 2 es)) (d_drem (dl es)).
Proof.
  intros HS. pose proof (text_cat 2 KDictRem CDictRem es eq_refl HS) as T.
  rewrite (filter_and_true (is_kind KDictRem) (visible 2)) in T by (intros a; apply visible2_kind; discriminate).
  eapply Forall2_imp; [|exact (Forall2_join _ _ _ _ _ T (delta_drem es))].
  intros t pv (e & He & (D1 & D2 & D3) & ->).
  apply filter_In in He as [He Kb]. unfold is_kind in Kb.
  assert (K : ekind e = KDictRem) by (destruct (ekind e); try discriminate Kb; reflexivity).
  rewrite Forall_forall in HS. pose proof (HS e He) as Se. unfold shape_ok in Se.
  rewrite K in *. unfold epath in D2. rewrite K in D2. destruct D3 as (_ & N). cbn in N.
  exists (ep1 e). cbn [fst snd]. repeat split; [exact D2|]. rewrite N. destruct (et1 e); [reflexivity|congruence].
Qed.

(* type_changes: same path, same types; the delta omits the values exactly
   when the constructor call reproduces the new value *)
Theorem delta_text_types es : Forall shape_ok es ->
  Forall2 (fun t c => exists ks, tpath t = render ks /\ tc_path c = norm ks /\
                        ttypes t = Some (tc_old_ty c, tc_new_ty c) /\
                        (tc_new c = None \/ tc_new c = tnew t))
          (in_cat CType (text_view 2 es)) (d_type (dl es)).
Proof.
  intros HS. pose proof (text_cat 2 KType CType es eq_refl HS) as T.
  rewrite (filter_and_true (is_kind KType) (visible 2)) in T by (intros a; apply visible2_kind; discriminate).
  eapply Forall2_imp; [|exact (Forall2_join _ _ _ _ _ T (delta_type es))].
  intros t c (e & He & (D1 & D2 & D3) & V). cbv zeta in V. destruct V as (V1 & V2 & V3 & _ & _ & V6 & _).
  apply filter_In in He as [He Kb]. unfold is_kind in Kb.
  assert (K : ekind e = KType) by (destruct (ekind e); try discriminate Kb; reflexivity).
  rewrite Forall_forall in HS. pose proof (HS e He) as Se. unfold shape_ok in Se.
  rewrite K in *. unfold epath in D2. rewrite K in D2. destruct D3 as (TY & (O & N) & _). destruct Se as [S1 S2].
  destruct (et1 e) as [a|] eqn:E1; [|congruence]. destruct (et2 e) as [b|] eqn:E2; [|congruence].
  exists (ep1 e). split; [exact D2|]. split; [exact V1|]. split.
  - cbn in V2, V3, TY. rewrite V2, V3. destruct (ttypes t) as [[x y]|]; cbn in TY; [|discriminate].
    inversion TY; subst. reflexivity.
  - cbn in N, V6. destruct V6 as [V6|V6]; [left; exact V6|right]. rewrite V6, N. reflexivity.
Qed.
End Payload.

(* ================================================================== *)
(* D. ignore_order: the index maps                                      *)
(* ================================================================== *)
Lemma imap_get_set m i v j : imap_get (imap_set m i v) j = if Nat.eqb j i then Some v else imap_get m j.
Proof.
  induction m as [|[k w] m IH]; cbn [imap_set imap_get].
  - rewrite (Nat.eqb_sym i j). reflexivity.
  - destruct (Nat.eqb_spec k i) as [->|Hki]; cbn [imap_get].
    + rewrite (Nat.eqb_sym i j). destruct (Nat.eqb j i); reflexivity.
    + destruct (Nat.eqb_spec k j) as [Ekj|Hkj].
      * destruct (Nat.eqb_spec j i) as [Eji|_]; [exfalso; apply Hki; congruence|reflexivity].
      * exact IH.
Qed.

Lemma pmap_get_set l p i v q :
  pmap_get (pmap_set l p i v) q = if path_eqb q p then imap_set (pmap_get l p) i v else pmap_get l q.
Proof.
  unfold pmap_get. induction l as [|[q0 m] l IH]; cbn [pmap_set find fst snd].
  - rewrite (path_eqb_sym p q). destruct (path_eqb q p); reflexivity.
  - destruct (path_eqb p q0) eqn:E; cbn [find fst snd].
    + apply path_eqb_eq in E. subst q0. rewrite (path_eqb_sym p q), path_eqb_refl.
      destruct (path_eqb q p) eqn:E'; reflexivity.
    + destruct (path_eqb q0 q) eqn:E'.
      * apply path_eqb_eq in E'. subst q0. rewrite (path_eqb_sym q p), E. reflexivity.
      * rewrite (path_eqb_sym q0 p), E. exact IH.
Qed.

Section IOMaps.
Variable conv : ty -> value -> option value.
Variables t1 t2 : value.

Definition item_val (e : entry) : value := match et2 e with Some v => v | None => oval (et1 e) end.

Lemma fold_map_spec (k : rkind) es acc p i v :
  imap_get (pmap_get (fold_left (fun acc e => if rkind_eqb (ekind e) k
                                              then pmap_set acc (npath (removelast (ep1 e))) (last_idx (ep1 e)) (item_val e)
                                              else acc) es acc) p) i = Some v ->
  imap_get (pmap_get acc p) i = Some v \/
  exists e, In e es /\ ekind e = k /\ norm (removelast (ep1 e)) = p /\ last_idx (ep1 e) = i /\ v = item_val e.
Proof.
  revert acc; induction es as [|e es IH]; intros acc; cbn [fold_left]; [intros Hg; left; exact Hg|].
  intros Hg. apply IH in Hg as [Hg|(e' & He' & R)]; [|right; exists e'; split; [right; exact He'|exact R]].
  destruct (rkind_eqb (ekind e) k) eqn:K; [|left; exact Hg].
  rewrite pmap_get_set in Hg. destruct (path_eqb p (npath (removelast (ep1 e)))) eqn:E; [|left; exact Hg].
  apply path_eqb_eq in E. rewrite imap_get_set in Hg. destruct (Nat.eqb i (last_idx (ep1 e))) eqn:E2.
  - right. exists e. apply Nat.eqb_eq in E2. inversion Hg; subst.
    split; [left; reflexivity|]. split; [destruct (ekind e), k; try discriminate K; reflexivity|]. repeat split.
  - left. subst p. exact Hg.
Qed.

Lemma fold_map_has (k : rkind) es acc e :
  In e es -> ekind e = k ->
  imap_get (pmap_get (fold_left (fun acc e => if rkind_eqb (ekind e) k
                                              then pmap_set acc (npath (removelast (ep1 e))) (last_idx (ep1 e)) (item_val e)
                                              else acc) es acc) (norm (removelast (ep1 e)))) (last_idx (ep1 e)) <> None.
Proof.
  assert (Keep : forall es acc p i, imap_get (pmap_get acc p) i <> None ->
            imap_get (pmap_get (fold_left (fun acc e => if rkind_eqb (ekind e) k
                                              then pmap_set acc (npath (removelast (ep1 e))) (last_idx (ep1 e)) (item_val e)
                                              else acc) es acc) p) i <> None).
  { clear. induction es as [|e es IH]; intros acc p i Hn; cbn [fold_left]; [exact Hn|]. apply IH.
    destruct (rkind_eqb (ekind e) k); [|exact Hn]. rewrite pmap_get_set.
    destruct (path_eqb p (npath (removelast (ep1 e)))) eqn:E; [|exact Hn]. apply path_eqb_eq in E. subst p.
    rewrite imap_get_set. destruct (Nat.eqb i (last_idx (ep1 e))); [discriminate|exact Hn]. }
  revert acc; induction es as [|e0 es IH]; intros acc Hin K; [destruct Hin|]. destruct Hin as [<-|He]; cbn [fold_left].
  - apply Keep. rewrite K. assert (R : rkind_eqb k k = true) by (destruct k; reflexivity). rewrite R.
    rewrite pmap_get_set. unfold npath. rewrite path_eqb_refl, imap_get_set, Nat.eqb_refl. discriminate.
  - apply IH; assumption.
Qed.

Lemma removed_fold_eq es acc :
  fold_left (fun acc e => match ekind e with
      | KIterRem => pmap_set acc (npath (removelast (ep1 e))) (last_idx (ep1 e)) (match et2 e with Some v => v | None => oval (et1 e) end)
      | _ => acc end) es acc
  = fold_left (fun acc e => if rkind_eqb (ekind e) KIterRem
                            then pmap_set acc (npath (removelast (ep1 e))) (last_idx (ep1 e)) (item_val e) else acc) es acc.
Proof. revert acc; induction es as [|e es IH]; intros acc; cbn [fold_left]; [reflexivity|]. rewrite IH. destruct (ekind e); reflexivity. Qed.
Lemma added_fold_eq es acc :
  fold_left (fun acc e => match ekind e with
      | KIterAdd => pmap_set acc (npath (removelast (ep1 e))) (last_idx (ep1 e)) (match et2 e with Some v => v | None => oval (et1 e) end)
      | _ => acc end) es acc
  = fold_left (fun acc e => if rkind_eqb (ekind e) KIterAdd
                            then pmap_set acc (npath (removelast (ep1 e))) (last_idx (ep1 e)) (item_val e) else acc) es acc.
Proof. revert acc; induction es as [|e es IH]; intros acc; cbn [fold_left]; [reflexivity|]. rewrite IH. destruct (ekind e); reflexivity. Qed.

(* iterable_items_removed_at_indexes holds exactly the removed levels *)
Theorem io_removed_sound es reps p i v :
  imap_get (pmap_get (io_removed (to_delta_io conv false false t1 t2 es reps)) p) i = Some v ->
  exists e, In e es /\ ekind e = KIterRem /\ norm (removelast (ep1 e)) = p /\ last_idx (ep1 e) = i /\ v = item_val e.
Proof.
  cbn [to_delta_io io_removed]. rewrite removed_fold_eq. intros Hg. apply fold_map_spec in Hg as [Hg|Hg]; [discriminate Hg|exact Hg].
Qed.
Theorem io_removed_complete es reps e :
  In e es -> ekind e = KIterRem ->
  imap_get (pmap_get (io_removed (to_delta_io conv false false t1 t2 es reps)) (norm (removelast (ep1 e)))) (last_idx (ep1 e)) <> None.
Proof. cbn [to_delta_io io_removed]. rewrite removed_fold_eq. apply fold_map_has. Qed.

(* iterable_items_added_at_indexes: the added levels, and for every
   repetition_change level its value at each of the record's new indexes *)
Lemma rep_fold_spec reps es acc p i v :
  imap_get (pmap_get (fold_left (fun acc e => match ekind e with
      | KRepetition =>
          match find (fun r => path_eqb (rpath r) (ep1 e)) reps with
          | Some r => fold_left (fun a i => pmap_set a (npath (removelast (ep1 e))) i (oval (et1 e))) (rnew r) acc
          | None => acc
          end
      | _ => acc end) es acc) p) i = Some v ->
  imap_get (pmap_get acc p) i = Some v \/
  exists e r, In e es /\ ekind e = KRepetition /\ In r reps /\ rpath r = ep1 e /\
              norm (removelast (ep1 e)) = p /\ In i (rnew r) /\ v = oval (et1 e).
Proof.
  assert (Inner : forall q w l a, imap_get (pmap_get (fold_left (fun a i => pmap_set a q i w) l a) p) i = Some v ->
            imap_get (pmap_get a p) i = Some v \/ (q = p /\ In i l /\ v = w)).
  { clear. intros q w l. induction l as [|j l IH]; intros a; cbn [fold_left]; [intros Hg; left; exact Hg|].
    intros Hg. apply IH in Hg as [Hg|(A & B & C)]; [|right; repeat split; [exact A|right; exact B|exact C]].
    rewrite pmap_get_set in Hg. destruct (path_eqb p q) eqn:E; [|left; exact Hg]. apply path_eqb_eq in E. subst q.
    rewrite imap_get_set in Hg. destruct (Nat.eqb i j) eqn:E2; [|left; exact Hg].
    apply Nat.eqb_eq in E2. subst j. inversion Hg; subst. right. repeat split. left. reflexivity. }
  revert acc; induction es as [|e es IH]; intros acc; cbn [fold_left]; [intros Hg; left; exact Hg|].
  intros Hg. apply IH in Hg as [Hg|(e' & r & He' & R)]; [|right; exists e', r; split; [right; exact He'|exact R]].
  destruct (ekind e) eqn:K; try (left; exact Hg).
  destruct (find (fun r => path_eqb (rpath r) (ep1 e)) reps) as [r|] eqn:F; [|left; exact Hg].
  apply Inner in Hg as [Hg|(A & B & C)]; [left; exact Hg|]. right. exists e, r.
  apply find_some in F as [F1 F2]. apply path_eqb_eq in F2.
  split; [left; reflexivity|]. split; [exact K|]. split; [exact F1|]. split; [exact F2|]. split; [exact A|]. split; assumption.
Qed.

Theorem io_added_sound es reps p i v :
  imap_get (pmap_get (io_added (to_delta_io conv false false t1 t2 es reps)) p) i = Some v ->
  (exists e, In e es /\ ekind e = KIterAdd /\ norm (removelast (ep1 e)) = p /\ last_idx (ep1 e) = i /\ v = item_val e) \/
  (exists e r, In e es /\ ekind e = KRepetition /\ In r reps /\ rpath r = ep1 e /\
               norm (removelast (ep1 e)) = p /\ In i (rnew r) /\ v = oval (et1 e)).
Proof.
  cbn [to_delta_io io_added]. intros Hg. apply rep_fold_spec in Hg as [Hg|Hg]; [left|right; exact Hg].
  rewrite added_fold_eq in Hg. apply fold_map_spec in Hg as [Hg|Hg]; [discriminate Hg|exact Hg].
Qed.
End IOMaps.

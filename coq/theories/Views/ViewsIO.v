(** C10, finding C10-repetition-t2-index in the ignore-order model
    (DiffIO/DiffIOModel.v): with report_repetition=True the t2-side key
    sequence of a level below a list with repeated items does not lead to the
    level's t2 object.  Witnesses evaluated in the model with the pairing the
    implementation uses; replayed on the implementation by harness/props/c10.py. *)
From Coq Require Import List ZArith NArith Bool Arith.
Import ListNotations.
From DD Require Import Base.PyStr Base.Value Path.PathModel Diff.Tree Diff.DiffModel
  Hash.HashModel DiffIO.DiffIOModel.

Definition ints (l : list Z) : value := VList (map (fun z => VAtom (AInt z)) l).
Definition w_io_cfg : cfg := mkCfg false 33 100 true.
Definition w_io_run (pairs : path -> list (nat * nat)) (t1 t2 : value) : list entry :=
  fst (run_diff_io hexhash (fun _ _ => []) (fun _ => false) (fun _ => false) w_io_cfg true pairs t1 t2).

(* DeepDiff([3, 1, 2], [4, 4, 3], ignore_order=True, report_repetition=True):
   values_changed root[2]: 2 -> 4, t2-side path root[2], but t2[2] is 3 *)
Lemma io_rep_paired_leaf_refuted :
  exists e, In e (w_io_run (fun _ => [(0, 2)]) (ints [3; 1; 2]%Z) (ints [4; 4; 3]%Z)) /\
            ekind e = KValue /\ et2 e = Some (VAtom (AInt 4)) /\
            resolve (ints [4; 4; 3]%Z) (ep2 e) = Some (VAtom (AInt 3)).
Proof.
  exists (mkEntry KValue [PIdx 2] [PIdx 2] (Some (VAtom (AInt 2))) (Some (VAtom (AInt 4))) None).
  split; [vm_compute; tauto|]. repeat split.
Qed.

(* DeepDiff([4, 4, 1], [1, 4, 2], ignore_order=True, report_repetition=True):
   repetition_change root[0] with t2 = 4, but t2[0] is 1 *)
Lemma io_rep_change_leaf_refuted :
  exists e, In e (w_io_run (fun _ => []) (ints [4; 4; 1]%Z) (ints [1; 4; 2]%Z)) /\
            ekind e = KRepetition /\ et2 e = Some (VAtom (AInt 4)) /\
            resolve (ints [1; 4; 2]%Z) (ep2 e) = Some (VAtom (AInt 1)).
Proof.
  exists (mkEntry KRepetition [PIdx 0] [PIdx 0] (Some (VAtom (AInt 4))) (Some (VAtom (AInt 4))) None).
  split; [vm_compute; tauto|]. repeat split.
Qed.

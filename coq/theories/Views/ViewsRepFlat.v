(** C10 - report_repetition: the EXACT condition for the t2 side, for a list of
    scalars compared with a list of scalars (the shape of both witnesses of
    finding C10-repetition-t2-index), every hasher, every pairing oracle,
    nothing skipped.

    A level is RIGHT on the t2 side when the item of t2 at the index its t2-side
    path names carries the hash of the level's t2 object ([t2_right]).

    [flat_rep_t2_iff]: every level of the run is right on the t2 side
      IF AND ONLY IF
        (1) for every pair (added hash a, removed hash r) the run actually uses
            ([used]: the pairing oracle, filtered by the hashes still unpaired):
            a occurs exactly once in t2, or at every index of r in t1 the list t2
            holds an item with hash a; and
        (2) every hash common to both lists with different multiplicities sits,
            in t2 too, at the first index it has in t1.
    Unpaired added items and removed items are always right.  [3,1,2] -> [4,4,3]
    violates (1), [4,4,1] -> [1,4,2] violates (2) ([flat_witnesses]). *)
From Coq Require Import List ZArith NArith Bool Arith Lia.
Import ListNotations.
From DD Require Import Base.PyStr Base.Value Base.ValueFacts Path.PathModel
  Diff.Tree Diff.DiffModel Diff.DiffFacts Diff.DiffFaithful Hash.HashModel Hash.HashProofsBase
  DiffIO.DiffIOModel DiffIO.DiffIOProofs Views.ViewsChains Views.ViewsIOChains Views.ViewsRep Views.ViewsRep2.

Definition noskip (_ : path) : bool := false.

Lemma resolve_idx Y j : resolve (VList Y) [PIdx j] = nth_error Y j.
Proof. cbn [resolve]. rewrite get_item_idx_list. destruct (nth_error Y j); reflexivity. Qed.

Lemma Forall_or_all {A} (P : Prop) (Q : A -> Prop) (l : list A) :
  P \/ ~ P -> ((forall i, In i l -> P \/ Q i) <-> (P \/ forall i, In i l -> Q i)).
Proof.
  intros D. split.
  - intros HA. destruct D as [p|np]; [left; exact p|right]. intros i Hi. destruct (HA i Hi) as [p|q]; [contradiction|exact q].
  - intros [p|HQ] i Hi; [left; exact p|right; apply HQ; exact Hi].
Qed.

Section Flat.
Variable H : pystr -> pystr.
Variable udiff : pystr -> pystr -> pystr.
Variable excl : path -> bool.
Variable c : cfg.
Variable pairs : path -> list (nat * nat).
Variables xs ys : list atom.

Notation X := (map VAtom xs).
Notation Y := (map VAtom ys).
Notation hvv := (hv H c true).
Notation hh1 := (h1 H c true X).
Notation hh2 := (h2 H c true Y).
Notation dio := (diff_io H udiff noskip excl c true pairs).
Notation recs := (map dio X).
Notation is_ r := (indexes_of r hh1 0).
Notation js a := (indexes_of a hh2 0).

Definition t2_right (e : entry) : Prop :=
  match et2 e with
  | None => True
  | Some b => exists y, resolve (VList Y) (ep2 e) = Some y /\ hvv y = hvv b
  end.

(* the pairs the loop over hashes_added uses *)
Fixpoint used (adds : list pystr) (remaining : list pystr) : list (pystr * pystr) :=
  match adds with
  | [] => []
  | a :: adds' =>
      match partner H c true pairs X Y [] a remaining with
      | Some r => (a, r) :: used adds' (remove_h r remaining)
      | None => used adds' remaining
      end
  end.

Definition cond1 (a r : pystr) : Prop := length (js a) = 1 \/ forall i, In i (is_ r) -> In i (js a).
Definition cond2 (h : pystr) : Prop := length (is_ h) <> length (js h) -> In (first_of (is_ h)) (js h).
Definition flat_guard : Prop :=
  (forall a r, In (a, r) (used (hashes_added H c true X Y) (hashes_removed H c true X Y)) -> cond1 a r) /\
  (forall h, In h (filter (fun h => mem_h h (t1_hashes H c true X)) (t2_hashes H c true Y)) -> cond2 h).

(* ---- the levels of two different scalars ---- *)
Lemma atom_levels a b p1 p2 :
  hvv (VAtom a) <> hvv (VAtom b) ->
  fst (dio (VAtom a) (VAtom b) p1 p2) <> [] /\
  Forall (fun e => ep2 e = p2 /\ et2 e = Some (VAtom b)) (fst (dio (VAtom a) (VAtom b) p1 p2)).
Proof.
  intros Hne. rewrite (dio_atom H udiff noskip excl c true pairs) by reflexivity.
  destruct (negb (ty_eqb (atom_ty a) (atom_ty b))) eqn:T; cbn [fst].
  - unfold report, noskip. split; [discriminate|]. constructor; [split; reflexivity|constructor].
  - split.
    + intros Hn. apply (diff_atom_nil udiff) in Hn. subst b. apply Hne. reflexivity.
    + unfold diff_atom, noskip. rewrite T.
      destruct a, b; unfold report; try (destruct (py_eq _ _); [constructor|constructor; [split; reflexivity|constructor]]).
      * destruct (diff_str udiff false s s0) as [ch d]. destruct ch; [constructor; [split; reflexivity|constructor]|constructor].
      * destruct (diff_str udiff true s s0) as [ch d]. destruct ch; [constructor; [split; reflexivity|constructor]|constructor].
Qed.

Lemma item_Y j y : nth_error Y j = Some y -> exists b, y = VAtom b.
Proof. intros Hn. apply nth_error_map_inv in Hn as (b & _ & <-). exists b. reflexivity. Qed.
Lemma item_X i x : nth_error X i = Some x -> exists a, x = VAtom a.
Proof. intros Hn. apply nth_error_map_inv in Hn as (a & _ & <-). exists a. reflexivity. Qed.

Lemma hh2_right j b : (exists y, nth_error Y j = Some y /\ hvv y = hvv b) <-> nth_error hh2 j = Some (hvv b).
Proof.
  unfold h2. split.
  - intros (y & Hy & E). rewrite (map_nth_error hvv j Y Hy). congruence.
  - intros Hn. apply nth_error_map_inv in Hn as (y & Hy & E). exists y. split; assumption.
Qed.

Lemma fold_app2_In (f : nat -> res) l e :
  In e (fst (fold_right (fun i acc => app2 (f i) acc) ([], []) l)) <-> exists i, In i l /\ In e (fst (f i)).
Proof.
  induction l as [|i l IH]; cbn [fold_right]; [cbn; split; [intros []|intros (i & [] & _)]|].
  rewrite fst_app2', in_app_iff, IH. split.
  - intros [He|(j & Hj & He)]; [exists i; split; [left; reflexivity|exact He]|exists j; split; [right; exact Hj|exact He]].
  - intros (j & [<-|Hj] & He); [left; exact He|right; exists j; split; assumption].
Qed.

(* ---- one added hash ---- *)
Lemma one_right a rem :
  In a hh2 -> ~ In a hh1 ->
  ((forall e, In e (fst (fst (added_one_rep H noskip c true pairs recs X Y [] [] a rem))) -> t2_right e) <->
   match partner H c true pairs X Y [] a rem with Some r => cond1 a r | None => True end).
Proof.
  intros Ha Na. unfold added_one_rep. cbv zeta.
  destruct (first_item2 H c Y a Ha) as (y & Hy & Ey). destruct (item_Y _ _ Hy) as (b & ->).
  destruct (partner H c true pairs X Y [] a rem) as [r|] eqn:P; cbn [fst].
  - apply partner_in_g in P as [Pr _].
    destruct (first_item1 H c X r Pr) as (x0 & Hx0 & Ex0). destruct (item_X _ _ Hx0) as (a0 & ->).
    unfold item2. rewrite Hy. unfold cond1.
    assert (Hne : hvv (VAtom a0) <> hvv (VAtom b)) by (rewrite Ex0, Ey; intros E; apply Na; rewrite <- E; exact Pr).
    rewrite <- (Forall_or_all (length (js a) = 1) (fun i => In i (js a)) (is_ r)) by (destruct (Nat.eq_dec (length (js a)) 1); [left|right]; assumption).
    split.
    + intros HR i Hi.
      apply (paired_t2_index_iff H c Y a i Ha). cbv zeta.
      set (j' := if Nat.eqb (length (js a)) 1 then first_of (js a) else i).
      rewrite <- Ey. apply hh2_right.
      rewrite (nth_rec_map_g H udiff noskip excl c true pairs _ _ _ Hx0) in HR.
      destruct (atom_levels a0 b (snoc [] (PIdx i)) (snoc [] (PIdx j')) Hne) as [NE FA].
      destruct (fst (dio (VAtom a0) (VAtom b) (snoc [] (PIdx i)) (snoc [] (PIdx j')))) as [|e0 l0] eqn:EG; [congruence|].
      inversion FA as [|? ? [E2 T2] _]; subst.
      assert (He0 : t2_right e0).
      { apply HR. apply fold_app2_In. exists i. split; [exact Hi|]. fold j'. rewrite EG. left. reflexivity. }
      unfold t2_right in He0. rewrite T2, E2 in He0. destruct He0 as (y' & Ry & Ey').
      unfold snoc in Ry. cbn [app] in Ry. rewrite resolve_idx in Ry. exists y'. split; assumption.
    + intros HC e He. apply fold_app2_In in He as (i & Hi & He).
      rewrite (nth_rec_map_g H udiff noskip excl c true pairs _ _ _ Hx0) in He.
      set (j' := if Nat.eqb (length (js a)) 1 then first_of (js a) else i) in *.
      destruct (atom_levels a0 b (snoc [] (PIdx i)) (snoc [] (PIdx j')) Hne) as [_ FA].
      rewrite Forall_forall in FA. destruct (FA e He) as [E2 T2].
      unfold t2_right. rewrite T2, E2. unfold snoc. cbn [app]. rewrite resolve_idx.
      apply hh2_right. rewrite Ey. apply (paired_t2_index_iff H c Y a i Ha). apply HC. exact Hi.
  - split; [intros _; exact I|intros _ e He]. apply in_flat_map in He as (j & Hj & He).
    unfold item2, rpt, report, noskip in He. rewrite Hy in He. destruct He as [<-|[]].
    unfold t2_right. cbn [et2 ep2]. unfold snoc. cbn [app]. rewrite resolve_idx. apply hh2_right.
    rewrite Ey. apply indexes_nth in Hj as [_ Hj]. rewrite Nat.sub_0_r in Hj. exact Hj.
Qed.

(* ---- the loop over hashes_added ---- *)
Lemma loop_right adds : forall rem,
  (forall a, In a adds -> In a hh2 /\ ~ In a hh1) ->
  ((forall e, In e (fst (fst (added_loop (added_one_rep H noskip c true pairs recs X Y [] []) adds rem))) -> t2_right e) <->
   (forall a r, In (a, r) (used adds rem) -> cond1 a r)).
Proof.
  induction adds as [|a adds IH]; intros rem HA; cbn [added_loop used].
  - cbn. split; [intros _ a r []|intros _ e []].
  - destruct (HA a (or_introl eq_refl)) as [Ha Na].
    pose proof (one_right a rem Ha Na) as O.
    assert (Snd : snd (added_one_rep H noskip c true pairs recs X Y [] [] a rem) =
                  match partner H c true pairs X Y [] a rem with Some r => remove_h r rem | None => rem end).
    { unfold added_one_rep. destruct (partner _ _ _ _ _ _ _ _ _); reflexivity. }
    destruct (added_one_rep H noskip c true pairs recs X Y [] [] a rem) as [r1 rem1] eqn:E1. cbn [fst snd] in O, Snd.
    specialize (IH rem1 (fun a' Ha' => HA a' (or_intror Ha'))).
    destruct (added_loop _ adds rem1) as [r2 rem2] eqn:E2. cbn [fst snd] in IH |- *.
    rewrite fst_app2'. split.
    + intros HR. assert (H1 : forall e, In e (fst r1) -> t2_right e) by (intros e He; apply HR, in_or_app; left; exact He).
      assert (H2 : forall e, In e (fst r2) -> t2_right e) by (intros e He; apply HR, in_or_app; right; exact He).
      apply (proj1 O) in H1. pose proof (proj1 IH H2) as H2'. clear H2. rename H2' into H2.
      destruct (partner H c true pairs X Y [] a rem) as [r|]; subst rem1.
      * intros a' r' [E|Hin]; [inversion E; subst; exact H1|apply H2; exact Hin].
      * exact H2.
    + intros HU e He. apply in_app_or in He as [He|He].
      * revert e He. apply (proj2 O). destruct (partner H c true pairs X Y [] a rem) as [r|]; [apply HU; left; reflexivity|exact I].
      * revert e He. apply (proj2 IH). destruct (partner H c true pairs X Y [] a rem) as [r|]; subst rem1.
        -- intros a' r' Hin. apply HU. right. exact Hin.
        -- exact HU.
Qed.

Lemma concat_res_In (l : list res) e : In e (fst (concat_res l)) <-> exists r, In r l /\ In e (fst r).
Proof.
  induction l as [|r l IH]; cbn; [split; [intros []|intros (r & [] & _)]|].
  rewrite in_app_iff, IH. split.
  - intros [He|(r' & Hr' & He)]; [exists r; split; [left; reflexivity|exact He]|exists r'; split; [right; exact Hr'|exact He]].
  - intros (r' & [<-|Hr'] & He); [left; exact He|right; exists r'; split; assumption].
Qed.

Lemma removed_right r e : In e (fst (removed_one_rep H noskip c true X [] [] r)) -> t2_right e.
Proof.
  unfold removed_one_rep. cbv zeta. cbn [fst]. intros He. apply in_flat_map in He as (i & _ & He).
  unfold rpt, report, noskip in He. destruct He as [<-|[]]. exact I.
Qed.

Lemma repetition_right h : In h hh1 -> In h hh2 ->
  ((forall e, In e (fst (repetition_one H noskip c true X Y [] [] h)) -> t2_right e) <-> cond2 h).
Proof.
  intros I1 I2. unfold repetition_one, cond2. cbv zeta.
  destruct (Nat.eqb_spec (length (is_ h)) (length (js h))) as [E|E].
  - cbn. split; [intros _ F; contradiction|intros _ e []].
  - unfold noskip. cbn [fst].
    destruct (first_item2 H c Y h I2) as (y & Hy & Ey). unfold item2. rewrite Hy.
    split.
    + intros HR _. specialize (HR _ (or_introl eq_refl)). unfold t2_right in HR. cbn [et2 ep2] in HR.
      destruct HR as (y' & Ry & Ey'). unfold snoc in Ry. cbn [app] in Ry. rewrite resolve_idx in Ry.
      apply (repetition_t2_index_iff H c X Y h).
      assert (G : nth_error hh2 (first_of (is_ h)) = Some (hvv y)) by (apply hh2_right; exists y'; split; assumption).
      rewrite Ey in G. exact G.
    + intros HC e [<-|[]]. unfold t2_right. cbn [et2 ep2]. unfold snoc. cbn [app]. rewrite resolve_idx.
      apply hh2_right. rewrite Ey. apply (repetition_t2_index_iff H c X Y h). apply HC. exact E.
Qed.

Theorem flat_rep_t2_iff :
  (forall e, In e (fst (run_diff_io H udiff noskip excl c true pairs (VList X) (VList Y))) -> t2_right e) <-> flat_guard.
Proof.
  rewrite run_rep_eq. rewrite (dio_list_g H udiff noskip excl c true pairs) by reflexivity.
  unfold iter_deephash, iter_rep, flat_guard.
  pose proof (loop_right (hashes_added H c true X Y) (hashes_removed H c true X Y)) as L.
  assert (HA : forall a, In a (hashes_added H c true X Y) -> In a hh2 /\ ~ In a hh1).
  { intros a Ha. unfold hashes_added in Ha. apply filter_In in Ha as [Hi Hm]. unfold t2_hashes, t1_hashes in *.
    apply (proj1 (dedup_In _ _)) in Hi. split; [exact Hi|]. apply negb_true_iff, mem_h_false in Hm.
    intros F. apply Hm. apply dedup_In. exact F. }
  specialize (L HA).
  destruct (added_loop _ (hashes_added H c true X Y) (hashes_removed H c true X Y)) as [ra remaining]. cbn [fst snd] in L.
  rewrite !fst_app2'. split.
  - intros HR. split.
    + apply L. intros e He. apply HR, in_or_app. left. exact He.
    + intros h Hh. apply filter_In in Hh as [Hh2 Hh1]. apply mem_h_In in Hh1.
      apply (proj1 (dedup_In _ _)) in Hh1. apply (proj1 (dedup_In _ _)) in Hh2. pose proof Hh1 as K1. pose proof Hh2 as K2.
      apply (repetition_right h K1 K2). intros e He. apply HR, in_or_app. right. apply in_or_app. right.
      apply concat_res_In. exists (repetition_one H noskip c true X Y [] [] h). split; [|exact He].
      apply in_map. apply filter_In. split; [apply dedup_In; exact K2|apply mem_h_In, dedup_In; exact K1].
  - intros [G1 G2] e He. apply in_app_or in He as [He|He]; [revert e He; apply L; exact G1|].
    apply in_app_or in He as [He|He].
    + apply concat_res_In in He as (r & Hr & He). apply in_map_iff in Hr as (h & <- & _). eapply removed_right; exact He.
    + apply concat_res_In in He as (r & Hr & He). apply in_map_iff in Hr as (h & <- & Hh).
      pose proof Hh as Hh'. apply filter_In in Hh as [Hh2 Hh1]. apply mem_h_In in Hh1.
      apply (proj1 (dedup_In _ _)) in Hh1. apply (proj1 (dedup_In _ _)) in Hh2.
      revert e He. apply (repetition_right h Hh1 Hh2). apply G2. exact Hh'.
Qed.
(* the sufficient guard of C10_io_repetition_chains_aligned implies the exact one *)
Lemma used_adds adds : forall rem a r, In (a, r) (used adds rem) -> In a adds.
Proof.
  induction adds as [|a0 adds IH]; intros rem a r; cbn [used]; [intros []|].
  destruct (partner H c true pairs X Y [] a0 rem) as [r0|].
  - intros [E|Hin]; [inversion E; left; reflexivity|right; eapply IH; exact Hin].
  - intros Hin. right. eapply IH; exact Hin.
Qed.

Theorem aligned_flat_guard : aligned H c (VList X) (VList Y) = true -> flat_guard.
Proof.
  intros A. cbn [aligned] in A. apply aligned_seq in A as (N & C1 & _). split.
  - intros a r U. left. apply used_adds in U. unfold hashes_added in U. apply filter_In in U as [U _].
    apply (proj1 (dedup_In _ _)) in U. apply indexes_single; assumption.
  - intros h Hh E. exfalso. apply E. apply filter_In in Hh as [Hh2 Hh1]. apply mem_h_In in Hh1.
    apply (proj1 (dedup_In _ _)) in Hh1. apply (proj1 (dedup_In _ _)) in Hh2.
    rewrite (indexes_single h hh2 N Hh2).
    pose proof (C1 h Hh1 Hh2) as L1. pose proof (indexes_nonempty h hh1 0 Hh1) as NE. unfold h1, h2 in *.
    destruct (indexes_of h (map (hv H c true) X) 0) as [|k [|k' l]]; cbn in *; [congruence|reflexivity|lia].
Qed.
End Flat.

(* the two witnesses of finding C10-repetition-t2-index violate the two clauses *)
Theorem flat_witnesses :
  let cfg := mkCfg false 33 100 true in
  ~ flat_guard hexhash cfg (fun _ => [(0, 2)]) [AInt 3; AInt 1; AInt 2] [AInt 4; AInt 4; AInt 3] /\
  ~ flat_guard hexhash cfg (fun _ => []) [AInt 4; AInt 4; AInt 1] [AInt 1; AInt 4; AInt 2].
Proof.
  cbv zeta. split.
  - intros [G1 _].
    specialize (G1 (hv hexhash (mkCfg false 33 100 true) true (VAtom (AInt 4)))
                   (hv hexhash (mkCfg false 33 100 true) true (VAtom (AInt 2)))).
    assert (U : In (hv hexhash (mkCfg false 33 100 true) true (VAtom (AInt 4)), hv hexhash (mkCfg false 33 100 true) true (VAtom (AInt 2)))
                   (used hexhash (mkCfg false 33 100 true) (fun _ => [(0, 2)]) [AInt 3; AInt 1; AInt 2] [AInt 4; AInt 4; AInt 3]
                      (hashes_added hexhash (mkCfg false 33 100 true) true (map VAtom [AInt 3; AInt 1; AInt 2]) (map VAtom [AInt 4; AInt 4; AInt 3]))
                      (hashes_removed hexhash (mkCfg false 33 100 true) true (map VAtom [AInt 3; AInt 1; AInt 2]) (map VAtom [AInt 4; AInt 4; AInt 3]))))
      by (vm_compute; left; reflexivity).
    destruct (G1 U) as [L|A]; [vm_compute in L; discriminate L|].
    specialize (A 2). vm_compute in A. destruct (A (or_introl eq_refl)) as [F|[F|[]]]; discriminate F.
  - intros [_ G2].
    specialize (G2 (hv hexhash (mkCfg false 33 100 true) true (VAtom (AInt 4)))).
    assert (U : In (hv hexhash (mkCfg false 33 100 true) true (VAtom (AInt 4)))
                   (filter (fun h => mem_h h (t1_hashes hexhash (mkCfg false 33 100 true) true (map VAtom [AInt 4; AInt 4; AInt 1])))
                           (t2_hashes hexhash (mkCfg false 33 100 true) true (map VAtom [AInt 1; AInt 4; AInt 2]))))
      by (vm_compute; right; left; reflexivity).
    specialize (G2 U). unfold cond2 in G2. vm_compute in G2.
    destruct (G2 (fun E => ltac:(discriminate E))) as [F|[]]. discriminate F.
Qed.

(* ... and a pair WITH repetition in t2 satisfies both: [1, 5] -> [7, 7, 5], the
   removed 1 paired with the repeated added 7 that sits at t1's index 0 *)
Example flat_guard_example :
  flat_guard hexhash (mkCfg false 33 100 true) (fun _ => [(0, 0)]) [AInt 1; AInt 5] [AInt 7; AInt 7; AInt 5].
Proof.
  split.
  - intros a r U. vm_compute in U. destruct U as [U|[]]. inversion U; subst. right. intros i Hi. vm_compute in Hi.
    destruct Hi as [<-|[]]. vm_compute. left. reflexivity.
  - intros h U. vm_compute in U. destruct U as [<-|[]]. intros E. exfalso. apply E. vm_compute. reflexivity.
Qed.
